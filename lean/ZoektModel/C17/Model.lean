/-
C17 — model of index/tombstones.go (`setTombstone`, `JsonMarshalRepoMetaTemp`), of the sidecar precedence of
index/read.go `parseMetadata`, and of the tombstone handling of index/eval.go (`indexData.Search`'s document loop,
`indexData.List`, `simplifyMultiRepo`).

A shard is what is on disk: the repository metadata embedded in the shard file (`base`), the `.meta` sidecar
(`side`, `none` = absent or empty), and the documents with the index of their repository (`d.repos[doc]`).
Strings (repository names, file names) are represented by numbers; queries by the predicate they denote.
`setTombstone` follows the code with the `fix:` commit applied (a failed rename is reported).
-/
namespace ZoektModel.C17

structure Repo where
  id : Nat
  name : Nat
  tomb : Bool
  ftombs : List Nat      -- FileTombstones
  deriving DecidableEq, Repr

structure Doc where
  repo : Nat             -- index into the shard's repository list
  name : Nat
  deriving DecidableEq, Repr

structure Shard where
  base : List Repo
  side : Option (List Repo)
  docs : List Doc
  deriving Repr

/-- `parseMetadata`: a non-empty sidecar takes precedence over the embedded metadata -/
def Shard.load (s : Shard) : List Repo := s.side.getD s.base

/-- loading a shard when reading the sidecar can fail (`os.ReadFile` returning an error other than not-exist: EMFILE,
    EACCES, EIO …): `parseMetadata` then fails and the shard is not loaded — it never falls back to the embedded metadata,
    which knows nothing of tombstones.  `none` = the load failed. -/
def Shard.loadIO (s : Shard) (readOk : Bool) : Option (List Repo) :=
  if readOk then some s.load else none

/-- the loop of `setTombstone`: every repository with that ID gets the flag -/
def flip (repos : List Repo) (id : Nat) (t : Bool) : List Repo :=
  repos.map fun r => if r.id = id then { r with tomb := t } else r

/-- `setTombstone(shardPath, repoID, tombstone)`: read the metadata (sidecar first), flip, write a temp file, rename it
    over the sidecar.  `renameOk` is the outcome of `os.Rename`.  Returns the new disk state and whether it returned nil.
    FIX (fix: setTombstone returns the error of a failed sidecar rename): the unfixed code returned nil in both cases. -/
def setTombstone (s : Shard) (id : Nat) (t : Bool) (renameOk : Bool) : Shard × Bool :=
  if renameOk then ({ s with side := some (flip s.load id t) }, true) else (s, false)

/-- the code before the fix, kept to state what was wrong -/
def setTombstoneUnfixed (s : Shard) (id : Nat) (t : Bool) (renameOk : Bool) : Shard × Bool :=
  if renameOk then ({ s with side := some (flip s.load id t) }, true) else (s, true)

/-- one operation of a history: set/unset, repository ID, outcome of the sidecar rename -/
structure TOp where
  set : Bool
  id : Nat
  renameOk : Bool
  deriving DecidableEq, Repr

def runOps (s : Shard) (ops : List TOp) : Shard :=
  ops.foldl (fun s o => (setTombstone s o.id o.set o.renameOk).1) s

/-! ### search and list over the loaded shard -/

/-- the skip conditions at the top of the document loop of `indexData.Search` -/
def live (repos : List Repo) (d : Doc) : Bool :=
  match repos[d.repo]? with
  | none => false
  | some r => !r.tomb && !r.ftombs.contains d.name

/-- `indexData.Search`: the documents that match (`m` = the query's denotation on documents) and are not skipped -/
def search (repos : List Repo) (docs : List Doc) (m : Doc → Bool) : List Doc :=
  docs.filter fun d => live repos d && m d

/-- `indexData.Search` with `SearchOptions.ShardRepoMaxMatchCount = limit` (0 = no limit): the document loop with its
    per-repository counter.  `w d = none`: the query does not match `d`; `w d = some k`: it matches with `k` line/chunk
    matches (`repoMatchCount += len(LineMatches) + ranges`).  `last`/`cnt` are `lastRepoID`/`repoMatchCount`.
    Every document — also the first one of the next repository after documents were skipped for the limit — passes the
    tombstone and file-tombstone guards before anything else. -/
def searchLim (repos : List Repo) (limit : Nat) (w : Doc → Option Nat) : List Doc → Nat → Nat → List Doc
  | [], _, _ => []
  | d :: rest, last, cnt =>
    if !live repos d then searchLim repos limit w rest last cnt
    else if decide (limit > 0) && decide (cnt ≥ limit) && d.repo == last then searchLim repos limit w rest last cnt
    else
      let cnt' := if last != d.repo then 0 else cnt
      match w d with
      | none => searchLim repos limit w rest d.repo cnt'
      | some k => d :: searchLim repos limit w rest d.repo (cnt' + k)

/-- queries as far as `List` distinguishes them -/
inductive Q where
  | const (b : Bool)
  | repoPred (p : Repo → Bool)    -- Repo, RepoRegexp, RepoSet, RepoIDs, RawConfig, Meta at the top level
  | docPred (m : Doc → Bool)      -- anything else

/-- `simplify` at the top level: `simplifyMultiRepo` counts the alive repositories that satisfy the predicate -/
def simplify (repos : List Repo) : Q → Q
  | .repoPred p =>
    let alive := repos.filter (fun r => !r.tomb)
    let count := (alive.filter p).length
    if count = alive.length then .const true
    else if count > 0 then .repoPred p
    else .const false
  | q => q

def matchesQ (repos : List Repo) : Q → Doc → Bool
  | .const b, _ => b
  | .repoPred p, d => (repos[d.repo]?).any p
  | .docPred m, d => m d

def repoNameOf (repos : List Repo) (d : Doc) : Option Nat := (repos[d.repo]?).map (·.name)

/-- `indexData.List`: indices of the repositories listed -/
def list (repos : List Repo) (docs : List Doc) (q : Q) : List Nat :=
  match simplify repos q with
  | .const false => []
  | .const true => (List.range repos.length).filter fun i => (repos[i]?).any fun r => !r.tomb
  | q' =>
    let found := (search repos docs (matchesQ repos q')).filterMap (repoNameOf repos)
    (List.range repos.length).filter fun i => (repos[i]?).any fun r => !r.tomb && found.contains r.name

end ZoektModel.C17
