import ZoektModel.Basic.Proto
import ZoektModel.C17.Spec
namespace ZoektModel.C17
open ZoektModel ZoektModel.Proto

/-! line protocol (repos: `id:name:tomb:ft.ft…` comma separated, `-` = none; docs: `repoIdx:name` comma separated)
  `step <before repos> <s|u> <id> <renameOk>`            → `res=<o|e> after=<repos>`   (one SetTombstone/UnsetTombstone call;
                                                            `before` = the metadata loaded before the call, `after` = loaded after it)
  `hist <before repos> <ops s1+,u2!,…|->`                → `after=<repos>`             (+ = rename succeeded, ! = failed)
  `search <repos> <docs> <indices of matching docs|->`   → `hits=<doc indices|->`
  `list <repos> <docs> <c0|c1|rp:<repo indices>|dp:<doc indices>>` → `repos=<repo indices|->`
  `searchlim <repos> <docs> <doc index:match count,…|-> <limit>` → `hits=<doc indices|->`   (ShardRepoMaxMatchCount = limit)
-/

def parseNats (sep : String) (t : String) : Option (List Nat) :=
  if t == "-" || t == "" then some [] else (t.splitOn sep).mapM (·.toNat?)

def parseRepo (t : String) : Option Repo :=
  match t.splitOn ":" with
  | [i, n, tb, ft] => do
    pure ⟨← i.toNat?, ← n.toNat?, ← bool? tb, ← parseNats "." ft⟩
  | _ => none

def parseRepos (t : String) : Option (List Repo) :=
  if t == "-" then some [] else (t.splitOn ",").mapM parseRepo

def showRepo (r : Repo) : String :=
  s!"{r.id}:{r.name}:{showBool r.tomb}:{if r.ftombs.isEmpty then "-" else ".".intercalate (r.ftombs.map toString)}"

def showRepos (l : List Repo) : String := showList showRepo l

def parseDocs (t : String) : Option (List Doc) :=
  if t == "-" then some [] else
  (t.splitOn ",").mapM fun e =>
    match e.splitOn ":" with
    | [a, b] => do pure ⟨← a.toNat?, ← b.toNat?⟩
    | _ => none

def parseOps (t : String) : Option (List TOp) :=
  if t == "-" then some [] else
  (t.splitOn ",").mapM fun e =>
    let body := (e.drop 1).toString
    let ok := body.endsWith "+"
    if !(ok || body.endsWith "!") then none else
    match e.front, (body.dropEnd 1).toString.toNat? with
    | 's', some i => some ⟨true, i, ok⟩
    | 'u', some i => some ⟨false, i, ok⟩
    | _, _ => none

def pick {α} (l : List α) (idx : List Nat) : List α := idx.filterMap fun i => l[i]?

def indicesOf (docs hits : List Doc) : List Nat :=
  (List.range docs.length).filter fun i => (docs[i]?).any fun d => hits.contains d

def kv (pfx : String) (t : String) : Option String :=
  if t.startsWith pfx then some (t.drop pfx.length).toString else none

def handle (line : String) : String :=
  let (inp, impl) := splitCase line
  match fields inp with
  | ["step", before, su, id, rok] =>
    match parseRepos before, id.toNat?, bool? rok with
    | some before, some id, some rok =>
      let set := su == "s"
      -- the state on disk is represented with the loaded metadata as the sidecar-or-base
      let (s', ok) := setTombstone ⟨before, none, []⟩ id set rok
      let model := s!"res={if ok then "o" else "e"} after={showRepos s'.load}"
      match fields impl with
      | [r, a] =>
        match kv "res=" r, (kv "after=" a).bind parseRepos with
        | some r, some after =>
          match checkStep before after set id (r == "o") with
          | some key => specFail model key
          | none => answer model
        | _, _ => badCase "impl step"
      | _ => badCase "impl step fields"
    | _, _, _ => badCase "step fields"
  | ["hist", before, ops] =>
    match parseRepos before, parseOps ops with
    | some before, some ops =>
      let s' := runOps ⟨before, none, []⟩ ops
      let model := s!"after={showRepos s'.load}"
      match fields impl with
      | [a] =>
        match (kv "after=" a).bind parseRepos with
        | some after =>
          if checkHist before after (ops.map fun o => (o.set, o.id, o.renameOk)) then answer model else specFail model "history-state"
        | none => badCase "impl hist"
      | _ => badCase "impl hist fields"
    | _, _ => badCase "hist fields"
  | ["search", repos, docs, mt] =>
    match parseRepos repos, parseDocs docs, parseNats "," mt with
    | some repos, some docs, some mt =>
      let matching := pick docs mt
      let hits := search repos docs (fun d => matching.contains d)
      let model := s!"hits={showNatList (indicesOf docs hits)}"
      match fields impl with
      | [h] =>
        match (kv "hits=" h).bind (parseNats ",") with
        | some ih =>
          if checkSearch repos matching (pick docs ih) then answer model
          else if (pick docs ih).any (fun d => hidden repos d) then specFail model "tombstoned-document-in-results"
          else specFail model "results-differ-from-live-matches"
        | none => badCase "impl search"
      | _ => badCase "impl search fields"
    | _, _, _ => badCase "search fields"
  | ["searchlim", repos, docs, ws, lim] =>
    match parseRepos repos, parseDocs docs, parseDocs ws, lim.toNat? with
    | some repos, some docs, some ws, some lim =>
      -- `ws` reuses the `a:b` syntax: document index : number of matches
      let weight := fun (d : Doc) =>
        (List.range docs.length).findSome? fun i =>
          if docs[i]? == some d then (ws.find? (fun x => x.repo == i)).map (·.name) else none
      let matching := pick docs (ws.map (·.repo))
      let hits := searchLim repos lim weight docs 0 0
      let model := s!"hits={showNatList (indicesOf docs hits)}"
      match fields impl with
      | [h] =>
        match (kv "hits=" h).bind (parseNats ",") with
        | some ih =>
          if checkSearchLim repos matching (pick docs ih) then answer model
          else if (pick docs ih).any (fun d => hidden repos d) then specFail model "tombstoned-document-in-limited-results"
          else specFail model "limited-results-wrong"
        | none => badCase "impl searchlim"
      | _ => badCase "impl searchlim fields"
    | _, _, _, _ => badCase "searchlim fields"
  -- `loadf <embedded repos> <sidecar repos|none> <readOk>` → `res=e` | `res=o repos=<loaded>`  (a load that may hit a sidecar read fault)
  | ["loadf", base, side, rok] =>
    match parseRepos base, (if side == "none" then some none else (parseRepos side).map some), bool? rok with
    | some base, some side, some rok =>
      let model := match (Shard.loadIO ⟨base, side, []⟩ rok) with
        | none => "res=e"
        | some l => s!"res=o repos={showRepos l}"
      match fields impl with
      | ["res=e"] => answer model
      | ["res=o", r] =>
        match (kv "repos=" r).bind parseRepos with
        | some l => if checkLoad base side (some l) then answer model else specFail model "reload-forgot-sidecar"
        | none => badCase "impl loadf repos"
      | _ => badCase "impl loadf"
    | _, _, _ => badCase "loadf fields"
  | ["list", repos, docs, q] =>
    match parseRepos repos, parseDocs docs with
    | some repos, some docs =>
      let q? : Option Q :=
        if q == "c1" then some (.const true) else if q == "c0" then some (.const false)
        else match kv "rp:" q, kv "dp:" q with
          | some t, _ => (parseNats "," t).map fun idx => Q.repoPred fun r => idx.any fun i => repos[i]? == some r
          | _, some t => (parseNats "," t).map fun idx => Q.docPred fun d => (pick docs idx).contains d
          | _, _ => none
      match q? with
      | none => badCase "list query"
      | some qq =>
        let model := s!"repos={showNatList (list repos docs qq)}"
        match fields impl with
        | [r] =>
          match (kv "repos=" r).bind (parseNats ",") with
          | some listed => if checkList repos listed then answer model else specFail model "tombstoned-repository-listed"
          | none => badCase "impl list"
        | _ => badCase "impl list fields"
    | _, _ => badCase "list fields"
  | _ => badCase "op"

def main : IO Unit := runLines handle
end ZoektModel.C17
