import ZoektModel.Basic.Proto
namespace ZoektModel.C17
/-- stub: no model driver for C17 yet -/
def main : IO Unit := ZoektModel.Proto.runLines (fun _ => ZoektModel.Proto.badCase "no model driver for C17")
end ZoektModel.C17
