/- C17 — helper lemmas for Props/C17.lean -/
import ZoektModel.C17.Spec
namespace ZoektModel.C17
set_option linter.unusedSimpArgs false

theorem filter_length_eq_iff {α} (p : α → Bool) (l : List α) : (l.filter p).length = l.length ↔ ∀ a ∈ l, p a = true := by
  induction l with
  | nil => simp
  | cons a t ih =>
    by_cases h : p a = true
    · simp [h, ih]
    · have : (t.filter p).length ≤ t.length := List.length_filter_le _ _
      simp [h]
      omega

theorem listWF_flip (repos : List Repo) (docs : List Doc) (hwf : ListWF repos docs) (id : Nat) :
    ListWF (flip repos id true) docs := by
  constructor
  · intro i j ri rj hi hj hn
    simp only [flip, List.getElem?_map] at hi hj
    cases hri : repos[i]? with
    | none => simp [hri] at hi
    | some a =>
      cases hrj : repos[j]? with
      | none => simp [hrj] at hj
      | some b =>
        simp [hri] at hi; simp [hrj] at hj
        apply hwf.names i j a b hri hrj
        subst hi; subst hj
        revert hn
        by_cases h1 : a.id = id <;> by_cases h2 : b.id = id <;> simp [h1, h2]
  · intro i r hi ht
    simp only [flip, List.getElem?_map] at hi
    cases hri : repos[i]? with
    | none => simp [hri] at hi
    | some a =>
      simp [hri] at hi
      by_cases h1 : a.id = id
      · simp [h1] at hi; subst hi; simp at ht
      · simp [h1] at hi; subst hi
        obtain ⟨d, hd, hdi, hl⟩ := hwf.hasDoc i a hri ht
        refine ⟨d, hd, hdi, ?_⟩
        simp only [live, flip, List.getElem?_map, hdi, hri] at hl ⊢
        simpa [h1] using hl

end ZoektModel.C17
