/-
C17 — the property as executable predicates, written from the statement.
-/
import ZoektModel.C17.Model
namespace ZoektModel.C17

/-- a document the property wants hidden: its repository is tombstoned or its path is a file tombstone -/
def hidden (repos : List Repo) (d : Doc) : Bool :=
  match repos[d.repo]? with
  | none => true
  | some r => r.tomb || r.ftombs.contains d.name

/-- search results: nothing hidden appears, and everything that matches and is not hidden appears
    (`matching` = the documents the query matches when tombstones are ignored) -/
def checkSearch (repos : List Repo) (matching : List Doc) (hits : List Doc) : Bool :=
  hits.all (fun d => !hidden repos d) &&
  hits.all (fun d => matching.contains d) &&
  matching.all (fun d => hidden repos d || hits.contains d)

/-- search results under a per-repository limit: nothing hidden appears, only matching documents appear, and whatever
    the limit removes, the first matching visible document of every repository is still there -/
def checkSearchLim (repos : List Repo) (matching : List Doc) (hits : List Doc) : Bool :=
  hits.all (fun d => !hidden repos d) &&
  hits.all (fun d => matching.contains d) &&
  matching.all (fun d => hidden repos d || hits.any (fun h => h.repo == d.repo))

/-- a (re)load observed while the sidecar may be unreadable: it may fail, but if it yields metadata, that metadata is the
    sidecar's when a sidecar exists (tombstones survive the reload), the embedded one otherwise -/
def checkLoad (base : List Repo) (side : Option (List Repo)) (loaded : Option (List Repo)) : Bool :=
  match loaded with
  | none => true
  | some l => l == side.getD base

/-- listings never contain a tombstoned repository -/
def checkList (repos : List Repo) (listed : List Nat) : Bool :=
  listed.all fun i => (repos[i]?).any fun r => !r.tomb

/-- one `SetTombstone`/`UnsetTombstone` call observed on disk: `before`/`after` = the loaded metadata.
    success ⇒ effect; only that repository is affected; nothing else about the repositories changes -/
def checkStep (before after : List Repo) (set : Bool) (id : Nat) (reportedOk : Bool) : Option String :=
  if after.map (fun r => (r.id, r.name, r.ftombs)) != before.map (fun r => (r.id, r.name, r.ftombs)) then some "repos-changed"
  else if (before.zip after).any (fun p => p.1.id != id && p.1.tomb != p.2.tomb) then some "not-isolated"
  else if reportedOk && after.any (fun r => r.id == id && r.tomb != set) then some "success-without-effect"
  else if !reportedOk && after != before then some "failure-with-effect"
  else none

/-- the state a history of operations must lead to: a repository is tombstoned iff the last operation on its ID that
    reported success was a set (and as it was before, if there is none) -/
def lastStep (id : Nat) (acc : Option Bool) (o : Bool × Nat × Bool) : Option Bool :=
  if o.2.1 = id && o.2.2 then some o.1 else acc

def lastOp (ops : List (Bool × Nat × Bool)) (id : Nat) : Option Bool :=
  ops.foldl (lastStep id) none

def checkHist (before after : List Repo) (ops : List (Bool × Nat × Bool)) : Bool :=
  after == before.map fun r => { r with tomb := (lastOp ops r.id).getD r.tomb }

/-- well-formedness of a loaded compound shard as far as `List` is concerned: repository names are unique, and every
    alive repository has at least one document that is not file-tombstoned (`index.Merge` drops empty repositories) -/
structure ListWF (repos : List Repo) (docs : List Doc) : Prop where
  names : ∀ (i j : Nat) (ri rj : Repo), repos[i]? = some ri → repos[j]? = some rj → ri.name = rj.name → i = j
  hasDoc : ∀ (i : Nat) (r : Repo), repos[i]? = some r → r.tomb = false → ∃ d ∈ docs, d.repo = i ∧ live repos d = true

/-- what `List` should answer for a repository predicate: the alive repositories that satisfy it -/
def listSpec (repos : List Repo) (p : Repo → Bool) : List Nat :=
  (List.range repos.length).filter fun i => (repos[i]?).any fun r => !r.tomb && p r

end ZoektModel.C17
