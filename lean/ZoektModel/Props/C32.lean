/-
C32 — Cleanup never loses an assigned repository.

Statement: periodic cleanup never deletes or trashes the shards of a repository currently assigned to the server
(unless its shards disagree on the repository name), restores assigned repositories found in the trash, moves every
unassigned repository out of the searchable index (to the trash or by tombstoning it in a compound shard), and
permanently deletes trashed shards only once they are older than 24 hours or conflict with an indexed copy.
Quantifier: all index directories and all assigned sets, over repeated cleanups.

Model: C32/Model.lean (cleanup.go's six phases over abstract directory states).  Lemmas: C32/Lemmas, C32/Phases.
-/
import ZoektModel.C32.Shape
namespace ZoektModel.C32

theorem cleanup_removes_tmps (d : Dir) (a : List Nat) (now : Int) (m : Bool) : (cleanup d a now m).tmps = 0 := by
  simp [cleanup]

/-- the shards in the trash are simple: a trashed file lists at most one repository alive (cleanup itself never moves
    a compound shard into the trash — `moveAll` deletes it instead) -/
def TrashSimple (d : Dir) : Prop := ∀ f ∈ d.trash, ∀ a b, aliveIn f a = true → aliveIn f b = true → a = b

/-- file names are unique within the trash directory -/
def TrashNamesUnique (d : Dir) : Prop := ∀ f ∈ d.trash, ∀ g ∈ d.trash, f.compound = g.compound → f.key = g.key → f = g

/-- **unassigned_unsearchable**: for every directory state (simple and compound shards, tombstones, renamed
    repositories, any trash of simple shards), every assigned list, clock and shard-merging setting, no repository
    outside the assigned list is alive in any file of the index directory after `cleanup` -/
theorem unassigned_unsearchable (d : Dir) (A : List Nat) (now : Int) (m : Bool) (H1 : TrashSimple d) (H2 : TrashNamesUnique d)
    (id : Nat) (hid : A.contains id = false) : searchable (cleanup d A now m).index id = false := by
  cases hsr : searchable (cleanup d A now m).index id
  · rfl
  exfalso
  obtain ⟨c, k, hal⟩ := (searchable_iff _ _).mp hsr
  -- name the phases
  have e : (cleanup d A now m).index =
      (phase5 now m
        (phase4 A (phase1 now (getShards d.index false) (getShards d.trash true) d).2
          (phase2 (getShards d.index false) (phase1 now (getShards d.index false) (getShards d.trash true) d).2 (getTombs d.index))
          (phase3 m (getShards d.index false) (phase1 now (getShards d.index false) (getShards d.trash true) d).1).1
          (phase3 m (getShards d.index false) (phase1 now (getShards d.index false) (getShards d.trash true) d).1).2).2
        (phase4 A (phase1 now (getShards d.index false) (getShards d.trash true) d).2
          (phase2 (getShards d.index false) (phase1 now (getShards d.index false) (getShards d.trash true) d).2 (getTombs d.index))
          (phase3 m (getShards d.index false) (phase1 now (getShards d.index false) (getShards d.trash true) d).1).1
          (phase3 m (getShards d.index false) (phase1 now (getShards d.index false) (getShards d.trash true) d).1).2).1).index := rfl
  rw [e] at hal
  generalize hi0 : getShards d.index false = index0 at hal
  generalize ht0 : getShards d.trash true = trash0 at hal
  have hinI : ∀ e ∈ index0, ∀ s ∈ e.2, s.inTrash = false := by
    intro e he s hs; rw [← hi0] at he; exact (getShards_sound d.index false e he s hs).2.1
  have hinT : ∀ e ∈ trash0, ∀ s ∈ e.2, s.inTrash = true := by
    intro e he s hs; rw [← ht0] at he; exact (getShards_sound d.trash true e he s hs).2.1
  have p1 := phase1_facts now index0 trash0 d hinT
  generalize phase1 now index0 trash0 d = P1 at hal p1
  have p3 := phase3_facts m index0 P1.1 hinI
  generalize phase3 m index0 P1.1 = P3 at hal p3
  -- restoring is safe: a trashed shard recorded for an assigned repository lists only that repository alive
  have hsafe : ∀ e ∈ P1.2, A.contains e.1 = true → ∀ s ∈ e.2, SafeAt A d.trash s.compound s.key := by
    intro e he hA s hs f hf hb a ha
    have he0 : e ∈ getShards d.trash true := by rw [ht0]; exact p1.2.2 e he
    obtain ⟨_, _, f0, hf0, hb0, ha0⟩ := getShards_sound d.trash true e he0 s hs
    rw [sameBase_iff] at hb hb0
    have : f = f0 := H2 f hf f0 hf0 (hb.1.trans hb0.1.symm) (hb.2.trans hb0.2.symm)
    subst this
    rw [H1 f hf a e.1 ha ha0]; exact hA
  have p4 := phase4_facts A P1.2 (phase2 index0 P1.2 (getTombs d.index)) P3.1 P3.2 d.trash
    (by rw [p3.2.1]; exact p1.2.1) hsafe
  generalize phase4 A P1.2 (phase2 index0 P1.2 (getTombs d.index)) P3.1 P3.2 = P4 at hal p4
  have p5 := phase5_facts now m P4.2 P4.1
  -- alive at the end ⇒ alive at that basename all the way back
  have a4 : AliveAt P4.1.index id c k := p5.1 id c k hal
  have a3 : AliveAt P3.1.index id c k := p4.1 id hid c k a4
  have a1 : AliveAt P1.1.index id c k := p3.1 id c k a3
  rw [p1.1] at a1
  obtain ⟨e0, he0, hkey, s, hs, hsc, hsk, _⟩ := getShards_complete d.index false id c k a1
  rw [hi0] at he0
  cases hc : consistentRepoName e0.2
  · -- inconsistently named: phase 3 took it out of the index
    have := p3.2.2.1 e0 he0 hc s hs
    rw [hkey, hsc, hsk] at this
    exact this a3
  · -- consistently named and not assigned: still in the map for phase 5
    have h3 : e0 ∈ P3.2 := by rw [p3.2.2.2]; exact List.mem_filter.mpr ⟨he0, hc⟩
    have h4 : e0 ∈ P4.2 := p4.2 e0 h3 (by rw [hkey]; exact hid)
    have := p5.2 e0 h4 s hs
    rw [hkey, hsc, hsk] at this
    exact this hal

/-- the executable statement agrees: `unassignedGone` finds nothing -/
theorem unassignedGone_none (d : Dir) (A : List Nat) (now : Int) (m : Bool) (H1 : TrashSimple d) (H2 : TrashNamesUnique d) :
    unassignedGone d (cleanup d A now m) A = none := by
  unfold unassignedGone
  rw [List.find?_eq_none]
  intro id _
  cases hA : A.contains id
  · simp [unassigned_unsearchable d A now m H1 H2 id hA]
  · simp

/-- file names are unique within the index directory -/
def IndexNamesUnique (d : Dir) : Prop := ∀ f ∈ d.index, ∀ g ∈ d.index, f.compound = g.compound → f.key = g.key → f = g

/-- **assigned_kept** (partial): an index file survives cleanup, with every repository that was alive in it still
    alive, provided every repository alive in it is assigned and consistently named, and no trashed file carries its
    name.  The two exclusions are exactly the known findings: (a) the file also holds an unassigned or inconsistently
    named repository — only a compound shard can — and the code then may delete the whole file
    (`assigned_kept_full_false`); (b) a trashed shard of another repository has the same file name
    (`restore_overwrites_same_basename`). -/
theorem assigned_kept_partial (d : Dir) (A : List Nat) (now : Int) (m : Bool) (f : File) (hf : f ∈ d.index)
    (HU : IndexNamesUnique d)
    (Hall : ∀ id, aliveIn f id = true → A.contains id = true ∧ consistent d.index id = true)
    (Hdisj : ∀ g ∈ d.trash, sameBase g f.compound f.key = false) :
    Kept f (cleanup d A now m).index := by
  have e : (cleanup d A now m).index =
      (phase5 now m
        (phase4 A (phase1 now (getShards d.index false) (getShards d.trash true) d).2
          (phase2 (getShards d.index false) (phase1 now (getShards d.index false) (getShards d.trash true) d).2 (getTombs d.index))
          (phase3 m (getShards d.index false) (phase1 now (getShards d.index false) (getShards d.trash true) d).1).1
          (phase3 m (getShards d.index false) (phase1 now (getShards d.index false) (getShards d.trash true) d).1).2).2
        (phase4 A (phase1 now (getShards d.index false) (getShards d.trash true) d).2
          (phase2 (getShards d.index false) (phase1 now (getShards d.index false) (getShards d.trash true) d).2 (getTombs d.index))
          (phase3 m (getShards d.index false) (phase1 now (getShards d.index false) (getShards d.trash true) d).1).1
          (phase3 m (getShards d.index false) (phase1 now (getShards d.index false) (getShards d.trash true) d).1).2).1).index := rfl
  rw [e]
  -- a shard of the index map that names f's basename belongs to a repository alive in f
  have hown : ∀ e ∈ getShards d.index false, ∀ s ∈ e.2, ¬ Off f s → aliveIn f e.1 = true := by
    intro e he s hs hoff
    obtain ⟨_, _, g, hg, hb, ha⟩ := getShards_sound d.index false e he s hs
    have hoff' : s.compound = f.compound ∧ s.key = f.key := Classical.not_not.mp hoff
    rw [sameBase_iff] at hb
    have : g = f := HU g hg f hf (hb.1.trans hoff'.1) (hb.2.trans hoff'.2)
    rw [← this]; exact ha
  have hinT : ∀ e ∈ getShards d.trash true, ∀ s ∈ e.2, s.inTrash = true :=
    fun e he s hs => (getShards_sound d.trash true e he s hs).2.1
  have p1 := phase1_facts now (getShards d.index false) (getShards d.trash true) d hinT
  generalize phase1 now (getShards d.index false) (getShards d.trash true) d = P1 at p1 ⊢
  have k1 : Kept f P1.1.index := by rw [p1.1]; exact ⟨f, hf, by simp [sameBase], fun _ h => h⟩
  -- phase 3: an inconsistently named repository is not alive in f, so none of its shards names f
  have k3 := kept_phase3 (f := f) m (getShards d.index false) P1.1 (by
    intro e he hc s hs hoff
    have hal := hown e he s hs (fun h => h hoff)
    have := consistent_link d.index false e.1 (Hall e.1 hal).2 e he rfl
    rw [hc] at this; cases this) k1
  have p3 := phase3_facts m (getShards d.index false) P1.1 (fun e he s hs => (getShards_sound d.index false e he s hs).2.1)
  generalize phase3 m (getShards d.index false) P1.1 = P3 at k3 p3 ⊢
  -- phase 4: restored shards carry names of trashed files, none of which is f's
  have k4 := kept_phase4 (f := f) A P1.2 (phase2 (getShards d.index false) P1.2 (getTombs d.index)) P3.1 P3.2 (by
    intro e he s hs hoff
    obtain ⟨_, _, g, hg, hb, _⟩ := getShards_sound d.trash true e (p1.2.2 e he) s hs
    rw [sameBase_iff] at hb
    have := Hdisj g hg
    rw [← hoff.1, ← hoff.2] at this
    have hb' : sameBase g s.compound s.key = true := by rw [sameBase_iff]; exact hb
    rw [hb'] at this; cases this) k3
  have m4 := phase4_map_sub A P1.2 (phase2 (getShards d.index false) P1.2 (getTombs d.index)) P3.1 P3.2
  generalize phase4 A P1.2 (phase2 (getShards d.index false) P1.2 (getTombs d.index)) P3.1 P3.2 = P4 at k4 m4 ⊢
  -- phase 5: what is left is not assigned, hence not alive in f
  apply kept_phase5 now m P4.2 P4.1 _ k4
  intro e he s hs hoff
  have h4 := m4 e he
  have he0 : e ∈ getShards d.index false := by
    have := h4.1; rw [p3.2.2.2] at this; exact (List.mem_filter.mp this).1
  have hal := hown e he0 s hs (fun h => h hoff)
  rw [(Hall e.1 hal).1] at h4; cases h4.2

/-- in particular, with the statement's own predicate: nothing is reported lost for such a repository -/
theorem assigned_kept_partial_keptIn (d : Dir) (A : List Nat) (now : Int) (m : Bool) (f : File) (hf : f ∈ d.index)
    (HU : IndexNamesUnique d) (Hall : ∀ id, aliveIn f id = true → A.contains id = true ∧ consistent d.index id = true)
    (Hdisj : ∀ g ∈ d.trash, sameBase g f.compound f.key = false) (id : Nat) (hid : aliveIn f id = true) :
    keptIn (cleanup d A now m).index f id = true := by
  obtain ⟨g, hg, hb, ha⟩ := assigned_kept_partial d A now m f hf HU Hall Hdisj
  simp only [keptIn, List.any_eq_true]
  exact ⟨g, hg, by simp [hb, ha id hid]⟩

/-- **the failure keys are sound**: on the model, an assigned repository never loses a file outside the two excluded
    classes — the check's key `assigned-lost` (as opposed to the known-finding keys) is never produced by the model, so a
    real directory on which it appears is a behaviour the modelled `cleanup` does not have -/
theorem assigned_loss_is_known_class (d : Dir) (A : List Nat) (now : Int) (m : Bool) (HU : IndexNamesUnique d) :
    lossKey d A (lostPairs d (cleanup d A now m) A) ≠ some "assigned-lost" := by
  intro hk
  -- some lost pair is unclassified
  have hex : ∃ q ∈ lostPairs d (cleanup d A now m) A, lossClass d A q.2 = "assigned-lost" := by
    unfold lossKey at hk
    cases hl : lostPairs d (cleanup d A now m) A with
    | nil => rw [hl] at hk; cases hk
    | cons p r =>
      rw [hl] at hk
      simp only at hk
      by_cases hany : ((p :: r).any fun q => lossClass d A q.2 == "assigned-lost") = true
      · obtain ⟨q, hq, hc⟩ := List.any_eq_true.mp hany
        exact ⟨q, hq, by simpa using hc⟩
      · rw [if_neg hany] at hk
        injection hk with hk
        exact ⟨p, by simp, hk⟩
  obtain ⟨⟨id, f⟩, hq, hc⟩ := hex
  simp only [lostPairs, List.mem_flatMap] at hq
  obtain ⟨id', _, hq⟩ := hq
  by_cases hcons : consistent d.index id' = true
  case neg => rw [if_neg hcons] at hq; cases hq
  rw [if_pos hcons] at hq
  simp only [List.mem_map, List.mem_filter, Bool.and_eq_true, Bool.not_eq_true', Prod.mk.injEq] at hq
  obtain ⟨f', ⟨hf', hal, hnk⟩, rfl, rfl⟩ := hq
  -- the class is the generic one: the file holds only assigned, consistently named repositories, and no trashed file has its name
  simp only [lossClass] at hc
  have hforeign : holdsForeign d A f' = false := by
    cases h : holdsForeign d A f'
    · rfl
    · rw [h] at hc; simp only [if_true] at hc; split at hc <;> exact absurd hc (by decide)
  rw [hforeign] at hc
  simp only [Bool.false_eq_true, if_false] at hc
  have hbase : hasBase d.trash f'.compound f'.key = false := by
    cases h : hasBase d.trash f'.compound f'.key
    · rfl
    · rw [h] at hc; exact absurd hc (by decide)
  have Hall : ∀ id, aliveIn f' id = true → A.contains id = true ∧ consistent d.index id = true := by
    intro id hid
    rw [aliveIn_iff] at hid
    obtain ⟨r, hr, hrid, hrt⟩ := hid
    simp only [holdsForeign, List.any_eq_false, Bool.and_eq_true, Bool.not_eq_true', Bool.or_eq_true, not_and, not_or] at hforeign
    have := hforeign r hr hrt
    rw [hrid] at this
    exact ⟨by simpa using this.1, by simpa using this.2⟩
  have Hdisj : ∀ g ∈ d.trash, sameBase g f'.compound f'.key = false := by
    intro g hg
    simp only [hasBase, List.any_eq_false] at hbase
    simpa using hbase g hg
  have := assigned_kept_partial_keptIn d A now m f' hf' HU Hall Hdisj id' hal
  rw [hnk] at this; cases this

/-- **trash_purge_rule** for the purge phase (the only phase whose purpose is to delete from the trash): a trashed
    file is gone after phase 1 only if a repository alive in it has a trashed shard older than 24 h or an indexed copy.
    (Later phases only move trashed files back into the index, or — the known finding
    C32-fresh-trash-replaced-same-basename — replace one by a newly trashed shard of the same file name.) -/
theorem trash_purge_rule_phase1 (d : Dir) (now : Int) (H2 : TrashNamesUnique d) (f : File) (hf : f ∈ d.trash) :
    TKept f (phase1 now (getShards d.index false) (getShards d.trash true) d).1.trash ∨
      ∃ id, aliveIn f id = true ∧ (oldInTrash d now id = true ∨ searchable d.index id = true) := by
  rcases tkept_phase1 (f := f) now (getShards d.index false) (getShards d.trash true) d ⟨f, hf, by simp [sameBase], rfl⟩ with h | h
  · exact Or.inl h
  · right
    obtain ⟨e, he, hwhy, s, hs, hoff⟩ := h
    have hoff' : s.compound = f.compound ∧ s.key = f.key := Classical.not_not.mp hoff
    obtain ⟨_, _, g, hg, hb, ha⟩ := getShards_sound d.trash true e he s hs
    rw [sameBase_iff] at hb
    have hgf : g = f := H2 g hg f hf (hb.1.trans hoff'.1) (hb.2.trans hoff'.2)
    refine ⟨e.1, by rw [← hgf]; exact ha, ?_⟩
    rcases hwhy with hidx | hold
    · right
      simp only [mapHas, List.any_eq_true, beq_iff_eq] at hidx
      obtain ⟨e', he', hk⟩ := hidx
      have hne := getShards_entry_nonempty d.index false e' he'
      cases hl : e'.2 with
      | nil => exact absurd hl hne
      | cons s' r =>
        obtain ⟨_, _, g', hg', _, ha'⟩ := getShards_sound d.index false e' he' s' (by rw [hl]; simp)
        simp only [searchable, List.any_eq_true]
        exact ⟨g', hg', by rw [← hk]; exact ha'⟩
    · left
      simp only [List.any_eq_true, decide_eq_true_eq] at hold
      obtain ⟨s', hs', hlt⟩ := hold
      have hk := (getShards_spec d.trash true).1 e he s' hs'
      obtain ⟨f', hf', r, hr, htomb, rfl⟩ := (getShards_spec d.trash true).2.2 e he s' hs'
      simp only [oldInTrash, List.any_eq_true, Bool.and_eq_true, decide_eq_true_eq]
      refine ⟨f', hf', ?_, hlt⟩
      rw [aliveIn_iff]
      exact ⟨r, hr, by rw [← hk]; rfl, htomb⟩

/-- **assigned_restored** (partial): an assigned repository that is not in the index and whose trashed shards are all
    younger than 24 h gets its trashed shard `f` back into the index directory, alive.  Hypotheses: `f` is a simple
    shard holding just that repository; the assigned list has no duplicates (a second restore of the same id would
    delete what the first restored); the trash listing has no duplicates and distinct file names; and no index file
    carries `f`'s name (otherwise the known findings C32-restore-overwrites-same-basename /
    C32-restored-then-trashed-same-basename apply). -/
theorem assigned_restored_partial (d : Dir) (A : List Nat) (now : Int) (m : Bool) (r : Nat) (f : File) (x : Repo)
    (hf : f ∈ d.trash) (hfs : f.compound = false) (hrepos : f.repos = [x]) (hxid : x.id = r) (hxt : x.tomb = false)
    (hr : r ∈ A) (hnd : A.Nodup) (htn : d.trash.Nodup) (H2 : TrashNamesUnique d)
    (hni : searchable d.index r = false) (hnold : oldInTrash d now r = false)
    (hdisj : ∀ g ∈ d.index, sameBase g f.compound f.key = false) :
    keptIn (cleanup d A now m).index f r = true := by
  have halive : aliveIn f r = true := by rw [aliveIn_iff, hrepos]; exact ⟨x, by simp, hxid, hxt⟩
  have honly : ∀ id, aliveIn f id = true → id = r := by
    intro id hid
    rw [aliveIn_iff, hrepos] at hid
    obtain ⟨y, hy, h1, _⟩ := hid
    simp only [List.mem_singleton] at hy
    rw [← h1, hy, hxid]
  -- a trash shard named like f belongs to r
  have hownT : ∀ e ∈ getShards d.trash true, ∀ s ∈ e.2, ¬ Off f s → e.1 = r := by
    intro e he s hs hoff
    obtain ⟨_, _, g, hg, hb, ha⟩ := getShards_sound d.trash true e he s hs
    have hoff' : s.compound = f.compound ∧ s.key = f.key := Classical.not_not.mp hoff
    rw [sameBase_iff] at hb
    have : g = f := H2 g hg f hf (hb.1.trans hoff'.1) (hb.2.trans hoff'.2)
    rw [this] at ha; exact honly _ ha
  -- the entry of r in the trash map, with exactly one shard named like f
  obtain ⟨e, he, hek, s, hs, hsc, hsk, _⟩ := getShards_complete d.trash true r f.compound f.key ⟨f, hf, by simp [sameBase], halive⟩
  have hex : ∃ s ∈ e.2, atF f s = true := ⟨s, hs, by simp [atF, hsc, hsk]⟩
  have hcnt : e.2.countP (atF f) ≤ 1 := by
    have h1 := countP_le_cntF f _ e he
    rw [cntF_getShards] at h1
    have h2 := WF_unique f d.trash htn (fun g hg hb => by
      rw [sameBase_iff] at hb; exact H2 g hg f hf hb.1 hb.2)
    have h3 : wF f f = 1 := by simp [wF, sameBase, hrepos, hxt]
    omega
  -- no entry of r is purged in phase 1
  have hnopurge : ∀ e' ∈ getShards d.trash true, e'.1 = e.1 → purgeable now (getShards d.index false) e' = false := by
    intro e' he' hk
    rw [hek] at hk
    cases hp : purgeable now (getShards d.index false) e'
    · rfl
    exfalso
    simp only [purgeable, Bool.or_eq_true] at hp
    rcases hp with hidx | hold
    · simp only [mapHas, List.any_eq_true, beq_iff_eq] at hidx
      obtain ⟨e'', he'', hk''⟩ := hidx
      have hne := getShards_entry_nonempty d.index false e'' he''
      cases hl : e''.2 with
      | nil => exact hne hl
      | cons s' rest =>
        obtain ⟨_, _, g', hg', _, ha'⟩ := getShards_sound d.index false e'' he'' s' (by rw [hl]; simp)
        have : searchable d.index r = true := by
          simp only [searchable, List.any_eq_true]; exact ⟨g', hg', by rw [← hk, ← hk'']; exact ha'⟩
        rw [hni] at this; cases this
    · simp only [List.any_eq_true, decide_eq_true_eq] at hold
      obtain ⟨s', hs', hlt⟩ := hold
      have hkd := (getShards_spec d.trash true).1 e' he' s' hs'
      obtain ⟨f', hf', r', hr', htomb, rfl⟩ := (getShards_spec d.trash true).2.2 e' he' s' hs'
      have : oldInTrash d now r = true := by
        simp only [oldInTrash, List.any_eq_true, Bool.and_eq_true, decide_eq_true_eq]
        refine ⟨f', hf', ?_, hlt⟩
        rw [aliveIn_iff]; exact ⟨r', hr', by rw [← hk, ← hkd]; rfl, htomb⟩
      rw [hnold] at this; cases this
  have e0 : (cleanup d A now m).index =
      (phase5 now m
        (phase4 A (phase1 now (getShards d.index false) (getShards d.trash true) d).2
          (phase2 (getShards d.index false) (phase1 now (getShards d.index false) (getShards d.trash true) d).2 (getTombs d.index))
          (phase3 m (getShards d.index false) (phase1 now (getShards d.index false) (getShards d.trash true) d).1).1
          (phase3 m (getShards d.index false) (phase1 now (getShards d.index false) (getShards d.trash true) d).1).2).2
        (phase4 A (phase1 now (getShards d.index false) (getShards d.trash true) d).2
          (phase2 (getShards d.index false) (phase1 now (getShards d.index false) (getShards d.trash true) d).2 (getTombs d.index))
          (phase3 m (getShards d.index false) (phase1 now (getShards d.index false) (getShards d.trash true) d).1).1
          (phase3 m (getShards d.index false) (phase1 now (getShards d.index false) (getShards d.trash true) d).1).2).1).index := rfl
  rw [e0]
  -- phase 1
  have pm := phase1_map now (getShards d.index false) (getShards d.trash true) d
  have pu := namesUnique_phase1 now (getShards d.index false) (getShards d.trash true) d (fun a ha b hb => H2 a ha b hb)
  have pk : TKept f (phase1 now (getShards d.index false) (getShards d.trash true) d).1.trash := by
    rcases tkept_phase1 (f := f) now (getShards d.index false) (getShards d.trash true) d ⟨f, hf, by simp [sameBase], rfl⟩ with h | h
    · exact h
    · exfalso
      obtain ⟨e', he', hwhy, s', hs', hoff⟩ := h
      have hk' := hownT e' he' s' hs' hoff
      have := hnopurge e' he' (by rw [hk', hek])
      simp only [purgeable, Bool.or_eq_false_iff] at this
      rcases hwhy with h1 | h1
      · rw [this.1] at h1; cases h1
      · rw [this.2] at h1; cases h1
  have hein := pm.2 e he hnopurge
  have hks := keysSorted_sub (getShards_keysSorted d.trash true) pm.1
  have p1 := phase1_facts now (getShards d.index false) (getShards d.trash true) d
    (fun e he s hs => (getShards_sound d.trash true e he s hs).2.1)
  generalize phase1 now (getShards d.index false) (getShards d.trash true) d = P1 at pm pu pk hein hks p1 ⊢
  have p3 := phase3_facts m (getShards d.index false) P1.1 (fun e he s hs => (getShards_sound d.index false e he s hs).2.1)
  generalize phase3 m (getShards d.index false) P1.1 = P3 at p3 ⊢
  -- phase 4
  have hget : mapGet P1.2 r = some e.2 := by rw [← hek]; exact mapGet_of_mem hks e hein
  have k4 := phase4_restores (f := f) hfs A r hr hnd P1.2 (phase2 (getShards d.index false) P1.2 (getTombs d.index)) P3.1 P3.2 e.2
    hget hcnt hex (by
      intro id hid sh hg s' hs'
      obtain ⟨e', he', h1, h2⟩ := mapGet_some_mem P1.2 id sh hg
      intro hoff
      have := hownT e' (pm.1.subset he') s' (by rw [h2]; exact hs') (fun h => h hoff)
      exact hid (h1 ▸ this)) (by rw [p3.2.1]; exact pk) (by rw [p3.2.1]; exact pu)
  have m4 := phase4_map_sub A P1.2 (phase2 (getShards d.index false) P1.2 (getTombs d.index)) P3.1 P3.2
  generalize phase4 A P1.2 (phase2 (getShards d.index false) P1.2 (getTombs d.index)) P3.1 P3.2 = P4 at k4 m4 ⊢
  -- phase 5: no index shard is named like f
  have k5 := kept_phase5 (f := f) now m P4.2 P4.1 (by
    intro e' he' s' hs' hoff
    have h4 := (m4 e' he').1
    rw [p3.2.2.2] at h4
    obtain ⟨_, _, g, hg, hb, _⟩ := getShards_sound d.index false e' (List.mem_filter.mp h4).1 s' hs'
    have := hdisj g hg
    rw [← hoff.1, ← hoff.2, hb] at this; cases this) k4
  obtain ⟨g, hg, hb, ha⟩ := k5
  simp only [keptIn, List.any_eq_true]
  exact ⟨g, hg, by simp [hb, ha r halive]⟩

/-- **trash_purge_rule** for the whole cleanup (partial): a trashed file leaves the trash only if a repository alive in
    it has a trashed shard older than 24 h or an indexed copy (purge), or is assigned (restore) — provided no index file
    carries its name (otherwise the known finding C32-fresh-trash-replaced-same-basename applies: trashing the
    same-named index shard replaces it) -/
theorem trash_purge_rule_partial (d : Dir) (A : List Nat) (now : Int) (m : Bool) (H2 : TrashNamesUnique d)
    (f : File) (hf : f ∈ d.trash) (hdisj : ∀ g ∈ d.index, sameBase g f.compound f.key = false) :
    TKept f (cleanup d A now m).trash ∨
      (∃ id, aliveIn f id = true ∧ (oldInTrash d now id = true ∨ searchable d.index id = true)) ∨
      (∃ id, aliveIn f id = true ∧ id ∈ A) := by
  have hph1 := trash_purge_rule_phase1 d now H2 f hf
  by_cases hj : ∃ id, aliveIn f id = true ∧ (oldInTrash d now id = true ∨ searchable d.index id = true)
  · exact Or.inr (Or.inl hj)
  have hk : TKept f (phase1 now (getShards d.index false) (getShards d.trash true) d).1.trash := by
    rcases hph1 with h | h
    · exact h
    · exact absurd h hj
  by_cases hA : ∃ id, aliveIn f id = true ∧ id ∈ A
  · exact Or.inr (Or.inr hA)
  left
  have e0 : (cleanup d A now m).trash =
      (phase5 now m
        (phase4 A (phase1 now (getShards d.index false) (getShards d.trash true) d).2
          (phase2 (getShards d.index false) (phase1 now (getShards d.index false) (getShards d.trash true) d).2 (getTombs d.index))
          (phase3 m (getShards d.index false) (phase1 now (getShards d.index false) (getShards d.trash true) d).1).1
          (phase3 m (getShards d.index false) (phase1 now (getShards d.index false) (getShards d.trash true) d).1).2).2
        (phase4 A (phase1 now (getShards d.index false) (getShards d.trash true) d).2
          (phase2 (getShards d.index false) (phase1 now (getShards d.index false) (getShards d.trash true) d).2 (getTombs d.index))
          (phase3 m (getShards d.index false) (phase1 now (getShards d.index false) (getShards d.trash true) d).1).1
          (phase3 m (getShards d.index false) (phase1 now (getShards d.index false) (getShards d.trash true) d).1).2).1).trash := rfl
  rw [e0]
  have pm := phase1_map now (getShards d.index false) (getShards d.trash true) d
  generalize phase1 now (getShards d.index false) (getShards d.trash true) d = P1 at pm hk ⊢
  have p3 := phase3_facts m (getShards d.index false) P1.1 (fun e he s hs => (getShards_sound d.index false e he s hs).2.1)
  generalize phase3 m (getShards d.index false) P1.1 = P3 at p3 ⊢
  -- phase 4 restores only assigned repositories, none of which is alive in f
  have k4 := tkept_phase4 (f := f) A P1.2 (phase2 (getShards d.index false) P1.2 (getTombs d.index)) P3.1 P3.2 (by
    intro id hid sh hg s hs hoff
    obtain ⟨e', he', h1, h2⟩ := mapGet_some_mem P1.2 id sh hg
    obtain ⟨_, _, g, hg', hb, ha⟩ := getShards_sound d.trash true e' (pm.1.subset he') s (by rw [h2]; exact hs)
    rw [sameBase_iff] at hb
    have hgf : g = f := H2 g hg' f hf (hb.1.trans hoff.1) (hb.2.trans hoff.2)
    exact hA ⟨id, by rw [← hgf, ← h1]; exact ha, hid⟩) (by rw [p3.2.1]; exact hk)
  have m4 := phase4_map_sub A P1.2 (phase2 (getShards d.index false) P1.2 (getTombs d.index)) P3.1 P3.2
  generalize phase4 A P1.2 (phase2 (getShards d.index false) P1.2 (getTombs d.index)) P3.1 P3.2 = P4 at k4 m4 ⊢
  have hsub : ∀ e ∈ P4.2, e ∈ getShards d.index false := by
    intro e he
    have := (m4 e he).1; rw [p3.2.2.2] at this; exact (List.mem_filter.mp this).1
  apply tkept_phase5 now m P4.2 P4.1
    (fun e he s hs => (getShards_sound d.index false e (hsub e he) s hs).2.1) _ k4
  intro e he s hs hoff
  obtain ⟨_, _, g, hg, hb, _⟩ := getShards_sound d.index false e (hsub e he) s hs
  have := hdisj g hg
  rw [← hoff.1, ← hoff.2, hb] at this; cases this

/-! ### repeated cleanups -/

/-- a history of cleanups: assigned list, clock and shard-merging setting of each run -/
def cleanups (d : Dir) (runs : List (List Nat × Int × Bool)) : Dir :=
  runs.foldl (fun d r => cleanup d r.1 r.2.1 r.2.2) d

/-- **the shape of real directories is an invariant of cleanup**: distinct file names in both directories, at most one
    repository alive per simple shard, no compound shard in the trash — after any number of cleanups with any assigned
    lists, clocks and settings.  Hence the hypotheses of the per-cleanup theorems hold before every cleanup of a history. -/
theorem shape_invariant (d : Dir) (h : Shape d) (runs : List (List Nat × Int × Bool)) : Shape (cleanups d runs) := by
  unfold cleanups
  induction runs generalizing d with
  | nil => exact h
  | cons r rest ih => simp only [List.foldl_cons]; exact ih _ (shape_cleanup h r.1 r.2.1 r.2.2)

theorem shape_trash {d : Dir} (h : Shape d) : TrashSimple d ∧ TrashNamesUnique d :=
  ⟨fun f hf a b ha hb => h.tsimple f hf (h.tnocomp f hf) a b ha hb, fun f hf g hg => h.tnames f hf g hg⟩

/-- **unassigned_unsearchable over repeated cleanups**: after any history of cleanups of a directory of that shape, no
    repository outside the assigned list of the *last* cleanup is searchable -/
theorem unassigned_unsearchable_repeated (d : Dir) (h : Shape d) (runs : List (List Nat × Int × Bool))
    (A : List Nat) (now : Int) (m : Bool) (id : Nat) (hid : A.contains id = false) :
    searchable (cleanups d (runs ++ [(A, now, m)])).index id = false := by
  have hs := shape_trash (shape_invariant d h runs)
  have : cleanups d (runs ++ [(A, now, m)]) = cleanup (cleanups d runs) A now m := by
    simp [cleanups, List.foldl_append]
  rw [this]
  exact unassigned_unsearchable _ A now m hs.1 hs.2 id hid

/-- **assigned_kept over repeated cleanups** (partial, same exclusions as `assigned_kept_partial`) -/
theorem assigned_kept_repeated_partial (d : Dir) (h : Shape d) (runs : List (List Nat × Int × Bool))
    (A : List Nat) (now : Int) (m : Bool) (f : File) (hf : f ∈ (cleanups d runs).index)
    (Hall : ∀ id, aliveIn f id = true → A.contains id = true ∧ consistent (cleanups d runs).index id = true)
    (Hdisj : ∀ g ∈ (cleanups d runs).trash, sameBase g f.compound f.key = false) :
    Kept f (cleanups d (runs ++ [(A, now, m)])).index := by
  have hsh := shape_invariant d h runs
  have : cleanups d (runs ++ [(A, now, m)]) = cleanup (cleanups d runs) A now m := by
    simp [cleanups, List.foldl_append]
  rw [this]
  exact assigned_kept_partial _ A now m f hf (fun a ha b hb => hsh.inames a ha b hb) Hall Hdisj

/-! ### the full statement is false on the model: a compound shard that still holds assigned repositories is deleted -/

/-- DESIGN §8 / known finding C32-compound-shard-deleted-whole, shard merging off: compound {1,2,3}, assigned {1,2} -/
def w1 : Dir := ⟨[⟨true, 1, 96400, [⟨1, 1, false, 1⟩, ⟨2, 2, false, 2⟩, ⟨3, 3, false, 3⟩]⟩], [], 0⟩

theorem assigned_kept_full_false :
    (cleanup w1 [1, 2] 100000 false).index = [] ∧ checkP w1 [1, 2] 100000 (cleanup w1 [1, 2] 100000 false) = some "assigned-lost-compound-shard-deleted" := by
  decide

/-- … while with shard merging on the unassigned repository is tombstoned and the assigned ones stay -/
theorem compound_tombstoned_when_merging :
    (cleanup w1 [1, 2] 100000 true).index = [⟨true, 1, 100000, [⟨1, 1, false, 1⟩, ⟨2, 2, false, 2⟩, ⟨3, 3, true, 3⟩]⟩] ∧
    checkP w1 [1, 2] 100000 (cleanup w1 [1, 2] 100000 true) = none := by
  decide

/-- shard merging on, but the unassigned repository also has a simple shard: the compound shard goes all the same -/
def w2 : Dir := ⟨[⟨true, 1, 96400, [⟨1, 1, false, 1⟩, ⟨3, 3, false, 3⟩]⟩, ⟨false, 30, 96400, [⟨3, 3, false, 0⟩]⟩], [], 0⟩

theorem assigned_kept_full_false_merging_on :
    checkP w2 [1] 100000 (cleanup w2 [1] 100000 true) = some "assigned-lost-compound-shard-deleted" := by
  decide

/-- known finding C32-restore-overwrites-same-basename -/
def w4 : Dir := ⟨[⟨false, 10, 96400, [⟨1, 1, false, 0⟩]⟩], [⟨false, 10, 92800, [⟨2, 1, false, 0⟩]⟩], 0⟩

theorem restore_overwrites_same_basename :
    checkP w4 [1, 2] 100000 (cleanup w4 [1, 2] 100000 true) = some "assigned-lost-basename-collision" := by
  decide

/-! non-vacuity: the hypotheses of `unassigned_unsearchable` hold of a state with a fresh, an old and a conflicting
    trash entry, a compound shard with a tombstone and a renamed repository, and the cleanup does something -/
def exDir : Dir :=
  ⟨[⟨true, 1, 96400, [⟨1, 1, false, 1⟩, ⟨2, 2, false, 2⟩, ⟨3, 3, true, 3⟩]⟩, ⟨false, 40, 96400, [⟨4, 4, false, 0⟩]⟩,
    ⟨false, 140, 96400, [⟨4, 14, false, 0⟩]⟩, ⟨false, 50, 1000, [⟨5, 5, false, 0⟩]⟩],
   [⟨false, 60, 99990, [⟨6, 6, false, 0⟩]⟩, ⟨false, 70, 10000, [⟨7, 7, false, 0⟩]⟩, ⟨false, 51, 99990, [⟨5, 5, false, 0⟩]⟩], 2⟩

example : TrashSimple exDir ∧ TrashNamesUnique exDir := by
  constructor
  · intro f hf a b ha hb
    simp only [exDir, List.mem_cons, List.mem_nil_iff, or_false] at hf
    rcases hf with rfl | rfl | rfl <;> simp [aliveIn] at ha hb <;> omega
  · intro f hf g hg h1 h2
    simp only [exDir, List.mem_cons, List.mem_nil_iff, or_false] at hf hg
    rcases hf with rfl | rfl | rfl <;> rcases hg with rfl | rfl | rfl <;> simp_all

/-- the hypotheses of `assigned_kept_partial` hold of the simple shard of repository 5 when 5 is assigned -/
example : IndexNamesUnique exDir ∧
    (∀ id, aliveIn (⟨false, 50, 1000, [⟨5, 5, false, 0⟩]⟩ : File) id = true → [5, 1].contains id = true ∧ consistent exDir.index id = true) ∧
    (∀ g ∈ exDir.trash, sameBase g false 50 = false) := by
  refine ⟨?_, ?_, by decide⟩
  · intro f hf g hg h1 h2
    simp only [exDir, List.mem_cons, List.mem_nil_iff, or_false] at hf hg
    rcases hf with rfl | rfl | rfl | rfl <;> rcases hg with rfl | rfl | rfl | rfl <;> simp_all
  · intro id hid
    have : id = 5 := by have h5 : 5 = id := by simpa [aliveIn] using hid
                        exact h5.symm
    subst this; decide

/-- the hypotheses of `assigned_restored_partial` hold of the fresh trashed shard of repository 6 -/
example : (⟨false, 60, 99990, [⟨6, 6, false, 0⟩]⟩ : File) ∈ exDir.trash ∧ [1, 3, 6, 7].Nodup ∧ exDir.trash.Nodup ∧
    searchable exDir.index 6 = false ∧ oldInTrash exDir 100000 6 = false ∧
    (∀ g ∈ exDir.index, sameBase g false 60 = false) ∧
    keptIn (cleanup exDir [1, 3, 6, 7] 100000 true).index ⟨false, 60, 99990, [⟨6, 6, false, 0⟩]⟩ 6 = true := by
  decide

example : Shape exDir := by
  refine ⟨?_, ?_, ?_, ?_, ?_⟩
  · intro f hf g hg h1 h2
    simp only [exDir, List.mem_cons, List.mem_nil_iff, or_false] at hf hg
    rcases hf with rfl | rfl | rfl | rfl <;> rcases hg with rfl | rfl | rfl | rfl <;> simp_all
  · intro f hf g hg h1 h2
    simp only [exDir, List.mem_cons, List.mem_nil_iff, or_false] at hf hg
    rcases hf with rfl | rfl | rfl <;> rcases hg with rfl | rfl | rfl <;> simp_all
  · intro f hf hc a b ha hb
    simp only [exDir, List.mem_cons, List.mem_nil_iff, or_false] at hf
    rcases hf with rfl | rfl | rfl | rfl <;> simp [aliveIn] at hc ha hb <;> omega
  · intro f hf hc a b ha hb
    simp only [exDir, List.mem_cons, List.mem_nil_iff, or_false] at hf
    rcases hf with rfl | rfl | rfl <;> simp [aliveIn] at ha hb <;> omega
  · intro f hf
    simp only [exDir, List.mem_cons, List.mem_nil_iff, or_false] at hf
    rcases hf with rfl | rfl | rfl <;> rfl

example : (cleanup exDir [1, 3, 6, 7] 100000 true) =
    ⟨[⟨false, 60, 99990, [⟨6, 6, false, 0⟩]⟩, ⟨true, 1, 100000, [⟨1, 1, false, 1⟩, ⟨2, 2, true, 2⟩, ⟨3, 3, false, 3⟩]⟩],
     [⟨false, 50, 100000, [⟨5, 5, false, 0⟩]⟩], 0⟩ := by decide

end ZoektModel.C32
