import ZoektModel.C32.Spec
namespace ZoektModel.C32

theorem cleanup_removes_tmps (d : Dir) (a : List Nat) (now : Int) (m : Bool) : (cleanup d a now m).tmps = 0 := by
  simp [cleanup]

end ZoektModel.C32
