/-
C10 — Results do not depend on how the index was built.  Property theorems.
Model: ZoektModel/C10/Model.lean (Builder.Add / flush / Finish, sortDocuments) and ZoektModel/C09/Postings.lean
(postingsBuilder with reset).  Statement: ZoektModel/C10/Spec.lean.
-/
import ZoektModel.C10.Keys
namespace ZoektModel.C10
open ZoektModel ZoektModel.C09

/-- For every shard limit and every document list (with any skip pattern), the `todo` lists handed to `buildShard`,
    in shard order, concatenate to exactly the added documents: nothing lost, nothing duplicated, order kept. -/
theorem flush_partition (shardMax : Nat) (docs : List BDoc) :
    (build shardMax docs).shards.flatten = docs := by
  unfold build
  have h1 := foldl_keeps shardMax docs BState.init
  have h2 := flush_keeps (docs.foldl (BState.add shardMax) BState.init)
  rw [flush_todo] at h2
  simp only [List.append_nil] at h2
  rw [h2, h1]
  simp [BState.init]

/-- A non-empty build never writes an empty shard, and shard numbers are dense (`nextShardNum` = number of shards). -/
theorem shards_nonempty (shardMax : Nat) (docs : List BDoc) (hne : docs ≠ []) :
    (build shardMax docs).nextShardNum = (build shardMax docs).shards.length ∧
    ∀ sh ∈ (build shardMax docs).shards, sh ≠ [] := by
  unfold build
  have hinit : Good BState.init := ⟨rfl, by simp [BState.init]⟩
  have ⟨hg, hn⟩ := foldl_good shardMax docs BState.init hinit (Or.inl hne)
  exact flush_good _ hg hn

/-- An empty build writes exactly one (empty) shard. -/
theorem empty_build (shardMax : Nat) : (build shardMax []).shards = [[]] := by
  simp [build, BState.flush, BState.init]

/-- `sortDocuments` permutes its argument: no slot is overwritten twice, none is dropped. -/
theorem sortDocuments_perm (todo : List BDoc) : (sortDocuments todo).Perm todo := by
  unfold sortDocuments
  simp only
  refine ((isort_perm _ _).map (fun (x : List Nat × BDoc) => x.2)).trans ?_
  apply List.Perm.of_eq
  rw [List.map_map]
  have : ((fun (x : List Nat × BDoc) => x.2) ∘ fun (x : BDoc × Nat) =>
      (rankVec ((todo.map fun d => d.nSymbols + d.nBranches).sum + 1) x.1 x.2, x.1)) = (·.1) := by
    funext x; rfl
  rw [this, zipIdx_map_fst]

/-- The documents stored in the written shards (after the per-shard sort) are a permutation of the added documents,
    for every shard limit. -/
theorem stored_documents_perm (shardMax : Nat) (docs : List BDoc) :
    (buildSorted shardMax docs).flatten.Perm docs := by
  unfold buildSorted
  have h := flush_partition shardMax docs
  generalize (build shardMax docs).shards = shards at h
  subst h
  induction shards with
  | nil => exact List.Perm.refl _
  | cons sh r ih =>
    simp only [List.map_cons, List.flatten_cons]
    exact List.Perm.append (sortDocuments_perm sh) ih

/-- The executable statement holds of the model: with documents identified by their position, every id occurs
    exactly once over all shards. -/
theorem C10_partition_checkP (shardMax : Nat) (docs : List BDoc) (hid : docs.map (·.id) = List.range docs.length) :
    checkPartition docs.length ((buildSorted shardMax docs).map (·.map (·.id))) = true := by
  unfold checkPartition
  rw [List.isPerm_iff]
  have h := (stored_documents_perm shardMax docs).map (·.id)
  rw [hid] at h
  have e : ((buildSorted shardMax docs).map (·.map (·.id))).flatten = (buildSorted shardMax docs).flatten.map (·.id) := by
    rw [List.map_flatten]
  rw [e]
  exact h

/-- **C10_config_independent.** Two builds of the same documents — any two shard limits, any two insertion orders — store
    the same multiset of documents in their shards. (With C01 — a search result is a function of the indexed documents and
    their per-document data — the files found, their matches and branches are the same.) -/
theorem C10_config_independent (m1 m2 : Nat) (docs1 docs2 : List BDoc) (h : docs1.Perm docs2) :
    (buildSorted m1 docs1).flatten.Perm (buildSorted m2 docs2).flatten :=
  ((stored_documents_perm m1 docs1).trans h).trans (stored_documents_perm m2 docs2).symm

/-! ### buffer reuse -/

/-- builders a `Builder` can take out of its pool: fresh, or obtained by documents and resets -/
inductive Reach : PB → Prop
  | fresh : Reach PB.fresh
  | add {s s' : PB} {data : Bytes} {secs rs : List (Nat × Nat)} : Reach s → s.add data secs = .ok (s', rs) → Reach s'
  | reset {s : PB} : Reach s → Reach s.reset

theorem Reach.inv {s : PB} (h : Reach s) : Inv s := by
  induction h with
  | fresh => exact Inv.fresh
  | add _ hok ih => exact ih.add _ _ _ _ hok
  | reset _ ih => exact ih.reset.1

/-- **reset_fresh.** Whatever a pooled postings builder held before (stale ASCII slots, stale map entries), after `reset`
    it accepts and rejects the same documents as a fresh builder, and the builders stay equal up to allocated-but-empty
    posting lists: same `asciiPopulated`, rune offsets, rune count, ASCII flag, end runes, end byte, and the same set of
    (ngram, posting bytes) pairs handed to `writePostings`. -/
theorem reset_fresh (old : PB) (hold : Reach old) (docs : List (Bytes × List (Nat × Nat))) :
    match addDocs old.reset docs, addDocs PB.fresh docs with
    | some a, some b => Sim a b ∧ a.collect.Perm b.collect
    | none, none => True
    | _, _ => False := by
  have hinv := hold.inv.reset
  have hs := addDocs_sim docs hinv.2
  -- key invariants along both runs
  have keysA : ∀ (ds : List (Bytes × List (Nat × Nat))) (s a : PB), Inv s → addDocs s ds = some a → Inv a := by
    intro ds
    induction ds with
    | nil => intro s a hi h; simp [addDocs] at h; subst h; exact hi
    | cons d r ih =>
      intro s a hi h
      obtain ⟨c, sc⟩ := d
      unfold addDocs at h
      split at h
      · rename_i pb' rs' hok
        exact ih pb' a (hi.add _ _ _ _ hok) h
      · cases h
  revert hs
  cases ha : addDocs old.reset docs <;> cases hb : addDocs PB.fresh docs <;> simp
  rename_i a b
  intro hsim
  exact ⟨hsim, collect_perm hsim (keysA docs _ a hinv.1 ha).mapKeys (keysA docs _ b Inv.fresh hb).mapKeys⟩

/-- Consequence for the bytes written: when the fresh builder's ngram keys are pairwise distinct (checked on every
    write by the harness: `ngramText` strictly increasing), the four posting sections written after reuse are identical
    to those of a fresh builder. -/
theorem reset_fresh_write_partial (a b : PB) (hsim : Sim a b) (hperm : a.collect.Perm b.collect)
    (hkeys : (b.collect.map (·.1)).Nodup) : a.write = b.write := by
  have hsort : a.collect.mergeSort keyLe = b.collect.mergeSort keyLe := by
    have htrans : ∀ (x y z : Nat × Bytes), keyLe x y = true → keyLe y z = true → keyLe x z = true := by
      intro x y z h1 h2
      simp only [keyLe, decide_eq_true_eq] at *
      omega
    have htotal : ∀ (x y : Nat × Bytes), (keyLe x y || keyLe y x) = true := by
      intro x y
      simp only [keyLe, Bool.or_eq_true, decide_eq_true_eq]
      omega
    apply List.Perm.eq_of_pairwise (le := fun x y => keyLe x y = true)
    · intro x y hx hy h1 h2
      have hx' : x ∈ b.collect := hperm.subset ((List.mergeSort_perm _ _).subset hx)
      have hy' : y ∈ b.collect := (List.mergeSort_perm _ _).subset hy
      have hk : x.1 = y.1 := by
        simp only [keyLe, decide_eq_true_eq] at h1 h2
        omega
      -- distinct keys: equal key, both members ⇒ equal
      have key : ∀ (l : List (Nat × Bytes)), (l.map (·.1)).Nodup → ∀ u ∈ l, ∀ v ∈ l, u.1 = v.1 → u = v := by
        intro l
        induction l with
        | nil => intro _ u hu; simp at hu
        | cons w r ih =>
          intro hn u hu v hv huv
          have hn' : w.1 ∉ r.map (·.1) ∧ (r.map (·.1)).Nodup := by simpa using hn
          simp only [List.mem_cons] at hu hv
          rcases hu with hu | hu <;> rcases hv with hv | hv
          · rw [hu, hv]
          · subst hu
            exact absurd (huv ▸ List.mem_map_of_mem (f := (·.1)) hv) hn'.1
          · subst hv
            exact absurd (huv ▸ List.mem_map_of_mem (f := (·.1)) hu) hn'.1
          · exact ih hn'.2 u hu v hv huv
      exact key b.collect hkeys x hx' y hy' hk
    · exact List.pairwise_mergeSort htrans htotal _
    · exact List.pairwise_mergeSort htrans htotal _
    · exact ((List.mergeSort_perm _ _).trans hperm).trans (List.mergeSort_perm _ _).symm
  unfold PB.write
  simp only [hsort, hsim.ro, hsim.er]

theorem Reach.kinv {s : PB} (h : Reach s) : KInv s := by
  induction h with
  | fresh => exact KInv.fresh
  | add _ hok ih => exact ih.add _ _ _ _ hok
  | reset _ ih => exact ih.reset

/-- **reset_fresh_write.** For every builder a `Builder` can take out of its pool and every document list: after `reset`
    the four posting sections `writePostings` emits (ngram text, posting lists, rune offsets, end runes) are identical to
    those of a fresh builder fed the same documents, and the same documents are accepted. Buffer reuse is unobservable. -/
theorem reset_fresh_write (old : PB) (hold : Reach old) (docs : List (Bytes × List (Nat × Nat))) :
    (addDocs old.reset docs).map (·.write) = (addDocs PB.fresh docs).map (·.write) := by
  have h := reset_fresh old hold docs
  have keysK : ∀ (ds : List (Bytes × List (Nat × Nat))) (s a : PB), KInv s → addDocs s ds = some a → KInv a := by
    intro ds
    induction ds with
    | nil => intro s a hi h; simp [addDocs] at h; subst h; exact hi
    | cons d r ih =>
      intro s a hi h
      obtain ⟨c, sc⟩ := d
      unfold addDocs at h
      split at h
      · rename_i pb' rs' hok
        exact ih pb' a (hi.add _ _ _ _ hok) h
      · cases h
  revert h
  cases ha : addDocs old.reset docs <;> cases hb : addDocs PB.fresh docs <;> simp
  rename_i a b
  intro hsim hperm
  exact reset_fresh_write_partial a b hsim hperm (keysK docs _ b KInv.fresh hb).collect_keys_nodup

/-- the executable form used by the driver -/
theorem C10_reuse_checkP (old : PB) (hold : Reach old) (docs : List (Bytes × List (Nat × Nat))) :
    reuseInvisible old docs = true := by
  unfold reuseInvisible
  rw [reset_fresh_write old hold docs]
  simp

/-! ### non-vacuity -/

private def d (i n c : Nat) (sk : Bool) : BDoc := ⟨i, n, c, sk, 1, 0, 1⟩

example : (build 10 [d 0 3 4 false, d 1 3 9 false, d 2 3 100 true, d 3 2 1 false]).shards
    = [[d 0 3 4 false, d 1 3 9 false], [d 2 3 100 true, d 3 2 1 false]] := by decide

example : (build 0 [d 0 3 4 false, d 1 3 9 false]).shards = [[d 0 3 4 false], [d 1 3 9 false]] := by decide

example : sortDocuments [d 0 9 4 false, d 1 3 9 true, d 2 3 9 false] = [d 2 3 9 false, d 0 9 4 false, d 1 3 9 true] := by
  decide

example : Reach (PB.fresh.reset) := Reach.reset Reach.fresh

end ZoektModel.C10
