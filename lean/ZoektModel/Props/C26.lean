/-
C26 — Binary encodings round-trip and reject garbage safely.  Property theorems; lemmas live in C26/Lemmas.lean.

Statement (properties.jsonl): the compact binary encodings of repository maps, branch/repository lists and
file-name sets decode every encoded value back to an equal value, and decoding arbitrary bytes returns a value or
an error without panicking or allocating unboundedly.
-/
import ZoektModel.C26.Lemmas
namespace ZoektModel.C26
open ZoektModel

/-! ## decoding arbitrary bytes: a value or an error, no panic, linear allocation and running time -/

/-- **C26, totality of `stringSetDecode`** for every byte string -/
theorem stringset_decode_total (b : Bytes) : TotalP b.length (stringSetDecode b) := by
  unfold stringSetDecode TotalP
  simp only []
  obtain ⟨a1, s1, l1⟩ := byt_ghost (Reader.init b)
  obtain ⟨a2, s2, l2⟩ := uvarint_ghost (Reader.init b).byt.2
  have hi : (Reader.init b).b.length = b.length ∧ (Reader.init b).alloc = b.length ∧ (Reader.init b).steps = 0 := by
    simp [Reader.init]
  split
  · exact ⟨_, rfl, by simp [Reader.ret]; omega, by simp [Reader.ret]; omega⟩
  · split
    · exact ⟨_, rfl, by simp [Reader.ret]; omega, by simp [Reader.ret]; omega⟩
    · rename_i hg
      obtain ⟨res, r', h, ha, hs⟩ := strLoop_total (Reader.init b).byt.2.uvarint.1.toNat
        ((Reader.init b).byt.2.uvarint.2.charge (Reader.init b).byt.2.uvarint.1.toNat) []
      simp only [h, bind_ok, pure_eq]
      refine ⟨_, rfl, ?_, ?_⟩
      · simp [Reader.ret, Reader.charge] at ha ⊢; omega
      · simp [Reader.ret, Reader.charge] at hs ⊢; omega

/-- **C26, totality of `branchesReposDecode`** for every byte string and every behaviour of roaring's parser -/
theorem branchesrepos_decode_total {β} (parse : Bytes → Option β) (b : Bytes) :
    TotalP b.length (branchesReposDecode parse b) := by
  unfold branchesReposDecode TotalP
  simp only []
  obtain ⟨a1, s1, l1⟩ := byt_ghost (Reader.init b)
  obtain ⟨a2, s2, l2⟩ := uvarint_ghost (Reader.init b).byt.2
  have hi : (Reader.init b).b.length = b.length ∧ (Reader.init b).alloc = b.length ∧ (Reader.init b).steps = 0 := by
    simp [Reader.init]
  split
  · exact ⟨_, rfl, by simp [Reader.ret]; omega, by simp [Reader.ret]; omega⟩
  · split
    · exact ⟨_, rfl, by simp [Reader.ret]; omega, by simp [Reader.ret]; omega⟩
    · rename_i hg
      obtain ⟨res, r', h, ha, hs⟩ := brLoop_total parse (Reader.init b).byt.2.uvarint.1.toNat
        ((Reader.init b).byt.2.uvarint.2.charge (Reader.init b).byt.2.uvarint.1.toNat) []
      simp only [h, bind_ok, pure_eq]
      refine ⟨_, rfl, ?_, ?_⟩
      · simp [Reader.ret, Reader.charge] at ha ⊢; omega
      · simp [Reader.ret, Reader.charge] at hs ⊢; omega

/-- **C26, totality of `reposMapDecode`** (both format versions) for every byte string -/
theorem reposmap_decode_total (b : Bytes) : TotalP b.length (reposMapDecode b) := by
  unfold reposMapDecode TotalP
  simp only []
  split
  · exact ⟨_, rfl, by simp, by simp⟩
  · obtain ⟨a1, s1, l1⟩ := byt_ghost (Reader.init b)
    obtain ⟨a2, s2, l2⟩ := uvarint_ghost (Reader.init b).byt.2
    have hi : (Reader.init b).b.length = b.length ∧ (Reader.init b).alloc = b.length ∧ (Reader.init b).steps = 0 := by
      simp [Reader.init]
    split
    · exact ⟨_, rfl, by simp [Reader.ret]; omega, by simp [Reader.ret]; omega⟩
    · split
      · exact ⟨_, rfl, by simp [Reader.ret]; omega, by simp [Reader.ret]; omega⟩
      · rename_i hl
        obtain ⟨a3, s3, l3⟩ := uvarint_ghost
          ((Reader.init b).byt.2.uvarint.2.charge (Reader.init b).byt.2.uvarint.1.toNat)
        simp only [Reader.charge] at a3 s3 l3
        split
        · exact ⟨_, rfl, by simp [Reader.ret, Reader.charge, a3]; omega, by simp [Reader.ret, Reader.charge, s3]; omega⟩
        · rename_i hab
          obtain ⟨res, r', h, ha, hs⟩ := entryLoop_total ((Reader.init b).byt.1 == 2)
            ((Reader.init b).byt.2.uvarint.2.charge (Reader.init b).byt.2.uvarint.1.toNat).uvarint.1.toNat
            (Reader.init b).byt.2.uvarint.1.toNat
            (((Reader.init b).byt.2.uvarint.2.charge (Reader.init b).byt.2.uvarint.1.toNat).uvarint.2.charge
              ((Reader.init b).byt.2.uvarint.2.charge (Reader.init b).byt.2.uvarint.1.toNat).uvarint.1.toNat)
            [] [] (by simp)
          simp only [h, bind_ok]
          simp only [Reader.charge, List.length_nil] at ha hs hab
          cases res with
          | none => exact ⟨_, rfl, by simp [Reader.ret]; omega, by simp [Reader.ret]; omega⟩
          | some m => exact ⟨_, rfl, by simp [Reader.ret]; omega, by simp [Reader.ret]; omega⟩

/-! ## round trips -/

/-- **C26, FileNameSet round trip**: for every set (given as the list `ks` of its distinct keys, in whatever order the
    Go map is iterated), decoding the encoding returns exactly that set, without error.
    The length hypotheses are Go's `int` range (a `string`/map cannot be larger). -/
theorem stringset_roundtrip (ks : List Bytes) (hnd : ks.Nodup) (hk : ∀ k ∈ ks, k.length < 2 ^ 63)
    (hn : ks.length < 2 ^ 63) :
    decoded (stringSetDecode (stringSetEncode ks)) = some ks := by
  have key : ∀ R : Reader, R.b = ks.flatMap encStr → R.err = false →
      decoded (do
        let sr ← strLoop ks.length R []
        pure (sr.2.ret (if sr.2.err then none else some sr.1))) = some ks := by
    intro R hb he
    obtain ⟨r', h, _, he'⟩ := strLoop_enc ks [] [] R (by simpa using hb) he hk (by simpa using hnd)
    simp [h, he', decoded, Reader.ret]
  have hlen := length_le_flatMap_encStr ks
  have hg : ¬ ((ks.length : Int) < 0 ∨ (ks.length : Int) > ((ks.flatMap encStr).length : Int)) := by omega
  unfold stringSetDecode
  simp only [stringSetEncode, Reader.init, Reader.byt, ne_eq, not_true_eq_false, if_false,
    uvarint_put ks.length hn, hg, Int.toNat_natCast]
  refine key _ ?_ ?_ <;> rfl

end ZoektModel.C26
