/-
C26 — Binary encodings round-trip and reject garbage safely.  Property theorems; lemmas live in C26/Lemmas.lean.

Statement (properties.jsonl): the compact binary encodings of repository maps, branch/repository lists and
file-name sets decode every encoded value back to an equal value, and decoding arbitrary bytes returns a value or
an error without panicking or allocating unboundedly.
-/
import ZoektModel.C26.Lemmas
namespace ZoektModel.C26
open ZoektModel

/-! ## decoding arbitrary bytes: a value or an error, no panic, linear allocation and running time -/

/-- **C26, totality of `stringSetDecode`** for every byte string -/
theorem stringset_decode_total (b : Bytes) : TotalP b.length (stringSetDecode b) := by
  unfold stringSetDecode TotalP
  simp only []
  obtain ⟨a1, s1, l1⟩ := byt_ghost (Reader.init b)
  obtain ⟨a2, s2, l2⟩ := uvarint_ghost (Reader.init b).byt.2
  have hi : (Reader.init b).b.length = b.length ∧ (Reader.init b).alloc = b.length ∧ (Reader.init b).steps = 0 := by
    simp [Reader.init]
  split
  · exact ⟨_, rfl, by simp [Reader.ret]; omega, by simp [Reader.ret]; omega⟩
  · split
    · exact ⟨_, rfl, by simp [Reader.ret]; omega, by simp [Reader.ret]; omega⟩
    · rename_i hg
      obtain ⟨res, r', h, ha, hs⟩ := strLoop_total (Reader.init b).byt.2.uvarint.1.toNat
        ((Reader.init b).byt.2.uvarint.2.charge (Reader.init b).byt.2.uvarint.1.toNat) []
      simp only [h, bind_ok, pure_eq]
      refine ⟨_, rfl, ?_, ?_⟩
      · simp [Reader.ret, Reader.charge] at ha ⊢; omega
      · simp [Reader.ret, Reader.charge] at hs ⊢; omega

/-- **C26, totality of `branchesReposDecode`** for every byte string and every behaviour of roaring's parser -/
theorem branchesrepos_decode_total {β} (parse : Bytes → Option β) (b : Bytes) :
    TotalP b.length (branchesReposDecode parse b) := by
  unfold branchesReposDecode TotalP
  simp only []
  obtain ⟨a1, s1, l1⟩ := byt_ghost (Reader.init b)
  obtain ⟨a2, s2, l2⟩ := uvarint_ghost (Reader.init b).byt.2
  have hi : (Reader.init b).b.length = b.length ∧ (Reader.init b).alloc = b.length ∧ (Reader.init b).steps = 0 := by
    simp [Reader.init]
  split
  · exact ⟨_, rfl, by simp [Reader.ret]; omega, by simp [Reader.ret]; omega⟩
  · split
    · exact ⟨_, rfl, by simp [Reader.ret]; omega, by simp [Reader.ret]; omega⟩
    · rename_i hg
      obtain ⟨res, r', h, ha, hs⟩ := brLoop_total parse (Reader.init b).byt.2.uvarint.1.toNat
        ((Reader.init b).byt.2.uvarint.2.charge (Reader.init b).byt.2.uvarint.1.toNat) []
      simp only [h, bind_ok, pure_eq]
      refine ⟨_, rfl, ?_, ?_⟩
      · simp [Reader.ret, Reader.charge] at ha ⊢; omega
      · simp [Reader.ret, Reader.charge] at hs ⊢; omega

/-- **C26, totality of `reposMapDecode`** (both format versions) for every byte string -/
theorem reposmap_decode_total (b : Bytes) : TotalP b.length (reposMapDecode b) := by
  unfold reposMapDecode TotalP
  simp only []
  split
  · exact ⟨_, rfl, by simp, by simp⟩
  · obtain ⟨a1, s1, l1⟩ := byt_ghost (Reader.init b)
    obtain ⟨a2, s2, l2⟩ := uvarint_ghost (Reader.init b).byt.2
    have hi : (Reader.init b).b.length = b.length ∧ (Reader.init b).alloc = b.length ∧ (Reader.init b).steps = 0 := by
      simp [Reader.init]
    split
    · exact ⟨_, rfl, by simp [Reader.ret]; omega, by simp [Reader.ret]; omega⟩
    · split
      · exact ⟨_, rfl, by simp [Reader.ret]; omega, by simp [Reader.ret]; omega⟩
      · rename_i hl
        obtain ⟨a3, s3, l3⟩ := uvarint_ghost
          ((Reader.init b).byt.2.uvarint.2.charge (Reader.init b).byt.2.uvarint.1.toNat)
        simp only [Reader.charge] at a3 s3 l3
        split
        · exact ⟨_, rfl, by simp [Reader.ret, Reader.charge, a3]; omega, by simp [Reader.ret, Reader.charge, s3]; omega⟩
        · rename_i hab
          obtain ⟨res, r', h, ha, hs⟩ := entryLoop_total ((Reader.init b).byt.1 == 2)
            ((Reader.init b).byt.2.uvarint.2.charge (Reader.init b).byt.2.uvarint.1.toNat).uvarint.1.toNat
            (Reader.init b).byt.2.uvarint.1.toNat
            (((Reader.init b).byt.2.uvarint.2.charge (Reader.init b).byt.2.uvarint.1.toNat).uvarint.2.charge
              ((Reader.init b).byt.2.uvarint.2.charge (Reader.init b).byt.2.uvarint.1.toNat).uvarint.1.toNat)
            [] [] (by simp)
          simp only [h, bind_ok]
          simp only [Reader.charge, List.length_nil] at ha hs hab
          cases res with
          | none => exact ⟨_, rfl, by simp [Reader.ret]; omega, by simp [Reader.ret]; omega⟩
          | some m => exact ⟨_, rfl, by simp [Reader.ret]; omega, by simp [Reader.ret]; omega⟩

/-! ## round trips -/

/-- **C26, FileNameSet round trip**: for every set (given as the list `ks` of its distinct keys, in whatever order the
    Go map is iterated), decoding the encoding returns exactly that set, without error.
    The length hypotheses are Go's `int` range (a `string`/map cannot be larger). -/
theorem stringset_roundtrip (ks : List Bytes) (hnd : ks.Nodup) (hk : ∀ k ∈ ks, k.length < 2 ^ 63)
    (hn : ks.length < 2 ^ 63) :
    decoded (stringSetDecode (stringSetEncode ks)) = some ks := by
  have key : ∀ R : Reader, R.b = ks.flatMap encStr → R.err = false →
      decoded (do
        let sr ← strLoop ks.length R []
        pure (sr.2.ret (if sr.2.err then none else some sr.1))) = some ks := by
    intro R hb he
    obtain ⟨r', h, _, he'⟩ := strLoop_enc ks [] [] R (by simpa using hb) he hk (by simpa using hnd)
    simp [h, he', decoded, Reader.ret]
  have hlen := length_le_flatMap_encStr ks
  have hg : ¬ ((ks.length : Int) < 0 ∨ (ks.length : Int) > ((ks.flatMap encStr).length : Int)) := by omega
  unfold stringSetDecode
  simp only [stringSetEncode, Reader.init, Reader.byt, ne_eq, not_true_eq_false, if_false,
    uvarint_put ks.length hn, hg, Int.toNat_natCast]
  refine key _ ?_ ?_ <;> rfl

/-- **C26, BranchesRepos round trip**: for every list of (branch, bitmap) pairs, in order. roaring is a parameter:
    `ser` is `WriteTo`, `parse` is `FromBuffer`; the hypothesis is that roaring's own serialisation round-trips
    (checked by the harness on every generated bitmap). -/
theorem branchesrepos_roundtrip {β} (parse : Bytes → Option β) (ser : β → Bytes) (hrt : ∀ m, parse (ser m) = some m)
    (brs : List (Bytes × β)) (hk : ∀ br ∈ brs, br.1.length < 2 ^ 63 ∧ (ser br.2).length < 2 ^ 63)
    (hn : brs.length < 2 ^ 63) :
    decoded (branchesReposDecode parse (branchesReposEncode (brs.map fun br => (br.1, ser br.2)))) =
      some (brs.map fun br => (br.1, some (some br.2))) := by
  have key : ∀ R : Reader, R.b = (brs.map fun br => (br.1, ser br.2)).flatMap encBr → R.err = false →
      decoded (do
        let sr ← brLoop parse brs.length R []
        pure (sr.2.ret (if sr.2.err then none else some sr.1))) =
      some (brs.map fun br => (br.1, some (some br.2))) := by
    intro R hb he
    obtain ⟨r', h, _, he'⟩ := brLoop_enc parse ser hrt brs [] [] R (by simpa using hb) he hk
    simp [h, he', decoded, Reader.ret]
  have hlen := length_le_flatMap_encBr (brs.map fun br => (br.1, ser br.2))
  simp only [List.length_map] at hlen
  have hg : ¬ ((brs.length : Int) < 0 ∨
      (brs.length : Int) > (((brs.map fun br => (br.1, ser br.2)).flatMap encBr).length : Int)) := by omega
  unfold branchesReposDecode
  simp only [branchesReposEncode, Reader.init, Reader.byt, ne_eq, not_true_eq_false, if_false, List.length_map,
    uvarint_put brs.length hn, Int.toNat_natCast]
  have hfm : (brs.map fun br => (br.1, ser br.2)).flatMap (fun br => encStr br.1 ++ encStr br.2) =
      (brs.map fun br => (br.1, ser br.2)).flatMap encBr := rfl
  rw [hfm]
  simp only [hg, if_false]
  refine key _ ?_ ?_ <;> rfl

/-- **C26, ReposMap round trip**: for every map (given as the list `m` of its entries with distinct `uint32` keys, in
    whatever order the Go map is iterated), including negative `IndexTimeUnix`, empty branch lists and the empty
    map, decoding the encoding returns exactly that map. `WFEntry` states Go's value ranges (`uint32` key, `int64`
    time, `int` lengths). -/
theorem reposmap_roundtrip (m : RMap) (hnd : (m.map (·.1)).Nodup) (hwf : ∀ ke ∈ m, WFEntry ke)
    (hn : m.length < 2 ^ 63) (ht : totalBranches m < 2 ^ 63) :
    decoded (reposMapDecode (reposMapEncode (some m))) = some (some m) := by
  have key : ∀ R : Reader, R.b = m.flatMap encEntry → R.err = false →
      decoded (do
        let mr ← entryLoop true (totalBranches m) m.length R [] []
        match mr.1 with
        | none => pure (mr.2.ret none)
        | some m' => pure (mr.2.ret (if mr.2.err then none else some (some m')))) = some (some m) := by
    intro R hb he
    obtain ⟨r', h, _, he'⟩ := entryLoop_enc (totalBranches m) m [] [] [] R (by simpa using hb) he (by simp) hwf
      (by simpa using hnd)
    simp [h, he', decoded, Reader.ret]
  have h1 := length_le_flatMap_encEntry m
  have h2 := totalBranches_le m
  have h0 := putUvarint_length_pos (totalBranches m)
  have hg1 : ¬ ((m.length : Int) < 0 ∨
      (m.length : Int) > ((putUvarint (totalBranches m) ++ m.flatMap encEntry).length : Int)) := by
    simp only [List.length_append]; omega
  have hg2 : ¬ ((totalBranches m : Int) < 0 ∨ (totalBranches m : Int) > ((m.flatMap encEntry).length : Int)) := by
    omega
  unfold reposMapDecode
  simp only [reposMapEncode, List.length_cons, Nat.add_eq_zero_iff, Nat.succ_ne_self, and_false, if_false,
    Reader.init, Reader.byt, List.append_assoc, uvarint_put m.length hn, hg1, Reader.charge,
    uvarint_put (totalBranches m) ht, hg2, Int.toNat_natCast]
  simp only [ne_eq, not_true_eq_false, and_false, if_false]
  refine key _ ?_ ?_ <;> rfl

/-- the nil map is encoded as no bytes and decoded back to nil -/
theorem reposmap_roundtrip_nil : decoded (reposMapDecode (reposMapEncode none)) = some none := by
  simp [reposMapEncode, reposMapDecode, decoded]

/-! ## the code before the fix: the totality clause was false (witnesses replayed on the real code from corpus/C26) -/

/-- before the fix, 12 input bytes made `stringSetDecode` panic: element length 2^64-1 is `int` -1, which passed
    `l > len(b)` and reached `b[:l]` (corpus/C26/ss-neg-strlen.json) -/
theorem orig_stringset_panics :
    stringSetDecodeOrig [1, 1, 0xff, 0xff, 0xff, 0xff, 0xff, 0xff, 0xff, 0xff, 0xff, 0x01] =
      .panic "slice bounds out of range [:l]" := by
  decide

/-- the same bytes are an ordinary error for the fixed decoder -/
theorem fixed_stringset_rejects :
    decoded (stringSetDecode [1, 1, 0xff, 0xff, 0xff, 0xff, 0xff, 0xff, 0xff, 0xff, 0xff, 0x01]) = none := by
  decide

/-- before the fix, running time and allocation were not bounded by any function of the input length: for every
    `n < 2^63` an input of at most 10 bytes made the decoder allocate for `n` elements and loop `n` times
    (corpus/C26/ss-huge-count-loop.json, ss-count-alloc.json). Hence `TotalP` fails for the original code. -/
theorem orig_stringset_unbounded (n : Nat) (hn : n < 2 ^ 63) :
    (1 :: putUvarint n).length ≤ 10 ∧
    ∃ r, stringSetDecodeOrig (1 :: putUvarint n) = .ok r ∧ r.steps = n ∧ n ≤ r.alloc := by
  constructor
  · have := putUvarint_length_le 9 n (by omega) (by simpa using hn)
    simp; omega
  · obtain ⟨res, r', h, hs, ha, he⟩ := strLoopOrig_empty n
      ⟨[], false, (1 :: putUvarint n).length + n, 0⟩ [] rfl
    refine ⟨r'.ret (if r'.err then none else some res), ?_, ?_, ?_⟩
    · unfold stringSetDecodeOrig
      have hu := uvarint_put n hn [] false (1 :: putUvarint n).length 0
      simp only [List.append_nil] at hu
      simp only [Reader.init, Reader.byt, ne_eq, not_true_eq_false, if_false, hu, Int.toNat_natCast,
        Reader.charge, h, bind_ok, pure_eq]
    · simpa [Reader.ret] using hs
    · simp only [Reader.ret]; omega

theorem orig_stringset_not_total : ¬ ∀ b, TotalP b.length (stringSetDecodeOrig b) := by
  intro h
  obtain ⟨hl, r, hr, hs, _⟩ := orig_stringset_unbounded 1000 (by omega)
  obtain ⟨r2, hr2, _, hs2⟩ := h (1 :: putUvarint 1000)
  rw [hr] at hr2
  cases hr2
  omega

/-- before the fix: a BranchesRepos count of 2^64-1 (`int` -1) reached `make([]BranchRepos, l)` → makeslice panic
    (corpus/C26/br-neg-count.json), whatever roaring does -/
theorem orig_branchesrepos_panics {β} (parse : Bytes → Option β) :
    branchesReposDecodeOrig parse [1, 0xff, 0xff, 0xff, 0xff, 0xff, 0xff, 0xff, 0xff, 0xff, 0x01] =
      .panic "makeslice: len out of range" := by
  rfl

/-- before the fix: an error was overwritten by a later success. With a parser that rejects the slice `[0]` and
    accepts `[7]`, the 8 input bytes decode *without error* into a list whose first bitmap is the debris of the
    failed parse (`some none`); the fixed decoder reports the error (corpus/C26/br-error-swallowed.json). -/
theorem orig_branchesrepos_swallows_error :
    let parse : Bytes → Option Unit := fun s => if s = [0] then none else some ()
    decoded (branchesReposDecodeOrig parse [1, 2, 0, 1, 0, 0, 1, 7]) = some [([], some none), ([], some (some ()))] ∧
    decoded (branchesReposDecode parse [1, 2, 0, 1, 0, 0, 1, 7]) = none := by
  decide

/-- before the fix: a negative announced total reached `make([]RepositoryBranch, 0, n)` (rm-neg-allbranches.json),
    and a negative per-repository branch count reached `allBranches[len(allBranches)-lb:]` (rm-neg-branchcount.json) -/
theorem orig_reposmap_panics :
    reposMapDecodeOrig [2, 0, 0xff, 0xff, 0xff, 0xff, 0xff, 0xff, 0xff, 0xff, 0xff, 0x01] =
      .panic "makeslice: len out of range" ∧
    reposMapDecodeOrig [2, 1, 0, 0, 0, 0, 0xff, 0xff, 0xff, 0xff, 0xff, 0xff, 0xff, 0xff, 0xff, 0x01] =
      .panic "slice bounds out of range [l:]" ∧
    decoded (reposMapDecode [2, 0, 0xff, 0xff, 0xff, 0xff, 0xff, 0xff, 0xff, 0xff, 0xff, 0x01]) = none ∧
    decoded (reposMapDecode [2, 1, 0, 0, 0, 0, 0xff, 0xff, 0xff, 0xff, 0xff, 0xff, 0xff, 0xff, 0xff, 0x01]) = none := by
  decide

/-! ## non-vacuity: the hypotheses of the round-trip theorems are satisfiable, and decoding does both accept and reject -/

example : decoded (stringSetDecode (stringSetEncode [[97], [98, 99], []])) = some [[97], [98, 99], []] :=
  stringset_roundtrip _ (by decide) (by decide) (by decide)

example : decoded (reposMapDecode (reposMapEncode (some [(7, ⟨true, [([97], [98])], -5⟩), (4294967295, ⟨false, [], 0⟩)]))) =
    some (some [(7, ⟨true, [([97], [98])], -5⟩), (4294967295, ⟨false, [], 0⟩)]) :=
  reposmap_roundtrip _ (by decide) (by simp [WFEntry]) (by decide) (by decide)

example : decoded (branchesReposDecode (fun b => some b) (branchesReposEncode ([([72], [1, 2])].map fun br => (br.1, id br.2)))) =
    some [([72], some (some [1, 2]))] :=
  branchesrepos_roundtrip (fun b => some b) id (fun _ => rfl) [([72], [1, 2])] (by decide) (by decide)

-- a version-1 ReposMap (no IndexTimeUnix), one entry with one branch
example : decoded (reposMapDecode [1, 1, 1, 7, 1, 1, 1, 97, 1, 98]) = some (some [(7, ⟨true, [([97], [98])], 0⟩)]) := by
  decide
-- a string running past the end of the input: an error, not a value
example : decoded (reposMapDecode [2, 1, 1, 7, 1, 0, 1, 5, 97]) = none := by decide
-- quirk of the code, kept by the model: a *truncated varint* reads as 0 without error (`binary.Uvarint` returns
-- n = 0, and only n < 0 is treated as malformed), so this truncated entry decodes to a value
example : decoded (reposMapDecode [2, 1, 1, 7, 1]) = some (some [(7, ⟨true, [], 0⟩)]) := by decide
-- a count larger than the remaining input: rejected before any allocation
example : reposMapDecode [2, 0x80, 0x80, 0x40, 0] = .ok ⟨none, 5, 0⟩ := by decide

end ZoektModel.C26
