import ZoektModel.C26.Spec
namespace ZoektModel.C26
theorem placeholder : True := trivial
end ZoektModel.C26
