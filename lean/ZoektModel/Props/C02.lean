/-
C02 — Reported match ranges are real, ordered and complete.  Property theorems; lemmas live in C02/Lemmas.lean.

Statement (properties.jsonl): every match range a search reports lies inside the file's content (or its name), the
ranges of a file are reported in increasing offset order without overlapping, and the bytes of each range are matched
at that position by a non-negated atom of the query. For a query made of a single content substring the ranges are
exactly the successive leftmost non-overlapping occurrences, and for a single regular expression they cover exactly
the bytes of the engine's non-empty matches (newline bytes excluded in line mode).
-/
import ZoektModel.C02.Lemmas3
namespace ZoektModel.C02
open ZoektModel ZoektModel.C03

/-- `sort.Sort` is only assumed to return *some* sorted permutation: every sorted permutation of the candidates is
    the list the model sorts to (candidates that compare equal are equal), so Go's unstable sort cannot be observed. -/
theorem sort_unique (l l' : List Cand) (hp : l'.Perm l) (hs : l'.Pairwise cle) : l' = sortCands l :=
  sorted_perm_eq (hp.trans (sortCands_perm l).symm) hs (sortCands_sorted l)

/-- **C02, ordered / non-overlapping / real**: for every set of collected candidates the gathered list
    (a) is a sub-list of the sorted candidates — every reported range is a verified match of a visited atom —
    (b) keeps the order of `sortByOffsetSlice` (file-name matches first, then by offset), and
    (c) any two gathered candidates of the same kind are disjoint, the earlier one ending before the later one starts. -/
theorem gather_sorted_disjoint (name : Bytes) (cands : List Cand) (hne : cands ≠ []) :
    (gatherCands name cands).Sublist (sortCands cands) ∧
    (gatherCands name cands).Pairwise cle ∧
    (gatherCands name cands).Pairwise (fun a b => a.fileName = b.fileName → a.off + a.sz ≤ b.off) := by
  have hlen : ¬ cands.length = 0 := by simpa using hne
  simp only [gatherCands, hlen, if_false]
  have hsub := overlapFilter_sublist (sortCands cands)
  have hsorted := (sortCands_sorted cands).sublist hsub
  refine ⟨hsub, hsorted, ?_⟩
  cases h : sortCands cands with
  | nil => simp [overlapFilter]
  | cons c r =>
    rw [h] at hsorted
    simp only [overlapFilter] at hsorted ⊢
    exact chain_pairwise c _ hsorted (filterFrom_chain c r)

/-- every gathered candidate is one of the collected candidates; with nothing collected the result is the one
    whole-file-name match -/
theorem gather_members (name : Bytes) (cands : List Cand) :
    (cands = [] → gatherCands name cands = [⟨true, 0, name.length⟩]) ∧
    (cands ≠ [] → ∀ c ∈ gatherCands name cands, c ∈ cands) := by
  constructor
  · intro h; simp [gatherCands, h]
  · intro hne c hc
    have := (gather_sorted_disjoint name cands hne).1.subset hc
    exact mem_sortCands.mp this

/-- in-bounds: if every collected candidate lies inside its text, so does every gathered one -/
theorem gather_in_bounds (data name : Bytes) (cands : List Cand)
    (hb : ∀ c ∈ cands, c.off + c.sz ≤ (if c.fileName then name.length else data.length)) :
    ∀ c ∈ gatherCands name cands, c.off + c.sz ≤ (if c.fileName then name.length else data.length) := by
  intro c hc
  by_cases hne : cands = []
  · rw [(gather_members name cands).1 hne] at hc
    simp at hc; subst hc; simp
  · exact hb c ((gather_members name cands).2 hne c hc)

/-- only atoms reached by `visitMatches` contribute: nothing below `not`, `noVisit`, `type:file`, nothing whose
    `known` value is false -/
theorem collect_only_visited (atoms : List Atom) (c : Cand) (hc : c ∈ collect atoms) :
    ∃ a ∈ atoms, a.known = true ∧ a.wrap ≠ 1 ∧ a.wrap ≠ 2 ∧ a.wrap ≠ 3 ∧ c ∈ a.cands := by
  simp only [collect, List.mem_flatMap, List.mem_filter] at hc
  obtain ⟨a, ⟨ha, hv⟩, hca⟩ := hc
  refine ⟨a, ha, ?_⟩
  simp only [Atom.visited, Bool.and_eq_true, Bool.not_eq_true', Bool.or_eq_false_iff, beq_eq_false_iff_ne] at hv
  exact ⟨hv.1, hv.2.1.1, hv.2.1.2, hv.2.2, hca⟩

theorem orderedDisjoint_of_pairwise (l : List Cand)
    (h : l.Pairwise (fun a b => a.off + a.sz ≤ b.off)) : orderedDisjoint (candsAsRanges l) = true := by
  induction l with
  | nil => rfl
  | cons a t ih =>
    cases t with
    | nil => rfl
    | cons b r =>
      rw [List.pairwise_cons] at h
      have hab := h.1 b (by simp)
      have := ih h.2
      simp only [candsAsRanges, List.map_cons, orderedDisjoint, RRange.stop] at this ⊢
      rw [this]
      simp only [Bool.and_true, Bool.and_eq_true, decide_eq_true_eq, Bool.or_eq_true, beq_iff_eq]
      refine ⟨decide_eq_true hab, ?_⟩
      by_cases h0 : a.off < b.off
      · exact Or.inl h0
      · exact Or.inr ⟨by omega, by omega⟩

/-- **C02 as evaluated by the driver on the implementation's output of `gatherMatches`** -/
theorem C02_checkGather (name : Bytes) (atoms : List Atom) :
    checkGather name (collect atoms) (gatherMatches name atoms) = true := by
  unfold checkGather gatherMatches
  generalize collect atoms = cands
  by_cases hne : cands = []
  · subst hne
    simp [gatherCands, orderedDisjoint, candsAsRanges, isSortedCands]
  · obtain ⟨_, hs, hd⟩ := gather_sorted_disjoint name cands hne
    have hmem := (gather_members name cands).2 hne
    have hemp : cands.isEmpty = false := by cases cands <;> simp_all
    simp only [hemp, Bool.false_eq_true, if_false, Bool.and_eq_true, List.all_eq_true, decide_eq_true_eq]
    refine ⟨⟨⟨?_, ?_⟩, fun c hc => ?_⟩, isSortedCands_of_pairwise _ hs⟩
    · apply orderedDisjoint_of_pairwise
      refine (hd.filter _).imp_of_mem ?_
      intro a b ha hb hab
      simp only [List.mem_filter] at ha hb
      exact hab (by rw [ha.2, hb.2])
    · apply orderedDisjoint_of_pairwise
      refine (hd.filter _).imp_of_mem ?_
      intro a b ha hb hab
      simp only [List.mem_filter, Bool.not_eq_true'] at ha hb
      exact hab (by rw [ha.2, hb.2])
    · exact hmem c hc

/-- the order in which the atoms' candidates were collected (the order of the match tree's children) does not matter -/
theorem gather_order_insensitive (name : Bytes) (cands cands' : List Cand) (hp : cands'.Perm cands) :
    gatherCands name cands' = gatherCands name cands := by
  unfold gatherCands
  rw [hp.length_eq, sortCands_perm_invariant hp]

/-- **C02, single content substring**: when the collected candidates are all the occurrences of a non-empty pattern
    (every offset at which it occurs, overlapping occurrences included — what the trigram iterator plus verification
    produce, C01), in any order, the gathered ranges are exactly the successive leftmost non-overlapping occurrences
    found by a left-to-right scan of the content. -/
theorem gather_single_substring (name data pat : Bytes) (hp : pat ≠ []) (cands : List Cand)
    (hc : cands.Perm ((occFrom pat data 0).map fun o => ⟨false, o, pat.length⟩)) (hne : occFrom pat data 0 ≠ []) :
    gatherCands name cands = (leftmostOcc pat data 0 0).map fun o => ⟨false, o, pat.length⟩ := by
  rw [gather_order_insensitive name _ _ hc]
  have hlen : ¬ ((occFrom pat data 0).map fun o => (⟨false, o, pat.length⟩ : Cand)).length = 0 := by
    simpa using hne
  simp only [gatherCands, hlen, if_false]
  rw [sortCands_of_sorted (pairwise_cle_of_lt _ _ (occFrom_sorted pat data 0))]
  rw [leftmostOcc_eq_greedy pat hp]
  cases h : occFrom pat data 0 with
  | nil => exact absurd h hne
  | cons o r =>
    simp only [List.map_cons, overlapFilter, filterFrom_eq_greedy, Nat.add_zero, greedyFrom, ge_iff_le, Nat.zero_le,
      if_true, List.map_map]
    congr 1

/-- what `occFrom` lists: exactly the offsets at which the pattern occurs -/
theorem occFrom_spec (pat data : Bytes) (o : Nat) :
    o ∈ occFrom pat data 0 ↔ o < data.length ∧ pat.isPrefixOf (data.drop o) = true := by
  rw [mem_occFrom]; simp

/-- **C02, single regular expression (chunk mode)**: the regexp engine's `FindAll` returns matches in increasing
    order without overlap; gathering such a list returns it unchanged, so the reported ranges are exactly the engine's
    matches (and in particular cover exactly the bytes of its non-empty matches). -/
theorem gather_engine_matches_id (name : Bytes) (ms : List Cand) (hne : ms ≠ [])
    (hs : ms.Pairwise cle) (hd : ms.Pairwise (fun a b => a.fileName = b.fileName → a.off + a.sz ≤ b.off)) :
    gatherCands name ms = ms := by
  have hlen : ¬ ms.length = 0 := by simpa using hne
  simp only [gatherCands, hlen, if_false]
  rw [sortCands_of_sorted hs]
  cases ms with
  | nil => exact absurd rfl hne
  | cons c r => simp only [overlapFilter]; rw [filterFrom_id c r (chainFrom_of_pairwise c r hd)]

example : gatherCands [] ((occFrom [97, 97] [97, 97, 97, 98, 97, 97] 0).map fun o => ⟨false, o, 2⟩) =
    [⟨false, 0, 2⟩, ⟨false, 4, 2⟩] ∧ occFrom [97, 97] [97, 97, 97, 98, 97, 97] 0 = [0, 1, 4] := by decide

/-- **C02, newline splitting (line mode)**: the pieces `breakOnNewlines` makes of an in-bounds candidate keep its kind,
    are non-empty, lie inside it, contain no newline byte, and come in increasing order separated by at least one byte. -/
theorem break_pieces (text : Bytes) (cm : Cand) (_hb : cm.off + cm.sz ≤ text.length) :
    (∀ c ∈ breakOnNewlines text cm, c.fileName = cm.fileName ∧ 0 < c.sz ∧ cm.off ≤ c.off ∧ c.off + c.sz ≤ cm.off + cm.sz) ∧
    (breakOnNewlines text cm).Pairwise (fun a b => a.off + a.sz < b.off) :=
  breakLoop_struct cm.fileName (cm.off + cm.sz) (text.drop cm.off) cm.off cm.off (Nat.le_refl _) (by omega)

/-- **`break_newlines_cover`**: the pieces cover exactly the bytes of the candidate that are not newlines -/
theorem break_newlines_cover (text : Bytes) (cm : Cand) (hb : cm.off + cm.sz ≤ text.length) (p : Nat) :
    covers (breakOnNewlines text cm) p ↔ cm.off ≤ p ∧ p < cm.off + cm.sz ∧ text.getD p 0 ≠ 10 := by
  unfold breakOnNewlines
  rw [breakLoop_cover cm.fileName (cm.off + cm.sz) (text.drop cm.off) cm.off cm.off p (Nat.le_refl _) (by omega)
    (by simp; omega)]
  constructor
  · rintro (h | ⟨h1, h2, h3⟩)
    · omega
    · refine ⟨h1, h2, ?_⟩
      rw [getD_drop] at h3
      have e : cm.off + (p - cm.off) = p := by omega
      rwa [e] at h3
  · rintro ⟨h1, h2, h3⟩
    right
    refine ⟨h1, h2, ?_⟩
    rw [getD_drop]
    have e : cm.off + (p - cm.off) = p := by omega
    rwa [e]

/-- no piece contains a newline byte -/
theorem break_no_newline (text : Bytes) (cm : Cand) (hb : cm.off + cm.sz ≤ text.length) :
    ∀ c ∈ breakOnNewlines text cm, ∀ p, c.off ≤ p → p < c.off + c.sz → text.getD p 0 ≠ 10 := by
  intro c hc p h1 h2
  exact ((break_newlines_cover text cm hb p).mp ⟨c, hc, h1, h2⟩).2.2

/-- breaking a list of ordered, non-overlapping, in-bounds candidates gives an ordered, non-overlapping list -/
theorem breakMatches_ordered (text : Bytes) (ms : List Cand) (hb : ∀ c ∈ ms, c.off + c.sz ≤ text.length)
    (hd : ms.Pairwise (fun a b => a.off + a.sz ≤ b.off)) :
    (breakMatchesOnNewlines text ms).Pairwise (fun a b => a.off + a.sz ≤ b.off) := by
  unfold breakMatchesOnNewlines
  rw [List.pairwise_flatMap]
  constructor
  · intro a ha
    exact (break_pieces text a (hb a ha)).2.imp (fun h => Nat.le_of_lt h)
  · refine hd.imp_of_mem ?_
    intro a b ha hbm hab x hx y hy
    have := (break_pieces text a (hb a ha)).1 x hx
    have := (break_pieces text b (hb b hbm)).1 y hy
    omega

example : breakOnNewlines [97, 10, 10, 98, 99, 10] ⟨false, 0, 6⟩ = [⟨false, 0, 1⟩, ⟨false, 3, 2⟩] := by decide

/-! non-vacuity: candidates of three atoms, one below `not`, with overlaps, a same-offset tie (the longer wins),
    adjacent matches (both kept) and file-name matches (sorted first, never compared with content matches) -/
def exAtoms : List Atom :=
  [⟨0, 0, true, [⟨false, 4, 3⟩, ⟨false, 0, 3⟩, ⟨false, 5, 3⟩]⟩,
   ⟨1, 4, true, [⟨false, 0, 5⟩, ⟨false, 7, 2⟩, ⟨true, 1, 2⟩]⟩,
   ⟨0, 1, true, [⟨false, 20, 3⟩]⟩,
   ⟨2, 0, true, [⟨true, 0, 2⟩, ⟨false, 9, 0⟩]⟩]
example : gatherMatches [97, 98, 99] exAtoms = [⟨true, 0, 2⟩, ⟨false, 0, 5⟩, ⟨false, 5, 3⟩, ⟨false, 9, 0⟩] := by decide
example : gatherMatches [97, 98, 99] [⟨0, 1, true, [⟨false, 20, 3⟩]⟩] = [⟨true, 0, 3⟩] := by decide

end ZoektModel.C02
