/-
C02 — Reported match ranges are real, ordered and complete.  Property theorems; lemmas live in C02/Lemmas.lean.

Statement (properties.jsonl): every match range a search reports lies inside the file's content (or its name), the
ranges of a file are reported in increasing offset order without overlapping, and the bytes of each range are matched
at that position by a non-negated atom of the query. For a query made of a single content substring the ranges are
exactly the successive leftmost non-overlapping occurrences, and for a single regular expression they cover exactly
the bytes of the engine's non-empty matches (newline bytes excluded in line mode).
-/
import ZoektModel.C02.Lemmas9
import ZoektModel.Generated.C02Consts
namespace ZoektModel.C02
open ZoektModel ZoektModel.C03

/-- `sort.Sort` is only assumed to return *some* sorted permutation: every sorted permutation of the candidates is
    the list the model sorts to (candidates that compare equal are equal), so Go's unstable sort cannot be observed. -/
theorem sort_unique (l l' : List Cand) (hp : l'.Perm l) (hs : l'.Pairwise cle) : l' = sortCands l :=
  sorted_perm_eq (hp.trans (sortCands_perm l).symm) hs (sortCands_sorted l)

/-- **C02, ordered / non-overlapping / real**: for every set of collected candidates the gathered list
    (a) is a sub-list of the sorted candidates — every reported range is a verified match of a visited atom —
    (b) keeps the order of `sortByOffsetSlice` (file-name matches first, then by offset), and
    (c) any two gathered candidates of the same kind are disjoint, the earlier one ending before the later one starts. -/
theorem gather_sorted_disjoint (name : Bytes) (cands : List Cand) (hne : cands ≠ []) :
    (gatherCands name cands).Sublist (sortCands cands) ∧
    (gatherCands name cands).Pairwise cle ∧
    (gatherCands name cands).Pairwise (fun a b => a.fileName = b.fileName → a.off + a.sz ≤ b.off) := by
  have hlen : ¬ cands.length = 0 := by simpa using hne
  simp only [gatherCands, hlen, if_false]
  have hsub := overlapFilter_sublist (sortCands cands)
  have hsorted := (sortCands_sorted cands).sublist hsub
  refine ⟨hsub, hsorted, ?_⟩
  cases h : sortCands cands with
  | nil => simp [overlapFilter]
  | cons c r =>
    rw [h] at hsorted
    simp only [overlapFilter] at hsorted ⊢
    exact chain_pairwise c _ hsorted (filterFrom_chain c r)

/-- every gathered candidate is one of the collected candidates; with nothing collected the result is the one
    whole-file-name match -/
theorem gather_members (name : Bytes) (cands : List Cand) :
    (cands = [] → gatherCands name cands = [⟨true, 0, name.length⟩]) ∧
    (cands ≠ [] → ∀ c ∈ gatherCands name cands, c ∈ cands) := by
  constructor
  · intro h; simp [gatherCands, h]
  · intro hne c hc
    have := (gather_sorted_disjoint name cands hne).1.subset hc
    exact mem_sortCands.mp this

/-- in-bounds: if every collected candidate lies inside its text, so does every gathered one -/
theorem gather_in_bounds (data name : Bytes) (cands : List Cand)
    (hb : ∀ c ∈ cands, c.off + c.sz ≤ (if c.fileName then name.length else data.length)) :
    ∀ c ∈ gatherCands name cands, c.off + c.sz ≤ (if c.fileName then name.length else data.length) := by
  intro c hc
  by_cases hne : cands = []
  · rw [(gather_members name cands).1 hne] at hc
    simp at hc; subst hc; simp
  · exact hb c ((gather_members name cands).2 hne c hc)

/-- only atoms reached by `visitMatches` contribute: nothing below `not`, `noVisit`, `type:file`, nothing whose
    `known` value is false -/
theorem collect_only_visited (atoms : List Atom) (c : Cand) (hc : c ∈ collect atoms) :
    ∃ a ∈ atoms, a.known = true ∧ a.wrap ≠ 1 ∧ a.wrap ≠ 2 ∧ a.wrap ≠ 3 ∧ c ∈ a.cands := by
  simp only [collect, List.mem_flatMap, List.mem_filter] at hc
  obtain ⟨a, ⟨ha, hv⟩, hca⟩ := hc
  refine ⟨a, ha, ?_⟩
  simp only [Atom.visited, Bool.and_eq_true, Bool.not_eq_true', Bool.or_eq_false_iff, beq_eq_false_iff_ne] at hv
  exact ⟨hv.1, hv.2.1.1, hv.2.1.2, hv.2.2, hca⟩

/-- the statement the driver evaluates on `gatherMatches`' output holds of the model for every candidate collection -/
theorem checkGather_gatherCands (name : Bytes) (cands : List Cand) :
    checkGather name cands (gatherCands name cands) = true := by
  unfold checkGather
  by_cases hne : cands = []
  · subst hne
    simp [gatherCands, orderedDisjoint, candsAsRanges, isSortedCands]
  · obtain ⟨_, hs, hd⟩ := gather_sorted_disjoint name cands hne
    have hmem := (gather_members name cands).2 hne
    have hemp : cands.isEmpty = false := by cases cands <;> simp_all
    simp only [hemp, Bool.false_eq_true, if_false, Bool.and_eq_true, List.all_eq_true, decide_eq_true_eq]
    refine ⟨⟨⟨?_, ?_⟩, fun c hc => ?_⟩, isSortedCands_of_pairwise _ hs⟩
    · apply orderedDisjoint_of_pairwise
      refine (hd.filter _).imp_of_mem ?_
      intro a b ha hb hab
      simp only [List.mem_filter] at ha hb
      exact hab (by rw [ha.2, hb.2])
    · apply orderedDisjoint_of_pairwise
      refine (hd.filter _).imp_of_mem ?_
      intro a b ha hb hab
      simp only [List.mem_filter, Bool.not_eq_true'] at ha hb
      exact hab (by rw [ha.2, hb.2])
    · exact hmem c hc

/-- **C02 as evaluated by the driver on the implementation's output of `gatherMatches`** (flat atom lists) -/
theorem C02_checkGather (name : Bytes) (atoms : List Atom) :
    checkGather name (collect atoms) (gatherMatches name atoms) = true :=
  checkGather_gatherCands name (collect atoms)

/-- … and over nested match trees, with `visitMatches` modelled as the recursive function it is -/
theorem C02_checkGather_tree (name : Bytes) (t : MT) :
    checkGather name (visit t) (gatherTree name t) = true :=
  checkGather_gatherCands name (visit t)

/-- `visitMatches` collects nothing below `not`, `noVisit` and `type:file`, nothing from other leaves, and skips a
    child of and / or / andLine whose `known` value is not true -/
theorem visit_skips (c t : MT) (r : List (Bool × MT)) :
    visit (.not c) = [] ∧ visit (.noVisit c) = [] ∧ visit (.fileName c) = [] ∧ visit .other = [] ∧
    visitList ((false, t) :: r) = visitList r ∧ visit (.boost c) = visit c ∧ visit (.symbolSubstr c) = visit c := by
  simp [visit, visitList]

example : gatherTree [102] (.or [(true, .and [(true, .atom 0 [⟨false, 4, 3⟩, ⟨false, 0, 3⟩]), (false, .atom 1 [⟨false, 9, 1⟩])]),
    (true, .not (.atom 1 [⟨false, 20, 1⟩])), (true, .boost (.atom 2 [⟨false, 2, 3⟩]))]) =
    [⟨false, 0, 3⟩, ⟨false, 4, 3⟩] := by
  simp [gatherTree, visit, visitList]; decide

/-- **C02, the candidates are real**: `candidateMatch.matchContent` — the verification every substring candidate
    proposed by the trigram stage goes through before it can be gathered and reported — accepts a candidate at byte
    offset `off` exactly when the pattern occurs there (byte for byte; up to the case of ASCII letters, *and nothing
    else*, when the atom is case-insensitive), and reports the pattern's length as the match length. For every pattern,
    content and offset. -/
theorem verify_exact (pattern content : Bytes) (off : Nat) (caseSensitive : Bool) (hoff : off ≤ content.length) :
    checkVerify pattern content off caseSensitive (matchContentASCII pattern content off caseSensitive) = true := by
  have hsl : ∀ n, off + n ≤ content.length → (Bytes.slice content off (off + n)).length = n := by
    intro n h; simp [Bytes.slice]; omega
  have hocc : ∀ size, occursAt pattern content off size caseSensitive = true ↔
      size = pattern.length ∧ off + size ≤ content.length ∧
      (List.zip pattern (Bytes.slice content off (off + size))).all
        (fun (p, c) => if caseSensitive then p == c else asciiLower p == asciiLower c) = true := by
    intro size
    simp only [occursAt, Bool.and_eq_true, beq_iff_eq, decide_eq_true_eq, and_assoc]
  cases caseSensitive with
  | true =>
    simp only [matchContentASCII, if_true]
    by_cases h : off + pattern.length ≤ content.length ∧ Bytes.slice content off (off + pattern.length) = pattern
    · rw [if_pos h]
      show occursAt pattern content off pattern.length true = true
      rw [hocc]
      refine ⟨rfl, h.1, ?_⟩
      simp only [if_true]
      exact (zip_all_beq_iff pattern _ (hsl _ h.1).symm).mpr h.2
    · rw [if_neg h]
      show (!occursAt pattern content off pattern.length true) = true
      rw [Bool.not_eq_true', Bool.eq_false_iff]
      intro hh
      rw [hocc] at hh
      simp only [if_true] at hh
      exact h ⟨hh.2.1, (zip_all_beq_iff pattern _ (hsl _ hh.2.1).symm).mp hh.2.2⟩
  | false =>
    simp only [matchContentASCII, Bool.false_eq_true, if_false]
    rw [foldEqASCII_spec]
    have hz : List.zip pattern (Bytes.slice content off (off + pattern.length)) = List.zip pattern (content.drop off) := by
      simp only [Bytes.slice, Nat.add_sub_cancel_left]
      exact zip_take_length pattern _
    by_cases h : pattern.length ≤ (content.drop off).length ∧
        (List.zip pattern (content.drop off)).all (fun (p, c) => asciiLower p == asciiLower c) = true
    · rw [if_pos h, Nat.zero_add]
      show occursAt pattern content off pattern.length false = true
      rw [hocc, hz]
      have := h.1; simp only [List.length_drop] at this
      exact ⟨rfl, by omega, by simpa using h.2⟩
    · rw [if_neg h]
      show (!occursAt pattern content off pattern.length false) = true
      rw [Bool.not_eq_true', Bool.eq_false_iff]
      intro hh
      rw [hocc, hz] at hh
      exact h ⟨by simp only [List.length_drop]; omega, by simpa using hh.2.2⟩

example : matchContentASCII [102, 111, 111, 123] [120, 70, 79, 79, 123, 121] 1 false = some 4 ∧
    matchContentASCII [102, 111, 111, 123] [120, 70, 79, 79, 91, 121] 1 false = none ∧
    matchContentASCII [101, 42, 115] [101, 10, 115] 0 false = none := by decide

/-- the order in which the atoms' candidates were collected (the order of the match tree's children) does not matter -/
theorem gather_order_insensitive (name : Bytes) (cands cands' : List Cand) (hp : cands'.Perm cands) :
    gatherCands name cands' = gatherCands name cands := by
  unfold gatherCands
  rw [hp.length_eq, sortCands_perm_invariant hp]

/-- **C02, single content substring**: when the collected candidates are all the occurrences of a non-empty pattern
    (every offset at which it occurs, overlapping occurrences included — what the trigram iterator plus verification
    produce, C01), in any order, the gathered ranges are exactly the successive leftmost non-overlapping occurrences
    found by a left-to-right scan of the content. -/
theorem gather_single_substring (name data pat : Bytes) (hp : pat ≠ []) (cands : List Cand)
    (hc : cands.Perm ((occFrom pat data 0).map fun o => ⟨false, o, pat.length⟩)) (hne : occFrom pat data 0 ≠ []) :
    gatherCands name cands = (leftmostOcc pat data 0 0).map fun o => ⟨false, o, pat.length⟩ := by
  rw [gather_order_insensitive name _ _ hc]
  have hlen : ¬ ((occFrom pat data 0).map fun o => (⟨false, o, pat.length⟩ : Cand)).length = 0 := by
    simpa using hne
  simp only [gatherCands, hlen, if_false]
  rw [sortCands_of_sorted (pairwise_cle_of_lt _ _ (occFrom_sorted pat data 0))]
  rw [leftmostOcc_eq_greedy pat hp]
  cases h : occFrom pat data 0 with
  | nil => exact absurd h hne
  | cons o r =>
    simp only [List.map_cons, overlapFilter, filterFrom_eq_greedy, Nat.add_zero, greedyFrom, ge_iff_le, Nat.zero_le,
      if_true, List.map_map]
    congr 1

/-- what `occFrom` lists: exactly the offsets at which the pattern occurs -/
theorem occFrom_spec (pat data : Bytes) (o : Nat) :
    o ∈ occFrom pat data 0 ↔ o < data.length ∧ pat.isPrefixOf (data.drop o) = true := by
  rw [mem_occFrom]; simp

/-- **C02, single regular expression (chunk mode)**: the regexp engine's `FindAll` returns matches in increasing
    order without overlap; gathering such a list returns it unchanged, so the reported ranges are exactly the engine's
    matches (and in particular cover exactly the bytes of its non-empty matches). -/
theorem gather_engine_matches_id (name : Bytes) (ms : List Cand) (hne : ms ≠ [])
    (hs : ms.Pairwise cle) (hd : ms.Pairwise (fun a b => a.fileName = b.fileName → a.off + a.sz ≤ b.off)) :
    gatherCands name ms = ms := by
  have hlen : ¬ ms.length = 0 := by simpa using hne
  simp only [gatherCands, hlen, if_false]
  rw [sortCands_of_sorted hs]
  cases ms with
  | nil => exact absurd rfl hne
  | cons c r => simp only [overlapFilter]; rw [filterFrom_id c r (chainFrom_of_pairwise c r hd)]

example : gatherCands [] ((occFrom [97, 97] [97, 97, 97, 98, 97, 97] 0).map fun o => ⟨false, o, 2⟩) =
    [⟨false, 0, 2⟩, ⟨false, 4, 2⟩] ∧ occFrom [97, 97] [97, 97, 97, 98, 97, 97] 0 = [0, 1, 4] := by decide

/-- **C02, newline splitting (line mode)**: the pieces `breakOnNewlines` makes of an in-bounds candidate keep its kind,
    are non-empty, lie inside it, contain no newline byte, and come in increasing order separated by at least one byte. -/
theorem break_pieces (text : Bytes) (cm : Cand) (_hb : cm.off + cm.sz ≤ text.length) :
    (∀ c ∈ breakOnNewlines text cm, c.fileName = cm.fileName ∧ 0 < c.sz ∧ cm.off ≤ c.off ∧ c.off + c.sz ≤ cm.off + cm.sz) ∧
    (breakOnNewlines text cm).Pairwise (fun a b => a.off + a.sz < b.off) :=
  breakLoop_struct cm.fileName (cm.off + cm.sz) (text.drop cm.off) cm.off cm.off (Nat.le_refl _) (by omega)

/-- **`break_newlines_cover`**: the pieces cover exactly the bytes of the candidate that are not newlines -/
theorem break_newlines_cover (text : Bytes) (cm : Cand) (hb : cm.off + cm.sz ≤ text.length) (p : Nat) :
    covers (breakOnNewlines text cm) p ↔ cm.off ≤ p ∧ p < cm.off + cm.sz ∧ text.getD p 0 ≠ 10 := by
  unfold breakOnNewlines
  rw [breakLoop_cover cm.fileName (cm.off + cm.sz) (text.drop cm.off) cm.off cm.off p (Nat.le_refl _) (by omega)
    (by simp; omega)]
  constructor
  · rintro (h | ⟨h1, h2, h3⟩)
    · omega
    · refine ⟨h1, h2, ?_⟩
      rw [getD_drop] at h3
      have e : cm.off + (p - cm.off) = p := by omega
      rwa [e] at h3
  · rintro ⟨h1, h2, h3⟩
    right
    refine ⟨h1, h2, ?_⟩
    rw [getD_drop]
    have e : cm.off + (p - cm.off) = p := by omega
    rwa [e]

/-- no piece contains a newline byte -/
theorem break_no_newline (text : Bytes) (cm : Cand) (hb : cm.off + cm.sz ≤ text.length) :
    ∀ c ∈ breakOnNewlines text cm, ∀ p, c.off ≤ p → p < c.off + c.sz → text.getD p 0 ≠ 10 := by
  intro c hc p h1 h2
  exact ((break_newlines_cover text cm hb p).mp ⟨c, hc, h1, h2⟩).2.2

/-- breaking a list of ordered, non-overlapping, in-bounds candidates gives an ordered, non-overlapping list -/
theorem breakMatches_ordered (text : Bytes) (ms : List Cand) (hb : ∀ c ∈ ms, c.off + c.sz ≤ text.length)
    (hd : ms.Pairwise (fun a b => a.off + a.sz ≤ b.off)) :
    (breakMatchesOnNewlines text ms).Pairwise (fun a b => a.off + a.sz ≤ b.off) := by
  unfold breakMatchesOnNewlines
  rw [List.pairwise_flatMap]
  constructor
  · intro a ha
    exact (break_pieces text a (hb a ha)).2.imp (fun h => Nat.le_of_lt h)
  · refine hd.imp_of_mem ?_
    intro a b ha hbm hab x hx y hy
    have := (break_pieces text a (hb a ha)).1 x hx
    have := (break_pieces text b (hb b hbm)).1 y hy
    omega

example : breakOnNewlines [97, 10, 10, 98, 99, 10] ⟨false, 0, 6⟩ = [⟨false, 0, 1⟩, ⟨false, 3, 2⟩] := by decide

/-- **`lookup` over the builder's map** (restated from Lemmas4): the sampled byte offset of the enclosing 100-rune window
    and the number of runes left to walk, for every sample list and every rune offset inside the sampled range -/
theorem runeOffsetMap_lookup_exact (S : List Nat) (R : Nat) (h : R / freq < S.length) :
    lookup (makeRuneOffsetMap S) R = (S.getD (R / freq) 0, R % freq) := lookup_exact S R h

/-- **`findOffset_exact`**: for every corpus of documents (contents, or names) none of which ends in a truncated
    multi-byte sequence (`Clean`; implied by valid UTF-8), every document `idx` and every rune index `r` of an existing
    rune of that document, `findOffset` — the sampled table built by the builder, `makeRuneOffsetMap`, the binary search of
    `lookup`, and the walk over at most 99 runes inside a window of `4 * 100` bytes — returns exactly the byte offset of
    the `r`-th rune of the document: across every sampling boundary and every document boundary. -/
theorem findOffset_exact (docs : List Bytes) (hclean : ∀ d ∈ docs, Clean d) (idx r : Nat) (hidx : idx < docs.length)
    (hr : r < runeCount (docs.getD idx [])) (limit : Option Nat) (hlim : ∀ n, limit = some n → 4 * 99 ≤ n) :
    findOffset (Posting.ofDocs docs) false limit idx r = advance r (docs.getD idx []) := by
  have inv := pinv_ofDocs docs hclean
  -- split the corpus around document idx
  have hsplit : docs = docs.take idx ++ docs.getD idx [] :: docs.drop (idx + 1) := by
    have h1 : docs.getD idx [] = docs[idx] := by simp [List.getD_eq_getElem?_getD, List.getElem?_eq_getElem hidx]
    rw [h1]; simp
  have hcpre : Clean (docs.take idx).flatten :=
    clean_flatten _ (fun d hd => hclean d (List.mem_of_mem_take hd))
  have hcd : Clean (docs.getD idx []) := by
    apply hclean
    have h1 : docs.getD idx [] = docs[idx] := by simp [List.getD_eq_getElem?_getD, List.getElem?_eq_getElem hidx]
    rw [h1]; exact List.getElem_mem hidx
  have hC : (Posting.ofDocs docs).corpus =
      (docs.take idx).flatten ++ (docs.getD idx [] ++ (docs.drop (idx + 1)).flatten) := by
    rw [inv.corpus]
    conv => lhs; rw [hsplit]
    simp
  -- absolute rune offset
  have habs : (r + if idx > 0 then (Posting.ofDocs docs).endRunes.getD (idx - 1) 0 else 0) =
      runeCount (docs.take idx).flatten + r := by
    by_cases h0 : idx > 0
    · simp only [h0, if_true]
      rw [inv.erVal (idx - 1) (by omega)]
      have : idx - 1 + 1 = idx := by omega
      rw [this]; omega
    · have : idx = 0 := by omega
      subst this
      simp [runeCount_nil]
  have htot : runeCount (Posting.ofDocs docs).corpus =
      runeCount (docs.take idx).flatten + (runeCount (docs.getD idx []) + runeCount (docs.drop (idx + 1)).flatten) := by
    rw [hC, runeCount_append hcpre, runeCount_append hcd]
  have hq : (runeCount (docs.take idx).flatten + r) / freq < (Posting.ofDocs docs).samples.length := by
    rw [inv.slen, inv.rc, htot]
    simp only [cnt, freq]; omega
  have hqc : (runeCount (docs.take idx).flatten + r) / freq < cnt (Posting.ofDocs docs).runeCount := by
    rw [← inv.slen]; exact hq
  unfold findOffset
  simp only [Bool.false_eq_true, if_false, habs]
  rw [lookup_exact _ _ hq]
  simp only
  rw [inv.sval _ hqc, inv.bdVal idx (by omega)]
  have hleft : (runeCount (docs.take idx).flatten + r) % freq ≤ 99 := by simp only [freq]; omega
  have e : 100 * ((runeCount (docs.take idx).flatten + r) / freq) + (runeCount (docs.take idx).flatten + r) % freq =
      runeCount (docs.take idx).flatten + r := by
    simp only [freq]; omega
  have hwalk : ∀ dat : Bytes,
      advance ((runeCount (docs.take idx).flatten + r) % freq) dat =
        advance ((runeCount (docs.take idx).flatten + r) % freq)
          ((Posting.ofDocs docs).corpus.drop (advance (100 * ((runeCount (docs.take idx).flatten + r) / freq)) (Posting.ofDocs docs).corpus)) →
      advance (100 * ((runeCount (docs.take idx).flatten + r) / freq)) (Posting.ofDocs docs).corpus +
        advance ((runeCount (docs.take idx).flatten + r) % freq) dat - (docs.take idx).flatten.length =
        advance r (docs.getD idx []) := by
    intro dat hdat
    rw [hdat, ← advance_add, e, hC, advance_append hcpre, advance_append_of_boundary r _ _ (hcd _) (by omega)]
    omega
  cases limit with
  | none => exact hwalk _ rfl
  | some n => exact hwalk _ (advance_take _ _ _ (by have := hlim n rfl; omega))

/-- the PlainASCII short-circuit: in an all-ASCII document the `r`-th rune is at byte `r` -/
theorem findOffset_plain (d : Bytes) (h : ∀ b ∈ d, b.toNat < 0x80) (r : Nat) (hr : r ≤ d.length) : advance r d = r := by
  induction r generalizing d with
  | zero => rfl
  | succ r ih =>
    cases d with
    | nil => simp at hr
    | cons b t =>
      rw [advance_succ, runeSize_ascii b t (h b (by simp))]
      simp only [List.drop_succ_cons, List.drop_zero]
      rw [ih t (fun x hx => h x (by simp [hx])) (by simpa using hr)]
      omega

/-- a document that is empty or ends with an ASCII byte (e.g. a newline) is `Clean`; so is every valid UTF-8 document -/
theorem clean_of_last_ascii (d : Bytes) (h : d = [] ∨ ∃ b, d.getLast? = some b ∧ b.toNat < 0x80) : Clean d := by
  intro rest
  rcases h with rfl | ⟨b, hb, hascii⟩
  · exact IsBoundary.zero _
  · have hne : d ≠ [] := by intro h; subst h; simp at hb
    have hlen : 0 < d.length := List.length_pos_iff.mpr hne
    have hget : (d ++ rest).getD (d.length - 1) 0 = b := by
      rw [getD_append_left _ _ _ _ (by omega)]
      rw [List.getLast?_eq_getElem?] at hb
      simp [List.getD_eq_getElem?_getD, hb]
    have := isBoundary_succ_of_ascii (d ++ rest) (d.length - 1) (by simp; omega) (by rw [hget]; exact hascii)
    have e : d.length - 1 + 1 = d.length := by omega
    rwa [e] at this

/-! non-vacuity of `findOffset_exact`: "aé\n" and "b" -/
example : findOffset (Posting.ofDocs [[97, 0xC3, 0xA9, 10], [98]]) false (some (readLen 4)) 0 2 = 3 := by
  have h := findOffset_exact [[97, 0xC3, 0xA9, 10], [98]]
    (by
      intro d hd
      have : d = [97, 0xC3, 0xA9, 10] ∨ d = [98] := by simpa using hd
      rcases this with rfl | rfl
      · exact clean_of_last_ascii _ (Or.inr ⟨10, by decide, by decide⟩)
      · exact clean_of_last_ascii _ (Or.inr ⟨98, by decide, by decide⟩))
    0 2 (by decide) (by decide) (some (readLen 4)) (by intro n hn; cases hn; decide)
  rw [h]; decide

/-- the unfixed code read `3 * runeOffsetFrequency` bytes: after 75 four-byte runes the window is exhausted and the walk
    stops advancing (the defect found by this check, fixed in the repository): `advance_take` needs its factor 4 -/
def fourByteRun : Bytes := (List.replicate 76 [0xF0, 0x9F, 0x98, 0x80]).flatten ++ [97]
theorem walk_needs_four_bytes_per_rune :
    advance 76 (fourByteRun.take (readLen 3)) = 300 ∧ advance 76 fourByteRun = 304 := by
  set_option maxRecDepth 100000 in decide

/-! ## composition: the executable statement `checkP` on the reporting pipeline -/

/-- **C02 end to end, chunk mode, general clauses**: for every document, name, context size and every collection of
    in-bounds atom matches, the ranges of the chunk matches the search reports (`gatherMatches → fillChunkMatches`) lie
    inside the content (or name), are ordered and non-overlapping within and across chunks, and each is a match of a
    positive atom (or the whole-name fallback when no atom contributes) — the executable statement the driver evaluates. -/
theorem C02_search_chunks (data name : Bytes) (ctx : Nat) (cands : List Cand)
    (hb : ∀ c ∈ cands, c.off + c.sz ≤ (if c.fileName then name.length else data.length)) :
    checkP data name false .multi cands (rangesOfChunks (reportChunks data name ctx cands)) = true :=
  C02_search_chunks' data name ctx cands hb

/-- **C02 end to end, line mode, general clauses**: the search reports line matches (no panic) whose fragments lie
    inside the content (or name), are ordered and non-overlapping within and across lines, and each of which is a maximal
    newline-free piece of a match of a positive atom (`gatherMatches → breakMatchesOnNewlines → fillContentMatches`). -/
theorem C02_search_lines (data name : Bytes) (ctx : Nat) (cands : List Cand)
    (hb : ∀ c ∈ cands, c.off + c.sz ≤ (if c.fileName then name.length else data.length)) :
    ∃ lms, reportLines data name ctx cands = some lms ∧
      checkP data name true .multi cands (rangesOfLines lms) = true :=
  C02_search_lines' data name ctx cands hb

/-- **C02 end to end, chunk mode, single content substring**: with the atom's candidates being all occurrences of the
    pattern (in any order), the reported chunk ranges satisfy the whole statement, including: they are exactly the
    successive leftmost non-overlapping occurrences. -/
theorem C02_search_chunks_substring (data name : Bytes) (ctx : Nat) (pat : Bytes) (hp : pat ≠ []) (cands : List Cand)
    (hc : cands.Perm (allOccurrences pat data)) (hne : occFrom pat data 0 ≠ []) :
    checkP data name false (.substr pat) cands (rangesOfChunks (reportChunks data name ctx cands)) = true := by
  have hb := allOccurrences_inBounds pat data name cands hc
  rw [checkP_split, C02_search_chunks' data name ctx cands hb, Bool.true_and]
  obtain ⟨sel, h1, _, _, _, h5⟩ := reportChunks_flat data name ctx cands hb
  have hg := gather_single_substring name data pat hp cands hc hne
  simp only [Bool.or_eq_true, beq_iff_eq]
  right
  rw [h1]
  have : (candsAsRanges sel).filter (fun r => !r.fileName) = candsAsRanges (sel.filter (fun c => !c.fileName)) := by
    simp only [candsAsRanges, List.filter_map]
    rfl
  rw [this, h5, hg]
  simp only [expectedSingle, Bool.false_eq_true, if_false, candsAsRanges, List.filter_map, List.map_map]
  have : (List.filter ((fun c : Cand => !c.fileName) ∘ fun o => ({ fileName := false, off := o, sz := pat.length } : Cand))
      (leftmostOcc pat data 0 0)) = leftmostOcc pat data 0 0 := by
    rw [List.filter_eq_self]; intro o _; rfl
  rw [this]
  rfl



/-- **C02 end to end, line mode, single content substring**: the fragments reported are exactly the successive leftmost
    non-overlapping occurrences of the pattern, cut at newline bytes. -/
theorem C02_search_lines_substring (data name : Bytes) (ctx : Nat) (pat : Bytes) (hp : pat ≠ []) (cands : List Cand)
    (hc : cands.Perm (allOccurrences pat data)) (hne : occFrom pat data 0 ≠ []) :
    ∃ lms, reportLines data name ctx cands = some lms ∧
      checkP data name true (.substr pat) cands (rangesOfLines lms) = true := by
  have hb := allOccurrences_inBounds pat data name cands hc
  have g := gathered_of_gather data name cands hb
  obtain ⟨lms, h1, h2⟩ := C02_search_lines' data name ctx cands hb
  refine ⟨lms, h1, ?_⟩
  rw [checkP_split, h2, Bool.true_and]
  obtain ⟨lms', sel, h1', h3, h4⟩ := reportLines_flat data name ctx cands hb
  have hlms : lms' = lms := by rw [h1] at h1'; exact (Option.some.inj h1').symm
  subst hlms
  have hg := gather_single_substring name data pat hp cands hc hne
  have hcontent : (gatherCands name cands).filter (fun c => !c.fileName) = gatherCands name cands := by
    rw [hg, List.filter_eq_self]; intro c hcm
    simp only [List.mem_map] at hcm
    obtain ⟨o, _, rfl⟩ := hcm; rfl
  have hnonempty : gatherCands name cands ≠ [] := gatherCands_ne_nil name cands
  rcases h4 with ⟨h5, _, _⟩ | ⟨rfl, hfalse⟩
  · rw [hcontent] at h5; exact absurd h5 hnonempty
  · simp only [Bool.or_eq_true, beq_iff_eq]
    right
    rw [h3]
    have : (candsAsRanges (breakMatchesOnNewlines data ((gatherCands name cands).filter (fun c => !c.fileName)))).filter
        (fun r => !r.fileName) =
        candsAsRanges (breakMatchesOnNewlines data ((gatherCands name cands).filter (fun c => !c.fileName))) := by
      rw [List.filter_eq_self]
      intro r hr
      simp only [candsAsRanges, List.mem_map] at hr
      obtain ⟨c, hcm, rfl⟩ := hr
      simp [hfalse c hcm]
    rw [this, hcontent, hg]
    simp only [expectedSingle, if_true, candsAsRanges, breakMatchesOnNewlines, List.map_map, List.map_flatMap,
      List.flatMap_map]
    apply flatMap_congr'
    intro o ho
    have hmem : (⟨false, o, pat.length⟩ : Cand) ∈ gatherCands name cands := by
      rw [hg]; exact List.mem_map.mpr ⟨o, ho, rfl⟩
    have hin := g.inBounds _ hmem
    simp only [Bool.false_eq_true, if_false] at hin
    have := breakOnNewlines_eq_cut data ⟨false, o, pat.length⟩ hin
    exact this


/-- what a regexp engine's `FindAllIndex` returns, as content candidates: increasing offsets, no overlap, in bounds -/
structure EngineMatches (data : Bytes) (ms : List Cand) : Prop where
  content : ∀ c ∈ ms, c.fileName = false
  ordered : ms.Pairwise (fun a b => a.off + a.sz ≤ b.off ∧ a.off < b.off)
  inBounds : ∀ c ∈ ms, c.off + c.sz ≤ data.length

theorem EngineMatches.sorted {data : Bytes} {ms : List Cand} (h : EngineMatches data ms) : ms.Pairwise cle := by
  refine h.ordered.imp_of_mem ?_
  intro a b ha hb hab
  rw [cle_iff]; right
  exact ⟨by rw [h.content a ha, h.content b hb], Or.inl hab.2⟩

theorem EngineMatches.gather {data : Bytes} {ms : List Cand} (h : EngineMatches data ms) (name : Bytes) (hne : ms ≠ []) :
    gatherCands name ms = ms :=
  gather_engine_matches_id name ms hne h.sorted (h.ordered.imp (fun hab _ => hab.1))

theorem cutAtNL_zero (data : Bytes) (off : Nat) : cutAtNL data off 0 = [] := by
  unfold cutAtNL
  cases h : data.drop off <;> simp [cutAtNL.go]

theorem expected_cut (data : Bytes) (l : List Cand) :
    List.flatMap (fun o => cutAtNL data o.1 o.2) (List.filter (fun m => decide (m.2 > 0)) (List.map (fun c => (c.off, c.sz)) l)) =
      List.flatMap (fun c => cutAtNL data c.off c.sz) l := by
  induction l with
  | nil => rfl
  | cons d u ihu =>
    simp only [List.map_cons, List.filter_cons, List.flatMap_cons]
    by_cases hz : d.sz > 0
    · simp only [hz, decide_true, if_true, List.flatMap_cons, ihu]
    · have h0 : d.sz = 0 := by omega
      simp [h0, cutAtNL_zero, ihu]

/-- **C02 end to end, single regular expression** (both modes): when the atom's candidates are the engine's matches,
    the reported ranges cover exactly the bytes of the engine's non-empty matches — newline bytes excluded in line mode:
    the reported non-empty content ranges *are* the engine's non-empty matches (cut at newlines in line mode). -/
theorem C02_search_regexp (data name : Bytes) (ctx : Nat) (ms : List Cand) (h : EngineMatches data ms) (hne : ms ≠ []) :
    checkP data name false (.regexp (ms.map fun c => (c.off, c.sz))) ms
      (rangesOfChunks (reportChunks data name ctx ms)) = true ∧
    ∃ lms, reportLines data name ctx ms = some lms ∧
      checkP data name true (.regexp (ms.map fun c => (c.off, c.sz))) ms (rangesOfLines lms) = true := by
  have hb : ∀ c ∈ ms, c.off + c.sz ≤ (if c.fileName then name.length else data.length) := by
    intro c hc; simp only [h.content c hc, Bool.false_eq_true, if_false]; exact h.inBounds c hc
  have hg := h.gather name hne
  have hcontent : ms.filter (fun c => !c.fileName) = ms := by
    rw [List.filter_eq_self]; intro c hc; simp [h.content c hc]
  constructor
  · rw [checkP_split, C02_search_chunks data name ctx ms hb, Bool.true_and]
    obtain ⟨sel, h1, _, _, _, h5⟩ := reportChunks_flat data name ctx ms hb
    rw [h1]
    have : (candsAsRanges sel).filter (fun r => !r.fileName) = candsAsRanges (sel.filter (fun c => !c.fileName)) := by
      simp only [candsAsRanges, List.filter_map]; rfl
    rw [this, h5, hg, hcontent]
    simp only [expectedSingle, Bool.false_eq_true, if_false, beq_iff_eq, candsAsRanges, List.filter_map, List.map_map]
    rfl
  · obtain ⟨lms, h1, h2⟩ := C02_search_lines data name ctx ms hb
    refine ⟨lms, h1, ?_⟩
    rw [checkP_split, h2, Bool.true_and]
    obtain ⟨lms', sel, h1', h3, h4⟩ := reportLines_flat data name ctx ms hb
    have hlms : lms' = lms := by rw [h1] at h1'; exact (Option.some.inj h1').symm
    subst hlms
    rw [hg, hcontent] at h4
    rcases h4 with ⟨h5, _, _⟩ | ⟨rfl, hfalse⟩
    · exact absurd h5 hne
    · rw [h3]
      have e1 : (candsAsRanges (breakMatchesOnNewlines data ms)).filter (fun r => !r.fileName) =
          candsAsRanges (breakMatchesOnNewlines data ms) := by
        rw [List.filter_eq_self]
        intro r hr
        simp only [candsAsRanges, List.mem_map] at hr
        obtain ⟨c, hcm, rfl⟩ := hr
        simp [hfalse c hcm]
      have pre := linePre_break data ms (h.ordered.imp (fun hab => hab.1)) h.inBounds
      have e2 : (candsAsRanges (breakMatchesOnNewlines data ms)).filter (fun r => decide (r.len > 0)) =
          candsAsRanges (breakMatchesOnNewlines data ms) := by
        rw [List.filter_eq_self]
        intro r hr
        simp only [candsAsRanges, List.mem_map] at hr
        obtain ⟨c, hcm, rfl⟩ := hr
        simpa using (pre.2 c hcm).1
      rw [e1, e2]
      -- both sides are the cuts of the non-empty matches
      have hL : (candsAsRanges (breakMatchesOnNewlines data ms)).map (fun r => (r.off, r.len)) =
          ms.flatMap (fun c => cutAtNL data c.off c.sz) := by
        simp only [candsAsRanges, breakMatchesOnNewlines, List.map_map, List.map_flatMap]
        apply flatMap_congr'
        intro c hc
        exact breakOnNewlines_eq_cut data c (h.inBounds c hc)
      have hR : expectedSingle data true ((ms.map fun c => (c.off, c.sz)).filter (fun m => decide (m.2 > 0))) =
          ms.flatMap (fun c => cutAtNL data c.off c.sz) := by
        simp only [expectedSingle, if_true]
        exact expected_cut data ms
      simp only [beq_iff_eq]
      rw [hL, hR]

/-- candidates that start at a rune index of the content and span whole runes (what `findOffset` and the rune-wise
    comparison of `matchContent` produce) start and end on rune boundaries: the hypothesis of C03's column theorem -/
theorem rune_offset_candidates_aligned (data : Bytes) (r k : Nat) :
    IsBoundary data (advance r data) ∧ IsBoundary data (advance (r + k) data) :=
  ⟨isBoundary_advance r data, isBoundary_advance (r + k) data⟩

/-- the content ranges the chunk-mode report contains, when every gathered candidate is a content candidate -/
theorem report_chunks_content_ranges (data name : Bytes) (ctx : Nat) (cands : List Cand)
    (hb : ∀ c ∈ cands, c.off + c.sz ≤ (if c.fileName then name.length else data.length))
    (hG : ∀ c ∈ gatherCands name cands, c.fileName = false) :
    (((rangesOfChunks (reportChunks data name ctx cands)).flatMap id).filter (fun r => !r.fileName)).map
        (fun r => (r.off, r.len)) = (gatherCands name cands).map (fun c => (c.off, c.sz)) := by
  obtain ⟨sel, h1, _, _, _, h5⟩ := reportChunks_flat data name ctx cands hb
  have hall : (gatherCands name cands).filter (fun c => !c.fileName) = gatherCands name cands := by
    rw [List.filter_eq_self]; intro c hc; simp [hG c hc]
  rw [h1]
  have : (candsAsRanges sel).filter (fun r => !r.fileName) = candsAsRanges (sel.filter (fun c => !c.fileName)) := by
    simp only [candsAsRanges, List.filter_map]; rfl
  rw [this, h5, hall]
  simp only [candsAsRanges, List.map_map]
  rfl

/-- … and the line-mode report: the gathered candidates cut at newline bytes -/
theorem report_lines_content_ranges (data name : Bytes) (ctx : Nat) (cands : List Cand)
    (hb : ∀ c ∈ cands, c.off + c.sz ≤ (if c.fileName then name.length else data.length))
    (hG : ∀ c ∈ gatherCands name cands, c.fileName = false) (lms : List LineMatch)
    (hl : reportLines data name ctx cands = some lms) :
    (((rangesOfLines lms).flatMap id).filter (fun r => !r.fileName)).map (fun r => (r.off, r.len)) =
      (gatherCands name cands).flatMap (fun c => cutAtNL data c.off c.sz) := by
  have g := gathered_of_gather data name cands hb
  obtain ⟨lms', sel, h1', h3, h4⟩ := reportLines_flat data name ctx cands hb
  have hlms : lms' = lms := by rw [hl] at h1'; exact (Option.some.inj h1').symm
  subst hlms
  have hall : (gatherCands name cands).filter (fun c => !c.fileName) = gatherCands name cands := by
    rw [List.filter_eq_self]; intro c hc; simp [hG c hc]
  rw [hall] at h4
  rcases h4 with ⟨h5, _, _⟩ | ⟨rfl, hfalse⟩
  · exact absurd h5 (gatherCands_ne_nil name cands)
  · rw [h3]
    have : (candsAsRanges (breakMatchesOnNewlines data (gatherCands name cands))).filter (fun r => !r.fileName) =
        candsAsRanges (breakMatchesOnNewlines data (gatherCands name cands)) := by
      rw [List.filter_eq_self]
      intro r hr
      simp only [candsAsRanges, List.mem_map] at hr
      obtain ⟨c, hcm, rfl⟩ := hr
      simp [hfalse c hcm]
    rw [this]
    simp only [candsAsRanges, breakMatchesOnNewlines, List.map_map, List.map_flatMap]
    apply flatMap_congr'
    intro c hc
    have hin := g.inBounds c hc
    simp only [hG c hc, Bool.false_eq_true, if_false] at hin
    exact breakOnNewlines_eq_cut data c hin

theorem filterFrom_eq_greedy_var (last : Cand) (l : List Cand) (hl : last.fileName = false) (hc : ∀ c ∈ l, c.fileName = false) :
    (filterFrom last l).map (fun c => (c.off, c.sz)) = greedyFrom (last.off + last.sz) (l.map fun c => (c.off, c.sz)) := by
  induction l generalizing last with
  | nil => rfl
  | cons x r ih =>
    have hx := hc x (by simp)
    have hr : ∀ c ∈ r, c.fileName = false := fun c h => hc c (by simp [h])
    simp only [filterFrom, hl, hx, bne_self_eq_false, Bool.false_eq_true, if_false, List.map_cons, greedyFrom, ge_iff_le]
    by_cases h : last.off + last.sz ≤ x.off
    · simp only [h, if_true, List.map_cons]
      rw [ih x hx hr]
    · simp only [h, if_false]
      exact ih last hl hr

/-- **C02 end to end, single content substring given by its occurrences** (the case-insensitive form, whose matched byte
    length may differ from the pattern's): when the atom's candidates are its occurrences listed by increasing offset,
    the reported ranges are exactly the successive leftmost non-overlapping ones (cut at newlines in line mode). -/
theorem C02_search_occurrences (data name : Bytes) (ctx : Nat) (cands : List Cand) (hne : cands ≠ [])
    (hcontent : ∀ c ∈ cands, c.fileName = false) (hinb : ∀ c ∈ cands, c.off + c.sz ≤ data.length)
    (hsorted : cands.Pairwise (fun a b => a.off < b.off)) :
    checkP data name false .occs cands (rangesOfChunks (reportChunks data name ctx cands)) = true ∧
    ∃ lms, reportLines data name ctx cands = some lms ∧ checkP data name true .occs cands (rangesOfLines lms) = true := by
  have hb : ∀ c ∈ cands, c.off + c.sz ≤ (if c.fileName then name.length else data.length) := by
    intro c hc; simp only [hcontent c hc, Bool.false_eq_true, if_false]; exact hinb c hc
  have hcle : cands.Pairwise cle := by
    refine hsorted.imp_of_mem ?_
    intro a b ha hb' hab
    rw [cle_iff]; right
    exact ⟨by rw [hcontent a ha, hcontent b hb'], Or.inl hab⟩
  have hlen : ¬ cands.length = 0 := by simpa using hne
  have hgather : (gatherCands name cands).map (fun c => (c.off, c.sz)) =
      greedyFrom 0 (cands.map fun c => (c.off, c.sz)) := by
    simp only [gatherCands, hlen, if_false]
    rw [sortCands_of_sorted hcle]
    cases cands with
    | nil => exact absurd rfl hne
    | cons c r =>
      simp only [overlapFilter, List.map_cons, greedyFrom, ge_iff_le, Nat.zero_le, if_true]
      rw [filterFrom_eq_greedy_var c r (hcontent c (by simp)) (fun x hx => hcontent x (by simp [hx]))]
  have hG : ∀ c ∈ gatherCands name cands, c.fileName = false := by
    intro c hc
    rcases gather_mem_cases name cands c hc with h | ⟨h, _⟩
    · exact hcontent c h
    · exact absurd h hne
  have hfilter : cands.filter (fun c => !c.fileName) = cands := by
    rw [List.filter_eq_self]; intro c hc; simp [hcontent c hc]
  constructor
  · rw [checkP_split, C02_search_chunks data name ctx cands hb, Bool.true_and]
    simp only [beq_iff_eq]
    rw [report_chunks_content_ranges data name ctx cands hb hG, hgather, hfilter]
    simp [expectedSingle]
  · obtain ⟨lms, h1, h2⟩ := C02_search_lines data name ctx cands hb
    refine ⟨lms, h1, ?_⟩
    rw [checkP_split, h2, Bool.true_and]
    simp only [beq_iff_eq]
    rw [report_lines_content_ranges data name ctx cands hb hG lms h1, hfilter]
    simp only [expectedSingle, if_true, ← hgather, List.flatMap_map]

/-- the source constants the `findOffset` theorems depend on, regenerated from the working tree by the translator on
    every run: `runeOffsetFrequency` is the model's `freq`, and the window `findOffset` reads holds 99 runes of 4 bytes -/
theorem source_constants_ok :
    Gen.c02RuneOffsetFrequency = freq ∧ 4 * (freq - 1) ≤ readLen Gen.c02FindOffsetWindowFactor := by decide

/-- `findOffset_exact` for the window size found in the source -/
theorem findOffset_exact_source (docs : List Bytes) (hclean : ∀ d ∈ docs, Clean d) (idx r : Nat) (hidx : idx < docs.length)
    (hr : r < runeCount (docs.getD idx [])) :
    findOffset (Posting.ofDocs docs) false (some (readLen Gen.c02FindOffsetWindowFactor)) idx r =
      advance r (docs.getD idx []) :=
  findOffset_exact docs hclean idx r hidx hr _ (by intro n h; cases h; exact source_constants_ok.2)

example := C02_search_regexp [97, 98, 10, 97, 98] [102] 1 [⟨false, 0, 3⟩, ⟨false, 3, 0⟩, ⟨false, 4, 1⟩]
  ⟨by decide, by decide, by decide⟩ (by decide)
example := C02_search_occurrences [97, 98, 10, 97, 98] [102] 1 [⟨false, 0, 2⟩, ⟨false, 1, 3⟩, ⟨false, 3, 2⟩]
  (by decide) (by decide) (by decide) (by decide)
example := C02_search_chunks [97, 98, 10, 97, 98] [102] 1 [⟨false, 0, 2⟩, ⟨false, 3, 2⟩, ⟨true, 0, 1⟩] (by decide)
example := C02_search_lines_substring [97, 98, 10, 97, 98] [102] 1 [97, 98] (by decide) [⟨false, 3, 2⟩, ⟨false, 0, 2⟩]
  (by decide) (by decide)

/-! non-vacuity: candidates of three atoms, one below `not`, with overlaps, a same-offset tie (the longer wins),
    adjacent matches (both kept) and file-name matches (sorted first, never compared with content matches) -/
def exAtoms : List Atom :=
  [⟨0, 0, true, [⟨false, 4, 3⟩, ⟨false, 0, 3⟩, ⟨false, 5, 3⟩]⟩,
   ⟨1, 4, true, [⟨false, 0, 5⟩, ⟨false, 7, 2⟩, ⟨true, 1, 2⟩]⟩,
   ⟨0, 1, true, [⟨false, 20, 3⟩]⟩,
   ⟨2, 0, true, [⟨true, 0, 2⟩, ⟨false, 9, 0⟩]⟩]
example : gatherMatches [97, 98, 99] exAtoms = [⟨true, 0, 2⟩, ⟨false, 0, 5⟩, ⟨false, 5, 3⟩, ⟨false, 9, 0⟩] := by decide
example : gatherMatches [97, 98, 99] [⟨0, 1, true, [⟨false, 20, 3⟩]⟩] = [⟨true, 0, 3⟩] := by decide

end ZoektModel.C02
