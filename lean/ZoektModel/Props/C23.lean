/-
C23 — Tenants never see another tenant's repositories.

Statement (properties.jsonl): with strict tenant enforcement, a search or listing made for a tenant never returns
file matches, repository list entries, repository names or URL templates of repositories owned by another tenant,
and a request without a tenant sees no tenant-owned repositories; only the internal system context sees all of them.
-/
import ZoektModel.C23.Lemmas
namespace ZoektModel.C23

/-- where a file match comes from: a live document of a live repository that the access predicate admits, and
    every repository-identifying field of the match is that repository's / that document's -/
def FileFrom (acc : Int → Bool) (sh : Shard) (f : FileOut) : Prop :=
  ∃ r d, sh.repos[f.repoIdx]? = some r ∧ sh.docs[f.docIdx]? = some d ∧ d.repo = f.repoIdx ∧
    acc r.tenant = true ∧ r.tomb = false ∧ d.ftomb = false ∧
    f.repository = r.name ∧ f.repositoryID = r.id ∧ f.fileName = d.name

/-- **C23, file matches**: for every access predicate, shard, simplification outcome and per-repository limit, each
    returned file is a document of a repository the context may access. -/
theorem files_filtered (acc : Int → Bool) (sh : Shard) (early : Bool) (maxRepo : Nat) :
    ∀ f ∈ (search acc sh early maxRepo).files, FileFrom acc sh f := by
  intro f hf
  unfold search at hf
  split at hf
  · simp at hf
  · simp only [List.mem_reverse] at hf
    have := loop_inv acc sh maxRepo sh.docs [] ⟨0, 0, []⟩ (by simp) (by intro f hf; simp at hf) f hf
    obtain ⟨r, d, h1, h2, h3, h4, h5, h6, h7, h8, h9⟩ := this
    exact ⟨r, d, h1, h2, h3, h4, h5, h6, h7, h8, h9⟩

end ZoektModel.C23
