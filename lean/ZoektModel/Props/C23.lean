/-
C23 — Tenants never see another tenant's repositories.

Statement (properties.jsonl): with strict tenant enforcement, a search or listing made for a tenant never returns
file matches, repository list entries, repository names or URL templates of repositories owned by another tenant,
and a request without a tenant sees no tenant-owned repositories; only the internal system context sees all of them.
-/
import ZoektModel.C23.Lemmas
import ZoektModel.Generated.C23Fields
namespace ZoektModel.C23

/-- where a file match comes from: a live document of a live repository that the access predicate admits, and
    every repository-identifying field of the match is that repository's / that document's -/
def FileFrom (acc : Int → Bool) (sh : Shard) (f : FileOut) : Prop :=
  ∃ r d, sh.repos[f.repoIdx]? = some r ∧ sh.docs[f.docIdx]? = some d ∧ d.repo = f.repoIdx ∧
    acc r.tenant = true ∧ r.tomb = false ∧ d.ftomb = false ∧
    f.repository = r.name ∧ f.repositoryID = r.id ∧ f.fileName = d.name

/-- **C23, file matches**: for every access predicate, shard, simplification outcome and per-repository limit, each
    returned file is a document of a repository the context may access. -/
theorem files_filtered (acc : Int → Bool) (sh : Shard) (early : Bool) (maxRepo : Nat) :
    ∀ f ∈ (search acc sh early maxRepo).files, FileFrom acc sh f := by
  intro f hf
  unfold search at hf
  split at hf
  · simp at hf
  · simp only [List.mem_reverse] at hf
    have := loop_inv acc sh maxRepo sh.docs [] ⟨0, 0, []⟩ (by simp) (by intro f hf; simp at hf) f hf
    obtain ⟨r, d, h1, h2, h3, h4, h5, h6, h7, h8, h9⟩ := this
    exact ⟨r, d, h1, h2, h3, h4, h5, h6, h7, h8, h9⟩


/-- **C23, URL maps**: every write to `RepoURLs` / `LineFragments` is the name and template of a repository the
    context may access, or of one of its sub-repositories. -/
theorem maps_filtered (acc : Int → Bool) (sh : Shard) (early : Bool) (maxRepo : Nat) :
    (∀ p ∈ (search acc sh early maxRepo).urls, ∃ r ∈ sh.repos, acc r.tenant = true ∧ p ∈ repoPairs (·.url) (·.url) r) ∧
    (∀ p ∈ (search acc sh early maxRepo).frags, ∃ r ∈ sh.repos, acc r.tenant = true ∧ p ∈ repoPairs (·.frag) (·.frag) r) := by
  unfold search
  split
  · simp
  · exact ⟨fun p hp => mapWrites_mem acc sh _ _ p hp, fun p hp => mapWrites_mem acc sh _ _ p hp⟩

/-- the same for the finished Go maps the caller receives (one entry per key, last write wins) -/
theorem maps_filtered_final (acc : Int → Bool) (sh : Shard) (early : Bool) (maxRepo : Nat) :
    (∀ p ∈ finalMap (search acc sh early maxRepo).urls, ∃ r ∈ sh.repos, acc r.tenant = true ∧ p ∈ repoPairs (·.url) (·.url) r) ∧
    (∀ p ∈ finalMap (search acc sh early maxRepo).frags, ∃ r ∈ sh.repos, acc r.tenant = true ∧ p ∈ repoPairs (·.frag) (·.frag) r) :=
  ⟨fun p hp => (maps_filtered acc sh early maxRepo).1 p (finalMap_mem _ p hp),
   fun p hp => (maps_filtered acc sh early maxRepo).2 p (finalMap_mem _ p hp)⟩

/-- **C23, repository list**: for every simplification outcome and both field modes, every entry of `Repos` and every
    `ReposMap` write is a live repository the context may access. -/
theorem list_filtered (acc : Int → Bool) (sh : Shard) (mode : ListMode) (early : Bool) (field : Field) :
    ListInv acc sh (list acc sh mode early field) := by
  have h0 : ListInv acc sh ⟨[], [], 0⟩ := ⟨by simp, by simp⟩
  unfold list
  cases mode with
  | constFalse => exact h0
  | constTrue => exact listFrom_inv acc sh _ field sh.repos [] _ (by simp) h0
  | viaSearch => exact listFrom_inv acc sh _ field sh.repos [] _ (by simp) h0

/-- the `RepoSet` by which `typeRepoSearcher.eval` replaces `type:repo child` holds only names of live repositories
    the context may access -/
theorem typerepo_set_filtered (acc : Int → Bool) (sh : Shard) (mode : ListMode) (early : Bool) :
    ∀ n ∈ typeRepoSet acc sh mode early, ∃ r ∈ sh.repos, acc r.tenant = true ∧ r.tomb = false ∧ r.name = n := by
  intro n hn
  unfold typeRepoSet at hn
  rw [List.mem_filterMap] at hn
  obtain ⟨i, hi, hn⟩ := hn
  obtain ⟨r, hr, hacc, htomb⟩ := (list_filtered acc sh mode early .repos).1 i hi
  simp only [hr, Option.map_some, Option.some.injEq] at hn
  exact ⟨r, List.mem_of_getElem? hr, hacc, htomb, hn⟩

/-! ### `tenant.HasAccess` in strict mode is the statement's rule -/

theorem hasAccess_strict (c : Ctx) (tid : Int) : hasAccess true c tid = mayAccess c tid := by
  cases c <;> simp [hasAccess, mayAccess]

theorem hasAccess_tenant_iff (t tid : Int) : hasAccess true (.tenant t) tid = true ↔ t = tid := by
  simp [hasAccess]

theorem hasAccess_none (tid : Int) : hasAccess true .none tid = false := by simp [hasAccess]

theorem hasAccess_system (strict : Bool) (tid : Int) : hasAccess strict .system tid = true := by
  cases strict <;> simp [hasAccess]

theorem hasAccess_not_strict (c : Ctx) (tid : Int) : hasAccess false c tid = true := by simp [hasAccess]

/-- **C23 for a tenant**: in strict mode every file match, every URL-map entry and every listed repository of a request
    made for tenant `t` belongs to a repository whose `TenantID` is `t`. -/
theorem tenant_sees_only_own (t : Int) (sh : Shard) (early : Bool) (maxRepo : Nat) (mode : ListMode) (field : Field) :
    (∀ f ∈ (search (hasAccess true (.tenant t)) sh early maxRepo).files,
        ∃ r, sh.repos[f.repoIdx]? = some r ∧ r.tenant = t ∧ f.repository = r.name ∧ f.repositoryID = r.id) ∧
    (∀ p ∈ finalMap (search (hasAccess true (.tenant t)) sh early maxRepo).urls,
        ∃ r ∈ sh.repos, r.tenant = t ∧ p ∈ repoPairs (·.url) (·.url) r) ∧
    (∀ p ∈ finalMap (search (hasAccess true (.tenant t)) sh early maxRepo).frags,
        ∃ r ∈ sh.repos, r.tenant = t ∧ p ∈ repoPairs (·.frag) (·.frag) r) ∧
    (∀ i ∈ (list (hasAccess true (.tenant t)) sh mode early field).repos, ∃ r, sh.repos[i]? = some r ∧ r.tenant = t) ∧
    (∀ w ∈ (list (hasAccess true (.tenant t)) sh mode early field).mapWrites,
        ∃ r, sh.repos[w.2]? = some r ∧ r.tenant = t ∧ r.id = w.1) := by
  refine ⟨?_, ?_, ?_, ?_, ?_⟩
  · intro f hf
    obtain ⟨r, d, h1, _, _, h4, _, _, h7, h8, _⟩ := files_filtered _ sh early maxRepo f hf
    exact ⟨r, h1, ((hasAccess_tenant_iff t r.tenant).1 h4).symm, h7, h8⟩
  · intro p hp
    obtain ⟨r, hr, hacc, hp⟩ := (maps_filtered_final _ sh early maxRepo).1 p hp
    exact ⟨r, hr, ((hasAccess_tenant_iff t r.tenant).1 hacc).symm, hp⟩
  · intro p hp
    obtain ⟨r, hr, hacc, hp⟩ := (maps_filtered_final _ sh early maxRepo).2 p hp
    exact ⟨r, hr, ((hasAccess_tenant_iff t r.tenant).1 hacc).symm, hp⟩
  · intro i hi
    obtain ⟨r, hr, hacc, _⟩ := (list_filtered _ sh mode early field).1 i hi
    exact ⟨r, hr, ((hasAccess_tenant_iff t r.tenant).1 hacc).symm⟩
  · intro w hw
    obtain ⟨r, hr, hacc, _, hid⟩ := (list_filtered _ sh mode early field).2 w hw
    exact ⟨r, hr, ((hasAccess_tenant_iff t r.tenant).1 hacc).symm, hid⟩

/-- **C23 without a tenant**: in strict mode a request without tenant gets no file, no map entry and no repository. -/
theorem no_tenant_sees_nothing (sh : Shard) (early : Bool) (maxRepo : Nat) (mode : ListMode) (field : Field) :
    (search (hasAccess true .none) sh early maxRepo).files = [] ∧
    (search (hasAccess true .none) sh early maxRepo).urls = [] ∧
    (search (hasAccess true .none) sh early maxRepo).frags = [] ∧
    (list (hasAccess true .none) sh mode early field).repos = [] ∧
    (list (hasAccess true .none) sh mode early field).mapWrites = [] := by
  refine ⟨?_, ?_, ?_, ?_, ?_⟩
  · apply List.eq_nil_iff_forall_not_mem.2
    intro f hf
    obtain ⟨r, _, _, _, _, h4, _⟩ := files_filtered _ sh early maxRepo f hf
    simp [hasAccess_none] at h4
  · apply List.eq_nil_iff_forall_not_mem.2
    intro p hp
    obtain ⟨r, _, hacc, _⟩ := (maps_filtered _ sh early maxRepo).1 p hp
    simp [hasAccess_none] at hacc
  · apply List.eq_nil_iff_forall_not_mem.2
    intro p hp
    obtain ⟨r, _, hacc, _⟩ := (maps_filtered _ sh early maxRepo).2 p hp
    simp [hasAccess_none] at hacc
  · apply List.eq_nil_iff_forall_not_mem.2
    intro i hi
    obtain ⟨r, _, hacc, _⟩ := (list_filtered _ sh mode early field).1 i hi
    simp [hasAccess_none] at hacc
  · apply List.eq_nil_iff_forall_not_mem.2
    intro w hw
    obtain ⟨r, _, hacc, _⟩ := (list_filtered _ sh mode early field).2 w hw
    simp [hasAccess_none] at hacc

/-! ### the statement as evaluated by the driver -/

theorem fileOk_of_from (acc : Int → Bool) (sh : Shard) (f : FileOut) (h : FileFrom acc sh f) :
    fileOk acc sh (f.repository, f.repositoryID, f.fileName) = true := by
  obtain ⟨r, d, h1, h2, h3, h4, h5, h6, h7, h8, h9⟩ := h
  unfold fileOk
  rw [List.any_eq_true]
  refine ⟨(r, f.repoIdx), List.mem_zipIdx_iff_getElem?.2 (by simpa using h1), ?_⟩
  simp only [h4, h5, h7, h8, Bool.not_false, Bool.and_self, beq_self_eq_true, Bool.true_and, List.any_eq_true]
  exact ⟨d, List.mem_of_getElem? h2, by simp [h3, h9]⟩

/-- **C23 as evaluated by the driver on the implementation's output, search**: what the model returns satisfies the
    executable statement `checkSearch` (the predicate the driver applies to the real `SearchResult`). -/
theorem C23_checkSearch (acc : Int → Bool) (sh : Shard) (early : Bool) (maxRepo : Nat) :
    checkSearch acc sh (observeSearch (search acc sh early maxRepo)) = true := by
  unfold checkSearch observeSearch
  simp only [Bool.and_eq_true, List.all_eq_true]
  refine ⟨⟨?_, ?_⟩, ?_⟩
  · intro x hx
    rw [List.mem_map] at hx
    obtain ⟨f, hf, rfl⟩ := hx
    exact fileOk_of_from acc sh f (files_filtered acc sh early maxRepo f hf)
  · intro p hp
    exact pairOk_of_mem acc sh _ _ p ((maps_filtered_final acc sh early maxRepo).1 p hp)
  · intro p hp
    exact pairOk_of_mem acc sh _ _ p ((maps_filtered_final acc sh early maxRepo).2 p hp)

/-- **C23 as evaluated by the driver, list** -/
theorem C23_checkList (acc : Int → Bool) (sh : Shard) (mode : ListMode) (early : Bool) (field : Field) :
    checkList acc sh (observeList sh (list acc sh mode early field)) = true := by
  obtain ⟨h1, h2⟩ := list_filtered acc sh mode early field
  unfold checkList observeList
  simp only [Bool.and_eq_true, List.all_eq_true]
  constructor
  · intro e he
    rw [List.mem_filterMap] at he
    obtain ⟨i, hi, he⟩ := he
    obtain ⟨r, hr, hacc, htomb⟩ := h1 i hi
    simp only [hr, Option.map_some, Option.some.injEq] at he
    subst he
    unfold entryOk
    rw [List.any_eq_true]
    exact ⟨r, List.mem_of_getElem? hr, by simp [hacc, htomb]⟩
  · intro id hid
    obtain ⟨w, hw, rfl⟩ := finalIds_mem _ id hid
    obtain ⟨r, hr, hacc, htomb, hid⟩ := h2 w hw
    unfold idOk
    rw [List.any_eq_true]
    exact ⟨r, List.mem_of_getElem? hr, by simp [hacc, htomb, hid]⟩

/-! ### completeness: filtering removes nothing the context is entitled to -/

/-- without a per-repository limit every live matching document of a repository the context may access is returned -/
theorem files_complete (acc : Int → Bool) (sh : Shard) (j : Nat) (d : Doc) (r : Repo)
    (hd : sh.docs[j]? = some d) (hr : sh.repos[d.repo]? = some r) (hacc : acc r.tenant = true) (htomb : r.tomb = false)
    (hft : d.ftomb = false) (hc : d.count ≠ 0) :
    ⟨d.repo, j, r.name, r.id, d.name⟩ ∈ (search acc sh false 0).files := by
  unfold search
  simp only [Bool.false_eq_true, if_false, List.mem_reverse]
  have := loopFrom_complete acc sh sh.docs [] ⟨0, 0, []⟩ j d r hd hr hacc htomb hft hc
  simpa using this

/-- **only the internal system context sees all of them**: the system context has access to every tenant's
    repositories in every enforcement mode, so (by `files_complete`) it is returned every live matching document. -/
theorem system_sees_all (strict : Bool) (sh : Shard) (j : Nat) (d : Doc) (r : Repo)
    (hd : sh.docs[j]? = some d) (hr : sh.repos[d.repo]? = some r) (htomb : r.tomb = false)
    (hft : d.ftomb = false) (hc : d.count ≠ 0) :
    ⟨d.repo, j, r.name, r.id, d.name⟩ ∈ (search (hasAccess strict .system) sh false 0).files :=
  files_complete _ sh j d r hd hr (hasAccess_system strict r.tenant) htomb hft hc

/-- … and a tenant is returned every live matching document of its own repositories -/
theorem tenant_sees_all_own (t : Int) (sh : Shard) (j : Nat) (d : Doc) (r : Repo)
    (hd : sh.docs[j]? = some d) (hr : sh.repos[d.repo]? = some r) (hown : r.tenant = t) (htomb : r.tomb = false)
    (hft : d.ftomb = false) (hc : d.count ≠ 0) :
    ⟨d.repo, j, r.name, r.id, d.name⟩ ∈ (search (hasAccess true (.tenant t)) sh false 0).files :=
  files_complete _ sh j d r hd hr ((hasAccess_tenant_iff t r.tenant).2 hown.symm) htomb hft hc

/-! ### several shards -/

/-- every file and every URL-map entry of every per-shard result that the sharded searcher forwards comes from a
    repository of that shard which the context may access -/
theorem sharded_filtered (acc : Int → Bool) (shs : List (Shard × Bool)) (maxRepo : Nat) :
    ∀ o ∈ searchShards acc shs maxRepo, ∃ p ∈ shs,
      (∀ f ∈ o.files, FileFrom acc p.1 f) ∧
      (∀ e ∈ o.urls, ∃ r ∈ p.1.repos, acc r.tenant = true ∧ e ∈ repoPairs (·.url) (·.url) r) ∧
      (∀ e ∈ o.frags, ∃ r ∈ p.1.repos, acc r.tenant = true ∧ e ∈ repoPairs (·.frag) (·.frag) r) := by
  intro o ho
  unfold searchShards at ho
  rw [List.mem_map] at ho
  obtain ⟨p, hp, rfl⟩ := ho
  exact ⟨p, hp, files_filtered acc p.1 p.2 maxRepo, (maps_filtered acc p.1 p.2 maxRepo).1, (maps_filtered acc p.1 p.2 maxRepo).2⟩

/-- the `RepoSet` that replaces `type:repo child` for a request holds only names of live repositories, of some shard,
    that the request's context may access -/
theorem typerepo_set_all_filtered (acc : Int → Bool) (shs : List (Shard × ListMode × Bool)) :
    ∀ n ∈ typeRepoSetAll acc shs, ∃ p ∈ shs, ∃ r ∈ p.1.repos, acc r.tenant = true ∧ r.tomb = false ∧ r.name = n := by
  intro n hn
  unfold typeRepoSetAll at hn
  rw [List.mem_flatMap] at hn
  obtain ⟨p, hp, hn⟩ := hn
  exact ⟨p, hp, typerepo_set_filtered acc p.1 p.2.1 p.2.2 n hn⟩

/-- `(type:repo child) AND rest` through `typeRepoSearcher`: every returned file is a live document of a repository
    the context may access (the RepoSet restricts matches, it never adds any) -/
theorem typerepo_search_filtered (acc : Int → Bool) (shChild shRest : Shard) (mode : ListMode) (earlyChild : Bool) :
    ∀ f ∈ (typeRepoSearch acc shChild shRest mode earlyChild).files,
      ∃ r, shRest.repos[f.repoIdx]? = some r ∧ acc r.tenant = true ∧ r.tomb = false ∧
        f.repository = r.name ∧ f.repositoryID = r.id := by
  intro f hf
  obtain ⟨r, d, h1, _, _, h4, h5, _, h7, h8, _⟩ := files_filtered acc _ false 0 f hf
  exact ⟨r, h1, h4, h5, h7, h8⟩

/-! ### non-interference -/

/-- **non-interference, search**: the whole result of a search (files, RepoURLs, LineFragments) is unchanged when every
    repository the context may not access — its name, id, URL templates, sub-repositories, and the names, tombstones and
    match verdicts of its documents — is replaced by blanks (`erase`).  Nothing of an inaccessible repository can
    therefore show in any output channel of the model. -/
theorem noninterference_search (acc : Int → Bool) (sh : Shard) (early : Bool) (maxRepo : Nat) :
    search acc (erase acc sh) early maxRepo = search acc sh early maxRepo := search_erase acc sh early maxRepo

/-- **non-interference, list** (both simplification outcomes, both field modes, including the statistics) -/
theorem noninterference_list (acc : Int → Bool) (sh : Shard) (mode : ListMode) (early : Bool) (field : Field) :
    list acc (erase acc sh) mode early field = list acc sh mode early field := list_erase acc sh mode early field

/-! ### every field of the result types is accounted for (generated table `Gen.c23Fields`, read from api.go on every run) -/

/-- Go types that cannot carry repository names, URLs or content: counters, scores, durations, flags -/
def counterTypes : List String := ["int", "int64", "uint32", "uint64", "float64", "bool", "time.Duration", "FlushReason"]

/-- which theorem accounts for a field that *can* carry repository data.  A field added to one of these structs is
    `UNCOVERED` until someone decides which theorem accounts for it — `fields_covered` then fails at build time. -/
def coveredBy : List ((String × String) × String) := [
  (("SearchResult", "Stats"), "only counters (stats_are_counters)"),
  (("SearchResult", "Progress"), "only counters (stats_are_counters)"),
  (("SearchResult", "Files"), "files_filtered"),
  (("SearchResult", "RepoURLs"), "maps_filtered"),
  (("SearchResult", "LineFragments"), "maps_filtered"),
  -- a FileMatch is built from the admitted document and `md := repoMetaData[repos[doc]]` only (files_filtered: FileFrom);
  -- the model carries Repository/RepositoryID/FileName, the other fields are checked by the taint oracle of the harness
  (("FileMatch", "FileName"), "files_filtered"),
  (("FileMatch", "Repository"), "files_filtered"),
  (("FileMatch", "SubRepositoryName"), "files_filtered (by correspondence: taint oracle)"),
  (("FileMatch", "SubRepositoryPath"), "files_filtered (by correspondence: taint oracle)"),
  (("FileMatch", "Version"), "files_filtered (by correspondence: taint oracle)"),
  (("FileMatch", "Language"), "files_filtered (by correspondence: taint oracle)"),
  (("FileMatch", "Debug"), "files_filtered (by correspondence: taint oracle)"),
  (("FileMatch", "Branches"), "files_filtered (by correspondence: taint oracle)"),
  (("FileMatch", "LineMatches"), "files_filtered (by correspondence: taint oracle)"),
  (("FileMatch", "ChunkMatches"), "files_filtered (by correspondence: taint oracle)"),
  (("FileMatch", "Content"), "files_filtered (by correspondence: taint oracle)"),
  (("FileMatch", "Checksum"), "files_filtered (by correspondence: taint oracle)"),
  (("RepoList", "Repos"), "list_filtered"),
  (("RepoList", "ReposMap"), "list_filtered"),
  (("RepoList", "Stats"), "only counters (stats_are_counters), summed over the admitted entries"),
  -- entry i of Repos is `&d.repoListEntry[i]` for an admitted i (list_filtered)
  (("RepoListEntry", "Repository"), "list_filtered"),
  (("RepoListEntry", "IndexMetadata"), "list_filtered"),
  (("RepoListEntry", "Stats"), "list_filtered"),
  (("MinimalRepoListEntry", "Branches"), "list_filtered")
]

def classify (f : String × String × String) : String :=
  if counterTypes.contains f.2.2 then "counter" else (coveredBy.lookup (f.1, f.2.1)).getD "UNCOVERED"

/-- **generated-table obligation**: every field of `SearchResult`, `FileMatch`, `RepoList`, `RepoListEntry`,
    `MinimalRepoListEntry` (as they are in api.go now) is either a counter or accounted for by one of the theorems. -/
theorem fields_covered : ∀ f ∈ Gen.c23Fields, classify f ≠ "UNCOVERED" := by decide

/-- the statistics structs embedded in the results have only counter fields -/
theorem stats_are_counters :
    ∀ f ∈ Gen.c23Fields, ["Stats", "Progress", "RepoStats"].contains f.1 = true → counterTypes.contains f.2.2 = true := by decide

/-! ### non-vacuity: a compound shard of tenants 1 and 2 (tenant 2 has a sub-repository and a tombstoned repository) -/

def exShard : Shard :=
  ⟨[⟨1, 11, "t1/a", false, "u1a", "f1a", []⟩,
    ⟨2, 22, "t2/b", false, "u2b", "f2b", [⟨"t2/sub", "u2s", "f2s"⟩]⟩,
    ⟨1, 0, "t1/c", false, "u1c", "f1c", []⟩,
    ⟨2, 24, "t2/dead", true, "u2d", "f2d", []⟩],
   [⟨0, "a.go", false, 2⟩, ⟨0, "b.go", false, 0⟩, ⟨1, "secret.go", false, 1⟩, ⟨1, "s2.go", false, 3⟩, ⟨2, "c.go", false, 1⟩,
    ⟨2, "gone.go", true, 1⟩, ⟨3, "dead.go", false, 1⟩]⟩

example : (search (hasAccess true (.tenant 1)) exShard false 0).files.map (fun f => (f.repository, f.repositoryID, f.fileName)) =
      [("t1/a", 11, "a.go"), ("t1/c", 0, "c.go")] ∧
    (search (hasAccess true (.tenant 1)) exShard false 0).urls = [("t1/a", "u1a"), ("t1/c", "u1c")] ∧
    (search (hasAccess true (.tenant 1)) exShard false 0).frags = [("t1/a", "f1a"), ("t1/c", "f1c")] := by decide
/-- per-repository limit 1; the tombstoned repository's documents are skipped -/
example : (search (hasAccess true (.tenant 2)) exShard false 1).files.map (·.fileName) = ["secret.go"] ∧
    (search (hasAccess true (.tenant 2)) exShard false 1).urls = [("t2/b", "u2b"), ("t2/sub", "u2s"), ("t2/dead", "u2d")] := by decide
example : (search (hasAccess true .system) exShard false 0).files.length = 4 := by decide
example : search (hasAccess true .none) exShard false 0 = ⟨[], [], []⟩ := by decide
example : list (hasAccess true (.tenant 1)) exShard .constTrue false .reposMap = ⟨[2], [(11, 0)], 4⟩ := by decide
example : list (hasAccess true (.tenant 2)) exShard .viaSearch false .repos = ⟨[1], [], 2⟩ := by decide
/-- the executable statement is not trivially true: tenant 1 being shown tenant 2's URL template fails it -/
example : checkSearch (mayAccess (.tenant 1)) exShard ⟨[], [("t2/b", "u2b")], []⟩ = false := by decide
example : checkSearch (mayAccess (.tenant 1)) exShard ⟨[("t2/b", 22, "secret.go")], [], []⟩ = false := by decide
example : checkList (mayAccess (.tenant 1)) exShard ⟨[("t2/b", 22)], []⟩ = false := by decide
example : checkList (mayAccess (.tenant 2)) exShard ⟨[("t2/dead", 24)], []⟩ = false := by decide

end ZoektModel.C23
