/-
C03 — Match locations and context agree with the file content.  Property theorems; lemmas live in C03/Lemmas.lean.

Statement (properties.jsonl): every line match carries a line number, line start/end offsets and line text that agree
with the file, and its before/after context is exactly the requested number of neighbouring lines (fewer only at the
file boundaries). Every chunk match consists of whole lines starting at its reported start location, contains all of
its ranges, reports for each range a line and a character column that agree with the byte offset, and never overlaps
another chunk of the same file; a file-name match reports the file name as its text.
-/
import ZoektModel.C03.Lemmas
namespace ZoektModel.C03
open ZoektModel

/-- **line lookup**: for every document and every offset, the binary search of `newlines.atOffset` over the
    document's newline table returns 1 + the number of newline bytes before the offset -/
theorem atOffset_spec (data : Bytes) (off : Nat) :
    atOffset (Newlines.ofData data) off = 1 + countNL (data.take off) := by
  rw [atOffset_ofData]; rfl

/-- **line start**: for every document and every line number, `newlines.lineStart` is the offset just after the
    `(n-1)`-th newline (0 for `n ≤ 1`, the file size when the file has fewer lines), as found by a byte scan -/
theorem lineStart_spec (data : Bytes) (n : Nat) :
    lineStart (Newlines.ofData data) (n : Int) = lineStartSpec data n := lineStart_ofData data n

/-- line numbers below 1 (which `fillContentMatches` produces as `num - numContextLines`) are clamped to the file start -/
theorem lineStart_clamped (data : Bytes) (n : Int) (h : n ≤ 1) : lineStart (Newlines.ofData data) n = 0 :=
  lineStart_neg _ n h

example : atOffset (Newlines.ofData [97, 10, 10, 98]) 2 = 2 ∧ lineStart (Newlines.ofData [97, 10, 10, 98]) 3 = 3 := by
  rw [atOffset_spec]; decide

end ZoektModel.C03
