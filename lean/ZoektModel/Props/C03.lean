/-
C03 — Match locations and context agree with the file content.  Property theorems; lemmas live in C03/Lemmas.lean.

Statement (properties.jsonl): every line match carries a line number, line start/end offsets and line text that agree
with the file, and its before/after context is exactly the requested number of neighbouring lines (fewer only at the
file boundaries). Every chunk match consists of whole lines starting at its reported start location, contains all of
its ranges, reports for each range a line and a character column that agree with the byte offset, and never overlaps
another chunk of the same file; a file-name match reports the file name as its text.
-/
import ZoektModel.C03.Lemmas8
namespace ZoektModel.C03
open ZoektModel

/-- **line lookup**: for every document and every offset, the binary search of `newlines.atOffset` over the
    document's newline table returns 1 + the number of newline bytes before the offset -/
theorem atOffset_spec (data : Bytes) (off : Nat) :
    atOffset (Newlines.ofData data) off = 1 + countNL (data.take off) := by
  rw [atOffset_ofData]; rfl

/-- **line start**: for every document and every line number, `newlines.lineStart` is the offset just after the
    `(n-1)`-th newline (0 for `n ≤ 1`, the file size when the file has fewer lines), as found by a byte scan -/
theorem lineStart_spec (data : Bytes) (n : Nat) :
    lineStart (Newlines.ofData data) (n : Int) = lineStartSpec data n := lineStart_ofData data n

/-- line numbers below 1 (which `fillContentMatches` produces as `num - numContextLines`) are clamped to the file start -/
theorem lineStart_clamped (data : Bytes) (n : Int) (h : n ≤ 1) : lineStart (Newlines.ofData data) n = 0 :=
  lineStart_neg _ n h

/-- **`filename_match_text`**: when no content candidate is gathered, the one line match reports the file name as its
    text and every fragment lies inside the name -/
theorem filename_match_text (data name : Bytes) (ctx : Nat) (ms : List Cand) (g : Gathered data name ms)
    (hnc : ms.filter (fun c => !c.fileName) = []) :
    fillMatches data name ctx ms = some [fileNameLine name ms] ∧ fileNameLineOk name (fileNameLine name ms) = true := by
  constructor
  · simp [fillMatches, hnc]
  · simp only [fileNameLineOk, fileNameLine, beq_self_eq_true, Bool.true_and, List.all_eq_true, List.mem_map,
      forall_exists_index, and_imp, forall_apply_eq_imp_iff₂, Bool.and_eq_true, decide_eq_true_eq, beq_iff_eq, and_true]
    intro c hc
    have hfn : c.fileName = true := by
      cases h : c.fileName with
      | true => rfl
      | false =>
        have : c ∈ ms.filter (fun c => !c.fileName) := by simp [List.mem_filter, hc, h]
        rw [hnc] at this; simp at this
    have := g.inBounds c hc
    simpa [hfn] using this

/-- **`line_fields_agree`** (line mode, all documents, all gathered candidate lists, all context sizes): the search
    reports line matches without hitting `fillContentMatches`' panic; every content line match carries the line number,
    start, end and text of exactly one line of the file (1 + newlines before its start; from just after the previous
    newline to just after its own newline or to the end of the file), its fragments lie inside that line with
    `LineOffset` relative to the line start, and `Before` / `After` are the bytes of the `ctx` lines before / after it,
    clamped at the file boundaries; the fragments, in order, are exactly the newline-free pieces of the candidates. -/
theorem line_fields_agree (data name : Bytes) (ctx : Nat) (ms : List Cand) (g : Gathered data name ms)
    (hc : ms.filter (fun c => !c.fileName) ≠ []) :
    ∃ lms, fillMatches data name ctx ms = some lms ∧
      (∀ lm ∈ lms, lm.fileName = false ∧ lineCoreOk data lm = true ∧ lineContextOk data ctx lm = true) ∧
      lms.flatMap (fun lm => lm.frags.map (fun f => (f.off, f.len))) =
        (breakMatchesOnNewlines data (ms.filter (fun c => !c.fileName))).map (fun c => (c.off, c.sz)) := by
  have hlen : (ms.filter (fun c => !c.fileName)).length > 0 := List.length_pos_iff.mpr hc
  obtain ⟨hd, hb⟩ := g.content
  have pre := linePre_break data _ hd (fun c h => (hb c h).2)
  obtain ⟨lms, h1, h2, h3⟩ := fill_lines_ok data ctx _ _ (Nat.le_refl _) pre
  refine ⟨lms, ?_, ?_, h3⟩
  · simp only [fillMatches, hlen, if_true]; exact h1
  · intro lm hlm
    have := h2 lm hlm
    exact ⟨this.2.2, this.1, this.2.1⟩

/-- **`chunk_whole_lines`, `chunks_disjoint_ordered`, line half of `range_locations_agree`** (chunk mode, all documents,
    all gathered candidate lists, all context sizes): every chunk match starts at the start of its reported line
    (column 1), its content is the file's bytes from there to a line end or the end of the file, it contains all of its
    ranges, every range reports `LineNumber` = 1 + newlines before its start and, for its exclusive end, the line of
    its last byte; chunks — context lines included — never overlap and come in file order; and the ranges of the chunks,
    in order, are exactly the gathered content candidates (`fragments_partition` for chunk mode). -/
theorem chunk_whole_lines (data name : Bytes) (ctx : Nat) (ms : List Cand) (g : Gathered data name ms)
    (hc : ms.filter (fun c => !c.fileName) ≠ []) :
    (∀ cm ∈ fillChunkMatches data name ctx ms,
        cm.fileName = false ∧ chunkShapeOk data cm = true ∧ chunkLinesOk data cm = true) ∧
    chunksDisjoint (fillChunkMatches data name ctx ms) = true ∧
    (fillChunkMatches data name ctx ms).flatMap (fun cm => cm.ranges.map (fun r => (r.start.byteOff, r.stop.byteOff))) =
      (ms.filter (fun c => !c.fileName)).map (fun c => (c.off, c.off + c.sz)) := by
  have hlen : (ms.filter (fun c => !c.fileName)).length > 0 := List.length_pos_iff.mpr hc
  obtain ⟨hd, hb⟩ := g.content
  have hsorted : isSortedCands (ms.filter (fun c => !c.fileName)) = true :=
    C02.isSortedCands_of_pairwise _ (g.sorted.filter _)
  have hspec := chunkCandidates_spec (wf_ofData data) ctx (ms.filter (fun c => !c.fileName)) hd
    (fun c h => (hb c h).2)
  obtain ⟨h1, h2, h3, h4⟩ := chunkMatches_ok data ctx _ {} hspec.1 hspec.2.1
  simp only [fillChunkMatches, hlen, if_true, fillContentChunkMatches, hsorted]
  refine ⟨h1, chunksDisjoint_of_pairwise _ h3, ?_⟩
  rw [h4, hspec.2.2]

/-- the file-name chunk: content = the file name, start location (0, 1, 1), every range inside the name on line 1 with
    column = 1 + runes of the name before the offset -/
theorem filename_chunk_text (data name : Bytes) (ctx : Nat) (ms : List Cand) (g : Gathered data name ms)
    (hnc : ms.filter (fun c => !c.fileName) = []) :
    fillChunkMatches data name ctx ms = [fileNameChunk name ms] ∧ fileNameChunkOk name (fileNameChunk name ms) = true := by
  constructor
  · simp [fillChunkMatches, hnc]
  · simp only [fileNameChunkOk, fileNameChunk, beq_self_eq_true, Bool.true_and, List.all_eq_true, List.mem_map,
      forall_exists_index, and_imp, forall_apply_eq_imp_iff₂, Bool.and_eq_true, decide_eq_true_eq, beq_iff_eq]
    intro c hc
    have hfn : c.fileName = true := by
      cases h : c.fileName with
      | true => rfl
      | false =>
        have : c ∈ ms.filter (fun c => !c.fileName) := by simp [List.mem_filter, hc, h]
        rw [hnc] at this; simp at this
    have := g.inBounds c hc
    simp only [hfn, if_true] at this
    refine ⟨⟨⟨⟨⟨by omega, this⟩, trivial⟩, trivial⟩, by omega⟩, by omega⟩

/-- **`columnHelper_cache_correct`**: whenever the cache is consistent and the line start and the offset are rune
    boundaries of the content (positions `utf8.DecodeRune` reaches from the start of the file), the column computed with
    the cache equals the from-scratch count `1 + RuneCount(data[lineStart:offset])`, and the cache stays consistent —
    for any sequence of such queries (increasing or not, same line or not). -/
theorem columnHelper_cache_correct (data : Bytes) (st : ColSt) (lineOffset offset : Nat) (inv : ColInv data st)
    (hle : lineOffset ≤ offset) (b1 : IsBoundary data lineOffset) (b2 : IsBoundary data offset) :
    (colGet data st lineOffset offset).2 = 1 + runeCount (Bytes.slice data lineOffset offset) ∧
    ColInv data (colGet data st lineOffset offset).1 :=
  colGet_correct data st lineOffset offset inv hle b1 b2

/-- **`range_locations_agree`, columns** (chunk mode): if the gathered content candidates start and end on rune
    boundaries, every range of every chunk match reports, for its start and for its end, the column
    1 + (runes between the start of the reported line and the byte offset), the one column cache being threaded through
    all ranges of all chunks of the file. -/
theorem range_columns_agree (data name : Bytes) (ctx : Nat) (ms : List Cand) (g : Gathered data name ms)
    (hc : ms.filter (fun c => !c.fileName) ≠ []) (hal : Aligned data (ms.filter (fun c => !c.fileName))) :
    ∀ cm ∈ fillChunkMatches data name ctx ms, chunkColsOk data cm = true := by
  have hlen : (ms.filter (fun c => !c.fileName)).length > 0 := List.length_pos_iff.mpr hc
  obtain ⟨hd, hb⟩ := g.content
  have hsorted : isSortedCands (ms.filter (fun c => !c.fileName)) = true :=
    C02.isSortedCands_of_pairwise _ (g.sorted.filter _)
  have hspec := chunkCandidates_spec (wf_ofData data) ctx (ms.filter (fun c => !c.fileName)) hd
    (fun c h => (hb c h).2)
  simp only [fillChunkMatches, hlen, if_true, fillContentChunkMatches, hsorted]
  apply chunkMatches_cols data ctx _ {} (colInv_init data)
  intro ch hch c hcc
  apply hal c
  rw [← hspec.2.2]
  exact List.mem_flatMap.mpr ⟨ch, hch, hcc⟩

/-- **C03 (chunk mode) as evaluated by the driver on the implementation's output**: the whole chunk half of the
    statement holds of `fillChunkMatches` for every document, context size and gathered candidate list whose content
    candidates are rune-aligned. -/
theorem C03_checkChunks (data name : Bytes) (ctx : Nat) (ms : List Cand) (g : Gathered data name ms)
    (hal : Aligned data (ms.filter (fun c => !c.fileName))) :
    checkChunks data name (fillChunkMatches data name ctx ms) = true := by
  by_cases hc : ms.filter (fun c => !c.fileName) = []
  · obtain ⟨h1, h2⟩ := filename_chunk_text data name ctx ms g hc
    rw [h1]
    simp [checkChunks, fileNameChunk, chunksDisjoint] at h2 ⊢
    simpa [fileNameChunk] using h2
  · obtain ⟨h1, h2, _⟩ := chunk_whole_lines data name ctx ms g hc
    have h3 := range_columns_agree data name ctx ms g hc hal
    unfold checkChunks
    rw [Bool.and_eq_true]
    constructor
    · rw [List.all_eq_true]
      intro cm hcm
      have := h1 cm hcm
      simp only [this.1, Bool.false_eq_true, if_false, chunkOk, this.2.1, this.2.2, h3 cm hcm, Bool.and_self]
    · have : (fillChunkMatches data name ctx ms).filter (fun cm => !cm.fileName) = fillChunkMatches data name ctx ms := by
        rw [List.filter_eq_self]
        intro cm hcm
        simp [(h1 cm hcm).1]
      rw [this]; exact h2

/-- **`context_exact_count`**: a line match whose location and text clauses hold has exactly `min(ctx, lines available)`
    lines of context before and after it — fewer than requested only at the file boundaries -/
theorem context_exact_count (data : Bytes) (ctx : Nat) (lm : LineMatch)
    (hcore : lineCoreOk data lm = true) (hctx : lineContextOk data ctx lm = true) :
    lineContextCountOk data ctx lm = true := count_of_core_context data ctx lm hcore hctx

/-- **C03 (line mode) as evaluated by the driver on the implementation's output**: the whole line half of the
    statement holds of `fillMatches` for every document, context size and gathered candidate list. -/
theorem C03_checkLines (data name : Bytes) (ctx : Nat) (ms : List Cand) (g : Gathered data name ms) :
    ∃ lms, fillMatches data name ctx ms = some lms ∧ checkLines data name ctx lms = true := by
  by_cases hc : ms.filter (fun c => !c.fileName) = []
  · obtain ⟨h1, h2⟩ := filename_match_text data name ctx ms g hc
    refine ⟨_, h1, ?_⟩
    simp only [checkLines, List.all_cons, List.all_nil, Bool.and_true]
    simpa [fileNameLine] using h2
  · obtain ⟨lms, h1, h2, _⟩ := line_fields_agree data name ctx ms g hc
    refine ⟨lms, h1, ?_⟩
    simp only [checkLines, List.all_eq_true]
    intro lm hlm
    have := h2 lm hlm
    simp only [this.1, Bool.false_eq_true, if_false, lineMatchOk, this.2.1, this.2.2,
      count_of_core_context data ctx lm this.2.1 this.2.2, Bool.and_self]

/-- the tie to C02: whatever the atoms' (in-bounds) matches are, the output of `gatherMatches` satisfies the
    preconditions (`Gathered`) under which the theorems of this file are stated -/
theorem gather_output_gathered (data name : Bytes) (cands : List Cand)
    (hb : ∀ c ∈ cands, c.off + c.sz ≤ (if c.fileName then name.length else data.length)) :
    Gathered data name (C02.gatherCands name cands) := gathered_of_gather data name cands hb

theorem gather_subset (name : Bytes) (cands : List Cand) :
    ∀ c ∈ C02.gatherCands name cands, c ∈ cands ∨ c.fileName = true := by
  intro c hc
  by_cases hne : cands = []
  · subst hne
    simp only [C02.gatherCands, List.length_nil, if_true, List.mem_singleton] at hc
    subst hc; exact Or.inr rfl
  · have hlen : ¬ cands.length = 0 := by simpa using hne
    simp only [C02.gatherCands, hlen, if_false] at hc
    exact Or.inl (C02.mem_sortCands.mp ((C02.overlapFilter_sublist _).subset hc))

/-- **C03, chunk mode, end to end over the reporting pipeline** `gatherMatches → fillChunkMatches`: for every document,
    name, context size and every collection of in-bounds atom matches whose content matches are rune-aligned, the chunk
    matches the search reports satisfy the whole chunk half of the statement. -/
theorem C03_search_chunks (data name : Bytes) (ctx : Nat) (cands : List Cand)
    (hb : ∀ c ∈ cands, c.off + c.sz ≤ (if c.fileName then name.length else data.length))
    (hal : ∀ c ∈ cands, c.fileName = false → IsBoundary data c.off ∧ IsBoundary data (c.off + c.sz)) :
    checkChunks data name (C02.reportChunks data name ctx cands) = true := by
  unfold C02.reportChunks
  apply C03_checkChunks data name ctx _ (gathered_of_gather data name cands hb)
  intro c hc
  simp only [List.mem_filter, Bool.not_eq_true'] at hc
  rcases gather_subset name cands c hc.1 with h | h
  · exact hal c h hc.2
  · rw [hc.2] at h; exact absurd h (by decide)

/-- **C03, line mode, end to end over the reporting pipeline** `gatherMatches → fillMatches`: for every document, name,
    context size and every collection of in-bounds atom matches, the search reports line matches (no panic) that satisfy
    the whole line half of the statement. -/
theorem C03_search_lines (data name : Bytes) (ctx : Nat) (cands : List Cand)
    (hb : ∀ c ∈ cands, c.off + c.sz ≤ (if c.fileName then name.length else data.length)) :
    ∃ lms, C02.reportLines data name ctx cands = some lms ∧ checkLines data name ctx lms = true :=
  C03_checkLines data name ctx _ (gathered_of_gather data name cands hb)

/-! non-vacuity: "ab\ncd\n" with a file-name candidate, a candidate on line 1 and one spanning the newline -/
def exData : Bytes := [97, 98, 10, 99, 100, 10]
def exName : Bytes := [102, 46, 103, 111]
def exCands : List Cand := [⟨true, 0, 1⟩, ⟨false, 0, 1⟩, ⟨false, 1, 3⟩]
theorem exGathered : Gathered exData exName exCands :=
  ⟨by decide, by decide, by decide⟩
example := line_fields_agree exData exName 1 exCands exGathered (by decide)
example := chunk_whole_lines exData exName 1 exCands exGathered (by decide)
theorem exAligned : Aligned exData (exCands.filter (fun c => !c.fileName)) := by
  intro c hc
  have : c = ⟨false, 0, 1⟩ ∨ c = ⟨false, 1, 3⟩ := by simpa [exCands] using hc
  rcases this with rfl | rfl <;>
  exact ⟨isBoundary_of_ascii _ _ _ (Nat.le_refl _) (by decide) (by decide),
         isBoundary_of_ascii _ _ _ (Nat.le_refl _) (by decide) (by decide)⟩
example := C03_checkChunks exData exName 1 exCands exGathered exAligned

example : atOffset (Newlines.ofData [97, 10, 10, 98]) 2 = 2 ∧ lineStart (Newlines.ofData [97, 10, 10, 98]) 3 = 3 := by
  rw [atOffset_spec]; decide

end ZoektModel.C03
