/-
C14 — Git indexing captures exactly the indexed branch trees.  Property theorems.

Statement (properties.jsonl): indexing a Git repository at a set of branches produces one document per distinct
(path, content) pair across those branches whose branch list is exactly the branches containing that path with
that content, whose content equals the blob (or carries a skip explanation when too large or binary), and no
document for paths excluded by the ignore file or for submodule links.  The go-git and git cat-file reading paths
produce the same documents.
-/
import ZoektModel.C14.Lemmas
import ZoektModel.C14.CatfileLemmas
namespace ZoektModel.C14
open ZoektModel ZoektModel.C13

/-! ## tree walk and branch merging -/

theorem contains_iff (t : BranchTree) (p : Path) (x : Blob) :
    t.contains p x = true ↔
      (∃ e ∈ t.entries, e.path = p ∧ e.hash = x ∧ e.indexed = true) ∧ t.ig p = false := by
  unfold BranchTree.contains
  simp only [Bool.and_eq_true, List.any_eq_true, beq_iff_eq, Bool.not_eq_true']
  constructor
  · rintro ⟨⟨e, he, ⟨h1, h2⟩, h3⟩, h4⟩; exact ⟨⟨e, he, h1, h2, h3⟩, h4⟩
  · rintro ⟨⟨e, he, h1, h2, h3⟩, h4⟩; exact ⟨⟨e, he, ⟨h1, h2⟩, h3⟩, h4⟩

/-- **collect_exact** — the map built by the tree walks has one entry per (path, content) pair, and the entry
    (p, x) lists branch `b` exactly when the tree of an indexed branch named `b` contains `x` at `p` as a regular,
    executable or symlink entry that the branch's ignore file does not exclude.  In particular there is no document
    for ignored paths, submodule links or directories. -/
theorem collect_exact (ts : List BranchTree) :
    KeysPW (collectAll ts) ∧
    ∀ b p x, Has (collectAll ts) b p x ↔ ∃ t ∈ ts, t.name = b ∧ t.contains p x = true := by
  refine ⟨keys_collectAll ts, ?_⟩
  intro b p x
  rw [has_collectAll]
  constructor
  · rintro ⟨t, ht, hn, e, he, h1, h2, h3, h4⟩
    exact ⟨t, ht, hn, (contains_iff t p x).mpr ⟨⟨e, he, h1, h2, h3⟩, by rw [← h1]; exact h4⟩⟩
  · rintro ⟨t, ht, hn, hc⟩
    obtain ⟨⟨e, he, h1, h2, h3⟩, h4⟩ := (contains_iff t p x).mp hc
    exact ⟨t, ht, hn, e, he, h1, h2, h3, by rw [h1]; exact h4⟩

/-- **branch lists, exactly** — when every tree has distinct paths, the branch list stored for (p, x) is the list of
    the indexed branches containing that pair, in indexing order, each once -/
theorem collect_branch_list (ts : List BranchTree) (hnd : ∀ t ∈ ts, (t.entries.map (·.path)).Nodup)
    (p : Path) (x : Blob) :
    branchesOf (collectAll ts) p x = (ts.filter (·.contains p x)).map (·.name) := by
  unfold collectAll
  rw [branchesOf_collectAll_aux ts hnd]
  simp [branchesOf]

/-- no document without a branch -/
theorem collect_branches_nonempty (ts : List BranchTree) : ∀ d ∈ collectAll ts, d.branches ≠ [] :=
  nonempty_collectAll ts

/-- **C14 as evaluated by the driver** — when every tree has distinct paths and the indexed branches have distinct
    names, the map built by the tree walks passes the executable statement `checkDocs` -/
theorem C14_checkDocs (ts : List BranchTree) (hnd : ∀ t ∈ ts, (t.entries.map (·.path)).Nodup)
    (hnames : (ts.map (·.name)).Nodup) : checkDocs ts (collectAll ts) = true := by
  have hk := (collect_exact ts).1
  have hex := (collect_exact ts).2
  have hbl : ∀ d ∈ collectAll ts, d.branches = (ts.filter (·.contains d.path d.blob)).map (·.name) := by
    intro d hd
    rw [← branchesOf_of_mem _ hk d hd, collect_branch_list ts hnd]
  have hsub : ∀ (p : Path) (x : Blob), ((ts.filter (·.contains p x)).map (·.name)).Nodup := by
    intro p x
    exact (List.filter_sublist.map _).nodup hnames
  unfold checkDocs
  simp only [Bool.and_eq_true, List.all_eq_true, beq_iff_eq, Bool.or_eq_true, Bool.not_eq_true',
    List.any_eq_true, List.contains_eq_mem, decide_eq_true_eq]
  refine ⟨⟨?_, ?_⟩, ?_⟩
  · intro d hd
    exact countP_key_eq_one _ hk d hd
  · intro d hd
    refine ⟨⟨?_, ?_⟩, ?_⟩
    · have := collect_branches_nonempty ts d hd
      cases h : d.branches with
      | nil => exact absurd h this
      | cons _ _ => rfl
    · intro b hb
      refine ⟨?_, ?_⟩
      · rw [hbl d hd] at hb ⊢
        have h1 := List.nodup_iff_count.mp (hsub d.path d.blob) b
        have h2 := List.count_pos_iff.mpr hb
        omega
      · rw [hbl d hd] at hb
        obtain ⟨t, ht, rfl⟩ := List.mem_map.mp hb
        obtain ⟨ht1, ht2⟩ := List.mem_filter.mp ht
        exact ⟨t, ht1, rfl, ht2⟩
    · intro t ht
      by_cases hc : t.contains d.path d.blob = true
      · right
        rw [hbl d hd]
        exact List.mem_map.mpr ⟨t, List.mem_filter.mpr ⟨ht, hc⟩, rfl⟩
      · left; simpa using hc
  · intro t ht e he
    by_cases hc : t.contains e.path e.hash = true
    · right
      obtain ⟨d, hd, h1, h2, _⟩ := (hex t.name e.path e.hash).mpr ⟨t, ht, rfl, hc⟩
      exact ⟨d, hd, h1, h2⟩
    · left; simpa using hc

/-- documents per (path, content) on a branch: exactly one, or none -/
theorem collect_count (ts : List BranchTree) (b : Branch) (p : Path) (x : Blob) :
    cntFiles (collectAll ts) b p x = if (∃ t ∈ ts, t.name = b ∧ t.contains p x = true) then 1 else 0 := by
  rw [cntFiles_eq _ (collect_exact ts).1]
  by_cases h : ∃ t ∈ ts, t.name = b ∧ t.contains p x = true
  · simp [h, ((collect_exact ts).2 b p x).mpr h]
  · have : ¬ Has (collectAll ts) b p x := fun hh => h (((collect_exact ts).2 b p x).mp hh)
    simp [h, this]

/-! ## content slab -/

/-- **slab_disjoint** — whatever sizes are requested, the slices handed out never overlap (different buffers, or
    disjoint ranges of the same buffer), and each has cap = len, so an `append` to one cannot write into another -/
theorem slab_disjoint (cap : Nat) (sizes : List Nat) :
    checkRegions (({ cap := cap } : Slab).allocs sizes) = true :=
  checkRegions_allocs _ (by simp) sizes

/-! ## the two reading paths -/

/-- **paths_agree (present blobs)** — for a blob that is in the object store, `createDocument` (go-git) and
    `indexCatfileBlobs` (git cat-file, with or without the size filter) build the same document.  The size filter
    is only used without large-file exceptions (`catfileFilterSpec`). -/
theorem paths_agree_partial (sizeMax : Nat) (allow filter : Bool) (hf : filter = true → allow = false)
    (c : Bytes) :
    gogitDoc sizeMax allow (.present c) =
      catfileDoc sizeMax allow (catfileAnswer filter sizeMax (.present c)) c := by
  unfold gogitDoc catfileAnswer
  by_cases hl : c.length > sizeMax
  · cases filter with
    | true =>
      have := hf rfl
      subst this
      simp [catfileDoc, hl]
    | false =>
      have : ((c.length : Int) > (sizeMax : Int)) := by omega
      simp [catfileDoc, hl, this]
  · have : ¬ ((c.length : Int) > (sizeMax : Int)) := by omega
    simp [catfileDoc, hl, this]

/-- the full statement ("the two paths produce the same documents") is false for a blob that is absent from the
    object store: go-git's path labels it too large, the cat-file path labels it missing -/
theorem paths_agree_full_false :
    ¬ ∀ (sizeMax : Nat) (allow filter : Bool) (st : BlobSt) (c : Bytes),
        gogitDoc sizeMax allow st = catfileDoc sizeMax allow (catfileAnswer filter sizeMax st) c := by
  intro h
  have := h 10 false false .missing []
  simp [gogitDoc, catfileDoc, catfileAnswer] at this

/-- **content** — on either path, after `Builder.Add`, the document of a present blob has the blob's bytes as
    content, or a skip explanation: too large (over SizeMax without exception), too small (1–2 bytes), binary -/
theorem content_exact_gogit (sizeMax : Nat) (allow : Bool) (c : Bytes) :
    checkContent sizeMax allow (.present c) (builderAdd sizeMax allow (gogitDoc sizeMax allow (.present c))) = true := by
  unfold gogitDoc checkContent builderAdd
  by_cases h1 : (decide (c.length > sizeMax) && !allow) = true
  · simp [h1]
  · by_cases h2 : c.isEmpty = true
    · simp [h1, h2]
    · by_cases h3 : c.length < 3
      · simp [h1, h2, h3]
      · by_cases h4 : (0 : UInt8) ∈ c
        · simp [h1, h2, h3, h4]
        · simp [h1, h2, h3, h4]

theorem content_exact_catfile (sizeMax : Nat) (allow filter : Bool) (hf : filter = true → allow = false)
    (c : Bytes) :
    checkContent sizeMax allow (.present c)
      (builderAdd sizeMax allow (catfileDoc sizeMax allow (catfileAnswer filter sizeMax (.present c)) c)) = true := by
  rw [← paths_agree_partial sizeMax allow filter hf c]
  exact content_exact_gogit sizeMax allow c

/-! ## the cat-file stream -/

/-- **catfile_parses** — for every stream of well-formed records, every size limit and pattern of large-file
    exceptions (so every pattern of read-fully / skip decisions) and every schedule of chunk sizes of the buffered
    reader: `indexCatfileBlobs` sees, for the i-th key, the i-th record (`Next` answers its header), the bytes it
    reads are exactly that record's content (size 0 included; a skipped blob followed by further records included),
    and no error occurs. -/
theorem catfile_parses (sizeMax : Nat) (rs : List Rec) (allows : List Bool) (hlen : allows.length = rs.length)
    (hwf : ∀ r ∈ rs, r.WF) (sched : List Nat) :
    catfileDocs sizeMax ⟨stream rs, 0⟩ allows sched =
      ((rs.zip allows).map fun p => expectedDoc sizeMax p.2 p.1, true) :=
  catfileDocs_between sizeMax rs allows hlen hwf _ (between_sync rs) sched

/-- a single `Read` inside a blob, for any buffer length and any chunk size: a non-empty prefix of the unread
    content, never the trailing LF or the next header; the LF is consumed exactly when the content is exhausted -/
theorem catfile_read_chunk (c X : Bytes) (j : Nat) (hj : j < c.length) (plen k : Nat) (hp : 1 ≤ plen) :
    ∃ n, 1 ≤ n ∧ n ≤ c.length - j ∧ n ≤ plen ∧
      read (midState c X j) plen k =
        ((c.drop j).take n, .ok, if j + n = c.length then ⟨X, 0⟩ else midState c X (j + n)) :=
  read_mid c X j hj plen k hp

/-- `Next` from any between-records state (at a header, or with any part of a blob still unread) answers the next
    record's header -/
theorem catfile_next_sync (s : CF) (r : Rec) (rs : List Rec) (hr : r.WF) (hb : Between s (r :: rs)) :
    next s = (r.answer, r.after (stream rs) 0) :=
  next_between s r rs hr hb

/-- records as git prints them (`<oid> <type> <decimal size>`) are well-formed -/
theorem catfile_git_record_wf (pre ds c : Bytes) (hpre : 10 ∉ pre) (hne : ds ≠ []) (hd : ds.all isDigit = true)
    (hv : digitsVal ds 0 = c.length) (hsmall : c.length ≤ 9223372036854775807) :
    (Rec.blob (pre ++ 32 :: ds) c).WF :=
  blob_record_wf pre ds c hpre hne hd hv hsmall

/-! robustness on streams that are cut short -/

/-- one `Read` with `m ≥ 1` content bytes outstanding, on an arbitrary (possibly truncated) stream -/
theorem read_general (inp : Bytes) (m k : Nat) (hm : 1 ≤ m) :
    (inp = [] ∧ read ⟨inp, ((m + 1 : Nat) : Int)⟩ m k = ([], .eof, ⟨inp, ((m + 1 : Nat) : Int)⟩)) ∨
    ∃ n, 1 ≤ n ∧ n ≤ m ∧ n ≤ inp.length ∧
      ((n = m ∧ ∃ st s', read ⟨inp, ((m + 1 : Nat) : Int)⟩ m k = (inp.take n, st, s')) ∨
       (n < m ∧ read ⟨inp, ((m + 1 : Nat) : Int)⟩ m k =
          (inp.take n, .ok, ⟨inp.drop n, ((m - n + 1 : Nat) : Int)⟩))) := by
  cases hin : inp with
  | nil =>
    left
    refine ⟨rfl, ?_⟩
    unfold read
    have h1 : ¬ (((m + 1 : Nat) : Int) ≤ 0) := by omega
    have h2 : ¬ (((m + 1 : Nat) : Int) = 1) := by omega
    simp only [h1, h2, if_false, List.isEmpty_nil, if_true]
  | cons a rest =>
    right
    rw [← hin]
    have hlen : 1 ≤ inp.length := by rw [hin]; simp
    refine ⟨max 1 (min k (min (min m m) inp.length)), Nat.le_max_left _ _, by omega, by omega, ?_⟩
    have hn1 : 1 ≤ max 1 (min k (min (min m m) inp.length)) := Nat.le_max_left _ _
    have hn2 : max 1 (min k (min (min m m) inp.length)) ≤ m := by omega
    have hn3 : max 1 (min k (min (min m m) inp.length)) ≤ inp.length := by omega
    unfold read
    have h1 : ¬ (((m + 1 : Nat) : Int) ≤ 0) := by omega
    have h2 : ¬ (((m + 1 : Nat) : Int) = 1) := by omega
    have h3 : ((m + 1 : Nat) : Int).toNat - 1 = m := by omega
    have h4 : inp.isEmpty = false := by rw [hin]; rfl
    have h5 : ¬ (min m m = 0) := by omega
    simp only [h1, h2, if_false, h3, h4, h5, Bool.false_eq_true]
    generalize max 1 (min k (min (min m m) inp.length)) = n at hn1 hn2 hn3 ⊢
    by_cases hend : n = m
    · left
      refine ⟨hend, ?_⟩
      split
      · split
        · exact ⟨_, _, rfl⟩
        · exact ⟨_, _, rfl⟩
      · rename_i hne; exfalso; apply hne; omega
    · right
      refine ⟨by omega, ?_⟩
      split
      · rename_i he; exfalso; omega
      · simp only [Prod.mk.injEq, CF.mk.injEq, true_and]
        omega

/-- **no silent truncation**: on any stream (well-formed or cut short), whatever the chunking, `io.ReadFull` of a
    blob's announced size returns a prefix of what is in the stream, and reports success only if all the
    announced bytes were there and were delivered -/
theorem readFull_safe (fuel m : Nat) (inp acc : Bytes) (sched : List Nat) (hf : m ≤ fuel) :
    ∃ j, j ≤ m ∧ (readFull fuel ⟨inp, ((m + 1 : Nat) : Int)⟩ m sched acc).1 = acc ++ inp.take j ∧
      ((readFull fuel ⟨inp, ((m + 1 : Nat) : Int)⟩ m sched acc).2.1 = true → j = m ∧ m ≤ inp.length) := by
  induction fuel generalizing m inp acc sched with
  | zero =>
    have : m = 0 := by omega
    subst this
    exact ⟨0, by omega, by simp [readFull], by simp⟩
  | succ fuel ih =>
    by_cases h0 : m = 0
    · subst h0
      exact ⟨0, by omega, by simp [readFull], by simp⟩
    · unfold readFull
      simp only [h0, if_false]
      rcases read_general inp m (sched.headD 1) (by omega) with ⟨hnil, hread⟩ | ⟨n, hn1, hn2, hn3, hcase⟩
      · rw [hread]
        refine ⟨0, by omega, ?_, ?_⟩
        · have : ¬ (0 ≥ m) := by omega
          simp [this]
        · have : ¬ (0 ≥ m) := by omega
          simp [this]
      · rcases hcase with ⟨hnm, st, s', hread⟩ | ⟨hlt, hread⟩
        · rw [hread]
          have hl : (inp.take n).length = n := by simp; omega
          have hge : (inp.take n).length ≥ m := by omega
          simp only [hge, if_true]
          exact ⟨n, hn2, rfl, fun _ => ⟨hnm, by omega⟩⟩
        · rw [hread]
          have hl : (inp.take n).length = n := by simp; omega
          have hge : ¬ (n ≥ m) := by omega
          have hne : (inp.take n).isEmpty = false := by
            cases h : inp.take n with
            | nil => rw [h] at hl; simp at hl; omega
            | cons _ _ => rfl
          simp only [hl, hge, if_false, hne, Bool.false_eq_true, ne_eq, not_true_eq_false]
          obtain ⟨j, hj1, hj2, hj3⟩ := ih (m - n) (inp.drop n) (acc ++ inp.take n) sched.tail (by omega)
          refine ⟨n + j, by omega, ?_, ?_⟩
          · rw [hj2, List.append_assoc]
            congr 1
            rw [List.take_add]
          · intro hok
            obtain ⟨h1, h2⟩ := hj3 hok
            simp at h2
            exact ⟨by omega, by omega⟩

/-! non-vacuity: three records (a 3-byte blob that is read, a missing object, an empty blob), chunk size 1 -/
example :
    catfileDocs 10 ⟨stream [.blob [97, 32, 51] [120, 121, 122], .missing ([98] ++ sufMissing), .blob [99, 32, 48] []], 0⟩
      [false, false, false] [1, 1, 1] =
    ([⟨[120, 121, 122], .none⟩, ⟨[], .missing⟩, ⟨[], .none⟩], true) := by decide

/-- **paths_agree at the level of a whole run** — for blobs that are present (each given with the header git prints
    for it), without the size filter: the documents `indexCatfileBlobs` builds from git's stream, for any chunking,
    are the documents `createDocument` builds from the same blobs -/
theorem paths_agree_stream (sizeMax : Nat) (blobs : List (Bytes × Bytes)) (allows : List Bool)
    (hlen : allows.length = blobs.length)
    (hwf : ∀ hc ∈ blobs, (Rec.blob hc.1 hc.2).WF) (sched : List Nat) :
    catfileDocs sizeMax ⟨stream (blobs.map fun hc => Rec.blob hc.1 hc.2), 0⟩ allows sched =
      ((blobs.zip allows).map fun p => gogitDoc sizeMax p.2 (.present p.1.2), true) := by
  rw [catfile_parses sizeMax _ allows (by simpa using hlen) (by
    intro r hr
    obtain ⟨hc, hm, rfl⟩ := List.mem_map.mp hr
    exact hwf hc hm) sched]
  congr 1
  rw [List.zip_map_left, List.map_map]
  apply List.map_congr_left
  intro p _
  simp [expectedDoc, gogitDoc, Function.comp]

/-! ## ignore files -/

/-- a pattern line without glob characters excludes exactly the paths it is a prefix of ("a trailing ** is implicit") -/
theorem ignore_plain_is_prefix (l path : Bytes) :
    gmatch (l.map Tok.lit ++ [Tok.dstar]) path = l.isPrefixOf path :=
  gmatch_lits_dstar l path

/-- `*` matches exactly the strings without a separator -/
theorem gmatch_star (s : Bytes) : gmatch [Tok.star] s = s.all (· != sep) := by
  induction s with
  | nil => simp [gmatch]
  | cons c r ih =>
    rw [gmatch]
    simp only [gmatch, List.isEmpty_cons, Bool.false_or, ih, List.all_cons]

/-- **a plain ignore line is a path prefix**: a line that, trimmed, is non-empty, is not a comment, has no leading
    slash, none of the characters `.][*?` (zoekt's test for the implicit `**`) and no `{` or `\\` (which the glob
    syntax gives a meaning), excludes exactly the paths that start with it -/
theorem ignore_plain_line (line l path : Bytes) (ht : trimSpace line = l) (hne : l ≠ [])
    (hc : l.head? ≠ some 35) (hs : l.head? ≠ some 47) (hg : l.any isGlobChar = false) (hm : l.any isMeta = false) :
    (parseLine line).map (fun p => patMatch p path) = some (l.isPrefixOf path) := by
  cases l with
  | nil => exact absurd rfl hne
  | cons a r =>
    have ha35 : a ≠ 35 := by intro h; apply hc; simp [h]
    have ha47 : a ≠ 47 := by intro h; apply hs; simp [h]
    unfold parseLine
    have : ¬ ((some a == some (35 : UInt8)) = true) := by simpa using ha35
    simp only [ht, List.isEmpty_cons, Bool.false_eq_true, if_false, List.head?_cons, this, stripSlash_ne a r ha47,
      hg, Option.map_some, parsePattern_plain _ hm, patMatch, List.any_cons, List.any_nil, Bool.or_false,
      gmatch_lits_dstar]

/-- brace alternatives: `{a,b}` followed by `**` excludes exactly the paths that start with `a` or with `b` -/
theorem ignore_brace_prefix (a b path : Bytes) :
    patMatch (expand [Seg.alts [a, b], Seg.tok .dstar]) path = (a.isPrefixOf path || b.isPrefixOf path) := by
  simp [expand, patMatch, gmatch_lits_dstar]

end ZoektModel.C14
