/-
C14 — Git indexing captures exactly the indexed branch trees.  Property theorems.

Statement (properties.jsonl): indexing a Git repository at a set of branches produces one document per distinct
(path, content) pair across those branches whose branch list is exactly the branches containing that path with
that content, whose content equals the blob (or carries a skip explanation when too large or binary), and no
document for paths excluded by the ignore file or for submodule links.  The go-git and git cat-file reading paths
produce the same documents.
-/
import ZoektModel.C14.Lemmas
import ZoektModel.C14.CatfileLemmas
namespace ZoektModel.C14
open ZoektModel ZoektModel.C13

/-! ## tree walk and branch merging -/

theorem contains_iff (t : BranchTree) (p : Path) (x : Blob) :
    t.contains p x = true ↔
      (∃ e ∈ t.entries, e.path = p ∧ e.hash = x ∧ e.indexed = true) ∧ t.ig p = false := by
  unfold BranchTree.contains
  simp only [Bool.and_eq_true, List.any_eq_true, beq_iff_eq, Bool.not_eq_true']
  constructor
  · rintro ⟨⟨e, he, ⟨h1, h2⟩, h3⟩, h4⟩; exact ⟨⟨e, he, h1, h2, h3⟩, h4⟩
  · rintro ⟨⟨e, he, h1, h2, h3⟩, h4⟩; exact ⟨⟨e, he, ⟨h1, h2⟩, h3⟩, h4⟩

/-- **collect_exact** — the map built by the tree walks has one entry per (path, content) pair, and the entry
    (p, x) lists branch `b` exactly when the tree of an indexed branch named `b` contains `x` at `p` as a regular,
    executable or symlink entry that the branch's ignore file does not exclude.  In particular there is no document
    for ignored paths, submodule links or directories. -/
theorem collect_exact (ts : List BranchTree) :
    KeysPW (collectAll ts) ∧
    ∀ b p x, Has (collectAll ts) b p x ↔ ∃ t ∈ ts, t.name = b ∧ t.contains p x = true := by
  refine ⟨keys_collectAll ts, ?_⟩
  intro b p x
  rw [has_collectAll]
  constructor
  · rintro ⟨t, ht, hn, e, he, h1, h2, h3, h4⟩
    exact ⟨t, ht, hn, (contains_iff t p x).mpr ⟨⟨e, he, h1, h2, h3⟩, by rw [← h1]; exact h4⟩⟩
  · rintro ⟨t, ht, hn, hc⟩
    obtain ⟨⟨e, he, h1, h2, h3⟩, h4⟩ := (contains_iff t p x).mp hc
    exact ⟨t, ht, hn, e, he, h1, h2, h3, by rw [h1]; exact h4⟩

/-- **branch lists, exactly** — when every tree has distinct paths, the branch list stored for (p, x) is the list of
    the indexed branches containing that pair, in indexing order, each once -/
theorem collect_branch_list (ts : List BranchTree) (hnd : ∀ t ∈ ts, (t.entries.map (·.path)).Nodup)
    (p : Path) (x : Blob) :
    branchesOf (collectAll ts) p x = (ts.filter (·.contains p x)).map (·.name) := by
  unfold collectAll
  rw [branchesOf_collectAll_aux ts hnd]
  simp [branchesOf]

/-- no document without a branch -/
theorem collect_branches_nonempty (ts : List BranchTree) : ∀ d ∈ collectAll ts, d.branches ≠ [] :=
  nonempty_collectAll ts

/-- documents per (path, content) on a branch: exactly one, or none -/
theorem collect_count (ts : List BranchTree) (b : Branch) (p : Path) (x : Blob) :
    cntFiles (collectAll ts) b p x = if (∃ t ∈ ts, t.name = b ∧ t.contains p x = true) then 1 else 0 := by
  rw [cntFiles_eq _ (collect_exact ts).1]
  by_cases h : ∃ t ∈ ts, t.name = b ∧ t.contains p x = true
  · simp [h, ((collect_exact ts).2 b p x).mpr h]
  · have : ¬ Has (collectAll ts) b p x := fun hh => h (((collect_exact ts).2 b p x).mp hh)
    simp [h, this]

/-! ## content slab -/

/-- **slab_disjoint** — whatever sizes are requested, the slices handed out never overlap (different buffers, or
    disjoint ranges of the same buffer), and each has cap = len, so an `append` to one cannot write into another -/
theorem slab_disjoint (cap : Nat) (sizes : List Nat) :
    checkRegions (({ cap := cap } : Slab).allocs sizes) = true :=
  checkRegions_allocs _ (by simp) sizes

/-! ## the two reading paths -/

/-- **paths_agree (present blobs)** — for a blob that is in the object store, `createDocument` (go-git) and
    `indexCatfileBlobs` (git cat-file, with or without the size filter) build the same document.  The size filter
    is only used without large-file exceptions (`catfileFilterSpec`). -/
theorem paths_agree_partial (sizeMax : Nat) (allow filter : Bool) (hf : filter = true → allow = false)
    (c : Bytes) :
    gogitDoc sizeMax allow (.present c) =
      catfileDoc sizeMax allow (catfileAnswer filter sizeMax (.present c)) c := by
  unfold gogitDoc catfileAnswer
  by_cases hl : c.length > sizeMax
  · cases filter with
    | true =>
      have := hf rfl
      subst this
      simp [catfileDoc, hl]
    | false =>
      have : ((c.length : Int) > (sizeMax : Int)) := by omega
      simp [catfileDoc, hl, this]
  · have : ¬ ((c.length : Int) > (sizeMax : Int)) := by omega
    simp [catfileDoc, hl, this]

/-- the full statement ("the two paths produce the same documents") is false for a blob that is absent from the
    object store: go-git's path labels it too large, the cat-file path labels it missing -/
theorem paths_agree_full_false :
    ¬ ∀ (sizeMax : Nat) (allow filter : Bool) (st : BlobSt) (c : Bytes),
        gogitDoc sizeMax allow st = catfileDoc sizeMax allow (catfileAnswer filter sizeMax st) c := by
  intro h
  have := h 10 false false .missing []
  simp [gogitDoc, catfileDoc, catfileAnswer] at this

/-- **content** — on either path, after `Builder.Add`, the document of a present blob has the blob's bytes as
    content, or a skip explanation: too large (over SizeMax without exception), too small (1–2 bytes), binary -/
theorem content_exact_gogit (sizeMax : Nat) (allow : Bool) (c : Bytes) :
    checkContent sizeMax allow (.present c) (builderAdd sizeMax allow (gogitDoc sizeMax allow (.present c))) = true := by
  unfold gogitDoc checkContent builderAdd
  by_cases h1 : (decide (c.length > sizeMax) && !allow) = true
  · simp [h1]
  · by_cases h2 : c.isEmpty = true
    · simp [h1, h2]
    · by_cases h3 : c.length < 3
      · simp [h1, h2, h3]
      · by_cases h4 : (0 : UInt8) ∈ c
        · simp [h1, h2, h3, h4]
        · simp [h1, h2, h3, h4]

theorem content_exact_catfile (sizeMax : Nat) (allow filter : Bool) (hf : filter = true → allow = false)
    (c : Bytes) :
    checkContent sizeMax allow (.present c)
      (builderAdd sizeMax allow (catfileDoc sizeMax allow (catfileAnswer filter sizeMax (.present c)) c)) = true := by
  rw [← paths_agree_partial sizeMax allow filter hf c]
  exact content_exact_gogit sizeMax allow c

/-! ## the cat-file stream -/

/-- **catfile_parses** — for every stream of well-formed records, every size limit and pattern of large-file
    exceptions (so every pattern of read-fully / skip decisions) and every schedule of chunk sizes of the buffered
    reader: `indexCatfileBlobs` sees, for the i-th key, the i-th record (`Next` answers its header), the bytes it
    reads are exactly that record's content (size 0 included; a skipped blob followed by further records included),
    and no error occurs. -/
theorem catfile_parses (sizeMax : Nat) (rs : List Rec) (allows : List Bool) (hlen : allows.length = rs.length)
    (hwf : ∀ r ∈ rs, r.WF) (sched : List Nat) :
    catfileDocs sizeMax ⟨stream rs, 0⟩ allows sched =
      ((rs.zip allows).map fun p => expectedDoc sizeMax p.2 p.1, true) :=
  catfileDocs_between sizeMax rs allows hlen hwf _ (between_sync rs) sched

/-- a single `Read` inside a blob, for any buffer length and any chunk size: a non-empty prefix of the unread
    content, never the trailing LF or the next header; the LF is consumed exactly when the content is exhausted -/
theorem catfile_read_chunk (c X : Bytes) (j : Nat) (hj : j < c.length) (plen k : Nat) (hp : 1 ≤ plen) :
    ∃ n, 1 ≤ n ∧ n ≤ c.length - j ∧ n ≤ plen ∧
      read (midState c X j) plen k =
        ((c.drop j).take n, .ok, if j + n = c.length then ⟨X, 0⟩ else midState c X (j + n)) :=
  read_mid c X j hj plen k hp

/-- `Next` from any between-records state (at a header, or with any part of a blob still unread) answers the next
    record's header -/
theorem catfile_next_sync (s : CF) (r : Rec) (rs : List Rec) (hr : r.WF) (hb : Between s (r :: rs)) :
    next s = (r.answer, r.after (stream rs) 0) :=
  next_between s r rs hr hb

/-- records as git prints them (`<oid> <type> <decimal size>`) are well-formed -/
theorem catfile_git_record_wf (pre ds c : Bytes) (hpre : 10 ∉ pre) (hne : ds ≠ []) (hd : ds.all isDigit = true)
    (hv : digitsVal ds 0 = c.length) (hsmall : c.length ≤ 9223372036854775807) :
    (Rec.blob (pre ++ 32 :: ds) c).WF :=
  blob_record_wf pre ds c hpre hne hd hv hsmall

/-! non-vacuity: three records (a 3-byte blob that is read, a missing object, an empty blob), chunk size 1 -/
example :
    catfileDocs 10 ⟨stream [.blob [97, 32, 51] [120, 121, 122], .missing ([98] ++ sufMissing), .blob [99, 32, 48] []], 0⟩
      [false, false, false] [1, 1, 1] =
    ([⟨[120, 121, 122], .none⟩, ⟨[], .missing⟩, ⟨[], .none⟩], true) := by decide

/-! ## ignore files -/

/-- a pattern line without glob characters excludes exactly the paths it is a prefix of ("a trailing ** is implicit") -/
theorem ignore_plain_is_prefix (l path : Bytes) :
    gmatch (l.map Tok.lit ++ [Tok.dstar]) path = l.isPrefixOf path :=
  gmatch_lits_dstar l path

end ZoektModel.C14
