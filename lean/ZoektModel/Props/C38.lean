/-
C38 — Incremental indexing skips only up-to-date repositories.  Property theorems only.

Statement (properties.jsonl): incremental indexing skips a repository only when its existing index was built from
the same branch versions with the same content-affecting build options: changing any option that changes which
content or symbols get indexed, or changing the branches, causes a re-index, while metadata-only changes are
applied without one.

The digest is a parameter `D` (hex ∘ SHA-1 in the implementation); where a theorem needs it, the absence of a
collision between the two preimages at hand is an explicit hypothesis.
-/
import ZoektModel.C38.Capstone
import ZoektModel.C38.Idem
import ZoektModel.Generated.C38Options
namespace ZoektModel.C38
open ZoektModel

/-! ## the model follows the tables extracted from the current source -/

/-- the model's `GetHash` writes exactly what the source writes, in the same order with the same verbs -/
theorem model_hash_writes_match_source : hashWrites = Gen.hashWrites := by decide

/-- the model's `HashOptions()` copies exactly the fields the source copies -/
theorem model_hash_options_match_source : hashOptionsMap = Gen.hashOptionsMap := by decide

/-- every field of `HashOptions` is set by `HashOptions()` and written by `GetHash` -/
theorem hash_writes_cover_hash_options :
    (∀ f ∈ Gen.hashOptionsFields, f ∈ Gen.hashOptionsMap.map Prod.fst) ∧
    (∀ f ∈ Gen.hashOptionsFields, f ∈ Gen.hashWrites.map Prod.snd) := by decide

/-- the model's `IndexState` has the source's return statements, in source order -/
theorem model_state_ladder_matches_source : indexStateReturns = Gen.indexStateReturns := by decide

/-- the model's `MergeMutable` treats the fields the way the source does -/
theorem model_merge_matches_source :
    mergeMutableFields = Gen.mergeMutableFields ∧ mergeImmutableFields = Gen.mergeImmutableFields ∧
    skippedKeys = Gen.mergeSkippedRawConfigKeys := by decide

/-- every field of `index.Options` in the current source is classified (content-affecting or not), exactly once -/
theorem options_classified :
    ∀ f ∈ Gen.optionsFields.map Prod.fst,
      (f ∈ contentAffecting ∧ f ∉ notContentAffecting) ∨ (f ∉ contentAffecting ∧ f ∈ notContentAffecting) := by decide

/-- every field of `zoekt.Repository` in the current source is classified, exactly once -/
theorem repository_classified :
    ∀ f ∈ Gen.repositoryFields.map Prod.fst,
      ([repoIdentity, repoContent, repoMetadata, repoDerived].filter fun c => c.contains f).length = 1 := by decide

/-! ## hash coverage -/

/-- the content-affecting options the hash is known not to cover (known findings) -/
def knownUnhashed : List String := ["TrigramMax", "ScipCTagsPath", "LanguageMap"]

/-- **hash_covers (partial)**: every content-affecting option of the current source, except the three known
    unhashed ones, is copied into `HashOptions` and written to the hasher -/
theorem hash_covers_partial :
    ∀ f ∈ Gen.optionsFields.map Prod.fst, f ∈ contentAffecting → f ∉ knownUnhashed →
      f ∈ (Gen.hashOptionsMap.filter fun p => (Gen.hashWrites.map Prod.snd).contains p.1).map Prod.snd := by decide

/-- the full coverage statement is false on the current source: `TrigramMax`, `ScipCTagsPath` and `LanguageMap`
    are content-affecting fields of `Options` that `HashOptions()` never reads -/
theorem hash_covers_full_false :
    ¬ ∀ f ∈ Gen.optionsFields.map Prod.fst, f ∈ contentAffecting → f ∈ Gen.hashOptionsMap.map Prod.snd := by decide

theorem known_unhashed_exact :
    ∀ f ∈ Gen.optionsFields.map Prod.fst,
      (f ∈ contentAffecting ∧ f ∉ Gen.hashOptionsMap.map Prod.snd) ↔ f ∈ knownUnhashed := by decide

/-- the metadata fields `MergeMutable` never merges (known finding: `Metadata`) -/
theorem merge_covers_partial :
    ∀ f ∈ Gen.repositoryFields.map Prod.fst, f ∈ repoMetadata → f ≠ "Metadata" → f ∈ Gen.mergeMutableFields := by decide

theorem merge_covers_full_false :
    ¬ ∀ f ∈ Gen.repositoryFields.map Prod.fst, f ∈ repoMetadata → f ∈ Gen.mergeMutableFields := by decide

/-- identity and content fields of the description are exactly the ones whose change `MergeMutable` refuses
    (`TenantID` is not compared: tenants have separate shard names) -/
theorem immutable_covers :
    ∀ f ∈ Gen.repositoryFields.map Prod.fst, (f ∈ repoIdentity ∨ f ∈ repoContent) → f ≠ "TenantID" →
      f ∈ Gen.mergeImmutableFields := by decide

/-! ## IndexState: decision logic, for every digest function, disk state and option set -/

variable (D : List Char → String) (V : Versions)

/-- **equal ⇒ same** (the skip decision): `IndexState = equal` only if a readable shard of a compatible version
    holds the repository with the same option hash, the same id, the same branches (names and versions, in
    order), the same URL and templates, and every RawConfig key of the new description already reads its value -/
theorem equal_implies_same (d : Disk) (o : Opts)
    (h : indexStateWith (getHashWith D) V d o = .equal) :
    ∃ fmt feat repos r, d = .shard fmt feat repos ∧ versionMismatch V fmt feat = false ∧
      repos.find? (fun c => c.name = o.repo.name) = some r ∧
      r.indexOptions = D (preimage o) ∧ r.id = o.repo.id ∧ r.name = o.repo.name ∧ r.branches = o.repo.branches ∧
      r.url = o.repo.url ∧ r.commitURLTemplate = o.repo.commitURLTemplate ∧
      r.fileURLTemplate = o.repo.fileURLTemplate ∧ r.lineFragmentTemplate = o.repo.lineFragmentTemplate ∧
      ∀ kv ∈ o.repo.rawConfig.getD [], kv.1 ∈ skippedKeys ∨ ∃ m, r.rawConfig = some m ∧ mapGet m kv.1 = kv.2 := by
  unfold indexStateWith at h
  cases d with
  | noShard => simp at h
  | notExist => simp at h
  | unreadable => simp at h
  | shard fmt feat repos =>
    simp only at h
    by_cases hv : versionMismatch V fmt feat = true
    · simp [hv] at h
    · simp only [hv, Bool.false_eq_true, if_false] at h
      cases hf : repos.find? (fun c => c.name = o.repo.name) with
      | none => simp [hf] at h
      | some r =>
        simp only [hf] at h
        by_cases hio : r.indexOptions = getHashWith D o
        · by_cases hbr : r.branches = o.repo.branches
          · simp only [hio, hbr, ne_eq, not_true_eq_false, if_false] at h
            unfold mergeMutable at h
            by_cases hid : r.id = o.repo.id
            · by_cases hnm : r.name = o.repo.name
              · simp only [hid, hnm, hbr, ne_eq, not_true_eq_false, if_false] at h
                generalize hfold : (o.repo.rawConfig.getD []).foldl mergeKey (false, r.rawConfig) = res at h
                obtain ⟨mflag, raw⟩ := res
                simp only at h
                split at h
                · simp at h
                · simp at h
                · rename_i r' heq
                  simp only [Except.ok.injEq, Prod.mk.injEq] at heq
                  obtain ⟨hm, _⟩ := heq
                  simp only [Bool.or_eq_false_iff, decide_eq_false_iff_not, ne_eq, Decidable.not_not] at hm
                  obtain ⟨⟨⟨⟨hmf, hu⟩, hc⟩, hfl⟩, hl⟩ := hm
                  have hfold' : ((o.repo.rawConfig.getD []).foldl mergeKey (false, r.rawConfig)).1 = false := by
                    rw [hfold]; exact hmf
                  obtain ⟨_, hall⟩ := foldl_mergeKey_false _ _ hfold'
                  exact ⟨fmt, feat, repos, r, rfl, by simpa using hv, hf, hio, hid, hnm, hbr, hu, hc, hfl, hl, hall⟩
              · simp [hid, hnm] at h
            · simp [hid] at h
          · simp [hio, hbr] at h
        · simp [hio] at h

/-- **a changed option hash or changed branches force a re-index**: if the stored hash differs from the new
    options' hash, or the branches (names, versions, order) differ, or the id differs, the state is
    option-mismatch or content-mismatch — never equal, never meta -/
theorem content_change_reindexes (fmt feat : Nat) (repos : List Repo) (r : Repo) (o : Opts)
    (hv : versionMismatch V fmt feat = false)
    (hf : repos.find? (fun c => c.name = o.repo.name) = some r)
    (hdiff : r.indexOptions ≠ D (preimage o) ∨ r.branches ≠ o.repo.branches ∨ r.id ≠ o.repo.id) :
    indexStateWith (getHashWith D) V (.shard fmt feat repos) o = .option ∨
    indexStateWith (getHashWith D) V (.shard fmt feat repos) o = .content := by
  unfold indexStateWith
  simp only [hv, Bool.false_eq_true, if_false, hf, getHashWith]
  by_cases hio : r.indexOptions = D (preimage o)
  · right
    by_cases hbr : r.branches = o.repo.branches
    · have hid : r.id ≠ o.repo.id := by
        rcases hdiff with h | h | h
        · exact absurd hio h
        · exact absurd hbr h
        · exact h
      simp [hio, hbr, mergeMutable, hid]
    · simp [hio, hbr]
  · left; simp [hio]

/-- **metadata-only changes never re-index**: same hash, same id and name, same branches ⇒ the state is
    meta-mismatch or equal, whatever else differs in the description -/
theorem meta_only_no_reindex (fmt feat : Nat) (repos : List Repo) (r : Repo) (o : Opts)
    (hv : versionMismatch V fmt feat = false)
    (hf : repos.find? (fun c => c.name = o.repo.name) = some r)
    (hio : r.indexOptions = D (preimage o)) (hbr : r.branches = o.repo.branches) (hid : r.id = o.repo.id) :
    indexStateWith (getHashWith D) V (.shard fmt feat repos) o = .metaOnly ∨
    indexStateWith (getHashWith D) V (.shard fmt feat repos) o = .equal := by
  have hnm : r.name = o.repo.name := by
    have := List.find?_some hf
    simpa using this
  unfold indexStateWith
  simp only [hv, Bool.false_eq_true, if_false, hf, getHashWith, hio, hbr, ne_eq, not_true_eq_false, mergeMutable, hid, hnm]
  generalize (o.repo.rawConfig.getD []).foldl mergeKey (false, r.rawConfig) = res
  obtain ⟨mflag, raw⟩ := res
  simp only
  generalize (mflag || decide ¬r.url = o.repo.url || decide ¬r.commitURLTemplate = o.repo.commitURLTemplate ||
    decide ¬r.fileURLTemplate = o.repo.fileURLTemplate || decide ¬r.lineFragmentTemplate = o.repo.lineFragmentTemplate) = b
  cases b <;> simp

/-- a changed URL or template is seen: the state is meta-mismatch, not equal -/
theorem meta_change_detected (fmt feat : Nat) (repos : List Repo) (r : Repo) (o : Opts)
    (hv : versionMismatch V fmt feat = false)
    (hf : repos.find? (fun c => c.name = o.repo.name) = some r)
    (hio : r.indexOptions = D (preimage o)) (hbr : r.branches = o.repo.branches) (hid : r.id = o.repo.id)
    (hch : r.url ≠ o.repo.url ∨ r.commitURLTemplate ≠ o.repo.commitURLTemplate ∨
      r.fileURLTemplate ≠ o.repo.fileURLTemplate ∨ r.lineFragmentTemplate ≠ o.repo.lineFragmentTemplate) :
    indexStateWith (getHashWith D) V (.shard fmt feat repos) o = .metaOnly := by
  rcases meta_only_no_reindex D V fmt feat repos r o hv hf hio hbr hid with h | h
  · exact h
  · obtain ⟨_, _, _, r', hd, _, hf', _, _, _, _, hu, hc, hfl, hl, _⟩ := equal_implies_same D V _ o h
    simp only [Disk.shard.injEq] at hd
    obtain ⟨rfl, rfl, rfl⟩ := hd
    rw [hf] at hf'
    simp only [Option.some.injEq] at hf'
    subst hf'
    rcases hch with h | h | h | h
    · exact absurd hu h
    · exact absurd hc h
    · exact absurd hfl h
    · exact absurd hl h

/-! ## MergeMutable -/

/-- **the merge applies the mutable metadata**: after a successful `MergeMutable` the repository carries the new
    URL and templates, every non-skipped RawConfig key of the new description reads its new value (keys of a Go
    map are distinct), and id, name, branches and option hash are untouched -/
theorem merge_applies (r x r' : Repo) (m : Bool) (h : mergeMutable r x = .ok (m, r'))
    (hd : (x.rawConfig.getD []).Pairwise fun a b => a.1 ≠ b.1) :
    r'.url = x.url ∧ r'.commitURLTemplate = x.commitURLTemplate ∧ r'.fileURLTemplate = x.fileURLTemplate ∧
    r'.lineFragmentTemplate = x.lineFragmentTemplate ∧
    (∀ kv ∈ x.rawConfig.getD [], kv.1 ∉ skippedKeys → ∃ mm, r'.rawConfig = some mm ∧ mapGet mm kv.1 = kv.2) ∧
    r'.id = r.id ∧ r'.name = r.name ∧ r'.branches = r.branches ∧ r'.indexOptions = r.indexOptions := by
  unfold mergeMutable at h
  by_cases hid : r.id = x.id
  · by_cases hnm : r.name = x.name
    · by_cases hbr : r.branches = x.branches
      · simp only [hid, hnm, hbr, ne_eq, not_true_eq_false, if_false] at h
        have happ := foldl_mergeKey_applies (x.rawConfig.getD []) hd (false, r.rawConfig)
        generalize hfold : (x.rawConfig.getD []).foldl mergeKey (false, r.rawConfig) = res at h happ
        obtain ⟨mflag, raw⟩ := res
        simp only [Except.ok.injEq, Prod.mk.injEq] at h
        obtain ⟨_, rfl⟩ := h
        exact ⟨rfl, rfl, rfl, rfl, happ, hid.symm, hnm.symm, hbr.symm, rfl⟩
      · simp [hid, hnm, hbr] at h
    · simp [hid, hnm] at h
  · simp [hid] at h

/-- **the merge converges**: merging the same description (distinct RawConfig keys) into the merged repository is
    not a mutation any more -/
theorem merge_converges (r x r' : Repo) (m : Bool) (h : mergeMutable r x = .ok (m, r'))
    (hd : (x.rawConfig.getD []).Pairwise fun a b => a.1 ≠ b.1) : mergeMutable r' x = .ok (false, r') :=
  mergeMutable_idem r x r' m h hd

/-- **applying the metadata converges**: when `IndexState` says meta-mismatch, merging the new description into the
    stored repository (what `mergeMeta` writes) yields a repository for which `IndexState` says equal -/
theorem meta_applied_then_equal (fmt feat : Nat) (r : Repo) (o : Opts)
    (hd : (o.repo.rawConfig.getD []).Pairwise fun a b => a.1 ≠ b.1)
    (h : indexStateWith (getHashWith D) V (.shard fmt feat [r]) o = .metaOnly) :
    ∃ r', mergeMutable r o.repo = .ok (true, r') ∧
      indexStateWith (getHashWith D) V (.shard fmt feat [r']) o = .equal := by
  unfold indexStateWith at h
  simp only at h
  by_cases hv : versionMismatch V fmt feat = true
  · simp [hv] at h
  · simp only [hv, Bool.false_eq_true, if_false] at h
    by_cases hnm : r.name = o.repo.name
    · have hf : [r].find? (fun c => c.name = o.repo.name) = some r := by simp [List.find?, hnm]
      simp only [hf] at h
      by_cases hio : r.indexOptions = getHashWith D o
      · by_cases hbr : r.branches = o.repo.branches
        · simp only [hio, hbr, ne_eq, not_true_eq_false, if_false] at h
          cases hm : mergeMutable r o.repo with
          | error e => simp [hm] at h
          | ok res =>
            obtain ⟨m, r'⟩ := res
            cases m with
            | false => simp [hm] at h
            | true =>
              refine ⟨r', rfl, ?_⟩
              obtain ⟨_, _, _, _, _, hid', hnm', hbr', hio'⟩ := merge_applies r o.repo r' true hm hd
              have hidem := mergeMutable_idem r o.repo r' true hm hd
              have hf' : [r'].find? (fun c => c.name = o.repo.name) = some r' := by
                simp [List.find?, hnm', hnm]
              unfold indexStateWith
              simp only [hv, Bool.false_eq_true, if_false, hf', hio', hio, hbr', hbr, ne_eq, not_true_eq_false, hidem]
        · simp [hio, hbr] at h
      · simp [hio] at h
    · have hf : [r].find? (fun c => c.name = o.repo.name) = none := by simp [List.find?, hnm]
      simp [hf] at h

/-- the known finding, on the model: `MergeMutable` never changes `Metadata`, whatever the new description says -/
theorem merge_keeps_old_metadata (r x r' : Repo) (m : Bool) (h : mergeMutable r x = .ok (m, r')) :
    r'.metadata = r.metadata := by
  unfold mergeMutable at h
  by_cases hid : r.id = x.id
  · by_cases hnm : r.name = x.name
    · by_cases hbr : r.branches = x.branches
      · simp only [hid, hnm, hbr, ne_eq, not_true_eq_false, if_false] at h
        generalize (x.rawConfig.getD []).foldl mergeKey (false, r.rawConfig) = res at h
        obtain ⟨mflag, raw⟩ := res
        simp only [Except.ok.injEq, Prod.mk.injEq] at h
        obtain ⟨_, rfl⟩ := h
        rfl
      · simp [hid, hnm, hbr] at h
    · simp [hid, hnm] at h
  · simp [hid] at h

/-! ## the hash decides the hashed options; the statement outside the known findings -/

/-- **the hash preimage is uniquely decodable** (`ctagsPath ‖ %t ‖ %d ‖ %q ‖ %t`, parsed from the right: boolean,
    bracketed list of Go-quoted strings — a closing quote is the one preceded by an even run of backslashes —,
    digit run, boolean, path): option sets with equal preimages agree on all five hashed fields -/
theorem hash_preimage_injective (a b : Opts) (h : preimage a = preimage b) :
    a.ctagsPath = b.ctagsPath ∧ a.cTagsMustSucceed = b.cTagsMustSucceed ∧ a.sizeMax = b.sizeMax ∧
    a.largeFiles = b.largeFiles ∧ a.disableCTags = b.disableCTags := preimage_injective a b h


/-- **equal ⇒ the hashed options are the same**: if the stored hash of the repository was computed from options
    `a` and the digest does not collide on the two preimages, then `IndexState = equal` for `b` implies that `a` and `b` agree on SizeMax, DisableCTags, CTagsPath,
    CTagsMustSucceed and LargeFiles (the preimage ctagsPath‖%t‖%d‖%q‖%t is uniquely decodable) -/
theorem equal_same_hashed (a b : Opts) (fmt feat : Nat) (repos : List Repo)
    (hbuilt : ∀ r ∈ repos, r.name = b.repo.name → r.indexOptions = getHashWith D a)
    (hnc : D (preimage a) = D (preimage b) → preimage a = preimage b)
    (h : indexStateWith (getHashWith D) V (.shard fmt feat repos) b = .equal) :
    a.sizeMax = b.sizeMax ∧ a.disableCTags = b.disableCTags ∧ a.ctagsPath = b.ctagsPath ∧
    a.cTagsMustSucceed = b.cTagsMustSucceed ∧ a.largeFiles = b.largeFiles := by
  obtain ⟨_, _, _, r, hd, _, hf, hio, _, hnm, _⟩ := equal_implies_same D V _ b h
  simp only [Disk.shard.injEq] at hd
  obtain ⟨rfl, rfl, rfl⟩ := hd
  have hmem := List.mem_of_find?_eq_some hf
  have := hbuilt r hmem hnm
  rw [hio] at this
  obtain ⟨h1, h2, h3, h4, h5⟩ := preimage_injective a b (hnc this.symm)
  exact ⟨h3, h5, h1, h2, h4⟩

/-- **C38 on the model, outside the known findings**: for an index built from `a` (any options, any description)
    and any requested `b`, the executable statement `checkP` holds of the model's `IndexState` — provided the pair
    does not differ in the three unhashed options, in `Metadata`, or by a removed RawConfig key (the five known
    findings) and the digest does not collide on the two preimages -/
theorem C38_checkP_partial (a b : Opts) (fmt feat : Nat)
    (hv : versionMismatch V fmt feat = false)
    (hnc : D (preimage a) = D (preimage b) → preimage a = preimage b)
    (htrig : a.trigramMax = b.trigramMax) (hscip : a.scipCTagsPath = b.scipCTagsPath)
    (hlmap : a.languageMap = b.languageMap)
    (hmeta : sameMap a.repo.metadata b.repo.metadata = true) (hrem : noRemovedKey a.repo b.repo = true) :
    checkP a b (indexStateWith (getHashWith D) V
      (.shard fmt feat [{ a.repo with indexOptions := getHashWith D a }]) b) = true := by
  generalize hr : ({ a.repo with indexOptions := getHashWith D a } : Repo) = r
  have hrn : r.name = a.repo.name := by rw [← hr]
  have hrid : r.id = a.repo.id := by rw [← hr]
  have hrbr : r.branches = a.repo.branches := by rw [← hr]
  have hrio : r.indexOptions = D (preimage a) := by rw [← hr]; rfl
  unfold checkP
  by_cases hname : a.repo.name = b.repo.name
  · have hf : [r].find? (fun c => c.name = b.repo.name) = some r := by
      simp [List.find?, hrn, hname]
    by_cases hH : hashedEq a b
    · have hcd := contentDiff_none a b hH htrig hscip hlmap
      have hio : r.indexOptions = D (preimage b) := by rw [hrio, preimage_congr a b hH]
      by_cases hid : a.repo.id = b.repo.id
      · by_cases hbr : a.repo.branches = b.repo.branches
        · have hcr : contentRepoDiff a.repo b.repo = none := by simp [contentRepoDiff, hid, hname, hbr]
          rcases meta_only_no_reindex D V fmt feat [r] r b hv hf hio (by rw [hrbr, hbr]) (by rw [hrid, hid]) with hs | hs
          · rw [hs]; simp [violation, hcd, hcr]
          · obtain ⟨_, _, _, r', hd, _, hf', _, _, _, _, hu, hc, hfl, hl, hraw⟩ := equal_implies_same D V _ b hs
            simp only [Disk.shard.injEq] at hd
            obtain ⟨rfl, rfl, rfl⟩ := hd
            rw [hf] at hf'
            simp only [Option.some.injEq] at hf'
            subst hf'
            rw [hs]
            have hmd : metaDiff a.repo b.repo = none := by
              apply metaDiff_none
              · rw [← hu, ← hr]
              · rw [← hc, ← hr]
              · rw [← hfl, ← hr]
              · rw [← hl, ← hr]
              · apply rawApplied_of_equal
                intro kv hkv
                have := hraw kv hkv
                rw [← hr] at this
                exact this
              · exact hrem
              · exact hmeta
            simp [violation, hcd, hcr, hmd]
        · have hcr : (contentRepoDiff a.repo b.repo).isSome = true := by simp [contentRepoDiff, hid, hname, hbr]
          obtain ⟨f, hf2⟩ := Option.isSome_iff_exists.mp hcr
          rcases content_change_reindexes D V fmt feat [r] r b hv hf (Or.inr (Or.inl (by rw [hrbr]; exact hbr))) with hs | hs
            <;> rw [hs] <;> simp [violation, hcd, hf2]
      · have hcr : (contentRepoDiff a.repo b.repo).isSome = true := by simp [contentRepoDiff, hid]
        obtain ⟨f, hf2⟩ := Option.isSome_iff_exists.mp hcr
        rcases content_change_reindexes D V fmt feat [r] r b hv hf (Or.inr (Or.inr (by rw [hrid]; exact hid))) with hs | hs
          <;> rw [hs] <;> simp [violation, hcd, hf2]
    · have hcd := contentDiff_some_of_not_hashedEq a b hH
      obtain ⟨f, hf2⟩ := Option.isSome_iff_exists.mp hcd
      have hne : r.indexOptions ≠ D (preimage b) := by
        rw [hrio]
        intro he
        exact hH (preimage_injective a b (hnc he))
      rcases content_change_reindexes D V fmt feat [r] r b hv hf (Or.inl hne) with hs | hs
        <;> rw [hs] <;> simp [violation, hf2]
  · have hst : indexStateWith (getHashWith D) V (.shard fmt feat [r]) b = .corrupt := by
      simp [indexStateWith, hv, List.find?, hrn, hname]
    rw [hst]
    have hcr : (contentRepoDiff a.repo b.repo).isSome = true := by
      unfold contentRepoDiff
      by_cases hid : a.repo.id = b.repo.id <;> simp [hid, hname]
    obtain ⟨f, hf2⟩ := Option.isSome_iff_exists.mp hcr
    cases hcd : contentDiff a b <;> simp [violation, hcd, hf2]

/-! ## the statement on the model: false in full, with the witnesses of the known findings -/

def r0 : Repo := ⟨1, "repo", [⟨"main", "v1"⟩], some [("public", "1")], "u", "", "", "", "", [("team", "search")]⟩
def o0 : Opts := ⟨1048576, 20000, true, "", "", false, [], [], r0⟩

/-- **C38 is false of the model in full** (for every digest function): an index built with `TrigramMax = 20000`
    is reported `equal` for `TrigramMax = 100`, which the statement forbids -/
theorem C38_full_false :
    ¬ ∀ (a b : Opts) (fmt feat : Nat),
        versionMismatch V fmt feat = false →
        checkP a b (indexStateWith (getHashWith D) V (.shard fmt feat [{ a.repo with indexOptions := getHashWith D a }]) b) = true := by
  intro h
  have hv : versionMismatch ⟨16, 17, 12⟩ 16 12 = false := by decide
  have := h o0 { o0 with trigramMax := 100 } V.indexFormat V.feature (by simp [versionMismatch])
  revert this
  simp only [indexStateWith, versionMismatch]
  simp [getHashWith, preimage, o0, r0, mergeMutable, mergeKey, skippedKeys, mapGet, checkP, violation, contentDiff]

/-! ## non-vacuity -/

example : indexStateWith (getHashWith fun s => String.ofList s) ⟨16, 17, 12⟩
    (.shard 16 12 [{ r0 with indexOptions := String.ofList (preimage o0) }]) o0 = .equal := by decide
example : indexStateWith (getHashWith fun s => String.ofList s) ⟨16, 17, 12⟩
    (.shard 16 12 [{ r0 with indexOptions := String.ofList (preimage o0) }]) { o0 with sizeMax := 5 } = .option := by decide
example : indexStateWith (getHashWith fun s => String.ofList s) ⟨16, 17, 12⟩
    (.shard 16 12 [{ r0 with indexOptions := String.ofList (preimage o0) }])
    { o0 with repo := { r0 with branches := [⟨"main", "v2"⟩] } } = .content := by decide
example : indexStateWith (getHashWith fun s => String.ofList s) ⟨16, 17, 12⟩
    (.shard 16 12 [{ r0 with indexOptions := String.ofList (preimage o0) }])
    { o0 with repo := { r0 with url := "other" } } = .metaOnly := by decide
example : (mergeMutable r0 { r0 with url := "n", rawConfig := some [("fork", "1")] }).toOption.map
    (fun p => (p.1, p.2.url, p.2.rawConfig)) = some (true, "n", some [("public", "1"), ("fork", "1")]) := by decide

/-- the hypotheses of `C38_checkP_partial` are satisfiable (digest = identity, SizeMax changed) -/
example : checkP o0 { o0 with sizeMax := 5 }
    (indexStateWith (getHashWith fun s => String.ofList s) ⟨16, 17, 12⟩
      (.shard 16 12 [{ o0.repo with indexOptions := getHashWith (fun s => String.ofList s) o0 }]) { o0 with sizeMax := 5 }) = true :=
  C38_checkP_partial _ ⟨16, 17, 12⟩ o0 _ 16 12 (by decide) (fun h => String.ofList_inj.mp h)
    rfl rfl rfl (by decide) (by decide)

end ZoektModel.C38
