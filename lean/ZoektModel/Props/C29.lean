/-
C29 — Ranking is deterministic, finite and ordered.

Statement (properties.jsonl): the same search over the same index returns files and matches in the same order with the
same scores every time (up to ties), turning score debugging on never changes scores or order, all scores are finite,
matches within a file are ordered by non-increasing score, and files are ordered by non-increasing score except for the
single documented promotion of a file with a novel extension into third place.
-/
import ZoektModel.C29.Lemmas
namespace ZoektModel.C29

/-! ### ordering -/

/-- **matches within a file are ordered by non-increasing score** (`sortMatchesByScore`, `sortChunkMatchesByScore`):
    the result is a permutation of the input and non-increasing, for every list of (finite) scores. -/
theorem matches_sorted {α} (key : α → Int) (l : List α) :
    (sortDesc key l).Perm l ∧ sortedDesc ((sortDesc key l).map key) = true :=
  ⟨sortDesc_perm key l, sortedDesc_map key _ (sortDesc_desc key l)⟩

/-- `boostNovelExtension` at offset 2 on a non-increasing list: the result is non-increasing except for at most one
    element moved to index 2, whose extension differs from the first two and whose score is at least `num/den` (9/10)
    of the element it displaced — i.e. the Spec predicate `filesSortedExceptPromotion` with ratio 9/10. -/
theorem boost_sorted_except_promotion (l : List FileEnt) (h : Desc (·.score) l) :
    filesSortedExceptPromotion (boostNovelExtension l 2 9 10) = true := by
  unfold boostNovelExtension
  have hs : sortedDesc (l.map (·.score)) = true := sortedDesc_map _ l h
  split
  · exact fsep_of_sorted _ hs
  · rename_i hlen
    match l, h, hs, hlen with
    | a :: b :: c0 :: rest, h, hs, _ =>
      simp only [List.take_succ_cons, List.take_zero, List.drop_succ_cons, List.drop_zero]
      split
      · exact fsep_of_sorted _ hs
      · rename_i i hfind
        obtain ⟨x, hx, hratio, hext, _⟩ := findNovel_spec _ 9 10 c0.score (c0 :: rest) i hfind
        simp only [hx]
        cases i with
        | zero =>
          simp at hx
          subst hx
          exact fsep_of_sorted _ hs
        | succ k =>
          simp only [List.eraseIdx_cons_succ]
          have hd : Desc (·.score) (a :: b :: (c0 :: rest).eraseIdx (k + 1)) := by
            have := desc_eraseIdx (·.score) (a :: b :: c0 :: rest) (k + 3) h
            simpa using this
          have hs2 := sortedDesc_map _ _ hd
          simp only [List.eraseIdx_cons_succ] at hs2
          have hext' : x.ext ≠ a.ext ∧ x.ext ≠ b.ext := by
            simpa [List.contains_cons] using hext
          exact fsep_promoted a b x c0 _ hs2 hext'.1 hext'.2 (by omega)
    | [], _, _, hlen => simp at hlen
    | [_], _, _, hlen => simp at hlen
    | [_, _], _, _, hlen => simp at hlen

/-- **files are ordered by non-increasing score except for the single documented promotion** (`SortFiles`): for every
    list of file matches the result is a permutation of the input that satisfies the statement's predicate. -/
theorem files_sorted_except_promotion (ms : List FileEnt) :
    (sortFiles ms).Perm ms ∧ filesSortedExceptPromotion (sortFiles ms) = true := by
  refine ⟨?_, boost_sorted_except_promotion _ (sortDesc_desc _ ms)⟩
  unfold sortFiles
  exact (boost_perm _ 2 9 10).trans (sortDesc_perm _ ms)

end ZoektModel.C29
