/-
C29 — Ranking is deterministic, finite and ordered.

Statement (properties.jsonl): the same search over the same index returns files and matches in the same order with the
same scores every time (up to ties), turning score debugging on never changes scores or order, all scores are finite,
matches within a file are ordered by non-increasing score, and files are ordered by non-increasing score except for the
single documented promotion of a file with a novel extension into third place.
-/
import ZoektModel.C29.Lemmas
import ZoektModel.Generated.C29Consts
namespace ZoektModel.C29

/-! ### ordering -/

/-- **matches within a file are ordered by non-increasing score** (`sortMatchesByScore`, `sortChunkMatchesByScore`):
    the result is a permutation of the input and non-increasing, for every list of (finite) scores. -/
theorem matches_sorted {α} (key : α → Int) (l : List α) :
    (sortDesc key l).Perm l ∧ sortedDesc ((sortDesc key l).map key) = true :=
  ⟨sortDesc_perm key l, sortedDesc_map key _ (sortDesc_desc key l)⟩

/-- `boostNovelExtension` at offset 2 on a non-increasing list: the result is non-increasing except for at most one
    element moved to index 2, whose extension differs from the first two and whose score is at least `num/den` (9/10)
    of the element it displaced — i.e. the Spec predicate `filesSortedExceptPromotion` with ratio 9/10. -/
theorem boost_sorted_except_promotion (l : List FileEnt) (h : Desc (·.score) l) :
    filesSortedExceptPromotion (boostNovelExtension l 2 9 10) = true := by
  unfold boostNovelExtension
  have hs : sortedDesc (l.map (·.score)) = true := sortedDesc_map _ l h
  split
  · exact fsep_of_sorted _ hs
  · rename_i hlen
    match l, h, hs, hlen with
    | a :: b :: c0 :: rest, h, hs, _ =>
      simp only [List.take_succ_cons, List.take_zero, List.drop_succ_cons, List.drop_zero]
      split
      · exact fsep_of_sorted _ hs
      · rename_i i hfind
        obtain ⟨x, hx, hratio, hext, _⟩ := findNovel_spec _ 9 10 c0.score (c0 :: rest) i hfind
        simp only [hx]
        cases i with
        | zero =>
          simp at hx
          subst hx
          exact fsep_of_sorted _ hs
        | succ k =>
          simp only [List.eraseIdx_cons_succ]
          have hd : Desc (·.score) (a :: b :: (c0 :: rest).eraseIdx (k + 1)) := by
            have := desc_eraseIdx (·.score) (a :: b :: c0 :: rest) (k + 3) h
            simpa using this
          have hs2 := sortedDesc_map _ _ hd
          simp only [List.eraseIdx_cons_succ] at hs2
          have hext' : x.ext ≠ a.ext ∧ x.ext ≠ b.ext := by
            simpa [List.contains_cons] using hext
          have hle : x.score ≤ c0.score := by
            unfold Desc at h
            simp only [List.pairwise_cons] at h
            have hxm : x ∈ rest := by
              simp only [List.getElem?_cons_succ] at hx
              exact List.mem_of_getElem? hx
            exact h.2.2.1 x hxm
          exact fsep_promoted a b x c0 _ hs2 hext'.1 hext'.2 (by omega) hle
    | [], _, _, hlen => simp at hlen
    | [_], _, _, hlen => simp at hlen
    | [_, _], _, _, hlen => simp at hlen

/-- **the single documented promotion**: `boostNovelExtension` at offset 2 either leaves the list alone or moves exactly
    one element `x` — the *first* one after the top two whose score is at least 9/10 of the third's and whose extension
    is not among the top two — to index 2, keeping the relative order of all others. -/
theorem promotion_rule (a b c0 : FileEnt) (rest : List FileEnt) :
    boostNovelExtension (a :: b :: c0 :: rest) 2 9 10 = a :: b :: c0 :: rest ∨
    ∃ i x, (c0 :: rest)[i]? = some x ∧
      boostNovelExtension (a :: b :: c0 :: rest) 2 9 10 = a :: b :: x :: (c0 :: rest).eraseIdx i ∧
      c0.score * 9 ≤ x.score * 10 ∧ x.ext ≠ a.ext ∧ x.ext ≠ b.ext ∧
      ∀ j y, j < i → (c0 :: rest)[j]? = some y → (y.score * 10 < c0.score * 9 ∨ y.ext = a.ext ∨ y.ext = b.ext) := by
  unfold boostNovelExtension
  by_cases hlen : (a :: b :: c0 :: rest).length ≤ 2 + 1
  · left; rw [if_pos hlen]
  · rw [if_neg hlen]
    simp only [List.take_succ_cons, List.take_zero, List.drop_succ_cons, List.drop_zero]
    cases hf : findNovel (List.map (fun x => x.ext) [a, b]) 9 10 c0.score (c0 :: rest) with
    | none => left; rfl
    | some i =>
      obtain ⟨x, hx, hratio, hext, hfirst⟩ := findNovel_spec _ 9 10 c0.score (c0 :: rest) i hf
      right
      refine ⟨i, x, hx, by simp [hx], by omega, ?_, ?_, ?_⟩
      · have : x.ext ≠ a.ext ∧ x.ext ≠ b.ext := by simpa [List.contains_cons] using hext
        exact this.1
      · have : x.ext ≠ a.ext ∧ x.ext ≠ b.ext := by simpa [List.contains_cons] using hext
        exact this.2
      · intro j y hj hy
        rcases hfirst j y hj hy with h | h
        · exact Or.inl h
        · right
          simpa [List.contains_cons] using h

/-- **files are ordered by non-increasing score except for the single documented promotion** (`SortFiles`): for every
    list of file matches the result is a permutation of the input that satisfies the statement's predicate. -/
theorem files_sorted_except_promotion (ms : List FileEnt) :
    (sortFiles ms).Perm ms ∧ filesSortedExceptPromotion (sortFiles ms) = true := by
  refine ⟨?_, boost_sorted_except_promotion _ (sortDesc_desc _ ms)⟩
  unfold sortFiles
  exact (boost_perm _ 2 9 10).trans (sortDesc_perm _ ms)

/-- **results aggregated from several shards**: whatever the chunks (per-shard results) are, in whatever order they
    arrive, with or without a document display limit, what `collectSender` returns is non-increasing except for the
    single documented promotion — in particular a promotion made while an earlier chunk was ranked does not survive the
    re-ranking of the next chunk as a second out-of-order file. -/
theorem collect_sorted_except_promotion (docLimit : Nat) (chunks : List (List FileEnt)) :
    filesSortedExceptPromotion (collect docLimit chunks) = true := by
  unfold collect
  split
  · have : ∀ (agg : List FileEnt), filesSortedExceptPromotion agg = true →
        filesSortedExceptPromotion (chunks.foldl (collectStep docLimit) agg) = true := by
      induction chunks with
      | nil => intro agg h; exact h
      | cons c cs ih =>
        intro agg h
        simp only [List.foldl_cons]
        apply ih
        unfold collectStep
        split
        · exact h
        · exact fsep_take _ _ (files_sorted_except_promotion _).2
    exact this [] (by decide)
  · exact (files_sorted_except_promotion _).2

/-- the collector only returns files it was sent -/
theorem collect_subset (docLimit : Nat) (chunks : List (List FileEnt)) :
    ∀ f ∈ collect docLimit chunks, f ∈ chunks.flatten := by
  unfold collect
  split
  · have : ∀ (agg : List FileEnt), ∀ f ∈ chunks.foldl (collectStep docLimit) agg, f ∈ agg ∨ f ∈ chunks.flatten := by
      induction chunks with
      | nil => intro agg f hf; exact Or.inl hf
      | cons c cs ih =>
        intro agg f hf
        simp only [List.foldl_cons] at hf
        rcases ih _ f hf with h | h
        · unfold collectStep at h
          split at h
          · exact Or.inl h
          · have h' := (files_sorted_except_promotion (agg ++ c)).1.mem_iff.1 (List.mem_of_mem_take h)
            rcases List.mem_append.1 h' with h' | h'
            · exact Or.inl h'
            · exact Or.inr (by simp [h'])
        · exact Or.inr (by simp only [List.flatten_cons, List.mem_append]; exact Or.inr h)
    intro f hf
    rcases this [] f hf with h | h
    · simp at h
    · exact h
  · intro f hf
    exact (files_sorted_except_promotion _).1.mem_iff.1 hf

/-! ### DebugScore -/

/-- **turning score debugging on never changes scores or order**: for every document, candidate list, line number and
    scoring mode, the line score, the chunk score and its best line, the file score and the re-scored matches are the
    same with `DebugScore` on and off (the flag only feeds the debug labels). Since the order is computed from the
    scores alone (`sortDesc`, `sortFiles` take scores), the order is unchanged too. -/
theorem debug_neutral (dc : DocCtx) (bm25 : Bool) (ms : List Cand) (ln : Int)
    (atomCount : Nat) (lines : List Fr) (repoRank doc numBounds : Nat) :
    (scoreLine dc bm25 true ms ln).score = (scoreLine dc bm25 false ms ln).score ∧
    (scoreChunk dc bm25 true ms).1.score = (scoreChunk dc bm25 false ms).1.score ∧
    (scoreChunk dc bm25 true ms).2 = (scoreChunk dc bm25 false ms).2 ∧
    (scoreFile true atomCount lines repoRank doc numBounds).score = (scoreFile false atomCount lines repoRank doc numBounds).score ∧
    (scoreFile true atomCount lines repoRank doc numBounds).lines = (scoreFile false atomCount lines repoRank doc numBounds).lines :=
  ⟨scoreLine_debug dc bm25 ms ln, (scoreChunk_debug dc bm25 ms).1, (scoreChunk_debug dc bm25 ms).2,
   (scoreFile_debug atomCount lines repoRank doc numBounds).1, (scoreFile_debug atomCount lines repoRank doc numBounds).2⟩

/-- debug labels appear only with `DebugScore` -/
theorem debug_off_no_labels (dc : DocCtx) (ms : List Cand) (ln : Int) (bm25 : Bool) :
    (scoreLine dc bm25 false ms ln).what = [] := by
  unfold scoreLine
  split
  · rfl
  · unfold scoreLineClassic
    simp only [Bool.false_eq_true, if_false]
    have : ∀ (b : Acc), b.what = [] →
        (ms.foldl (fun (best : Acc) m => let a := candScore dc false m; if Fr.lt best.score a.score then a else best) b).what = [] := by
      induction ms with
      | nil => intro b hb; exact hb
      | cons m ms ih =>
        intro b hb
        simp only [List.foldl_cons]
        apply ih
        split
        · exact candScore_no_labels dc m
        · exact hb
    exact this _ rfl

/-! ### finiteness -/

/-- **all scores are finite**: no division by zero on any path — for every document, every candidate list with finite
    boosts (and finite symbol-kind scores, which are products of literals), every line number, both scoring modes,
    debug on or off: line, chunk, file (classic: any atom count, any finite match scores, a shard with
    `len(boundaries) > 0`) and BM25 file scores (a shard with at least one document) have a positive denominator.
    In particular `k(1−b+bL)+f > 0`, `len > 0` wherever the code divides. -/
theorem scores_finite (dc : DocCtx) (bm25 dbg : Bool) (ms : List Cand) (ln : Int)
    (hk : KindsFin dc) (hw : ∀ m ∈ ms, m.weight.Fin)
    (atomCount : Nat) (lines : List Fr) (repoRank doc numBounds : Nat) (hl : ∀ s ∈ lines, s.Fin) (hb : 0 < numBounds)
    (low : Bool) (total numDocs docBytes : Nat) (hd : 0 < numDocs) :
    (scoreLine dc bm25 dbg ms ln).score.Fin ∧
    (scoreChunk dc bm25 dbg ms).1.score.Fin ∧
    (scoreFile dbg atomCount lines repoRank doc numBounds).score.Fin ∧
    (∀ s ∈ (scoreFile dbg atomCount lines repoRank doc numBounds).lines, s.Fin) ∧
    (scoreFileBM25 dc ms low total numDocs docBytes).Fin :=
  ⟨fin_scoreLine dc bm25 dbg ms ln hk hw, fin_scoreChunk dc bm25 dbg ms hk hw,
   (fin_scoreFile dbg atomCount lines repoRank doc numBounds hl hb).1,
   (fin_scoreFile dbg atomCount lines repoRank doc numBounds hl hb).2,
   fin_scoreFileBM25 dc ms low total numDocs docBytes hd hw⟩

/-- the BM25 denominator is positive for every length ratio `L ≥ 0` and term frequency -/
theorem tfScore_finite (L : Fr) (f : Nat) (hL : L.Fin) (hn : 0 ≤ L.num) : (tfScore bm25k bm25b L f).Fin :=
  fin_tfScore L f hL hn

/-! ### determinism -/

/-- **the same search returns the same scores every time**: every function of the model is a function (Lean), so the only
    source of run-to-run variation left is the order in which Go visits the term-frequency map.  In exact arithmetic that
    order is irrelevant: the BM25 sum over any permutation of the terms equals the sum in sorted order — the variation seen
    on the unchanged tree was float rounding of differently associated sums, and summing in sorted term order (the fix)
    removes it. -/
theorem bm25_sum_order_irrelevant (L : Fr) (tf visited : List (String × Nat)) (h : tf.Perm visited) :
    sumTf L tf = sumTfList L visited :=
  sumTf_eq_any_order L tf visited h

/-- the order of matches and files is a function of the scores: permuting the input of the sort does not change the
    sequence of scores (so "the same order up to ties") -/
theorem order_function_of_scores {α} (key : α → Int) (l l' : List α) (h : l.Perm l') :
    (sortDesc key l).map key = (sortDesc key l').map key := by
  apply sorted_perm_eq
  · exact sortedDesc_pairwise _ (sortDesc_desc key l)
  · exact sortedDesc_pairwise _ (sortDesc_desc key l')
  · exact ((sortDesc_perm key l).trans (h.trans (sortDesc_perm key l').symm)).map key

/-! ### the constants of the model are the constants of the source (generated table, read on every run) -/

def modelConsts : List (String × Int × Nat) := [
  ("scorePartialWordMatch", scorePartialWordMatch.num, scorePartialWordMatch.den),
  ("scoreWordMatch", scoreWordMatch.num, scoreWordMatch.den),
  ("scoreBase", scoreBase.num, scoreBase.den),
  ("scorePartialBase", scorePartialBase.num, scorePartialBase.den),
  ("scoreSymbol", scoreSymbol.num, scoreSymbol.den),
  ("scorePartialSymbol", scorePartialSymbol.num, scorePartialSymbol.den),
  ("scoreKindMatch", 100, 1),   -- enters the model only through the symbol-kind scores handed in by the harness
  ("scoreFactorAtomMatch", scoreFactorAtomMatch.num, scoreFactorAtomMatch.den),
  ("scoreLineOrderFactor", scoreLineOrderFactor.num, scoreLineOrderFactor.den),
  ("scoreRepoRankFactor", scoreRepoRankFactor.num, scoreRepoRankFactor.den),
  ("scoreFileOrderFactor", scoreFileOrderFactor.num, scoreFileOrderFactor.den),
  ("ScoreOffset", scoreOffset.num, scoreOffset.den),
  ("importantTermBoost", importantTermBoost, 1),
  ("lowPriorityFilePenalty", lowPriorityFilePenalty, 1),
  ("(*contentProvider).scoreLineBM25.k", bm25k.num, bm25k.den),
  ("(*contentProvider).scoreLineBM25.b", bm25b.num, bm25b.den),
  ("(*indexData).scoreFileBM25.k", bm25k.num, bm25k.den),
  ("(*indexData).scoreFileBM25.b", bm25b.num, bm25b.den),
  ("SortFiles.boostOffset", boostOffset, 1),
  ("SortFiles.minScoreRatio", minScoreRatioNum, minScoreRatioDen.toNat)]

/-- **generated-table obligation**: the scoring constants, the BM25 parameters and the arguments of the promotion call
    in the source are the ones the model (and therefore every theorem above) uses. -/
theorem consts_match : Gen.c29Consts = modelConsts := by decide

/-! ### non-vacuity -/

def exEnts : List FileEnt := [⟨85, ".go", 0⟩, ⟨100, ".go", 1⟩, ⟨90, ".go", 2⟩, ⟨80, ".md", 3⟩, ⟨10, ".py", 4⟩]
/-- the promotion happens: `.md` (80 ≥ 0.9·85) moves to third place, ahead of the 85 it displaces -/
example : (sortFiles exEnts).map (·.id) = [1, 2, 3, 0, 4] ∧ filesSortedExceptPromotion (sortFiles exEnts) = true := by decide
/-- and it does not when the score is too far off -/
example : (sortFiles [⟨50, ".go", 0⟩, ⟨100, ".go", 1⟩, ⟨80, ".go", 2⟩, ⟨40, ".md", 3⟩]).map (·.id) = [1, 2, 0, 3] := by decide
/-- the collector on the shape behind seeded change C29-c: the first chunk ranks `.md` (84) into third place ahead of
    the `.go` 86; the second chunk brings an 85 — after re-ranking everything it sits behind the 86 -/
example : (collect 10 [[⟨100, ".go", 0⟩, ⟨90, ".go", 1⟩, ⟨86, ".go", 2⟩, ⟨84, ".md", 3⟩], [⟨85, ".go", 4⟩]]).map (·.id) = [0, 1, 3, 2, 4] := by decide
/-- … whereas a merge that trusts the aggregate to be in score order yields 0,1,3,4,2, which the statement rejects -/
example : filesSortedExceptPromotion [⟨100, ".go", 0⟩, ⟨90, ".go", 1⟩, ⟨84, ".md", 3⟩, ⟨85, ".go", 4⟩, ⟨86, ".go", 2⟩] = false := by decide
/-- a high-scoring file in third place is not a "promotion" -/
example : filesSortedExceptPromotion [⟨2, ".go", 0⟩, ⟨2, ".go", 1⟩, ⟨100, ".md", 2⟩, ⟨1, ".go", 3⟩] = false := by decide
/-- the predicate is not trivially true -/
example : filesSortedExceptPromotion [⟨1, ".go", 0⟩, ⟨2, ".go", 1⟩] = false := by decide
example : filesSortedExceptPromotion [⟨9, ".go", 0⟩, ⟨8, ".go", 1⟩, ⟨1, ".go", 2⟩, ⟨7, ".go", 3⟩] = false := by decide
/-- a word match at a base-name start in a file name: 500 + (7000+4000)/2, with a boost of 2 -/
example : (candScore ⟨[], [97, 47, 102, 111, 111, 46, 103, 111], [], [], [], 0⟩ true ⟨true, 2, 3, ⟨2, 1⟩, false, 0, "foo"⟩).score = ⟨24000, 2⟩ ∧
    (candScore ⟨[], [97, 47, 102, 111, 111, 46, 103, 111], [], [], [], 0⟩ true ⟨true, 2, 3, ⟨2, 1⟩, false, 0, "foo"⟩).what = ["WordMatch", "EdgeBase", "boost"] := by
  decide
/-- a non-finite value is representable and detected: dividing by zero gives `den = 0` -/
example : (Fr.div .one .zero).finite = false := by decide

end ZoektModel.C29
