/-
C15 — Directory and archive indexers capture exactly the source files.  Property theorems only.

Statement (properties.jsonl): indexing a directory produces one document per regular file and per symbolic link
(whose content is the link target, never the file it points to) outside ignored directories and ignore-file
patterns, with the file's exact content; indexing a tar, tar.gz or zip archive produces one document per regular
archive member after stripping the requested path prefix.  Indexing never crashes, whatever the directory or
archive contains.
-/
import ZoektModel.C15.Lemmas
namespace ZoektModel.C15
open ZoektModel

/-! ## archives -/

/-- **stripComponents**: the loop drops exactly the first `count` '/'-separated components, and a name with at
    most `count` components becomes empty (for every name and every count, negative counts acting as 0) -/
theorem strip_spec (name : List Char) (count : Int) :
    stripComponents name count = specStrip name count.toNat := by
  simp [stripComponents, stripLoop_spec]

/-- **archive, exactness**: for every member list and strip count, `archive.Index` (as fixed) hands the builder
    exactly one document per regular member whose stripped name is non-empty, in member order, with the member's
    bytes -/
theorem archive_docs_exact (strip : Int) (ms : List Member) :
    index strip ms = .ok (specArchiveDocs strip ms) := by
  simp only [index, indexLoop_spec]
  by_cases h : hasReg ms = true
  · simp [h]
  · have h' : hasReg ms = false := by simpa using h
    have hnil : specArchiveDocs strip ms = [] := by
      rw [specArchiveDocs_eq]
      have : ms.filter (fun m => m.kind = .reg) = [] := by
        rw [List.filter_eq_nil_iff]
        intro x hx
        simp only [hasReg, List.any_eq_false] at h'
        simpa using h' x hx
      simp [this]
    simp [h', hnil]

/-- **archive, totality**: no member list makes the (fixed) archive indexer panic or diverge -/
theorem index_total (strip : Int) (ms : List Member) : (index strip ms).isOkOrErr = true := by
  rw [archive_docs_exact]; rfl

/-- the defect that was fixed: before the fix the indexer panicked exactly on the archives without a regular
    member (empty, directories only, links only) -/
theorem indexOrig_panics_iff (strip : Int) (ms : List Member) :
    indexOrig strip ms = .panic "nil-builder-finish" ↔ (ms.all fun m => m.kind ≠ .reg) = true := by
  simp only [indexOrig, indexLoop_spec]
  by_cases h : hasReg ms = true
  · simp only [h, if_true]
    simp only [hasReg, List.any_eq_true] at h
    obtain ⟨x, hx, hk⟩ := h
    constructor
    · intro hc; cases hc
    · intro hall
      rw [List.all_eq_true] at hall
      have := hall x hx
      simp at this hk
      exact absurd hk this
  · have h' : hasReg ms = false := by simpa using h
    simp only [h']
    constructor
    · intro _
      simp only [hasReg, List.any_eq_false] at h'
      rw [List.all_eq_true]
      intro x hx
      simpa using h' x hx
    · intro _; rfl

/-- the full totality statement was false of the code before the fix -/
theorem indexOrig_total_full_false : ¬ ∀ (strip : Int) (ms : List Member), (indexOrig strip ms).isOkOrErr = true := by
  intro h
  have := h 0 []
  simp [indexOrig, indexLoop, nextFile, Outcome.isOkOrErr] at this

/-- **C15 for archives, as evaluated by the check**: the executable statement holds of the model's outcome -/
theorem C15_checkArchive (strip : Int) (ms : List Member) (render : ADoc → String) :
    ∃ docs, index strip ms = .ok docs ∧
      checkArchive ((specArchiveDocs strip ms).map render) "ok" (docs.map render) = true := by
  refine ⟨_, archive_docs_exact strip ms, ?_⟩
  simp [checkArchive, sameDocs]

/-! ## documents: stored content -/

/-- **content policy**: what `indexArg` + `Builder.Add` store for a walked entry is the entry's exact bytes
    (file content, or link target for a symlink), except in the builder's documented skip classes (too large,
    shorter than a trigram, binary), where a marker document is stored — for every entry whose trigram upper
    bound stays within `TrigramMax` or that is whitelisted as a large file -/
theorem policy_exact_partial (ic : IdxCfg) (e : Entry)
    (hT : e.node.payload.length - 2 ≤ ic.trigramMax ∨ ic.largeOk (displayName ic e.path) = true) :
    (builderAdd ic (toDoc ic e)).stored = specStored ic (displayName ic e.path) e.node.payload := by
  simp only [toDoc]
  by_cases hL : e.node.payload.length > ic.sizeMax ∧ ic.largeOk (displayName ic e.path) = false
  · obtain ⟨h1, h2⟩ := hL
    simp [h1, h2, builderAdd, Doc.stored, specStored]
  · have hnot : ¬ (e.node.payload.length > ic.sizeMax ∧ ¬ ic.largeOk (displayName ic e.path) = true) := by
      simpa using hL
    have hcond : (decide (e.node.payload.length > ic.sizeMax) && !ic.largeOk (displayName ic e.path)) = false := by
      cases hlo : ic.largeOk (displayName ic e.path) <;> simp_all
    simp only [hcond, Bool.false_eq_true, if_false, builderAdd, ne_eq, not_true_eq_false, specStored, hnot, docCheck]
    by_cases h0 : e.node.payload.length = 0
    · simp [h0, Doc.stored]
    · by_cases h3 : e.node.payload.length < 3
      · simp [h0, h3, Doc.stored]
      · by_cases hb : (0 : UInt8) ∈ e.node.payload
        · simp [h0, h3, hb, Doc.stored]
        · have hT' : (e.node.payload.length - 3 + 1 ≤ ic.trigramMax ∨ ic.largeOk (displayName ic e.path) = true) := by
            rcases hT with h | h
            · left; omega
            · right; exact h
          have hT'' : (decide (e.node.payload.length - 3 + 1 ≤ ic.trigramMax) || ic.largeOk (displayName ic e.path)) = true := by
            rcases hT' with h | h <;> simp [h]
          simp [h0, h3, hb, hT'', Doc.stored]
          intro hgt
          rcases hT with h | h
          · omega
          · exact h

/-- **symlinks are never followed**: the document of a symbolic link carries the link target itself (or the
    too-large marker), whatever the link points to — the model's only input for a symlink is its target string -/
theorem symlink_not_followed (ic : IdxCfg) (p : List String) (nm : String) (target : Bytes) :
    (toDoc ic ⟨p, .symlink nm target⟩).content = target ∨ (toDoc ic ⟨p, .symlink nm target⟩).skip = .tooLarge := by
  simp only [toDoc, Node.payload]
  by_cases h : (decide (target.length > ic.sizeMax) && !ic.largeOk (displayName ic p)) = true <;> simp [h]

/-! ## non-vacuity -/

example : stripComponents ['r', '/', 's', '/', 'm'] 1 = ['s', '/', 'm'] := by rw [strip_spec]; decide
example : stripComponents ['a', '/', '/', 'b'] 1 = ['/', 'b'] := by rw [strip_spec]; decide
example : stripComponents ['a'] 1 = [] := by rw [strip_spec]; decide
example : index 1 [⟨.dir, ['t', '/'], []⟩, ⟨.reg, ['t', '/', 'a'], [104, 105]⟩, ⟨.symlink, ['t', '/', 'l'], []⟩,
    ⟨.reg, ['R'], [1]⟩] = .ok [⟨['a'], [104, 105]⟩] := by rw [archive_docs_exact]; decide
example : indexOrig 0 [⟨.dir, ['t', '/'], []⟩] = .panic "nil-builder-finish" :=
  (indexOrig_panics_iff _ _).mpr (by decide)
example : index 0 [⟨.dir, ['t', '/'], []⟩] = .ok [] := by rw [archive_docs_exact]; decide

end ZoektModel.C15
