/-
C15 — Directory and archive indexers capture exactly the source files.  Property theorems only.

Statement (properties.jsonl): indexing a directory produces one document per regular file and per symbolic link
(whose content is the link target, never the file it points to) outside ignored directories and ignore-file
patterns, with the file's exact content; indexing a tar, tar.gz or zip archive produces one document per regular
archive member after stripping the requested path prefix.  Indexing never crashes, whatever the directory or
archive contains.
-/
import ZoektModel.C15.Lemmas
import ZoektModel.C15.WalkLemmas
import ZoektModel.C15.GlobLemmas
import ZoektModel.C15.Nodup
namespace ZoektModel.C15
open ZoektModel

/-! ## archives -/

/-- **stripComponents**: the loop drops exactly the first `count` '/'-separated components, and a name with at
    most `count` components becomes empty (for every name and every count, negative counts acting as 0) -/
theorem strip_spec (name : List Char) (count : Int) :
    stripComponents name count = specStrip name count.toNat := by
  simp [stripComponents, stripLoop_spec]

/-- **archive, exactness**: for every member list whose headers announce the true sizes and every strip count,
    `archive.Index` (as fixed) hands the builder exactly one document per regular member whose stripped name is
    non-empty, in member order, with the member's bytes -/
theorem archive_docs_exact (strip : Int) (ms : List Member) (hh : lies ms = false) :
    index strip ms = .ok (specArchiveDocs strip ms) := by
  simp only [index, indexLoop_spec, hh, Bool.false_eq_true, if_false]
  by_cases h : hasReg ms = true
  · simp [h]
  · have h' : hasReg ms = false := by simpa using h
    have hnil : specArchiveDocs strip ms = [] := by
      rw [specArchiveDocs_eq]
      have : ms.filter (fun m => m.kind = .reg) = [] := by
        rw [List.filter_eq_nil_iff]
        intro x hx
        simp only [hasReg, List.any_eq_false] at h'
        simpa using h' x hx
      simp [this]
    simp [h', hnil]

/-- **archive, lying headers**: when some regular member's header announces another size than the data the archive
    holds (a truncated download, a hostile header — any announced size, huge or negative), indexing returns an
    error; the announced size is never used for anything but the comparison -/
theorem index_lying_err (strip : Int) (ms : List Member) (hl : lies ms = true) :
    index strip ms = .err "read" := by
  simp [index, indexLoop_spec, hl]

/-- **archive, totality**: no member list — whatever sizes its headers announce — makes the (fixed) archive indexer
    panic or diverge -/
theorem index_total (strip : Int) (ms : List Member) : (index strip ms).isOkOrErr = true := by
  by_cases hl : lies ms = true
  · rw [index_lying_err strip ms hl]; rfl
  · rw [archive_docs_exact strip ms (by simpa using hl)]; rfl

/-- the defect that was fixed: before the fix the indexer panicked exactly on the archives without a regular
    member (empty, directories only, links only) -/
theorem indexOrig_panics_iff (strip : Int) (ms : List Member) :
    indexOrig strip ms = .panic "nil-builder-finish" ↔ (ms.all fun m => m.kind ≠ .reg) = true := by
  simp only [indexOrig, indexLoop_spec]
  by_cases h : hasReg ms = true
  · have hne : ¬ (ms.all fun m => decide (m.kind ≠ .reg)) = true := by
      simp only [hasReg, List.any_eq_true] at h
      obtain ⟨x, hx, hk⟩ := h
      intro hall
      rw [List.all_eq_true] at hall
      have := hall x hx
      simp at this hk
      exact absurd hk this
    by_cases hl : lies ms = true
    · simp only [hl, if_true]
      constructor
      · intro hc; cases hc
      · intro hall; exact absurd hall hne
    · have hl' : lies ms = false := by simpa using hl
      simp only [hl', Bool.false_eq_true, if_false, h, if_true]
      constructor
      · intro hc; cases hc
      · intro hall; exact absurd hall hne
  · have h' : hasReg ms = false := by simpa using h
    simp only [h', lies_false_of_no_reg ms h', Bool.false_eq_true, if_false]
    constructor
    · intro _
      simp only [hasReg, List.any_eq_false] at h'
      rw [List.all_eq_true]
      intro x hx
      simpa using h' x hx
    · intro _; trivial

/-- the full totality statement was false of the code before the fix -/
theorem indexOrig_total_full_false : ¬ ∀ (strip : Int) (ms : List Member), (indexOrig strip ms).isOkOrErr = true := by
  intro h
  have := h 0 []
  simp [indexOrig, indexLoop, nextFile, Outcome.isOkOrErr] at this

/-- **C15 for archives, as evaluated by the check**: the executable statement holds of the model's outcome, for
    honest archives (`checkArchive`) and for archives with lying size headers (`checkLyingArchive`) -/
theorem C15_checkArchive (strip : Int) (ms : List Member) (render : ADoc → String) :
    (lies ms = false → ∃ docs, index strip ms = .ok docs ∧
      checkArchive ((specArchiveDocs strip ms).map render) "ok" (docs.map render) = true) ∧
    (lies ms = true → checkLyingArchive (index strip ms).cls = true) := by
  constructor
  · intro hh
    refine ⟨_, archive_docs_exact strip ms hh, ?_⟩
    simp [checkArchive, sameDocs]
  · intro hl
    rw [index_lying_err strip ms hl]
    decide

/-! ## documents: stored content -/

/-- **content policy**: what `indexArg` + `Builder.Add` store for a walked entry is the entry's exact bytes
    (file content, or link target for a symlink), except in the builder's documented skip classes (too large,
    shorter than a trigram, binary), where a marker document is stored — for every entry whose trigram upper
    bound stays within `TrigramMax` or that is whitelisted as a large file -/
theorem policy_exact_partial (ic : IdxCfg) (e : Entry)
    (hT : e.node.payload.length - 2 ≤ ic.trigramMax ∨ ic.largeOk (displayName ic e.path) = true) :
    (builderAdd ic (toDoc ic e)).stored = specStored ic (displayName ic e.path) e.node.payload := by
  simp only [toDoc]
  by_cases hL : e.node.payload.length > ic.sizeMax ∧ ic.largeOk (displayName ic e.path) = false
  · obtain ⟨h1, h2⟩ := hL
    simp [h1, h2, builderAdd, Doc.stored, specStored]
  · have hnot : ¬ (e.node.payload.length > ic.sizeMax ∧ ¬ ic.largeOk (displayName ic e.path) = true) := by
      simpa using hL
    have hcond : (decide (e.node.payload.length > ic.sizeMax) && !ic.largeOk (displayName ic e.path)) = false := by
      cases hlo : ic.largeOk (displayName ic e.path) <;> simp_all
    simp only [hcond, Bool.false_eq_true, if_false, builderAdd, ne_eq, not_true_eq_false, specStored, hnot, docCheck]
    by_cases h0 : e.node.payload.length = 0
    · simp [h0, Doc.stored]
    · by_cases h3 : e.node.payload.length < 3
      · simp [h0, h3, Doc.stored]
      · by_cases hb : (0 : UInt8) ∈ e.node.payload
        · simp [h0, h3, hb, Doc.stored]
        · have hT' : (e.node.payload.length - 3 + 1 ≤ ic.trigramMax ∨ ic.largeOk (displayName ic e.path) = true) := by
            rcases hT with h | h
            · left; omega
            · right; exact h
          have hT'' : (decide (e.node.payload.length - 3 + 1 ≤ ic.trigramMax) || ic.largeOk (displayName ic e.path)) = true := by
            rcases hT' with h | h <;> simp [h]
          simp [h0, h3, hb, hT'', Doc.stored]
          intro hgt
          rcases hT with h | h
          · omega
          · exact h

/-- **symlinks are never followed**: the document of a symbolic link carries the link target itself (or the
    too-large marker), whatever the link points to — the model's only input for a symlink is its target string -/
theorem symlink_not_followed (ic : IdxCfg) (p : List String) (nm : String) (target : Bytes) :
    (toDoc ic ⟨p, .symlink nm target⟩).content = target ∨ (toDoc ic ⟨p, .symlink nm target⟩).skip = .tooLarge := by
  simp only [toDoc, Node.payload]
  by_cases h : (decide (target.length > ic.sizeMax) && !ic.largeOk (displayName ic p)) = true <;> simp [h]

/-! ## directories -/

/-- **directory walk, exactness**: for every tree, every `-ignore_dirs` set and every ignore matcher, the walk
    (`filepath.Walk` driving `fileAggregator.add`, with its `SkipDir` pruning) sends exactly the regular files and
    symbolic links that lie below no ignored directory name and have no path prefix matching the ignore patterns —
    each once, in lexical walk order; nothing for a root that itself carries an ignored name -/
theorem dir_docs_exact (cfg : WalkCfg) (nm : String) (cs : List Node) :
    walk cfg (.dir nm cs) = (expectedEntries cfg (.dir nm cs)).map mkEntry := by
  unfold walk expectedEntries
  rw [walkNode, below_dir]
  simp only [add, Node.isDir, Node.name, Bool.true_and, List.isEmpty_nil, Bool.not_true, Bool.false_and,
    Bool.false_eq_true, if_false]
  by_cases h1 : nm ∈ cfg.ignoreDirs
  · simp [h1]
  · simp [h1, walkKids_spec, wanted, pathOk_eq_okExt]

/-- **one document per file, without duplicates**: in a tree whose directories have distinctly named entries,
    the walked entries have pairwise distinct paths (hence distinct document names) -/
theorem dir_docs_distinct (cfg : WalkCfg) (nm : String) (cs : List Node) (hwf : wfNode (.dir nm cs)) :
    ((walk cfg (.dir nm cs)).map fun e => e.path).Nodup := by
  rw [dir_docs_exact, List.map_map]
  have hfun : ((fun e : Entry => e.path) ∘ mkEntry) = Prod.fst := by funext qn; rfl
  rw [hfun]
  unfold expectedEntries
  split
  · simp
  · exact List.Nodup.sublist ((List.filter_sublist).map Prod.fst) (below_nodup _ [] hwf)

/-- every walked entry lies strictly below the root, so its document name is the slash-relative path -/
theorem expected_paths_nonempty (cfg : WalkCfg) (root : Node) :
    ∀ pn ∈ expectedEntries cfg root, pn.1 ≠ [] := by
  intro pn h
  unfold expectedEntries at h
  split at h
  · simp at h
  · obtain ⟨e, he, heq⟩ := below_prefix root [] pn (List.mem_filter.mp h).1
    rw [heq]; simpa using he

/-- **directory indexing, exactness of the documents**: for every tree whose file contents stay within the
    trigram upper bound, the documents `indexArg` hands to the shard builder — name and stored content — are exactly
    the ones the statement asks for: one per regular file / symlink outside ignored directories and patterns, named
    by its relative path, holding the file's bytes resp. the link target, or the skip marker of its class -/
theorem dir_index_exact_partial (wc : WalkCfg) (ic : IdxCfg) (nm : String) (cs : List Node)
    (hT : ∀ pn ∈ expectedEntries wc (.dir nm cs), pn.2.payload.length - 2 ≤ ic.trigramMax) :
    (indexDir wc ic (.dir nm cs)).map (fun d => (d.name, d.stored)) = specDirDocs wc ic (.dir nm cs) := by
  unfold indexDir specDirDocs
  rw [dir_docs_exact, List.map_map, List.map_map]
  apply List.map_congr_left
  intro pn hpn
  have hne := expected_paths_nonempty wc _ pn hpn
  have hdn : displayName ic pn.1 = relStr pn.1 := by
    unfold displayName
    cases hp : pn.1 with
    | nil => exact absurd hp hne
    | cons a b => simp
  have hpol := policy_exact_partial ic (mkEntry pn) (Or.inl (hT pn hpn))
  simp only [mkEntry] at hpol
  simp only [Function.comp, mkEntry]
  rw [hpol, hdn]
  have hname : (builderAdd ic (toDoc ic ⟨pn.1, pn.2⟩)).name = relStr pn.1 := by
    rw [← hdn]
    unfold builderAdd toDoc
    simp only []
    split <;> (try split) <;> (try split) <;> (try split) <;> rfl
  rw [hname]

/-- **C15 for directories, as evaluated by the check** -/
theorem C15_checkDir_partial (wc : WalkCfg) (ic : IdxCfg) (nm : String) (cs : List Node) (render : String × Stored → String)
    (hT : ∀ pn ∈ expectedEntries wc (.dir nm cs), pn.2.payload.length - 2 ≤ ic.trigramMax) :
    checkDir ((specDirDocs wc ic (.dir nm cs)).map render)
      (((indexDir wc ic (.dir nm cs)).map (fun d => (d.name, d.stored))).map render) = true := by
  rw [dir_index_exact_partial wc ic nm cs hT]
  simp [checkDir, sameDocs]

/-! ## ignore files -/

/-- **a line without glob characters is a prefix pattern** (ignore.go: "a trailing ** is implicit"): for every
    trimmed, non-comment line without `. ] [ * ?` and without leading '/', `ParseIgnoreFile` yields a pattern that
    matches exactly the paths the line is a prefix of -/
theorem ignore_plain_line_is_prefix (l path : List Char)
    (hne : l ≠ []) (htrim : trimSpace l = l) (hhash : l.head? ≠ some '#') (hslash : l.head? ≠ some '/')
    (hplain : ∀ c ∈ l, c ∉ globChars) :
    (parseIgnoreLine l).map (fun p => globMatch p path) = some (l.isPrefixOf path) := by
  have hany : (l.any fun c => globChars.contains c) = false := by
    rw [List.any_eq_false]
    intro c hc
    simpa using hplain c hc
  have hlex : lexGlob (l ++ ['*', '*']) = l.map Tok.lit ++ [.super] := by
    apply lexGlob_plain
    intro c hc
    have := hplain c hc
    simp only [globChars, List.mem_cons, List.not_mem_nil, or_false, not_or] at this
    exact ⟨this.2.2.2.1, this.2.2.2.2⟩
  unfold parseIgnoreLine
  simp only [htrim]
  cases l with
  | nil => exact absurd rfl hne
  | cons c t =>
    have hc1 : c ≠ '#' := by intro e; subst e; simp at hhash
    have hc2 : c ≠ '/' := by intro e; subst e; simp at hslash
    split
    · rename_i heq; cases heq
    · rename_i heq
      simp only [List.cons.injEq] at heq
      exact absurd heq.1 hc1
    · split
      · rename_i heq
        simp only [List.cons.injEq] at heq
        exact absurd heq.1 hc2
      · simp only [hany, Bool.false_eq_true, if_false, Option.map_some, hlex, globMatch_lits_super]

/-- blank lines and comments contribute no pattern -/
theorem ignore_comment_or_blank (l : List Char)
    (h : trimSpace l = [] ∨ (trimSpace l).head? = some '#') : parseIgnoreLine l = none := by
  unfold parseIgnoreLine
  rcases h with h | h
  · simp [h]
  · cases ht : trimSpace l with
    | nil => simp
    | cons c t =>
      rw [ht] at h
      simp only [List.head?_cons, Option.some.injEq] at h
      subst h
      simp

/-! ## non-vacuity -/

example : stripComponents ['r', '/', 's', '/', 'm'] 1 = ['s', '/', 'm'] := by rw [strip_spec]; decide
example : stripComponents ['a', '/', '/', 'b'] 1 = ['/', 'b'] := by rw [strip_spec]; decide
example : stripComponents ['a'] 1 = [] := by rw [strip_spec]; decide
example : index 1 [⟨.dir, ['t', '/'], [], 0⟩, ⟨.reg, ['t', '/', 'a'], [104, 105], 2⟩, ⟨.symlink, ['t', '/', 'l'], [], 0⟩,
    ⟨.reg, ['R'], [1], 1⟩] = .ok [⟨['a'], [104, 105]⟩] := by rw [archive_docs_exact _ _ (by decide)]; decide
/-- a member announcing 2^60 bytes while 2 are there: an error, not a crash -/
example : index 0 [⟨.reg, ['b'], [1, 2], 1152921504606846976⟩] = .err "read" := index_lying_err _ _ (by decide)
example : index 0 [⟨.reg, ['b'], [1, 2], -9223372036854775808⟩] = .err "read" := index_lying_err _ _ (by decide)
example : indexOrig 0 [⟨.dir, ['t', '/'], [], 0⟩] = .panic "nil-builder-finish" :=
  (indexOrig_panics_iff _ _).mpr (by decide)
example : index 0 [⟨.dir, ['t', '/'], [], 0⟩] = .ok [] := by rw [archive_docs_exact _ _ (by decide)]; decide


example : (parseIgnoreLine ['v', 'e']).map (fun p => globMatch p ['v', 'e', '2', '/', 'x']) = some true := by
  rw [ignore_plain_line_is_prefix _ _ (by simp) (by decide) (by simp) (by simp) (by decide)]; decide
example : (parseIgnoreLine ['v', 'e']).map (fun p => globMatch p ['s', '/', 'v', 'e']) = some false := by
  rw [ignore_plain_line_is_prefix _ _ (by simp) (by decide) (by simp) (by simp) (by decide)]; decide

def exTree : Node := .dir "root" [
  .dir ".git" [.file "config" [1, 2, 3]],
  .file "a.txt" [104, 105, 33],
  .symlink "l" [97, 46, 116],
  .dir "src" [.file "gen.go" [120, 121, 122], .file "m.go" [109, 109, 109]],
  .other "fifo"]
def exCfg : WalkCfg := ⟨[".git"], fun p => p == "src/gen.go"⟩

example : (expectedEntries exCfg exTree).map (fun pn => relStr pn.1) = ["a.txt", "l", "src/m.go"] := by decide
example : (walk exCfg exTree).map (fun e => relStr e.path) = ["a.txt", "l", "src/m.go"] := by
  rw [exTree, dir_docs_exact]; decide

example : ((walk exCfg exTree).map fun e => e.path).Nodup := by
  rw [exTree]; exact dir_docs_distinct _ _ _ (by simp [wfNode, wfKids, Node.name])

end ZoektModel.C15
