/-
C13 — Delta builds expose the same per-branch content as full builds.  Property theorems; lemmas in C13/Lemmas.lean.

Statement (properties.jsonl): after any sequence of commits and indexing runs in which some runs are delta builds,
a search restricted to any indexed branch finds, for every file in that branch's head commit, exactly one document
with the head content, and no document for paths absent from the head — the same per-branch view a fresh full
build gives.
-/
import ZoektModel.C13.Lemmas
import ZoektModel.C13.Sharded
namespace ZoektModel.C13

/-- every tree of the repository has distinct paths -/
def RepoWF (r : Repo) : Prop := ∀ b, TreeWF (head r b)

/-- what is assumed of the tree diff -/
def DiffOK (diff : Tree → Tree → List Change) : Prop :=
  ∀ o n, TreeWF o → TreeWF n → ValidDiff o n (diff o n)

/-- invariant of the index directory: for every recorded branch, the branch-restricted view is the tree of the
    recorded commit -/
def Inv (I : Ignore) (idx : Index) : Prop :=
  RepoWF idx.snap ∧ (∀ s ∈ idx.shards, KeysPW s.docs) ∧
  ∀ b ∈ idx.brs, ViewIsHeadIg (head idx.snap b) (I.ig (head idx.snap b)) (idx.cnt b)

theorem repoWF_nil : RepoWF [] := by
  intro b; simp [head, TreeWF]

theorem repoWF_commit (r : Repo) (b : Branch) (t : Tree) (hr : RepoWF r) (ht : TreeWF t) :
    RepoWF ((b, t) :: r) := by
  intro c
  unfold head
  split
  · exact ht
  · exact hr c

theorem inv_empty (I : Ignore) : Inv I Index.empty := by
  refine ⟨repoWF_nil, ?_, ?_⟩ <;> simp [Index.empty]

/-- a normal build establishes the invariant -/
theorem inv_fullBuild (I : Ignore) (r : Repo) (brs : List Branch) (hr : RepoWF r) : Inv I (fullBuild I r brs) := by
  refine ⟨hr, ?_, ?_⟩
  · intro s hs
    simp only [fullBuild, List.mem_singleton] at hs
    subst hs
    exact keys_collect I r brs
  · intro b hb p x
    simp only [fullBuild] at hb
    simp only [fullBuild, Index.cnt, Shard.cnt, List.map_cons, List.map_nil, List.sum_cons, List.sum_nil,
      List.not_mem_nil, if_false, Nat.add_zero]
    rw [cntFiles_eq _ (keys_collect I r brs)]
    have := has_collect I r brs hr b p x
    by_cases h : fblob (head r b) p = some x ∧ I.ig (head r b) p = false <;> simp [this, hb, h]

theorem sum_tombstoned (shards : List Shard) (ch : List Path) (b : Branch) (p : Path) (x : Blob) :
    ((shards.map fun s => (⟨s.docs, s.tombs ++ ch⟩ : Shard)).map fun s => s.cnt b p x).sum =
      if p ∈ ch then 0 else (shards.map fun s => s.cnt b p x).sum := by
  induction shards with
  | nil => simp
  | cons s rest ih =>
    simp only [List.map_cons, List.sum_cons, ih]
    by_cases h : p ∈ ch
    · simp [Shard.cnt, h]
    · simp [Shard.cnt, h]

theorem cnt_deltaBuild (diff : Tree → Tree → List Change) (idx : Index) (r : Repo) (b : Branch) (p : Path)
    (x : Blob) :
    (deltaBuild diff idx r).cnt b p x =
      (if p ∈ (prepareDelta diff idx.snap r idx.brs).2 then 0 else idx.cnt b p x) +
        cntFiles (prepareDelta diff idx.snap r idx.brs).1 b p x := by
  unfold deltaBuild Index.cnt
  simp only [List.map_append, List.sum_append, sum_tombstoned]
  congr 1
  by_cases he : (prepareDelta diff idx.snap r idx.brs).1.isEmpty = true
  · rw [if_pos he]
    have : (prepareDelta diff idx.snap r idx.brs).1 = [] := List.isEmpty_iff.mp he
    simp [this, cntFiles]
  · rw [if_neg he]
    simp [Shard.cnt]

/-- **the delta step**: tombstoning the changed paths in every older shard and stacking the re-collected documents
    turns the view of the recorded commits into the view of the current heads -/
theorem delta_view (diff : Tree → Tree → List Change) (hd : DiffOK diff) (idx : Index) (r : Repo)
    (hsw : RepoWF idx.snap) (hview : ∀ b ∈ idx.brs, ViewIsHead (head idx.snap b) (idx.cnt b))
    (hr : RepoWF r) (b : Branch) (hb : b ∈ idx.brs) :
    ViewIsHead (head r b) ((deltaBuild diff idx r).cnt b) := by
  intro p x
  have hk : KeysPW (prepareDelta diff idx.snap r idx.brs).1 := by
    rw [prepareDelta_eq]; exact keys_prepareLoop _ _ _ _ _ _ keys_nil
  have hH := has_prepareLoop diff idx.snap r idx.brs idx.brs ([], []) b p x
  have hC := changed_prepareLoop diff idx.snap r idx.brs idx.brs ([], []) p
  rw [← prepareDelta_eq] at hH hC
  simp only [List.not_mem_nil, false_or] at hC
  have hH' : Has (prepareDelta diff idx.snap r idx.brs).1 b p x ↔
      (∃ c ∈ diff (head idx.snap b) (head r b), c.path = p ∧ ∃ e, fileSide c.new = some e ∧ e.blob = x)
      ∨ (p ∈ (prepareDelta diff idx.snap r idx.brs).2 ∧ fblob (head r b) p = some x) := by
    rw [hH, hC]
    constructor
    · rintro (h | ⟨_, h⟩ | ⟨h1, _, h2⟩)
      · exact absurd h (has_nil b p x)
      · exact Or.inl h
      · exact Or.inr ⟨h1, h2⟩
    · rintro (h | ⟨h1, h2⟩)
      · exact Or.inr (Or.inl ⟨hb, h⟩)
      · exact Or.inr (Or.inr ⟨h1, hb, h2⟩)
  obtain ⟨hv1, hv2⟩ := hd _ _ (hsw b) (hr b)
  -- a reported insertion/modification carries the new tree's file
  have hnew : (∃ c ∈ diff (head idx.snap b) (head r b), c.path = p ∧ ∃ e, fileSide c.new = some e ∧ e.blob = x) →
      fblob (head r b) p = some x := by
    rintro ⟨c, hc, rfl, e, he, rfl⟩
    have := (hv1 c hc).2
    unfold fblob fget
    rw [← this, he]; rfl
  rw [cnt_deltaBuild, cntFiles_eq _ hk, hview b hb p x]
  by_cases hch : p ∈ (prepareDelta diff idx.snap r idx.brs).2
  · have : Has (prepareDelta diff idx.snap r idx.brs).1 b p x ↔ fblob (head r b) p = some x := by
      rw [hH']
      constructor
      · rintro (h | ⟨_, h⟩)
        · exact hnew h
        · exact h
      · intro h; exact Or.inr ⟨hch, h⟩
    simp only [hch, if_true, this, Nat.zero_add]
  · have hHas : Has (prepareDelta diff idx.snap r idx.brs).1 b p x ↔
        (∃ c ∈ diff (head idx.snap b) (head r b), c.path = p ∧ ∃ e, fileSide c.new = some e ∧ e.blob = x) := by
      rw [hH']; simp [hch]
    -- no reported change of branch `b` at `p` has a file on its old side
    have hnoold : ∀ c ∈ diff (head idx.snap b) (head r b), c.path = p → fileSide c.old = none := by
      intro c hc hp
      cases ho : fileSide c.old with
      | none => rfl
      | some e =>
        exfalso; apply hch; rw [hC]
        exact ⟨b, hb, c, hc, hp, by simp [ho]⟩
    simp only [hch, if_false]
    cases hold : fget (head idx.snap b) p with
    | some e0 =>
      -- the recorded commit has a file at `p`: the path is unchanged in `b`
      have hsame : tget (head idx.snap b) p = tget (head r b) p := by
        apply Classical.byContradiction
        intro hne
        obtain ⟨c, hc, hp⟩ := hv2 p hne
        have h1 := hnoold c hc hp
        rw [(hv1 c hc).1, hp] at h1
        unfold fget at hold
        rw [hold] at h1
        cases h1
      have hfb : fblob (head idx.snap b) p = fblob (head r b) p := by
        unfold fblob fget; rw [hsame]
      have hno : ¬ Has (prepareDelta diff idx.snap r idx.brs).1 b p x := by
        rw [hHas]
        rintro ⟨c, hc, hp, _⟩
        have h1 := hnoold c hc hp
        rw [(hv1 c hc).1, hp] at h1
        unfold fget at hold
        rw [hold] at h1
        cases h1
      rw [hfb]
      simp [hno]
    | none =>
      have hfo : fblob (head idx.snap b) p = none := by unfold fblob; rw [hold]; rfl
      have : Has (prepareDelta diff idx.snap r idx.brs).1 b p x ↔ fblob (head r b) p = some x := by
        rw [hHas]
        constructor
        · exact hnew
        · intro h
          obtain ⟨e, he, hf, hx⟩ := (fblob_eq_some _ _ _).mp h
          have hne : tget (head idx.snap b) p ≠ tget (head r b) p := by
            intro heq
            unfold fget at hold
            rw [heq, he] at hold
            simp [fileSide, hf] at hold
          obtain ⟨c, hc, hp⟩ := hv2 p hne
          refine ⟨c, hc, hp, e, ?_, hx⟩
          rw [(hv1 c hc).2, hp, he]
          simp [fileSide, hf]
      rw [hfo]
      simp [this]

/-- when the ignore file blocks no delta build, neither the recorded nor the current tree of any indexed branch has
    an ignore file -/
theorem no_ignore_file (I : Ignore) (diff : Tree → Tree → List Change) (hd : DiffOK diff) (snap r : Repo)
    (brs : List Branch) (hsw : RepoWF snap) (hr : RepoWF r)
    (hblock : ignoreBlocksDelta I diff snap r brs = false) (b : Branch) (hb : b ∈ brs) :
    fget (head snap b) I.path = none ∧ fget (head r b) I.path = none := by
  unfold ignoreBlocksDelta at hblock
  rw [Bool.or_eq_false_iff] at hblock
  obtain ⟨h1, h2⟩ := hblock
  have h1' := List.any_eq_false.mp h1 b hb
  have h2' := List.any_eq_false.mp h2 b hb
  have hcur : fget (head r b) I.path = none := by
    cases h : fget (head r b) I.path with
    | none => rfl
    | some e => rw [h] at h1'; simp at h1'
  refine ⟨?_, hcur⟩
  cases hold : fget (head snap b) I.path with
  | none => rfl
  | some e =>
    exfalso
    obtain ⟨hv1, hv2⟩ := hd _ _ (hsw b) (hr b)
    have hne : tget (head snap b) I.path ≠ tget (head r b) I.path := by
      intro heq
      unfold fget at hold hcur
      rw [heq, hcur] at hold
      cases hold
    obtain ⟨c, hc, hp⟩ := hv2 _ hne
    have ho : fileSide c.old = some e := by
      rw [(hv1 c hc).1, hp]; exact hold
    apply h2'
    apply List.any_eq_true.mpr
    exact ⟨c, hc, by simp [hp, ho]⟩

/-- a delta build preserves the invariant -/
theorem inv_deltaBuild (I : Ignore) (hI : I.WF) (diff : Tree → Tree → List Change) (hd : DiffOK diff) (idx : Index)
    (r : Repo) (hinv : Inv I idx) (hr : RepoWF r)
    (hblock : ignoreBlocksDelta I diff idx.snap r idx.brs = false) : Inv I (deltaBuild diff idx r) := by
  have hno := no_ignore_file I diff hd idx.snap r idx.brs hinv.1 hr hblock
  have hview : ∀ b ∈ idx.brs, ViewIsHead (head idx.snap b) (idx.cnt b) := by
    intro b hb p x
    rw [hinv.2.2 b hb p x, hI _ p (hno b hb).1]
    simp
  refine ⟨hr, ?_, ?_⟩
  · intro s hs
    simp only [deltaBuild, List.mem_append, List.mem_map] at hs
    rcases hs with ⟨s0, hs0, rfl⟩ | hs
    · exact hinv.2.1 s0 hs0
    · split at hs
      · simp at hs
      · simp only [List.mem_singleton] at hs
        subst hs
        rw [prepareDelta_eq]; exact keys_prepareLoop _ _ _ _ _ _ keys_nil
  · intro b hb p x
    have hb' : b ∈ idx.brs := hb
    have := delta_view diff hd idx r hinv.1 hview hr b hb' p x
    show (deltaBuild diff idx r).cnt b p x = _
    rw [this]
    have hig : I.ig (head r b) p = false := hI _ p (hno b hb').2
    show _ = if fblob (head r b) p = some x ∧ I.ig (head r b) p = false then 1 else 0
    simp [hig]

/-- after a run the index records exactly the requested branches at the current commits -/
theorem indexRun_records (I : Ignore) (diff : Tree → Tree → List Change) (idx : Index) (r : Repo) (d : Bool)
    (thr : Nat) (brs : List Branch) :
    (indexRun I diff idx r d thr brs).brs = brs ∧ (indexRun I diff idx r d thr brs).snap = r := by
  unfold indexRun
  split
  · rename_i h
    simp only [deltaOk, Bool.and_eq_true, beq_iff_eq] at h
    exact ⟨h.1.1.2.2, rfl⟩
  · exact ⟨rfl, rfl⟩

theorem inv_indexRun (I : Ignore) (hI : I.WF) (diff : Tree → Tree → List Change) (hd : DiffOK diff) (idx : Index)
    (r : Repo) (d : Bool) (thr : Nat) (brs : List Branch) (hinv : Inv I idx) (hr : RepoWF r) :
    Inv I (indexRun I diff idx r d thr brs) := by
  unfold indexRun
  split
  · rename_i h
    simp only [Bool.and_eq_true, Bool.not_eq_true'] at h
    exact inv_deltaBuild I hI diff hd idx r hinv hr h.2
  · exact inv_fullBuild I r brs hr

/-- the invariant holds along every history -/
theorem inv_history (I : Ignore) (hI : I.WF) (diff : Tree → Tree → List Change) (hd : DiffOK diff) (evs : List Ev)
    (hwf : ∀ e ∈ evs, EvWF e) (st : Repo × Index) (h : RepoWF st.1 ∧ Inv I st.2) :
    RepoWF (evs.foldl (step I diff) st).1 ∧ Inv I (evs.foldl (step I diff) st).2 := by
  induction evs generalizing st with
  | nil => exact h
  | cons e es ih =>
    rw [List.foldl_cons]
    apply ih (fun e' he' => hwf e' (List.mem_cons_of_mem _ he'))
    obtain ⟨r, idx⟩ := st
    cases e with
    | commit b t =>
      have ht : EvWF (.commit b t) := hwf _ (by simp)
      exact ⟨repoWF_commit r b t h.1 ht, h.2⟩
    | index d thr brs => exact ⟨h.1, inv_indexRun I hI diff hd idx r d thr brs h.2 h.1⟩

/-- **C13** — for every history of commits and indexing runs (normal and delta, in any mix, with any fall-backs),
    right after an indexing run of branches `brs`: for every indexed branch `b`, every path `p` and content `x`,
    a search restricted to `b` sees exactly one document (p, x) if the head commit of `b` has file `x` at `p`
    (and the head's ignore file, if any, does not exclude `p`), and none otherwise (absent path, any other
    content, excluded path). -/
theorem C13_view_eq_head (I : Ignore) (hI : I.WF) (diff : Tree → Tree → List Change) (hd : DiffOK diff)
    (evs : List Ev) (hwf : ∀ e ∈ evs, EvWF e) (d : Bool) (thr : Nat) (brs : List Branch) (b : Branch)
    (hb : b ∈ brs) :
    ViewIsHeadIg (head (runHistory I diff (evs ++ [.index d thr brs])).1 b)
      (I.ig (head (runHistory I diff (evs ++ [.index d thr brs])).1 b))
      ((runHistory I diff (evs ++ [.index d thr brs])).2.cnt b) := by
  unfold runHistory
  rw [List.foldl_append]
  have h := inv_history I hI diff hd evs hwf ([], Index.empty) ⟨repoWF_nil, inv_empty I⟩
  generalize evs.foldl (step I diff) ([], Index.empty) = st at h
  obtain ⟨r, idx⟩ := st
  simp only [List.foldl_cons, List.foldl_nil, step]
  have hi := inv_indexRun I hI diff hd idx r d thr brs h.2 h.1
  obtain ⟨h1, h2⟩ := indexRun_records I diff idx r d thr brs
  have := hi.2.2 b (by rw [h1]; exact hb)
  rw [h2] at this
  exact this

/-- without an ignore file in the head of `b`: exactly the files of the head commit -/
theorem C13_view_eq_head_no_ignore (I : Ignore) (hI : I.WF) (diff : Tree → Tree → List Change) (hd : DiffOK diff)
    (evs : List Ev) (hwf : ∀ e ∈ evs, EvWF e) (d : Bool) (thr : Nat) (brs : List Branch) (b : Branch)
    (hb : b ∈ brs) (hno : fget (head (runHistory I diff (evs ++ [.index d thr brs])).1 b) I.path = none) :
    ViewIsHead (head (runHistory I diff (evs ++ [.index d thr brs])).1 b)
      ((runHistory I diff (evs ++ [.index d thr brs])).2.cnt b) := by
  intro p x
  rw [C13_view_eq_head I hI diff hd evs hwf d thr brs b hb p x, hI _ p hno]
  simp

theorem repoWF_history (I : Ignore) (hI : I.WF) (diff : Tree → Tree → List Change) (hd : DiffOK diff)
    (evs : List Ev) (hwf : ∀ e ∈ evs, EvWF e) (d : Bool) (thr : Nat) (brs : List Branch) :
    RepoWF (runHistory I diff (evs ++ [.index d thr brs])).1 :=
  (inv_history I hI diff hd _ (by
    intro e he
    rcases List.mem_append.mp he with he | he
    · exact hwf e he
    · simp only [List.mem_singleton] at he; subst he; trivial) ([], Index.empty) ⟨repoWF_nil, inv_empty I⟩).1

/-- … which is the per-branch view a fresh full build of the same heads gives -/
theorem C13_same_as_full_build (I : Ignore) (hI : I.WF) (diff : Tree → Tree → List Change) (hd : DiffOK diff)
    (evs : List Ev) (hwf : ∀ e ∈ evs, EvWF e) (d : Bool) (thr : Nat) (brs : List Branch) (b : Branch)
    (hb : b ∈ brs) (p : Path) (x : Blob) :
    (runHistory I diff (evs ++ [.index d thr brs])).2.cnt b p x =
      (fullBuild I (runHistory I diff (evs ++ [.index d thr brs])).1 brs).cnt b p x := by
  rw [C13_view_eq_head I hI diff hd evs hwf d thr brs b hb p x]
  exact ((inv_fullBuild I _ brs (repoWF_history I hI diff hd evs hwf d thr brs)).2.2 b hb p x).symm

/-- the model's own tree diff satisfies the assumption made of go-git's (so the theorems apply to the model the
    harness runs; go-git's diff is compared with it on every generated history) -/
theorem diffTrees_valid : DiffOK diffTrees := by
  intro o n ho hn
  constructor
  · intro c hc
    unfold diffTrees at hc
    rcases List.mem_append.mp hc with hc | hc
    · obtain ⟨e, he, h⟩ := List.mem_filterMap.mp hc
      split at h
      · cases h
      · cases h
        exact ⟨(tget_of_mem o ho e.1 e.2 he).symm, rfl⟩
    · obtain ⟨e, he, h⟩ := List.mem_filterMap.mp hc
      split at h
      · rename_i h0
        cases h
        exact ⟨h0.symm, (tget_of_mem n hn e.1 e.2 he).symm⟩
      · cases h
  · intro p hne
    unfold diffTrees
    cases h : tget o p with
    | some e =>
      refine ⟨⟨p, some e, tget n p⟩, ?_, rfl⟩
      apply List.mem_append_left
      apply List.mem_filterMap.mpr
      refine ⟨(p, e), mem_of_tget o p e h, ?_⟩
      have : ¬ tget n p = some e := by intro h2; exact hne (h.trans h2.symm)
      simp [this]
    | none =>
      cases h2 : tget n p with
      | none => exact absurd (h.trans h2.symm) hne
      | some e =>
        refine ⟨⟨p, none, some e⟩, ?_, rfl⟩
        apply List.mem_append_right
        apply List.mem_filterMap.mpr
        exact ⟨(p, e), mem_of_tget n p e h2, by simp [h]⟩

/-! the executable view and the executable statement -/

theorem shard_view_count (s : Shard) (b : Branch) (p : Path) (x : Blob) :
    (s.view b).count (p, x) = s.cnt b p x := by
  unfold Shard.view Shard.cnt cntFiles
  rw [List.count_eq_countP, List.countP_map, List.countP_filter]
  by_cases h : p ∈ s.tombs
  · rw [if_pos h]
    apply List.countP_eq_zero.mpr
    intro d _
    simp only [Function.comp, Bool.and_eq_true, Bool.not_eq_true', beq_iff_eq, Prod.mk.injEq, not_and]
    rintro ⟨rfl, _⟩
    simp [h]
  · rw [if_neg h]
    apply List.countP_congr
    intro d _
    simp only [Function.comp, Bool.and_eq_true, Bool.not_eq_true', beq_iff_eq, Prod.mk.injEq,
      List.contains_eq_mem, decide_eq_true_eq, decide_eq_false_iff_not]
    constructor
    · rintro ⟨⟨rfl, rfl⟩, _, hb⟩; exact ⟨rfl, rfl, hb⟩
    · rintro ⟨rfl, rfl, hb⟩; exact ⟨⟨rfl, rfl⟩, h, hb⟩

theorem index_view_count (idx : Index) (b : Branch) (p : Path) (x : Blob) :
    (idx.view b).count (p, x) = idx.cnt b p x := by
  unfold Index.view Index.cnt
  induction idx.shards with
  | nil => simp
  | cons s rest ih => simp only [List.flatMap_cons, List.count_append, List.map_cons, List.sum_cons, ih, shard_view_count]

/-- a view whose document counts are those of the head tree passes the executable statement -/
theorem checkView_of_viewIsHead (t : Tree) (ht : TreeWF t) (ign : Path → Bool) (view : List (Path × Blob))
    (h : ViewIsHeadIg t ign fun p x => view.count (p, x)) : checkView t ign view = true := by
  unfold checkView
  simp only [Bool.and_eq_true, List.all_eq_true, Bool.or_eq_true, Bool.not_eq_true', beq_iff_eq]
  constructor
  · intro e he
    by_cases hf : e.2.isFile = true
    · by_cases hi : ign e.1 = true
      · left; right; exact hi
      · right
        have h1 := h e.1 e.2.blob
        simp only at h1
        rw [h1]
        have : fblob t e.1 = some e.2.blob :=
          (fblob_eq_some _ _ _).mpr ⟨e.2, tget_of_mem t ht e.1 e.2 he, hf, rfl⟩
        simp at hi
        simp [this, hi]
    · left; left; simpa using hf
  · intro d hd
    have hpos : 0 < view.count (d.1, d.2) := List.count_pos_iff.mpr hd
    have h1 := h d.1 d.2
    simp only at h1
    rw [h1] at hpos
    by_cases hfb : fblob t d.1 = some d.2 ∧ ign d.1 = false
    · exact hfb
    · simp [hfb] at hpos

/-- **C13 as evaluated by the driver**: after any history ending in an indexing run, the model's
    branch-restricted view passes `checkView` against the head tree -/
theorem C13_checkView (I : Ignore) (hI : I.WF) (evs : List Ev) (hwf : ∀ e ∈ evs, EvWF e) (d : Bool) (thr : Nat)
    (brs : List Branch) (b : Branch) (hb : b ∈ brs) :
    checkView (head (runHistory I diffTrees (evs ++ [.index d thr brs])).1 b)
      (I.ig (head (runHistory I diffTrees (evs ++ [.index d thr brs])).1 b))
      ((runHistory I diffTrees (evs ++ [.index d thr brs])).2.view b) = true := by
  apply checkView_of_viewIsHead _ (repoWF_history I hI diffTrees diffTrees_valid evs hwf d thr brs b)
  intro p x
  show List.count (p, x) _ = _
  rw [index_view_count]
  exact C13_view_eq_head I hI diffTrees diffTrees_valid evs hwf d thr brs b hb p x

/-! ## a delta run without new commits -/

theorem filterMap_eq_nil_of_forall {α β} (f : α → Option β) (l : List α) (h : ∀ a ∈ l, f a = none) :
    l.filterMap f = [] := by
  induction l with
  | nil => rfl
  | cons a r ih =>
    rw [List.filterMap_cons, h a (by simp)]
    exact ih (fun b hb => h b (List.mem_cons_of_mem _ hb))

theorem diffTrees_self (t : Tree) (h : TreeWF t) : diffTrees t t = [] := by
  unfold diffTrees
  rw [filterMap_eq_nil_of_forall, filterMap_eq_nil_of_forall]
  · rfl
  · intro e he
    have := tget_of_mem t h e.1 e.2 he
    simp [this]
  · intro e he
    have := tget_of_mem t h e.1 e.2 he
    simp [this]

theorem prepareDelta_self (r : Repo) (hr : RepoWF r) (brs : List Branch) :
    prepareDelta diffTrees r r brs = ([], []) := by
  unfold prepareDelta
  suffices h : ∀ (bs : List Branch) (st : Files × List Path),
      bs.foldl (fun st b => (diffTrees (head r b) (head r b)).foldl (applyChange r brs b) st) st = st from h brs _
  intro bs
  induction bs with
  | nil => intro st; rfl
  | cons b bs ih =>
    intro st
    rw [List.foldl_cons, diffTrees_self _ (hr b)]
    exact ih st

/-- **a delta run without new commits is a no-op**: it writes no shard and adds no tombstone -/
theorem delta_without_commits_is_noop (idx : Index) (hr : RepoWF idx.snap) :
    deltaBuild diffTrees idx idx.snap = idx := by
  unfold deltaBuild
  rw [prepareDelta_self idx.snap hr idx.brs]
  simp only [List.append_nil, List.isEmpty_nil, if_true]
  cases idx with
  | mk shards brs snap =>
    simp only [Index.mk.injEq, and_true]
    have : (fun s : Shard => (⟨s.docs, s.tombs⟩ : Shard)) = id := by funext s; cases s; rfl
    rw [this, List.map_id]

/-! ## builds that write several shards -/

theorem sum_cnt_split (cuts : List Nat) (m : Files) (b : Branch) (p : Path) (x : Blob) :
    ((splitDocs cuts m).map fun d => (⟨d, []⟩ : Shard).cnt b p x).sum = cntFiles m b p x := by
  induction cuts generalizing m with
  | nil => simp [splitDocs, Shard.cnt]
  | cons n ns ih =>
    unfold splitDocs
    split
    · simp [Shard.cnt]
    · simp only [List.map_cons, List.sum_cons, ih]
      simp only [Shard.cnt, List.not_mem_nil, if_false, cntFiles]
      rw [← List.countP_append, List.take_append_drop]

theorem keys_split (cuts : List Nat) (m : Files) (h : KeysPW m) : ∀ d ∈ splitDocs cuts m, KeysPW d := by
  induction cuts generalizing m with
  | nil => intro d hd; simp [splitDocs] at hd; subst hd; exact h
  | cons n ns ih =>
    intro d hd
    unfold splitDocs at hd
    split at hd
    · simp at hd; subst hd; exact h
    · rcases List.mem_cons.mp hd with rfl | hd
      · exact List.Pairwise.sublist (List.take_sublist _ _) h
      · exact ih _ (List.Pairwise.sublist (List.drop_sublist _ _) h) d hd

theorem cnt_fullBuildS (I : Ignore) (r : Repo) (brs : List Branch) (cuts : List Nat) (b : Branch) (p : Path)
    (x : Blob) : (fullBuildS I r brs cuts).cnt b p x = (fullBuild I r brs).cnt b p x := by
  simp only [fullBuildS, fullBuild, Index.cnt, List.map_map, Function.comp_def]
  rw [sum_cnt_split]
  simp [Shard.cnt]

theorem cnt_deltaBuildS (diff : Tree → Tree → List Change) (idx : Index) (r : Repo) (cuts : List Nat) (b : Branch)
    (p : Path) (x : Blob) : (deltaBuildS diff idx r cuts).cnt b p x = (deltaBuild diff idx r).cnt b p x := by
  simp only [deltaBuildS, deltaBuild, Index.cnt, List.map_append, List.sum_append]
  congr 1
  by_cases he : (prepareDelta diff idx.snap r idx.brs).1.isEmpty = true
  · simp [he]
  · simp only [he, if_false, List.map_map, Function.comp_def, Bool.false_eq_true]
    rw [sum_cnt_split]
    simp [Shard.cnt]

theorem inv_indexRunS (I : Ignore) (hI : I.WF) (diff : Tree → Tree → List Change) (hd : DiffOK diff) (idx : Index)
    (r : Repo) (d : Bool) (thr : Nat) (brs : List Branch) (cuts : List Nat) (hinv : Inv I idx) (hr : RepoWF r) :
    Inv I (indexRunS I diff idx r d thr brs cuts) := by
  unfold indexRunS
  split
  · rename_i h
    simp only [Bool.and_eq_true, Bool.not_eq_true'] at h
    have hi := inv_deltaBuild I hI diff hd idx r hinv hr h.2
    refine ⟨hr, ?_, ?_⟩
    · intro s hs
      simp only [deltaBuildS, List.mem_append, List.mem_map] at hs
      rcases hs with ⟨s0, hs0, rfl⟩ | hs
      · exact hinv.2.1 s0 hs0
      · split at hs
        · simp at hs
        · obtain ⟨d', hd', rfl⟩ := List.mem_map.mp hs
          exact keys_split cuts _ (by rw [prepareDelta_eq]; exact keys_prepareLoop _ _ _ _ _ _ keys_nil) d' hd'
    · intro b hb p x
      show (deltaBuildS diff idx r cuts).cnt b p x = _
      rw [cnt_deltaBuildS]
      exact hi.2.2 b hb p x
  · have hi := inv_fullBuild I r brs hr
    refine ⟨hr, ?_, ?_⟩
    · intro s hs
      simp only [fullBuildS, List.mem_map] at hs
      obtain ⟨d', hd', rfl⟩ := hs
      exact keys_split cuts _ (keys_collect I r brs) d' hd'
    · intro b hb p x
      show (fullBuildS I r brs cuts).cnt b p x = _
      rw [cnt_fullBuildS]
      exact hi.2.2 b hb p x

def EvSWF : EvS → Prop
  | .commit _ t => TreeWF t
  | .index .. => True

theorem inv_historyS (I : Ignore) (hI : I.WF) (diff : Tree → Tree → List Change) (hd : DiffOK diff) (evs : List EvS)
    (hwf : ∀ e ∈ evs, EvSWF e) (st : Repo × Index) (h : RepoWF st.1 ∧ Inv I st.2) :
    RepoWF (evs.foldl (stepS I diff) st).1 ∧ Inv I (evs.foldl (stepS I diff) st).2 := by
  induction evs generalizing st with
  | nil => exact h
  | cons e es ih =>
    rw [List.foldl_cons]
    apply ih (fun e' he' => hwf e' (List.mem_cons_of_mem _ he'))
    obtain ⟨r, idx⟩ := st
    cases e with
    | commit b t =>
      have ht : EvSWF (.commit b t) := hwf _ (by simp)
      exact ⟨repoWF_commit r b t h.1 ht, h.2⟩
    | index d thr brs cuts => exact ⟨h.1, inv_indexRunS I hI diff hd idx r d thr brs cuts h.2 h.1⟩

theorem indexRunS_records (I : Ignore) (diff : Tree → Tree → List Change) (idx : Index) (r : Repo) (d : Bool)
    (thr : Nat) (brs : List Branch) (cuts : List Nat) :
    (indexRunS I diff idx r d thr brs cuts).brs = brs ∧ (indexRunS I diff idx r d thr brs cuts).snap = r := by
  unfold indexRunS
  split
  · rename_i h
    simp only [deltaOk, Bool.and_eq_true, beq_iff_eq] at h
    exact ⟨h.1.1.2.2, rfl⟩
  · exact ⟨rfl, rfl⟩

/-- **C13 with multi-shard builds** — the same statement when every run may cut its documents into any number of
    shards (so the shard-number threshold and tombstone propagation see several shards per build) -/
theorem C13_view_eq_head_sharded (I : Ignore) (hI : I.WF) (diff : Tree → Tree → List Change) (hd : DiffOK diff)
    (evs : List EvS) (hwf : ∀ e ∈ evs, EvSWF e) (d : Bool) (thr : Nat) (brs : List Branch) (cuts : List Nat)
    (b : Branch) (hb : b ∈ brs) :
    ViewIsHeadIg (head (runHistoryS I diff (evs ++ [.index d thr brs cuts])).1 b)
      (I.ig (head (runHistoryS I diff (evs ++ [.index d thr brs cuts])).1 b))
      ((runHistoryS I diff (evs ++ [.index d thr brs cuts])).2.cnt b) := by
  unfold runHistoryS
  rw [List.foldl_append]
  have h := inv_historyS I hI diff hd evs hwf ([], Index.empty) ⟨repoWF_nil, inv_empty I⟩
  generalize evs.foldl (stepS I diff) ([], Index.empty) = st at h
  obtain ⟨r, idx⟩ := st
  simp only [List.foldl_cons, List.foldl_nil, stepS]
  have hi := inv_indexRunS I hI diff hd idx r d thr brs cuts h.2 h.1
  obtain ⟨h1, h2⟩ := indexRunS_records I diff idx r d thr brs cuts
  have := hi.2.2 b (by rw [h1]; exact hb)
  rw [h2] at this
  exact this

/-! non-vacuity: two branches share `a` (blob 1); branch 0 modifies it, deletes `b`, adds `c`; delta build.
    The old shard gets tombstones for paths 10 and 11, branch 1's unchanged copy of path 10 is re-added. -/
instance (t : Tree) : Decidable (TreeWF t) := by unfold TreeWF; infer_instance
instance : (e : Ev) → Decidable (EvWF e)
  | .commit _ t => inferInstanceAs (Decidable (TreeWF t))
  | .index .. => isTrue trivial

def exHistory : List Ev :=
  [.commit 0 [(10, ⟨1, 0⟩), (11, ⟨2, 0⟩)], .commit 1 [(10, ⟨1, 0⟩)],
   .index false 0 [0, 1],
   .commit 0 [(10, ⟨3, 0⟩), (12, ⟨4, 0⟩)],
   .index true 0 [0, 1]]

/-- no ignore file in play (path 999 never occurs) -/
def exNoIgnore : Ignore := ⟨999, fun _ _ => false⟩

/-- ignore file at path 1; its content (blob 7) excludes path 11 -/
def exIgnore : Ignore := ⟨1, fun t p => fblob t 1 == some 7 && p == 11⟩

example : (runHistory exNoIgnore diffTrees exHistory).2.shards =
    [⟨[⟨10, 1, [0, 1]⟩, ⟨11, 2, [0]⟩], [10, 11]⟩,
     ⟨[⟨10, 3, [0, 0]⟩, ⟨10, 1, [1]⟩, ⟨12, 4, [0]⟩], []⟩] := by decide
example : (runHistory exNoIgnore diffTrees exHistory).2.view 0 = [(10, 3), (12, 4)] ∧
    (runHistory exNoIgnore diffTrees exHistory).2.view 1 = [(10, 1)] := by decide
/-- with an ignore file the requested delta run falls back to a normal build, which leaves path 11 out -/
example : (runHistory exIgnore diffTrees
    [.commit 0 [(1, ⟨7, 0⟩), (10, ⟨1, 0⟩)], .index false 0 [0],
     .commit 0 [(1, ⟨7, 0⟩), (10, ⟨1, 0⟩), (11, ⟨2, 0⟩), (12, ⟨3, 0⟩)], .index true 0 [0]]).2.shards =
    [⟨[⟨1, 7, [0]⟩, ⟨10, 1, [0]⟩, ⟨12, 3, [0]⟩], []⟩] := by decide
example : ∀ e ∈ exHistory, EvWF e := by decide

end ZoektModel.C13
