/-
C19 — Shard reloads are safe under concurrent search and converge to disk.  Property theorems only; lemmas in
C19/Lemmas.lean.

Statement (properties.jsonl): while shards are added, replaced and removed under running searches, every search
completes without a crash or data race and returns, for each repository, results from exactly one consistent version
of its shard.  Once the directory stops changing, the loaded shard set equals the newest-format *.zoekt files present
on disk (with their metadata sidecars).
Quantifier: all interleavings of directory changes (create, replace by rename, delete, sidecar update) with searches,
listings and garbage collection of replaced shards.

What is proved here, about the models of C19/Model.lean (the code after the two `fix:` commits):
* the directory watcher's name parser is total (`versionFromPath_total`; it was not: `versionFromPath_full_false`);
* one scan computes exactly the newest supported version of every shard name with the mtimes of shard and sidecar
  (`scan_newest`, `C19_checkScan`), a second scan of an unchanged directory loads and drops nothing (`scan_quiescent`);
  at loader level every scan re-establishes "loaded = newest files of the directory, with their current contents"
  (`scan_resyncs`), hence after any history of directory states the loaded set equals the last one (`scan_converges`);
  also when scans overlap directory changes (stat phase and loads see different states), as soon as one scan runs over
  an unchanging directory (`scan_converges_overlapping`);
* copy-on-write shard set, for every interleaving of replace (key by key, one atomic publish), search begin / end and
  finalizers (`CReach`): a search only ever works on a list that was published after a complete replace, with one
  version per key (`snapshot_consistent`); no searcher that the map, the published list or a running search still
  refers to is ever closed (`no_use_after_close`); only replaced searchers are closed, once (`closed_only_replaced`);
  a replaced searcher that nothing refers to can be closed (`replaced_closable`).
Data races and the run-time's finalizer / munmap behaviour are outside any model (run-time evidence: harness, -race).
-/
import ZoektModel.C19.Converge
import ZoektModel.C19.VfpSpec
import ZoektModel.C19.Overlap
import ZoektModel.C19.CowSpec
namespace ZoektModel.C19
open ZoektModel

/-! ## versionFromPath -/

/-- **total after the fix**: for every byte string `versionFromPath` returns -/
theorem versionFromPath_total (path : Bytes) : ∃ r, versionFromPath true path = .ok r := vfp_fixed_ok path

/-- the statement "versionFromPath never panics" was false of the code before the fix: `x_.zoekt` -/
theorem versionFromPath_full_false : ¬ ∀ path, ∃ r, versionFromPath false path = .ok r := by
  intro h
  obtain ⟨r, hr⟩ := h [120, 95, 46, 122, 111, 101, 107, 116]
  have : versionFromPath false [120, 95, 46, 122, 111, 101, 107, 116] = .panic "slice bounds out of range [und+2:dot]" := by
    decide
  rw [this] at hr
  cases hr

/-- exactly which paths made the unfixed code panic: those whose last `_` is directly followed by `.` -/
theorem versionFromPath_old_panics_iff (path : Bytes) :
    (∃ site, versionFromPath false path = .panic site) ↔
      ∃ und, lastIndexOf 95 path = some und ∧ (path.drop (und + 1)).head? = some 46 := vfp_old_panics_iff path

/-- the fix changes nothing where the old code returned -/
theorem versionFromPath_fix_conservative (path : Bytes) (r : Bytes × Int)
    (h : versionFromPath false path = .ok r) : versionFromPath true path = .ok r := vfp_old_ok_eq path r h

/-- **the executable statement about `versionFromPath` holds of the model**: for every byte string the result is
    `(path, 0)` or the decomposition `<name>_<one byte><integer>.<rest>` with `name` ending at the last `_` -/
theorem C19_checkVfp (path : Bytes) : checkVfp path (versionFromPath true path) = none := checkVfp_model path

/-! ## scan -/

/-- **one scan never fails and computes the newest set**: its new table is, in listing order, exactly the files that
    can be stat'ed whose version is non-negative, supported, and not exceeded by a supported version of the same
    name — each with the mtimes of shard and sidecar. (`supported fv nv 0`: true for the real constants 16, 17.) -/
theorem scan_newest (fv nv : Int) (h0 : supported fv nv 0 = true) (fs : List Ent) (old : Table Stamp) :
    ∃ o, scan true fv nv fs old = .ok o ∧ o.ts = newestSpec fv nv fs ∧
      o.toLoad = loadKeys (newestSpec fv nv fs) old ∧ o.toDrop = dropKeys (newestSpec fv nv fs) old :=
  ⟨_, scan_spec fv nv h0 fs old, rfl, rfl, rfl⟩

theorem sameSet_refl {α} [BEq α] [LawfulBEq α] (l : List α) : sameSet l l = true := by
  simp [sameSet, List.all_eq_true]

/-- **the executable statement holds of the model**: for every listing and every previous table -/
theorem C19_checkScan (fv nv : Int) (h0 : supported fv nv 0 = true) (fs : List Ent) (old : Table Stamp) :
    checkScan fv nv fs old (scan true fv nv fs old) = none := by
  rw [scan_spec fv nv h0 fs old]
  simp [checkScan, sameSet_refl]

/-- **quiescence**: scanning an unchanged directory again (distinct file names, as `Glob` returns them) asks the loader
    for nothing and leaves the table as it is -/
theorem scan_quiescent (fv nv : Int) (h0 : supported fv nv 0 = true) (fs : List Ent) (old : Table Stamp)
    (hnd : (fs.map (·.fn)).Nodup) :
    ∃ o1 o2, scan true fv nv fs old = .ok o1 ∧ scan true fv nv fs o1.ts = .ok o2 ∧
      o2.ts = o1.ts ∧ o2.toLoad = [] ∧ o2.toDrop = [] := by
  refine ⟨_, _, scan_spec fv nv h0 fs old, scan_spec fv nv h0 fs _, rfl, ?_, ?_⟩
  · have hn := (newestSpec_keys_sublist fv nv fs).nodup hnd
    simp only [loadKeys, List.map_eq_nil_iff, List.filter_eq_nil_iff]
    intro kv hkv
    have := get?_self_of_nodup _ hn kv hkv
    simp [this]
  · have hn := (newestSpec_keys_sublist fv nv fs).nodup hnd
    simp only [dropKeys, List.map_eq_nil_iff, List.filter_eq_nil_iff]
    intro kv hkv
    have := get?_self_of_nodup _ hn kv hkv
    simp [this]

/-- **one scan re-establishes "loaded = directory"** (loader level; every load succeeds and reads the version that was
    stat'ed): if the watcher mirrors the previously scanned state `D0` (`Synced`: its table is the newest set of `D0`, the
    loaded searchers carry exactly those files' contents) and between `D0` and `D` mtimes identify versions (`Fresh`:
    same name, same shard and sidecar mtimes ⇒ same content), then after scanning `D` it mirrors `D` -/
theorem scan_resyncs (fv nv : Int) (h0 : supported fv nv 0 = true) (w : WState) (D0 D : Disk)
    (hs : Synced fv nv w D0) (hn0 : NodupFn D0) (hn : NodupFn D) (hf : Fresh D0 D) :
    Synced fv nv (scanStep fv nv w D) D := scanStep_synced fv nv h0 w D0 D hs hn0 hn hf

/-- **convergence to disk**: for every history of scanned directory states (arbitrary creations, replacements,
    deletions, sidecar updates and removals, format-version upgrades and downgrades between them — only distinct file
    names per state and `Fresh` between consecutive states are assumed), starting with nothing loaded: after the last scan
    the watcher's table is the newest set of the last state, and the loaded searchers are exactly its newest files with
    their current contents and sidecars. In particular once the directory stops changing the loaded set equals it. -/
theorem scan_converges (fv nv : Int) (h0 : supported fv nv 0 = true) (ds : List Disk) (hg : GoodHistory [] ds) :
    let w := runScans fv nv ⟨[], []⟩ ds
    let D := ([] :: ds).getLast (by simp)
    w.ts = newestSpec fv nv (Disk.ents D) ∧ ∀ k, w.loaded.get? k = (newestC fv nv D).get? k :=
  runScans_synced fv nv h0 ds ⟨[], []⟩ [] (synced_empty fv nv) (by simp [NodupFn]) hg

/-- **convergence when scans overlap directory changes**: the stat phase of a scan sees state `A`, its loads read a
    later state `B` (any creations, replacements, deletions in between). For every history of such scans in which mtimes
    identify versions (`Stable`: a file stat'ed with the same shard and sidecar mtimes by two consecutive scans did not
    change in between) and the files a scan decides to load still exist when it loads them (`LoadsSucceed`), followed by
    one scan of an unchanging directory `D` — the scan after the directory stops changing — the loaded set is exactly the
    newest files of `D` with their current contents and sidecars. -/
theorem scan_converges_overlapping (fv nv : Int) (h0 : supported fv nv 0 = true) (hs : List (Disk × Disk)) (D : Disk)
    (hg : GoodOverlap fv nv [] [] (hs ++ [(D, D)])) :
    let w := runScans2 fv nv ⟨[], []⟩ (hs ++ [(D, D)])
    w.ts = newestSpec fv nv (Disk.ents D) ∧ ∀ k, w.loaded.get? k = (newestC fv nv D).get? k :=
  overlap_converges fv nv h0 hs D hg

/-- non-vacuity: a scan stats version 10 of a shard, the shard is replaced (11) before it is loaded; the watcher then
    has the old mtime with the new content; the next, undisturbed scan sees the new mtime and reloads -/
example :
    let a : Bytes := [102, 95, 118, 49, 54, 46, 122]
    let A1 : Disk := [⟨⟨a, some 1, none⟩, 10⟩]
    let B1 : Disk := [⟨⟨a, some 2, none⟩, 11⟩]
    GoodOverlap 16 17 [] [] ([(A1, B1)] ++ [(B1, B1)]) ∧
      (runScans2 16 17 ⟨[], []⟩ [(A1, B1)]) = ⟨[(a, (1, none))], [(a, 11)]⟩ ∧
      (runScans2 16 17 ⟨[], []⟩ [(A1, B1), (B1, B1)]) = ⟨[(a, (2, none))], [(a, 11)]⟩ := by
  refine ⟨?_, by decide, by decide⟩
  simp [GoodOverlap, NodupFn, Stable, LoadsSucceed, stampOf]

/-- **the table must keep the stamps taken before the load**: a scan that re-stats what it loaded *after* loading
    (`scanStepRestat`) does not converge — shard `a` (content 10) is opened, then replaced (content 11, new mtime) before
    the re-stat; the table now has the new mtime for the old content, and the following scan of the unchanging
    directory loads nothing: content 10 stays loaded although only 11 is on disk. The same history is fine for the real
    order (`scan_converges_overlapping`; second conjunct). -/
theorem restat_after_load_does_not_converge :
    let a : Bytes := [102, 95, 118, 49, 54, 46, 122]
    let A : Disk := [⟨⟨a, some 1, none⟩, 10⟩]
    let B : Disk := [⟨⟨a, some 2, none⟩, 11⟩]
    (scanStep 16 17 (scanStepRestat 16 17 ⟨[], []⟩ A B) B).loaded = [(a, 10)] ∧
    (scanStep 16 17 (scanStep2 16 17 ⟨[], []⟩ A A) B).loaded = [(a, 11)] := by decide

/-- **`Stable` is needed, and the real watcher has this gap** (known finding `C19-sidecar-aba-during-load`): scan stats
    shard `a` without a sidecar; before the loader opens it a sidecar appears (the loader reads content 11 = shard +
    sidecar); after the load the sidecar is removed again. The directory is then exactly as stat'ed, so the next scan
    reloads nothing and content 11 stays loaded although the directory holds 10. mtimes cannot show an A-B-A that fits
    inside one scan's stat-to-load window. -/
theorem aba_during_load_does_not_converge :
    let a : Bytes := [102, 95, 118, 49, 54, 46, 122]
    let A : Disk := [⟨⟨a, some 1, none⟩, 10⟩]        -- as stat'ed, and again after the load
    let B : Disk := [⟨⟨a, some 1, some 5⟩, 11⟩]      -- at the moment of the load
    ¬ Stable A B A ∧ (scanStep 16 17 (scanStep2 16 17 ⟨[], []⟩ A B) A).loaded = [(a, 11)] := by
  refine ⟨?_, by decide⟩
  intro h
  have := (h ⟨⟨[102, 95, 118, 49, 54, 46, 122], some 1, none⟩, 10⟩ (by simp)
    ⟨⟨[102, 95, 118, 49, 54, 46, 122], some 1, none⟩, 10⟩ (by simp) rfl rfl rfl rfl).2
    ⟨⟨[102, 95, 118, 49, 54, 46, 122], some 1, some 5⟩, 11⟩ (by simp) rfl
  simp at this

/-- the single "latest mtime" the watcher kept before the second fix cannot see a sidecar that is removed while the
    shard is the newer file: different (shard, sidecar) states, same timestamp -/
theorem effTime_forgets_sidecar : ∃ (mt s : Nat), (mt, some s) ≠ ((mt, none) : Stamp) ∧ effTime mt (some s) = effTime mt none :=
  ⟨2, 1, by decide, by decide⟩

/-! ## copy-on-write shard set -/

/-- **one consistent version per key, never a half-applied batch**: in every reachable state the published list and the
    snapshot of every running search is a list that was published after a complete `replace`, and holds at most one
    searcher per key -/
theorem snapshot_consistent (s : CState) (h : CReach s) :
    (s.ranked ∈ s.published ∧ (keysOf s.ranked).Nodup) ∧
    ∀ x ∈ s.searches, x = [] ∨ (x ∈ s.published ∧ (keysOf x).Nodup) := by
  have inv := creach_inv1 h
  refine ⟨⟨inv.pub_ranked, inv.pub_nodup _ inv.pub_ranked⟩, ?_⟩
  intro x hx
  rcases inv.pub_search x hx with h | h
  · exact Or.inl h
  · exact Or.inr ⟨h, inv.pub_nodup _ h⟩

/-- what is published is the map as it is after the *last* key of a batch: `ranked` changes only in `replaceStore` -/
theorem publish_only_complete (s s' : CState) (a : CAct) (hs : cstep s a = some s') (hne : s'.ranked ≠ s.ranked) :
    a = .replaceStore ∧ s.pending = some [] ∧ s'.ranked = s.shards := by
  cases a with
  | replaceStore =>
    simp only [cstep] at hs
    split at hs
    · rename_i hp; simp only [Option.some.injEq] at hs; subst hs; exact ⟨rfl, hp, rfl⟩
    · simp at hs
  | replaceBegin batch =>
    simp only [cstep] at hs
    split at hs
    · simp at hs
    · split at hs <;> (simp only [Option.some.injEq] at hs; subst hs; exact absurd rfl hne)
  | replaceKey =>
    simp only [cstep] at hs
    split at hs
    · simp only [Option.some.injEq] at hs; subst hs; exact absurd rfl hne
    · simp at hs
  | searchBegin => simp only [cstep, Option.some.injEq] at hs; subst hs; exact absurd rfl hne
  | searchEnd i =>
    simp only [cstep] at hs
    split at hs
    · simp only [Option.some.injEq] at hs; subst hs; exact absurd rfl hne
    · simp at hs
  | finalize sid =>
    simp only [cstep] at hs
    split at hs
    · simp only [Option.some.injEq] at hs; subst hs; exact absurd rfl hne
    · simp at hs

/-- **no use after close**: a searcher whose `Close` has run is referred to by nothing — not by the map, not by the
    published list, not by the snapshot of any running search -/
theorem no_use_after_close (s : CState) (h : CReach s) : ∀ c ∈ s.closed, ¬ Reachable s c :=
  (creach_inv2 h).closed_unreach

/-- only searchers that `replace` took out of the map are ever closed, and each at most once -/
theorem closed_only_replaced (s : CState) (h : CReach s) :
    (∀ c ∈ s.closed, c ∈ s.finalizable ∧ c ∉ sidsOf s.shards) := by
  intro c hc
  exact ⟨(creach_inv2 h).closed_fin c hc, fun hm => (creach_inv2 h).closed_unreach c hc (Or.inl hm)⟩

theorem closed_once (s s' : CState) (sid : Nat) (hs : cstep s (.finalize sid) = some s') : sid ∉ s.closed := by
  simp only [cstep] at hs
  split at hs
  · rename_i hg
    simp only [Bool.and_eq_true, List.contains_eq_mem, decide_eq_true_eq, Bool.not_eq_true', decide_eq_false_iff_not] at hg
    exact hg.1.2
  · simp at hs

/-- a replaced searcher that nothing refers to any more can be closed (no leak by construction of the protocol) -/
theorem replaced_closable (s : CState) (sid : Nat) (hf : sid ∈ s.finalizable) (hc : sid ∉ s.closed)
    (hu : ¬ Reachable s sid) : ∃ s', cstep s (.finalize sid) = some s' := by
  have : reachable s sid = false := by
    cases hr : reachable s sid with
    | false => rfl
    | true => exact absurd ((reachable_iff s sid).mp hr) hu
  exact ⟨{ s with closed := sid :: s.closed }, by simp [cstep, hf, hc, this]⟩

/-- **the executable statement about the shard set holds of the model**: for every sequence of client operations
    (replace batches, search begin / end, finalizer runs) that the model can perform, `checkCow` accepts what the model
    observes -/
theorem C19_checkCow (ops : List COp) (obs : List CObs) (h : cowObs CState.init ops = some obs) :
    checkCow {} obs = none :=
  checkCow_model ops CState.init {} obs CReach.init ⟨rfl, rfl, rfl, rfl, by simp [CState.init], rfl⟩ h

/-- **publication in chunks loses nothing**: `loader.load` hands the shards it has loaded so far to `replace` whenever
    5 s have passed and the rest at the end. Replacing with chunk `b1` and then with chunk `b2` gives the same map as
    replacing with `b1 ++ b2` at once — provided every loaded shard is in exactly one chunk, which is what the loader's
    "store into the *current* batch, under the mutex" guarantees (a shard stored into an already published batch is in
    no chunk: lost; the harness's slow-load scenario checks the real loader for that). -/
theorem chunked_publication (m : List (Nat × Nat)) (b1 b2 : List (Nat × Bool)) (n : Nat) :
    expectedAfter (expectedAfter m (assignIds b1 n).1) (assignIds b2 (assignIds b1 n).2).1 =
      expectedAfter m (assignIds (b1 ++ b2) n).1 := by
  rw [assignIds_append, expectedAfter_append]

/-! ## non-vacuity -/

/-- `foo_v16.00000.zoekt` ↦ (`foo`, 16) -/
example : versionFromPath true [102, 111, 111, 95, 118, 49, 54, 46, 48, 48, 48, 48, 48, 46, 122, 111, 101, 107, 116]
    = .ok ([102, 111, 111], 16) := by decide

def loadOf : Outcome ScanOut → Option (List Bytes)
  | .ok r => some r.toLoad
  | _ => none

/-- a scan that loads, a second scan that does nothing, a removed sidecar that is noticed -/
example :
    let f : Bytes := [102, 95, 118, 49, 54, 46, 122]   -- "f_v16.z"
    loadOf (scan true 16 17 [⟨f, some 5, some 3⟩] []) = some [f] ∧
    loadOf (scan true 16 17 [⟨f, some 5, some 3⟩] [(f, (5, some 3))]) = some [] ∧
    loadOf (scan true 16 17 [⟨f, some 5, none⟩] [(f, (5, some 3))]) = some [f] := by decide

/-- a history satisfying `GoodHistory`: a shard appears (content 10), gets a sidecar and new content (11), a newer
    format version appears next to it (12), the sidecar of the old one is removed; after the scans only the v17 file is
    loaded, with content 12 -/
example :
    let a : Bytes := [102, 95, 118, 49, 54, 46, 122]   -- "f_v16.z"
    let b : Bytes := [102, 95, 118, 49, 55, 46, 122]   -- "f_v17.z"
    let ds : List Disk := [[⟨⟨a, some 1, none⟩, 10⟩], [⟨⟨a, some 2, some 3⟩, 11⟩],
      [⟨⟨a, some 2, some 3⟩, 11⟩, ⟨⟨b, some 4, none⟩, 12⟩], [⟨⟨a, some 2, none⟩, 11⟩, ⟨⟨b, some 4, none⟩, 12⟩]]
    GoodHistory [] ds ∧ (runScans 16 17 ⟨[], []⟩ ds).loaded = [(b, 12)] ∧
      (runScans 16 17 ⟨[], []⟩ (ds.take 2)).loaded = [(a, 11)] := by
  refine ⟨?_, by decide, by decide⟩
  simp [GoodHistory, NodupFn, Fresh, stampOf]

/-- the executable statements are discriminating: a panic, a newest file that was not put in the table, a changed
    sidecar that was not reloaded, a shard closed while a search still holds it, a half-applied batch are all rejected -/
example :
    let f : Bytes := [102, 95, 118, 49, 54, 46, 122]
    checkVfp f (.panic "") = some "vfp-panic" ∧
    checkScan 16 17 [⟨f, some 5, none⟩] [] (.ok ⟨[], [], []⟩) = some "scan-not-newest" ∧
    checkScan 16 17 [⟨f, some 5, none⟩] [(f, (5, some 3))] (.ok ⟨[(f, (5, none))], [], []⟩) = some "scan-load-set" ∧
    checkCow {} [.replaced [(7, true)] [(7, 0)], .began [(7, 0)], .replaced [(7, true)] [(7, 1)], .closed [0]]
      = some "closed-while-referenced" ∧
    checkCow {} [.replaced [(1, true), (2, true)] [(1, 0)]] = some "replace-wrong-set" ∧
    checkCow {} [.replaced [(7, true)] [(7, 0)], .began [(7, 0)], .replaced [(7, true)] [(7, 1)], .ended 0, .closed [0]] = none := by
  decide

/-- replace under a running search: the search keeps version 0 of key 7, the published list has version 1, version 0
    cannot be finalized until the search ends, and can afterwards -/
example :
    (crun CState.init [.replaceBegin [(7, true)], .replaceKey, .replaceStore, .searchBegin,
        .replaceBegin [(7, true)], .replaceKey, .replaceStore]).map (fun s => (s.ranked, s.searches, s.finalizable))
      = some ([(7, 1)], [[(7, 0)]], [0]) ∧
    (crun CState.init [.replaceBegin [(7, true)], .replaceKey, .replaceStore, .searchBegin,
        .replaceBegin [(7, true)], .replaceKey, .replaceStore, .finalize 0]) = none ∧
    (crun CState.init [.replaceBegin [(7, true)], .replaceKey, .replaceStore, .searchBegin,
        .replaceBegin [(7, true)], .replaceKey, .replaceStore, .searchEnd 0, .finalize 0]).map (·.closed) = some [0] := by
  decide

end ZoektModel.C19
