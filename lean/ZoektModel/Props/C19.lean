/-
C19 — Shard reloads are safe under concurrent search and converge to disk.  Property theorems only; lemmas in
C19/Lemmas.lean.

Statement (properties.jsonl): while shards are added, replaced and removed under running searches, every search
completes without a crash or data race and returns, for each repository, results from exactly one consistent version
of its shard.  Once the directory stops changing, the loaded shard set equals the newest-format *.zoekt files present
on disk (with their metadata sidecars).
Quantifier: all interleavings of directory changes (create, replace by rename, delete, sidecar update) with searches,
listings and garbage collection of replaced shards.

What is proved here, about the models of C19/Model.lean (the code after the two `fix:` commits):
* the directory watcher's name parser is total (`versionFromPath_total`; it was not: `versionFromPath_full_false`);
* one scan computes exactly the newest supported version of every shard name with the mtimes of shard and sidecar
  (`scan_newest`, `C19_checkScan`), a second scan of an unchanged directory loads and drops nothing (`scan_quiescent`);
* copy-on-write shard set, for every interleaving of replace (key by key, one atomic publish), search begin / end and
  finalizers (`CReach`): a search only ever works on a list that was published after a complete replace, with one
  version per key (`snapshot_consistent`); no searcher that the map, the published list or a running search still
  refers to is ever closed (`no_use_after_close`); only replaced searchers are closed, once (`closed_only_replaced`);
  a replaced searcher that nothing refers to can be closed (`replaced_closable`).
Data races and the run-time's finalizer / munmap behaviour are outside any model (run-time evidence: harness, -race).
-/
import ZoektModel.C19.Lemmas
namespace ZoektModel.C19
open ZoektModel

/-! ## versionFromPath -/

/-- **total after the fix**: for every byte string `versionFromPath` returns -/
theorem versionFromPath_total (path : Bytes) : ∃ r, versionFromPath true path = .ok r := vfp_fixed_ok path

/-- the statement "versionFromPath never panics" was false of the code before the fix: `x_.zoekt` -/
theorem versionFromPath_full_false : ¬ ∀ path, ∃ r, versionFromPath false path = .ok r := by
  intro h
  obtain ⟨r, hr⟩ := h [120, 95, 46, 122, 111, 101, 107, 116]
  have : versionFromPath false [120, 95, 46, 122, 111, 101, 107, 116] = .panic "slice bounds out of range [und+2:dot]" := by
    decide
  rw [this] at hr
  cases hr

/-- the fix changes nothing where the old code returned -/
theorem versionFromPath_fix_conservative (path : Bytes) (r : Bytes × Int)
    (h : versionFromPath false path = .ok r) : versionFromPath true path = .ok r := vfp_old_ok_eq path r h

/-! ## scan -/

/-- **one scan never fails and computes the newest set**: its new table is, in listing order, exactly the files that
    can be stat'ed whose version is non-negative, supported, and not exceeded by a supported version of the same
    name — each with the mtimes of shard and sidecar. (`supported fv nv 0`: true for the real constants 16, 17.) -/
theorem scan_newest (fv nv : Int) (h0 : supported fv nv 0 = true) (fs : List Ent) (old : Table Stamp) :
    ∃ o, scan true fv nv fs old = .ok o ∧ o.ts = newestSpec fv nv fs ∧
      o.toLoad = ((newestSpec fv nv fs).filter fun (k, st) => old.get? k != some st).map (·.1) ∧
      o.toDrop = (old.filter fun (k, _) => ((newestSpec fv nv fs).get? k).isNone).map (·.1) :=
  ⟨_, scan_spec fv nv h0 fs old, rfl, rfl, rfl⟩

theorem sameSet_refl {α} [BEq α] [LawfulBEq α] (l : List α) : sameSet l l = true := by
  simp [sameSet, List.all_eq_true]

/-- **the executable statement holds of the model**: for every listing and every previous table -/
theorem C19_checkScan (fv nv : Int) (h0 : supported fv nv 0 = true) (fs : List Ent) (old : Table Stamp) :
    checkScan fv nv fs old (scan true fv nv fs old) = none := by
  rw [scan_spec fv nv h0 fs old]
  simp [checkScan, sameSet_refl]

/-- a key of a table built by `filterMap` over distinct file names finds its own entry -/
theorem get?_self_of_nodup {β} : ∀ (t : Table β), (t.map (·.1)).Nodup → ∀ kv ∈ t, t.get? kv.1 = some kv.2 := by
  intro t
  induction t with
  | nil => intro _ kv h; simp at h
  | cons a r ih =>
    intro hn kv hkv
    simp only [List.map_cons, List.nodup_cons] at hn
    rcases List.mem_cons.mp hkv with rfl | hmem
    · simp [Table.get?]
    · have hne : (a.1 == kv.1) = false := by
        have : a.1 ≠ kv.1 := fun h => hn.1 (h ▸ List.mem_map.mpr ⟨kv, hmem, rfl⟩)
        simpa using this
      have := ih hn.2 kv hmem
      simp only [Table.get?] at this ⊢
      simp [List.find?_cons, hne, this]

theorem newestSpec_keys_sublist (fv nv : Int) (fs : List Ent) :
    ((newestSpec fv nv fs).map (·.1)).Sublist (fs.map (·.fn)) := by
  rw [newestSpec_eq]
  unfold newestOn
  generalize fs = L at *
  suffices ∀ l : List Ent, ((l.filterMap fun e => match e.mtime with
      | none => none
      | some mt => if isNewest fv nv L e then some (e.fn, (mt, e.side)) else none).map (·.1)).Sublist (l.map (·.fn)) from
    this L
  intro l
  induction l with
  | nil => simp
  | cons e t ih =>
    simp only [List.filterMap_cons, List.map_cons]
    split
    · exact List.Sublist.cons _ ih
    · rename_i b hb
      have hfn : b.1 = e.fn := by
        cases hm : e.mtime with
        | none => simp [hm] at hb
        | some mt =>
          simp only [hm] at hb
          split at hb
          · simp only [Option.some.injEq] at hb; rw [← hb]
          · simp at hb
      simp only [List.map_cons, hfn]
      exact ih.cons₂ _

/-- **quiescence**: scanning an unchanged directory again (distinct file names, as `Glob` returns them) asks the loader
    for nothing and leaves the table as it is -/
theorem scan_quiescent (fv nv : Int) (h0 : supported fv nv 0 = true) (fs : List Ent) (old : Table Stamp)
    (hnd : (fs.map (·.fn)).Nodup) :
    ∃ o1 o2, scan true fv nv fs old = .ok o1 ∧ scan true fv nv fs o1.ts = .ok o2 ∧
      o2.ts = o1.ts ∧ o2.toLoad = [] ∧ o2.toDrop = [] := by
  refine ⟨_, _, scan_spec fv nv h0 fs old, scan_spec fv nv h0 fs _, rfl, ?_, ?_⟩
  · have hn := (newestSpec_keys_sublist fv nv fs).nodup hnd
    simp only [List.map_eq_nil_iff, List.filter_eq_nil_iff]
    intro kv hkv
    have := get?_self_of_nodup _ hn kv hkv
    simp [this]
  · have hn := (newestSpec_keys_sublist fv nv fs).nodup hnd
    simp only [List.map_eq_nil_iff, List.filter_eq_nil_iff]
    intro kv hkv
    have := get?_self_of_nodup _ hn kv hkv
    simp [this]

/-- the single "latest mtime" the watcher kept before the second fix cannot see a sidecar that is removed while the
    shard is the newer file: different (shard, sidecar) states, same timestamp -/
theorem effTime_forgets_sidecar : ∃ (mt s : Nat), (mt, some s) ≠ ((mt, none) : Stamp) ∧ effTime mt (some s) = effTime mt none :=
  ⟨2, 1, by decide, by decide⟩

/-! ## copy-on-write shard set -/

/-- **one consistent version per key, never a half-applied batch**: in every reachable state the published list and the
    snapshot of every running search is a list that was published after a complete `replace`, and holds at most one
    searcher per key -/
theorem snapshot_consistent (s : CState) (h : CReach s) :
    (s.ranked ∈ s.published ∧ (keysOf s.ranked).Nodup) ∧
    ∀ x ∈ s.searches, x = [] ∨ (x ∈ s.published ∧ (keysOf x).Nodup) := by
  have inv := creach_inv1 h
  refine ⟨⟨inv.pub_ranked, inv.pub_nodup _ inv.pub_ranked⟩, ?_⟩
  intro x hx
  rcases inv.pub_search x hx with h | h
  · exact Or.inl h
  · exact Or.inr ⟨h, inv.pub_nodup _ h⟩

/-- what is published is the map as it is after the *last* key of a batch: `ranked` changes only in `replaceStore` -/
theorem publish_only_complete (s s' : CState) (a : CAct) (hs : cstep s a = some s') (hne : s'.ranked ≠ s.ranked) :
    a = .replaceStore ∧ s.pending = some [] ∧ s'.ranked = s.shards := by
  cases a with
  | replaceStore =>
    simp only [cstep] at hs
    split at hs
    · rename_i hp; simp only [Option.some.injEq] at hs; subst hs; exact ⟨rfl, hp, rfl⟩
    · simp at hs
  | replaceBegin batch =>
    simp only [cstep] at hs
    split at hs
    · simp at hs
    · split at hs <;> (simp only [Option.some.injEq] at hs; subst hs; exact absurd rfl hne)
  | replaceKey =>
    simp only [cstep] at hs
    split at hs
    · simp only [Option.some.injEq] at hs; subst hs; exact absurd rfl hne
    · simp at hs
  | searchBegin => simp only [cstep, Option.some.injEq] at hs; subst hs; exact absurd rfl hne
  | searchEnd i =>
    simp only [cstep] at hs
    split at hs
    · simp only [Option.some.injEq] at hs; subst hs; exact absurd rfl hne
    · simp at hs
  | finalize sid =>
    simp only [cstep] at hs
    split at hs
    · simp only [Option.some.injEq] at hs; subst hs; exact absurd rfl hne
    · simp at hs

/-- **no use after close**: a searcher whose `Close` has run is referred to by nothing — not by the map, not by the
    published list, not by the snapshot of any running search -/
theorem no_use_after_close (s : CState) (h : CReach s) : ∀ c ∈ s.closed, ¬ Reachable s c :=
  (creach_inv2 h).closed_unreach

/-- only searchers that `replace` took out of the map are ever closed, and each at most once -/
theorem closed_only_replaced (s : CState) (h : CReach s) :
    (∀ c ∈ s.closed, c ∈ s.finalizable ∧ c ∉ sidsOf s.shards) := by
  intro c hc
  exact ⟨(creach_inv2 h).closed_fin c hc, fun hm => (creach_inv2 h).closed_unreach c hc (Or.inl hm)⟩

theorem closed_once (s s' : CState) (sid : Nat) (hs : cstep s (.finalize sid) = some s') : sid ∉ s.closed := by
  simp only [cstep] at hs
  split at hs
  · rename_i hg
    simp only [Bool.and_eq_true, List.contains_eq_mem, decide_eq_true_eq, Bool.not_eq_true', decide_eq_false_iff_not] at hg
    exact hg.1.2
  · simp at hs

/-- a replaced searcher that nothing refers to any more can be closed (no leak by construction of the protocol) -/
theorem replaced_closable (s : CState) (sid : Nat) (hf : sid ∈ s.finalizable) (hc : sid ∉ s.closed)
    (hu : ¬ Reachable s sid) : ∃ s', cstep s (.finalize sid) = some s' := by
  have : reachable s sid = false := by
    cases hr : reachable s sid with
    | false => rfl
    | true => exact absurd ((reachable_iff s sid).mp hr) hu
  exact ⟨{ s with closed := sid :: s.closed }, by simp [cstep, hf, hc, this]⟩

/-! ## non-vacuity -/

/-- `foo_v16.00000.zoekt` ↦ (`foo`, 16) -/
example : versionFromPath true [102, 111, 111, 95, 118, 49, 54, 46, 48, 48, 48, 48, 48, 46, 122, 111, 101, 107, 116]
    = .ok ([102, 111, 111], 16) := by decide

def loadOf : Outcome ScanOut → Option (List Bytes)
  | .ok r => some r.toLoad
  | _ => none

/-- a scan that loads, a second scan that does nothing, a removed sidecar that is noticed -/
example :
    let f : Bytes := [102, 95, 118, 49, 54, 46, 122]   -- "f_v16.z"
    loadOf (scan true 16 17 [⟨f, some 5, some 3⟩] []) = some [f] ∧
    loadOf (scan true 16 17 [⟨f, some 5, some 3⟩] [(f, (5, some 3))]) = some [] ∧
    loadOf (scan true 16 17 [⟨f, some 5, none⟩] [(f, (5, some 3))]) = some [f] := by decide

/-- replace under a running search: the search keeps version 0 of key 7, the published list has version 1, version 0
    cannot be finalized until the search ends, and can afterwards -/
example :
    (crun CState.init [.replaceBegin [(7, true)], .replaceKey, .replaceStore, .searchBegin,
        .replaceBegin [(7, true)], .replaceKey, .replaceStore]).map (fun s => (s.ranked, s.searches, s.finalizable))
      = some ([(7, 1)], [[(7, 0)]], [0]) ∧
    (crun CState.init [.replaceBegin [(7, true)], .replaceKey, .replaceStore, .searchBegin,
        .replaceBegin [(7, true)], .replaceKey, .replaceStore, .finalize 0]) = none ∧
    (crun CState.init [.replaceBegin [(7, true)], .replaceKey, .replaceStore, .searchBegin,
        .replaceBegin [(7, true)], .replaceKey, .replaceStore, .searchEnd 0, .finalize 0]).map (·.closed) = some [0] := by
  decide

end ZoektModel.C19
