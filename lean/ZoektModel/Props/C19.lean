import ZoektModel.C19.Lemmas
namespace ZoektModel.C19
open ZoektModel

/-- the code before the fix panics on `x_.zoekt` -/
theorem versionFromPath_full_false : ¬ ∀ path, ∃ r, versionFromPath false path = .ok r := by
  intro h
  obtain ⟨r, hr⟩ := h [120, 95, 46, 122, 111, 101, 107, 116]
  revert hr
  decide

end ZoektModel.C19
