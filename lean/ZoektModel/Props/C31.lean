import ZoektModel.C31.Spec
namespace ZoektModel.C31

theorem init_quiescent (n : Nat) : (init n).readers = 0 ∧ (init n).writer = false ∧ (init n).running = [] := by
  simp [init]

end ZoektModel.C31
