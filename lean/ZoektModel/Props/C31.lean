/-
C31 — Index directory operations are mutually exclusive.

Statement: two indexing operations for the same repository never run at the same time, a global operation on
the index directory never runs while any other operation runs, and an operation skipped because its repository
is busy is reported as skipped.  Quantifier: all interleavings of repository-scoped and global operations from
any number of goroutines.

The theorems are about `Reach` / `Exec` of C31/Model.lean: every state reachable by any interleaving of the atomic
actions of `With` and `Global`, for any number of goroutines each performing any sequence of operations.
-/
import ZoektModel.C31.Trace
import ZoektModel.Generated.C31LockSites
namespace ZoektModel.C31

/-- the invariant (readers = goroutines between RLock and RUnlock; at most one goroutine between Lock and Unlock and then no
    reader; `running` = exactly the names of goroutines between check-and-set and delete, each at most once) holds in every
    reachable state: any number of goroutines, any interleaving -/
theorem reachable_invariant {s : State} (h : Reach s) : Inv s := inv_reach h

/-- **C31, clause 1**: two operations for the same repository never run `f` at the same time -/
theorem no_same_repo_overlap {s : State} (h : Reach s) (i j n : Nat) (hi : i < s.gs.length) (hj : j < s.gs.length)
    (pi : pcAt s i = .wIn n) (pj : pcAt s j = .wIn n) : i = j := by
  have inv := inv_reach h
  have hle : cnt (busy n) s.gs ≤ 1 := by rw [inv.running n]; exact b2n_le _
  exact cnt_le_one_unique (busy n) s.gs hle i j hi hj
    (by rw [show at_ s.gs i = .wIn n from pi]; simp [busy]) (by rw [show at_ s.gs j = .wIn n from pj]; simp [busy])

/-- **C31, clause 2**: while a global operation runs `f`, no other operation of any kind runs `f` -/
theorem global_exclusive {s : State} (h : Reach s) (i j : Nat) (hi : i < s.gs.length) (hj : j < s.gs.length)
    (pi : pcAt s i = .gIn) (hij : i ≠ j) : pcAt s j ≠ .gIn ∧ ∀ n, pcAt s j ≠ .wIn n := by
  have inv := inv_reach h
  have hpos := cnt_pos_of_mem writeHeld s.gs i hi (by rw [show at_ s.gs i = .gIn from pi]; rfl)
  have hw : s.writer = true := by
    cases hw : s.writer
    · have := inv.writer; rw [hw] at this; simp at this; omega
    · rfl
  refine ⟨?_, ?_⟩
  · intro pj
    have hle : cnt writeHeld s.gs ≤ 1 := by rw [inv.writer]; exact b2n_le _
    exact hij (cnt_le_one_unique writeHeld s.gs hle i j hi hj
      (by rw [show at_ s.gs i = .gIn from pi]; rfl) (by rw [show at_ s.gs j = .gIn from pj]; rfl))
  · intro n pj
    have := cnt_pos_of_mem readHeld s.gs j hj (by rw [show at_ s.gs j = .wIn n from pj]; rfl)
    have := inv.excl hw
    have := inv.readers
    omega

/-- **C31, clause 3** (state level): the check-and-set of `With` decides to skip exactly when another goroutine
    has the repository marked running (it is about to run, running, or has just run `f` for the same name) -/
theorem skip_iff_busy {s s' : State} (h : Reach s) (g n : Nat) (hg : g < s.gs.length) (hp : pcAt s g = .wLocked n)
    (hs : hidden s g = some s') :
    (pcAt s' g = .wSkip n ∨ pcAt s' g = .wRun n) ∧
    (pcAt s' g = .wSkip n ↔ ∃ j, j < s.gs.length ∧ j ≠ g ∧ busy n (pcAt s j) = true) := by
  have inv := inv_reach h
  have hnb : busy n (at_ s.gs g) = false := by rw [show at_ s.gs g = .wLocked n from hp]; rfl
  simp only [hidden, hg, if_true, hp] at hs
  by_cases hc : s.running.contains n = true
  · rw [if_pos hc] at hs
    injection hs with hs; subst hs
    have hpc : pcAt (setPc s g (.wSkip n)) g = .wSkip n := by simp [pcAt, setPc, hg]
    refine ⟨Or.inl hpc, fun _ => ?_, fun _ => hpc⟩
    -- some goroutine is busy with n, and it is not g
    have h1 : cnt (busy n) s.gs = 1 := by rw [inv.running n, hc]; rfl
    by_cases hex : ∃ j, j < s.gs.length ∧ busy n (at_ s.gs j) = true
    · obtain ⟨j, hj, hb⟩ := hex
      refine ⟨j, hj, ?_, hb⟩
      intro e; subst e; rw [hnb] at hb; cases hb
    · exfalso
      have : cnt (busy n) s.gs = 0 := by
        have : ∀ l : List Pc, (∀ j, j < l.length → busy n (at_ l j) = false) → cnt (busy n) l = 0 := by
          intro l
          induction l with
          | nil => intro _; rfl
          | cons a r ih =>
            intro hl
            have h0 := hl 0 (by simp)
            simp only [at_zero] at h0
            have := ih (fun j hj => by have := hl (j + 1) (by simpa using hj); simpa using this)
            simp [cnt, h0, this]
        apply this
        intro j hj
        cases hb : busy n (at_ s.gs j)
        · rfl
        · exact absurd ⟨j, hj, hb⟩ hex
      omega
  · rw [if_neg hc] at hs
    injection hs with hs; subst hs
    have hpc : pcAt ({ setPc s g (.wRun n) with running := n :: s.running } : State) g = .wRun n := by
      simp [pcAt, setPc, hg]
    refine ⟨Or.inr hpc, ⟨fun h => ?_, fun ⟨j, hj, _, hb⟩ => ?_⟩⟩
    · rw [hpc] at h; cases h
    exfalso
    have := cnt_pos_of_mem (busy n) s.gs j hj hb
    have h0 : cnt (busy n) s.gs = 0 := by
      rw [inv.running n]
      have : s.running.contains n = false := by simpa using hc
      rw [this]; rfl
    omega

/-- when every goroutine is idle again, nothing is left behind: no lock held, `running` empty -/
theorem running_cleared {s : State} (h : Reach s) (hidle : ∀ j, j < s.gs.length → pcAt s j = .idle) :
    s.readers = 0 ∧ s.writer = false ∧ ∀ n, s.running.contains n = false := by
  have inv := inv_reach h
  have zero : ∀ p : Pc → Bool, p .idle = false → cnt p s.gs = 0 := by
    intro p hp
    have : ∀ l : List Pc, (∀ j, j < l.length → at_ l j = .idle) → cnt p l = 0 := by
      intro l
      induction l with
      | nil => intro _; rfl
      | cons a r ih =>
        intro hl
        have h0 := hl 0 (by simp)
        simp only [at_zero] at h0
        have := ih (fun j hj => by have := hl (j + 1) (by simpa using hj); simpa using this)
        simp [cnt, h0, hp, this]
    exact this s.gs hidle
  refine ⟨by rw [inv.readers, zero readHeld rfl], ?_, ?_⟩
  · have := inv.writer; rw [zero writeHeld rfl] at this
    cases hw : s.writer
    · rfl
    · rw [hw] at this; simp at this
  · intro n
    have := inv.running n; rw [zero (busy n) rfl] at this
    cases hc : s.running.contains n
    · rfl
    · rw [hc] at this; simp at this

/-- **C31, the statement on traces**: whatever the number of goroutines, the operations they perform and the
    interleaving, the logged trace never shows two `f` for one repository at once, never shows anything running
    beside a global `f`, every `With` reports `true` exactly when its `f` ran, and every `With` that reports `false`
    had another `With` for the same repository in flight at some moment between its call and its return -/
theorem all_traces_ok (n : Nat) (tr : List Ev) (s : State) (h : Exec (init n) tr s) : traceOK n tr = true := by
  have hg0 : Good (init n) (List.replicate n false) := by
    refine ⟨by simp [init], ?_, ?_⟩
    · intro g m hm
      have : pcAt (init n) g = .idle := by
        simp only [pcAt, init, List.getD_eq_getElem?_getD, List.getElem?_replicate]
        by_cases hgn : g < n <;> simp [hgn]
      rw [this] at hm; rcases hm with hm | hm <;> cases hm
    · intro g m hm
      have : pcAt (init n) g = .idle := by
        simp only [pcAt, init, List.getD_eq_getElem?_getD, List.getElem?_replicate]
        by_cases hgn : g < n <;> simp [hgn]
      rw [this] at hm; rcases hm with hm | hm <;> cases hm
  obtain ⟨_, fl, _, hrun⟩ := exec_spec h (Reach.init n) _ hg0
  have e : absPhF (init n) (List.replicate n false) = List.replicate n .idle := by
    have : ∀ k, List.zipWith phaseOfF (List.replicate k Pc.idle) (List.replicate k false) = List.replicate k Phase.idle := by
      intro k
      induction k with
      | zero => rfl
      | succ k ih => simp only [List.replicate_succ, List.zipWith_cons_cons, ih]; rfl
    exact this n
  rw [e] at hrun
  simp [traceOK, hrun]

/-! ### the call sites (translator table `C31LockSites`, regenerated from the working tree on every run)

The theorems above are about the `f` passed to `With(name, f)` and `Global(f)`.  They speak about *operations* — index
jobs, cleanup, merge, vacuum, data deletion — only if every such operation runs inside the `f` of the right method, and
if all index jobs of one repository use the same key.  Both facts are read off the source. -/

/-- every `muIndexDir.With` call site keys by the same expression (the queue worker and the forced re-index are both
    there): two index jobs for one repository always meet on one key -/
theorem with_sites_share_one_key :
    (Gen.c31WithKeys.map (·.2)).eraseDups.length = 1 ∧
    (Gen.c31WithKeys.map (·.1)).contains "processQueue" = true ∧ (Gen.c31WithKeys.map (·.1)).contains "forceIndex" = true := by
  decide

/-- every call of an operation on the index directory is lexically inside the function passed to the right lock method:
    index jobs under `With`, cleanup / vacuum / merge / explode / purge (data deletion) under `Global`, nothing outside -/
theorem dir_ops_run_under_their_lock :
    Gen.c31DirOps.all (fun r => r.2.2 == (if r.2.1 == "index" then "With" else "Global")) = true ∧
    ["cleanup", "removeTombstones", "purgeTenantShards", "explodeTenantCompoundShards", "loadCandidates", "mergeCmd", "index"].all
      (fun op => (Gen.c31DirOps.map (·.2.1)).contains op) = true := by
  decide

/-! non-vacuity: a concrete execution in which goroutine 1 is skipped while goroutine 0 runs `f` for the same
    repository, and a global operation then runs alone -/
example : ∃ s, Exec (init 3) [.call 0 (.w 7), .begin 0, .call 1 (.w 7), .ret 1 false, .call 2 .g, .fin 0, .ret 0 true, .begin 2] s := by
  have h : (runSched (init 3) [.inr (.call 0 (.w 7)), .inl 0, .inl 0, .inr (.begin 0), .inr (.call 1 (.w 7)), .inl 1, .inl 1, .inl 1,
      .inr (.ret 1 false), .inr (.call 2 .g), .inr (.fin 0), .inl 0, .inl 0, .inr (.ret 0 true), .inl 2, .inr (.begin 2)]).isSome = true := by
    decide
  obtain ⟨p, hp⟩ := Option.isSome_iff_exists.mp h
  have := runSched_exec _ _ p.1 p.2 hp
  have e : p.2 = [.call 0 (.w 7), .begin 0, .call 1 (.w 7), .ret 1 false, .call 2 .g, .fin 0, .ret 0 true, .begin 2] := by
    have : (runSched (init 3) [.inr (.call 0 (.w 7)), .inl 0, .inl 0, .inr (.begin 0), .inr (.call 1 (.w 7)), .inl 1, .inl 1, .inl 1,
      .inr (.ret 1 false), .inr (.call 2 .g), .inr (.fin 0), .inl 0, .inl 0, .inr (.ret 0 true), .inl 2, .inr (.begin 2)]).map (·.2) =
        some [.call 0 (.w 7), .begin 0, .call 1 (.w 7), .ret 1 false, .call 2 .g, .fin 0, .ret 0 true, .begin 2] := by decide
    rw [hp] at this
    simpa using this
  exact ⟨p.1, e ▸ this⟩

example : checkP 3 [.call 0 (.w 7), .begin 0, .call 1 (.w 7), .ret 1 false, .call 2 .g, .fin 0, .ret 0 true, .begin 2, .fin 2, .ret 2 true] = true := by
  decide
example : traceOK 2 [.call 0 (.w 7), .begin 0, .call 1 (.w 7), .begin 1] = false := by decide
example : traceOK 2 [.call 0 (.w 7), .begin 0, .call 1 .g, .begin 1] = false := by decide
example : skipsJustified [.call 0 (.w 7), .ret 0 false] = false := by decide
example : traceOK 1 [.call 0 (.w 7), .ret 0 false] = false := by decide
example : traceOK 2 [.call 0 (.w 7), .call 1 (.w 7), .ret 1 false] = true := by decide

end ZoektModel.C31
