/-
C31 — Index directory operations are mutually exclusive.

Statement: two indexing operations for the same repository never run at the same time, a global operation on
the index directory never runs while any other operation runs, and an operation skipped because its repository
is busy is reported as skipped.  Quantifier: all interleavings of repository-scoped and global operations from
any number of goroutines.

The theorems are about `Reach` / `Exec` of C31/Model.lean: every state reachable by any interleaving of the atomic
actions of `With` and `Global`, for any number of goroutines each performing any sequence of operations.
-/
import ZoektModel.C31.Lemmas
namespace ZoektModel.C31

theorem step_cnt (s : State) (g : Nat) (old new : Pc) (hg : g < s.gs.length) (hp : pcAt s g = old) (p : Pc → Bool) :
    cnt p (s.gs.set g new) + b2n (p old) = cnt p s.gs + b2n (p new) := by
  have := cnt_set p s.gs g new hg
  rw [show at_ s.gs g = old from hp] at this
  exact this

theorem b2n_le (b : Bool) : b2n b ≤ 1 := by cases b <;> simp

/-- every hidden step preserves the invariant -/
theorem inv_hidden {s s' : State} (g : Nat) (hi : Inv s) (h : hidden s g = some s') : Inv s' := by
  unfold hidden at h
  split at h
  case isFalse => simp at h
  case isTrue hg =>
  obtain ⟨h1, h2, h3, h4⟩ := hi
  cases hp : pcAt s g <;> simp only [hp] at h
  case wCall n =>
    split at h
    · simp at h
    · rename_i hw
      injection h with h; subst h
      have c := step_cnt s g _ (.wLocked n) hg hp
      refine ⟨?_, ?_, ?_, ?_⟩
      · have := c readHeld; simp [readHeld, setPc] at this ⊢; omega
      · have := c writeHeld; simp [writeHeld, setPc] at this ⊢; omega
      · intro hw'; simp [setPc] at hw'; exact absurd hw' hw
      · intro m
        have := c (busy m)
        simp only [busy, b2n_false, Nat.add_zero] at this
        show cnt (busy m) (s.gs.set g _) = b2n (s.running.contains m)
        rw [this]; exact h4 m
  case wLocked n =>
    split at h
    · rename_i hc
      injection h with h; subst h
      have c := step_cnt s g _ (.wSkip n) hg hp
      refine ⟨?_, ?_, ?_, ?_⟩
      · have := c readHeld; simp [readHeld, setPc] at this ⊢; omega
      · have := c writeHeld; simp [writeHeld, setPc] at this ⊢; omega
      · simpa [setPc] using h3
      · intro m
        have := c (busy m)
        simp only [busy, b2n_false, Nat.add_zero] at this
        show cnt (busy m) (s.gs.set g _) = b2n (s.running.contains m)
        rw [this]; exact h4 m
    · rename_i hc
      injection h with h; subst h
      have c := step_cnt s g _ (.wRun n) hg hp
      refine ⟨?_, ?_, ?_, ?_⟩
      · have := c readHeld; simp [readHeld, setPc] at this ⊢; omega
      · have := c writeHeld; simp [writeHeld, setPc] at this ⊢; omega
      · simpa [setPc] using h3
      · intro m
        have := c (busy m)
        simp only [busy, b2n_false, Nat.add_zero] at this
        show cnt (busy m) (s.gs.set g _) = b2n ((n :: s.running).contains m)
        rw [this, h4 m, List.contains_cons]
        by_cases hm : m = n
        · subst hm
          have h0 : s.running.contains m = false := by simpa using hc
          rw [h0]; simp
        · have e1 : (m == n) = false := by simpa using hm
          have e2 : (n == m) = false := by simpa using (fun h => hm h.symm)
          rw [e1, e2]; simp
  case wSkip n =>
    injection h with h; subst h
    have c := step_cnt s g _ (.wRetF n) hg hp
    have hpos := cnt_pos_of_mem readHeld s.gs g hg (by rw [show at_ s.gs g = .wSkip n from hp]; rfl)
    refine ⟨?_, ?_, ?_, ?_⟩
    · have := c readHeld; simp [readHeld, setPc] at this ⊢; omega
    · have := c writeHeld; simp [writeHeld, setPc] at this ⊢; omega
    · intro hw; simp [setPc] at hw; have := h3 hw; omega
    · intro m
      have := c (busy m)
      simp only [busy, b2n_false, Nat.add_zero] at this
      show cnt (busy m) (s.gs.set g _) = b2n (s.running.contains m)
      rw [this]; exact h4 m
  case wDone n =>
    injection h with h; subst h
    have c := step_cnt s g _ (.wCleared n) hg hp
    refine ⟨?_, ?_, ?_, ?_⟩
    · have := c readHeld; simp [readHeld, setPc] at this ⊢; omega
    · have := c writeHeld; simp [writeHeld, setPc] at this ⊢; omega
    · simpa [setPc] using h3
    · intro m
      have := c (busy m)
      simp only [busy, b2n_false, Nat.add_zero] at this
      show cnt (busy m) (s.gs.set g _) = b2n ((s.running.filter (· ≠ n)).contains m)
      rw [contains_filter_ne]
      have h4m := h4 m
      generalize s.running.contains m = cm at h4m ⊢
      by_cases hm : m = n
      · subst hm
        have hpos := cnt_pos_of_mem (busy m) s.gs g hg (by rw [show at_ s.gs g = .wDone m from hp]; simp [busy])
        have hle := b2n_le cm
        have e1 : (m == m) = true := by simp
        rw [e1] at this
        simp at this ⊢
        omega
      · have e2 : (n == m) = false := by simpa using (fun h => hm h.symm)
        rw [e2] at this
        simp [hm] at this ⊢
        omega
  case wCleared n =>
    injection h with h; subst h
    have c := step_cnt s g _ (.wRetT n) hg hp
    have hpos := cnt_pos_of_mem readHeld s.gs g hg (by rw [show at_ s.gs g = .wCleared n from hp]; rfl)
    refine ⟨?_, ?_, ?_, ?_⟩
    · have := c readHeld; simp [readHeld, setPc] at this ⊢; omega
    · have := c writeHeld; simp [writeHeld, setPc] at this ⊢; omega
    · intro hw; simp [setPc] at hw; have := h3 hw; omega
    · intro m
      have := c (busy m)
      simp only [busy, b2n_false, Nat.add_zero] at this
      show cnt (busy m) (s.gs.set g _) = b2n (s.running.contains m)
      rw [this]; exact h4 m
  case gCall =>
    split at h
    · simp at h
    · rename_i hw
      injection h with h; subst h
      have c := step_cnt s g _ .gLocked hg hp
      simp at hw
      refine ⟨?_, ?_, ?_, ?_⟩
      · have := c readHeld; simp [readHeld, setPc] at this ⊢; omega
      · have := c writeHeld; simp [writeHeld, setPc, hw.1] at this h2 ⊢; omega
      · intro _; simpa [setPc] using hw.2
      · intro m
        have := c (busy m)
        simp only [busy, b2n_false, Nat.add_zero] at this
        show cnt (busy m) (s.gs.set g _) = b2n (s.running.contains m)
        rw [this]; exact h4 m
  case gDone =>
    injection h with h; subst h
    have c := step_cnt s g _ .gRet hg hp
    have hpos := cnt_pos_of_mem writeHeld s.gs g hg (by rw [show at_ s.gs g = .gDone from hp]; rfl)
    refine ⟨?_, ?_, ?_, ?_⟩
    · have := c readHeld; simp [readHeld, setPc] at this ⊢; omega
    · have := c writeHeld
      have hle := b2n_le s.writer
      simp [writeHeld, setPc] at this ⊢
      omega
    · intro hw; simp [setPc] at hw
    · intro m
      have := c (busy m)
      simp only [busy, b2n_false, Nat.add_zero] at this
      show cnt (busy m) (s.gs.set g _) = b2n (s.running.contains m)
      rw [this]; exact h4 m
  all_goals simp at h

/-- changing one goroutine's program point to one with the same lock/running status preserves the invariant -/
theorem inv_setPc {s : State} (g : Nat) (old new : Pc) (hi : Inv s) (hg : g < s.gs.length) (hp : pcAt s g = old)
    (hr : readHeld old = readHeld new) (hw : writeHeld old = writeHeld new) (hb : ∀ m, busy m old = busy m new) :
    Inv (setPc s g new) := by
  obtain ⟨h1, h2, h3, h4⟩ := hi
  have c := step_cnt s g old new hg hp
  refine ⟨?_, ?_, ?_, ?_⟩
  · have := c readHeld; rw [hr] at this; simp only [setPc]; omega
  · have := c writeHeld; rw [hw] at this; simp only [setPc]; omega
  · simpa [setPc] using h3
  · intro m; have := c (busy m); rw [hb m] at this; have := h4 m; simp only [setPc]; omega

/-- every logged step preserves the invariant -/
theorem inv_visible {s s' : State} (e : Ev) (hi : Inv s) (h : visible s e = some s') : Inv s' := by
  cases e with
  | call g o =>
    simp only [visible] at h
    split at h
    case isFalse => simp at h
    case isTrue hg =>
      cases hp : pcAt s g <;> cases o <;> simp only [hp] at h <;> try (simp at h)
      all_goals (subst h; exact inv_setPc g _ _ hi hg hp rfl rfl (fun _ => rfl))
  | begin g =>
    simp only [visible] at h
    split at h
    case isFalse => simp at h
    case isTrue hg =>
      cases hp : pcAt s g <;> simp only [hp] at h <;> try (simp at h)
      all_goals (subst h; exact inv_setPc g _ _ hi hg hp rfl rfl (fun _ => rfl))
  | fin g =>
    simp only [visible] at h
    split at h
    case isFalse => simp at h
    case isTrue hg =>
      cases hp : pcAt s g <;> simp only [hp] at h <;> try (simp at h)
      all_goals (subst h; exact inv_setPc g _ _ hi hg hp rfl rfl (fun _ => rfl))
  | ret g ran =>
    simp only [visible] at h
    split at h
    case isFalse => simp at h
    case isTrue hg =>
      cases hp : pcAt s g <;> cases ran <;> simp only [hp] at h <;> try (simp at h)
      all_goals (subst h; exact inv_setPc g _ _ hi hg hp rfl rfl (fun _ => rfl))

/-- the invariant holds in every reachable state: any number of goroutines, any interleaving -/
theorem inv_reach {s : State} (h : Reach s) : Inv s := by
  induction h with
  | init n => exact inv_init n
  | tau g _ hs ih => exact inv_hidden g ih hs
  | vis e _ hs ih => exact inv_visible e ih hs

/-- **C31, clause 1**: two operations for the same repository never run `f` at the same time -/
theorem no_same_repo_overlap {s : State} (h : Reach s) (i j n : Nat) (hi : i < s.gs.length) (hj : j < s.gs.length)
    (pi : pcAt s i = .wIn n) (pj : pcAt s j = .wIn n) : i = j := by
  have inv := inv_reach h
  have hle : cnt (busy n) s.gs ≤ 1 := by rw [inv.running n]; exact b2n_le _
  exact cnt_le_one_unique (busy n) s.gs hle i j hi hj
    (by rw [show at_ s.gs i = .wIn n from pi]; simp [busy]) (by rw [show at_ s.gs j = .wIn n from pj]; simp [busy])

/-- **C31, clause 2**: while a global operation runs `f`, no other operation of any kind runs `f` -/
theorem global_exclusive {s : State} (h : Reach s) (i j : Nat) (hi : i < s.gs.length) (hj : j < s.gs.length)
    (pi : pcAt s i = .gIn) (hij : i ≠ j) : pcAt s j ≠ .gIn ∧ ∀ n, pcAt s j ≠ .wIn n := by
  have inv := inv_reach h
  have hpos := cnt_pos_of_mem writeHeld s.gs i hi (by rw [show at_ s.gs i = .gIn from pi]; rfl)
  have hw : s.writer = true := by
    cases hw : s.writer
    · have := inv.writer; rw [hw] at this; simp at this; omega
    · rfl
  refine ⟨?_, ?_⟩
  · intro pj
    have hle : cnt writeHeld s.gs ≤ 1 := by rw [inv.writer]; exact b2n_le _
    exact hij (cnt_le_one_unique writeHeld s.gs hle i j hi hj
      (by rw [show at_ s.gs i = .gIn from pi]; rfl) (by rw [show at_ s.gs j = .gIn from pj]; rfl))
  · intro n pj
    have := cnt_pos_of_mem readHeld s.gs j hj (by rw [show at_ s.gs j = .wIn n from pj]; rfl)
    have := inv.excl hw
    have := inv.readers
    omega

/-- **C31, clause 3** (state level): the check-and-set of `With` decides to skip exactly when another goroutine
    has the repository marked running (it is about to run, running, or has just run `f` for the same name) -/
theorem skip_iff_busy {s s' : State} (h : Reach s) (g n : Nat) (hg : g < s.gs.length) (hp : pcAt s g = .wLocked n)
    (hs : hidden s g = some s') :
    (pcAt s' g = .wSkip n ∨ pcAt s' g = .wRun n) ∧
    (pcAt s' g = .wSkip n ↔ ∃ j, j < s.gs.length ∧ j ≠ g ∧ busy n (pcAt s j) = true) := by
  have inv := inv_reach h
  have hnb : busy n (at_ s.gs g) = false := by rw [show at_ s.gs g = .wLocked n from hp]; rfl
  simp only [hidden, hg, if_true, hp] at hs
  by_cases hc : s.running.contains n = true
  · rw [if_pos hc] at hs
    injection hs with hs; subst hs
    have hpc : pcAt (setPc s g (.wSkip n)) g = .wSkip n := by simp [pcAt, setPc, hg]
    refine ⟨Or.inl hpc, fun _ => ?_, fun _ => hpc⟩
    -- some goroutine is busy with n, and it is not g
    have h1 : cnt (busy n) s.gs = 1 := by rw [inv.running n, hc]; rfl
    by_cases hex : ∃ j, j < s.gs.length ∧ busy n (at_ s.gs j) = true
    · obtain ⟨j, hj, hb⟩ := hex
      refine ⟨j, hj, ?_, hb⟩
      intro e; subst e; rw [hnb] at hb; cases hb
    · exfalso
      have : cnt (busy n) s.gs = 0 := by
        have : ∀ l : List Pc, (∀ j, j < l.length → busy n (at_ l j) = false) → cnt (busy n) l = 0 := by
          intro l
          induction l with
          | nil => intro _; rfl
          | cons a r ih =>
            intro hl
            have h0 := hl 0 (by simp)
            simp only [at_zero] at h0
            have := ih (fun j hj => by have := hl (j + 1) (by simpa using hj); simpa using this)
            simp [cnt, h0, this]
        apply this
        intro j hj
        cases hb : busy n (at_ s.gs j)
        · rfl
        · exact absurd ⟨j, hj, hb⟩ hex
      omega
  · rw [if_neg hc] at hs
    injection hs with hs; subst hs
    have hpc : pcAt ({ setPc s g (.wRun n) with running := n :: s.running } : State) g = .wRun n := by
      simp [pcAt, setPc, hg]
    refine ⟨Or.inr hpc, ⟨fun h => ?_, fun ⟨j, hj, _, hb⟩ => ?_⟩⟩
    · rw [hpc] at h; cases h
    exfalso
    have := cnt_pos_of_mem (busy n) s.gs j hj hb
    have h0 : cnt (busy n) s.gs = 0 := by
      rw [inv.running n]
      have : s.running.contains n = false := by simpa using hc
      rw [this]; rfl
    omega

/-- when every goroutine is idle again, nothing is left behind: no lock held, `running` empty -/
theorem running_cleared {s : State} (h : Reach s) (hidle : ∀ j, j < s.gs.length → pcAt s j = .idle) :
    s.readers = 0 ∧ s.writer = false ∧ ∀ n, s.running.contains n = false := by
  have inv := inv_reach h
  have zero : ∀ p : Pc → Bool, p .idle = false → cnt p s.gs = 0 := by
    intro p hp
    have : ∀ l : List Pc, (∀ j, j < l.length → at_ l j = .idle) → cnt p l = 0 := by
      intro l
      induction l with
      | nil => intro _; rfl
      | cons a r ih =>
        intro hl
        have h0 := hl 0 (by simp)
        simp only [at_zero] at h0
        have := ih (fun j hj => by have := hl (j + 1) (by simpa using hj); simpa using this)
        simp [cnt, h0, hp, this]
    exact this s.gs hidle
  refine ⟨by rw [inv.readers, zero readHeld rfl], ?_, ?_⟩
  · have := inv.writer; rw [zero writeHeld rfl] at this
    cases hw : s.writer
    · rfl
    · rw [hw] at this; simp at this
  · intro n
    have := inv.running n; rw [zero (busy n) rfl] at this
    cases hc : s.running.contains n
    · rfl
    · rw [hc] at this; simp at this

/-! ### trace level: every logged trace of every execution satisfies the statement -/

def phaseOf : Pc → Phase
  | .idle => .idle
  | .wCall n | .wLocked n | .wSkip n | .wRetF n | .wRun n => .called (.w n)
  | .wIn n => .inside (.w n)
  | .wDone n | .wCleared n | .wRetT n => .finished (.w n)
  | .gCall | .gLocked => .called .g
  | .gIn => .inside .g
  | .gDone | .gRet => .finished .g

def absPh (s : State) : List Phase := s.gs.map phaseOf

theorem phAt_abs (s : State) (j : Nat) : phAt (absPh s) j = phaseOf (pcAt s j) := by
  simp only [phAt, absPh, pcAt, List.getD_eq_getElem?_getD, List.getElem?_map]
  cases s.gs[j]? <;> simp [phaseOf]

theorem abs_setPc (s : State) (g : Nat) (pc : Pc) : absPh (setPc s g pc) = (absPh s).set g (phaseOf pc) := by
  simp [absPh, setPc, List.map_set]

theorem abs_setPc_same (s : State) (g : Nat) (pc : Pc) (hg : g < s.gs.length) (h : phaseOf pc = phaseOf (pcAt s g)) :
    absPh (setPc s g pc) = absPh s := by
  rw [abs_setPc, h, ← phAt_abs]
  apply List.ext_getElem
  · simp
  · intro i h1 h2
    by_cases hi : g = i
    · subst hi; simp [phAt, List.getD_eq_getElem?_getD, List.getElem?_eq_getElem h2]
    · simp [List.getElem_set, hi]

/-- hidden steps do not change any goroutine's phase -/
theorem abs_hidden {s s' : State} (g : Nat) (h : hidden s g = some s') : absPh s' = absPh s := by
  unfold hidden at h
  split at h
  case isFalse => simp at h
  case isTrue hg =>
  cases hp : pcAt s g <;> simp only [hp] at h
  case wCall n =>
    split at h
    · simp at h
    · injection h with h; subst h; exact abs_setPc_same s g _ hg (by rw [hp]; rfl)
  case wLocked n =>
    split at h
    · injection h with h; subst h; exact abs_setPc_same s g _ hg (by rw [hp]; rfl)
    · injection h with h; subst h; exact abs_setPc_same s g _ hg (by rw [hp]; rfl)
  case wSkip n => injection h with h; subst h; exact abs_setPc_same s g _ hg (by rw [hp]; rfl)
  case wDone n => injection h with h; subst h; exact abs_setPc_same s g _ hg (by rw [hp]; rfl)
  case wCleared n => injection h with h; subst h; exact abs_setPc_same s g _ hg (by rw [hp]; rfl)
  case gCall =>
    split at h
    · simp at h
    · injection h with h; subst h; exact abs_setPc_same s g _ hg (by rw [hp]; rfl)
  case gDone => injection h with h; subst h; exact abs_setPc_same s g _ hg (by rw [hp]; rfl)
  all_goals simp at h

theorem abs_length (s : State) : (absPh s).length = s.gs.length := by simp [absPh]

/-- in a reachable state, the goroutine that is about to run `f` may do so according to the statement -/
theorem mayRun_of_reach {s : State} (h : Reach s) (g : Nat) (hg : g < s.gs.length) (o : Op)
    (hp : (∃ n, o = .w n ∧ pcAt s g = .wRun n) ∨ (o = .g ∧ pcAt s g = .gLocked)) :
    mayRun (absPh s) g o = true := by
  have inv := inv_reach h
  unfold mayRun
  rw [List.all_eq_true]
  intro j hj
  rw [List.mem_range, abs_length] at hj
  by_cases hjg : j = g
  · simp [hjg]
  · have hne : (j == g) = false := by simpa using hjg
    rw [hne, Bool.false_or, phAt_abs]
    rcases hp with ⟨n, rfl, hp⟩ | ⟨rfl, hp⟩
    · -- g holds the read lock and has running[n]
      have hr := cnt_pos_of_mem readHeld s.gs g hg (by rw [show at_ s.gs g = .wRun n from hp]; rfl)
      cases hpj : pcAt s j <;> simp only [phaseOf]
      case wIn m =>
        show (m != n) = true
        by_cases hmn : m = n
        · subst hmn
          have hle : cnt (busy m) s.gs ≤ 1 := by rw [inv.running m]; exact b2n_le _
          exact absurd (cnt_le_one_unique (busy m) s.gs hle j g hj hg
            (by rw [show at_ s.gs j = .wIn m from hpj]; simp [busy]) (by rw [show at_ s.gs g = .wRun m from hp]; simp [busy])) hjg
        · simpa using hmn
      case gIn =>
        exfalso
        have hw := cnt_pos_of_mem writeHeld s.gs j hj (by rw [show at_ s.gs j = .gIn from hpj]; rfl)
        have : s.writer = true := by
          cases hw' : s.writer
          · have := inv.writer; rw [hw'] at this; simp at this; omega
          · rfl
        have := inv.excl this
        have := inv.readers
        omega
    · -- g holds the write lock
      have hw := cnt_pos_of_mem writeHeld s.gs g hg (by rw [show at_ s.gs g = .gLocked from hp]; rfl)
      have hwr : s.writer = true := by
        cases hw' : s.writer
        · have := inv.writer; rw [hw'] at this; simp at this; omega
        · rfl
      cases hpj : pcAt s j <;> simp only [phaseOf]
      case wIn m =>
        exfalso
        have := cnt_pos_of_mem readHeld s.gs j hj (by rw [show at_ s.gs j = .wIn m from hpj]; rfl)
        have := inv.excl hwr
        have := inv.readers
        omega
      case gIn =>
        exfalso
        have hle : cnt writeHeld s.gs ≤ 1 := by rw [inv.writer]; exact b2n_le _
        exact hjg (cnt_le_one_unique writeHeld s.gs hle j g hj hg
          (by rw [show at_ s.gs j = .gIn from hpj]; rfl) (by rw [show at_ s.gs g = .gLocked from hp]; rfl))

/-- a logged step of the model is a step the statement allows -/
theorem spec_visible {s s' : State} (e : Ev) (hr : Reach s) (h : visible s e = some s') :
    specStep (absPh s) e = some (absPh s') := by
  cases e with
  | call g o =>
    simp only [visible] at h
    split at h
    case isFalse => simp at h
    case isTrue hg =>
      cases hp : pcAt s g <;> cases o <;> simp only [hp] at h <;> try (simp at h)
      all_goals (subst h; simp [specStep, abs_length, hg, phAt_abs, hp, phaseOf, abs_setPc])
  | begin g =>
    simp only [visible] at h
    split at h
    case isFalse => simp at h
    case isTrue hg =>
      cases hp : pcAt s g <;> simp only [hp] at h <;> try (simp at h)
      case wRun n =>
        subst h
        have := mayRun_of_reach hr g hg (.w n) (Or.inl ⟨n, rfl, hp⟩)
        simp [specStep, phAt_abs, hp, phaseOf, abs_setPc, this]
      case gLocked =>
        subst h
        have := mayRun_of_reach hr g hg .g (Or.inr ⟨rfl, hp⟩)
        simp [specStep, phAt_abs, hp, phaseOf, abs_setPc, this]
  | fin g =>
    simp only [visible] at h
    split at h
    case isFalse => simp at h
    case isTrue hg =>
      cases hp : pcAt s g <;> simp only [hp] at h <;> try (simp at h)
      all_goals (subst h; simp [specStep, phAt_abs, hp, phaseOf, abs_setPc])
  | ret g ran =>
    simp only [visible] at h
    split at h
    case isFalse => simp at h
    case isTrue hg =>
      cases hp : pcAt s g <;> cases ran <;> simp only [hp] at h <;> try (simp at h)
      all_goals (subst h; simp [specStep, phAt_abs, hp, phaseOf, abs_setPc])

theorem specRun_snoc (ph : List Phase) (tr : List Ev) (e : Ev) :
    specRun ph (tr ++ [e]) = (specRun ph tr).bind (specStep · e) := by
  induction tr generalizing ph with
  | nil => simp [specRun]; cases specStep ph e <;> simp [specRun]
  | cons a r ih =>
    simp only [List.cons_append, specRun]
    cases specStep ph a with
    | none => simp
    | some ph' => exact ih ph'

theorem exec_spec {s0 s : State} {tr : List Ev} (h : Exec s0 tr s) (h0 : Reach s0) :
    Reach s ∧ specRun (absPh s0) tr = some (absPh s) := by
  induction h with
  | nil => exact ⟨h0, rfl⟩
  | tau g _ hs ih => exact ⟨Reach.tau g ih.1 hs, by rw [ih.2, abs_hidden g hs]⟩
  | vis e _ hs ih =>
    refine ⟨Reach.vis e ih.1 hs, ?_⟩
    rw [specRun_snoc, ih.2]
    exact spec_visible e ih.1 hs

/-- **C31, the statement on traces**: whatever the number of goroutines, the operations they perform and the
    interleaving, the logged trace never shows two `f` for one repository at once, never shows anything running
    beside a global `f`, and every `With` reports `true` exactly when its `f` ran -/
theorem all_traces_ok (n : Nat) (tr : List Ev) (s : State) (h : Exec (init n) tr s) : traceOK n tr = true := by
  have := (exec_spec h (Reach.init n)).2
  have e : absPh (init n) = List.replicate n .idle := by simp [absPh, init, phaseOf]
  rw [e] at this
  simp [traceOK, this]

/-! non-vacuity: a concrete execution in which goroutine 1 is skipped while goroutine 0 runs `f` for the same
    repository, and a global operation then runs alone -/
def runSched (s : State) : List (Nat ⊕ Ev) → Option (State × List Ev)
  | [] => some (s, [])
  | .inl g :: r => match hidden s g with
    | some s' => runSched s' r
    | none => none
  | .inr e :: r => match visible s e with
    | some s' => (runSched s' r).map fun p => (p.1, e :: p.2)
    | none => none

theorem exec_trans_tau {s0 s s' : State} {tr : List Ev} (g : Nat) (h1 : hidden s0 g = some s) (h : Exec s tr s') :
    Exec s0 tr s' := by
  induction h with
  | nil => exact Exec.tau g (Exec.nil _) h1
  | tau g' _ hs ih => exact Exec.tau g' ih hs
  | vis e _ hs ih => exact Exec.vis e ih hs

theorem exec_trans_vis {s0 s s' : State} {tr : List Ev} (e : Ev) (h1 : visible s0 e = some s) (h : Exec s tr s') :
    Exec s0 (e :: tr) s' := by
  induction h with
  | nil => exact Exec.vis (tr := []) e (Exec.nil _) h1
  | tau g' _ hs ih => exact Exec.tau g' ih hs
  | vis e' _ hs ih => exact Exec.vis (tr := e :: _) e' ih hs

theorem runSched_exec (sched : List (Nat ⊕ Ev)) (s s' : State) (tr : List Ev) (h : runSched s sched = some (s', tr)) :
    Exec s tr s' := by
  induction sched generalizing s tr with
  | nil => simp [runSched] at h; obtain ⟨rfl, rfl⟩ := h; exact Exec.nil _
  | cons a r ih =>
    cases a with
    | inl g =>
      simp only [runSched] at h
      cases hh : hidden s g with
      | none => simp [hh] at h
      | some s1 => rw [hh] at h; simp only at h; exact exec_trans_tau g hh (ih s1 tr h)
    | inr e =>
      simp only [runSched] at h
      cases hv : visible s e with
      | none => simp [hv] at h
      | some s1 =>
        rw [hv] at h
        simp only at h
        cases hr : runSched s1 r with
        | none => simp [hr] at h
        | some p =>
          rw [hr] at h
          simp at h
          obtain ⟨rfl, rfl⟩ := h
          exact exec_trans_vis e hv (ih s1 p.2 (by rw [hr]))

example : ∃ s, Exec (init 3) [.call 0 (.w 7), .begin 0, .call 1 (.w 7), .ret 1 false, .call 2 .g, .fin 0, .ret 0 true, .begin 2] s := by
  have h : (runSched (init 3) [.inr (.call 0 (.w 7)), .inl 0, .inl 0, .inr (.begin 0), .inr (.call 1 (.w 7)), .inl 1, .inl 1, .inl 1,
      .inr (.ret 1 false), .inr (.call 2 .g), .inr (.fin 0), .inl 0, .inl 0, .inr (.ret 0 true), .inl 2, .inr (.begin 2)]).isSome = true := by
    decide
  obtain ⟨p, hp⟩ := Option.isSome_iff_exists.mp h
  have := runSched_exec _ _ p.1 p.2 hp
  have e : p.2 = [.call 0 (.w 7), .begin 0, .call 1 (.w 7), .ret 1 false, .call 2 .g, .fin 0, .ret 0 true, .begin 2] := by
    have : (runSched (init 3) [.inr (.call 0 (.w 7)), .inl 0, .inl 0, .inr (.begin 0), .inr (.call 1 (.w 7)), .inl 1, .inl 1, .inl 1,
      .inr (.ret 1 false), .inr (.call 2 .g), .inr (.fin 0), .inl 0, .inl 0, .inr (.ret 0 true), .inl 2, .inr (.begin 2)]).map (·.2) =
        some [.call 0 (.w 7), .begin 0, .call 1 (.w 7), .ret 1 false, .call 2 .g, .fin 0, .ret 0 true, .begin 2] := by decide
    rw [hp] at this
    simpa using this
  exact ⟨p.1, e ▸ this⟩

example : checkP 3 [.call 0 (.w 7), .begin 0, .call 1 (.w 7), .ret 1 false, .call 2 .g, .fin 0, .ret 0 true, .begin 2, .fin 2, .ret 2 true] = true := by
  decide
example : traceOK 2 [.call 0 (.w 7), .begin 0, .call 1 (.w 7), .begin 1] = false := by decide
example : traceOK 2 [.call 0 (.w 7), .begin 0, .call 1 .g, .begin 1] = false := by decide
example : skipsJustified [.call 0 (.w 7), .ret 0 false] = false := by decide

end ZoektModel.C31
