/-
C36 — The web UI renders index and request text as text.  Property theorems only; lemmas live in C36/Lemmas.lean.

Statement (properties.jsonl): every HTML page served by the web UI renders file contents, file names, repository and
branch names, URLs from repository templates and the query string as text: no value taken from the index or the request
introduces markup or script, and rendering never fails for any search result.
Quantifier: all file contents, names, repository metadata and query strings, including HTML/JS payloads and invalid UTF-8.

What is proved here, for EVERY string (every list of byte values, valid UTF-8 or not): the text that each escaper chain
which `html/template` applies in zoekt's templates writes into the page is safe at the place it is written to
(`Chain.safe`, Spec.lean).  Which chain is applied to which `{{action}}` is `html/template`'s context inference; it is
read back from the real, escaped templates by the translator (`Gen.c36Actions`) and every entry is checked against the
modelled chains below.  Not proved: "rendering never fails" (a property of the handlers, validated by the harness on
real pages).
-/
import ZoektModel.C36.Lemmas
import ZoektModel.Generated.C36Web
namespace ZoektModel.C36
open ZoektModel

/-! ### per-context safety, for all strings -/

/-- **HTML text and `<title>`**: whatever the value, the escaped text contains no `<` and no NUL -/
theorem ctx_safe_html (s : Str) : textSafe (htmlEscape s) = true :=
  noneOf_mono _ _ (by decide) _ (htmlEscape_noneOf s)

/-- **double-quoted attribute value**: no `"`, `'`, `<`, `>`, NUL -/
theorem ctx_safe_attr (s : Str) : attrSafe (htmlEscape s) = true :=
  noneOf_mono _ _ (by decide) _ (htmlEscape_noneOf s)

/-- **unquoted attribute value** (`value={{.Query}}`): never empty, no whitespace, no `>`, none of `" ' = < `` ` `` NUL -/
theorem ctx_safe_nospace (s : Str) : nospaceSafe (nospaceEscape s) = true := by
  unfold nospaceSafe nospaceEscape
  cases s with
  | nil => decide
  | cons s0 rest =>
    simp only [List.isEmpty_cons, Bool.false_eq_true, if_false, Bool.and_eq_true, Bool.not_eq_true']
    refine ⟨?_, noneOf_mono _ _ (by decide) _ (nospaceReplacer_noneOf _)⟩
    have hne : htmlReplacer nospaceTbl false (s0 :: rest) ≠ [] := by
      unfold htmlReplacer
      apply runeLoop_ne_nil
      intro r t h
      have := htmlRepl_entity _ _ nospaceTbl_entity r t h
      unfold htmlRepl at h
      split at h
      · rename_i t' ht
        cases h
        have hm := nospaceTbl_some _ _ ht
        intro hnil
        subst hnil
        simp at hm
      · split at h
        · cases h; simp
        · cases h
    cases hr : htmlReplacer nospaceTbl false (s0 :: rest) with
    | nil => exact absurd hr hne
    | cons a b => rfl

/-- the HTML escaper leaves a URL-escaped string alone -/
theorem htmlEscape_urlEscaped (s : Str) : htmlEscape (urlEscape s) = urlEscape s := by
  unfold htmlEscape htmlReplacer
  apply runeLoop_ident _ (fun c => isUnreserved c || c == 37) _ _ _ (Nat.le_refl _) (urlEscape_safe s)
  intro c hc
  have hv : c < 0x80 ∧ c ≠ 0 ∧ c ≠ 34 ∧ c ≠ 38 ∧ c ≠ 39 ∧ c ≠ 43 ∧ c ≠ 60 ∧ c ≠ 62 := by
    simp [isUnreserved, isAlnum, isUnreservedMark] at hc
    omega
  refine ⟨hv.1, ?_⟩
  have ht : htmlTbl c = none := by
    unfold htmlTbl
    split <;> first | rfl | omega
  simp [htmlRepl, ht]

/-- **URL query / fragment part** (`href="search?q={{.Last.Query}}"`, `href="#{{.DuplicateID}}"`): only unreserved
    characters and `%` -/
theorem ctx_safe_urlQuery (s : Str) : urlQuerySafe (urlQueryChain s) = true := by
  unfold urlQuerySafe urlQueryChain
  rw [htmlEscape_urlEscaped]
  exact urlEscape_safe s

/-- the HTML escaper never introduces a control character, a space or DEL -/
theorem htmlEscape_noControl (s : Str) (h : noControlOrSpace s = true) : noControlOrSpace (htmlEscape s) = true := by
  unfold noControlOrSpace htmlEscape htmlReplacer at *
  apply runeLoop_preserves _ _ _ _ _ h
  intro r t ht
  have he := htmlRepl_entity _ _ htmlTbl_entity r t ht
  rw [List.all_eq_true] at *
  intro x hx
  have := he x hx
  simp [entityByte] at this
  simp
  omega

theorem urlNormalize_noControl (s : Str) : noControlOrSpace (urlNormalize s) = true := by
  unfold noControlOrSpace
  have h := urlNormalize_bytes s
  rw [List.all_eq_true] at *
  intro x hx
  have := urlByte_visible x (h x hx)
  simp [visible] at this
  simp
  omega

/-- **URL after a literal prefix / inside a repository URL template**: attribute-safe, no control character or space -/
theorem ctx_safe_urlTail (s : Str) :
    attrSafe (htmlEscape (urlNormalize s)) = true ∧ noControlOrSpace (htmlEscape (urlNormalize s)) = true :=
  ⟨ctx_safe_attr _, htmlEscape_noControl _ (urlNormalize_noControl s)⟩

/-- `urlFilter` lets through only what `isSafeURL` accepts: its output is always a URL that `isSafeURL` accepts -/
theorem url_filter_output_is_safe (s : Str) : isSafeURL (urlFilter s) = true := by
  unfold urlFilter
  split
  · assumption
  · decide

/-- a value with a scheme other than http / https / mailto never reaches the page: it is replaced by `#ZgotmplZ` -/
theorem url_filter_defangs (s : Str) (h : isSafeURL s = false) :
    urlAttrChain s = [35, 90, 103, 111, 116, 109, 112, 108, 90] := by
  unfold urlAttrChain urlFilter
  simp only [h, Bool.false_eq_true, if_false]
  decide

/-- **JavaScript string literal** (`"{{.QueryStr}}"` in `<script>`, `'…{{.Language}}…'` in `onclick`): the escaped text
    consists of plain characters and complete escape sequences only — no quote, backslash-at-the-end, line terminator,
    `<`, `>` or `&` -/
theorem ctx_safe_jsStr (s : Str) : jsStrSafe (jsStrEscape s) = true := by
  unfold jsStrSafe jsStrEscape
  have := jsLoop_ok s.length s []
  simp only [List.append_nil] at this
  rw [this]
  rfl

/-- **whole URL in `href="{{.URL}}"`** (file, line, repository and branch links; the URL may come from a repository's
    URL template): the attribute cannot be left, there is no control character or space, and the URL the browser sees
    after character-reference decoding has no scheme other than http, https or mailto -/
theorem ctx_safe_urlAttr (s : Str) : urlAttrSafe (urlAttrChain s) = true := by
  have h := ctx_safe_urlTail (urlFilter s)
  have hs : schemeOk (unescapeRefs (urlAttrChain s)) = true := by
    unfold urlAttrChain
    rw [unescape_htmlEscape_url _ (urlNormalize_bytes _)]
    exact schemeOk_normalize _ (url_filter_output_is_safe s)
  unfold urlAttrSafe
  unfold urlAttrChain at hs ⊢
  simp [h.1, h.2, hs]

/-- **C36, every modelled chain, every string**: what the chain writes is safe at its place -/
theorem C36_ctx_safe (c : Chain) (s : Str) : c.safe (c.apply s) = true := by
  cases c
  · exact ctx_safe_html s
  · exact ctx_safe_html s
  · exact ctx_safe_attr s
  · exact ctx_safe_nospace s
  · exact ctx_safe_urlAttr s
  · exact ctx_safe_urlQuery s
  · exact ctx_safe_jsStr s
  · have := ctx_safe_urlTail s
    simp [Chain.safe, Chain.apply, this.1, this.2]

/-- as evaluated by the driver -/
theorem C36_checkP (c : Chain) (s : Str) : checkP c (c.apply s) = true := C36_ctx_safe c s

/-! ### rendered as the *same* text -/

/-- **fidelity of HTML text, `<title>` and quoted attributes**: for every value without a NUL byte (valid UTF-8 or not),
    decoding the character references of what the page contains — what a browser does — gives back exactly the value:
    the page shows the value as text, nothing more and nothing less -/
theorem html_text_roundtrip (s : Str) (h0 : ∀ b ∈ s, b ≠ 0) : unescapeRefs (htmlEscape s) = s := by
  unfold htmlEscape htmlReplacer
  exact unescape_htmlEscape_loop s.length s (Nat.le_refl _) h0

/-! ### rendering never fails: the slice expressions of formatResults -/

theorem cutFrags_wf (n : Nat) : ∀ (frags : List Frag) (lastEnd : Int), 0 ≤ lastEnd → fragsWF n lastEnd frags = true →
    ∃ ps, cutFrags n lastEnd frags = some ps ∧ ps.length = frags.length ∧ tiles n lastEnd.toNat ps = true := by
  intro frags
  induction frags with
  | nil => intro le _ _; exact ⟨[], rfl, rfl, rfl⟩
  | cons f rest ih =>
    intro le hle hwf
    simp only [fragsWF, Bool.and_eq_true, decide_eq_true_eq] at hwf
    obtain ⟨⟨⟨h1, h2⟩, h3⟩, h4⟩ := hwf
    obtain ⟨ps, hps, hlen, htile⟩ := ih (f.off + f.len) (by omega) h4
    have hs1 : sliceOk n le f.off = true := by simp [sliceOk]; omega
    have hs2 : sliceOk n f.off (f.off + f.len) = true := by simp [sliceOk]; omega
    refine ⟨⟨le.toNat, f.off.toNat, (f.off + f.len).toNat, if rest.isEmpty then n else (f.off + f.len).toNat⟩ :: ps, ?_, ?_, ?_⟩
    · simp [cutFrags, hs1, hs2, hps]
    · simp [hlen]
    · cases rest with
      | nil =>
        have : ps = [] := List.eq_nil_of_length_eq_zero (by simpa using hlen)
        subst this
        simp [tiles]; omega
      | cons g r =>
        cases ps with
        | nil => simp at hlen
        | cons q qs =>
          simp [tiles, htile]; omega

/-- **formatResults never panics on a search result whose fragments are sorted, disjoint and inside the line** (what the
    searcher guarantees, property C02), and the `Pre`/`Match`/`Post` pieces it produces tile the line exactly -/
theorem format_never_fails (n : Nat) (frags : List Frag) : checkFormat n frags (formatLine n frags) = true := by
  unfold checkFormat
  by_cases hwf : fragsWF n 0 frags = true
  · obtain ⟨ps, hps, hlen, htile⟩ := cutFrags_wf n frags 0 (by omega) hwf
    simp [formatLine, hps, hlen, hwf]
    simpa using htile
  · simp [hwf]

/-- and it does panic when a fragment reaches beyond the line (the guarantee is needed) -/
example : formatLine 5 [⟨1, 2⟩, ⟨2, 9⟩] = none ∧ formatLine 5 [⟨1, 2⟩, ⟨3, 2⟩] = some [⟨0, 1, 3, 3⟩, ⟨3, 3, 5, 5⟩] := by decide

/-! ### rendering never fails: the template functions that handle index text -/

/-- **`LimitPre` never fails**, whatever the bytes and the limit: its slice expression is always in range -/
theorem limitPre_never_fails (limit : Nat) (pre : Str) : (limitPre limit pre).isSome = true := by
  unfold limitPre goSliceFrom
  split
  · rfl
  · rename_i h
    have : (0 : Int) ≤ (pre.length : Int) - limit ∧ (pre.length : Int) - limit ≤ (pre.length : Int) := by omega
    simp [this]
    try omega

/-- **`LimitPost` never fails** -/
theorem limitPost_never_fails (limit : Nat) (post : Str) : (limitPost limit post).isSome = true := by
  unfold limitPost goSliceTo
  split
  · rfl
  · rename_i h
    have : (0 : Int) ≤ (limit : Int) ∧ (limit : Int) ≤ (post.length : Int) := by omega
    simp [this]
    try omega

/-- what `LimitPre` shows is the skip marker followed by exactly the last `limit` bytes of the value, untouched (it may cut
    a multi-byte character: the escapers are proved for arbitrary bytes, so that is harmless) -/
theorem limitPre_shows_suffix (limit : Nat) (pre : Str) (h : limit ≤ pre.length) :
    limitPre limit pre = some (skippedMark (pre.length - limit) ++ pre.drop (pre.length - limit)) ∧
    (pre.drop (pre.length - limit)).length = limit := by
  unfold limitPre goSliceFrom
  have h1 : ¬ pre.length < limit := by omega
  have h2 : (0 : Int) ≤ (pre.length : Int) - limit ∧ (pre.length : Int) - limit ≤ (pre.length : Int) := by omega
  have h3 : ((pre.length : Int) - (limit : Int)).toNat = pre.length - limit := by omega
  simp [h1, h2, h3]
  omega

/-- whatever the template functions return is still escaped safely (the escaper theorems hold for every string) -/
theorem limited_text_is_escaped_safely (limit : Nat) (s out : Str) (_ : limitPre limit s = some out ∨ limitPost limit s = some out) :
    textSafe (htmlEscape out) = true := ctx_safe_html out

example : limitPre 3 [97, 98, 99, 100, 101] = some ([46, 46, 46, 40, 50, 32, 98, 121, 116, 101, 115, 32, 115, 107, 105, 112, 112, 101, 100, 41, 46, 46, 46] ++ [99, 100, 101]) := by decide
example : addLineNumbers [97, 10, 10, 98, 10] 10 true = [(6, [97]), (7, []), (8, [98])] ∧
    addLineNumbers [97, 10, 98] 10 false = [(11, [97]), (12, [98])] := by decide

/-- the model's rune loop is not cut short by its fuel: any larger fuel gives the same result -/
theorem model_loop_total (repl : Nat → Option Str) (s : Str) (k : Nat) :
    runeLoop repl (s.length + k) s = runeLoop repl s.length s := by
  induction k with
  | zero => rfl
  | succ j ih => rw [← Nat.add_assoc, runeLoop_fuel repl _ s (by omega), ih]

/-! ### generated-table obligations: the real templates, as escaped by the real html/template -/

def knownChains : List (List String) := Chain.all.map Chain.funcs

/-- an action is fine when: it only declares a variable (no output: the translator marks `{{$x := …}}` as
    `declaration`; an action without any escaper that is *not* a declaration stays `[]` and fails here); or its escapers are one of the modelled chains; or it
    is the int-valued `.Last.Num` in JS value position -/
def actionOk (a : String × String × List String) : Bool :=
  a.2.2 == ["declaration"] ||
  knownChains.contains a.2.2 ||
  (a.2.2 == ["_html_template_jsvalescaper"] && Gen.c36IntActions.contains (a.2.1, "int"))

/-- every `{{action}}` of every template reachable from the pages is escaped by a modelled chain -/
theorem table_every_action_is_modelled : Gen.c36Actions.all actionOk = true := by decide

/-- the templates are parsed by `html/template`, and package web never constructs a value of a type that switches
    escaping off (`template.HTML`, `JS`, `URL`, …) -/
theorem table_no_bypass : Gen.c36TemplateImports = ["html/template"] ∧ Gen.c36BypassUses = [] := by decide

/-- `text/template` is used in package web only for the repository URL templates (server.go's `texttemplate`, and the
    template maps of snippets.go), whose results flow into `href` actions -/
theorem table_text_template_uses :
    ∀ u ∈ Gen.c36TextTemplateUses, u ∈ ["server.go texttemplate.Must", "server.go texttemplate.New",
      "server.go texttemplate.Template", "snippets.go template.Template"] := by decide

/-- the table is not empty and contains each modelled chain at least once (no chain is modelled in vain) -/
theorem table_nonvacuous :
    60 ≤ Gen.c36Actions.length ∧
    ∀ c ∈ [Chain.html, .rcdata, .attr, .nospace, .urlAttr, .urlQuery, .jsStr],
      Gen.c36Actions.any (fun a => a.2.2 == c.funcs) = true := by decide

/-! ### non-vacuity -/

-- `<script>alert("1")</script>` as HTML text
example : htmlEscape [60, 115, 62, 34] = [38, 108, 116, 59, 115, 38, 103, 116, 59, 38, 35, 51, 52, 59] := by decide
-- `x onfocus=alert(1)` in an unquoted attribute: the space and `=` are escaped
example : nospaceEscape [120, 32, 111, 61] = [120, 38, 35, 51, 50, 59, 111, 38, 35, 54, 49, 59] := by decide
-- an invalid byte in an unquoted attribute becomes `&#xfffd;`
example : nospaceEscape [0xff] = [38, 35, 120, 102, 102, 102, 100, 59] := by decide
-- `javascript:x` as a link target is defanged; `https://x` is kept
example : urlAttrChain [106, 97, 118, 97, 115, 99, 114, 105, 112, 116, 58, 120] = [35, 90, 103, 111, 116, 109, 112, 108, 90] := by decide
example : urlAttrChain [104, 116, 116, 112, 115, 58, 47, 47, 120] = [104, 116, 116, 112, 115, 58, 47, 47, 120] := by decide
-- `";alert(1)//` inside a JS string: the quote becomes ", the slashes \/
example : jsStrEscape [34, 59, 47] = [92, 117, 48, 48, 50, 50, 59, 92, 47] := by decide
-- the safety predicates reject the raw payloads
example : textSafe [60, 115, 62] = false ∧ nospaceSafe [120, 32, 111] = false ∧ jsStrSafe [34, 59] = false ∧
    jsStrSafe [97, 92] = false ∧ urlAttrSafe [106, 97, 118, 97, 115, 99, 114, 105, 112, 116, 58, 120] = false := by decide

end ZoektModel.C36
