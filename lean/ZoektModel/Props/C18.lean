/-
C18 — The sharded searcher returns the union of per-shard answers.  Property theorems; lemmas in C18/Lemmas.lean.

Statement (properties.jsonl): searching a set of loaded shards returns the same files and matches as searching each
shard on its own with the original query and combining the answers: pre-selecting shards by repository filters,
rewriting those filters, and pre-evaluating 'type:repo' sub-queries never add or remove results. Listing returns
each repository once, with statistics summed over its shards.
-/
import ZoektModel.C18.Lemmas
import ZoektModel.Generated.QuerySwitches
namespace ZoektModel.C18
open ZoektModel.Query

/-- the hypothesis of the `BranchesRepos → Branch` rewrite: if the first filter child of the top-level `And` is a
    single-entry `BranchesRepos` for the branch `HEAD`, then in every listed repository `HEAD` names the first
    branch and only that one (the layout Sourcegraph indexes). Without it the statement is false
    (`C18_union_full_false`). -/
def HeadSafe (shards : List RShard) (cs : List Q) : Prop :=
  ∀ i l p br, firstFilter cs = some (i, .branchesRepos l, p) → l = [br] → br.1 = HEAD →
    ∀ rs ∈ shards, ∀ r ∈ rs.listed, HeadFirst r

theorem evalAll_false_of_mem (cs : List Q) (c : Q) (hc : c ∈ cs) (ctx s d) (h : eval c ctx s d = false) :
    eval (.and cs) ctx s d = false := by
  simp only [eval, evalAll_eq]
  rw [List.all_eq_false]
  exact ⟨c, hc, by simp [h]⟩

/-- **`doSelectRepoSet`**: for every loaded shard and every live document of it,
    the shard is selected and the rewritten query matches ⇔ the original `And` matches -/
theorem doSelectRepoSet_union_partial (ctx : List Shard) (shards : List RShard) (cs : List Q)
    (hwf : wf true true (.and cs) = true) (hH : HeadSafe shards cs)
    (rs : RShard) (hrs : rs ∈ shards) (d : Doc) (hl : rs.shard.live d = true) :
    (rs ∈ (doSelectRepoSet shards cs).1 ∧ eval (doSelectRepoSet shards cs).2 ctx rs.shard d = true) ↔
      eval (.and cs) ctx rs.shard d = true := by
  obtain ⟨r, hr, hlisted⟩ := live_listed rs d hl
  unfold doSelectRepoSet
  cases hff : firstFilter cs with
  | none => simp [hrs]
  | some x =>
    obtain ⟨i, c, pred⟩ := x
    obtain ⟨hci, hsel⟩ := firstFilter_spec cs i c pred hff
    have hcm : c ∈ cs := List.mem_of_getElem? hci
    -- a shard that is filtered out has no repository satisfying the predicate, so the child is false on `d`
    have hout : rs ∉ (filterShards pred shards).1 → eval (.and cs) ctx rs.shard d = false := by
      intro hn
      have h1 : ¬ (rs.failed = true ∨ rs.listed.any pred = true) := fun h => hn ((filterShards_mem pred shards rs).2 ⟨hrs, h⟩)
      have h2 : rs.listed.any pred = false := by
        cases h : rs.listed.any pred with
        | false => rfl
        | true => exact absurd (Or.inr h) h1
      have h3 : pred r = false := by
        rw [List.any_eq_false] at h2
        simpa using h2 r hlisted
      exact evalAll_false_of_mem cs c hcm ctx _ d (selPred_sound c pred hsel ctx _ d r hr h3)
    have hkeep : (rs ∈ (filterShards pred shards).1 ∧ eval (.and cs) ctx rs.shard d = true) ↔
        eval (.and cs) ctx rs.shard d = true := by
      constructor
      · exact fun h => h.2
      · intro h
        refine ⟨?_, h⟩
        apply Classical.byContradiction
        intro hn
        rw [hout hn] at h
        cases h
    simp only
    split
    · exact hkeep
    · split
      · exact hkeep
      · rename_i hne hall
        have hall' : (filterShards pred shards).2 = true := by simpa using hall
        cases hrep : replacement c with
        | none => exact hkeep
        | some c' =>
          simp only
          constructor
          · rintro ⟨hmem, hev⟩
            obtain ⟨_, hallp⟩ := filterShards_all pred shards hall' rs hmem
            have hp : pred r = true := List.all_eq_true.mp hallp r hlisted
            obtain ⟨he, hw⟩ := replacement_eval c c' pred hsel hrep ctx rs.shard d r hr hp (by
              intro l br hcl hl1 hb
              subst hcl
              exact hH i l pred br hff hl1 hb rs hrs r hlisted)
            have hwf' : wf true true (.and (cs.set i c')) = true := by
              simp only [wf, wfL_eq, List.all_eq_true] at hwf ⊢
              intro x hx
              rcases mem_set_cases cs i c' x hx with rfl | hx
              · exact hw
              · exact hwf x hx
            have hs := (simplify_pres (nb := true) rfl (scope_nt ctx (InShard rs.shard))
              (fun _ d hd => by obtain ⟨rfl, hl⟩ := hd; exact hl) _ hwf').2 rs.shard d ⟨rfl, hl⟩
            rw [hs] at hev
            simp only [eval, evalAll_eq] at hev ⊢
            rw [all_set cs (fun c => eval c ctx rs.shard d) i c c' hci he] at hev
            exact hev
          · intro h
            have hmem : rs ∈ (filterShards pred shards).1 := by
              apply Classical.byContradiction
              intro hn
              rw [hout hn] at h
              cases h
            refine ⟨hmem, ?_⟩
            obtain ⟨_, hallp⟩ := filterShards_all pred shards hall' rs hmem
            have hp : pred r = true := List.all_eq_true.mp hallp r hlisted
            obtain ⟨he, hw⟩ := replacement_eval c c' pred hsel hrep ctx rs.shard d r hr hp (by
              intro l br hcl hl1 hb
              subst hcl
              exact hH i l pred br hff hl1 hb rs hrs r hlisted)
            have hwf' : wf true true (.and (cs.set i c')) = true := by
              simp only [wf, wfL_eq, List.all_eq_true] at hwf ⊢
              intro x hx
              rcases mem_set_cases cs i c' x hx with rfl | hx
              · exact hw
              · exact hwf x hx
            have hs := (simplify_pres (nb := true) rfl (scope_nt ctx (InShard rs.shard))
              (fun _ d hd => by obtain ⟨rfl, hl⟩ := hd; exact hl) _ hwf').2 rs.shard d ⟨rfl, hl⟩
            rw [hs]
            simp only [eval, evalAll_eq] at h ⊢
            rw [all_set cs (fun c => eval c ctx rs.shard d) i c c' hci he]
            exact h

/-- the children `selectRepoSet` hands to `doSelectRepoSet` -/
def topChildren : Q → List Q
  | .and cs => cs
  | q => [q]

/-- **C18, shard pre-selection and filter rewrite** (`selectRepoSet`): for all sets of loaded shards (simple and
    compound, tombstoned repositories, shards whose repository list could not be cached), all queries without
    `type:repo` nodes (replaced before, see `typeRepo_*`) and without empty `Branch` patterns (C05's known class),
    every shard `rs` and every live document `d` of it:
    `rs` is selected and the rewritten query matches `d`  ⇔  the original query matches `d`. -/
theorem C18_union_partial (ctx : List Shard) (shards : List RShard) (q : Q)
    (hwf : wf true true q = true) (hH : HeadSafe shards (topChildren q))
    (rs : RShard) (hrs : rs ∈ shards) (d : Doc) (hl : rs.shard.live d = true) :
    (rs ∈ (selectRepoSet shards q).1 ∧ eval (selectRepoSet shards q).2 ctx rs.shard d = true) ↔
      eval q ctx rs.shard d = true := by
  have single : ∀ q, (∀ cs, q ≠ .and cs) → wf true true q = true → HeadSafe shards [q] →
      ((rs ∈ (doSelectRepoSet shards [q]).1 ∧ eval (simplify (doSelectRepoSet shards [q]).2) ctx rs.shard d = true) ↔
        eval q ctx rs.shard d = true) := by
    intro q _ hq hHq
    have hwf1 : wf true true (.and [q]) = true := by simpa [wf, wfL] using hq
    have h1 := doSelectRepoSet_union_partial ctx shards [q] hwf1 hHq rs hrs d hl
    have hand : eval (.and [q]) ctx rs.shard d = eval q ctx rs.shard d := by simp [eval, evalAll]
    rw [hand] at h1
    -- the result of doSelectRepoSet is well formed, so the final Simplify preserves it
    have hwf2 : wf true true (doSelectRepoSet shards [q]).2 = true := by
      unfold doSelectRepoSet
      cases hff : firstFilter [q] with
      | none => exact hwf1
      | some x =>
        obtain ⟨i, c, pred⟩ := x
        simp only
        split
        · exact hwf1
        · split
          · exact hwf1
          · cases hrep : replacement c with
            | none => exact hwf1
            | some c' =>
              simp only
              obtain ⟨hci, hsel⟩ := firstFilter_spec [q] i c pred hff
              have hw : wf true true c' = true := by
                cases c <;> simp [selPred] at hsel <;> simp only [replacement] at hrep
                all_goals first
                  | (simp only [Option.some.injEq] at hrep; subst hrep; rfl)
                  | skip
                -- BranchesRepos
                rename_i l
                split at hrep
                · split at hrep
                  · simp at hrep
                  · rename_i hne
                    simp only [Option.some.injEq] at hrep; subst hrep
                    simpa [wf] using hne
                · simp at hrep
              have hwf' : wf true true (.and ([q].set i c')) = true := by
                simp only [wf, wfL_eq, List.all_eq_true]
                intro x hx
                rcases mem_set_cases [q] i c' x hx with rfl | hx
                · exact hw
                · simp at hx; subst hx; exact hq
              exact (simplify_pres (nb := true) (ctx := ctx) rfl (scope_nt ctx (InShard rs.shard))
                (fun _ d hd => by obtain ⟨rfl, hl⟩ := hd; exact hl) _ hwf').1
    have hs := (simplify_pres (nb := true) rfl (scope_nt ctx (InShard rs.shard))
      (fun _ d hd => by obtain ⟨rfl, hl⟩ := hd; exact hl) _ hwf2).2 rs.shard d ⟨rfl, hl⟩
    rw [hs]
    exact h1
  cases q with
  | and cs => exact doSelectRepoSet_union_partial ctx shards cs hwf hH rs hrs d hl
  | _ => exact single _ (by intro cs h; cases h) hwf hH

/-- **C18, listing**: the aggregation of the per-shard entry lists (`shardedSearcher.List`, in any arrival order
    `perShard`) returns each repository name once, exactly the names some shard listed, each with its statistics
    summed over all its entries -/
theorem list_once_summed (perShard : List (List (Str × Stats))) :
    ((aggregate perShard).map (·.1)).Nodup ∧
    (∀ n, n ∈ (aggregate perShard).map (·.1) ↔ n ∈ perShard.flatten.map (·.1)) ∧
    ∀ o ∈ aggregate perShard, o.2 = sumFor o.1 perShard.flatten := by
  have inv : AggInv (aggregate perShard) perShard.flatten := by
    have := aggInv_fold perShard.flatten [] [] ⟨by simp, by simp [lookup]⟩
    simpa [aggregate] using this
  obtain ⟨h1, h2⟩ := inv
  refine ⟨h1, ?_, ?_⟩
  · intro n
    rw [← lookup_isSome_iff, h2 n]
    by_cases h : n ∈ perShard.flatten.map (·.1)
    · rw [if_pos h]; exact ⟨fun _ => h, fun _ => rfl⟩
    · rw [if_neg h]
      constructor
      · intro hh
        exact absurd hh (by decide)
      · intro hh
        exact absurd hh h
  · intro o ho
    have hl := lookup_of_mem _ h1 o ho
    rw [h2 o.1] at hl
    have hm : o.1 ∈ perShard.flatten.map (·.1) := by
      apply Classical.byContradiction
      intro hn
      rw [if_neg hn] at hl
      cases hl
    rw [if_pos hm] at hl
    exact (Option.some.inj hl).symm

/-- the driver's predicate holds of the model's aggregation -/
example : checkAggregate [[([97], [1, 10, 2, 0, 0, 0, 0]), ([98], [1, 5, 1, 0, 0, 0, 0])], [([97], [1, 7, 3, 0, 0, 0, 0])]]
    (aggregate [[([97], [1, 10, 2, 0, 0, 0, 0]), ([98], [1, 5, 1, 0, 0, 0, 0])], [([97], [1, 7, 3, 0, 0, 0, 0])]]) = true := by
  decide
example : aggregate [[([97], [1, 10]), ([98], [1, 5])], [([97], [1, 7])]] = [([97], [2, 17]), ([98], [1, 5])] := by decide

/-! ### the full statement is false on the unchanged tree (`HeadSafe` cannot be dropped): `BranchesRepos[HEAD:{1}]` on a
    repository whose only branch is `main` — replayed on the real code by corpus/C18/branchesrepos-head.json -/

def exRepo : Repo := ⟨[97], 1, [[109, 97, 105, 110]], 42, [], false⟩
def exDoc : Doc := ⟨0, [0], [102], [71, 111], [], [], []⟩
def exShard : RShard := { shard := ⟨[exRepo], [[71, 111]], 12, [exDoc]⟩, failed := false }
def exQ : Q := .branchesRepos [(HEAD, [1])]

theorem C18_union_full_false :
    ¬ ∀ (ctx : List Shard) (shards : List RShard) (q : Q), wf true true q = true →
      ∀ rs ∈ shards, ∀ d, rs.shard.live d = true →
        ((rs ∈ (selectRepoSet shards q).1 ∧ eval (selectRepoSet shards q).2 ctx rs.shard d = true) ↔
          eval q ctx rs.shard d = true) := by
  intro h
  have h1 := h [] [exShard] exQ (by decide) exShard (by simp) exDoc (by decide)
  have h2 : eval (selectRepoSet [exShard] exQ).2 [] exShard.shard exDoc = true := by decide
  have h3 : eval exQ [] exShard.shard exDoc = false := by decide
  have h4 : exShard ∈ (selectRepoSet [exShard] exQ).1 := by
    have : (selectRepoSet [exShard] exQ).1 = [exShard] := by rfl
    rw [this]; simp
  rw [h3] at h1
  exact absurd (h1.1 ⟨h4, h2⟩) (by simp)

/-! non-vacuity: a selection that drops a shard and rewrites the filter -/
def exRepoB : Repo := ⟨[98], 2, [HEAD], 42, [], false⟩
def exShardB : RShard := { shard := ⟨[exRepoB], [], 12, [⟨0, [0], [103], [], [], [], []⟩]⟩, failed := false, pos := 1 }
example : ((selectRepoSet [exShard, exShardB] (.and [.repoIDs [2], .substr [102] false false false])).1.map (·.pos),
    (selectRepoSet [exShard, exShardB] (.and [.repoIDs [2], .substr [102] false false false])).2)
    = ([1], .substr [102] false false false) := by rfl
example : HeadSafe [exShardB] (topChildren (.branchesRepos [(HEAD, [2])])) := by
  intro i l p br _ _ _ rs hrs r hr
  simp at hrs; subst hrs
  have : r = exRepoB := by simpa [RShard.listed, exShardB, exRepoB] using hr
  subst this
  intro j
  cases j with
  | zero => simp [exRepoB]
  | succ k => simp [exRepoB, HEAD]

end ZoektModel.C18
