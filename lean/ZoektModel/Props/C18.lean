/-
C18 — The sharded searcher returns the union of per-shard answers.  Property theorems; lemmas in C18/Lemmas.lean.

Statement (properties.jsonl): searching a set of loaded shards returns the same files and matches as searching each
shard on its own with the original query and combining the answers: pre-selecting shards by repository filters,
rewriting those filters, and pre-evaluating 'type:repo' sub-queries never add or remove results. Listing returns
each repository once, with statistics summed over its shards.
-/
import ZoektModel.C18.Lemmas
import ZoektModel.Generated.QuerySwitches
namespace ZoektModel.C18
open ZoektModel.Query

/-- **`doSelectRepoSet`**: for every loaded shard and every live document of it,
    the shard is selected and the rewritten query matches ⇔ the original `And` matches -/
theorem doSelectRepoSet_union_partial (ctx : List Shard) (shards : List RShard) (cs : List Q)
    (hwf : wf noEmpty true (.and cs) = true)
    (rs : RShard) (hrs : rs ∈ shards) (d : Doc) (hl : rs.shard.live d = true) :
    (rs ∈ (doSelectRepoSet shards cs).1 ∧ eval (doSelectRepoSet shards cs).2 ctx rs.shard d = true) ↔
      eval (.and cs) ctx rs.shard d = true :=
  doSelectRepoSet_union ctx shards cs hwf rs hrs d hl

/-- **C18, shard pre-selection and filter rewrite** (`selectRepoSet`): for all sets of loaded shards (simple and
    compound, tombstoned repositories, shards whose repository list could not be cached), all queries without
    `type:repo` nodes (replaced before, see `typerepo_equiv_partial`) and without empty `Branch` patterns (C05's
    known class), every shard `rs` and every live document `d` of it:
    `rs` is selected and the rewritten query matches `d`  ⇔  the original query matches `d`.
    (No hypothesis on branch layouts: since the `fix:` commits the model's — and the code's — `BranchesRepos → Branch`
    rewrite is guarded by "HEAD is the first and only so-named branch of every selected repository" and by a
    non-empty branch name; `headFirstB_spec`, `replacement_head`.) -/
theorem C18_union_partial (ctx : List Shard) (shards : List RShard) (q : Q)
    (hwf : wf noEmpty true q = true)
    (rs : RShard) (hrs : rs ∈ shards) (d : Doc) (hl : rs.shard.live d = true) :
    (rs ∈ (selectRepoSet shards q).1 ∧ eval (selectRepoSet shards q).2 ctx rs.shard d = true) ↔
      eval q ctx rs.shard d = true :=
  selectRepoSet_union ctx shards q hwf rs hrs d hl

/-- **C18 as evaluated by the driver** (`checkSelect`, run on the implementation's selection and rewritten tree) holds of
    the model's; `pos` records each shard's position in the loaded list -/
theorem C18_checkSelect_partial (shards : List RShard) (q : Q) (hwf : wf noEmpty true q = true)
    (hpos : ∀ (i : Nat) (rs : RShard), shards[i]? = some rs → rs.pos = i) :
    checkSelect shards q ((selectRepoSet shards q).1.map (·.pos)) (selectRepoSet shards q).2 = true := by
  simp only [checkSelect, List.all_eq_true]
  intro i _
  cases hi : shards[i]? with
  | none => rfl
  | some rs =>
    simp only [List.all_eq_true]
    intro d _
    cases hl : rs.shard.live d with
    | false => simp
    | true =>
      have hrs : rs ∈ shards := List.mem_of_getElem? hi
      have hU := C18_union_partial (corpus shards) shards q hwf rs hrs d hl
      have hc : ((selectRepoSet shards q).1.map (·.pos)).contains i = true ↔ rs ∈ (selectRepoSet shards q).1 := by
        rw [List.contains_iff_mem, List.mem_map]
        constructor
        · rintro ⟨rs', hm, hp⟩
          have hm' := selectRepoSet_subset shards q rs' hm
          obtain ⟨j, hj⟩ := List.getElem?_of_mem hm'
          have := hpos j rs' hj
          have hji : j = i := by omega
          subst hji
          rw [hi] at hj
          cases hj
          exact hm
        · intro hm
          exact ⟨rs, hm, hpos i rs hi⟩
      simp only [Bool.not_true, Bool.false_or, beq_iff_eq]
      apply Bool.eq_iff_iff.mpr
      rw [Bool.and_eq_true, hc]
      exact hU

/-- **C18, `type:repo` pre-evaluation** (`typeRepoSearcher.eval`): replacing every `type:repo` sub-query, innermost
    first and under any nesting of and/or/not/type/boost, by the `RepoSet` of the repositories the sharded `List`
    returns for its child never changes which live documents of the corpus match, and leaves no `type:repo` node.
    Hypotheses: shards of the current format in which every live repository has a document (`GoodShards`, the
    property's quantifier), no empty `Branch` pattern, no parser-internal wrapper. -/
theorem typerepo_equiv_partial (shards : List RShard) (hg : GoodShards shards) (q : Q)
    (hq : wf noEmpty false q = true) (hn : noScope q = true) :
    wf noEmpty true (typeRepoEval shards q) = true ∧
    ∀ s d, InCorpus (corpus shards) s d →
      eval (typeRepoEval shards q) (corpus shards) s d = eval q (corpus shards) s d :=
  typeRepoEval_spec shards hg q hq hn

/-- the sharded `List` returns exactly the repositories that have a live matching document in some shard -/
theorem sharded_list_exact_partial (shards : List RShard) (hg : GoodShards shards) (q : Q)
    (hq : wf noEmpty true q = true) (n : Str) :
    n ∈ shardedListNames shards q ↔
      ∃ rs ∈ shards, ∃ d ∈ rs.shard.docs, rs.shard.live d = true ∧ repoName rs.shard d = some n ∧
        eval q (corpus shards) rs.shard d = true :=
  shardedListNames_spec shards q hq hg n

/-- **C18, end to end on the model**: what the searcher stack evaluates — replace `type:repo`, pre-select shards and
    rewrite the filter, then in each selected shard simplify against the shard, expand and evaluate — selects a live
    document of a loaded shard exactly when the *original* query matches it: the union of per-shard answers -/
theorem C18_search_union_partial (shards : List RShard) (hg : GoodShards shards) (q : Q)
    (hq : wf noEmpty false q = true) (hn : noScope q = true)
    (rs : RShard) (hrs : rs ∈ shards) (d : Doc) (hd : d ∈ rs.shard.docs) (hl : rs.shard.live d = true) :
    (rs ∈ (selectRepoSet shards (typeRepoEval shards q)).1 ∧
      eval (expand (shardSimplify rs.shard (selectRepoSet shards (typeRepoEval shards q)).2)) (corpus shards) rs.shard d = true) ↔
    eval q (corpus shards) rs.shard d = true := by
  unfold typeRepoEval corpus
  obtain ⟨w1, e1⟩ := typeRepoEval_spec shards hg q hq hn
  have w2 := selectRepoSet_wf shards _ w1
  obtain ⟨hv, _⟩ := hg rs hrs
  have hin : InCorpus (shards.map (·.shard)) rs.shard d := ⟨List.mem_map.mpr ⟨rs, hrs, rfl⟩, hd, hl⟩
  obtain ⟨w3, e3⟩ := shardSimplify_pres (shards.map (·.shard)) (pb := noEmpty) rs.shard (branchOK_noEmpty _ _) hv _ w2
  have e4 := (expand_pres (scope_nt (shards.map (·.shard)) (InShard rs.shard)) _ w3).2 rs.shard d ⟨rfl, hl⟩
  rw [e4, e3 rs.shard d ⟨rfl, hl⟩, ← e1 rs.shard d hin]
  exact selectRepoSet_union (shards.map (·.shard)) shards _ w1 rs hrs d hl

/-- **C18, listing**: the aggregation of the per-shard entry lists (`shardedSearcher.List`, in any arrival order
    `perShard`) returns each repository name once, exactly the names some shard listed, each with its statistics
    summed over all its entries -/
theorem list_once_summed (perShard : List (List (Str × Stats))) :
    ((aggregate perShard).map (·.1)).Nodup ∧
    (∀ n, n ∈ (aggregate perShard).map (·.1) ↔ n ∈ perShard.flatten.map (·.1)) ∧
    ∀ o ∈ aggregate perShard, o.2 = sumFor o.1 perShard.flatten := by
  have inv : AggInv (aggregate perShard) perShard.flatten := by
    have := aggInv_fold perShard.flatten [] [] ⟨by simp, by simp [lookup]⟩
    simpa [aggregate] using this
  obtain ⟨h1, h2⟩ := inv
  refine ⟨h1, ?_, ?_⟩
  · intro n
    rw [← lookup_isSome_iff, h2 n]
    by_cases h : n ∈ perShard.flatten.map (·.1)
    · rw [if_pos h]; exact ⟨fun _ => h, fun _ => rfl⟩
    · rw [if_neg h]
      constructor
      · intro hh
        exact absurd hh (by decide)
      · intro hh
        exact absurd hh h
  · intro o ho
    have hl := lookup_of_mem _ h1 o ho
    rw [h2 o.1] at hl
    have hm : o.1 ∈ perShard.flatten.map (·.1) := by
      apply Classical.byContradiction
      intro hn
      rw [if_neg hn] at hl
      cases hl
    rw [if_pos hm] at hl
    exact (Option.some.inj hl).symm

/-- the driver's predicate holds of the model's aggregation -/
example : checkAggregate [[([97], [1, 10, 2, 0, 0, 0, 0]), ([98], [1, 5, 1, 0, 0, 0, 0])], [([97], [1, 7, 3, 0, 0, 0, 0])]]
    (aggregate [[([97], [1, 10, 2, 0, 0, 0, 0]), ([98], [1, 5, 1, 0, 0, 0, 0])], [([97], [1, 7, 3, 0, 0, 0, 0])]]) = true := by
  decide
example : aggregate [[([97], [1, 10]), ([98], [1, 5])], [([97], [1, 7])]] = [([97], [2, 17]), ([98], [1, 5])] := by decide

/-! ### generated-table obligations: the filter kinds `doSelectRepoSet` selects on and rewrites are the model's
    `selPred` / `replacement` kinds (translator table `QuerySwitches`) -/
theorem table_selectRepoSet : Gen.selectRepoSetCases =
    ["*query.RepoSet", "*query.RepoIDs", "*query.Repo", "*query.BranchesRepos", "*query.Meta", "default"] := by decide
theorem table_selectRepoSet_rewrite : Gen.selectRepoSetRewriteCases =
    ["*query.RepoSet", "*query.RepoIDs", "*query.Repo", "*query.Meta", "*query.BranchesRepos"] := by decide

/-! ### regression witnesses of the two defects fixed in /repo (corpus/C18): `BranchesRepos[HEAD:{1}]` on a repository
    whose only branch is `main` is no longer rewritten (before the fix it became `Branch{HEAD, exact}` = "first
    branch" and matched); an empty branch name is no longer rewritten (it became TRUE) -/

def exRepo : Repo := ⟨[97], 1, [[109, 97, 105, 110]], 42, [], false⟩
def exDoc : Doc := ⟨0, [0], [102], [71, 111], [], [], []⟩
def exShard : RShard := { shard := ⟨[exRepo], [[71, 111]], 12, [exDoc]⟩, failed := false }
def exQ : Q := .branchesRepos [(HEAD, [1])]

example : (selectRepoSet [exShard] exQ).2 = exQ := by rfl
example : eval (selectRepoSet [exShard] exQ).2 [] exShard.shard exDoc = false ∧ eval exQ [] exShard.shard exDoc = false := by
  decide
example : (selectRepoSet [exShard] (.branchesRepos [([], [1])])).2 = .branchesRepos [([], [1])] := by rfl
/-- the unguarded rewrite is not an equivalence here: `Branch{HEAD, exact}` matches, `BranchesRepos[HEAD]` does not -/
theorem head_rewrite_unguarded_false :
    eval (.branch HEAD true) [] exShard.shard exDoc ≠ eval exQ [] exShard.shard exDoc := by decide

/-! non-vacuity: a selection that drops a shard and rewrites the filter -/
def exRepoB : Repo := ⟨[98], 2, [HEAD], 42, [], false⟩
def exShardB : RShard := { shard := ⟨[exRepoB], [], 12, [⟨0, [0], [103], [], [], [], []⟩]⟩, failed := false, pos := 1 }
example : ((selectRepoSet [exShard, exShardB] (.and [.repoIDs [2], .substr [102] false false false])).1.map (·.pos),
    (selectRepoSet [exShard, exShardB] (.and [.repoIDs [2], .substr [102] false false false])).2)
    = ([1], .substr [102] false false false) := by rfl
/-- with HEAD first the rewrite does happen -/
example : (selectRepoSet [exShardB] (.and [.branchesRepos [(HEAD, [2])], .substr [102] false false false])).2
    = .and [.branch HEAD true, .substr [102] false false false] := by rfl
example : GoodShards [exShardB] := by
  · intro rs hrs
    simp at hrs; subst hrs
    refine ⟨by decide, ?_⟩
    intro r hr _
    have : r = exRepoB := by simpa [exShardB] using hr
    subst this
    exact ⟨⟨0, [0], [103], [], [], [], []⟩, by simp [exShardB], by simp [Shard.repoOf, exShardB]⟩
example : typeRepoEval [exShardB] (.and [.type 2 (.const true), .not (.type 2 (.repoIDs [9]))])
    = .and [.repoSet [([98], true)], .not (.repoSet [])] := by rfl

end ZoektModel.C18
