import ZoektModel.C18.Spec
import ZoektModel.C05.Lemmas
namespace ZoektModel.C18
open ZoektModel.Query

theorem placeholder_c18 : addStats [] [] = [] := rfl

end ZoektModel.C18
