/-
C04 — Search results do not depend on earlier or concurrent searches.  Property theorems; lemmas are in C04/Lemmas.lean.

Statement (properties.jsonl): for every sequence of searches, sequential or concurrent, against the same loaded index,
each search returns exactly what it returns when run alone on a freshly loaded index; under every supported
configuration, including the match-tree cache enabled by ZOEKT_DOCMATCHTREE_CACHE.

The theorems are about the model of the code *after* the `fix:` commit (fresh cursor per use, verified cache hit);
`legacy_shared_cursor_false` shows on the two-search witness that the code before the fix violates the statement.
-/
import ZoektModel.C04.Lemmas
namespace ZoektModel.C04

/-- every cached node was built from the shard's own metadata for the (field, value) it records -/
def CacheOk (sh : Shard) (c : Cache) : Prop := ∀ e ∈ c, e.want = sh.wantOf e.ident

theorem cacheOk_nil (sh : Shard) : CacheOk sh [] := by intro e h; cases h

theorem add_cacheOk (sh : Shard) (cap : Nat) (c : Cache) (e : Entry) (v : Nat)
    (hc : CacheOk sh c) (he : e.want = sh.wantOf e.ident) : CacheOk sh (add cap c e v) := by
  intro x hx
  rcases mem_add cap c e x v hx with h | h
  · subst h; exact he
  · exact hc x h

/-- **newMatchTree with the cache builds the same tree as on a fresh shard**, whatever the cache holds (as long as it
    was filled by this shard), whatever its capacity, whichever entries were evicted; and it keeps the cache sound. -/
theorem build_spec (sh : Shard) (cap : Nat) : ∀ (q : Q) (c : Cache) (ch : List Nat), CacheOk sh c →
    (build sh cap q c ch).1 = freshTree sh q ∧ CacheOk sh (build sh cap q c ch).2.1 := by
  intro q
  induction q with
  | atom a =>
    intro c ch hc
    unfold build
    simp only
    have hmiss : CacheOk sh (add cap c ⟨a.key, a.ident, sh.wantOf a.ident⟩ (ch.headD 0)) :=
      add_cacheOk sh cap c _ _ hc rfl
    split
    · rename_i e he
      split
      · rename_i hid
        have := hc e (lookup_mem c a.key e he)
        refine ⟨?_, hc⟩
        simp [freshTree, this, hid]
      · exact ⟨rfl, hmiss⟩
    · exact ⟨rfl, hmiss⟩
  | leaf p => intro c ch hc; exact ⟨rfl, hc⟩
  | all => intro c ch hc; exact ⟨rfl, hc⟩
  | none => intro c ch hc; exact ⟨rfl, hc⟩
  | and a b iha ihb =>
    intro c ch hc
    have ha := iha c ch hc
    have hb := ihb _ (build sh cap a c ch).2.2 ha.2
    simp only [build, freshTree]
    exact ⟨by rw [ha.1, hb.1], hb.2⟩
  | or a b iha ihb =>
    intro c ch hc
    have ha := iha c ch hc
    have hb := ihb _ (build sh cap a c ch).2.2 ha.2
    simp only [build, freshTree]
    exact ⟨by rw [ha.1, hb.1], hb.2⟩
  | not a ih =>
    intro c ch hc
    have ha := ih c ch hc
    simp only [build, freshTree]
    exact ⟨by rw [ha.1], ha.2⟩

/-- **C04, sequential histories**: for every history `qs`, every cache capacity (0 = cache off), every choice of
    eviction victims, every sound cache state the searcher starts from: the i-th search returns what `qs[i]` returns
    alone on a freshly loaded shard. -/
theorem C04_sequential (sh : Shard) (cap : Nat) : ∀ (qs : List Q) (c : Cache) (ch : List Nat), CacheOk sh c →
    HistoryIndependent sh cap qs c ch := by
  intro qs
  induction qs with
  | nil => intro c ch _; rfl
  | cons q qs ih =>
    intro c ch hc
    have hb := build_spec sh cap q c ch hc
    unfold HistoryIndependent at *
    simp only [runHistory, searchOnce, List.map_cons]
    rw [ih _ _ hb.2, hb.1]
    rfl

/-- the statement for a freshly loaded searcher -/
theorem C04_sequential_fresh (sh : Shard) (cap : Nat) (qs : List Q) (ch : List Nat) :
    runHistory sh cap qs [] ch = qs.map (solo sh) :=
  C04_sequential sh cap qs [] ch (cacheOk_nil sh)

/-- the predicate the executable statement `checkP` evaluates holds of the model's history vs. solo results -/
theorem C04_checkP (sh : Shard) (cap : Nat) (qs : List Q) (ch : List Nat) :
    checkP (runHistory sh cap qs [] ch) (qs.map (solo sh)) = true := by
  unfold checkP
  rw [C04_sequential_fresh]
  simp

/-- cache-off configuration as a special case (`C04_partial` of the design: capacity 0): the cache stays empty -/
theorem cache_off_stays_empty (sh : Shard) : ∀ (q : Q) (ch : List Nat), (build sh 0 q [] ch).2.1 = [] := by
  intro q
  induction q with
  | atom a => intro ch; simp [build, lookup, add]
  | leaf p => intro ch; rfl
  | all => intro ch; rfl
  | none => intro ch; rfl
  | and a b iha ihb => intro ch; simp only [build]; rw [iha]; exact ihb _
  | or a b iha ihb => intro ch; simp only [build]; rw [iha]; exact ihb _
  | not a ih => intro ch; simp only [build]; exact ih _

/-- the cache never exceeds its capacity -/
theorem build_length (sh : Shard) (cap : Nat) : ∀ (q : Q) (c : Cache) (ch : List Nat), c.length ≤ cap →
    (build sh cap q c ch).2.1.length ≤ cap := by
  intro q
  induction q with
  | atom a =>
    intro c ch h
    unfold build
    simp only
    split
    · split
      · exact h
      · exact add_length cap c _ _ h
    · exact add_length cap c _ _ h
  | leaf p => intro c ch h; exact h
  | all => intro c ch h; exact h
  | none => intro c ch h; exact h
  | and a b iha ihb => intro c ch h; simp only [build]; exact ihb _ _ (iha c ch h)
  | or a b iha ihb => intro c ch h; simp only [build]; exact ihb _ _ (iha c ch h)
  | not a ih => intro c ch h; simp only [build]; exact ih c ch h

/-! ### what a search returns alone: exactly the documents the query denotes -/

theorem eval_freshTree (sh : Shard) (d : Nat) (q : Q) : eval d (freshTree sh q) = evalQ sh d q := by
  induction q with
  | atom a => rfl
  | leaf p => rfl
  | all => rfl
  | none => rfl
  | and a b iha ihb => simp [freshTree, eval, evalQ, iha, ihb]
  | or a b iha ihb => simp [freshTree, eval, evalQ, iha, ihb]
  | not a ih => simp [freshTree, eval, evalQ, ih]

theorem freshTree_uniform (sh : Shard) (q : Q) : Uniform Cursor.fresh (freshTree sh q) := by
  induction q with
  | atom a => rfl
  | leaf p => rfl
  | all => rfl
  | none => trivial
  | and a b iha ihb => exact ⟨iha, ihb⟩
  | or a b iha ihb => exact ⟨iha, ihb⟩
  | not a ih => exact ih

/-- **a solo search returns exactly the matching documents, in document order** (the document loop with `nextDoc`
    skipping is sound and complete on a freshly built tree) -/
theorem solo_eq_filter (sh : Shard) (q : Q) :
    solo sh q = (List.range sh.numDocs).filter (fun d => evalQ sh d q) := by
  unfold solo runSearch
  rw [loop_spec sh.numDocs sh.numDocs (freshTree sh q) 0 Cursor.fresh (freshTree_uniform sh q) (by simp [Cursor.start, Cursor.fresh]) (by omega)]
  rw [List.range_eq_range']
  simp only [Nat.sub_zero]
  congr 1
  funext d
  exact eval_freshTree sh d q

/-- hence every search of every history returns exactly the documents its query denotes -/
theorem C04_history_denotation (sh : Shard) (cap : Nat) (qs : List Q) (ch : List Nat) :
    runHistory sh cap qs [] ch = qs.map (fun q => (List.range sh.numDocs).filter (fun d => evalQ sh d q)) := by
  rw [C04_sequential_fresh]
  congr 1
  funext q
  exact solo_eq_filter sh q

/-! ### concurrent searches: every interleaving of the cache operations -/

def truePred (sh : Shard) (a : Atom) : List Bool := predOf sh (sh.wantOf a.ident)

/-- invariant of one thread: what it obtained so far, followed by what the remaining atoms should get, is what the
    original atom list should get; a pending (computed, not yet added) node is sound -/
def ThreadOk (sh : Shard) (orig : List Atom) (t : Thread) : Prop :=
  t.got ++ t.todo.map (truePred sh) = orig.map (truePred sh) ∧ ∀ e, t.pending = some e → e.want = sh.wantOf e.ident

theorem stepThread_ok (sh : Shard) (cap : Nat) (c : Cache) (t : Thread) (v : Nat) (orig : List Atom)
    (hc : CacheOk sh c) (ht : ThreadOk sh orig t) :
    CacheOk sh (stepThread sh cap c t v).1 ∧ ThreadOk sh orig (stepThread sh cap c t v).2 := by
  unfold stepThread
  split
  · rename_i e he
    exact ⟨add_cacheOk sh cap c e v hc (ht.2 e he), ⟨by simpa using ht.1, by intro e' h; cases h⟩⟩
  · rename_i hnone
    split
    · exact ⟨hc, ht⟩
    · rename_i a rest htodo
      have hgot : (t.got ++ [truePred sh a]) ++ rest.map (truePred sh) = orig.map (truePred sh) := by
        have := ht.1
        rw [htodo] at this
        simpa using this
      have hmiss : ThreadOk sh orig
          { todo := rest, pending := some ⟨a.key, a.ident, sh.wantOf a.ident⟩, got := t.got ++ [predOf sh (sh.wantOf a.ident)] } :=
        ⟨hgot, by intro e h; cases h; rfl⟩
      simp only
      split
      · rename_i e he
        split
        · rename_i hid
          have hw := hc e (lookup_mem c a.key e he)
          refine ⟨hc, ⟨?_, by intro e' h; cases h⟩⟩
          simp only
          rw [hw, hid]
          exact hgot
        · exact ⟨hc, hmiss⟩
      · exact ⟨hc, hmiss⟩

/-- the invariant of the whole system: sound cache, and thread `i` is consistent with the atom list `origs[i]` -/
def SysOk (sh : Shard) (origs : List (List Atom)) (c : Cache) (ts : List Thread) : Prop :=
  CacheOk sh c ∧ ts.length = origs.length ∧ ∀ (i : Nat) (t : Thread) (o : List Atom), ts[i]? = some t → origs[i]? = some o → ThreadOk sh o t

theorem runSched_ok (sh : Shard) (cap : Nat) (origs : List (List Atom)) : ∀ (s : List (Nat × Nat)) (c : Cache) (ts : List Thread),
    SysOk sh origs c ts → SysOk sh origs (runSched sh cap s c ts).1 (runSched sh cap s c ts).2 := by
  intro s
  induction s with
  | nil => intro c ts h; exact h
  | cons iv s ih =>
    intro c ts h
    obtain ⟨i, v⟩ := iv
    unfold runSched
    split
    · exact ih c ts h
    · rename_i t hti
      apply ih
      obtain ⟨hc, hlen, hts⟩ := h
      have hi : i < ts.length := by
        rcases Nat.lt_or_ge i ts.length with h | h
        · exact h
        · simp [List.getElem?_eq_none h] at hti
      have ho : ∃ o, origs[i]? = some o := ⟨origs[i]'(by omega), by simp [hlen ▸ hi]⟩
      obtain ⟨o, ho⟩ := ho
      have hstep := stepThread_ok sh cap c t v o hc (hts i t o hti ho)
      refine ⟨hstep.1, by simpa using hlen, ?_⟩
      intro j t' o' hj hoj
      by_cases hij : j = i
      · subst hij
        rw [List.getElem?_set_self hi] at hj
        cases hj
        rw [ho] at hoj
        cases hoj
        exact hstep.2
      · rw [List.getElem?_set_ne (Ne.symm hij)] at hj
        exact hts j t' o' hj hoj

theorem assemble_fresh (sh : Shard) : ∀ (q : Q) (rest : List (List Bool)),
    assemble q ((atomsOf q).map (truePred sh) ++ rest) = (freshTree sh q, rest) := by
  intro q
  induction q with
  | atom a => intro rest; simp [assemble, atomsOf, freshTree, truePred]
  | leaf p => intro rest; simp [assemble, atomsOf, freshTree]
  | all => intro rest; simp [assemble, atomsOf, freshTree]
  | none => intro rest; simp [assemble, atomsOf, freshTree]
  | and a b iha ihb =>
    intro rest
    simp only [assemble, atomsOf, freshTree, List.map_append, List.append_assoc]
    rw [iha, ihb]
  | or a b iha ihb =>
    intro rest
    simp only [assemble, atomsOf, freshTree, List.map_append, List.append_assoc]
    rw [iha, ihb]
  | not a ih =>
    intro rest
    simp only [assemble, atomsOf, freshTree]
    rw [ih]

/-- **C04, concurrent searches**: for every set of queries started on one searcher, every schedule of their atomic
    cache operations (`Get`, and `Add` with any eviction victim) of any length, every capacity, every sound initial
    cache: a search that has finished building its tree holds exactly the tree of a freshly loaded shard, and therefore
    (its document loop runs on nodes no other search can reach) returns its solo result. -/
theorem C04_interleaved (sh : Shard) (cap : Nat) (qs : List Q) (sched : List (Nat × Nat)) (c : Cache) (hc : CacheOk sh c)
    (i : Nat) (q : Q) (t : Thread)
    (hq : qs[i]? = some q)
    (ht : (runSched sh cap sched c (qs.map fun q => ⟨atomsOf q, none, []⟩)).2[i]? = some t)
    (hdone : t.todo = []) :
    (runSearch sh.numDocs (assemble q t.got).1).1 = solo sh q := by
  have h0 : SysOk sh (qs.map atomsOf) c (qs.map fun q => ⟨atomsOf q, none, []⟩) := by
    refine ⟨hc, by simp, ?_⟩
    intro j t' o hj ho
    simp only [List.getElem?_map] at hj ho
    cases hqj : qs[j]? with
    | none => simp [hqj] at hj
    | some q' =>
      simp [hqj] at hj ho
      subst hj; subst ho
      exact ⟨by simp, by intro e h; cases h⟩
  have hfin := runSched_ok sh cap (qs.map atomsOf) sched c _ h0
  have hoi : (qs.map atomsOf)[i]? = some (atomsOf q) := by simp [hq]
  have hthread := hfin.2.2 i t (atomsOf q) ht hoi
  have hgot : t.got = (atomsOf q).map (truePred sh) := by
    have := hthread.1
    rw [hdone] at this
    simpa using this
  have := assemble_fresh sh q []
  rw [List.append_nil] at this
  rw [hgot, this]
  rfl

/-! ### the code before the fix violates the statement -/

def witnessShard : Shard := { docRepo := [0, 0, 1], wantOf := fun _ => [true, false] }

/-- two searches for the same meta atom on a 3-document compound shard (documents 0 and 1 belong to the matching
    repository): the shared node's cursor is left at document 1, so the second search finds nothing — while alone it
    returns documents 0 and 1.  (Reproduced on the real code before the fix: corpus/C04/shared-cursor.json.) -/
theorem legacy_shared_cursor_false :
    ¬ (∀ (sh : Shard) (as : List Atom), Legacy.history sh as [] = as.map (fun a => solo sh (.atom a))) := by
  intro h
  have := h witnessShard [⟨0, 0⟩, ⟨0, 0⟩]
  revert this
  decide

/-! ### non-vacuity -/

/-- the witness history on the fixed model: both searches return documents 0 and 1, with the cache on -/
example : runHistory witnessShard 1 [.atom ⟨0, 0⟩, .atom ⟨0, 0⟩] [] [] = [[0, 1], [0, 1]] := by decide

/-- key collision: atoms with the same key and different idents get their own predicates -/
example :
    let sh : Shard := { docRepo := [0, 1, 2], wantOf := fun i => if i = 0 then [true, false, false] else [false, true, false] }
    runHistory sh 2 [.atom ⟨7, 0⟩, .atom ⟨7, 1⟩, .atom ⟨7, 0⟩] [] [] = [[0], [1], [0]] := by decide

/-- an interleaving in which thread 0's `Get` misses, thread 1 runs completely, then thread 0 adds -/
example :
    let r := runSched witnessShard 1 [(0, 0), (1, 0), (1, 0), (0, 0)] [] [⟨[⟨0, 0⟩], none, []⟩, ⟨[⟨0, 0⟩], none, []⟩]
    r.2.map (·.got) = [[[true, true, false]], [[true, true, false]]] ∧ r.1.length = 1 := by decide

end ZoektModel.C04
