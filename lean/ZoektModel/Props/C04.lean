import ZoektModel.C04.Spec
namespace ZoektModel.C04

theorem eval_prepare (d e : Nat) (t : MT) : eval d (prepare e t) = eval d t := by
  induction t with
  | doc p c => rfl
  | all c => rfl
  | none => rfl
  | and a b iha ihb => simp [prepare, eval, iha, ihb]
  | or a b iha ihb => simp [prepare, eval, iha, ihb]
  | not a ih => simp [prepare, eval, ih]

end ZoektModel.C04
