/-
C08 — Case-insensitive literal and regexp search agree on all Unicode text.

Statement (properties.jsonl): a case-insensitive search treats a literal pattern the same whether it is evaluated as a
substring or as the equivalent regular expression: both forms return the same files with the same match ranges, for
text in any script.

The theorems are parametric in the fold tables `F` (`unicode.SimpleFold`, `unicode.ToLower`).  `C08_agree_partial`
proves the statement for every shard, document, pattern (≥ 3 runes; shorter ones are evaluated by the regexp engine
in both forms) and trigram selection, under the hypothesis that orbit membership and the lower-casing test coincide
on the runes involved (`AgreeOn`).  With Go's real tables that hypothesis fails for 21 classes of runes (found by the
exhaustive scan of the harness); `C08_full_false_lower_outside_orbit` / `C08_full_false_orbit_split` prove that on
such runes the model's two paths do differ (witnesses İ/i and ſ/s), i.e. that the unrestricted statement is false.
-/
import ZoektModel.C08.Lemmas
import ZoektModel.C08.Odometer
namespace ZoektModel.C08

/-- **C08 under fold-table agreement** (files and ranges, any shard, any trigram selection): if every pattern rune and
    every rune of the document are treated alike by orbit membership and by the lower-casing test, the
    case-insensitive substring form and the regexp form — an engine implementing `(?i)` by simple folding, conjoined
    with the same substring pre-filter — return the same match ranges on that document; in particular the document is
    returned by both or by neither. -/
theorem C08_agree_partial (F : Fold) (hv : VariantsComplete F) (sel : Nat × Nat) (pat : List Nat)
    (docs : List (List Nat)) (text : List Nat)
    (h1 : sel.1 + 3 ≤ pat.length) (h2 : sel.2 + 3 ≤ pat.length) (ha : AgreeOn F pat text) :
    substrSearch F sel pat docs text = regexSearch F sel pat docs text (idealEngine F pat text) := by
  have hAB := substrAll_eq_regexAll hv sel pat text h1 h2 ha
  unfold regexSearch idealEngine
  unfold substrSearch
  rw [hAB]
  split
  · split
    · rename_i _ he
      exact List.isEmpty_iff.mp he
    · rfl
  · simp

/-- **`generateCaseNgrams` is complete**: for fold tables whose orbits are cycles of length ≤ 8 (`FoldCyclic`; Go's are
    ≤ 4, checked exhaustively on every run), the Go loop — a mixed-radix odometer over the three orbits that stops
    when it is back at the original trigram — produces every member of the orbit product. -/
theorem generateCaseNgrams_complete (F : Fold) (hc : FoldCyclic F) : VariantsComplete F :=
  variantsComplete_of_cyclic F hc

/-- **C08 under fold-table agreement, with the trigram pre-filter proved complete** (no hypothesis on
    `generateCaseNgrams` left): see `C08_agree_partial`. -/
theorem C08_agree_cyclic_partial (F : Fold) (hc : FoldCyclic F) (sel : Nat × Nat) (pat : List Nat)
    (docs : List (List Nat)) (text : List Nat)
    (h1 : sel.1 + 3 ≤ pat.length) (h2 : sel.2 + 3 ≤ pat.length) (ha : AgreeOn F pat text) :
    substrSearch F sel pat docs text = regexSearch F sel pat docs text (idealEngine F pat text) :=
  C08_agree_partial F (variantsComplete_of_cyclic F hc) sel pat docs text h1 h2 ha

/-- the same for all documents of the shard at once: identical result lists, hence identical sets of files -/
theorem C08_agree_shard_partial (F : Fold) (hv : VariantsComplete F) (sel : Nat × Nat) (pat : List Nat)
    (docs : List (List Nat)) (h1 : sel.1 + 3 ≤ pat.length) (h2 : sel.2 + 3 ≤ pat.length)
    (ha : ∀ d ∈ docs, AgreeOn F pat d) :
    docs.map (substrSearch F sel pat docs) = docs.map (fun d => regexSearch F sel pat docs d (idealEngine F pat d)) := by
  apply List.map_congr_left
  intro d hd
  exact C08_agree_partial F hv sel pat docs d h1 h2 (ha d hd)

/-- the result does not depend on which two trigrams the index statistics select (under the same hypothesis) -/
theorem substr_selection_irrelevant_partial (F : Fold) (hv : VariantsComplete F) (sel sel' : Nat × Nat) (pat : List Nat)
    (docs : List (List Nat)) (text : List Nat)
    (h1 : sel.1 + 3 ≤ pat.length) (h2 : sel.2 + 3 ≤ pat.length)
    (h1' : sel'.1 + 3 ≤ pat.length) (h2' : sel'.2 + 3 ≤ pat.length) (ha : AgreeOn F pat text) :
    substrSearch F sel pat docs text = substrSearch F sel' pat docs text := by
  unfold substrSearch
  rw [substrAll_eq_regexAll hv sel pat text h1 h2 ha, substrAll_eq_regexAll hv sel' pat text h1' h2' ha]

/-- the match size reported by the substring path is the byte length of the *text's* spelling, not the pattern's -/
theorem match_size_is_text_span (F : Fold) (pat text : List Nat) (p : Nat) (ha : AgreeOn F pat text)
    (ho : orbitEqAt F pat (text.drop p) = true) :
    matchContentCI F pat text p = (spanBytes text p pat.length, true) := by
  have hag := agreeOn_drop ha p
  have h1 := cfe_size pat (text.drop p) 0 hag ho
  have h2 := cfe_ok pat (text.drop p) 0 hag
  unfold matchContentCI toLower spanBytes
  rw [Prod.ext_iff]
  exact ⟨by rw [h1]; omega, by rw [h2, ho]⟩

/-- **C08 by construction**: a `query.Regexp` whose tree is a bare literal (of at least 3 bytes) is evaluated by the very
    same match tree as the `query.Substring` with that pattern — for every text, no fold-table hypothesis. -/
theorem C08_by_construction (rs : List Nat) (cs : Bool) (h : byteLen rs ≥ 3) :
    treeOfRegexpLit rs false cs = treeOfSubstring rs cs := by
  unfold treeOfRegexpLit treeOfSubstring
  simp [h]

/-- … and a literal carrying `(?i)` is evaluated as the case-insensitive substring, whatever the query's case flag -/
theorem C08_by_construction_folded (rs : List Nat) (cs : Bool) (h : byteLen rs ≥ 3) :
    treeOfRegexpLit rs true cs = treeOfSubstring rs false := by
  unfold treeOfRegexpLit treeOfSubstring
  simp [h]

/-- **the literal → substring optimisation of `RegexpQuery` keeps an inline `(?i)`**: a literal regexp carrying the
    FoldCase flag is searched case-insensitively whatever the query's case setting, and a literal without it follows
    the query's setting. (Before the fix `(?i)foo` became a case-sensitive search for `FOO`.) -/
theorem regexpQuery_respects_inline_fold (qcase : Bool) :
    atomCaseSensitive true qcase = false ∧ atomCaseSensitive false qcase = qcase := by
  cases qcase <;> exact ⟨rfl, rfl⟩

/-! ### Go's tables on the runes of the witnesses: the unrestricted statement is false -/

/-- `unicode.SimpleFold` / `unicode.ToLower` restricted to ASCII, `İ` U+0130, `ſ` U+017F, `K` U+212A (exact on these) -/
def goFold : Fold where
  simpleFold r :=
    if r == 75 then 107 else if r == 107 then 0x212A else if r == 0x212A then 75
    else if r == 83 then 115 else if r == 115 then 0x17F else if r == 0x17F then 83
    else if 65 ≤ r ∧ r ≤ 90 then r + 32 else if 97 ≤ r ∧ r ≤ 122 then r - 32 else r
  lower r := if 65 ≤ r ∧ r ≤ 90 then r + 32 else if r == 0x130 then 105 else if r == 0x212A then 107 else r

/-- `ibcdefgh` against the text `İbcdefgh` (in a shard that also has a document `ibc`), trigrams 2 and 5 selected: the substring form matches (9 bytes), the
    regexp form does not — `ToLower('İ') = 'i'` but `İ` is not in the orbit of `i`. -/
theorem C08_full_false_lower_outside_orbit :
    let pat := [105, 98, 99, 100, 101, 102, 103, 104]
    let text := [0x130, 98, 99, 100, 101, 102, 103, 104]
    substrSearch goFold (2, 5) pat [text, [105, 98, 99]] text = [(0, 9)] ∧
    regexSearch goFold (2, 5) pat [text, [105, 98, 99]] text (idealEngine goFold pat text) = [] := by
  decide

/-- `stop` against `stop ſtop`: the regexp form reports both occurrences, the substring form only the first —
    `ſ` is in the orbit of `s` but `ToLower('ſ') = 'ſ'`. -/
theorem C08_full_false_orbit_split :
    let pat := [115, 116, 111, 112]
    let text := [115, 116, 111, 112, 32, 0x17F, 116, 111, 112]
    substrSearch goFold (0, 1) pat [text] text = [(0, 4)] ∧
    regexSearch goFold (0, 1) pat [text] text (idealEngine goFold pat text) = [(0, 4), (5, 5)] := by
  decide

/-- hence: no theorem `∀ F …, substrSearch = regexSearch` without the agreement hypothesis -/
theorem C08_full_false :
    ¬ (∀ (F : Fold) (sel : Nat × Nat) (pat : List Nat) (docs : List (List Nat)) (text : List Nat),
        sel.1 + 3 ≤ pat.length → sel.2 + 3 ≤ pat.length →
        substrSearch F sel pat docs text = regexSearch F sel pat docs text (idealEngine F pat text)) := by
  intro h
  have w := C08_full_false_orbit_split
  have e := h goFold (0, 1) [115, 116, 111, 112] [[115, 116, 111, 112, 32, 0x17F, 116, 111, 112]]
    [115, 116, 111, 112, 32, 0x17F, 116, 111, 112] (by decide) (by decide)
  simp only at w
  rw [w.1, w.2] at e
  exact absurd e (by decide)

/-! ### non-vacuity of the positive theorem -/

/-- `k → K (U+212A) → K → k`: a period-3 orbit of Go's tables -/
example : Period goFold 107 3 :=
  ⟨by decide, by decide, by decide, fun k h0 h3 => by
    have : k = 1 ∨ k = 2 := by omega
    rcases this with rfl | rfl <;> decide⟩

/-- the hypothesis holds and the conclusion is a real match: `Kelvin`-style folding, `k` against `K` (U+212A) -/
example : foldAgree goFold 107 0x212A = true ∧ foldAgree goFold 75 107 = true := by decide
example : substrSearch goFold (0, 0) [97, 107, 98] [[65, 0x212A, 66]] [65, 0x212A, 66] = [(0, 5)] := by decide
example : (generateCaseNgrams goFold (97, 107, 98)).length = 12 := by decide
/-- … and fails exactly where expected -/
example : foldAgree goFold 105 0x130 = false ∧ foldAgree goFold 115 0x17F = false := by decide

end ZoektModel.C08
