/-
C12 — A killed indexer leaves the old or the new index, never a mix.  Property theorems.

Statement (properties.jsonl): if an indexing run is killed at any point while writing or installing a repository's
shards (full build, delta build, or metadata update), a searcher that loads the index directory afterwards sees for
that repository either exactly the previous index or exactly the new one: never a truncated shard, a missing
repository or a mixture of old and new shards.  A run that reports success has installed the complete new index.
Quantifier: every filesystem mutation point of a build that replaces an existing index with one that has more, fewer
or the same number of shards, including delta builds that rewrite metadata sidecars; plus failures of individual renames.
-/
import ZoektModel.C12.FileWise
namespace ZoektModel.C12

/-! ## old-or-new at every crash point: true exactly for the single-rename scenarios -/

/-- **C12 (crash), restricted**: in an `atomic` scenario, for every iteration order of `artifactPaths` and of
    `toDelete` and every crash point `k`, the loader sees exactly the old or exactly the new index.
    Excluded inputs: every scenario with two or more visible mutations (see `C12_crash_full_false`). -/
theorem C12_crash_partial (s : Scn) (hwf : s.WF = true) (hat : atomic s = true)
    (ro : List (Path × Path)) (hro : ro.Perm (artifacts s))
    (dord : List Path) (hd : dord.Perm (toDeleteAfter s ro)) (k : Nat) :
    OldOrNew s (crashDir s ro dord (fun _ => false) k) :=
  (atomic_all s hwf hat ro hro dord hd (fun _ => false)).2 k

/-- **C12 (fault), restricted**: in an `atomic` scenario, whichever renames/removals fail, the directory after the
    run — and after a crash at any point of such a run — shows exactly the old or exactly the new index. -/
theorem C12_fault_partial (s : Scn) (hwf : s.WF = true) (hat : atomic s = true)
    (ro : List (Path × Path)) (hro : ro.Perm (artifacts s))
    (dord : List Path) (hd : dord.Perm (toDeleteAfter s ro)) (fails : Nat → Bool) :
    OldOrNew s (finalDir s ro dord fails) ∧ ∀ k, OldOrNew s (crashDir s ro dord fails k) :=
  atomic_all s hwf hat ro hro dord hd fails

/-- the full crash statement (all well-formed scenarios) -/
def C12_crash_full : Prop :=
  ∀ (s : Scn), s.WF = true → ∀ (ro : List (Path × Path)), ro.Perm (artifacts s) →
    ∀ (dord : List Path), dord.Perm (toDeleteAfter s ro) → ∀ k, OldOrNew s (crashDir s ro dord (fun _ => false) k)

/-- a two-shard index rebuilt as two shards -/
def witness22 : Scn := ⟨false, false, false, false, 2, [false, false]⟩

/-- **the full crash statement is false**: two shards replaced by two shards, killed after the first rename:
    new shard 0 next to old shard 1. -/
theorem C12_crash_full_false : ¬ C12_crash_full := by
  intro h
  have h := h witness22 (by decide) (artifacts witness22) (List.Perm.refl _) [] (by decide) 5
  rcases h with h | h
  · have := h.1 0
    revert this; decide
  · have := h.1 1
    revert this; decide

/-- a one-shard index with a sidecar (left by a delta run) rebuilt in full as one shard: same number of shards,
    still two visible mutations (rename of the shard, removal of the stale sidecar) -/
def witness11m : Scn := ⟨false, false, false, false, 1, [true]⟩

/-- killed between the rename and the removal, the *new* shard is read with the *old* sidecar's metadata -/
theorem C12_crash_full_false_sidecar :
    ¬ OldOrNew witness11m (crashDir witness11m (artifacts witness11m) [Path.side 0] (fun _ => false) 3) := by
  intro h
  rcases h with h | h
  · have := h.1 0
    revert this; decide
  · have := h.1 0
    revert this; decide

/-- a delta run on a one-shard index: the new shard becomes visible before the sidecar that tombstones the paths it replaces -/
def witnessDelta : Scn := ⟨true, false, false, false, 1, [false]⟩

theorem C12_crash_full_false_delta :
    ¬ OldOrNew witnessDelta (crashDir witnessDelta (artifacts witnessDelta) [] (fun _ => false) 5) := by
  intro h
  rcases h with h | h
  · have := h.1 1
    revert this; decide
  · have := h.1 0
    revert this; decide

/-- the full fault statement -/
def C12_fault_full : Prop :=
  ∀ (s : Scn), s.WF = true → ∀ (ro : List (Path × Path)), ro.Perm (artifacts s) →
    ∀ (dord : List Path), dord.Perm (toDeleteAfter s ro) → ∀ fails, OldOrNew s (finalDir s ro dord fails)

/-- **the full fault statement is false**: two shards over two shards, the second rename fails -/
theorem C12_fault_full_false : ¬ C12_fault_full := by
  intro h
  have h := h witness22 (by decide) (artifacts witness22) (List.Perm.refl _) [] (by decide) (fun t => t == 1)
  rcases h with h | h
  · have := h.1 0
    revert this; decide
  · have := h.1 1
    revert this; decide

/-! ## clauses that hold in every scenario -/

/-- **C12 (success ⇒ installed)**: for every well-formed scenario, every iteration order and every set of failing
    renames/removals, if `Finish` returns nil then the directory shows exactly the complete new index. -/
theorem C12_success (s : Scn) (hwf : s.WF = true)
    (ro : List (Path × Path)) (hro : ro.Perm (artifacts s))
    (dord : List Path) (hd : dord.Perm (toDeleteAfter s ro)) (fails : Nat → Bool)
    (hok : (finish s ro dord fails).2 = false) :
    SameView (finalDir s ro dord fails) (newDir s) :=
  success_sameView s hwf ro hro dord hd fails hok

/-- **C12 (never a truncated shard)**: at every crash point of every run (any scenario, any orders, any failures)
    every file with a non-temporary name is complete. -/
theorem C12_no_truncated (s : Scn) (ro : List (Path × Path)) (hro : ro.Perm (artifacts s))
    (dord : List Path) (fails : Nat → Bool) (k : Nat) :
    NoTrunc (crashDir s ro dord fails k) :=
  crash_noTrunc s ro hro dord fails k

/-- **C12 (never a missing repository)**: if the repository was indexed before the run (in simple shards or in a compound
    shard), then at every crash point of every run — any scenario, any iteration orders, any failing renames/removals —
    and at its end, the searcher still sees at least one shard of it.  (True of the code with the `fix:` commit
    "Builder.Finish keeps the old shards when a rename failed"; false before, witnesses corpus/C12/w04, w06, w09.) -/
theorem C12_never_missing (s : Scn) (hwf : s.WF = true) (hold : 1 ≤ s.nOld ∨ s.compound = true)
    (ro : List (Path × Path)) (hro : ro.Perm (artifacts s))
    (dord : List Path) (hd : dord.Perm (toDeleteAfter s ro)) (fails : Nat → Bool) :
    (∀ k, Present (crashDir s ro dord fails k)) ∧ Present (finalDir s ro dord fails) :=
  ⟨crash_present s hwf hold ro hro dord hd fails, final_present s hwf hold ro hro dord hd fails⟩

/-- **C12 (the mixture is a mixture of whole files)**: in every scenario, for every iteration order and at every crash
    point of a run without failures, every file with a non-temporary name is exactly the file of the previous index or
    exactly the file of the new index at that name.  Together with `C12_no_truncated` and `C12_never_missing` this is what
    remains true where `C12_crash_full` fails. -/
theorem C12_crash_filewise (s : Scn) (hwf : s.WF = true)
    (ro : List (Path × Path)) (hro : ro.Perm (artifacts s))
    (dord : List Path) (hd : dord.Perm (toDeleteAfter s ro)) (k : Nat) :
    FileWise s (crashDir s ro dord (fun _ => false) k) :=
  crash_filewise s hwf ro hro dord hd k

/-- **C12 (write faults)**: a run in which the write of any of its temp files fails (full disk, file-size limit, I/O
    error) — shard or sidecar, any scenario — leaves, at every crash point of that run and at its end, exactly the old index
    visible and no truncated visible file; `Finish` returns the error (model: `writeFailOps`, no rename is ever issued). -/
theorem C12_write_fault (s : Scn) (j k : Nat) :
    SameView (applyAll (oldDir s) ((writeFailOps s j).take k)) (oldDir s) ∧
    NoTrunc (applyAll (oldDir s) ((writeFailOps s j).take k)) := by
  refine ⟨sameView_of _ _ (fun n => writeFail_same s j k _ (by simp)) (fun n => writeFail_same s j k _ (by simp)) ?_, ?_⟩
  · simp [cview, writeFail_same s j k Path.cshard (by simp), writeFail_same s j k Path.cmeta (by simp)]
  · intro p hp
    rw [writeFail_same s j k p hp]
    exact oldDir_noTrunc s p

/-! ## non-vacuity -/

example : atomic ⟨false, false, false, false, 1, [false]⟩ = true ∧ atomic ⟨true, false, false, true, 0, [true]⟩ = true := by decide
example : (finish witness22 (artifacts witness22) [] (fun _ => false)).2 = false := by decide
example : (finish witness22 (artifacts witness22) [] (fun t => t == 1)).2 = true := by decide
/-- a compound scenario exercising `SetTombstone` inside `Finish` -/
example : (finish ⟨false, true, true, true, 1, []⟩ [(Path.tmp 0, Path.shard 0)] [Path.cmeta, Path.cshard] (fun _ => false)).1.length = 4 := by decide

end ZoektModel.C12
