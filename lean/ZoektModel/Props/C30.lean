import ZoektModel.C30.Spec
namespace ZoektModel.C30

/-- `lessQueueItemPriority` is exactly the order the statement prescribes -/
theorem lessPrio_eq_rank (x y : Item) : lessPrio x y = rankLt (rank x) (rank y) := by
  unfold lessPrio rankLt rank
  cases x.indexed <;> cases y.indexed <;> cases hx : (x.state == stFail) <;> cases hy : (y.state == stFail) <;> simp

end ZoektModel.C30
