/-
C30 — The indexing queue behaves as a priority queue.

Statement: the indexing queue yields each enqueued repository once per enqueue, yields repositories whose latest
options are not yet indexed before up-to-date ones and non-failed before failed ones (first-in first-out
otherwise), honours failure backoff, and after being told which repositories still exist it tracks exactly those.
Quantifier: all sequences of add/update, pop, bump, mark-indexed (success and failure) and remove-missing
operations, including operations on repositories the queue does not know.

Model: C30/Model.lean (queue.go, backoff.go and the container/heap functions they drive, `heapIdx` maintained by
`Swap`/`Push`/`Pop` as in the Go text; `MaybeRemoveMissing` as fixed).  Lemmas: C30/Lemmas, Heap, Ops, Steps.
-/
import ZoektModel.C30.PropsLemmas
namespace ZoektModel.C30

/-- every state reachable from `NewQueue` by any operation history -/
def Reachable (q : Q) : Prop := ∃ d m ops, q = run (newQ d m) ops

theorem reachable_wf {q : Q} (h : Reachable q) : WF q := by
  obtain ⟨d, m, ops, rfl⟩ := h
  exact wf_run _ ops (wf_newQ d m)

/-- **heapIdx bookkeeping** (anchor state `heapIdx`: position in heap or -1), for every operation history:
    slot `i` of the heap holds a tracked repository whose item records `heapIdx = i`, no repository is in the heap
    twice, every tracked repository outside the heap records `-1`, and map keys are distinct -/
theorem heapIdx_consistent (d m : Int) (ops : List Op) : Cons (run (newQ d m) ops) :=
  (reachable_wf ⟨d, m, ops, rfl⟩).1

/-- **the heap array is heap-ordered** for `lessQueueItemPriority`, for every operation history -/
theorem heap_ordered (d m : Int) (ops : List Op) (k : Nat) (hk0 : 0 < k) (hk : k < (run (newQ d m) ops).pq.length) :
    less (run (newQ d m) ops) k ((k - 1) / 2) = false :=
  (reachable_wf ⟨d, m, ops, rfl⟩).2 k hk0 hk

/-- **the executable well-formedness check of the driver holds of every reachable model state**: the predicate `wfB`
    that the check evaluates on the *implementation's* state after every operation is a theorem of the model -/
theorem reachable_wfB {q : Q} (h : Reachable q) : wfB q = true := by
  obtain ⟨hc, hh⟩ := reachable_wf h
  simp only [wfB, consB, heapB, Bool.and_eq_true, List.all_eq_true, List.mem_range, Bool.or_eq_true, beq_iff_eq]
  refine ⟨⟨⟨⟨idsNodup_of_inj _ hc.inj, idsNodup_of_nodup _ hc.keys⟩, ?_⟩, ?_⟩, ?_⟩
  · intro i hi
    have := hc.slot i hi
    exact ⟨this.1, by simpa [at_] using this.2⟩
  · intro x hx
    have hf := find_of_mem_nodup hc.keys hx
    have hit : itemD q x.id = x := by simp [itemD, hf]
    by_cases hin : InPq q.pq x.id
    · left
      obtain ⟨k, hk, e⟩ := hin
      have : x.id ∈ q.pq := by
        rw [← e]; simp only [at_, List.getD_eq_getElem?_getD, List.getElem?_eq_getElem hk]; exact List.getElem_mem hk
      simpa using this
    · right
      have := hc.off x.id (by simp [tracked, hf]) hin
      rw [hit] at this; exact this
  · intro k hk
    by_cases hk0 : k = 0
    · left; exact hk0
    · right
      have := hh k (by omega) hk
      simp only [lessId, lessPrio_eq_rank, at_] at this
      simp only [Bool.not_eq_true']
      exact this

/-- `lessQueueItemPriority` is the lexicographic order the statement prescribes: not-indexed first, then
    non-failed, then first-in -/
theorem lessPrio_is_prescribed_order (x y : Item) : lessPrio x y = rankLt (rank x) (rank y) := lessPrio_eq_rank x y

/-- … and a strict weak order (irreflexive, transitive, incomparability transitive) -/
theorem lessPrio_strict_weak_order (q : Q) : SWO (lessId q) := lessId_swo q

/-- **Pop yields a minimum, once**: in every reachable state `Pop` returns `none` exactly when nothing is queued;
    otherwise it returns the options of a queued repository `a` such that no queued repository is strictly
    preferred to it, `a` is no longer queued afterwards, and every other queued repository still is -/
theorem pop_min {q : Q} (h : Reachable q) :
    ((pop q).2 = none ↔ q.pq = []) ∧
    ∀ o d, (pop q).2 = some (o, d) →
      ∃ a, InPq q.pq a ∧ (itemD q a).opts = o ∧
        (∀ b, InPq q.pq b → lessPrio (itemD q b) (itemD q a) = false) ∧
        ¬ InPq (pop q).1.pq a ∧ (∀ b, b ≠ a → (InPq (pop q).1.pq b ↔ InPq q.pq b)) := by
  have hp := pop_spec q (reachable_wf h)
  refine ⟨hp.2.2.1, ?_⟩
  intro o d hod
  obtain ⟨a, h1, h2, _, h4, h5⟩ := hp.2.2.2.1 o d hod
  refine ⟨a, h1, h2, h4, fun hin => ((h5 a).mp hin).2 rfl, fun b hb => ?_⟩
  rw [h5 b]; exact ⟨fun h => h.1, fun h => ⟨h, hb⟩⟩

/-- **the executable Pop clause of the driver holds of the model** (partial: for a popped item whose options are for
    itself — the other case is the known finding C30-pop-zero-opts): `popOk`, the predicate the check evaluates on the
    implementation's states around every `Pop`, is true of every reachable model state -/
theorem popOk_partial {q : Q} (h : Reachable q)
    (hown : ∀ o d, (pop q).2 = some (o, d) → ∀ a, InPq q.pq a → (itemD q a).opts = o → o.rid = a) :
    popOk q (pop q).1 (pop q).2 = true := by
  have hw := reachable_wf h
  cases he : q.pq.isEmpty
  case true =>
    rw [pop_empty q he]; simp [popOk, he]
  case false =>
    have hpos := length_pos_of_not_isEmpty (l := q.pq) (by rw [he]; exact Bool.false_ne_true)
    have hp := hpop_wf q hw hpos
    have hlen := hpop_length q hw hpos
    have hres := pop_nonempty q he
    let g : Item → Item := fun x => { x with date := tEpoch }
    have gid : ∀ x, (g x).id = x.id := fun _ => rfl
    generalize ha : (hpop q).2 = a at hp hres
    have hin : InPq q.pq a := by rw [hp.2.2.1]; exact ⟨0, hpos, rfl⟩
    have hta := (idx_of_inPq hw.1 a hin)
    have htp : tracked (hpop q).1 a = true := by rw [hp.2.1.tr]; exact hta.1
    have hopts : (itemD (hpop q).1 a).opts = (itemD q a).opts := hp.2.1.opts a
    have hrid := hown _ _ (by rw [hres]) a hin hopts.symm
    rw [hres]
    simp only [popOk, List.any_eq_true]
    refine ⟨itemD q a, itemD_mem_items hta.1, ?_⟩
    have hid : (itemD q a).id = a := itemD_id q a
    have hpost : ∀ b, itemD (modify (hpop q).1 a g) b = if b = a then g (itemD (hpop q).1 a) else itemD (hpop q).1 b := by
      intro b
      by_cases hb : b = a
      · subst hb; rw [if_pos rfl, itemD_modify_same _ _ g gid htp]
      · rw [if_neg hb, itemD_modify_other _ _ _ g gid hb]
    have hnotin : ¬ InPq (hpop q).1.pq a := fun hh => ((hp.2.2.2.1 a).mp hh).2 rfl
    simp only [Bool.and_eq_true, beq_iff_eq, Bool.not_eq_true', decide_eq_true_eq, List.all_eq_true, Bool.or_eq_true]
    refine ⟨⟨⟨⟨⟨⟨⟨⟨⟨?_, hopts.symm⟩, by rw [hopts] at hrid ⊢; rw [hid]; exact hrid⟩, ?_⟩, ?_⟩, ?_⟩, ?_⟩, ?_⟩, ?_⟩, ?_⟩
    · simp only [onHeap, decide_eq_true_eq]; exact hta.2
    · -- bystanders unchanged up to the heap position
      simp only [sameExcept, Bool.and_eq_true, beq_iff_eq, List.all_eq_true, Bool.or_eq_true]
      refine ⟨?_, ?_⟩
      · have hl : (modify (hpop q).1 a g).items.length = q.items.length := by
          have := congrArg List.length hp.2.1.keys
          simpa [modify, upd] using this
        rw [hl, hid]
        simp [hta.1]
      · intro x hx
        by_cases hxa : x.id = a
        · left; rw [hid]; simp [hxa]
        · right
          have hxi := mem_items_itemD hw.1 hx
          refine ⟨by rw [tracked_modify _ _ _ g gid, hp.2.1.tr]; exact hxi.2, ?_⟩
          rw [hpost, if_neg hxa]
          have := hp.2.1.it x.id
          rw [hxi.1] at this
          simp only [eqModIdx, beq_iff_eq]; exact this
    · have e0 : itemD (modify (hpop q).1 a g) (itemD q a).id = g (itemD (hpop q).1 a) := by rw [hid, hpost, if_pos rfl]
      rw [e0]
      have := hp.2.1.it a
      simp only [eqModIdx, beq_iff_eq]
      have e1 : setIdx 0 (g (itemD (hpop q).1 a)) = g (setIdx 0 (itemD (hpop q).1 a)) := rfl
      rw [e1, this]; rfl
    · intro y hy
      by_cases hon : onHeap y = true
      · right
        have hyi := mem_items_itemD hw.1 hy
        have hiny : InPq q.pq y.id := by
          by_cases hh : InPq q.pq y.id
          · exact hh
          · have := hw.1.off y.id hyi.2 hh
            rw [hyi.1] at this
            simp only [onHeap, decide_eq_true_eq] at hon; omega
        obtain ⟨k, hk, e⟩ := hiny
        have := hp.2.2.2.2.1 k hk
        rw [e] at this
        simp only [lessId, hyi.1, lessPrio_eq_rank] at this
        exact this
      · left; simpa using hon
    · rw [hid]
      cases hc : (modify (hpop q).1 a g).pq.contains a
      · rfl
      · exact absurd ((contains_iff_inPq _ _).mp hc) hnotin
    · rw [hid, hpost, if_pos rfl]
      simp only [onHeap, decide_eq_false_iff_not]
      show ¬ 0 ≤ (itemD (hpop q).1 a).heapIdx
      rw [hp.2.2.2.2.2]; omega
    · exact hlen
    · intro id hidm
      rw [hid]
      by_cases hia : id = a
      · left; exact hia
      · right
        exact (contains_iff_inPq _ _).mpr ((hp.2.2.2.1 id).mpr ⟨(contains_iff_inPq _ _).mp (List.contains_iff_mem.mpr hidm), hia⟩)

/-- **priority classes and FIFO**: what "no queued repository is strictly preferred" means in the statement's words —
    if the popped repository's latest options are already indexed then so are those of every queued one; among
    equally indexed ones a failed one is popped only if all are failed; and within the same class it has the
    smallest sequence number (first in, first out) -/
theorem pop_order {q : Q} (h : Reachable q) (o : Opts) (d : Int) (hod : (pop q).2 = some (o, d)) :
    ∃ a, InPq q.pq a ∧ (itemD q a).opts = o ∧ ∀ b, InPq q.pq b →
      ((itemD q a).indexed = true → (itemD q b).indexed = true) ∧
      ((itemD q b).indexed = (itemD q a).indexed → (itemD q a).state = stFail → (itemD q b).state = stFail) ∧
      ((itemD q b).indexed = (itemD q a).indexed → ((itemD q b).state = stFail ↔ (itemD q a).state = stFail) →
        (itemD q a).seq ≤ (itemD q b).seq) := by
  obtain ⟨a, h1, h2, h3, _⟩ := (pop_min h).2 o d hod
  refine ⟨a, h1, h2, fun b hb => ?_⟩
  have := h3 b hb
  rw [lessPrio_eq_rank, rankLt_false_iff] at this
  simp only [rank] at this
  refine ⟨?_, ?_, ?_⟩
  · intro ha
    cases hbi : (itemD q b).indexed
    · rw [ha, hbi] at this; simp at this
    · rfl
  · intro hi hs
    rw [hi] at this
    cases hbs : ((itemD q b).state == stFail)
    · have has : ((itemD q a).state == stFail) = true := by simpa using hs
      rw [hbs, has] at this; simp at this
    · simpa using hbs
  · intro hi hs
    rw [hi] at this
    have e : ((itemD q b).state == stFail) = ((itemD q a).state == stFail) := by
      cases h1 : ((itemD q b).state == stFail) <;> cases h2 : ((itemD q a).state == stFail) <;> simp_all
    rw [e] at this
    simp at this
    omega

/-- **once per enqueue**: a repository is in the heap at most once -/
theorem queued_once {q : Q} (h : Reachable q) (i j : Nat) (hi : i < q.pq.length) (hj : j < q.pq.length)
    (e : q.pq.getD i 0 = q.pq.getD j 0) : i = j :=
  (reachable_wf h).1.inj i j hi hj e

/-- **backoff is honoured by AddOrUpdate**: the only repository that can enter the heap is the one added, it was not
    queued, and its `backoffUntil` lies strictly before the clock reading; nothing leaves the heap -/
theorem backoff_honoured_add {q : Q} (h : Reachable q) (o : Opts) (now : Int) (b : Nat) :
    (InPq (addOrUpdate q o now).pq b ↔ InPq q.pq b ∨ (b = o.rid ∧ ¬ InPq q.pq o.rid ∧ (itemD q o.rid).untl < now)) :=
  (addOrUpdate_spec q o now (reachable_wf h)).2.2.1 b

/-- **backoff is honoured by Bump**: exactly the known, unqueued ids whose `backoffUntil` lies strictly before the
    clock reading enter the heap; the unknown ids are reported -/
theorem backoff_honoured_bump {q : Q} (h : Reachable q) (ids : List Nat) (now : Int) :
    (∀ b, InPq (bump q ids now).1.pq b ↔ InPq q.pq b ∨ (b ∈ ids ∧ tracked q b = true ∧ (itemD q b).untl < now)) ∧
    (bump q ids now).2 = ids.filter (fun id => !tracked q id) :=
  ⟨(bump_spec q ids now (reachable_wf h)).2.2.2.1, (bump_spec q ids now (reachable_wf h)).2.2.2.2.1⟩

/-- **a failure takes the repository off the queue and starts a backoff** that grows linearly with the number of
    consecutive failures and is capped: `backoffUntil = now + min((failures+1)·backoffDuration, maxBackoff)`;
    any other result never queues or unqueues anything -/
theorem fail_backs_off {q : Q} (h : Reachable q) (o : Opts) (st : Nat) (now : Int) :
    (∀ b, InPq (setIndexed q o st now).pq b ↔ InPq q.pq b ∧ ¬ (b = o.rid ∧ st = stFail)) ∧
    (st = stFail → (itemD (setIndexed q o st now) o.rid).untl = now + backoffDur q.dur q.maxB (itemD q o.rid).cf) :=
  ⟨(setIndexed_spec q o st now (reachable_wf h)).2.2.1, (setIndexed_spec q o st now (reachable_wf h)).2.2.2.1⟩

theorem backoffDur_linear_capped (dur maxB : Int) (cf : Nat) :
    backoffDur dur maxB cf = min (((cf : Int) + 1) * dur) maxB := by
  unfold backoffDur; split <;> omega

/-- no operation other than a failure report moves `backoffUntil` of another repository, and the backoff parameters
    never change: together with the three theorems above, a failed repository cannot re-enter the heap before its
    `backoffUntil` -/
theorem backoff_params_constant (d m : Int) (ops : List Op) :
    (run (newQ d m) ops).dur = (newQ d m).dur ∧ (run (newQ d m) ops).maxB = (newQ d m).maxB := by
  have : ∀ (ops : List Op) (q : Q), WF q → (run q ops).dur = q.dur ∧ (run q ops).maxB = q.maxB := by
    intro ops
    induction ops with
    | nil => intro q _; exact ⟨rfl, rfl⟩
    | cons op r ih =>
      intro q hw
      have h1 := ih (step q op) (wf_step q op hw)
      have h2 : (step q op).dur = q.dur ∧ (step q op).maxB = q.maxB := by
        cases op with
        | add o now => exact ⟨(addOrUpdate_spec q o now hw).2.2.2.2.2.1, (addOrUpdate_spec q o now hw).2.2.2.2.2.2⟩
        | idx o st now => exact ⟨(setIndexed_spec q o st now hw).2.2.2.2.2.1, (setIndexed_spec q o st now hw).2.2.2.2.2.2⟩
        | pop => exact ⟨(pop_spec q hw).2.2.2.2.2.1, (pop_spec q hw).2.2.2.2.2.2⟩
        | bump ids now => exact ⟨(bump_spec q ids now hw).2.2.2.2.2.1, (bump_spec q ids now hw).2.2.2.2.2.2⟩
        | rm ids => exact ⟨(removeMissing_spec q ids hw).2.2.2.2.1, (removeMissing_spec q ids hw).2.2.2.2.2⟩
      exact ⟨h1.1.trans h2.1, h1.2.trans h2.2⟩
  exact this ops _ (wf_newQ d m)

/-- **remove-missing is exact** (code as fixed): when it runs (the sizes differ) the queue afterwards tracks exactly
    the tracked repositories that are in `ids`, reports exactly the others, removes them from the heap, and leaves
    the rest as it was; when the sizes agree it does nothing -/
theorem remove_missing_exact {q : Q} (h : Reachable q) (ids : List Nat) :
    (q.items.length = ids.length → removeMissing q ids = (q, [])) ∧
    (q.items.length ≠ ids.length →
      (∀ b, tracked (removeMissing q ids).1 b = (tracked q b && ids.contains b)) ∧
      (∀ b, b ∈ (removeMissing q ids).2 ↔ tracked q b = true ∧ ids.contains b = false) ∧
      (∀ b, InPq (removeMissing q ids).1.pq b ↔ InPq q.pq b ∧ ids.contains b = true)) := by
  have hs := removeMissing_spec q ids (reachable_wf h)
  exact ⟨hs.2.1, fun hne => ⟨(hs.2.2.1 hne).1, (hs.2.2.1 hne).2.1, (hs.2.2.1 hne).2.2.1⟩⟩

/-- **the executable remove-missing clause of the driver holds of the model**: `rmOk`, the predicate the check
    evaluates on the implementation's states around every `MaybeRemoveMissing`, is true of every reachable model state -/
theorem rmOk_model {q : Q} (h : Reachable q) (ids : List Nat) :
    rmOk q (removeMissing q ids).1 ids (removeMissing q ids).2 = true := by
  have hw := reachable_wf h
  have hs := removeMissing_spec q ids hw
  unfold rmOk
  by_cases hlen : q.items.length = ids.length
  · rw [hs.2.1 hlen]; simp [hlen]
  · have hne : (q.items.length == ids.length) = false := by simpa using hlen
    rw [hne]
    obtain ⟨htr, hrem, hpq, hsame⟩ := hs.2.2.1 hlen
    have hw' := hs.1
    simp only [Bool.false_eq_true, if_false, Bool.and_eq_true, List.all_eq_true, beq_iff_eq, Bool.or_eq_true, Bool.not_eq_true']
    refine ⟨⟨⟨⟨⟨⟨?_, ?_⟩, ?_⟩, ?_⟩, ?_⟩, ?_⟩, ?_⟩
    · intro x hx
      have hxi := mem_items_itemD hw.1 hx
      rw [htr x.id, hxi.2]; simp
    · intro y hy
      have hyi := mem_items_itemD hw'.1 hy
      have hty := hyi.2
      rw [htr y.id] at hty
      simp only [Bool.and_eq_true] at hty
      refine ⟨hty.1, ?_⟩
      have := hsame y.id hty.2
      rw [hyi.1] at this
      simp only [eqModIdx, beq_iff_eq]; exact this.symm
    · intro id hid
      have := (hrem id).mp hid
      exact ⟨this.1, this.2⟩
    · intro x hx
      have hxi := mem_items_itemD hw.1 hx
      cases hc : ids.contains x.id
      · right
        exact List.contains_iff_mem.mpr ((hrem x.id).mpr ⟨hxi.2, hc⟩)
      · left; rfl
    · -- the reported ids are distinct: they are a sublist of the (distinct) map keys
      apply idsNodup_of_nodup
      show ((removeMissing q ids).2).Nodup
      unfold removeMissing
      rw [if_neg hlen]
      exact (List.filter_sublist).nodup hw.1.keys
    · intro id hid
      have := (hpq id).mp ((contains_iff_inPq _ _).mp (List.contains_iff_mem.mpr hid))
      exact ⟨this.2, (contains_iff_inPq _ _).mpr this.1⟩
    · intro id hid
      cases hc : ids.contains id
      · left; rfl
      · right
        exact (contains_iff_inPq _ _).mpr ((hpq id).mpr ⟨(contains_iff_inPq _ _).mp (List.contains_iff_mem.mpr hid), hc⟩)

/-- after `MaybeRemoveMissing ids` ran and every id of `ids` was added, the queue tracks exactly `ids` -/
theorem tracks_exactly_after_round {q : Q} (h : Reachable q) (ids : List Nat) (hne : q.items.length ≠ ids.length)
    (adds : List (Opts × Int)) (hadds : adds.map (·.1.rid) = ids) (b : Nat) :
    tracked (adds.foldl (fun q a => addOrUpdate q a.1 a.2) (removeMissing q ids).1) b = ids.contains b := by
  have hs := removeMissing_spec q ids (reachable_wf h)
  have key : ∀ (adds : List (Opts × Int)) (q' : Q), WF q' →
      tracked (adds.foldl (fun q a => addOrUpdate q a.1 a.2) q') b = (tracked q' b || (adds.map (·.1.rid)).contains b) := by
    intro adds
    induction adds with
    | nil => intro q' _; simp
    | cons a r ih =>
      intro q' hw'
      simp only [List.foldl_cons, List.map_cons, List.contains_cons]
      have ha := addOrUpdate_spec q' a.1 a.2 hw'
      rw [ih _ ha.1, ha.2.1 b, Bool.or_assoc]
  rw [key adds _ hs.1, (hs.2.2.1 hne).1 b, hadds]
  cases tracked q b <;> cases ids.contains b <;> rfl

/-- one round of the server loop: `MaybeRemoveMissing ids`, then `AddOrUpdate` for every id of `ids` -/
def serverRound (q : Q) (ids : List Nat) (adds : List (Opts × Int)) : Q :=
  adds.foldl (fun q a => addOrUpdate q a.1 a.2) (removeMissing q ids).1

/-- **the heuristic shortcut converges**: `MaybeRemoveMissing` skips its work when the number of tracked repositories
    equals the number of ids it is given, which can be wrong for one round; after two rounds of the server loop with the
    same duplicate-free `ids` the queue tracks exactly `ids` -/
theorem two_rounds_converge {q : Q} (h : Reachable q) (ids : List Nat) (hnd : ids.Nodup)
    (adds1 adds2 : List (Opts × Int)) (h1 : adds1.map (·.1.rid) = ids) (h2 : adds2.map (·.1.rid) = ids) (b : Nat) :
    tracked (serverRound (serverRound q ids adds1) ids adds2) b = ids.contains b := by
  have hw := reachable_wf h
  -- facts about one round from any well-formed state
  have round : ∀ (q : Q) (adds : List (Opts × Int)), WF q → adds.map (·.1.rid) = ids →
      WF (serverRound q ids adds) ∧
      (q.items.length ≠ ids.length → ∀ b, tracked (serverRound q ids adds) b = ids.contains b) ∧
      (q.items.length = ids.length → ∀ b, tracked (serverRound q ids adds) b = (tracked q b || ids.contains b)) := by
    intro q adds hw ha
    have hs := removeMissing_spec q ids hw
    refine ⟨(wf_adds adds _ hs.1 0).1, ?_, ?_⟩
    · intro hne b
      unfold serverRound
      rw [(wf_adds adds _ hs.1 b).2, (hs.2.2.1 hne).1 b, ha]
      cases tracked q b <;> cases ids.contains b <;> rfl
    · intro heq b
      unfold serverRound
      rw [(wf_adds adds _ hs.1 b).2, hs.2.1 heq, ha]
  have r1 := round q adds1 hw h1
  have r2 := round (serverRound q ids adds1) adds2 r1.1 h2
  by_cases hlen2 : (serverRound q ids adds1).items.length = ids.length
  case neg => exact r2.2.1 hlen2 b
  case pos =>
    rw [r2.2.2 hlen2 b]
    by_cases hlen1 : q.items.length = ids.length
    case neg => rw [r1.2.1 hlen1 b]; cases ids.contains b <;> rfl
    case pos =>
      -- both rounds skipped: the first round's state tracks T ∪ ids in as many entries as ids has, so T ⊆ ids
      rw [r1.2.2 hlen1 b]
      cases hb : ids.contains b
      · -- b tracked before but not in ids would make the tracked set strictly larger than ids
        cases ht : tracked q b
        · rfl
        · exfalso
          let T1 := (serverRound q ids adds1).items.map (·.id)
          have hT1n : T1.Nodup := r1.1.1.keys
          have hbT1 : b ∈ T1 := (tracked_iff_mem _ b).mp (by rw [r1.2.2 hlen1 b, ht]; rfl)
          have hsub : ∀ x ∈ ids, x ∈ T1.erase b := by
            intro x hx
            have hxb : x ≠ b := fun e => by
              rw [e] at hx
              have : ids.contains b = true := by simpa using hx
              rw [hb] at this; cases this
            apply (List.mem_erase_of_ne hxb).mpr
            apply (tracked_iff_mem _ x).mp
            rw [r1.2.2 hlen1 x]
            have : ids.contains x = true := by simpa using hx
            rw [this]; simp
          have := length_le_of_subset_nodup ids (T1.erase b) hnd hsub
          rw [List.length_erase_of_mem hbT1] at this
          have hl : T1.length = ids.length := by simpa [T1] using hlen2
          have hpos : 0 < T1.length := List.length_pos_of_mem hbT1
          omega
      · simp

/-- **the text before the fix is wrong** (DESIGN §8): `MaybeRemoveMissing` keyed by `item.opts.RepoID` leaves a repository
    that `SetIndexed` created tracked although it is not in `ids`, and reports id 0 instead -/
theorem remove_missing_as_written_false :
    let q := run (newQ 0 0) [.idx ⟨7, 0⟩ 2 100]
    tracked (removeMissingAsWritten q []).1 7 = true ∧ (removeMissingAsWritten q []).2 = [0] ∧
    tracked (removeMissing q []).1 7 = false ∧ (removeMissing q []).2 = [7] := by
  decide

/-- **yields each enqueued repository** (partial): in every reachable state the options `Pop` hands out are those stored
    for the queued repository `a` it takes off the heap, and they are either options *for `a`* (`o.rid = a`, set by the
    last `AddOrUpdate` for `a`) or the zero value.  The zero value is exactly the known finding C30-pop-zero-opts (an item
    created by `SetIndexed` and queued by `Bump`): for every other item the repository yielded is the one enqueued. -/
theorem pop_yields_own_or_zero_opts {q : Q} (h : Reachable q) (o : Opts) (d : Int) (hod : (pop q).2 = some (o, d)) :
    ∃ a, InPq q.pq a ∧ (itemD q a).opts = o ∧ (o.rid = a ∨ o = Opts.zero) ∧ ¬ InPq (pop q).1.pq a := by
  obtain ⟨a, h1, h2, _, h4, _⟩ := (pop_min h).2 o d hod
  obtain ⟨d0, m0, ops, rfl⟩ := h
  have := optsOK_run _ ops (optsOK_newQ d0 m0) a
  rw [h2] at this
  exact ⟨a, h1, h2, this.symm, h4⟩

unseal up down in
/-- **known finding C30-pop-zero-opts**: `Bump` queues an item that `SetIndexed` created for an unknown repository, and
    `Pop` then hands out zero-valued options: repository 7 was enqueued, options for repository 0 are yielded -/
theorem pop_zero_opts_witness :
    (pop (run (newQ 0 0) [.idx ⟨7, 1⟩ 2 100, .bump [7] 200])).2 = some (Opts.zero, 200) := by
  decide

/-! non-vacuity: a history exercising every operation, its heap, and a pop in priority order -/
def exOps : List Op :=
  [.add ⟨3, 1⟩ 10, .add ⟨1, 1⟩ 11, .add ⟨2, 1⟩ 12, .idx ⟨3, 1⟩ 2 13, .add ⟨5, 1⟩ 14, .idx ⟨1, 1⟩ 1 15,
   .add ⟨1, 1⟩ 16, .bump [1, 9] 1000, .rm [1, 2, 3], .add ⟨4, 2⟩ 1001]

set_option maxRecDepth 8000 in
unseal up down in
example : (run (newQ 5 50) exOps).pq = [2, 4, 3, 1] ∧ ((pop (run (newQ 5 50) exOps)).2.map (·.1)) = some ⟨2, 1⟩ ∧
    wfB (run (newQ 5 50) exOps) = true := by decide
example : Reachable (run (newQ 5 50) exOps) := ⟨5, 50, exOps, rfl⟩

end ZoektModel.C30
