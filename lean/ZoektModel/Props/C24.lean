import ZoektModel.C24.Spec
import ZoektModel.Generated.C24Wire
namespace ZoektModel.C24
theorem placeholder : True := trivial
end ZoektModel.C24
