/-
C24 — Wire conversion is lossless and the gRPC service is total.  Property theorems; lemmas in C24/Lemmas.lean,
translator tables in Generated/C24Wire.lean (regenerated from the working tree by every run).

Statement (properties.jsonl): every query, search option set, search result and repository listing survives
conversion to the wire format and back unchanged (up to the representation of empty collections). The gRPC search
service answers every well-formed wire request, including ones with unset or partially set fields, with a response
or an error status and never crashes the server.
-/
import ZoektModel.C24.Lemmas
import ZoektModel.Generated.C24Wire
namespace ZoektModel.C24
open ZoektModel

/-! ## queries: QFromProto ∘ QToProto = id on every well-formed query tree -/

mutual
/-- **C24, queries are lossless**: for every query tree of every exported node kind (`wf`: no nil child, no internal
    node, regexps/bitmaps that parse back to themselves, defined `Type`/`RawConfig` values), `QToProto` succeeds and
    `QFromProto` of the result is the original query. Structural induction over the tree. -/
theorem q_roundtrip (env : Env) : ∀ q : Q, wf env q = true →
    ∃ p, toProto q = .ok p ∧ fromProto env p = .ok q
  | .nilQ, h => by simp [wf] at h
  | .caseQ _, h => by simp [wf] at h
  | .rawConfig f, h => by
    simp only [wf, decide_eq_true_eq] at h
    exact ⟨_, rfl, by simp [fromProto, raw_roundtrip f h]⟩
  | .regexp re a b c, h => by
    simp only [wf, beq_iff_eq] at h
    exact ⟨_, rfl, by simp [fromProto, h]⟩
  | .symbol e, h => by
    simp only [wf] at h
    obtain ⟨p, h1, h2⟩ := q_roundtrip env e h
    exact ⟨.symbol p, by simp [toProto, h1], by simp [fromProto, h2]⟩
  | .language _, _ => ⟨_, rfl, rfl⟩
  | .const _, _ => ⟨_, rfl, rfl⟩
  | .repo re, h => by
    simp only [wf] at h
    exact ⟨_, rfl, by simp [fromProto, h]⟩
  | .repoRegexp re, h => by
    simp only [wf] at h
    exact ⟨_, rfl, by simp [fromProto, h]⟩
  | .branchesRepos l, h => by
    simp only [wf] at h
    exact ⟨_, rfl, by simp [fromProto, brsFromProto_id env l h]⟩
  | .repoIDs bm, h => by
    simp only [wf, beq_iff_eq] at h
    exact ⟨_, rfl, by simp [fromProto, h]⟩
  | .repoSet _, _ => ⟨_, rfl, rfl⟩
  | .fileNameSet s, h => by
    simp only [wf] at h
    exact ⟨_, rfl, by simp [fromProto, setOfList_id s h]⟩
  | .type_ c t, h => by
    simp only [wf, Bool.and_eq_true, decide_eq_true_eq] at h
    obtain ⟨p, h1, h2⟩ := q_roundtrip env c h.1
    exact ⟨.type_ p (kindToProto t), by simp [toProto, h1], by simp [fromProto, h2, kind_roundtrip t h.2]⟩
  | .substring _ _ _ _, _ => ⟨_, rfl, rfl⟩
  | .and_ cs, h => by
    simp only [wf] at h
    obtain ⟨ps, h1, h2⟩ := qs_roundtrip env cs h
    exact ⟨.and_ ps, by simp [toProto, h1], by simp [fromProto, h2]⟩
  | .or_ cs, h => by
    simp only [wf] at h
    obtain ⟨ps, h1, h2⟩ := qs_roundtrip env cs h
    exact ⟨.or_ ps, by simp [toProto, h1], by simp [fromProto, h2]⟩
  | .not_ c, h => by
    simp only [wf] at h
    obtain ⟨p, h1, h2⟩ := q_roundtrip env c h
    exact ⟨.not_ p, by simp [toProto, h1], by simp [fromProto, h2]⟩
  | .branch _ _, _ => ⟨_, rfl, rfl⟩
  | .boost c b, h => by
    simp only [wf] at h
    obtain ⟨p, h1, h2⟩ := q_roundtrip env c h
    exact ⟨.boost p b, by simp [toProto, h1], by simp [fromProto, h2]⟩
  | .metaQ f re, h => by
    simp only [wf] at h
    exact ⟨_, rfl, by simp [fromProto, h]⟩
theorem qs_roundtrip (env : Env) : ∀ qs : List Q, wfList env qs = true →
    ∃ ps, toProtoList qs = .ok ps ∧ fromProtoList env ps = .ok qs
  | [], _ => ⟨[], rfl, rfl⟩
  | q :: qs, h => by
    simp only [wfList, Bool.and_eq_true] at h
    obtain ⟨p, h1, h2⟩ := q_roundtrip env q h.1
    obtain ⟨ps, h3, h4⟩ := qs_roundtrip env qs h.2
    exact ⟨p :: ps, by simp [toProtoList, h1, h3], by simp [fromProtoList, h2, h4]⟩
end

mutual
/-- **C24, every exported node kind is convertible**: `QToProto` does not panic on any tree built from the exported
    kinds with non-nil children (whatever the values of their fields). -/
theorem toProto_public_total : ∀ q : Q, publicQ q = true → ∃ p, toProto q = .ok p
  | .nilQ, h => by simp [publicQ] at h
  | .caseQ _, h => by simp [publicQ] at h
  | .rawConfig _, _ => ⟨_, rfl⟩
  | .regexp _ _ _ _, _ => ⟨_, rfl⟩
  | .symbol e, h => by
    simp only [publicQ] at h
    obtain ⟨p, h1⟩ := toProto_public_total e h
    exact ⟨.symbol p, by simp [toProto, h1]⟩
  | .language _, _ => ⟨_, rfl⟩
  | .const _, _ => ⟨_, rfl⟩
  | .repo _, _ => ⟨_, rfl⟩
  | .repoRegexp _, _ => ⟨_, rfl⟩
  | .branchesRepos _, _ => ⟨_, rfl⟩
  | .repoIDs _, _ => ⟨_, rfl⟩
  | .repoSet _, _ => ⟨_, rfl⟩
  | .fileNameSet _, _ => ⟨_, rfl⟩
  | .type_ c t, h => by
    simp only [publicQ] at h
    obtain ⟨p, h1⟩ := toProto_public_total c h
    exact ⟨.type_ p (kindToProto t), by simp [toProto, h1]⟩
  | .substring _ _ _ _, _ => ⟨_, rfl⟩
  | .and_ cs, h => by
    simp only [publicQ] at h
    obtain ⟨ps, h1⟩ := toProtoList_public_total cs h
    exact ⟨.and_ ps, by simp [toProto, h1]⟩
  | .or_ cs, h => by
    simp only [publicQ] at h
    obtain ⟨ps, h1⟩ := toProtoList_public_total cs h
    exact ⟨.or_ ps, by simp [toProto, h1]⟩
  | .not_ c, h => by
    simp only [publicQ] at h
    obtain ⟨p, h1⟩ := toProto_public_total c h
    exact ⟨.not_ p, by simp [toProto, h1]⟩
  | .branch _ _, _ => ⟨_, rfl⟩
  | .boost c b, h => by
    simp only [publicQ] at h
    obtain ⟨p, h1⟩ := toProto_public_total c h
    exact ⟨.boost p b, by simp [toProto, h1]⟩
  | .metaQ _ _, _ => ⟨_, rfl⟩
theorem toProtoList_public_total : ∀ qs : List Q, publicList qs = true → ∃ ps, toProtoList qs = .ok ps
  | [], _ => ⟨[], rfl⟩
  | q :: qs, h => by
    simp only [publicList, Bool.and_eq_true] at h
    obtain ⟨p, h1⟩ := toProto_public_total q h.1
    obtain ⟨ps, h2⟩ := toProtoList_public_total qs h.2
    exact ⟨p :: ps, by simp [toProtoList, h1, h2]⟩
end

/-! ## the service is total: QFromProto never panics, whatever is unset -/

mutual
/-- **C24, `QFromProto` is total** on every message that can come off the wire: absent messages, unset oneofs, at
    any depth, unparseable regexps and bitmaps, unknown enum values — the result is a query or an error. -/
theorem fromProto_total (env : Env) : ∀ p : PQ, (fromProto env p).isOkOrErr = true
  | .absent => rfl
  | .unset => rfl
  | .rawConfig _ => rfl
  | .regexp re _ _ _ => by unfold fromProto; split <;> rfl
  | .symbol e => by
    unfold fromProto
    exact isOkOrErr_bind _ _ (fromProto_total env e) (fun _ => rfl)
  | .language _ => rfl
  | .const _ => rfl
  | .repo re => by unfold fromProto; split <;> rfl
  | .repoRegexp re => by unfold fromProto; split <;> rfl
  | .branchesRepos l => by
    unfold fromProto
    exact isOkOrErr_bind _ _ (brsFromProto_total env l) (fun _ => rfl)
  | .repoIds bm => by unfold fromProto; split <;> rfl
  | .repoSet _ => rfl
  | .fileNameSet _ => rfl
  | .type_ c _ => by
    unfold fromProto
    exact isOkOrErr_bind _ _ (fromProto_total env c) (fun _ => rfl)
  | .substring _ _ _ _ => rfl
  | .and_ cs => by
    unfold fromProto
    exact isOkOrErr_bind _ _ (fromProtoList_total env cs) (fun _ => rfl)
  | .or_ cs => by
    unfold fromProto
    exact isOkOrErr_bind _ _ (fromProtoList_total env cs) (fun _ => rfl)
  | .not_ c => by
    unfold fromProto
    exact isOkOrErr_bind _ _ (fromProto_total env c) (fun _ => rfl)
  | .branch _ _ => rfl
  | .boost c _ => by
    unfold fromProto
    exact isOkOrErr_bind _ _ (fromProto_total env c) (fun _ => rfl)
  | .metaQ _ v => by unfold fromProto; split <;> rfl
theorem fromProtoList_total (env : Env) : ∀ ps : List PQ, (fromProtoList env ps).isOkOrErr = true
  | [] => rfl
  | p :: ps => by
    unfold fromProtoList
    exact isOkOrErr_bind _ _ (fromProto_total env p)
      (fun _ => isOkOrErr_bind _ _ (fromProtoList_total env ps) (fun _ => rfl))
end

/-- **C24, the handlers are total**: whatever query message `Search`, `StreamSearch` or `List` receive (request,
    inner request, query or options field unset; oneofs unset at any depth), they either answer `InvalidArgument`
    or call the Streamer with a decoded query — they never panic before the Streamer runs. -/
theorem handlers_total (env : Env) (rpc : Rpc) (p : PQ) (optsSet : Bool) : ∃ r, handler env rpc p optsSet = .ok r := by
  unfold handler
  have h := fromProto_total env p
  cases hq : fromProto env p with
  | ok q => exact ⟨_, rfl⟩
  | err e => exact ⟨_, rfl⟩
  | panic s => rw [hq] at h; simp [Outcome.isOkOrErr] at h
  | diverge => rw [hq] at h; simp [Outcome.isOkOrErr] at h

/-- the searchers dereference their options: `Search` and `StreamSearch` never hand them nil, even when the request
    leaves `opts` unset -/
theorem search_options_never_nil (env : Env) (rpc : Rpc) (hr : rpc ≠ .list) (p : PQ) (optsSet : Bool) (q : Q) (o : OptsArg)
    (h : handler env rpc p optsSet = .ok (.callsStreamer q o)) : o ≠ .nilOpts := by
  unfold handler at h
  cases hq : fromProto env p with
  | ok q' =>
    rw [hq] at h
    simp only [Outcome.ok.injEq, HandlerResult.callsStreamer.injEq] at h
    rw [← h.2]
    unfold optsArg
    cases optsSet <;> cases rpc <;> simp_all
  | err e => rw [hq] at h; simp at h
  | panic s => rw [hq] at h; simp at h
  | diverge => rw [hq] at h; simp at h

/-- a request whose query is missing is answered with InvalidArgument (the case that used to crash the server) -/
theorem handler_missing_query (env : Env) (rpc : Rpc) (o : Bool) : handler env rpc .absent o = .ok .invalidArgument ∧
    handler env rpc .unset o = .ok .invalidArgument ∧ handler env rpc (.not_ .absent) o = .ok .invalidArgument := by
  refine ⟨rfl, rfl, rfl⟩

/-! ## the code before the fixes: both clauses of the property were false (witnesses in corpus/C24) -/

/-- before the fix a meta query could not be converted at all, at any depth -/
theorem orig_toProto_meta_panics :
    toProtoOrig (.metaQ "k" "v") = .panic "unknown query node *query.Meta" ∧
    toProtoOrig (.and_ [.substring "a" false false false, .not_ (.metaQ "k" "v")]) =
      .panic "unknown query node *query.Meta" := by
  constructor <;> simp [toProtoOrig, toProtoListOrig] <;> rfl

/-- before the fix `QFromProto` panicked on a missing query, on an unset oneof and on a missing child at any depth,
    and so did every handler: the service was not total -/
theorem orig_handlers_not_total (env : Env) :
    handlerOrig env .absent = .panic "invalid memory address or nil pointer dereference" ∧
    handlerOrig env .unset = .panic "unknown query node <nil>" ∧
    handlerOrig env (.and_ [.const true, .type_ .absent 3]) =
      .panic "invalid memory address or nil pointer dereference" := by
  refine ⟨rfl, rfl, ?_⟩
  simp [handlerOrig, fromProtoOrig, fromProtoListOrig]
  rfl

/-! ## option / result / listing values: the conversions that are not plain copies -/

/-- the three defined flush reasons and "none" survive `FlushReason.ToProto` / `FlushReasonFromProto` -/
theorem flushReason_roundtrip : ∀ fr ∈ [0, 1, 2, 4], flushFromProto (flushToProto fr) = fr := by decide

/-- … and no other `uint8` value does (they all come back as 0): the enum is exactly those four -/
theorem flushReason_only_defined (fr : Nat) (h : flushFromProto (flushToProto fr) = fr) : fr ∈ [0, 1, 2, 4] := by
  by_cases h1 : fr = 1
  · simp [h1]
  by_cases h2 : fr = 2
  · simp [h2]
  by_cases h4 : fr = 4
  · simp [h4]
  have h0 : flushToProto fr = 0 := by simp [flushToProto, h1, h2, h4]
  rw [h0] at h
  have : fr = 0 := by simpa [flushFromProto] using h.symm
  simp [this]

/-- both list modes survive `ListOptions.ToProto` / `ListOptionsFromProto` -/
theorem listField_roundtrip : ∀ f ∈ [(0 : Int), 2], listFieldFromProto (listFieldToProto f) = f := by decide

/-- `Repository.Rank` and `IndexMetadata.LanguageMap` values (`uint16`) survive the detour through `uint32` -/
theorem u16_roundtrip (x : Nat) (h : x < 65536) : u16ViaU32 x = x := by
  unfold u16ViaU32; omega

/-- every `time.Duration` (any `int64`, negative ones included) survives `durationpb.New` / `AsDuration` -/
theorem duration_roundtrip (d : Int) : durationJoin (durationSplit d) = d := by
  unfold durationJoin durationSplit
  simp only
  have := Int.mul_tdiv_add_tmod d 1000000000
  omega

/-! ## translator tables: the code has the shape the model assumes (regenerated from the working tree by every run) -/

open ZoektModel.Gen.C24 in
/-- the model's constructors are exactly the exported node kinds of package query -/
theorem model_kinds_are_the_code's : modelKinds = qKinds := by decide

open ZoektModel.Gen.C24 in
/-- every exported node kind has a case in `QToProto`'s type switch -/
theorem toProto_covers : (qKinds.all fun k => (toProtoCases.map Prod.fst).contains k) = true := by decide

open ZoektModel.Gen.C24 in
/-- every arm of the protobuf oneof has a case in `QFromProto`'s type switch -/
theorem fromProto_covers : (oneofArms.all fun a => (fromProtoCases.map Prod.fst).contains a) = true := by decide

open ZoektModel.Gen.C24 in
/-- the two switches pair kinds and arms the same way -/
theorem switches_inverse : (toProtoCases.all fun p => fromProtoCases.contains (swapPair p)) = true ∧
    (fromProtoCases.all fun p => toProtoCases.contains (swapPair p)) = true := by decide

open ZoektModel.Gen.C24 in
/-- `QFromProto` tests its argument for nil and its default case returns instead of panicking; every converted
    struct has both converters -/
theorem fromProto_guarded : fromProtoChecksNil = true ∧ fromProtoDefaultPanics = false ∧ missingConverters = [] := by
  decide

open ZoektModel.Gen.C24 in
/-- **C24, options / results / listings: no field is forgotten**: every field of every converted Go struct
    (SearchOptions, SearchResult, FileMatch, LineMatch, ChunkMatch, Stats, Progress, RepoList, Repository, … and the
    query node structs) is read by its `ToProto` and written by its `FromProto`, except the three exempt fields. -/
theorem fields_covered : (fieldTable.all fieldsCovered) = true := by decide

open ZoektModel.Gen.C24 in
/-- every field of every protobuf message is set by `ToProto` and read by `FromProto` -/
theorem proto_fields_covered : (protoFieldTable.all protoFieldsCovered) = true := by decide

/-! ## non-vacuity -/

def exEnv : Env := { reParse := fun s => some s, creOk := fun _ => true, bmParse := fun s => some s }
def exQ : Q := .and_ [.metaQ "k" "v", .not_ (.type_ (.regexp "a.*b" true false true) 2), .fileNameSet ["a", "b"],
  .rawConfig 37, .boost (.or_ []) "f3ff8000000000000", .branchesRepos [("HEAD", "x3a30")]]
example : wf exEnv exQ = true := by decide
example : ∃ p, toProto exQ = .ok p ∧ fromProto exEnv p = .ok exQ := q_roundtrip exEnv exQ (by decide)
-- a request with a hole deep inside: an error, not a panic
example : fromProto exEnv (.and_ [.const true, .symbol (.type_ .absent 3)]) = .err "nil query" := by
  simp [fromProto, fromProtoList]
-- an unparseable regexp is an error
example : fromProto { exEnv with reParse := fun _ => none } (.regexp "(" false false false) = .err "regexp" := by
  simp [fromProto]
-- internal nodes and nil children are rejected by the hypothesis, and do make QToProto panic
example : toProto (.not_ (.caseQ "yes")) = .panic "unknown query node *query.caseQ" := by
  simp [toProto]; rfl

end ZoektModel.C24
