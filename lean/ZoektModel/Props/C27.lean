/-
C27 — Regexp printing and optimisation preserve the matched language.  Property theorems; lemmas in C27/Lemmas.lean.

Statement (properties.jsonl): printing a parsed regular expression and parsing the printout again gives an
expression that matches exactly the same strings, and the optimisations applied to query regexps (capture
removal and simplification) never change which strings match.

"Matches the same strings" is `Regex.Equiv`: for every subject `s` and every span `[i,j)`, with `s` as context
(anchors, word boundaries), both regexps match the span or neither does — for every fold table `env`.
-/
import ZoektModel.C27.Lemmas
namespace ZoektModel.C27
open ZoektModel.Regex

variable {env : Env}

/-! ### capture removal -/

mutual
/-- **`uncapture` never changes which strings match** (all regexps, all subjects, all spans). -/
theorem uncapture_equiv (env : Env) : ∀ r : Re, Equiv env (uncapture r) r
  | .cap n r => by
    simp only [uncapture]
    exact Equiv.trans (Equiv.trans (concat_singleton_equiv _) (uncapture_equiv env r)) (Equiv.symm (cap_equiv n r))
  | .star ng r => by simp only [uncapture]; exact star_congr (uncapture_equiv env r)
  | .plus ng r => by simp only [uncapture]; exact plus_congr (uncapture_equiv env r)
  | .quest ng r => by simp only [uncapture]; exact quest_congr (uncapture_equiv env r)
  | .rep ng mn mx r => by simp only [uncapture]; exact rep_congr (uncapture_equiv env r)
  | .concat rs => by simp only [uncapture]; exact concat_congr (uncaptureL_equiv env rs)
  | .alt rs => by simp only [uncapture]; exact alt_congr (uncaptureL_equiv env rs)
  | .noMatch | .emptyMatch | .lit _ _ | .cls _ | .anyNotNL | .any | .beginLine | .endLine | .beginText
  | .endText _ | .wordB | .noWordB => by simp only [uncapture]; exact Equiv.refl _
theorem uncaptureL_equiv (env : Env) : ∀ rs : List Re, ListEquiv env (uncaptureL rs) rs
  | [] => .nil
  | r :: rs => .cons (uncapture_equiv env r) (uncaptureL_equiv env rs)
end

mutual
/-- **`uncapture` removes every capture group** (`hasCapture` is false of its result). -/
theorem uncapture_no_capture : ∀ r : Re, hasCapture (uncapture r) = false
  | .cap n r => by simp [uncapture, hasCapture, hasCaptureL, uncapture_no_capture r]
  | .star ng r => by simp [uncapture, hasCapture, uncapture_no_capture r]
  | .plus ng r => by simp [uncapture, hasCapture, uncapture_no_capture r]
  | .quest ng r => by simp [uncapture, hasCapture, uncapture_no_capture r]
  | .rep ng mn mx r => by simp [uncapture, hasCapture, uncapture_no_capture r]
  | .concat rs => by simp [uncapture, hasCapture, uncaptureL_no_capture rs]
  | .alt rs => by simp [uncapture, hasCapture, uncaptureL_no_capture rs]
  | .noMatch | .emptyMatch | .lit _ _ | .cls _ | .anyNotNL | .any | .beginLine | .endLine | .beginText
  | .endText _ | .wordB | .noWordB => by simp [uncapture, hasCapture]
theorem uncaptureL_no_capture : ∀ rs : List Re, hasCaptureL (uncaptureL rs) = false
  | [] => by simp [uncaptureL, hasCaptureL]
  | r :: rs => by simp [uncaptureL, hasCaptureL, uncapture_no_capture r, uncaptureL_no_capture rs]
end

/-! ### `Simplify` -/

mutual
/-- **`Simplify` never changes which strings match**, for every tree whose counted repetitions have bounds the
    parser can produce (`x{n,}` or `x{n,m}` with `n ≤ m`). -/
theorem simplify_equiv (env : Env) : ∀ r : Re, WFRep r → Equiv env (simplify r) r
  | .cap n r, h => by simp only [simplify]; exact cap_congr (simplify_equiv env r (by simpa only [WFRep] using h))
  | .star ng r, h => by
    simp only [simplify]
    exact Equiv.trans (simplify1_equiv .star ng _) (star_congr (simplify_equiv env r (by simpa only [WFRep] using h)))
  | .plus ng r, h => by
    simp only [simplify]
    exact Equiv.trans (simplify1_equiv .plus ng _) (plus_congr (simplify_equiv env r (by simpa only [WFRep] using h)))
  | .quest ng r, h => by
    simp only [simplify]
    exact Equiv.trans (simplify1_equiv .quest ng _) (quest_congr (simplify_equiv env r (by simpa only [WFRep] using h)))
  | .rep ng mn mx r, h => by
    simp only [simplify]
    split
    · rename_i h0
      simp only [Bool.and_eq_true, beq_iff_eq] at h0
      obtain ⟨rfl, rfl⟩ := h0
      intro s i j
      rw [matches_emptyMatch, matches_rep]
      constructor
      · rintro ⟨rfl, hi⟩; exact ⟨0, Nat.le_refl _, Or.inr (by omega), pow_zero.mpr ⟨rfl, hi⟩⟩
      · rintro ⟨n, _, h2, hp⟩
        have : n = 0 := by omega
        subst this; exact pow_zero.mp hp
    · rename_i h0
      simp only [Bool.and_eq_true, beq_iff_eq, not_and] at h0
      have h' : (mx = -1 ∨ (mn : Int) ≤ mx) ∧ WFRep r := by simpa only [WFRep] using h
      exact Equiv.trans (simplifyRep_equiv ng mn mx _ h'.1 (fun ⟨a, b⟩ => h0 a b)) (rep_congr (simplify_equiv env r h'.2))
  | .concat rs, h => by simp only [simplify]; exact concat_congr (simplifyL_equiv env rs (by simpa only [WFRep] using h))
  | .alt rs, h => by simp only [simplify]; exact alt_congr (simplifyL_equiv env rs (by simpa only [WFRep] using h))
  | .noMatch, _ | .emptyMatch, _ | .lit _ _, _ | .cls _, _ | .anyNotNL, _ | .any, _ | .beginLine, _ | .endLine, _
  | .beginText, _ | .endText _, _ | .wordB, _ | .noWordB, _ => by simp only [simplify]; exact Equiv.refl _
theorem simplifyL_equiv (env : Env) : ∀ rs : List Re, WFRepL rs → ListEquiv env (simplifyL rs) rs
  | [], _ => .nil
  | r :: rs, h =>
    have h' : WFRep r ∧ WFRepL rs := by simpa only [WFRepL] using h
    .cons (simplify_equiv env r h'.1) (simplifyL_equiv env rs h'.2)
end

/-! ### the whole optimiser, with the standard library's parser as a parameter -/

/-- what is assumed (and validated on every run, not proved) about `syntax.Parse`: whenever it accepts the
    printout of a tree, the tree it returns matches the same strings as the printed tree, and has parser-shaped
    repetition bounds. -/
def ParseRefines (env : Env) (isPrint : Nat → Bool) (parse : List Char → Option Re) : Prop :=
  ∀ r r', parse (printRe isPrint r) = some r' → Equiv env r' r ∧ WFRep r'

/-- **`convertCapture` never changes which strings match**, given `ParseRefines`: capture removal through
    print → parse → uncapture → print → parse, with the fall-back to the original on a parse error. -/
theorem convertCapture_equiv_partial (isPrint : Nat → Bool) (parse : List Char → Option Re)
    (hp : ParseRefines env isPrint parse) (r : Re) : Equiv env (convertCapture isPrint parse r) r := by
  unfold convertCapture
  split
  · exact Equiv.refl _
  · split
    · exact Equiv.refl _
    · rename_i r1 h1
      split
      · exact Equiv.refl _
      · rename_i r2 h2
        exact Equiv.trans (Equiv.trans (hp _ _ h2).1 (uncapture_equiv env r1)) (hp _ _ h1).1

/-- **`OptimizeRegexp` never changes which strings match**, given `ParseRefines` (and a parser-shaped input). -/
theorem optimizeRegexp_equiv_partial (isPrint : Nat → Bool) (parse : List Char → Option Re)
    (hp : ParseRefines env isPrint parse) (r : Re) (hr : WFRep r) :
    Equiv env (optimizeRegexp isPrint parse r) r := by
  unfold optimizeRegexp
  refine Equiv.trans (simplify_equiv env _ ?_) (convertCapture_equiv_partial isPrint parse hp r)
  unfold convertCapture
  split
  · exact hr
  · split
    · exact hr
    · split
      · exact hr
      · rename_i r2 h2; exact (hp _ _ h2).2

/-! ### non-vacuity -/

/-- `(a)|b` loses its group and still matches "b" -/
example : uncapture (.alt [.cap "" (.lit [97] false), .lit [98] false]) =
    .alt [.concat [.lit [97] false], .lit [98] false] := by rfl
/-- `x{2,4}` becomes `xx(x(x)?)?` -/
example : simplify (.rep false 2 4 (.lit [120] false)) =
    .concat [.lit [120] false, .lit [120] false,
      .quest false (.concat [.lit [120] false, .quest false (.lit [120] false)])] := by rfl
/-- the relation is not trivially true: "a" matches `a`, and does not match `b` -/
example : Matches ⟨fun _ _ => false⟩ #[97] (.lit [97] false) 0 1 := .lit (by decide)
example : ¬ Matches ⟨fun _ _ => false⟩ #[97] (.lit [98] false) 0 1 := by
  intro h; cases h with | lit h => exact absurd h (by decide)
example : WFRep (.rep false 2 4 (.lit [120] false)) := by simp [WFRep]

end ZoektModel.C27
