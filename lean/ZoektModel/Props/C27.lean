/-
C27 — Regexp printing and optimisation preserve the matched language.  Property theorems; lemmas in C27/Lemmas.lean.

Statement (properties.jsonl): printing a parsed regular expression and parsing the printout again gives an
expression that matches exactly the same strings, and the optimisations applied to query regexps (capture
removal and simplification) never change which strings match.

"Matches the same strings" is `Regex.Equiv`: for every subject `s` and every span `[i,j)`, with `s` as context
(anchors, word boundaries), both regexps match the span or neither does — for every fold table `env`.
-/
import ZoektModel.C27.Lemmas
import ZoektModel.C27.Printer
import ZoektModel.C27.TokParser
import ZoektModel.C27.Escape
import ZoektModel.C27.EscapeClass
import ZoektModel.C27.NegClass
import ZoektModel.C27.EndsSound
import ZoektModel.C27.EndsComplete
import ZoektModel.C27.Spec
namespace ZoektModel.C27
open ZoektModel.Regex

variable {env : Env}

/-! ### capture removal -/

mutual
/-- **`uncapture` never changes which strings match** (all regexps, all subjects, all spans). -/
theorem uncapture_equiv (env : Env) : ∀ r : Re, Equiv env (uncapture r) r
  | .cap n r => by
    simp only [uncapture]
    exact Equiv.trans (Equiv.trans (concat_singleton_equiv _) (uncapture_equiv env r)) (Equiv.symm (cap_equiv n r))
  | .star ng r => by simp only [uncapture]; exact star_congr (uncapture_equiv env r)
  | .plus ng r => by simp only [uncapture]; exact plus_congr (uncapture_equiv env r)
  | .quest ng r => by simp only [uncapture]; exact quest_congr (uncapture_equiv env r)
  | .rep ng mn mx r => by simp only [uncapture]; exact rep_congr (uncapture_equiv env r)
  | .concat rs => by simp only [uncapture]; exact concat_congr (uncaptureL_equiv env rs)
  | .alt rs => by simp only [uncapture]; exact alt_congr (uncaptureL_equiv env rs)
  | .noMatch | .emptyMatch | .lit _ _ | .cls _ | .anyNotNL | .any | .beginLine | .endLine | .beginText
  | .endText _ | .wordB | .noWordB => by simp only [uncapture]; exact Equiv.refl _
theorem uncaptureL_equiv (env : Env) : ∀ rs : List Re, ListEquiv env (uncaptureL rs) rs
  | [] => .nil
  | r :: rs => .cons (uncapture_equiv env r) (uncaptureL_equiv env rs)
end

mutual
/-- **`uncapture` removes every capture group** (`hasCapture` is false of its result). -/
theorem uncapture_no_capture : ∀ r : Re, hasCapture (uncapture r) = false
  | .cap n r => by simp [uncapture, hasCapture, hasCaptureL, uncapture_no_capture r]
  | .star ng r => by simp [uncapture, hasCapture, uncapture_no_capture r]
  | .plus ng r => by simp [uncapture, hasCapture, uncapture_no_capture r]
  | .quest ng r => by simp [uncapture, hasCapture, uncapture_no_capture r]
  | .rep ng mn mx r => by simp [uncapture, hasCapture, uncapture_no_capture r]
  | .concat rs => by simp [uncapture, hasCapture, uncaptureL_no_capture rs]
  | .alt rs => by simp [uncapture, hasCapture, uncaptureL_no_capture rs]
  | .noMatch | .emptyMatch | .lit _ _ | .cls _ | .anyNotNL | .any | .beginLine | .endLine | .beginText
  | .endText _ | .wordB | .noWordB => by simp [uncapture, hasCapture]
theorem uncaptureL_no_capture : ∀ rs : List Re, hasCaptureL (uncaptureL rs) = false
  | [] => by simp [uncaptureL, hasCaptureL]
  | r :: rs => by simp [uncaptureL, hasCaptureL, uncapture_no_capture r, uncaptureL_no_capture rs]
end

/-! ### `Simplify` -/

mutual
/-- **`Simplify` never changes which strings match**, for every tree whose counted repetitions have bounds the
    parser can produce (`x{n,}` or `x{n,m}` with `n ≤ m`). -/
theorem simplify_equiv (env : Env) : ∀ r : Re, WFRep r → Equiv env (simplify r) r
  | .cap n r, h => by simp only [simplify]; exact cap_congr (simplify_equiv env r (by simpa only [WFRep] using h))
  | .star ng r, h => by
    simp only [simplify]
    exact Equiv.trans (simplify1_equiv .star ng _) (star_congr (simplify_equiv env r (by simpa only [WFRep] using h)))
  | .plus ng r, h => by
    simp only [simplify]
    exact Equiv.trans (simplify1_equiv .plus ng _) (plus_congr (simplify_equiv env r (by simpa only [WFRep] using h)))
  | .quest ng r, h => by
    simp only [simplify]
    exact Equiv.trans (simplify1_equiv .quest ng _) (quest_congr (simplify_equiv env r (by simpa only [WFRep] using h)))
  | .rep ng mn mx r, h => by
    simp only [simplify]
    split
    · rename_i h0
      simp only [Bool.and_eq_true, beq_iff_eq] at h0
      obtain ⟨rfl, rfl⟩ := h0
      intro s i j
      rw [matches_emptyMatch, matches_rep]
      constructor
      · rintro ⟨rfl, hi⟩; exact ⟨0, Nat.le_refl _, Or.inr (by omega), pow_zero.mpr ⟨rfl, hi⟩⟩
      · rintro ⟨n, _, h2, hp⟩
        have : n = 0 := by omega
        subst this; exact pow_zero.mp hp
    · rename_i h0
      simp only [Bool.and_eq_true, beq_iff_eq, not_and] at h0
      have h' : (mx = -1 ∨ (mn : Int) ≤ mx) ∧ WFRep r := by simpa only [WFRep] using h
      exact Equiv.trans (simplifyRep_equiv ng mn mx _ h'.1 (fun ⟨a, b⟩ => h0 a b)) (rep_congr (simplify_equiv env r h'.2))
  | .concat rs, h => by simp only [simplify]; exact concat_congr (simplifyL_equiv env rs (by simpa only [WFRep] using h))
  | .alt rs, h => by simp only [simplify]; exact alt_congr (simplifyL_equiv env rs (by simpa only [WFRep] using h))
  | .noMatch, _ | .emptyMatch, _ | .lit _ _, _ | .cls _, _ | .anyNotNL, _ | .any, _ | .beginLine, _ | .endLine, _
  | .beginText, _ | .endText _, _ | .wordB, _ | .noWordB, _ => by simp only [simplify]; exact Equiv.refl _
theorem simplifyL_equiv (env : Env) : ∀ rs : List Re, WFRepL rs → ListEquiv env (simplifyL rs) rs
  | [], _ => .nil
  | r :: rs, h =>
    have h' : WFRep r ∧ WFRepL rs := by simpa only [WFRepL] using h
    .cons (simplify_equiv env r h'.1) (simplifyL_equiv env rs h'.2)
end

/-! ### the whole optimiser, with the standard library's parser as a parameter -/

/-- what is assumed (and validated on every run, not proved) about `syntax.Parse`: whenever it accepts the
    printout of a tree, the tree it returns matches the same strings as the printed tree, and has parser-shaped
    repetition bounds. -/
def ParseRefines (env : Env) (isPrint : Nat → Bool) (parse : List Char → Option Re) : Prop :=
  ∀ r r', parse (printRe isPrint r) = some r' → Equiv env r' r ∧ WFRep r'

/-- **`convertCapture` never changes which strings match**, given `ParseRefines`: capture removal through
    print → parse → uncapture → print → parse, with the fall-back to the original on a parse error. -/
theorem convertCapture_equiv_partial (isPrint : Nat → Bool) (parse : List Char → Option Re)
    (hp : ParseRefines env isPrint parse) (r : Re) : Equiv env (convertCapture isPrint parse r) r := by
  unfold convertCapture
  split
  · exact Equiv.refl _
  · split
    · exact Equiv.refl _
    · rename_i r1 h1
      split
      · exact Equiv.refl _
      · rename_i r2 h2
        exact Equiv.trans (Equiv.trans (hp _ _ h2).1 (uncapture_equiv env r1)) (hp _ _ h1).1

/-- **`OptimizeRegexp` never changes which strings match**, given `ParseRefines` (and a parser-shaped input). -/
theorem optimizeRegexp_equiv_partial (isPrint : Nat → Bool) (parse : List Char → Option Re)
    (hp : ParseRefines env isPrint parse) (r : Re) (hr : WFRep r) :
    Equiv env (optimizeRegexp isPrint parse r) r := by
  unfold optimizeRegexp
  refine Equiv.trans (simplify_equiv env _ ?_) (convertCapture_equiv_partial isPrint parse hp r)
  unfold convertCapture
  split
  · exact hr
  · split
    · exact hr
    · split
      · exact hr
      · rename_i r2 h2; exact (hp _ _ h2).2

/-! ### the printer: the printout, read with the grammar's precedences, means what the tree means -/

/-- **printer / precedence theorem**: for every tree without empty literals and empty alternations (the shapes
    `syntax.Parse` produces), the character string `RegexpString` prints is the rendering of a token sequence that the
    RE2 grammar (alternation < concatenation < repetition < atom or group) derives, at alternation level, as a regexp
    matching exactly the same strings as the tree.  Token level: that `syntax.Parse` tokenises the characters this way
    is validated by the correspondence run, not proved. -/
theorem print_derives (env : Env) (isPrint : Nat → Bool) (r : Re) (hw : WFP r) :
    ∃ ts xs, printRe isPrint r = render isPrint ts ∧ DAlt ts xs ∧ Equiv env (.alt xs) r := by
  obtain ⟨xs, hd, e⟩ := (print_levels env r hw).alt
  exact ⟨printTok r, xs, (render_printTok isPrint r).symm, hd, e⟩

/-- **print → parse, token level, with a deterministic parser**: the recursive-descent precedence parser `parseAlt`
    (alternation of concatenations of optionally post-fixed atoms/groups; it is a function, so there is exactly one
    reading) consumes all the printed tokens of a well-formed tree and returns a regexp that matches exactly the same
    strings as the tree. -/
theorem print_parse_equiv (env : Env) (r : Re) (hw : WFP r) :
    ∃ fuel xs, parseAlt fuel (printTok r) = some (xs, []) ∧ Equiv env (.alt xs) r := by
  obtain ⟨xs, hd, e⟩ := (print_levels env r hw).alt
  obtain ⟨f, hf⟩ := parseAlt_complete hd
  exact ⟨f, xs, hf, e⟩

/-- **the inserted `(?:…)` suffice for repetitions**: what the printer puts before `*`, `+`, `?`, `{n,m}` is a single
    atom or group of the grammar, denoting the operand. -/
theorem printer_parenthesises_operand (env : Env) (sub : Re) (hw : WFP sub) :
    ∃ r', DBase (wrapTok (needsGroup sub) (printTok sub)) r' ∧ Equiv env r' sub :=
  operand_base (print_levels env sub hw).alt (print_levels env sub hw).base

/-- **… and for concatenations**: each element of a concatenation is printed as a sequence of repetitions/atoms
    (an alternation only inside a group), so the juxtaposition denotes the concatenation. -/
theorem printer_parenthesises_concat (env : Env) (subs : List Re) (hw : WFPL subs) :
    ∃ xs, DConcat (printTokConcat subs) xs ∧ Equiv env (.concat xs) (.concat subs) :=
  print_levels_concat env subs hw

/-- **lexical layer, one rune: `escape` round-trips**.  What `escape` writes for a rune (raw, backslash + punctuation,
    `\a \f \n \r \t \v`, zero-padded `\xHH`, `\x{H…}`) is read back as that same rune, with nothing left over or
    consumed from what follows, by a reader following `regexp/syntax`'s rules for literal characters and escapes —
    for every rune up to U+10FFFF, inside and outside character classes (`force` is only ever used for `-`). -/
theorem escape_reads_back (isPrint : Nat → Bool) (r : Nat) (force : Bool) (rest : List Char)
    (hr : r ≤ 0x10FFFF) (hv : isPrint r = true → (Char.ofNat r).toNat = r) (hf : force = true → r = 45) :
    readRune (escape isPrint r force ++ rest) = some (r, rest) :=
  readRune_escape isPrint r force rest hr hv hf

/-- **lexical layer, character classes: the printed body of a positive class round-trips**.  The items the printer
    writes (`lo`, `lo-hi`, with `-` escaped at either end of an item) followed by `]` are read back as exactly the
    same list of ranges by a reader following `parseClass`'s rules (a `-` makes a range unless `]` follows it). -/
theorem class_body_reads_back (isPrint : Nat → Bool) (hv : ∀ r, isPrint r = true → (Char.ofNat r).toNat = r)
    (rs : List Nat) (hw : WFClass rs) (rest : List Char) :
    readClassItems (rs.length + 1) (classPairs isPrint rs ++ ']' :: rest) = some (rs, rest) :=
  readClassItems_classPairs isPrint hv rest rs (rs.length + 1) hw (Nat.lt_succ_self _)

/-- **negated classes**: for a class containing 0 and U+10FFFF the printer writes `[^` gaps `]`; the gaps are printed
    as a positive class body (so `class_body_reads_back` applies to them) … -/
theorem negated_class_printed_as_gaps (isPrint : Nat → Bool) (l : List Nat) :
    classGaps isPrint l = classPairs isPrint (gaps l) := classGaps_eq isPrint l

/-- … and a rune is in the class iff it is in none of the gaps (`Chain`: sorted ranges with non-empty gaps, the shape
    `cleanClass` produces): negating what is printed gives back the class. -/
theorem negated_class_denotes (l : List Nat) (lo c : Nat) (h : Chain lo l) (h1 : lo ≤ c) (h2 : c ≤ lastOf lo l) :
    inClass (lo :: l) c = !inClass (gaps l) c := negated_gaps l lo c h h1 h2

mutual
/-- **after capture removal the printout has no capturing parenthesis**: a tree without captures prints no `(` / `(?P<` token. -/
theorem no_capture_no_paren : ∀ r : Re, hasCapture r = false → ∀ n, Tok.openCap n ∉ printTok r
  | .noMatch, _, n | .emptyMatch, _, n | .cls _, _, n | .anyNotNL, _, n | .any, _, n | .beginLine, _, n | .endLine, _, n
  | .beginText, _, n | .endText _, _, n | .wordB, _, n | .noWordB, _, n => by simp [printTok]
  | .lit rs fold, _, n => by cases fold <;> simp [printTok]
  | .cap _ _, h, _ => by simp [hasCapture] at h
  | .star ng r, h, n => by
    have ih := no_capture_no_paren r (by simpa [hasCapture] using h) n
    cases hg : needsGroup r <;> simp [printTok, wrapTok, hg, ih]
  | .plus ng r, h, n => by
    have ih := no_capture_no_paren r (by simpa [hasCapture] using h) n
    cases hg : needsGroup r <;> simp [printTok, wrapTok, hg, ih]
  | .quest ng r, h, n => by
    have ih := no_capture_no_paren r (by simpa [hasCapture] using h) n
    cases hg : needsGroup r <;> simp [printTok, wrapTok, hg, ih]
  | .rep ng mn mx r, h, n => by
    have ih := no_capture_no_paren r (by simpa [hasCapture] using h) n
    cases hg : needsGroup r <;> simp [printTok, wrapTok, hg, ih]
  | .concat rs, h, n => by
    simp only [printTok]; exact no_capture_no_paren_concat rs (by simpa [hasCapture] using h) n
  | .alt rs, h, n => by
    simp only [printTok]; exact no_capture_no_paren_alt rs (by simpa [hasCapture] using h) n
theorem no_capture_no_paren_concat : ∀ rs : List Re, hasCaptureL rs = false → ∀ n, Tok.openCap n ∉ printTokConcat rs
  | [], _, n => by simp [printTokConcat]
  | r :: rs, h, n => by
    simp only [hasCaptureL, Bool.or_eq_false_iff] at h
    have ih1 := no_capture_no_paren r h.1 n
    have ih2 := no_capture_no_paren_concat rs h.2 n
    cases hg : isAlt r <;> simp [printTokConcat, wrapTok, hg, ih1, ih2]
theorem no_capture_no_paren_alt : ∀ rs : List Re, hasCaptureL rs = false → ∀ n, Tok.openCap n ∉ printTokAlt rs
  | [], _, n => by simp [printTokAlt]
  | [r], h, n => by
    simp only [hasCaptureL, Bool.or_eq_false_iff] at h
    simpa [printTokAlt] using no_capture_no_paren r h.1 n
  | r :: r2 :: rs, h, n => by
    simp only [hasCaptureL, Bool.or_eq_false_iff] at h
    have ih1 := no_capture_no_paren r h.1 n
    have ih2 := no_capture_no_paren_alt (r2 :: rs) (by simp only [hasCaptureL, Bool.or_eq_false_iff]; exact h.2) n
    simp [printTokAlt, ih1, ih2]
end

/-- in particular the printout of `uncapture r` has none -/
theorem uncapture_prints_no_capture (r : Re) (n : String) : Tok.openCap n ∉ printTok (uncapture r) :=
  no_capture_no_paren (uncapture r) (uncapture_no_capture r) n

/-- the token printer is the character printer -/
theorem print_tokens_render (isPrint : Nat → Bool) (r : Re) : render isPrint (printTok r) = printRe isPrint r :=
  render_printTok isPrint r

/-! ### the theorems' shape hypotheses are checked on every tree the real parser produces -/

mutual
/-- the executable shape check run by the driver on every generated tree implies the hypothesis of the printer theorems -/
theorem wfPrintB_sound : ∀ r : Re, wfPrintB r = true → WFP r
  | .lit rs _, h => by
    simp only [wfPrintB, Bool.and_eq_true, Bool.not_eq_true'] at h
    simp only [WFP]; intro e; rw [e] at h; simp at h
  | .cap _ r, h | .star _ r, h | .plus _ r, h | .quest _ r, h | .rep _ _ _ r, h => by
    simp only [WFP]; exact wfPrintB_sound r (by simpa only [wfPrintB] using h)
  | .concat rs, h => by simp only [WFP]; exact wfPrintBL_sound rs (by simpa only [wfPrintB] using h)
  | .alt rs, h => by
    simp only [wfPrintB, Bool.and_eq_true, Bool.not_eq_true'] at h
    simp only [WFP]
    exact ⟨by intro e; rw [e] at h; simp at h, wfPrintBL_sound rs h.2⟩
  | .noMatch, _ | .emptyMatch, _ | .cls _, _ | .anyNotNL, _ | .any, _ | .beginLine, _ | .endLine, _ | .beginText, _
  | .endText _, _ | .wordB, _ | .noWordB, _ => by simp [WFP]
theorem wfPrintBL_sound : ∀ rs : List Re, wfPrintBL rs = true → WFPL rs
  | [], _ => by simp [WFPL]
  | r :: rs, h => by
    simp only [wfPrintBL, Bool.and_eq_true] at h
    simp only [WFPL]; exact ⟨wfPrintB_sound r h.1, wfPrintBL_sound rs h.2⟩
end

mutual
/-- … and the hypothesis of `simplify_equiv` -/
theorem wfRepB_sound : ∀ r : Re, wfRepB r = true → WFRep r
  | .rep _ mn mx r, h => by
    simp only [wfRepB, Bool.and_eq_true, Bool.or_eq_true, beq_iff_eq, decide_eq_true_eq] at h
    simp only [WFRep]; exact ⟨h.1, wfRepB_sound r h.2⟩
  | .cap _ r, h | .star _ r, h | .plus _ r, h | .quest _ r, h => by
    simp only [WFRep]; exact wfRepB_sound r (by simpa only [wfRepB] using h)
  | .concat rs, h | .alt rs, h => by simp only [WFRep]; exact wfRepBL_sound rs (by simpa only [wfRepB] using h)
  | .noMatch, _ | .emptyMatch, _ | .lit _ _, _ | .cls _, _ | .anyNotNL, _ | .any, _ | .beginLine, _ | .endLine, _
  | .beginText, _ | .endText _, _ | .wordB, _ | .noWordB, _ => by simp [WFRep]
theorem wfRepBL_sound : ∀ rs : List Re, wfRepBL rs = true → WFRepL rs
  | [], _ => by simp [WFRepL]
  | r :: rs, h => by
    simp only [wfRepBL, Bool.and_eq_true] at h
    simp only [WFRepL]; exact ⟨wfRepB_sound r h.1, wfRepBL_sound rs h.2⟩
end

/-! ### the executable matcher of the specification is sound for the relation the theorems are about -/

/-- **`matchSpan` (the test `validFindAll` / `checkP` apply to every span an engine reports) implies `Matches`**:
    a span accepted by the executable specification is a match in the sense of the theorems above. -/
theorem matchSpan_sound (env : Env) (s : Array Nat) (r : Re) (i j : Nat) (h : matchSpan env s r i j = true) :
    Matches env s r i j := by
  unfold matchSpan at h
  exact ends_sound r i j (by simpa using h)

/-- **the executable matcher decides the match relation**: `ends` lists exactly the end positions of matches. -/
theorem ends_iff (env : Env) (s : Array Nat) (r : Re) (i j : Nat) : j ∈ ends env s r i ↔ Matches env s r i j :=
  ⟨ends_sound r i j, ends_complete⟩

/-- hence the "nothing was skipped" clause of `validFindAll` means what it says: where it demands `ends` to be
    empty, the tree has no match starting at that position. -/
theorem ends_empty_iff (env : Env) (s : Array Nat) (r : Re) (k : Nat) :
    (ends env s r k).isEmpty = true ↔ ∀ j, ¬ Matches env s r k j := by
  rw [List.isEmpty_iff]
  constructor
  · intro h j hm
    have := (ends_iff env s r k j).mpr hm
    rw [h] at this; simp at this
  · intro h
    cases he : ends env s r k with
    | nil => rfl
    | cons a t => exact absurd ((ends_iff env s r k a).mp (by rw [he]; simp)) (h a)

/-- every span of a result list accepted by `validFindAll` is a match of the tree -/
theorem validFindAll_spans_match (env : Env) (s : Array Nat) (r : Re) :
    ∀ (L : List (Nat × Nat)) (prevEnd : Option Nat) (lo : Nat), validFindAllAux env s r L prevEnd lo = true →
      ∀ p ∈ L, Matches env s r p.1 p.2
  | [], _, _, _, p, hp => by simp at hp
  | (a, b) :: rest, prevEnd, lo, h, p, hp => by
    simp only [validFindAllAux, Bool.and_eq_true] at h
    rcases List.mem_cons.mp hp with rfl | hp
    · exact matchSpan_sound env s r _ _ h.1.1.1.2
    · exact validFindAll_spans_match env s r rest _ _ h.2 p hp

/-! ### non-vacuity -/

/-- U+00AD (soft hyphen, not printable) is written `\xad`, U+2028 as `\x{2028}`, and `.` as `\.` -/
example : escape (fun c => c == 46) 0xAD false = ['\\', 'x', 'a', 'd'] ∧
    escape (fun c => c == 46) 0x2028 false = ['\\', 'x', '{', '2', '0', '2', '8', '}'] ∧
    escape (fun c => c == 46) 46 false = ['\\', '.'] := by decide
/-- the parser on the printout of `(a|b)*c` -/
example : parseAlt 10 (printTok (.concat [.star false (.alt [.lit [97] false, .lit [98] false]), .lit [99] false])) =
    some ([.concat [.star false (.alt [.concat [.lit [97] false], .concat [.lit [98] false]]), .lit [99] false]], []) := by
  rfl
/-- `(a|b)*c`: the printer groups the alternation under the star, and the derivation exists -/
example : printTok (.concat [.star false (.alt [.lit [97] false, .lit [98] false]), .lit [99] false]) =
    [.openNC, .atom (.litRune 97), .bar, .atom (.litRune 98), .close, .post (.star false), .atom (.litRune 99)] := by rfl
example : WFP (.concat [.star false (.alt [.lit [97] false, .lit [98] false]), .lit [99] false]) := by
  simp [WFP, WFPL]
/-- a star printed without its group is *not* a base of the grammar: `a*` followed by `*` has no derivation as a
    repetition (the grammar, like Go's parser, has no double postfix) -/
example : ¬ ∃ r, DBase [.atom (.litRune 97), .post (.star false)] r := by
  rintro ⟨r, h⟩; cases h


/-- `(a)|b` loses its group and still matches "b" -/
example : uncapture (.alt [.cap "" (.lit [97] false), .lit [98] false]) =
    .alt [.concat [.lit [97] false], .lit [98] false] := by rfl
/-- `x{2,4}` becomes `xx(x(x)?)?` -/
example : simplify (.rep false 2 4 (.lit [120] false)) =
    .concat [.lit [120] false, .lit [120] false,
      .quest false (.concat [.lit [120] false, .quest false (.lit [120] false)])] := by rfl
/-- the relation is not trivially true: "a" matches `a`, and does not match `b` -/
example : Matches ⟨fun _ _ => false⟩ #[97] (.lit [97] false) 0 1 := .lit (by decide)
example : ¬ Matches ⟨fun _ _ => false⟩ #[97] (.lit [98] false) 0 1 := by
  intro h; cases h with | lit h => exact absurd h (by decide)
example : WFRep (.rep false 2 4 (.lit [120] false)) := by simp [WFRep]

end ZoektModel.C27
