/-
C05 — Query rewriting preserves meaning.  Property theorems only; lemmas live in C05/Lemmas.lean.

Statement (properties.jsonl): every rewrite applied to a query before evaluation selects exactly the same
documents as the original query on every corpus: constant folding, flattening of nested and/or, per-shard
simplification against repository metadata, file-name/content expansion, and case-scope handling.

`eval q ctx s d` is the reference evaluation (C05/Query.lean) of tree `q` on document `d` of shard `s`, the corpus
being `ctx`.  `InCorpus ctx s d`: `s` is a shard of the corpus, `d` one of its documents, and `d`'s repository is not
tombstoned — the documents the search loop looks at.
-/
import ZoektModel.C05.Lemmas
import ZoektModel.Generated.QuerySwitches
namespace ZoektModel.C05
open ZoektModel.Query

theorem wf_ff (q : Q) : wf anyBranch false q = true := by
  induction q using Q.ind with
  | hconst v => rfl
  | hand cs ih => simpa [wf, wfL_eq] using ih
  | hor cs ih => simpa [wf, wfL_eq] using ih
  | hnot c ih => simpa [wf] using ih
  | htype t c ih => simpa [wf] using ih
  | hboost w c ih => simpa [wf] using ih
  | hcs c ih => simpa [wf] using ih
  | hleaf q hl => cases q <;> first | rfl | simp [isLeaf] at hl

theorem incorpus_live (ctx : List Shard) : ∀ s d, InCorpus ctx s d → s.live d = true := fun _ _ h => h.2.2

/-- **flattening** of nested and/or (one `flatten` step), for all trees — including empty and single-child
    `And`/`Or`, `Type`, `Boost` -/
theorem flatten_preserves (ctx : List Shard) (q : Q) (s : Shard) (d : Doc) (h : InCorpus ctx s d) :
    eval (flatten q).1 ctx s d = eval q ctx s d :=
  (flatten_pres (scope_incorpus ctx) q (wf_ff q)).2 s d h

/-- **file-name/content expansion** `Map(q, ExpandFileContent)`, for all trees -/
theorem expand_preserves (ctx : List Shard) (q : Q) (s : Shard) (d : Doc) (h : InCorpus ctx s d) :
    eval (expand q) ctx s d = eval q ctx s d :=
  (expand_pres (scope_incorpus ctx) q (wf_ff q)).2 s d h

/-- **case-scope handling**: removing the parser's case-scope wrappers, for all trees -/
theorem stripCaseScopes_preserves (ctx : List Shard) (q : Q) (s : Shard) (d : Doc) (h : InCorpus ctx s d) :
    eval (stripCaseScopes q) ctx s d = eval q ctx s d :=
  (strip_pres (scope_incorpus ctx) q (wf_ff q)).2 s d h

/-- **constant folding**, for all trees (folding under negation, `Type`/`Boost` collapsing to a constant —
    including `type:repo` —, empty sets, empty patterns) that contain no `Branch` atom with an empty pattern -/
theorem evalConstants_preserves_partial (ctx : List Shard) (q : Q) (hq : hasEmptyBranch q = false)
    (s : Shard) (d : Doc) (h : InCorpus ctx s d) :
    eval (evalConstants q) ctx s d = eval q ctx s d :=
  (evalConstantsF_pres (branchOK_noEmpty ctx _) (scope_incorpus ctx) (incorpus_live ctx) _ q (by simpa [hasEmptyBranch] using hq)).2 s d h

/-- constant folding with *any* amount of fuel preserves meaning (the fuel only bounds the recursion through `Map`) -/
theorem evalConstantsF_preserves_partial (ctx : List Shard) (n : Nat) (q : Q) (hq : hasEmptyBranch q = false)
    (s : Shard) (d : Doc) (h : InCorpus ctx s d) :
    eval (evalConstantsF n q) ctx s d = eval q ctx s d :=
  (evalConstantsF_pres (branchOK_noEmpty ctx _) (scope_incorpus ctx) (incorpus_live ctx) n q (by simpa [hasEmptyBranch] using hq)).2 s d h

/-- **the fuel of the model's `evalConstants` is never exhausted**: any fuel above the depth of the tree (in particular
    the `size q + 1` the model and the driver use) yields the same tree, so the model computes what the unbounded Go
    recursion (through `Map`) computes; and folding never deepens a tree -/
theorem evalConstants_fuel_stable (q : Q) (n : Nat) (hn : depth q < n) :
    evalConstantsF n q = evalConstants q := by
  have hs := depth_le_size q
  by_cases h : n ≤ size q + 1
  · exact (evalConstantsF_stable q n (size q + 1) hn h).symm
  · exact evalConstantsF_stable q (size q + 1) n (by omega) (by omega)

/-- **`query.Simplify`** (constant folding, then flattening to a fixpoint) -/
theorem Simplify_preserves_partial (ctx : List Shard) (q : Q) (hq : hasEmptyBranch q = false)
    (s : Shard) (d : Doc) (h : InCorpus ctx s d) :
    eval (simplify q) ctx s d = eval q ctx s d :=
  (simplify_pres (branchOK_noEmpty ctx _) (scope_incorpus ctx) (incorpus_live ctx) q (by simpa [hasEmptyBranch] using hq)).2 s d h

/-- **`Simplify` terminates at a fixpoint**: the model's loop fuel (node count + 1) is never exhausted — the result
    is a tree that `flatten` reports unchanged; each changing `flatten` step removes at least one node -/
theorem Simplify_terminates (q : Q) : (flatten (simplify q)).2 = false :=
  flattenLoop_fixpoint _ _ (by omega)

theorem flatten_decreases (q : Q) (h : (flatten q).2 = true) : size (flatten q).1 < size q :=
  (flatten_size q).2 h

/-! ### the exact boundary of the excluded class: folding a non-exact `Branch ""` is harmless exactly for documents that
    are on at least one (named) branch -/

/-- document `d` of shard `s` is on at least one branch that its repository lists -/
def OnNamedBranch (s : Shard) (d : Doc) : Prop :=
  ∃ r i nm, s.repoOf d = some r ∧ i ∈ d.branches ∧ r.branches[i]? = some nm

theorem containsSub_nil (x : Str) : containsSub x [] = true := by
  cases x <;> simp [containsSub]

theorem branchOK_branched (ctx : List Shard) (D : Shard → Doc → Prop) (h : ∀ s d, D s d → OnNamedBranch s d) :
    BranchOK ctx noExactEmpty D := by
  intro pat e hpb hp s d hd
  have hpat : pat = [] := List.isEmpty_iff.mp hp
  subst hpat
  have he : e = false := by
    cases e with
    | false => rfl
    | true => simp [noExactEmpty] at hpb
  subst he
  obtain ⟨r, i, nm, hr, hi, hnm⟩ := h s d hd
  simp only [eval, hr, evalAtom, evalBranch]
  have hne : (([] : Str) == HEAD) = false := by decide
  simp only [hne, Bool.false_eq_true, if_false, List.any_eq_true]
  exact ⟨i, hi, by simp [hnm, containsSub_nil]⟩

/-- **constant folding / `Simplify` on corpora whose live documents are all on a branch**: meaning is preserved for
    every tree that has no `Branch{Pattern: "", Exact: true}` atom — non-exact empty patterns included -/
theorem Simplify_preserves_branched (ctx : List Shard) (hb : ∀ s d, InCorpus ctx s d → OnNamedBranch s d)
    (q : Q) (hq : wf noExactEmpty false q = true) (s : Shard) (d : Doc) (h : InCorpus ctx s d) :
    eval (simplify q) ctx s d = eval q ctx s d ∧ eval (evalConstants q) ctx s d = eval q ctx s d :=
  ⟨(simplify_pres (branchOK_branched ctx _ hb) (scope_incorpus ctx) (incorpus_live ctx) q hq).2 s d h,
   (evalConstantsF_pres (branchOK_branched ctx _ hb) (scope_incorpus ctx) (incorpus_live ctx) _ q hq).2 s d h⟩

/-- … and per-shard simplification, for shards whose live documents are all on a branch -/
theorem shard_simplify_preserves_branched (ctx : List Shard) (s : Shard) (hv : s.featureVersion ≥ 12)
    (hb : ∀ d, s.live d = true → OnNamedBranch s d)
    (q : Q) (hq : wf noExactEmpty true q = true) (d : Doc) (hl : s.live d = true) :
    eval (shardSimplify s q) ctx s d = eval q ctx s d :=
  (shardSimplify_pres ctx s (branchOK_branched ctx _ (fun s' d' hd => by obtain ⟨rfl, hl'⟩ := hd; exact hb d' hl')) hv q hq).2
    s d ⟨rfl, hl⟩

/-- **per-shard simplification against repository metadata** (`indexData.simplify`): for every shard (any mix of
    tombstoned and live repositories, format feature version ≥ 12), every tree without `type:repo` nodes (they
    never reach a shard) and without empty `Branch` patterns, and every document of a non-tombstoned repository
    of the shard -/
theorem shard_simplify_preserves_partial (ctx : List Shard) (s : Shard) (hv : s.featureVersion ≥ 12)
    (q : Q) (hq : wf noEmpty true q = true) (d : Doc) (hl : s.live d = true) :
    eval (shardSimplify s q) ctx s d = eval q ctx s d :=
  (shardSimplify_pres ctx s (branchOK_noEmpty ctx _) hv q hq).2 s d ⟨rfl, hl⟩

/-- the shortcut in `indexData.Search`/`List`: a tree that simplifies to FALSE matches no live document -/
theorem Const_false_shortcut (ctx : List Shard) (s : Shard) (hv : s.featureVersion ≥ 12)
    (q : Q) (hq : wf noEmpty true q = true) (hc : shardSimplify s q = .const false)
    (d : Doc) (hl : s.live d = true) : eval q ctx s d = false := by
  rw [← shard_simplify_preserves_partial ctx s hv q hq d hl, hc, eval_const]

/-- … and one that simplifies to TRUE matches every live document (used by `List`) -/
theorem Const_true_shortcut (ctx : List Shard) (s : Shard) (hv : s.featureVersion ≥ 12)
    (q : Q) (hq : wf noEmpty true q = true) (hc : shardSimplify s q = .const true)
    (d : Doc) (hl : s.live d = true) : eval q ctx s d = true := by
  rw [← shard_simplify_preserves_partial ctx s hv q hq d hl, hc, eval_const]

/-- what a shard search evaluates — simplify against the shard, then expand — selects the documents of the
    original tree -/
theorem search_pipeline_preserves_partial (ctx : List Shard) (s : Shard) (hv : s.featureVersion ≥ 12)
    (q : Q) (hq : wf noEmpty true q = true) (d : Doc) (hl : s.live d = true) :
    eval (expand (shardSimplify s q)) ctx s d = eval q ctx s d := by
  obtain ⟨w, _⟩ := shardSimplify_pres ctx s (branchOK_noEmpty ctx _) hv q hq
  rw [(expand_pres (scope_nt ctx (InShard s)) _ w).2 s d ⟨rfl, hl⟩]
  exact shard_simplify_preserves_partial ctx s hv q hq d hl

/-- **C05 as evaluated by the driver** on the implementation's rewritten tree, here for the model's -/
theorem C05_checkP_Simplify_partial (ctx : List Shard) (q : Q) (hq : hasEmptyBranch q = false) :
    checkP ctx q (simplify q) = true := by
  simp only [checkP, sameDocs, sameDocsIn, List.all_eq_true]
  intro s hs d hd
  cases hl : s.live d with
  | false => simp
  | true => simp [Simplify_preserves_partial ctx q hq s d ⟨hs, hd, hl⟩]

theorem C05_checkP_expand (ctx : List Shard) (q : Q) : checkP ctx q (expand q) = true := by
  simp only [checkP, sameDocs, sameDocsIn, List.all_eq_true]
  intro s hs d hd
  cases hl : s.live d with
  | false => simp
  | true => simp [expand_preserves ctx q s d ⟨hs, hd, hl⟩]

theorem C05_checkPShard_partial (ctx : List Shard) (s : Shard) (hv : s.featureVersion ≥ 12)
    (q : Q) (hq : wf noEmpty true q = true) : checkPShard ctx s q (shardSimplify s q) = true := by
  simp only [checkPShard, sameDocsIn, List.all_eq_true]
  intro d _
  cases hl : s.live d with
  | false => simp
  | true => simp [shard_simplify_preserves_partial ctx s hv q hq d hl]

/-! ### generated-table obligations (translator table `QuerySwitches`, regenerated from the working tree on every run)

The model's `map`, `flatten`, `evalConstantsF`, `stripCaseScopes`, `expandFileContent`, `shardAtom` have one equation
per `case` of the corresponding Go type switch; these theorems pin the case lists, so a source edit that adds, drops
or reorders a case (a new composite node, a new folded atom, a new simplified filter) breaks the build. -/

/-- the node kinds of package `query` the model's `Q` has constructors for (`caseQ`, `orOperator`, `token` exist only
    inside the parser and never leave it) -/
theorem table_kinds : Gen.qKinds =
    ["And", "Boost", "Branch", "BranchesRepos", "Const", "FileNameSet", "Language", "Meta", "Not", "Or", "RawConfig",
     "Regexp", "Repo", "RepoIDs", "RepoRegexp", "RepoSet", "Substring", "Symbol", "Type", "caseQ", "caseScopeQ",
     "orOperator", "token"] := by decide

/-- every node kind with children is descended into by `Map`, `flatten` and `evalConstants`, except `Symbol.Expr`
    (an atom by construction) and the parser-internal `caseScopeQ` (removed by `stripCaseScopes` before any rewrite) -/
theorem table_composites_descended : ∀ p ∈ Gen.qCompositeFields,
    (("*" ++ p.1) ∈ Gen.mapCases ∧ ("*" ++ p.1) ∈ Gen.flattenCases ∧ ("*" ++ p.1) ∈ Gen.evalConstantsCases ∧
      ("*" ++ p.1) ∈ Gen.stripCaseScopesCases) ∨
    p = ("Symbol", "Expr") ∨ (p = ("caseScopeQ", "Child") ∧ "*caseScopeQ" ∈ Gen.stripCaseScopesCases) := by decide

theorem table_map : Gen.mapCases = ["*And", "*Or", "*Not", "*Type", "*Boost"] := by decide
theorem table_flatten : Gen.flattenCases = ["*And", "*Or", "*Not", "*Type", "*Boost", "default"] ∧
    Gen.queryChildrenCases = ["*And", "*Or"] := by decide
theorem table_evalConstants : Gen.evalConstantsCases =
    ["*And", "*Or", "*Not", "*Type", "*Boost", "*Substring", "*Regexp", "*Branch", "*BranchesRepos", "*RepoIDs",
     "*RepoSet", "*FileNameSet"] := by decide
theorem table_expand : Gen.expandFileContentCases = ["*Substring", "*Regexp"] := by decide
theorem table_stripCaseScopes : Gen.stripCaseScopesCases =
    ["*And", "*Or", "*Not", "*Type", "*Boost", "*caseScopeQ", "default"] := by decide
theorem table_shard_simplify : Gen.simplifyCases =
    ["*query.Repo", "*query.RepoRegexp", "*query.BranchesRepos", "*query.RepoSet", "query.RawConfig", "*query.RepoIDs",
     "*query.Language", "*query.Meta"] := by decide

/-! ### the full statement is false on the unchanged tree: `Branch{Pattern: ""}` is folded to TRUE, but a document
    that is on no branch does not match it (DESIGN §8; replayed against the real code by corpus/C05) -/

def exRepo : Repo := ⟨[97], 1, [], 42, [], false⟩
def exDoc : Doc := ⟨0, [], [102], [71, 111], [], [], []⟩
def exShard : Shard := ⟨[exRepo], [[71, 111]], 12, [exDoc]⟩

theorem evalConstants_full_false :
    ¬ ∀ (ctx : List Shard) (q : Q) (s : Shard) (d : Doc), InCorpus ctx s d →
        eval (evalConstants q) ctx s d = eval q ctx s d := by
  intro h
  have := h [exShard] (.branch [] false) exShard exDoc ⟨by simp, by simp [exShard], by decide⟩
  revert this
  decide

/-- the exact variant is false for every document of a repository without a branch named "" — here one on `main` -/
theorem evalConstants_exact_empty_false :
    ¬ ∀ (ctx : List Shard) (q : Q) (s : Shard) (d : Doc), InCorpus ctx s d → OnNamedBranch s d →
        eval (evalConstants q) ctx s d = eval q ctx s d := by
  intro h
  let r : Repo := ⟨[97], 1, [[109]], 42, [], false⟩
  let d : Doc := ⟨0, [0], [102], [71, 111], [], [], []⟩
  let s : Shard := ⟨[r], [[71, 111]], 12, [d]⟩
  have := h [s] (.branch [] true) s d ⟨by simp, by simp [s], by decide⟩ ⟨r, 0, [109], by decide, by simp [d], by decide⟩
  revert this
  decide

/-! ### non-vacuity -/

/-- a tree exercising folding under negation, a `Type` node collapsing, flattening of nested / single-child nodes -/
def exQ : Q :=
  .and [.and [.substr [102, 111, 111] false false false, .not (.const false)],
        .or [.type 1 (.repoSet [])], .boost 7 (.or [.repo ⟨[97], [[97]]⟩]), .and []]

example : simplify exQ = .const false := by rfl
example : hasEmptyBranch exQ = false := by decide
example : simplify (.and [.and [.substr [102] false false false, .const true], .not (.not (.language [71, 111]))])
    = .and [.substr [102] false false false, .not (.not (.language [71, 111]))] := by rfl
example : shardSimplify exShard (.and [.repo ⟨[97], [[97]]⟩, .language [67]]) = .const false := by rfl
example : shardSimplify exShard (.and [.repo ⟨[97], [[97]]⟩, .language [71, 111]]) = .language [71, 111] := by rfl
example : expand (.not (.substr [102] true false false))
    = .not (.or [.substr [102] true true false, .substr [102] true false true]) := by rfl
example : InCorpus [exShard] exShard exDoc := ⟨by simp, by simp [exShard], by decide⟩
example : wf noEmpty true (.and [.repo ⟨[97], [[97]]⟩, .language [67]]) = true := by decide

end ZoektModel.C05
