/-
C35 — Shard merging reports success only when it merged, and never duplicates.  Property theorems; lemmas live in
C35/{Lemmas,Vis,Inv,Steps,Remove,MergeProof,ExplodeProof}.lean.

Statement (properties.jsonl): 'zoekt-merge-index merge' reports success only when a compound shard containing every
input repository is in place and every input shard is gone, and 'explode' only when every repository is back in its own
shard and the compound shard is gone.  If either fails or is killed at any point, no repository is ever visible in two
shards at once.

The theorems quantify over every initial directory, every input list, every fault oracle `flt : Nat → Bool` (which
operations fail by injection — any subset, not only one) and, through "every recorded state", every kill point.
-/
import ZoektModel.C35.MergeProof
namespace ZoektModel.C35

/-- what every recorded state must satisfy -/
def Gd (d : Dir) : Prop := noDupVis d = true

/-- merge: exit status 0 implies the post-condition -/
def Qmerge (d0 : Dir) (names : List String) (e : Exit) (fin : Dir) : Prop :=
  ∀ out, e = .ok out → mergePost d0 names out fin = true

/-- the compound's name is new, or the name of one of the inputs (re-merging a compound shard) -/
def DstFresh (d0 : Dir) (names : List String) (dst : String) : Prop :=
  dst ∈ names ∨ (d0.get ⟨.shard, dst⟩ = none ∧ d0.get ⟨.sidecar, dst⟩ = none)

theorem merge_final (d0 : Dir) (names : List String) (dst : String) (m : List Repo) (h0 : NoDupSem d0)
    (hnames : names.Nodup) (hdst : DstFresh d0 names dst) (hm : mergedRepos d0 names = some m)
    (d : Dir) (hK : K d0 d) (hgone : ∀ b ∈ names, d.get ⟨.shard, b⟩ = none ∧ d.get ⟨.sidecar, b⟩ = none) :
    let fin := (d.del ⟨.tmp, dst⟩).put ⟨.shard, dst⟩ (.shard m)
    Gd fin ∧ mergePost d0 names dst fin = true := by
  intro fin
  obtain ⟨i1, i2, i3, i4⟩ := mergedRepos_spec d0 h0 names m hnames hm
  have gshard : ∀ b, fin.get ⟨.shard, b⟩ = if dst = b then some (.shard m) else d.get ⟨.shard, b⟩ := by
    intro b
    show ((d.del ⟨.tmp, dst⟩).put ⟨.shard, dst⟩ (.shard m)).get ⟨.shard, b⟩ = _
    rw [get_put, get_del]
    by_cases h : dst = b
    · subst h; simp
    · rw [if_neg (by intro h'; cases h'; exact h rfl), if_neg (by intro h'; cases h'), if_neg h]
  have gside : ∀ b, fin.get ⟨.sidecar, b⟩ = d.get ⟨.sidecar, b⟩ := by
    intro b
    show ((d.del ⟨.tmp, dst⟩).put ⟨.shard, dst⟩ (.shard m)).get ⟨.sidecar, b⟩ = _
    rw [get_put, get_del, if_neg (by intro h'; cases h'), if_neg (by intro h'; cases h')]
  have sidedst : d.get ⟨.sidecar, dst⟩ = none := by
    rcases hdst with h | h
    · exact (hgone dst h).2
    · cases hs : d.get ⟨.sidecar, dst⟩ with
      | none => rfl
      | some f => have := hK.side dst f hs; rw [h.2] at this; cases this
  have effdst : effective fin dst m = m := by
    unfold effective; rw [gside, sidedst]
  have hwf : fin.wf = true := wf_put _ _ _ (wf_del _ _ hK.wf)
  -- visibility in the final directory
  have vis : ∀ b x, Visible fin b x → (b = dst ∧ x ∈ liveNames m) ∨ (b ≠ dst ∧ b ∉ names ∧ Visible d0 b x) := by
    intro b x ⟨rs, g, hx⟩
    rw [gshard] at g
    by_cases h : dst = b
    · subst h
      rw [if_pos rfl] at g; cases g
      rw [effdst] at hx
      exact Or.inl ⟨rfl, hx⟩
    · rw [if_neg h] at g
      refine Or.inr ⟨fun h' => h h'.symm, ?_, ?_⟩
      · intro hb; rw [(hgone b hb).1] at g; cases g
      · apply K_visible hK
        refine ⟨rs, g, ?_⟩
        rwa [effective_congr fin d b rs (gside b)] at hx
  have hsem : NoDupSem fin := by
    constructor
    · intro b1 b2 x v1 v2
      rcases vis b1 x v1 with ⟨e1, m1⟩ | ⟨n1, nn1, w1⟩ <;> rcases vis b2 x v2 with ⟨e2, m2⟩ | ⟨n2, nn2, w2⟩
      · rw [e1, e2]
      · obtain ⟨b', hb', hv⟩ := i2 x m1
        have := h0.1 b' b2 x hv w2
        subst this; exact absurd hb' nn2
      · obtain ⟨b', hb', hv⟩ := i2 x m2
        have := h0.1 b' b1 x hv w1
        subst this; exact absurd hb' nn1
      · exact h0.1 b1 b2 x w1 w2
    · intro b rs g
      rw [gshard] at g
      by_cases h : dst = b
      · subst h
        rw [if_pos rfl] at g; cases g
        rw [effdst]; exact i3
      · rw [if_neg h] at g
        rw [effective_congr fin d b rs (gside b)]
        exact (K_noDup h0 hK).2 b rs g
  refine ⟨noDupVis_of_sem fin hwf hsem, ?_⟩
  unfold mergePost
  rw [gshard, if_pos rfl]
  simp only [effdst, Bool.and_eq_true, List.all_eq_true, List.mem_flatMap, forall_exists_index, and_imp,
    Bool.or_eq_true, beq_iff_eq, Bool.not_eq_true']
  constructor
  · intro w b hb hw
    have hwm := i4 b hb w hw
    unfold holds
    rw [List.any_eq_true]
    exact ⟨w, hwm, by simp [i1 w hwm]⟩
  · intro b hb
    by_cases h : b = dst
    · exact Or.inl h
    · refine Or.inr ⟨?_, ?_⟩
      · rw [has_false_iff, gshard, if_neg (fun h' => h h'.symm)]; exact (hgone b hb).1
      · rw [has_false_iff, gside]; exact (hgone b hb).2

/-- the whole merge run: every recorded state is duplicate-free and exit status 0 implies the post-condition -/
theorem merge_sat (d0 : Dir) (names : List String) (dst : String) (flt : Nat → Bool)
    (hwf : d0.wf = true) (hnd : noDupVis d0 = true) (hnames : names.Nodup) (hdst : DstFresh d0 names dst) :
    Sat Gd (Qmerge d0 names) flt (mergePlan false d0 names dst) 0 d0 := by
  have h0 := sem_of_noDupVis d0 hwf hnd
  have hG : ∀ d, K d0 d → Gd d := fun d k => K_G h0 k
  have hQerr : ∀ d, Qmerge d0 names .err d := by intro d out h; cases h
  unfold mergePlan
  apply openAll_sat hQerr names _ d0 hnd
  intro n1
  apply readMetas_sat hQerr d0 names _ d0 hnd
  intro n2
  split
  · rw [sat_done]; exact hQerr d0
  · rename_i m hm
    apply writeTmp_sat (I := K d0) (fun d o inj hb hk => K_benign inj hb hk) hG
    · intro n' d' _; rw [sat_done]; exact hQerr d'
    · intro n3 d1 hK1 htmp
      apply removeAll_sat hG hQerr _ names d1 hK1
      intro n4 d2 hK2 hgone hsame _
      have htmp2 : d2.get ⟨.tmp, dst⟩ = some (.shard m) := by
        rw [hsame _ (by intro b _; constructor <;> (intro h; cases h))]; exact htmp
      rw [sat_op]
      unfold sem
      cases flt n4
      · simp only [Bool.false_eq_true, if_false, htmp2, Option.getD_none]
        obtain ⟨g, p⟩ := merge_final d0 names dst m h0 hnames hdst hm d2 hK2 hgone
        refine ⟨g, ?_⟩
        rw [if_neg (by simp), sat_done]
        intro out hout; cases hout; exact p
      · simp only [if_true]
        refine ⟨hG _ hK2, ?_⟩
        rw [if_pos (by simp), sat_done]; exact hQerr d2
    · exact K_refl d0 hwf

/-- **C35, merge never duplicates**: whatever fails and wherever the process is killed (every recorded state is the
    directory a kill at that point leaves behind), no repository is visible twice -/
theorem no_duplicate_visibility_merge (d0 : Dir) (names : List String) (dst : String) (flt : Nat → Bool)
    (hwf : d0.wf = true) (hnd : noDupVis d0 = true) (hnames : names.Nodup) (hdst : DstFresh d0 names dst) :
    ∀ s ∈ (run flt (mergePlan false d0 names dst) 0 d0).1, noDupVis s.dir = true :=
  (merge_sat d0 names dst flt hwf hnd hnames hdst).1

/-- **C35, merge success**: exit status 0 (with output `out`) implies that a loadable compound shard showing every live
    input repository with all its documents is at `out` and that every input shard and sidecar is gone -/
theorem merge_success_spec (d0 : Dir) (names : List String) (dst : String) (flt : Nat → Bool)
    (hwf : d0.wf = true) (hnd : noDupVis d0 = true) (hnames : names.Nodup) (hdst : DstFresh d0 names dst)
    (out : String) (hexit : (run flt (mergePlan false d0 names dst) 0 d0).2 = .ok out) :
    mergePost d0 names out (lastDir (run flt (mergePlan false d0 names dst) 0 d0).1 d0) = true :=
  (merge_sat d0 names dst flt hwf hnd hnames hdst).2 out hexit

end ZoektModel.C35
