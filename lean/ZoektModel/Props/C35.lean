/-
C35 — Shard merging reports success only when it merged, and never duplicates.  Property theorems; lemmas live in
C35/{Lemmas,Vis,Inv,Steps,Remove,MergeProof,ExplodeProof}.lean.

Statement (properties.jsonl): 'zoekt-merge-index merge' reports success only when a compound shard containing every
input repository is in place and every input shard is gone, and 'explode' only when every repository is back in its own
shard and the compound shard is gone.  If either fails or is killed at any point, no repository is ever visible in two
shards at once.

The theorems quantify over every initial directory, every input list, every fault oracle `flt : Nat → Bool` (which
operations fail by injection — any subset, not only one) and, through "every recorded state", every kill point.
-/
import ZoektModel.C35.ExplodePlan
namespace ZoektModel.C35

/-- merge: exit status 0 implies the post-condition -/
def Qmerge (d0 : Dir) (names : List String) (e : Exit) (fin : Dir) : Prop :=
  ∀ out, e = .ok out → mergePost d0 names out fin = true

/-- the compound's name is new, or the name of one of the inputs (re-merging a compound shard) -/
def DstFresh (d0 : Dir) (names : List String) (dst : String) : Prop :=
  dst ∈ names ∨ (d0.get ⟨.shard, dst⟩ = none ∧ d0.get ⟨.sidecar, dst⟩ = none)

theorem merge_final (d0 : Dir) (names : List String) (dst : String) (m : List Repo) (h0 : NoDupSem d0)
    (hnames : names.Nodup) (hdst : DstFresh d0 names dst) (hm : mergedRepos d0 names = some m)
    (d : Dir) (hK : K d0 d) (hgone : ∀ b ∈ names, d.get ⟨.shard, b⟩ = none ∧ d.get ⟨.sidecar, b⟩ = none) :
    let fin := (d.del ⟨.tmp, dst⟩).put ⟨.shard, dst⟩ (.shard m)
    Gd fin ∧ mergePost d0 names dst fin = true := by
  intro fin
  obtain ⟨i1, i2, i3, i4⟩ := mergedRepos_spec d0 h0 names m hnames hm
  have gshard : ∀ b, fin.get ⟨.shard, b⟩ = if dst = b then some (.shard m) else d.get ⟨.shard, b⟩ := by
    intro b
    show ((d.del ⟨.tmp, dst⟩).put ⟨.shard, dst⟩ (.shard m)).get ⟨.shard, b⟩ = _
    rw [get_put, get_del]
    by_cases h : dst = b
    · subst h; simp
    · rw [if_neg (by intro h'; cases h'; exact h rfl), if_neg (by intro h'; cases h'), if_neg h]
  have gside : ∀ b, fin.get ⟨.sidecar, b⟩ = d.get ⟨.sidecar, b⟩ := by
    intro b
    show ((d.del ⟨.tmp, dst⟩).put ⟨.shard, dst⟩ (.shard m)).get ⟨.sidecar, b⟩ = _
    rw [get_put, get_del, if_neg (by intro h'; cases h'), if_neg (by intro h'; cases h')]
  have sidedst : d.get ⟨.sidecar, dst⟩ = none := by
    rcases hdst with h | h
    · exact (hgone dst h).2
    · cases hs : d.get ⟨.sidecar, dst⟩ with
      | none => rfl
      | some f => have := hK.side dst f hs; rw [h.2] at this; cases this
  have effdst : effective fin dst m = m := by
    unfold effective; rw [gside, sidedst]
  have hwf : fin.wf = true := wf_put _ _ _ (wf_del _ _ hK.wf)
  -- visibility in the final directory
  have vis : ∀ b x, Visible fin b x → (b = dst ∧ x ∈ liveNames m) ∨ (b ≠ dst ∧ b ∉ names ∧ Visible d0 b x) := by
    intro b x ⟨rs, g, hx⟩
    rw [gshard] at g
    by_cases h : dst = b
    · subst h
      rw [if_pos rfl] at g; cases g
      rw [effdst] at hx
      exact Or.inl ⟨rfl, hx⟩
    · rw [if_neg h] at g
      refine Or.inr ⟨fun h' => h h'.symm, ?_, ?_⟩
      · intro hb; rw [(hgone b hb).1] at g; cases g
      · apply K_visible hK
        refine ⟨rs, g, ?_⟩
        rwa [effective_congr fin d b rs (gside b)] at hx
  have hsem : NoDupSem fin := by
    constructor
    · intro b1 b2 x v1 v2
      rcases vis b1 x v1 with ⟨e1, m1⟩ | ⟨n1, nn1, w1⟩ <;> rcases vis b2 x v2 with ⟨e2, m2⟩ | ⟨n2, nn2, w2⟩
      · rw [e1, e2]
      · obtain ⟨b', hb', hv⟩ := i2 x m1
        have := h0.1 b' b2 x hv w2
        subst this; exact absurd hb' nn2
      · obtain ⟨b', hb', hv⟩ := i2 x m2
        have := h0.1 b' b1 x hv w1
        subst this; exact absurd hb' nn1
      · exact h0.1 b1 b2 x w1 w2
    · intro b rs g
      rw [gshard] at g
      by_cases h : dst = b
      · subst h
        rw [if_pos rfl] at g; cases g
        rw [effdst]; exact i3
      · rw [if_neg h] at g
        rw [effective_congr fin d b rs (gside b)]
        exact (K_noDup h0 hK).2 b rs g
  refine ⟨noDupVis_of_sem fin hwf hsem, ?_⟩
  unfold mergePost
  rw [gshard, if_pos rfl]
  simp only [effdst, Bool.and_eq_true, List.all_eq_true, List.mem_flatMap, forall_exists_index, and_imp,
    Bool.or_eq_true, beq_iff_eq, Bool.not_eq_true']
  constructor
  · intro w b hb hw
    have hwm := i4 b hb w hw
    unfold holds
    rw [List.any_eq_true]
    exact ⟨w, hwm, by simp [i1 w hwm]⟩
  · intro b hb
    by_cases h : b = dst
    · exact Or.inl h
    · refine Or.inr ⟨?_, ?_⟩
      · rw [has_false_iff, gshard, if_neg (fun h' => h h'.symm)]; exact (hgone b hb).1
      · rw [has_false_iff, gside]; exact (hgone b hb).2

/-- the whole merge run: every recorded state is duplicate-free and exit status 0 implies the post-condition -/
theorem merge_sat (d0 : Dir) (names : List String) (dst : String) (flt : Nat → Bool)
    (hwf : d0.wf = true) (hnd : noDupVis d0 = true) (hnames : names.Nodup) (hdst : DstFresh d0 names dst) :
    Sat Gd (Qmerge d0 names) flt (mergePlan false d0 names dst) 0 d0 := by
  have h0 := sem_of_noDupVis d0 hwf hnd
  have hG : ∀ d, K d0 d → Gd d := fun d k => K_G h0 k
  have hQerr : ∀ d, Qmerge d0 names .err d := by intro d out h; cases h
  unfold mergePlan
  split
  · rw [sat_done]; exact hQerr d0
  apply openAll_sat hQerr names _ d0 hnd
  intro n1
  apply readMetas_sat hQerr d0 names _ d0 hnd
  intro n2
  split
  · rw [sat_done]; exact hQerr d0
  · rename_i m hm
    apply writeTmp_sat (I := K d0) dst (fun d o inj hb hk => K_benign inj (tmpOnly_benign hb) hk) hG
    · intro n' d' _; rw [sat_done]; exact hQerr d'
    · intro n3 d1 hK1 htmp
      apply removeAll_sat hG hQerr _ names d1 hK1
      intro n4 d2 hK2 hgone hsame _
      have htmp2 : d2.get ⟨.tmp, dst⟩ = some (.shard m) := by
        rw [hsame _ (by intro b _; constructor <;> (intro h; cases h))]; exact htmp
      rw [sat_op]
      unfold sem
      cases flt n4
      · simp only [Bool.false_eq_true, if_false, htmp2, Option.getD_none]
        obtain ⟨g, p⟩ := merge_final d0 names dst m h0 hnames hdst hm d2 hK2 hgone
        refine ⟨g, ?_⟩
        rw [if_neg (by simp), sat_done]
        intro out hout; cases hout; exact p
      · simp only [if_true]
        refine ⟨hG _ hK2, ?_⟩
        rw [if_pos (by simp), sat_done]; exact hQerr d2
    · exact K_refl d0 hwf

/-- **C35, merge never duplicates**: whatever fails and wherever the process is killed (every recorded state is the
    directory a kill at that point leaves behind), no repository is visible twice -/
theorem no_duplicate_visibility_merge (d0 : Dir) (names : List String) (dst : String) (flt : Nat → Bool)
    (hwf : d0.wf = true) (hnd : noDupVis d0 = true) (hnames : names.Nodup) (hdst : DstFresh d0 names dst) :
    ∀ s ∈ (run flt (mergePlan false d0 names dst) 0 d0).1, noDupVis s.dir = true :=
  (merge_sat d0 names dst flt hwf hnd hnames hdst).1

/-- **C35, merge success**: exit status 0 (with output `out`) implies that a loadable compound shard showing every live
    input repository with all its documents is at `out` and that every input shard and sidecar is gone -/
theorem merge_success_spec (d0 : Dir) (names : List String) (dst : String) (flt : Nat → Bool)
    (hwf : d0.wf = true) (hnd : noDupVis d0 = true) (hnames : names.Nodup) (hdst : DstFresh d0 names dst)
    (out : String) (hexit : (run flt (mergePlan false d0 names dst) 0 d0).2 = .ok out) :
    mergePost d0 names out (lastDir (run flt (mergePlan false d0 names dst) 0 d0).1 d0) = true :=
  (merge_sat d0 names dst flt hwf hnd hnames hdst).2 out hexit

/-! ### explode -/

/-- what is assumed of the simple shards' file names (`Options.shardNameVersion`): different repositories get
    different names, none of them is the compound shard's name, and no stale sidecar waits under such a name -/
structure SimpleOk (d0 : Dir) (input : String) (simple : String → String) : Prop where
  inj : ∀ r1 ∈ inputRepos d0 input, ∀ r2 ∈ inputRepos d0 input, simple r1.name = simple r2.name → r1.name = r2.name
  noside : ∀ r ∈ inputRepos d0 input, d0.get ⟨.sidecar, simple r.name⟩ = none
  ne : ∀ r ∈ inputRepos d0 input, simple r.name ≠ input

theorem mem_inputRepos (d0 : Dir) (input : String) (rs : List Repo) (hg : d0.get ⟨.shard, input⟩ = some (.shard rs))
    (r : Repo) : r ∈ inputRepos d0 input ↔ r ∈ copied (effective d0 input rs) := by
  unfold inputRepos
  rw [hg, mem_copied]
  simp [List.mem_filter]

/-- the whole explode run -/
theorem explode_sat (d0 : Dir) (input : String) (simple : String → String) (ro co : List String) (flt : Nat → Bool)
    (hwf : d0.wf = true) (hnd : noDupVis d0 = true) (hs : SimpleOk d0 input simple) :
    Sat Gd (Qex d0 input simple) flt (explodePlan false d0 input simple ro co) 0 d0 := by
  have h0 := sem_of_noDupVis d0 hwf hnd
  have hG : ∀ d, K d0 d → Gd d := fun d k => K_G h0 k
  have hQerr : ∀ d, Qex d0 input simple .err d := by intro d out h; cases h
  unfold explodePlan
  rw [sat_op, sem_openRd]
  refine ⟨hnd, ?_⟩
  split
  · rw [sat_done]; exact hQerr d0
  split
  · rename_i rs hg
    rw [sat_op, sem_openRd]
    refine ⟨hnd, ?_⟩
    split
    · rw [sat_done]; exact hQerr d0
    generalize hL : copied (effective d0 input rs) = L
    have hmem : ∀ r, r ∈ inputRepos d0 input ↔ r ∈ L := by
      intro r; rw [← hL]; exact mem_inputRepos d0 input rs hg r
    have hlive : ∀ r ∈ L, r.tomb = false := by rw [← hL]; exact copied_live _
    have hnames : (L.map (·.name)).Nodup := by
      rw [← liveNames_of_all_live L hlive, ← hL]
      exact (h0.2 input rs hg).sublist (liveNames_copied_sublist _)
    have hy : ExHyp d0 input simple L := {
      h0 := h0
      vis := by
        intro r hr
        refine ⟨rs, hg, ?_⟩
        have hr' : r ∈ copied (effective d0 input rs) := hL ▸ hr
        have := (mem_copied _ _).1 hr'
        unfold liveNames
        exact List.mem_map.2 ⟨r, List.mem_filter.2 ⟨this.1, by simp [this.2.1]⟩, rfl⟩
      live := hlive
      names := hnames
      inj := by
        intro r1 h1 r2 h2 he
        exact List.inj_on_of_nodup_map hnames h1 h2 (hs.inj r1 ((hmem r1).2 h1) r2 ((hmem r2).2 h2) he)
      noside := fun r hr => hs.noside r ((hmem r).2 hr)
      ne := fun r hr => hs.ne r ((hmem r).2 hr) }
    have hin : ∀ w ∈ inputRepos d0 input, w ∈ L := fun w hw => (hmem w).1 hw
    have main := writeSimple_sat (G := Gd) (Q := Qex d0 input simple) (flt := flt) hy hQerr hG co
      (fun reg => removeShard input (cleanup (arrange co reg) .err)
        (renameAll false (arrange co reg) (arrange ro reg) false))
      L [] d0 (0 + 1 + 1) (by simp) (by simpa using hnames.of_map _) (K_refl d0 hwf) (by simp)
      (by
        intro n1 d1 hK1 htmp
        simp only [List.nil_append] at htmp ⊢
        apply removeShard_sat hG input _ _ d1 hK1
        · intro n' d' hK'
          apply benign_sat (I := K d0) (L := fun e => e = .err) flt (fun d o inj hb hk => K_benign inj hb hk) hG
          · intro e d _ _; subst e; exact hQerr d
          · exact cleanup_benign (fun e => e = Exit.err) Exit.err rfl _
          · exact hK'
        · intro n2 d2 hK2 g1 g2 hsame
          have e : E d0 input simple L d2 := by
            apply E_of_K hK2 g1 g2
            intro r hr f hf
            rw [hsame _ (by intro h; cases h) (by intro h; cases h), htmp r hr] at hf
            cases hf; rfl
          apply renameAll_sat hy hin (arrange co (L.map fun r => simple r.name)) (arrange ro (L.map fun r => simple r.name))
            (by intro r hr; rw [mem_arrange]; exact List.mem_map.2 ⟨r, hr, rfl⟩)
            (arrange ro (L.map fun r => simple r.name)) [] false d2 n2 (by simp)
            (by
              intro b hb
              rw [mem_arrange] at hb
              obtain ⟨r, hr, rfl⟩ := List.mem_map.1 hb
              exact ⟨r, hr, rfl⟩)
            e (by intro _ b hb; cases hb))
    simpa using main
  · rw [sat_done]; exact hQerr d0

/-- **C35, explode never duplicates** (every fault oracle, every kill point) -/
theorem no_duplicate_visibility_explode (d0 : Dir) (input : String) (simple : String → String) (ro co : List String)
    (flt : Nat → Bool) (hwf : d0.wf = true) (hnd : noDupVis d0 = true) (hs : SimpleOk d0 input simple) :
    ∀ s ∈ (run flt (explodePlan false d0 input simple ro co) 0 d0).1, noDupVis s.dir = true :=
  (explode_sat d0 input simple ro co flt hwf hnd hs).1

/-- **C35, explode success**: exit status 0 implies that the compound shard and its sidecar are gone and that every
    live repository with documents is alone in its own shard, for every order in which the Go map iterations rename
    (`ro`) and clean up (`co`) -/
theorem explode_success_spec (d0 : Dir) (input : String) (simple : String → String) (ro co : List String)
    (flt : Nat → Bool) (hwf : d0.wf = true) (hnd : noDupVis d0 = true) (hs : SimpleOk d0 input simple)
    (out : String) (hexit : (run flt (explodePlan false d0 input simple ro co) 0 d0).2 = .ok out) :
    explodePost d0 input simple (lastDir (run flt (explodePlan false d0 input simple ro co) 0 d0).1 d0) = true :=
  (explode_sat d0 input simple ro co flt hwf hnd hs).2 out hexit

/-! ### kill points -/

/-- the directory a SIGKILL on entry to operation `k` leaves behind -/
def stateAt (steps : List Step) (d0 : Dir) (k : Nat) : Dir := lastDir (steps.take k) d0

theorem lastDir_mem (steps : List Step) (d0 : Dir) : lastDir steps d0 = d0 ∨ ∃ s ∈ steps, lastDir steps d0 = s.dir := by
  induction steps generalizing d0 with
  | nil => exact Or.inl rfl
  | cons s r ih =>
    right
    rcases ih s.dir with h | ⟨s', hs', h⟩
    · exact ⟨s, by simp, by simpa [lastDir] using h⟩
    · exact ⟨s', by simp [hs'], by simpa [lastDir] using h⟩

theorem stateAt_safe (steps : List Step) (d0 : Dir) (h0 : noDupVis d0 = true)
    (h : ∀ s ∈ steps, noDupVis s.dir = true) (k : Nat) : noDupVis (stateAt steps d0 k) = true := by
  unfold stateAt
  rcases lastDir_mem (steps.take k) d0 with h' | ⟨s, hs, h'⟩
  · rw [h']; exact h0
  · rw [h']; exact h s (List.mem_of_mem_take hs)

/-- **C35, killed at any point** (merge and explode): the directory left behind by a kill on entry to the k-th
    operation shows no repository twice -/
theorem no_duplicate_visibility (d0 : Dir) (flt : Nat → Bool) (k : Nat) (hwf : d0.wf = true) (hnd : noDupVis d0 = true) :
    (∀ names dst, names.Nodup → DstFresh d0 names dst →
      noDupVis (stateAt (run flt (mergePlan false d0 names dst) 0 d0).1 d0 k) = true) ∧
    (∀ input simple ro co, SimpleOk d0 input simple →
      noDupVis (stateAt (run flt (explodePlan false d0 input simple ro co) 0 d0).1 d0 k) = true) :=
  ⟨fun names dst hn hd => stateAt_safe _ d0 hnd (no_duplicate_visibility_merge d0 names dst flt hwf hnd hn hd) k,
   fun input simple ro co hs => stateAt_safe _ d0 hnd (no_duplicate_visibility_explode d0 input simple ro co flt hwf hnd hs) k⟩

/-! ### the code before the fixes: the success clauses were false (witnesses replayed in corpus/C35) -/

def wDir : Dir := [(⟨.shard, "a"⟩, .shard [⟨"r", false, 1⟩])]

/-- unfixed `merge` (`os.Open` error returned as `("", nil)`): with a missing second input it exits 0, printing an empty
    line, with nothing merged -/
theorem merge_success_spec_unfixed_false :
    (run (fun _ => false) (mergePlan true wDir ["a", "b"] "c") 0 wDir).2 = .ok "" ∧
    mergePost wDir ["a", "b"] "" (lastDir (run (fun _ => false) (mergePlan true wDir ["a", "b"] "c") 0 wDir).1 wDir) = false := by
  decide

def wComp : Dir := [(⟨.shard, "c"⟩, .shard [⟨"r1", false, 1⟩, ⟨"r2", false, 2⟩])]
def wSimple (n : String) : String := n ++ ".z"

/-- unfixed `Explode` (rename failure only logged): when every final rename fails it still exits 0, the compound shard
    removed and both repositories lost -/
theorem explode_success_spec_unfixed_false :
    (run (fun n => decide (n ≥ 15)) (explodePlan true wComp "c" wSimple [] []) 0 wComp).2 = .ok "" ∧
    explodePost wComp "c" wSimple
      (lastDir (run (fun n => decide (n ≥ 15)) (explodePlan true wComp "c" wSimple [] []) 0 wComp).1 wComp) = false := by
  decide

/-! ### non-vacuity -/

def exDir : Dir :=
  [(⟨.shard, "a"⟩, .shard [⟨"r1", false, 2⟩]),
   (⟨.shard, "b"⟩, .shard [⟨"r2", false, 1⟩, ⟨"r3", false, 1⟩, ⟨"r4", false, 0⟩]),
   (⟨.sidecar, "b"⟩, .sidecar [("r2", false), ("r3", true), ("r4", false)]),
   (⟨.shard, "other"⟩, .shard [⟨"r9", false, 1⟩])]

-- the hypotheses of the merge theorems hold, the run succeeds, the compound holds r1 and r2 (r3 tombstoned, r4 empty)
example : exDir.wf = true ∧ noDupVis exDir = true ∧ ["a", "b"].Nodup ∧ DstFresh exDir ["a", "b"] "c" ∧
    (run (fun _ => false) (mergePlan false exDir ["a", "b"] "c") 0 exDir).2 = .ok "c" ∧
    (lastDir (run (fun _ => false) (mergePlan false exDir ["a", "b"] "c") 0 exDir).1 exDir).get ⟨.shard, "c"⟩
      = some (.shard [⟨"r1", false, 2⟩, ⟨"r2", false, 1⟩]) := by
  refine ⟨by decide, by decide, by decide, Or.inr (by decide), by decide, by decide⟩

-- a failing removal of the second input: exit 1, the first input is gone, the compound is still a .tmp file
example : (run (fun n => decide (n = 14)) (mergePlan false exDir ["a", "b"] "c") 0 exDir).2 = .err ∧
    (lastDir (run (fun n => decide (n = 14)) (mergePlan false exDir ["a", "b"] "c") 0 exDir).1 exDir).has ⟨.shard, "a"⟩ = false := by
  decide

-- explode of the compound written above, with one failing rename: exit 1 (fixed code)
example : SimpleOk wComp "c" wSimple ∧
    (run (fun _ => false) (explodePlan false wComp "c" wSimple ["r2.z", "r1.z"] []) 0 wComp).2 = .ok "" ∧
    (run (fun n => decide (n = 15)) (explodePlan false wComp "c" wSimple [] []) 0 wComp).2 = .err := by
  refine ⟨⟨by decide, by decide, by decide⟩, by decide, by decide⟩

end ZoektModel.C35
