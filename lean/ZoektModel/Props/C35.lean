import ZoektModel.C35.Spec
namespace ZoektModel.C35

theorem placeholder_c35 : True := trivial

end ZoektModel.C35
