import ZoektModel.C01.Spec
namespace ZoektModel.C01
theorem placeholder_true : True := trivial
end ZoektModel.C01
