/-
C01 — Search returns exactly the documents the query matches.  Property theorems; lemmas live in C01/Lemmas.lean.

Statement (properties.jsonl): for every indexed corpus and every query tree, a search without match limits returns
exactly the live (non-tombstoned) documents on which the query is true when each atom is checked by scanning the whole
file content or file name.

The model (C01/Model.lean) is the per-shard engine from the constructed match tree on: hit / distance / document
iterators, match trees with `nextDoc`, `prepare`, the cost-staged cached `evalMatchTree`, `pruneMatchTree` and the
document loop of `indexData.Search`. What is proved here, layer by layer (DESIGN §7 C01):

* `staged_eval_correct`, `eval_step_correct` — L7: cost-staged evaluation with the `known` cache = plain evaluation; the
  `did not decide` panic is unreachable (all trees, incl. same-line and substring leaves).
* `nextDoc_sound` — L7: `nextDoc` never skips a document on which the tree is true (and → max, or → min, not → 0), given
  the same guarantee for the substring leaves' iterators.
* `prune_preserves` — L8: `pruneMatchTree` preserves the meaning; `nil` means unsatisfiable.
* `search_loop_exact` — the document loop returns exactly the live documents on which the tree is true, for every tree
  state invariant that makes `nextDoc` sound and `prepare` faithful (`LoopHyp`).
* `C01_search_exact_filters` — the composition (prune, loop, nextDoc, staged evaluation) for every match tree without
  trigram-backed leaves: document predicates (branch, repository, language, metadata, set filters), atoms decided by the
  regexp engine (verdict table as a parameter), const, and / or / not / type / boost / noVisit.
* `dist_findNext_complete`, `dist_next_complete` — L3: the distance iterator (`findNext`, `next(limit)`) never drops a
  pair of postings `q ∈ P1`, `q + d ∈ P2` (beyond the limit), for every fuel: no occurrence of the two selected trigrams
  at the right distance is lost. (Completeness only; that the surviving head is aligned, and the candidate windowing of
  `ngramDocIterator`, are validated, not proved.)
Not proved (validated by the correspondence and the end-to-end oracle only): substring leaves (posting lists → candidates
→ verification, L1–L6), the same-line shortcut's equivalence with "some line holds all literals", regexp literal
extraction (L9), the word fast path (L10), query → match-tree translation (L11), the b-tree (L12), symbol atoms.
-/
import ZoektModel.C01.Lemmas
import ZoektModel.C01.IterLemmas
import ZoektModel.C01.IterSpec
import ZoektModel.C01.DocIterLemmas
import ZoektModel.C01.SubstrLemmas
import ZoektModel.C01.LineLemmas
import ZoektModel.C01.BTreeLemmas
import ZoektModel.C01.FullLemmas
import ZoektModel.C01.WordLemmas
import ZoektModel.C01.SelectLemmas
import ZoektModel.C01.CaseLemmas
import ZoektModel.C01.RegexBridge
import ZoektModel.C01.RegexEq
namespace ZoektModel.C01

/-- **one `evalMatchTree` call** on a consistent tree: the tree stays consistent, its plain value is unchanged, a decided
    answer is the plain value, and at `costRegexp` the answer is decided -/
theorem eval_step_correct (ctx : Ctx) (doc cost : Nat) (t : MT) (h : t.Good ctx doc) :
    (t.eval ctx doc cost).2.Good ctx doc ∧
    (t.eval ctx doc cost).2.val ctx doc = t.val ctx doc ∧
    ((t.eval ctx doc cost).1 ≠ St.higher → (t.eval ctx doc cost).1 = St.pred (t.val ctx doc)) ∧
    (costRegexp ≤ cost → (t.eval ctx doc cost).1 ≠ St.higher) := by
  have r := MT.eval_spec ctx doc cost t h
  exact ⟨r.good, r.val, r.post.1, r.post.2⟩

/-- **staged evaluation = plain evaluation**: for every tree and document, running the costs `costMin … costMax` with
    the `known` cache on the freshly prepared tree yields the plain value; `none` (= `log.Panicf("did not decide")`)
    is never the verdict -/
theorem staged_eval_correct (ctx : Ctx) (doc : Nat) (t : MT) :
    (evalCosts ctx doc 4 0 (t.prepare doc) []).2.1 = some ((t.prepare doc).val ctx doc) :=
  staged_eval ctx doc t

/-- **nextDoc soundness**: no document in `[L, nextDoc)` satisfies the tree -/
theorem nextDoc_sound (subSem : Sub → Nat → Bool) (lineSem : MTs → Nat → Bool) (L : Nat) (t : MT)
    (h : t.Cur subSem L) (d : Nat) (hL : L ≤ d) (hd : d < t.nextDoc.1) : t.sem subSem lineSem d = false :=
  MT.nextDoc_sound subSem lineSem L t h d hL hd

/-- **pruneMatchTree preserves evaluation**; `nil` ↔ no document can satisfy the tree. Hypotheses: a substring leaf
    whose pattern has a trigram that is absent from the shard is false everywhere; the same-line conjunct does not
    depend on pruning (it looks at substring children only, which `prune` leaves alone). -/
theorem prune_preserves (subSem : Sub → Nat → Bool) (lineSem : MTs → Nat → Bool)
    (hX : ∀ s : Sub, s.it = Option.none → ∀ d, subSem s d = false)
    (hline : ∀ ch ch', MTs.pruneAnd ch = some ch' → ∀ d, lineSem ch' d = lineSem ch d) (t : MT) :
    match t.prune with
    | Option.none => ∀ d, t.sem subSem lineSem d = false
    | some t' => ∀ d, t'.sem subSem lineSem d = t.sem subSem lineSem d := by
  have r := MT.prune_spec subSem lineSem hX hline t
  cases hp : t.prune with
  | none => rw [hp] at r; exact r
  | some t' => rw [hp] at r; exact r

/-- **the document loop is exact**: it returns, in order, exactly the live documents on which the tree is true, and does
    not reach the `did not decide` panic -/
theorem search_loop_exact (ctx : Ctx) (truth : Nat → Bool) (Inv : Nat → MT → Prop) (H : LoopHyp ctx truth Inv)
    (t : MT) (hinv : Inv 0 t) :
    (searchLoop ctx (ctx.live.length + 1) t 0 [] []).res =
      (List.range ctx.live.length).filter (fun d => ctx.live.getD d false && truth d) ∧
    (searchLoop ctx (ctx.live.length + 1) t 0 [] []).panicked = false := by
  obtain ⟨h1, h2⟩ := searchLoop_spec ctx truth Inv H (ctx.live.length + 1) t 0 [] [] hinv (by omega)
  refine ⟨?_, h2⟩
  rw [h1, expFrom_eq_filter]
  simp [List.range_eq_range']

/-- **C01 for match trees without trigram-backed leaves** (composition of prune, the loop, nextDoc soundness and staged
    evaluation): `Search` returns exactly the live documents on which the tree is true; if the tree is pruned to `nil`
    no document satisfies it -/
theorem C01_search_exact_filters (ctx : Ctx) (t0 : MT) (hn : t0.NoSub) (hf : Cur0 0 t0) :
    match search ctx t0 with
    | Option.none => ∀ d, sem0 d t0 = false
    | some o =>
      o.res = (List.range ctx.live.length).filter (fun d => ctx.live.getD d false && sem0 d t0) ∧
      o.panicked = false := by
  have hp := MT.prune_spec (fun _ _ => false) (fun _ _ => true) (fun _ _ _ => rfl) (fun _ _ _ _ => rfl) t0
  unfold search
  cases hpr : t0.prune with
  | none => rw [hpr] at hp; exact hp
  | some t =>
    rw [hpr] at hp
    simp only []
    obtain ⟨n1, n2⟩ := MT.prune_noSub t0 hn t hpr
    have := search_loop_exact ctx (fun d => sem0 d t) _ (loopHyp_noSub ctx t) t ⟨n1, n2 hf, fun _ => rfl⟩
    have e : (fun d => ctx.live.getD d false && sem0 d t) = (fun d => ctx.live.getD d false && sem0 d t0) := by
      funext d; rw [show sem0 d t = sem0 d t0 from hp d]
    rw [e] at this
    exact this

/-- **the distance iterator's `findNext` never drops an aligned pair of postings** (sorted posting lists of real offsets) -/
theorem dist_findNext_complete (fuel : Nat) (it : Dist) (hw : it.WF) (q : Nat) (hq : it.Aligned q) :
    (Dist.findNext fuel it).Aligned q :=
  (Dist.findNext_complete fuel it hw q hq).2.1

/-- **`next(limit)` of the distance iterator keeps every aligned pair beyond the limit** -/
theorem dist_next_complete (x : Dist) (hw : x.WF) (limit : Nat) (hl : limit ≠ maxU32) (q : Nat)
    (hq : x.Aligned q) (hgt : limit < q) :
    match Hit.next (.dist x) limit with
    | .dist y => y.Aligned q
    | .basic _ => False := by
  have r := Dist.next_complete x hw limit hl q hq hgt
  cases h : Hit.next (.dist x) limit with
  | dist y => rw [h] at r; exact r.2
  | basic b => rw [h] at r; exact r

/-- **hit iterator specification** (L2/L3, soundness + completeness + order): after any sequence of `next(limit)` calls,
    `first()` is the MINIMUM of what the iterator held at the start that lies beyond every limit — the postings of a
    (merged) trigram iterator, the aligned pairs `p ∈ P1, p + dist ∈ P2` of a distance iterator — or the sentinel if
    nothing is left. The `findNext` fuel of the model provably suffices. -/
theorem hit_iter_spec (h : Hit) (hw : h.WF) (limits : List Nat) (hl : ∀ l, l ∈ limits → l ≠ maxU32) :
    ((h.runNext limits).first.1 = maxU32 ∧ ∀ q, h.has q → ∃ l, l ∈ limits ∧ q ≤ l) ∨
    (h.has (h.runNext limits).first.1 ∧ (∀ l, l ∈ limits → l < (h.runNext limits).first.1) ∧
      ∀ q, h.has q → (∀ l, l ∈ limits → l < q) → (h.runNext limits).first.1 ≤ q) := by
  obtain ⟨w, i⟩ := Hit.runNext_spec limits h hw hl
  obtain ⟨_, _, _, f⟩ := (h.runNext limits).first_spec w
  rcases f with ⟨a, b⟩ | ⟨a, b⟩
  · left
    refine ⟨a, fun q hq => ?_⟩
    apply Classical.byContradiction
    intro hn
    exact b q ((i q).mpr ⟨hq, fun l hl' => by
      apply Classical.byContradiction; intro hlt; exact hn ⟨l, hl', by omega⟩⟩)
  · right
    have := (i _).mp a
    exact ⟨this.1, this.2, fun q hq hql => b q ((i q).mpr ⟨hq, hql⟩)⟩

/-- **`dist_iter_spec`**: for the distance iterator over sorted posting lists `P1`, `P2`: after any sequence of
    `next(limit)`, `first()` = min { p ∈ P1 | p > every limit ∧ p + dist ∈ P2 } (sentinel if there is none) -/
theorem dist_iter_spec (x : Dist) (hw : x.WF) (hfresh : x.started = false) (limits : List Nat)
    (hl : ∀ l, l ∈ limits → l ≠ maxU32) :
    (((Hit.dist x).runNext limits).first.1 = maxU32 ∧ ∀ q, x.Aligned q → ∃ l, l ∈ limits ∧ q ≤ l) ∨
    (x.Aligned ((Hit.dist x).runNext limits).first.1 ∧
      (∀ l, l ∈ limits → l < ((Hit.dist x).runNext limits).first.1) ∧
      ∀ q, x.Aligned q → (∀ l, l ∈ limits → l < q) → ((Hit.dist x).runNext limits).first.1 ≤ q) :=
  hit_iter_spec (.dist x) ⟨hw, fun h => by rw [hfresh] at h; exact absurd h (by simp)⟩ limits hl

/-! non-vacuity of the iterator theorems: trigram "abc" at 3, 10, 20 (two case variants), "def" at 6, 13, 30 -/
def exDist : Dist := ⟨[[3, 20], [10]], [[6, 13, 30]], 3, false⟩
example : exDist.Aligned 10 := ⟨⟨[10], by simp [exDist], by simp⟩, ⟨[6, 13, 30], by simp [exDist], by simp [exDist]⟩⟩
example : (Dist.findNext exDist.fuel exDist).i1.first = 3 ∧
    (match Hit.next (.dist exDist) 3 with | .dist y => y.i1.first | .basic _ => 0) = 10 := by decide
example : exDist.WF ∧ exDist.started = false := by
  refine ⟨⟨?_, ?_, ?_, ?_⟩, rfl⟩
  · intro l hl; simp [exDist] at hl; rcases hl with h | h <;> subst h <;> simp [SortedL]
  · intro l hl; simp [exDist] at hl; subst hl; simp [SortedL]
  · intro p ⟨l, hl, hp⟩; simp [exDist] at hl; rcases hl with h | h <;> subst h <;> simp at hp <;> simp [maxU32] <;> omega
  · intro p ⟨l, hl, hp⟩; simp [exDist] at hl; subst hl; simp at hp; simp [maxU32]; omega
example : ((Hit.dist exDist).runNext [3, 5]).first.1 = 10 ∧ ((Hit.dist exDist).runNext [3, 10]).first.1 = maxU32 := by decide

/-- **`post_complete`** (L1): an occurrence of the pattern at offset `o` of document `d` puts `base(d) + o + k` into the
    posting list of the pattern's `k`-th trigram (posting lists = all within-document occurrences of the trigram) -/
theorem post_complete_thm (texts : List (List Nat)) (pat : List Nat) (d o k : Nat) (hd : d < texts.length)
    (hocc : occAt pat texts d o) (hk : k + 3 ≤ pat.length) :
    baseOf texts d + o + k ∈ post (tri pat k) texts :=
  post_complete texts pat d o k hd hocc hk

/-- **`nextFileIndex`** (galloping search) returns the smallest `j ≥ f` with `ends[j] > offset` -/
theorem nextFileIndex_exact (offset f : Nat) (ends : List Nat) (hm : Mono ends) :
    f ≤ nextFileIndex offset f ends ∧
    (∀ j, f ≤ j → j < nextFileIndex offset f ends → ends.getD j 0 ≤ offset) ∧
    (nextFileIndex offset f ends < ends.length → offset < ends.getD (nextFileIndex offset f ends) 0) :=
  nextFileIndex_spec offset f ends hm

/-- **`docIter_candidates_complete`** (L4): for EVERY choice `i ≤ j` of the two trigram positions (so the frequency
    heuristic of `findSelectiveNgrams` cannot affect results), driving the `ngramDocIterator` built over the true
    posting lists as `Search` does — strictly increasing documents; `nextDoc`, `prepare`, `candidates` for each —
    every rune offset at which the pattern occurs in a visited document is among that document's candidates -/
theorem docIter_candidates_complete (texts : List (List Nat)) (pat : List Nat) (i j : Nat) (hij : i ≤ j)
    (hj : j + 3 ≤ pat.length) (hsz : totalLen texts + pat.length < maxU32)
    (docs : List Nat) (hsorted : docs.Pairwise (· < ·)) (hrange : ∀ d, d ∈ docs → d < texts.length)
    (d : Nat) (cs : List Nat) (hmem : (d, cs) ∈ (mkIter texts pat i j).drive docs) (o : Nat)
    (hocc : occAt pat texts d o) : o ∈ cs :=
  DocIter.drive_complete texts pat i (by omega) hsz docs 0 _ (mkIter_inv texts pat i j hij hj hsz) hsorted
    (fun x hx => ⟨Nat.zero_le _, hrange x hx⟩) d cs hmem o hocc

/-- **`docIter_nextDoc_sound`** (L4): `nextDoc` of the document iterator never exceeds the next document that contains
    an occurrence of the pattern (in any state reached along a search) -/
theorem docIter_nextDoc_sound (texts : List (List Nat)) (pat : List Nat) (i L : Nat) (it : DocIter)
    (hi : i + 3 ≤ pat.length) (h : it.Inv texts pat i L) (d : Nat) (hL : L ≤ d) (hd : d < it.nextDoc.1)
    (hdn : d < texts.length) (o : Nat) : ¬ occAt pat texts d o :=
  (it.nextDoc_inv texts pat i L hi h).2 d hL hd hdn o

/-! non-vacuity: three documents "xabcd", "", "abcabcd"; pattern "abcd" occurs in documents 0 (offset 1) and 2 (offset 3);
    trigram choices (0,0), (0,1), (1,1) all give those candidates -/
def exTexts : List (List Nat) := [[120, 97, 98, 99, 100], [], [97, 98, 99, 97, 98, 99, 100]]
def exPat : List Nat := [97, 98, 99, 100]
example : occAt exPat exTexts 0 1 ∧ occAt exPat exTexts 2 3 := by unfold occAt; decide
example : post (tri exPat 0) exTexts = [1, 5, 8] ∧ post (tri exPat 1) exTexts = [2, 9] := by decide
example : ((mkIter exTexts exPat 0 1).prepare 0).candidates.1 = [1] ∧
    ((((mkIter exTexts exPat 0 1).prepare 0).candidates.2).prepare 2).candidates.1 = [3] ∧
    ((((mkIter exTexts exPat 0 0).prepare 0).candidates.2).prepare 2).candidates.1 = [0, 3] ∧
    ((mkIter exTexts exPat 1 1).prepare 2).candidates.1 = [3] := by decide
example : (mkIter exTexts exPat 0 1).Inv exTexts exPat 0 0 :=
  mkIter_inv exTexts exPat 0 1 (by decide) (by decide) (by decide)

/-- **`substr_nextDoc_sound`**: the hypothesis of `nextDoc_sound` about substring leaves, discharged for real iterators:
    a case-sensitive substring leaf over the true posting lists (any trigram choice, any state along a search) never
    lets `nextDoc` skip a document in which its pattern occurs -/
theorem substr_nextDoc_sound (ctx : Ctx) (hw : ctx.WF) (L : Nat) (s : Sub) (h : SubOk ctx L s) :
    SubSound (subSemX ctx) L s :=
  subOk_sound ctx hw L s h

/-- **`substr_prepare_exact`**: after `prepare(d)` the plain value of a substring leaf (some candidate passes
    `matchContent`) is exactly "the pattern occurs in document `d`" -/
theorem substr_prepare_exact (ctx : Ctx) (hw : ctx.WF) (L : Nat) (s : Sub) (h : SubOk ctx L s) (nd : Nat) (hL : L ≤ nd)
    (hnd : nd < ctx.live.length) :
    (s.prepare nd).val ctx nd = occurs s.caseSens s.pat (ctx.text s.fileName nd) := by
  rw [(Sub.prepare_ok ctx hw L s h nd hL hnd).2.1, subSemX_eq_occurs ctx L s h nd]

/-- **`C01_search_exact_substring`**: for every shard (names, contents, liveness) and every match tree whose leaves are
    substring atoms backed by the true posting lists — case-sensitive (`mkSub_ok`: ANY selected trigram positions
    `i ≤ j`) or case-insensitive (`substr_ci_leaf_ok`: merged posting lists of case variants that contain every trigram
    lower-casing to the pattern's) or the `noMatchTree` iterator when the pattern occurs nowhere —, document predicates (branch, repository, language,
    metadata, set filters), const and engine-decided atoms, combined by and / or / not / type / boost:
    `Search` (prune + document loop + nextDoc + staged evaluation + iterators + verification) returns exactly the
    live documents on which the SCAN meaning `MT.ref` (Spec.lean: substring atoms by scanning every offset of the text)
    is true, and never reaches the `did not decide` panic; a tree pruned to `nil` is false on every document. -/
theorem C01_search_exact_substring (ctx : Ctx) (hw : ctx.WF) (t0 : MT) (h0 : t0.OkS ctx 0) :
    match search ctx t0 with
    | Option.none => ∀ d, t0.ref ctx d = false
    | some o => o.res = expected ctx t0 ∧ o.panicked = false := by
  have hp := MT.prune_spec (subSemX ctx) (fun _ _ => true)
    (fun s hs d => by simp [subSemX, hs]) (fun _ _ _ _ => rfl) t0
  unfold search
  cases hpr : t0.prune with
  | none =>
    rw [hpr] at hp
    intro d
    rw [MT.ref_eq_semS ctx 0 d t0 h0]; exact hp d
  | some t =>
    rw [hpr] at hp
    simp only []
    have hok := MT.prune_okS ctx 0 t0 h0 t hpr
    have := search_loop_exact ctx (fun d => semS ctx d t) _ (loopHyp_substr ctx hw t) t ⟨hok, fun _ => rfl⟩
    refine ⟨?_, this.2⟩
    rw [this.1]
    unfold expected
    congr 1
    funext d
    rw [MT.ref_eq_semS ctx 0 d t0 h0, show semS ctx d t = semS ctx d t0 from hp d]

/-- **case-insensitive substring leaves under the FoldAgree hypothesis**: if the variant lists of the two selected
    trigrams contain every rune triple that lower-cases to the (lowered) pattern's trigram — which is what
    `generateCaseNgrams` yields on runes whose lower-casing and simple case folding agree — then the leaf built over the
    merged variant posting lists satisfies the leaf invariant `SubOk`, so `C01_search_exact_substring`,
    `substr_nextDoc_sound` and `substr_prepare_exact` apply to it: its candidates, after `caseFoldingEqualsRunes`,
    are exactly the case-insensitive occurrences -/
theorem substr_ci_leaf_ok (ctx : Ctx) (fileName : Bool) (patL : List Nat) (i j : Nat) (vars1 vars2 : List (List Nat))
    (hij : i ≤ j) (hj : j + 3 ≤ patL.length) (hsz : totalLen (ctx.texts fileName) + patL.length < maxU32)
    (hv1 : ∀ g', g'.map toLowerRune = tri patL i → g' ∈ vars1)
    (hv2 : ∀ g', g'.map toLowerRune = tri patL j → g' ∈ vars2) :
    SubOk ctx 0 (mkSubCI ctx fileName patL i j vars1 vars2) :=
  mkSubCI_ok ctx fileName patL i j vars1 vars2 hij hj hsz hv1 hv2

/-- the case-sensitive counterpart: a leaf over the true posting lists of ANY two trigram positions `i ≤ j` -/
theorem substr_cs_leaf_ok (ctx : Ctx) (fileName : Bool) (pat : List Nat) (i j : Nat) (hij : i ≤ j)
    (hj : j + 3 ≤ pat.length) (hsz : totalLen (ctx.texts fileName) + pat.length < maxU32) :
    SubOk ctx 0 (mkSub ctx fileName pat i j) :=
  mkSub_ok ctx fileName pat i j hij hj hsz

/-! non-vacuity (case-insensitive): contents "xAbC", pattern "abc" lowered; the variant list of "abc" is all 8 case variants;
    the leaf's merged iterator holds the posting 1, and the case-insensitive scan finds the pattern -/
def exCtxCI : Ctx := ⟨[[110]], [[120, 65, 98, 67]], [true]⟩
def exVars : List (List Nat) :=
  [[97, 98, 99], [65, 98, 99], [97, 66, 99], [65, 66, 99], [97, 98, 67], [65, 98, 67], [97, 66, 67], [65, 66, 67]]
example : variantPostings exVars (exCtxCI.texts false) = [[], [], [], [], [], [1], [], []] := by decide
example : occurs false [97, 98, 99] (exCtxCI.text false 0) = true := by decide
example : ∀ g', g'.map toLowerRune = tri [97, 98, 99] 0 → g' ∈ exVars := by
  intro g' h
  have hl : g'.length = 3 := by have := congrArg List.length h; simpa [tri] using this
  match g', hl with
  | [a, b, c], _ =>
    simp only [List.map_cons, List.map_nil, tri, List.drop_zero, List.take_succ_cons, List.take_zero,
      List.cons.injEq, and_true] at h
    obtain ⟨ha, hb, hc⟩ := h
    have lowerInv : ∀ x y : Nat, toLowerRune x = y → y < 128 → 97 ≤ y → y ≤ 122 → (x = y ∨ x = y - 32 ∨ (y = 107 ∧ x = 8490)) := by
      intro x y hxy _ _ _
      unfold toLowerRune at hxy
      split at hxy
      · right; left; omega
      · split at hxy
        · omega
        · split at hxy
          · omega
          · split at hxy
            · omega
            · split at hxy
              · omega
              · split at hxy
                · omega
                · split at hxy
                  · right; right; omega
                  · left; omega
    rcases lowerInv a 97 ha (by omega) (by omega) (by omega) with h1 | h1 | h1 <;>
    rcases lowerInv b 98 hb (by omega) (by omega) (by omega) with h2 | h2 | h2 <;>
    rcases lowerInv c 99 hc (by omega) (by omega) (by omega) with h3 | h3 | h3 <;>
    first
      | omega
      | (subst h1; subst h2; subst h3; simp [exVars])

/-! non-vacuity: contents "xabcd", "", "abcabcd"; tree and[substr "abcd" (trigrams 0 and 1), not(name-substr "zzz" whose
    trigram is absent), or[doc-predicate, substr "bca" (single trigram)]] -/
def exCtxS : Ctx := ⟨[[110], [111], [112]], exTexts, [true, true, true]⟩
def exTreeS : MT :=
  .and Option.none (.cons (.sub (mkSub exCtxS false exPat 0 1))
    (.cons (.not Option.none (.sub ⟨true, true, [122, 122, 122], Option.none, [], false⟩))
      (.cons (.or Option.none (.cons (.doc false [true, false, false] false 0)
        (.cons (.sub (mkSub exCtxS false [98, 99, 97] 0 0)) .nil))) .nil)))
example : exCtxS.WF := ⟨rfl, rfl⟩
example : exTreeS.OkS exCtxS 0 := by
  refine ⟨mkSub_ok exCtxS false exPat 0 1 (by decide) (by decide) (by decide), ⟨by decide, ?_⟩,
    ⟨fun h => by simp at h, mkSub_ok exCtxS false [98, 99, 97] 0 0 (by decide) (by decide) (by decide), trivial⟩, trivial⟩
  intro d o h
  unfold occAt at h
  have hT : Sub.T exCtxS ⟨true, true, [122, 122, 122], Option.none, [], false⟩ = exCtxS.texts true := rfl
  rw [hT] at h
  have : (exCtxS.texts true).getD d [] = [110] ∨ (exCtxS.texts true).getD d [] = [111] ∨
      (exCtxS.texts true).getD d [] = [112] ∨ (exCtxS.texts true).getD d [] = [] := by
    match d with
    | 0 => simp [exCtxS, Ctx.texts]
    | 1 => simp [exCtxS, Ctx.texts]
    | 2 => simp [exCtxS, Ctx.texts]
    | _ + 3 => simp [exCtxS, Ctx.texts]
  have hl := (List.isPrefixOf_iff_prefix.mp h).length_le
  rw [List.length_drop] at hl
  rcases this with e | e | e | e <;> rw [e] at hl <;> simp at hl <;> omega
example : expected exCtxS exTreeS = [0, 2] := by decide

/-- **same-line shortcut, the merge loop** (`andLineMatchTree.matches`): over increasing, non-overlapping line ranges
    and sorted candidate lists of the other children, the `nextLine` / `nextChild` / `nextCandidate` loop (with its
    line-skipping `continue nextLine`) answers `matchesFound` iff some line range holds a candidate of every child -/
theorem sameLine_loop_spec (lines : List (Nat × Nat)) (ch : List (List Nat)) (hl : LinesOK lines)
    (hs : ∀ c, c ∈ ch → SortedC c) :
    lineLoop (lines.length + 1) lines ch (ch.length + 1) = true ↔ ∃ l, l ∈ lines ∧ AllIn l.1 l.2 ch :=
  lineLoop_spec (lines.length + 1) lines ch (by omega) hl hs

/-- **`andLine_same_line`** (the same-line conjunct of `andLineMatchTree`): with the sorted verified candidate offsets of
    its content-substring children, the shortcut (fewest-candidates child, its line ranges via `atOffset`/`lineStart`,
    the merge loop) answers `matchesFound` ⇔ some line of the document holds a candidate of every child -/
theorem andLine_same_line (ctx : Ctx) (doc : Nat) (cands : List (List Nat)) (hne : cands ≠ [])
    (hs : ∀ c, c ∈ cands → SortedC c)
    (hb : ∀ c, c ∈ cands → ∀ x, x ∈ c → x < (ctx.text false doc).length) :
    sameLineOf ctx doc (some cands) = St.found ↔
      ∃ line, ∀ c, c ∈ cands → ∃ x, x ∈ c ∧ atOffset (newlineOffsets (ctx.text false doc)) x = line :=
  sameLineOf_spec ctx doc cands hne hs hb

/-! non-vacuity: text "ab\ncd ab\ncd": children {0, 6} ("ab") and {3, 9} ("cd"): line 2 holds 3 and 6 -/
def exCtxL : Ctx := ⟨[[110]], [[97, 98, 10, 99, 100, 32, 97, 98, 10, 99, 100]], [true]⟩
example : sameLineOf exCtxL 0 (some [[0, 6], [3, 9]]) = St.found ∧ sameLineOf exCtxL 0 (some [[0], [3, 9]]) = St.none := by
  decide
example : atOffset (newlineOffsets (exCtxL.text false 0)) 3 = 2 ∧ atOffset (newlineOffsets (exCtxL.text false 0)) 6 = 2 := by
  decide

/-! non-vacuity: lines [0,5) [5,9) [9,20); children with candidates {1, 10} and {6, 12}: only the third line holds both -/
example : LinesOK [(0, 5), (5, 9), (9, 20)] ∧ (∀ c, c ∈ [[1, 10], [6, 12]] → SortedC c) := by
  refine ⟨⟨by simp, ?_⟩, ?_⟩
  · intro l hl; simp at hl; rcases hl with h | h | h <;> subst h <;> simp
  · intro c hc; simp at hc; rcases hc with h | h <;> subst h <;> simp [SortedC]
example : lineLoop 4 [(0, 5), (5, 9), (9, 20)] [[1, 10], [6, 12]] 3 = true ∧
    lineLoop 3 [(0, 5), (5, 9)] [[1, 10], [6, 12]] 3 = false := by decide

/-- **`btree_find_spec`** (L12): in a frozen b-tree that satisfies the search-tree invariant `covers` over the sorted
    ngram section (leaves = consecutive buckets, separator = first ngram of the right sibling's first bucket — evaluated
    by the driver on the tree of every correspondence case), `find(ng)` ends in the one bucket whose key range holds
    `ng`, with the right posting-index offset -/
theorem btree_find_spec (h : Nat) (ngs : List Nat) (ng : Nat) (t : BT) (hi : Nat)
    (hc : t.covers h ngs 0 = some hi) : FindOK h ngs 0 hi ng (t.find ng) :=
  BT.find_ok h ngs ng t 0 hi hc

/-- **`btree_get_spec`** (L12): on such a tree over a strictly increasing ngram section, `btreeIndex.Get` (bucket read,
    binary search, posting-list index) returns the index of a present ngram — for every section length, incl. exact
    bucket multiples and the oversized last bucket — and nothing for an absent ngram -/
theorem btree_get_spec (B : Nat) (ngs : List Nat) (t : BT) (last : Nat) (hs : SortedC ngs)
    (hok : btOK B ngs t last = true) :
    (∀ idx, idx < ngs.length → btGet B ngs t last (ngs.getD idx 0) = some idx) ∧
    (∀ ng, ng ∉ ngs → btGet B ngs t last ng = Option.none) :=
  btGet_spec B ngs t last hs hok

/-! non-vacuity: bucketSize 4, v 2, eleven ngrams: the built tree has inner nodes and satisfies the invariant -/
def exNgs : List Nat := [2, 3, 5, 7, 11, 13, 17, 19, 23, 29, 31]
example : btOK 4 exNgs (btBuild 4 2 exNgs).1 (btBuild 4 2 exNgs).2 = true := by decide
example : (btBuild 4 2 exNgs).1.innerKeys ≠ [] ∧ SortedC exNgs := by
  refine ⟨by decide, ?_⟩
  simp [exNgs, SortedC]
example : btGet 4 exNgs (btBuild 4 2 exNgs).1 (btBuild 4 2 exNgs).2 17 = some 6 ∧
    btGet 4 exNgs (btBuild 4 2 exNgs).1 (btBuild 4 2 exNgs).2 18 = Option.none := by decide

/-- **`C01_search_exact_all`**: the composition for EVERY modelled match-tree shape — in addition to the fragment of
    `C01_search_exact_substring`, the nodes a regexp atom produces: `noVisit` pre-filters and same-line `andLine` nodes
    over substring leaves. `Search` returns exactly, in order, the live documents on which the tree is true, where a
    substring leaf means "the pattern occurs" (scan), an engine-decided atom means its verdict, an `andLine` node means
    "every child occurs, and (if all are content leaves) some line holds an occurrence of every child"
    (`lineSemC`, a scan; cf. `andLine_same_line`), and a `noVisit` node means its child; no `did not decide` panic;
    a tree pruned to `nil` is false everywhere. -/
theorem C01_search_exact_all (ctx : Ctx) (hw : ctx.WF) (t0 : MT) (h0 : t0.OkF ctx 0) :
    match search ctx t0 with
    | Option.none => ∀ d, semF ctx d t0 = false
    | some o =>
      o.res = (List.range ctx.live.length).filter (fun d => ctx.live.getD d false && semF ctx d t0) ∧
      o.panicked = false := by
  have hp := MT.prune_F ctx 0 t0 h0
  unfold search
  cases hpr : t0.prune with
  | none => rw [hpr] at hp; exact hp
  | some t =>
    rw [hpr] at hp
    simp only []
    have := search_loop_exact ctx (fun d => semF ctx d t) _ (loopHyp_full ctx hw t) t ⟨hp.1, fun _ => rfl⟩
    refine ⟨?_, this.2⟩
    rw [this.1]
    congr 1
    funext d
    rw [show semF ctx d t = semF ctx d t0 from hp.2.1 d]

/-- **C01 for regexp-derived trees, given sound literal extraction**: if on every live document the tree's engine-side
    meaning (regexp verdict ∧ pre-filter) equals the scan meaning `MT.ref` (which ignores pre-filters) — i.e. the
    trigram pre-filter that `regexpToMatchTreeRecursive` extracted is implied by the regexp (validated case by case by
    the check, not proved: it needs the regexp semantics) — then `Search` returns exactly `expected` (Spec.lean) -/
theorem C01_search_exact_given_extraction (ctx : Ctx) (hw : ctx.WF) (t0 : MT) (h0 : t0.OkF ctx 0)
    (hex : ∀ d, d < ctx.live.length → ctx.live.getD d false = true → semF ctx d t0 = t0.ref ctx d) :
    match search ctx t0 with
    | Option.none => ∀ d, d < ctx.live.length → ctx.live.getD d false = true → t0.ref ctx d = false
    | some o => o.res = expected ctx t0 ∧ o.panicked = false := by
  have h := C01_search_exact_all ctx hw t0 h0
  cases hs : search ctx t0 with
  | none => rw [hs] at h; intro d hd hl; rw [← hex d hd hl]; exact h d
  | some o =>
    rw [hs] at h
    refine ⟨?_, h.2⟩
    rw [h.1]
    unfold expected
    apply List.filter_congr
    intro d hd
    have hd' : d < ctx.live.length := by simpa using hd
    cases hl : ctx.live.getD d false with
    | false => simp [hl]
    | true => simp only [hl, Bool.true_and]; exact hex d hd' hl

theorem matchAt_bound (cs : Bool) (pat text : List Nat) (x : Nat) (hp : 0 < pat.length)
    (h : matchAt cs pat text x = true) : x + pat.length ≤ text.length := by
  unfold matchAt at h
  cases cs with
  | true =>
    simp only [if_true] at h
    have := (List.isPrefixOf_iff_prefix.mp h).length_le
    rw [List.length_drop] at this; omega
  | false =>
    simp only [Bool.false_eq_true, if_false] at h
    have := (List.isPrefixOf_iff_prefix.mp h).length_le
    rw [List.length_map, List.length_drop] at this; omega

/-- the same-line conjunct's scan meaning, spelled out: for content substring children it holds iff some line of the
    document contains an occurrence of every child's pattern -/
theorem lineSem_meaning (ctx : Ctx) (d : Nat) (pats : List (Bool × List Nat)) (hne : pats ≠ [])
    (hpos : ∀ p, p ∈ pats → 0 < p.2.length) :
    sameLineOf ctx d (some (pats.map fun p => occList ctx p.1 p.2 d)) = St.found ↔
    ∃ line, ∀ p, p ∈ pats → ∃ o, o ∈ occList ctx p.1 p.2 d ∧ atOffset (newlineOffsets (ctx.text false d)) o = line := by
  have key := andLine_same_line ctx d (pats.map fun p => occList ctx p.1 p.2 d) (by simpa using hne)
    (fun c hc => by
      simp only [List.mem_map] at hc
      obtain ⟨p, _, e⟩ := hc; subst e
      exact List.Pairwise.filter _ List.pairwise_lt_range)
    (fun c hc x hx => by
      simp only [List.mem_map] at hc
      obtain ⟨p, hp, e⟩ := hc; subst e
      simp only [occList, List.mem_filter, List.mem_range] at hx
      have h1 := matchAt_bound p.1 p.2 (ctx.text false d) x (hpos p hp) hx.2
      have h2 := hpos p hp
      omega)
  rw [key]
  constructor
  · intro ⟨line, h⟩
    exact ⟨line, fun p hp => h _ (List.mem_map.mpr ⟨p, hp, rfl⟩)⟩
  · intro ⟨line, h⟩
    refine ⟨line, fun c hc => ?_⟩
    simp only [List.mem_map] at hc
    obtain ⟨p, hp, e⟩ := hc; subst e
    exact h p hp

/-! non-vacuity: the tree of the regexp `abc.*cd` on contents "abc cd", "abc\ncd", "cd abc" (all three satisfy the
    engine's verdict table here, to show the pre-filter at work): and[re, noVisit(andLine[substr abc, substr cd])] -/
def exCtxA : Ctx := ⟨[[110], [111], [112]], [[97, 98, 99, 32, 99, 100, 101], [97, 98, 99, 10, 99, 100, 101], [99, 100, 101, 32, 97, 98, 99]],
  [true, true, true]⟩
def exTreeA : MT :=
  .and Option.none (.cons (.re false false [true, false, false] false 0 false false)
    (.cons (.noVisit (.andLine Option.none Option.none
      (.cons (.sub (mkSub exCtxA false [97, 98, 99] 0 0)) (.cons (.sub (mkSub exCtxA false [99, 100, 101] 0 0)) .nil)))) .nil))
example : exCtxA.WF := ⟨rfl, rfl⟩
example : exTreeA.OkF exCtxA 0 :=
  ⟨fun h => by simp at h, ⟨⟨mkSub_ok exCtxA false _ 0 0 (by decide) (by decide) (by decide),
    mkSub_ok exCtxA false _ 0 0 (by decide) (by decide) (by decide), trivial⟩, trivial⟩, trivial⟩
example : (List.range 3).map (fun d => lineSemC exCtxA (.cons (.sub (mkSub exCtxA false [97, 98, 99] 0 0))
    (.cons (.sub (mkSub exCtxA false [99, 100, 101] 0 0)) .nil)) d) = [true, false, true] := by decide
example : (List.range 3).filter (fun d => exCtxA.live.getD d false && semF exCtxA d exTreeA) = [0] := by decide

/-- **`word_fastpath_spec`** (L10, the repaired `wordMatchTree.matches`): on every byte string, the `\bLITERAL\b` fast
    path reports a match iff the literal occurs somewhere with a non-word byte (or the text boundary) on both sides, and
    every offset it reports is such an occurrence (in particular an occurrence that fails the test no longer hides an
    overlapping one that passes) -/
theorem word_fastpath_spec (data word : List Nat) (hw : word ≠ []) :
    (wordMatches data word ≠ [] ↔ wordSpec data word = true) ∧
    (∀ x, x ∈ wordMatches data word → wordAt data word x = true) :=
  wordMatches_spec data word hw

/-- **`word_fastpath_equiv`**: for the literals `regexpToWordMatchTree` now accepts (first and last byte are word bytes),
    "between non-word bytes" is exactly RE2's `\bLITERAL\b` at that position (`\b` = exactly one neighbour is a word
    byte), so the fast path decides the same documents as the regexp would -/
theorem word_fastpath_equiv (data word : List Nat) (hw : word ≠ [])
    (hfirst : isWordByte (word.getD 0 0) = true) (hlast : isWordByte (word.getD (word.length - 1) 0) = true) :
    (wordMatches data word ≠ [] ↔ ∃ p, p ∈ List.range (data.length + 1) ∧ reWordAt data word p = true) := by
  rw [(wordMatches_spec data word hw).1]
  simp only [wordSpec, List.any_eq_true]
  constructor
  · intro ⟨p, hp, h⟩; exact ⟨p, hp, by rw [word_boundary_equiv data word p hw hfirst hlast]; exact h⟩
  · intro ⟨p, hp, h⟩; exact ⟨p, hp, by rw [← word_boundary_equiv data word p hw hfirst hlast]; exact h⟩

/-! non-vacuity: "xfoo-foo-foo" and the word "foo-foo": the occurrence at 1 fails the boundary test, the overlapping one
    at 5 passes; "a-foo b" and the word "-foo" (not eligible: `\b-foo\b` matches at 1, the byte test does not) -/
example : wordMatches [120, 102, 111, 111, 45, 102, 111, 111, 45, 102, 111, 111] [102, 111, 111, 45, 102, 111, 111] = [5] := by
  decide
example : reWordAt [97, 45, 102, 111, 111, 32, 98] [45, 102, 111, 111] 1 = true ∧
    wordAt [97, 45, 102, 111, 111, 32, 98] [45, 102, 111, 111] 1 = false := by decide

/-- **`selection_consistent_thm`** (L5): for every pattern of at least three runes and ARBITRARY frequencies (one per
    trigram, in sorted-trigram order as `iterateNgrams` computes them), `findSelectiveNgrams` (two lowest frequencies,
    then the overlap-reducing shift through `indexMap`) returns two trigram positions `first ≤ last` of the pattern —
    exactly the hypotheses `i ≤ j`, `j + 3 ≤ |pattern|` of `docIter_candidates_complete` / `substr_cs_leaf_ok`, so the
    frequency heuristic provably cannot affect results -/
theorem selection_consistent_thm (pat freqs : List Nat) (hlen : 3 ≤ pat.length) (hf : freqs.length = pat.length - 2) :
    (findSelective (sortedPositions pat) (mkIndexMap (sortedPositions pat)) freqs).1 ≤
      (findSelective (sortedPositions pat) (mkIndexMap (sortedPositions pat)) freqs).2 ∧
    (findSelective (sortedPositions pat) (mkIndexMap (sortedPositions pat)) freqs).2 + 3 ≤ pat.length :=
  selection_consistent pat freqs hlen hf

/-! non-vacuity: pattern "abcabd": sorted trigrams abc(0) abd(3) bca(1) cab(2); frequencies 9,9,1,2 select bca and cab,
    which overlap, so the shift moves them apart to positions 0 and 3 -/
example : sortedPositions [97, 98, 99, 97, 98, 100] = [0, 3, 1, 2] := by decide
example : findSelective (sortedPositions [97, 98, 99, 97, 98, 100]) (mkIndexMap (sortedPositions [97, 98, 99, 97, 98, 100]))
    [9, 9, 1, 2] = (0, 3) := by decide

/-- **`variants_cover`**: `generateCaseNgrams` (the odometer over the `SimpleFold` orbits of the trigram's runes, `fold` a
    parameter with finite cycles through the three runes) terminates after one period and returns every triple of the
    product of the three orbits -/
theorem variants_cover (fold : Nat → Nat) (a b c k0 k1 k2 : Nat) (ha : Cyc fold a k0) (hb : Cyc fold b k1)
    (hc : Cyc fold c k2) (fuel : Nat) (hf : k0 * (k1 * (k2 * 1)) ≤ fuel) (tuple : List Nat)
    (ht : InOrbits fold [a, b, c] tuple) : tuple ∈ generateCase fold [a, b, c] fuel :=
  generateCase_cover fold [a, b, c] _ (odo_three fold a b c k0 k1 k2 ha hb hc) fuel hf tuple ht

/-- **case-insensitive leaves over the GENERATED variants**: if `fold` has finite cycles through the runes of the two
    selected trigrams of the pattern and FoldAgree holds for them (whatever lower-cases like such a rune lies in its
    fold orbit — the property's restriction; the rest is C08), then the leaf built over the posting lists of
    `generateCaseNgrams`' variants satisfies the leaf invariant, so the composition theorems apply to it -/
theorem substr_ci_leaf_ok_generated (ctx : Ctx) (fileName : Bool) (pat : List Nat) (i j : Nat) (fold : Nat → Nat)
    (N1 N2 fuel : Nat) (hij : i ≤ j) (hj : j + 3 ≤ pat.length)
    (hsz : totalLen (ctx.texts fileName) + pat.length < maxU32)
    (ho1 : Odo fold (tri pat i) N1) (ho2 : Odo fold (tri pat j) N2) (hf1 : N1 ≤ fuel) (hf2 : N2 ≤ fuel)
    (ha1 : FoldAgreeL fold (tri pat i)) (ha2 : FoldAgreeL fold (tri pat j)) :
    SubOk ctx 0 (mkSubCI ctx fileName (pat.map toLowerRune) i j
      (generateCase fold (tri pat i) fuel) (generateCase fold (tri pat j) fuel)) := by
  have htri : ∀ k, tri (pat.map toLowerRune) k = (tri pat k).map toLowerRune := by
    intro k; simp [tri, List.map_drop, List.map_take]
  refine mkSubCI_ok ctx fileName (pat.map toLowerRune) i j _ _ hij (by simpa using hj) (by simpa using hsz) ?_ ?_
  · intro g' h
    rw [htri] at h
    exact variants_cover_lower fold (tri pat i) N1 fuel ho1 hf1 ha1 g' h
  · intro g' h
    rw [htri] at h
    exact variants_cover_lower fold (tri pat j) N2 fuel ho2 hf2 ha2 g' h

/-! non-vacuity: ASCII case folding (a ↔ A); the trigram "ab-" has 2·2·1 = 4 variants, all generated -/
def exFold (c : Nat) : Nat := if 97 ≤ c ∧ c ≤ 122 then c - 32 else if 65 ≤ c ∧ c ≤ 90 then c + 32 else c
example : Cyc exFold 97 2 ∧ Cyc exFold 98 2 ∧ Cyc exFold 45 1 := by
  refine ⟨⟨by omega, by decide, ?_⟩, ⟨by omega, by decide, ?_⟩, ⟨by omega, by decide, ?_⟩⟩
  · intro j h1 h2; have : j = 1 := by omega
    subst this; decide
  · intro j h1 h2; have : j = 1 := by omega
    subst this; decide
  · intro j h1 h2; omega
example : generateCase exFold [97, 98, 45] 300 = [[65, 98, 45], [97, 66, 45], [65, 66, 45], [97, 98, 45]] := by decide

/-- **`extract_superset`** (L9): for every regexp syntax tree (all `regexp/syntax` operators; `ci` = matched
    case-insensitively) and every match `s[i, j)` under the denotational semantics `Rx.M`, the literal tree that
    `regexpToMatchTreeRecursive` extracts is satisfied INSIDE the match (every required literal occurs there; a
    same-line node inside a newline-free part), and `singleLine` extractions only come from matches without a newline -/
theorem extract_superset (ci : Bool) (s : List Nat) (r : Rx) (i j : Nat) (h : r.M ci s i j) :
    (i ≤ j ∧ j ≤ s.length) ∧ (r.extract (!ci)).tree.inSpan s i j ∧
    ((r.extract (!ci)).singleLine = true → NoNL s i j) :=
  Rx.ext_ok ci s r i j h

/-- **`extract_superset_doc`**: if the regexp matches somewhere in the content of document `d`, the extracted literal
    tree is true on `d` in the engine's sense (substring leaves by occurrence, `andLine` nodes incl. their same-line
    condition) -/
theorem extract_superset_on_doc (ctx : Ctx) (d : Nat) (ci : Bool) (r : Rx)
    (h : r.matchesText ci (ctx.text false d)) : (r.extract (!ci)).tree.semB ctx d = true :=
  extract_superset_doc ctx d ci r h

/-- **`prefilter_sound_thm`**: hence the match tree carrying that literal tree (iterators attached) is true on every
    document the regexp matches: the trigram pre-filter never removes a matching document -/
theorem prefilter_sound_thm (ctx : Ctx) (L d : Nat) (ci : Bool) (r : Rx) (P : MT)
    (hc : Corr (r.extract (!ci)).tree P) (hok : P.OkF ctx L) (hm : r.matchesText ci (ctx.text false d)) :
    semF ctx d P = true :=
  prefilter_sound ctx L d ci r P hc hok hm

/-- **`C01_search_exact_regexp`**: for the tree `newMatchTree` builds for a (content) regexp atom —
    `and[regexp leaf, noVisit(extracted pre-filter)]` — with the only assumption about the regexp ENGINE that a
    verdict "matches" is a match in the semantics `Rx.M`: `Search` returns exactly the live documents on which the
    engine's verdict is true (`expected` of Spec.lean), i.e. the pre-filter, the iterators, staged evaluation, nextDoc,
    pruning and the document loop together lose nothing and add nothing. -/
theorem C01_search_exact_regexp (ctx : Ctx) (hw : ctx.WF) (ci : Bool) (r : Rx) (P : MT) (k : Option Bool)
    (w : Bool) (bits : List Bool) (fd : Bool) (id : Nat) (ev fo : Bool)
    (h0 : (MT.and k (.cons (.re w false bits fd id ev fo) (.cons (.noVisit P) .nil))).OkF ctx 0)
    (hc : Corr (r.extract (!ci)).tree P)
    (heng : ∀ d, d < ctx.live.length → bits.getD d false = true → r.matchesText ci (ctx.text false d)) :
    match search ctx (MT.and k (.cons (.re w false bits fd id ev fo) (.cons (.noVisit P) .nil))) with
    | Option.none => ∀ d, d < ctx.live.length → ctx.live.getD d false = true →
        (MT.and k (.cons (.re w false bits fd id ev fo) (.cons (.noVisit P) .nil))).ref ctx d = false
    | some o => o.res = expected ctx (MT.and k (.cons (.re w false bits fd id ev fo) (.cons (.noVisit P) .nil))) ∧
        o.panicked = false := by
  apply C01_search_exact_given_extraction ctx hw _ h0
  intro d hd _
  simp only [semF, MT.sem, MTs.semAll, MT.ref, MTs.refAll, Bool.and_true]
  cases hb : bits.getD d false with
  | false => rfl
  | true =>
    have hP : P.OkF ctx 0 := h0.2.1
    have := prefilter_sound ctx 0 d ci r P hc hP (heng d hd hb)
    simp only [semF] at this
    simp [this]

/-- **`extract_isEqual`** (L9): when `regexpToMatchTreeRecursive` reports `isEqual` (literals of ≥ 3 runes under
    capture / plus / `{1,n}` / alternation), the extracted tree is true on a document exactly when the regexp matches its
    content — so `newMatchTree` may return the tree in place of the regexp -/
theorem extract_isEqual (ctx : Ctx) (d : Nat) (ci : Bool) (r : Rx) (hw : r.WFr)
    (he : (r.extract (!ci)).isEq = true) :
    (r.extract (!ci)).tree.semB ctx d = true ↔ r.matchesText ci (ctx.text false d) :=
  extract_isEqual_doc ctx d ci r hw he

/-! non-vacuity: `(abc)+|cde` is `isEqual`: its extraction is or[abc, cde] -/
def exRxEq : Rx := .alt (.cons (.plus (.cap (.lit [97, 98, 99] false))) (.cons (.lit [99, 100, 101] false) .nil))
example : (exRxEq.extract true).isEq = true ∧ exRxEq.WFr ∧
    (exRxEq.extract true).tree = .or [.sub [97, 98, 99] true, .sub [99, 100, 101] true] := by
  simp [exRxEq, Rx.extract, Rxs.extractAll, Lit.isBrute, Rx.WFr, Rxs.WFrAll]

/-! non-vacuity: the regexp `abc.*cde` as a syntax tree; its extraction is the same-line node over "abc" and "cde";
    it matches "abc cde" (document 0 of `exCtxA`), and `exTreeA`'s pre-filter corresponds to the extracted tree -/
def exRx : Rx := .cat (.cons (.lit [97, 98, 99] false) (.cons (.star .anyNotNL) (.cons (.lit [99, 100, 101] false) .nil)))
example : (exRx.extract true).tree = .andLine [.sub [97, 98, 99] true, .sub [99, 100, 101] true] ∧
    (exRx.extract true).isEq = false ∧ (exRx.extract true).singleLine = true := by
  simp [exRx, Rx.extract, Rxs.extractAll, Lit.isBrute]
example : exRx.matchesText false (exCtxA.text false 0) := by
  refine ⟨0, 7, 3, ?_, 4, ?_, 7, ?_, rfl, by decide⟩
  · refine ⟨rfl, by decide, fun k hk => ?_⟩
    have : k = 0 ∨ k = 1 ∨ k = 2 := by simp at hk; omega
    rcases this with e | e | e <;> subst e <;> decide
  · exact ⟨by decide, StarM.step 3 4 4 ⟨rfl, by decide, by decide⟩ (StarM.refl 4)⟩
  · refine ⟨rfl, by decide, fun k hk => ?_⟩
    have : k = 0 ∨ k = 1 ∨ k = 2 := by simp at hk; omega
    rcases this with e | e | e <;> subst e <;> decide
example : Corr (exRx.extract true).tree (.andLine Option.none Option.none
    (.cons (.sub (mkSub exCtxA false [97, 98, 99] 0 0)) (.cons (.sub (mkSub exCtxA false [99, 100, 101] 0 0)) .nil))) := by
  simp [exRx, Rx.extract, Rxs.extractAll, Lit.isBrute, Corr, CorrAll, mkSub, leafPat]

/-! non-vacuity: a shard of 5 documents (document 3 dead), tree `and[doc-predicate, not(regexp verdicts), or[branch, none]]` -/
def exCtx : Ctx := ⟨[[97], [98], [99], [100], [101]], [[], [], [], [], []], [true, true, true, false, true]⟩
def exTree : MT :=
  .and Option.none (.cons (.doc false [true, true, false, true, true] false 0)
    (.cons (.not Option.none (.re false false [false, true, false, false, false] false 0 false false))
      (.cons (.or Option.none (.cons (.doc true [true, false, true, true, true] false 0) (.cons .none .nil))) .nil)))
example : exTree.NoSub ∧ Cur0 0 exTree := by simp [exTree, MT.NoSub, MTs.NoSubAll, MT.Cur, MTs.CurAll]
example : (search exCtx exTree).map (·.res) = some [0, 4] := by decide
example : (List.range 5).filter (fun d => exCtx.live.getD d false && sem0 d exTree) = [0, 4] := by decide

end ZoektModel.C01
