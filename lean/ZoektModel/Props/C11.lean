import ZoektModel.C11.Spec
namespace ZoektModel.C11
open ZoektModel

theorem sliceFrom_ok (data : Bytes) (m : Int) (h0 : 0 ≤ m) (h1 : m ≤ data.length) :
    sliceFrom data m = .ok (data.drop m.toNat) := by
  unfold sliceFrom
  have : ¬ (m < 0 ∨ m > data.length) := by omega
  simp [this]

end ZoektModel.C11
