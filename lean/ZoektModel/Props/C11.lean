/-
C11 — Corrupt shard files never crash the searcher.  Theorems about the reader primitives (model: C11/Model.lean).

Statement (properties.jsonl): a shard file with any corruption never crashes or hangs the serving process: loading it
either fails with an error, or it is served and searches and listings over it complete.

Proved here, for ALL byte strings / offsets: each modelled primitive returns a value or an error — the explicit
panic sites (slice expressions, indexing) are unreachable and the loops terminate within `len(data)` iterations — and
the decoders' results and `make` capacities are bounded by the input length.  `legacy_*` show, on concrete witnesses,
that the decoders before the `fix:` commit do not have these properties.
-/
import ZoektModel.C11.Lemmas
import ZoektModel.C11.DistLemmas
import ZoektModel.C11.TOCLemmas
import ZoektModel.C11.BtreeLemmas
namespace ZoektModel.C11
open ZoektModel

/-! ### binary.Uvarint -/

theorem uvarintAux_le : ∀ (buf : Bytes) (i x s : Nat), (uvarintAux buf i x s).2 ≤ (i : Int) + buf.length := by
  first
    | exact L.uvarintAux_le ..
    | (apply L.uvarintAux_le <;> assumption)

/-- `n ≤ len(buf)`: the number of bytes `Uvarint` reports never exceeds the buffer -/
theorem uvarint_le (buf : Bytes) : (uvarint buf).2 ≤ buf.length := by
  first
    | exact L.uvarint_le ..
    | (apply L.uvarint_le <;> assumption)

theorem sliceFrom_ok (data : Bytes) (m : Int) (h0 : 0 ≤ m) (h1 : m ≤ data.length) :
    sliceFrom data m = .ok (data.drop m.toNat) := by
  first
    | exact L.sliceFrom_ok ..
    | (apply L.sliceFrom_ok <;> assumption)

/-! ### the delta decoders (fixed code) -/

/-- the decoding loop terminates within `len(data)` iterations, never panics, and yields at most one element per byte -/
theorem decodeLoop_total (w : Nat) : ∀ (fuel : Nat) (data : Bytes) (last : Nat), data.length < fuel →
    ∃ l, decodeLoop w fuel data last = .ok l ∧ l.length ≤ data.length := by
  first
    | exact L.decodeLoop_total ..
    | (apply L.decodeLoop_total <;> assumption)

/-- more fuel never changes the result: the bound `len(data) + 1` used by the model hides no divergence -/
theorem decodeLoop_fuel (w : Nat) (fuel fuel' : Nat) (data : Bytes) (last : Nat) (h : data.length < fuel) (h' : data.length < fuel') :
    decodeLoop w fuel data last = decodeLoop w fuel' data last := by
  first
    | exact L.decodeLoop_fuel ..
    | (apply L.decodeLoop_fuel <;> assumption)

/-- **`fromSizedDeltas` / `fromSizedDeltas16` are total**: for every byte string the result is a list (no panic, no
    divergence) with at most `len(data)` elements -/
theorem fromSizedDeltasW_total (w : Nat) (data : Bytes) :
    ∃ l, fromSizedDeltasW w data = .ok l ∧ l.length ≤ data.length := by
  first
    | exact L.fromSizedDeltasW_total ..
    | (apply L.fromSizedDeltasW_total <;> assumption)

theorem fromSizedDeltas_total (data : Bytes) : Total (fromSizedDeltas data) := by
  first
    | exact L.fromSizedDeltas_total ..
    | (apply L.fromSizedDeltas_total <;> assumption)

theorem fromSizedDeltas16_total (data : Bytes) : Total (fromSizedDeltas16 data) := by
  first
    | exact L.fromSizedDeltas16_total ..
    | (apply L.fromSizedDeltas16_total <;> assumption)

/-- the capacity passed to `make` is bounded by the input, whatever the size prefix claims -/
theorem sizedAlloc_le (data : Bytes) : sizedAlloc data ≤ data.length := by
  first
    | exact L.sizedAlloc_le ..
    | (apply L.sizedAlloc_le <;> assumption)

theorem fromDeltas_total (data : Bytes) : ∃ l, fromDeltas data = .ok l ∧ l.length ≤ data.length := by
  first
    | exact L.fromDeltas_total ..
    | (apply L.fromDeltas_total <;> assumption)

theorem docSecLoop_total : ∀ (fuel : Nat) (data : Bytes) (last : Nat), data.length < fuel →
    ∃ l, docSecLoop fuel data last = .ok l ∧ l.length ≤ data.length := by
  first
    | exact L.docSecLoop_total ..
    | (apply L.docSecLoop_total <;> assumption)

/-- **`unmarshalDocSections` is total**, and yields at most `len(data)/2` sections -/
theorem unmarshalDocSections_total (data : Bytes) :
    ∃ l, unmarshalDocSections data = .ok l ∧ l.length ≤ data.length := by
  first
    | exact L.unmarshalDocSections_total ..
    | (apply L.unmarshalDocSections_total <;> assumption)

/-! ### compressedPostingIterator (fixed code) -/

theorem newPIter_total (b : Bytes) : ∃ it, newPIter b = .ok it ∧ it.blob.length ≤ b.length := by
  first
    | exact L.newPIter_total ..
    | (apply L.newPIter_total <;> assumption)

theorem pIterLoop_total (limit : Nat) : ∀ (fuel : Nat) (it : PIter), it.blob.length < fuel →
    ∃ it', pIterLoop limit fuel it = .ok it' ∧ it'.blob.length ≤ it.blob.length := by
  first
    | exact L.pIterLoop_total ..
    | (apply L.pIterLoop_total <;> assumption)

/-- **`compressedPostingIterator.next` is total** for every iterator state and limit -/
theorem pIterNext_total (it : PIter) (limit : Nat) : ∃ it', pIterNext it limit = .ok it' ∧ it'.blob.length ≤ it.blob.length := by
  first
    | exact L.pIterNext_total ..
    | (apply L.pIterNext_total <;> assumption)

/-! ### mmapedIndexFile.Read and the reader -/

/-- **`Read` never panics**: the bounds check (with the `off > off+sz` wrap-around guard) covers the slice expression -/
theorem read_total (f : File) (off sz : Nat) : Total (f.read off sz) := by
  first
    | exact L.read_total ..
    | (apply L.read_total <;> assumption)

/-- a successful `Read(off, sz)` with `uint32` arguments returns exactly `sz` bytes -/
theorem read_length (f : File) (off sz : Nat) (b : Bytes) (ho : off < two32) (hs : sz < two32) (h : f.read off sz = .ok b) :
    b.length = sz := by
  exact L.read_length f off sz b ho hs h

theorem rdFixed_total (f : File) (n : Nat) (r : Rd) : Total (rdFixed f n r).1 := by
  first
    | exact L.rdFixed_total ..
    | (apply L.rdFixed_total <;> assumption)

theorem rdByte_total (f : File) (r : Rd) (hr : r.off < two32) : Total (rdByte f r).1 := by
  first
    | exact L.rdByte_total ..
    | (apply L.rdByte_total <;> assumption)

theorem rdByte_off (f : File) (r : Rd) : (rdByte f r).2.off < two32 := by
  first
    | exact L.rdByte_off ..
    | (apply L.rdByte_off <;> assumption)

/-- **`reader.Varint`** (`binary.ReadUvarint` over `ReadByte`) is total and reads at most 10 bytes -/
theorem rdVarintAux_total (f : File) : ∀ (fuel i x s : Nat) (r : Rd), r.off < two32 →
    Total (rdVarintAux f fuel i x s r).1 ∧ (rdVarintAux f fuel i x s r).2.off < two32 := by
  first
    | exact L.rdVarintAux_total ..
    | (apply L.rdVarintAux_total <;> assumption)

theorem rdVarint_total (f : File) (r : Rd) (hr : r.off < two32) : Total (rdVarint f r).1 := by
  first
    | exact L.rdVarint_total ..
    | (apply L.rdVarint_total <;> assumption)

/-- **`reader.Str`** is total: the length prefix is checked by `Read` before anything is sliced or allocated -/
theorem rdStr_total (f : File) (r : Rd) (hr : r.off < two32) : Total (rdStr f r).1 := by
  first
    | exact L.rdStr_total ..
    | (apply L.rdStr_total <;> assumption)

theorem readSimple_total (f : File) (r : Rd) : Total (readSimple f r).1 := by
  first
    | exact L.readSimple_total ..
    | (apply L.readSimple_total <;> assumption)

/-- stepping through a blob `k` bytes at a time never indexes past its end when `k` divides its length -/
theorem chunksBE_total (k : Nat) (hk : 0 < k) : ∀ (fuel : Nat) (blob : Bytes), blob.length < fuel → blob.length % k = 0 →
    ∃ l, chunksBE k fuel blob = .ok l ∧ l.length * k = blob.length := by
  first
    | exact L.chunksBE_total ..
    | (apply L.chunksBE_total <;> assumption)

/-- **`readSectionU32` / `readSectionU64` are total** (k = 4, 8) for `uint32` section fields -/
theorem readSectionBE_total (k : Nat) (hk : 0 < k) (f : File) (sec : SimpleSection) (ho : sec.off < two32) (hs : sec.sz < two32) :
    Total (readSectionBE k f sec) := by
  first
    | exact L.readSectionBE_total ..
    | (apply L.readSectionBE_total <;> assumption)

/-- **`newBtreeIndex` (after the fix) is total**: a section whose size is not a multiple of 8 is an error, and the
    8-byte stepping stays inside the section -/
theorem btreeLoad_total (f : File) (sec : SimpleSection) : Total (btreeLoad f sec) := by
  first
    | exact L.btreeLoad_total ..
    | (apply L.btreeLoad_total <;> assumption)

/-! ### readHeader and readTOCSections -/

/-- **`readHeader` is total**, including on files shorter than 8 bytes where `sz - 8` wraps around -/
theorem readHeader_total (f : File) : Total (readHeader f) := L.readHeader_total f

/-- on success the reader stands at a `uint32` position inside the mapping and the TOC section's fields are `uint32` -/
theorem readHeader_ok (f : File) (toc : SimpleSection) (n pos : Nat) (h : readHeader f = .ok (toc, n, pos)) :
    pos < two32 ∧ pos ≤ f.data.length ∧ toc.off < two32 ∧ toc.sz < two32 := L.readHeader_ok f toc n pos h

/-- **`simpleSection / compoundSection / lazyCompoundSection .read` are total** (kind by kind), started at a `uint32`
    position inside the mapping; a success leaves the reader inside the mapping, not moved backwards -/
theorem secRead_total (f : File) (k : Kind) (r : Rd) (hr : r.off < two32) (hl : r.off ≤ f.data.length) :
    Total (secRead f k r).1 ∧ ∀ v, (secRead f k r).1 = .ok v → r.off ≤ (secRead f k r).2.off ∧ (secRead f k r).2.off ≤ f.data.length := by
  obtain ⟨t, _, s⟩ := L.good_secRead f k r hr hl
  exact ⟨t, fun v hv => (s v hv).2⟩

/-- **`section.skip` is total** for the three kinds (the dummy sections of unknown tags, and filtered sections) -/
theorem secSkip_total (f : File) (k : Kind) (r : Rd) (hr : r.off < two32) (hl : r.off ≤ f.data.length) :
    Total (secSkip f k r).1 := (L.good_secSkip f k r hr hl).1

/-- **one iteration of the tagged TOC loop** (`tag := Str(); kind := Varint();` then read / skip / unknown-kind error):
    started at a `uint32` position inside the mapping it returns a value or an error, and a success has moved the
    reader strictly forward, still inside the mapping -/
theorem tocStep_progress (f : File) (tags : List Bytes) (st : TocState) (r : Rd) (hr : r.off < two32)
    (hl : r.off ≤ f.data.length) :
    Total (tocStep f tags st r).1 ∧
      ∀ st', (tocStep f tags st r).1 = .ok st' → r.off < (tocStep f tags st r).2.off ∧ (tocStep f tags st r).2.off ≤ f.data.length := by
  obtain ⟨t, _, s⟩ := L.strict_tocStep f tags st r hr hl
  exact ⟨t, s⟩

/-- **the tagged loop terminates**: `len(mapping) + 1 - r.off` iterations always suffice, for every stop offset -/
theorem tocLoop_total (f : File) (tags : List Bytes) (stop fuel : Nat) (st : TocState) (r : Rd) (hr : r.off < two32)
    (hl : r.off ≤ f.data.length) (hf : f.data.length + 1 - r.off < fuel) : Total (tocLoop f tags stop fuel st r) :=
  L.tocLoop_total f tags stop fuel st r hr hl hf

/-- **`readTOCSections` is total** for every file and every tag filter: unknown tags, kind mismatches, unknown kinds,
    filtered (skipped) sections, the legacy section-count branch -/
theorem readTOCSections_total (f : File) (tags : List Bytes) : Total (readTOCSections f tags) :=
  L.readTOCSections_total f tags

/-! ### the b-tree of ngrams (index/btree.go), beyond a single leaf -/

/-- **`node.insert` never indexes or slices out of range**: for every well-formed tree, every ngram, every option set
    with `v ≥ 1` and fuel above the height; the result is well-formed and not higher -/
theorem btree_insert_total (o : Bt.Opts) (hv : 1 ≤ o.v) (ng fuel : Nat) (t : Bt.Node) (hw : Bt.WF t) (hf : Bt.height t < fuel) :
    ∃ t', Bt.insert o ng fuel t = some t' ∧ Bt.WF t' ∧ Bt.height t' ≤ Bt.height t :=
  Bt.insert_total o hv ng fuel t hw hf

/-- **`newBtreeIndex`'s insertion loop never panics**, for every list of ngrams in every order (a corrupt ngram
    section is not sorted) and duplicates, and the tree it builds is well-formed -/
theorem btree_build_total (o : Bt.Opts) (hv : 1 ≤ o.v) (ngs : List Nat) : ∃ t, Bt.build o ngs = some t ∧ Bt.WF t :=
  Bt.build_total o hv ngs

/-- **`btree.find` never panics** on the tree built from any ngram list -/
theorem btree_find_total (o : Bt.Opts) (hv : 1 ≤ o.v) (ngs : List Nat) (q : Nat) :
    ∃ t r, Bt.build o ngs = some t ∧ Bt.find q t 0 0 = some r :=
  Bt.build_find_total o hv ngs q

/-! ### distanceHitIterator (after the fix) -/

/-- `next(limit)` makes progress: on an iterator that is not exhausted and whose head is `≤ limit` the measure
    (unread posting bytes + 1) strictly decreases -/
theorem pIterNext_progress (it : PIter) (limit : Nat) (h1 : it.first ≤ limit) (h2 : it.first ≠ maxU32) :
    ∃ it', pIterNext it limit = .ok it' ∧ pMeasure it' < pMeasure it :=
  L.pIterNext_progress it limit h1 h2

/-- **`distanceHitIterator.findNext` terminates** for all iterator states with `uint32` heads and all distances:
    `pMeasure i1 + pMeasure i2 + 1` iterations suffice (each iteration advances one of the two iterators) -/
theorem distFindNext_total (d : Nat) (fuel : Nat) (a b : PIter) (ha : a.first < two32) (hb : b.first < two32)
    (hf : pMeasure a + pMeasure b < fuel) :
    ∃ r, distFindNext d fuel a b = .ok r ∧ r.1.first < two32 ∧ r.2.first < two32 :=
  L.distFindNext_total d fuel a b ha hb hf

theorem distNext_total (d : Nat) (a b : PIter) (limit : Nat) (hua : a.first < two32) (hub : b.first < two32) :
    ∃ r, distNext d a b limit = .ok r ∧ r.1.first < two32 ∧ r.2.first < two32 :=
  L.distNext_total d a b limit hua hub

/-- **a whole distance-iterator session is total**: construction over any two byte strings (posting lists of a
    corrupt shard), `first()`, and any sequence of `next(limit)` -/
theorem distRun_total (b1 b2 : Bytes) (d : Nat) (limits : List Nat) : Total (distRun b1 b2 d limits) := by
  obtain ⟨l, h⟩ := L.distRun_total b1 b2 d limits
  simp [Total, h, Outcome.isOkOrErr]

/-! ### the decoders before the fix are not total -/

/-- one iteration of the old loop on a lone continuation byte makes no progress -/
theorem legacy_step_stuck (last : Nat) (out : List Nat) :
    Legacy.step ⟨[128], last, out⟩ = .next ⟨[128], (last + 0 % two32) % two32, out ++ [(last + 0 % two32) % two32]⟩ := by
  rfl

/-- **the old `fromSizedDeltas` does not terminate on `[1, 5, 0x80]`** (size 1, element 5, truncated varint): after
    any number of iterations it is still running, on the same remaining data, with one more element appended each
    time (reproduced on the real code: corpus/C11/hang-*, oom-*) -/
theorem legacy_fromSizedDeltas_diverges : Legacy.start [1, 5, 128] = .next ⟨[5, 128], 0, []⟩ ∧
    ∀ n : Nat, ∃ s, Legacy.iter (n + 1) ⟨[5, 128], 0, []⟩ = .next s ∧ s.data = [128] ∧ s.out.length = n + 1 := by
  refine ⟨rfl, ?_⟩
  have key : ∀ (n : Nat) (last : Nat) (out : List Nat),
      ∃ s, Legacy.iter n ⟨[128], last, out⟩ = .next s ∧ s.data = [128] ∧ s.out.length = out.length + n := by
    intro n
    induction n with
    | zero => intro last out; exact ⟨_, rfl, rfl, by simp⟩
    | succ n ih =>
      intro last out
      unfold Legacy.iter
      rw [legacy_step_stuck]
      obtain ⟨s, h1, h2, h3⟩ := ih ((last + 0 % two32) % two32) (out ++ [(last + 0 % two32) % two32])
      exact ⟨s, h1, h2, by simp at h3; omega⟩
  intro n
  have hfirst : Legacy.step ⟨[5, 128], 0, []⟩ = .next ⟨[128], 5, [5]⟩ := by rfl
  unfold Legacy.iter
  rw [hfirst]
  obtain ⟨s, h1, h2, h3⟩ := key n 5 [5]
  exact ⟨s, h1, h2, by simp at h3; omega⟩

/-- the old loop panics (`slice bounds out of range [-11:]`) on an overflowing varint -/
theorem legacy_fromSizedDeltas_panics :
    Legacy.step ⟨[255, 255, 255, 255, 255, 255, 255, 255, 255, 255, 1], 0, []⟩ = .panic := by rfl

/-- the old code allocates what the size prefix claims: 5 bytes request 2³²−1 elements; the fixed code at most `len` -/
theorem legacy_alloc_unbounded : Legacy.alloc [255, 255, 255, 255, 15] = 4294967295 ∧ sizedAlloc [255, 255, 255, 255, 15] = 0 := by
  decide

/-- **`findNext` before the fix spins** on i1 = [0xFFFFFFFE], i2 = [100], distance 5: `p1 + distance` wraps to 3 < 100,
    `i1.next(94)` leaves i1 unchanged, and the iteration maps the state to itself (reproduced on the real code:
    corpus/C11/prim-dist-wrap.json and, through a corrupt shard, hang-search-index-distanceHitIterator-*) -/
theorem legacy_dist_spins : Legacy.distStep 5 [4294967294] [100] = some ([4294967294], [100]) := by decide

/-! ### non-vacuity -/

example : fromSizedDeltas [3, 5, 1, 130, 1] = .ok [5, 6, 136] := by decide
example : fromSizedDeltas [1, 5, 128] = .ok [5] := by decide
example : unmarshalDocSections [2, 1, 2] = .ok [1, 3] := by decide
example : (openFile [0, 0, 0, 1]).isOkOrErr = true := by decide
example : distRun [254, 255, 255, 255, 15] [100] 5 [] = .ok [4294967295] := by decide
example : distRun [3, 4] [5, 4] 2 [3] = .ok [3, 7] := by decide
example : (Bt.build ⟨4, 2⟩ [5, 1, 9, 3, 7, 2, 8, 6, 4, 0]).map Bt.leaves = some [3, 2, 3, 2] := by decide
example : pIterRun [3, 2, 128] [2, 4, 9] = .ok [3, 3, 5, 4294967295] := by decide

end ZoektModel.C11
