/-
C09 — A written shard reads back every document and all metadata.  Property theorems.
(The model is ZoektModel/C09/{Coders,Postings,Model}.lean, the statement ZoektModel/C09/Spec.lean.)
-/
import ZoektModel.C09.Skip
namespace ZoektModel.C09
open ZoektModel

/-- `fromSizedDeltas (toSizedDeltas l) = l` for *every* list of uint32 — monotone or not (wrap-around deltas), across
    every varint length. (`l.length < 2^64`: the size prefix is a uint64.) -/
theorem deltas_roundtrip (l : List UInt32) (hl : l.length < 2 ^ 64) :
    fromSizedDeltas (toSizedDeltas l) = some l := by
  unfold fromSizedDeltas
  rw [varints_toSizedDeltas l hl]
  simp [undelta_deltaNats]

/-- the 16-bit variant used for the per-document repository index of compound shards -/
theorem deltas16_roundtrip (l : List UInt16) (hl : l.length < 2 ^ 64) :
    fromSizedDeltas16 (toSizedDeltas16 l) = some l := by
  unfold fromSizedDeltas16 toSizedDeltas16
  rw [varints_put _ _ hl]
  have := varints_deltasEnc16 l 0 []
  simp [varints_nil] at this
  simp [this, undelta16_deltaNats16]

/-- `fromDeltas` (posting lists have no size prefix) inverts the delta encoding -/
theorem rawdeltas_roundtrip (l : List UInt32) : fromDeltas (deltasEnc l 0) = some l := by
  unfold fromDeltas
  have := varints_deltasEnc l 0 []
  simp [varints_nil] at this
  simp [this, undelta_deltaNats]

/-- `unmarshalDocSections (marshalDocSections secs) = secs` for every list of sections -/
theorem docsections_roundtrip (secs : List Sec) (hl : 2 * secs.length < 2 ^ 64) :
    unmarshalDocSections (marshalDocSections secs) = some secs := by
  unfold unmarshalDocSections marshalDocSections
  rw [varints_toSizedDeltas _ (by rw [flattenSecs_length]; exact hl)]
  simp [unpair_deltaNats]

/-- compound sections: item `i`, cut with `relativeIndex` from the concatenated data, is the item that was written —
    for every item list, at every file offset (empty items, the last item, a single item included) -/
theorem compound_items_roundtrip (off : Nat) (items : List Bytes) (i : Nat) (hi : i < items.length) :
    readItem (writeCompound off items) i = items.getD i [] :=
  readItem_write off items i hi

/-- category byte: `decodeCategory (encode c) = c` for every category `encode` accepts -/
theorem category_roundtrip (c k : Nat) (h : encodeCategory c = some k) : decodeCategory k = c := by
  unfold encodeCategory at h
  split at h <;> first | (injection h with h; subst h; rfl) | simp at h

/-- one varint: `Uvarint (PutUvarint n ++ rest)` gives back `n` and continues with `rest` (all n < 2^64) -/
theorem uvarint_roundtrip (n : Nat) (rest : Bytes) (hn : n < 2 ^ 64) :
    varints (putUvarint n ++ rest) = (varints rest).map (n :: ·) :=
  varints_put n rest hn

/-! ### the composition: Add* → Write → read -/

/-- the per-document clauses of the statement that `C09_roundtrip_partial` proves (everything `checkDoc` demands except the
    rune-offset sections and the symbol metadata table) -/
def fieldsOk (repo : Repo) (d : Doc) (o : DocOut) : Prop :=
  o.name = d.name ∧
  (rejected d = true → placeholderOk d o.content = true ∧ o.sections = []) ∧
  (rejected d = false → o.content = d.content) ∧
  o.branches = repo.branches.filter (d.branches.contains ·) ∧
  o.checksum = be 8 (crc64 o.content).toNat ∧
  o.language = expectLanguage d ∧
  (d.category ≠ 0 → o.category = d.category) ∧
  o.subRepoPath = d.subRepoPath ∧
  o.sections = (effective d).symbols ∧
  o.content = (effective d).content

/-- size facts of a shard below the format's limits (4 GiB file, 2^32 documents) -/
structure Small (repo : Repo) (docs : List Doc) (b : SB) : Prop where
  ndocs : docs.length < 2 ^ 32
  paths : (subRepoPaths repo).length < 2 ^ 32
  runeSecs : 2 * b.runeDocSections.length < 2 ^ 64
  syms : ∀ d ∈ docs, 2 * (effective d).symbols.length < 2 ^ 64 ∧ ∀ p ∈ (effective d).symbols, p.1 < 2 ^ 32 ∧ p.2 < 2 ^ 32

/-- **C09_roundtrip_partial.** For every repository (≤ 64 distinct branches) and every document list that `ShardBuilder.Add`
    accepts, reading the written sections back gives, document by document and in order: the same name; the same content,
    or for a rejected document (skip reason given, or NUL content of an unclassified file) the "NOT-INDEXED" explanation
    and no symbols; exactly the repository's branches the document is on; the crc64 of the stored content; the language;
    the category; the sub-repository path; and the byte sections of its symbols sorted as `Add` sorted them.
    Not covered here (validated by correspondence and the Go oracles): rune-offset sections, the symbol metadata table,
    posting lists, and the byte-level TOC. -/
theorem C09_roundtrip_partial (repo : Repo) (docs : List Doc) (b : SB) (mj rj : Bytes)
    (hadd : SB.addAll repo (SB.new PB.fresh PB.fresh) docs = .ok b)
    (hn : repo.branches.Nodup) (hl : repo.branches.length ≤ 64) (hs : Small repo docs b) :
    ∃ outs, readAll (b.write mj rj).2 repo b.languageMap = some outs ∧ outs.length = docs.length ∧
      ∀ (i : Nat) (d : Doc) (o : DocOut), docs[i]? = some d → outs[i]? = some o → fieldsOk repo d o := by
  obtain ⟨recs, hlen, hrec, hrep⟩ := addAll_rep repo docs _ b [] (Rep.new _ _) hadd
  simp only [List.nil_append] at hrep
  -- every record comes from its document
  have hof : ∀ i (hi : i < docs.length), RecOf repo docs[i] (recs.getD i default) := by
    intro i hi
    have hi' : i < recs.length := by omega
    apply hrec i hi docs[i] _ (by simp [List.getElem?_eq_getElem hi])
    simp [List.getD_eq_getElem?_getD, List.getElem?_eq_getElem hi']
  have hbound : Bounded b recs := by
    refine ⟨by rw [hlen]; exact hs.ndocs, hs.runeSecs, ?_⟩
    intro r hr
    obtain ⟨i, hi, rfl⟩ := List.getElem_of_mem hr
    have hid : i < docs.length := by omega
    have ho := hof i hid
    have hg : recs.getD i default = recs[i] := by simp [List.getD_eq_getElem?_getD, List.getElem?_eq_getElem hi]
    rw [hg] at ho
    have hsy := hs.syms docs[i] (List.getElem_mem hid)
    refine ⟨(branches_roundtrip _ _ _ hn hl ho.mask).2, ?_, encodeCategory_lt _ _ ho.cat, ?_, ?_⟩
    · have := (indexOf?_some _ _ _ ho.subIdx []).1
      have := hs.paths
      omega
    · rw [ho.secs]; exact hsy.1
    · rw [ho.secs]; exact hsy.2
  have hnum : numDocs (b.write mj rj).2 = recs.length := by
    obtain ⟨_, _, _, _, _, _, f4, _⟩ := write_fields b mj rj
    unfold numDocs
    rw [f4, readBE8_writeBE8 _ (by
      intro n hn'
      rw [hrep.masks] at hn'
      simp at hn'
      obtain ⟨q, hq, rfl⟩ := hn'
      exact (hbound.each q hq).1), hrep.masks]
    simp
  let g : Nat → DocOut := fun i => (readDoc (b.write mj rj).2 repo b.languageMap i).getD default
  have hg : ∀ i ∈ List.range recs.length, readDoc (b.write mj rj).2 repo b.languageMap i = some (g i) := by
    intro i hi
    obtain ⟨o, ho, _⟩ := readDoc_rec b recs hrep hbound mj rj repo i (by simpa using hi)
    simp [g, ho]
  refine ⟨(List.range recs.length).map g, ?_, by simp [hlen], ?_⟩
  · unfold readAll
    rw [hnum]
    exact mapM_some _ g _ hg
  · intro i d o hd ho
    have hi : i < docs.length := by
      by_cases hc : i < docs.length
      · exact hc
      · simp [List.getElem?_eq_none (Nat.le_of_not_lt hc)] at hd
    have hi' : i < recs.length := by omega
    have hdi : docs[i] = d := by simpa [List.getElem?_eq_getElem hi] using hd
    have hoi : g i = o := by simpa [List.getElem?_eq_getElem, hi'] using ho
    obtain ⟨o', ho', hname, hcontent, hsecs, hsum, hcat, hsub, hbr, hlang⟩ := readDoc_rec b recs hrep hbound mj rj repo i hi'
    have : g i = o' := by simp [g, ho']
    rw [this] at hoi
    subst hoi
    have hr := hof i hi
    rw [hdi] at hr
    refine ⟨by rw [hname, hr.name], ?_, ?_, ?_, ?_, ?_, ?_, ?_, ?_, ?_⟩
    · intro hrej
      have := effective_rejected d hrej
      rw [hcontent, hr.content, hsecs, hr.secs]
      exact this
    · intro hacc
      rw [hcontent, hr.content, effective_accepted d hacc]
    · rw [hbr, (branches_roundtrip _ _ _ hn hl hr.mask).1]
    · rw [hsum, hcontent]
    · rw [hlang, hr.lang, effective_language]
    · intro hc
      rw [hcat, category_roundtrip _ _ hr.cat, effective_category d hc]
    · rw [hsub, (indexOf?_some _ _ _ hr.subIdx []).2]
    · rw [hsecs, hr.secs]
    · rw [hcontent, hr.content]

/-- **C09_runesections_partial.** Under the hypotheses of `C09_roundtrip_partial` (plus the 32-bit bounds on the symbol
    tables): every document read back has exactly one rune section per byte section, and each rune section denotes the
    same text as the byte section — both ends are rune starts of the stored content (or its end), and the stored rune
    offsets are those rune indices counted from the runes of the preceding documents (so multi-byte runes, invalid
    bytes and the 100-rune sampling play no role in what a symbol section denotes). -/
theorem C09_runesections_partial (repo : Repo) (docs : List Doc) (b : SB) (mj rj : Bytes)
    (hadd : SB.addAll repo (SB.new PB.fresh PB.fresh) docs = .ok b)
    (hn : repo.branches.Nodup) (hl : repo.branches.length ≤ 64) (hs : Small repo docs b)
    (hfes : ∀ n ∈ b.fileEndSymbol, n < 2 ^ 32)
    (hrds : ∀ p ∈ b.runeDocSections, p.1 < 2 ^ 32 ∧ p.2 < 2 ^ 32)
    (outs : List DocOut) (hread : readAll (b.write mj rj).2 repo b.languageMap = some outs) :
    ∀ (i : Nat) (o : DocOut), outs[i]? = some o →
      o.runeSections.length = o.sections.length ∧
      ∀ q ∈ o.sections.zip o.runeSections,
        Denotes o.content (startRune outs i) q.1.1 q.2.1 ∧ Denotes o.content (startRune outs i) q.1.2 q.2.2 := by
  obtain ⟨recs, hlen, hrec, hrep⟩ := addAll_rep repo docs _ b [] (Rep.new _ _) hadd
  obtain ⟨recs2, hlen2, hrec2, hrep2⟩ := addAll_rep2 repo docs _ b [] Rep2.new hadd
  simp only [List.nil_append] at hrep hrep2
  have hof : ∀ i (hi : i < docs.length), RecOf repo docs[i] (recs.getD i default) := by
    intro i hi
    have hi' : i < recs.length := by omega
    apply hrec i hi docs[i] _ (by simp [List.getElem?_eq_getElem hi])
    simp [List.getD_eq_getElem?_getD, List.getElem?_eq_getElem hi']
  have hof2 : ∀ i (hi : i < docs.length), RecOf2 docs[i] (recs2.getD i default) := by
    intro i hi
    have hi' : i < recs2.length := by omega
    apply hrec2 i hi docs[i] _ (by simp [List.getElem?_eq_getElem hi])
    simp [List.getD_eq_getElem?_getD, List.getElem?_eq_getElem hi']
  have hbound : Bounded b recs := by
    refine ⟨by rw [hlen]; exact hs.ndocs, hs.runeSecs, ?_⟩
    intro r hr
    obtain ⟨i, hi, rfl⟩ := List.getElem_of_mem hr
    have hid : i < docs.length := by omega
    have ho := hof i hid
    have hg : recs.getD i default = recs[i] := by simp [List.getD_eq_getElem?_getD, List.getElem?_eq_getElem hi]
    rw [hg] at ho
    have hsy := hs.syms docs[i] (List.getElem_mem hid)
    refine ⟨(branches_roundtrip _ _ _ hn hl ho.mask).2, ?_, encodeCategory_lt _ _ ho.cat, ?_, ?_⟩
    · have := (indexOf?_some _ _ _ ho.subIdx []).1
      have := hs.paths
      omega
    · rw [ho.secs]; exact hsy.1
    · rw [ho.secs]; exact hsy.2
  have hrs : ∀ r ∈ recs2, ∀ p ∈ r.runeSecs, p.1 < 2 ^ 32 ∧ p.2 < 2 ^ 32 := by
    intro r hr p hp
    apply hrds
    rw [hrep2.rds]
    simp only [List.mem_flatten, List.mem_map]
    exact ⟨r.runeSecs, ⟨r, hr, rfl⟩, hp⟩
  have hnum : numDocs (b.write mj rj).2 = recs.length := by
    obtain ⟨_, _, _, _, _, _, f4, _⟩ := write_fields b mj rj
    unfold numDocs
    rw [f4, readBE8_writeBE8 _ (by
      intro n hn'
      rw [hrep.masks] at hn'
      simp at hn'
      obtain ⟨q, hq, rfl⟩ := hn'
      exact (hbound.each q hq).1), hrep.masks]
    simp
  -- what readAll returned, index by index
  let g : Nat → DocOut := fun i => (readDoc (b.write mj rj).2 repo b.languageMap i).getD default
  have hg : ∀ i ∈ List.range recs.length, readDoc (b.write mj rj).2 repo b.languageMap i = some (g i) := by
    intro i hi
    obtain ⟨o, ho, _⟩ := readDoc_rec b recs hrep hbound mj rj repo i (by simpa using hi)
    simp [g, ho]
  have houts : outs = (List.range recs.length).map g := by
    unfold readAll at hread
    rw [hnum, mapM_some _ g _ hg] at hread
    injection hread with hread
    exact hread.symm
  -- contents of all documents read back, as the records have them
  have hcontents : outs.map (·.content) = recs2.map (·.content) := by
    apply List.ext_getElem
    · simp [houts]; omega
    · intro j h1 h2
      have hj : j < recs.length := by simpa [houts] using h1
      have hjd : j < docs.length := by omega
      obtain ⟨o', ho', _, hcontent, _⟩ := readDoc_rec b recs hrep hbound mj rj repo j hj
      have e1 : g j = o' := by simp [g, ho']
      simp only [List.getElem_map, houts, List.getElem_range, e1, hcontent]
      have hj2 : j < recs2.length := by omega
      have e2 : recs2.getD j default = recs2[j] := by simp [List.getD_eq_getElem?_getD, List.getElem?_eq_getElem hj2]
      rw [(hof j hjd).content, ← (hof2 j hjd).content, e2]
  intro i o ho
  have hi : i < recs.length := by
    by_cases hc : i < recs.length
    · exact hc
    · rw [houts] at ho
      have : ((List.range recs.length).map g)[i]? = none :=
        List.getElem?_eq_none (by simpa using Nat.le_of_not_lt hc)
      rw [this] at ho
      cases ho
  have hid : i < docs.length := by omega
  have hi2 : i < recs2.length := by omega
  obtain ⟨o', ho', _, hcontent, hsecs, _⟩ := readDoc_rec b recs hrep hbound mj rj repo i hi
  have hoi : o = o' := by
    rw [houts] at ho
    simp [List.getElem?_eq_getElem, hi] at ho
    rw [← ho]
    simp [g, ho']
  subst hoi
  have hrunes := readDoc_runes b recs recs2 hrep hbound hrep2 (by omega) hfes hrs mj rj repo i hi o ho'
  have e2 : recs2.getD i default = recs2[i] := by simp [List.getD_eq_getElem?_getD, List.getElem?_eq_getElem hi2]
  have hden := hrep2.den recs2[i] (List.getElem_mem hi2)
  have hrc0 := hrep2.rc0 i hi2
  have hsec_eq : o.sections = recs2[i].secs := by
    rw [hsecs, (hof i hid).secs, ← (hof2 i hid).secs, e2]
  have hcont_eq : o.content = recs2[i].content := by
    rw [hcontent, (hof i hid).content, ← (hof2 i hid).content, e2]
  have hstart : startRune outs i = recs2[i].rc0 := by
    rw [hrc0]
    unfold startRune runeLen
    have : (outs.take i).map (fun o => (decodeAll o.content).length)
        = ((outs.map (·.content)).take i).map (fun c => (decodeAll c).length) := by
      rw [← List.map_take, List.map_map]; rfl
    rw [this, hcontents, ← List.map_take, List.map_map]
    rfl
  rw [hrunes, e2, hsec_eq, hcont_eq, hstart]
  exact hden

/-- **C09_symbols_partial.** With symbol metadata parallel to the symbol sections (as ctags conversion produces them), the
    metadata read back for each section (`symbols.data`: kind, parent, parent kind through the interned string tables)
    is the metadata that was added with it. -/
theorem C09_symbols_partial (repo : Repo) (docs : List Doc) (b : SB) (mj rj : Bytes)
    (hadd : SB.addAll repo (SB.new PB.fresh PB.fresh) docs = .ok b)
    (hn : repo.branches.Nodup) (hl : repo.branches.length ≤ 64) (hs : Small repo docs b)
    (hfes : ∀ n ∈ b.fileEndSymbol, n < 2 ^ 32) (hmd : ∀ n ∈ b.symMetaData, n < 2 ^ 32)
    (hwf : ∀ d ∈ docs, d.symMeta.length = d.symbols.length)
    (outs : List DocOut) (hread : readAll (b.write mj rj).2 repo b.languageMap = some outs) :
    ∀ (i : Nat) (d : Doc) (o : DocOut), docs[i]? = some d → outs[i]? = some o →
      o.symbols = (effective d).symMeta.map some := by
  obtain ⟨recs, hlen, hrec, hrep⟩ := addAll_rep repo docs _ b [] (Rep.new _ _) hadd
  obtain ⟨recs2, hlen2, hrec2, hrep2⟩ := addAll_rep2 repo docs _ b [] Rep2.new hadd
  obtain ⟨rowss, hlen3, hrec3, hrep3⟩ := addAll_rep3 repo docs _ b [] Rep3.new hadd
  simp only [List.nil_append] at hrep hrep2 hrep3
  have hof : ∀ i (hi : i < docs.length), RecOf repo docs[i] (recs.getD i default) := by
    intro i hi
    have hi' : i < recs.length := by omega
    apply hrec i hi docs[i] _ (by simp [List.getElem?_eq_getElem hi])
    simp [List.getD_eq_getElem?_getD, List.getElem?_eq_getElem hi']
  have hof2 : ∀ i (hi : i < docs.length) (hi2 : i < recs2.length), RecOf2 docs[i] recs2[i] := by
    intro i hi hi2
    exact hrec2 i hi docs[i] _ (by simp [List.getElem?_eq_getElem hi]) (by simp [List.getElem?_eq_getElem hi2])
  have hof3 : ∀ i (hi : i < docs.length) (hi3 : i < rowss.length), rowss[i].map (·.sym) = (effective docs[i]).symMeta := by
    intro i hi hi3
    exact hrec3 i hi docs[i] _ (by simp [List.getElem?_eq_getElem hi]) (by simp [List.getElem?_eq_getElem hi3])
  have hbound : Bounded b recs := by
    refine ⟨by rw [hlen]; exact hs.ndocs, hs.runeSecs, ?_⟩
    intro r hr
    obtain ⟨i, hi, rfl⟩ := List.getElem_of_mem hr
    have hid : i < docs.length := by omega
    have ho := hof i hid
    have hg : recs.getD i default = recs[i] := by simp [List.getD_eq_getElem?_getD, List.getElem?_eq_getElem hi]
    rw [hg] at ho
    have hsy := hs.syms docs[i] (List.getElem_mem hid)
    refine ⟨(branches_roundtrip _ _ _ hn hl ho.mask).2, ?_, encodeCategory_lt _ _ ho.cat, ?_, ?_⟩
    · have := (indexOf?_some _ _ _ ho.subIdx []).1
      have := hs.paths
      omega
    · rw [ho.secs]; exact hsy.1
    · rw [ho.secs]; exact hsy.2
  -- rows per document line up with the rune sections per document
  have hrowlen : ∀ i (hi : i < docs.length) (hi3 : i < rowss.length), rowss[i].length = (effective docs[i]).symbols.length := by
    intro i hi hi3
    have := congrArg List.length (hof3 i hi hi3)
    simp only [List.length_map] at this
    rw [this, effective_lengths _ (hwf _ (List.getElem_mem hi))]
  have halign : rowss.map List.length = (recs2.map (·.runeSecs)).map List.length := by
    apply List.ext_getElem
    · simp; omega
    · intro j h1 h2
      have hj3 : j < rowss.length := by simpa using h1
      have hj2 : j < recs2.length := by simpa using h2
      have hjd : j < docs.length := by omega
      simp only [List.getElem_map]
      rw [hrowlen j hjd hj3, (hrep2.den recs2[j] (List.getElem_mem hj2)).1, (hof2 j hjd hj2).secs]
  have hnum : numDocs (b.write mj rj).2 = recs.length := by
    obtain ⟨_, _, _, _, _, _, f4, _⟩ := write_fields b mj rj
    unfold numDocs
    rw [f4, readBE8_writeBE8 _ (by
      intro n hn'
      rw [hrep.masks] at hn'
      simp at hn'
      obtain ⟨q, hq, rfl⟩ := hn'
      exact (hbound.each q hq).1), hrep.masks]
    simp
  let g : Nat → DocOut := fun i => (readDoc (b.write mj rj).2 repo b.languageMap i).getD default
  have hg : ∀ i ∈ List.range recs.length, readDoc (b.write mj rj).2 repo b.languageMap i = some (g i) := by
    intro i hi
    obtain ⟨o, ho, _⟩ := readDoc_rec b recs hrep hbound mj rj repo i (by simpa using hi)
    simp [g, ho]
  have houts : outs = (List.range recs.length).map g := by
    unfold readAll at hread
    rw [hnum, mapM_some _ g _ hg] at hread
    injection hread with hread
    exact hread.symm
  intro i d o hd ho
  have hid : i < docs.length := by
    by_cases hc : i < docs.length
    · exact hc
    · simp [List.getElem?_eq_none (Nat.le_of_not_lt hc)] at hd
  have hdi : docs[i] = d := by simpa [List.getElem?_eq_getElem hid] using hd
  have hi : i < recs.length := by omega
  have hi3 : i < rowss.length := by omega
  have hread_i : readDoc (b.write mj rj).2 repo b.languageMap i = some o := by
    rw [houts] at ho
    simp [List.getElem?_eq_getElem, hi] at ho
    rw [← ho]
    exact hg i (by simpa using hi)
  have hgi : rowss.getD i [] = rowss[i] := by simp [List.getD_eq_getElem?_getD, List.getElem?_eq_getElem hi3]
  have hsl : (recs.getD i default).secs.length = (rowss.getD i []).length := by
    rw [hgi, hrowlen i hid hi3, (hof i hid).secs]
  have := readDoc_symbols b recs recs2 rowss hrep hbound hrep2 hrep3 (by omega) (by omega) halign hfes hmd mj rj repo i hi hsl o hread_i
  rw [this, hgi, ← hdi, ← hof3 i hid hi3, List.map_map]
  rfl

/-- **C09_roundtrip.** The whole statement, on the model: for every repository (≤ 64 distinct branches) and every document
    list that `ShardBuilder.Add` accepts — any names, any contents (invalid UTF-8, multi-byte runes anywhere), any subset of
    the branches, language, category, sub-repository, symbol sections with parallel metadata, any skip reasons — below the
    format's size limits, reading the sections written by `ShardBuilder.Write` back gives documents for which the executable
    statement `checkP` holds: identical name, content (or the NOT-INDEXED explanation and no symbols for rejected documents),
    branches, checksum, language, category, sub-repository, symbol sections sorted by start with their metadata, and rune
    sections denoting the same text. -/
theorem C09_roundtrip (repo : Repo) (docs : List Doc) (b : SB) (mj rj : Bytes)
    (hadd : SB.addAll repo (SB.new PB.fresh PB.fresh) docs = .ok b)
    (hn : repo.branches.Nodup) (hl : repo.branches.length ≤ 64) (hs : Small repo docs b)
    (hfes : ∀ n ∈ b.fileEndSymbol, n < 2 ^ 32) (hrds : ∀ p ∈ b.runeDocSections, p.1 < 2 ^ 32 ∧ p.2 < 2 ^ 32)
    (hmd : ∀ n ∈ b.symMetaData, n < 2 ^ 32)
    (hwf : ∀ d ∈ docs, d.symMeta.length = d.symbols.length) :
    ∃ outs, readAll (b.write mj rj).2 repo b.languageMap = some outs ∧ checkP repo docs outs = true := by
  obtain ⟨outs, hread, hlen, hfields⟩ := C09_roundtrip_partial repo docs b mj rj hadd hn hl hs
  have hrunes := C09_runesections_partial repo docs b mj rj hadd hn hl hs hfes hrds outs hread
  have hsyms := C09_symbols_partial repo docs b mj rj hadd hn hl hs hfes hmd hwf outs hread
  refine ⟨outs, hread, ?_⟩
  unfold checkP
  rw [checkDocs_none repo docs outs 0 hlen.symm]
  · rfl
  · intro i d o hd ho
    have hid : i < docs.length := by
      by_cases hc : i < docs.length
      · exact hc
      · simp [List.getElem?_eq_none (Nat.le_of_not_lt hc)] at hd
    have hdm : d ∈ docs := by
      have : docs[i] = d := by simpa [List.getElem?_eq_getElem hid] using hd
      exact this ▸ List.getElem_mem hid
    have hf := hfields i d o hd ho
    obtain ⟨f1, _, _, f4, f5, f6, f7, f8, f9, f10⟩ := hf
    have hr := hrunes i o ho
    rw [Nat.zero_add]
    exact checkDoc_none repo d o _ (hwf d hdm)
      ⟨f1, f10, f4, f5, f6, f7, f8, f9, hsyms i d o hd ho, hr.1, hr.2⟩

/-- **branchmask_roundtrip.** The names `gatherBranches` lists for the mask `Add` stored are exactly the branches of the
    document, in the order of the branch list the mask was computed against — for every repository with at most 64 distinct
    branch names. In a compound shard this is applied per document with the document's *own* repository (`cmask`
    correspondence): a bit position taken from another repository's list would break it. -/
theorem branchmask_roundtrip (names doc : List Bytes) (mask : Nat) (hn : names.Nodup) (hl : names.length ≤ 64)
    (h : branchMaskOf names doc = some mask) :
    maskBranches names 64 mask 0 = names.filter (doc.contains ·) ∧ mask < 2 ^ 64 :=
  branches_roundtrip names doc mask hn hl h

/-- **sections_byte_to_rune.** If `newSearchableString` accepts `(data, secs)` — boundaries sorted and inside the content, as
    `ShardBuilder.Add` has checked (`boundsOk_of_checks`) — it returns one rune section per byte section and each rune
    offset denotes its byte offset (a rune start of `data`, or its end), for every builder state and every content
    (multi-byte runes, invalid UTF-8). -/
theorem sections_byte_to_rune (s s' : PB) (data : Bytes) (secs rs : List (Nat × Nat))
    (hb : BoundsOk data.length (secs.flatMap fun p => [p.1, p.2]))
    (hok : s.add data secs = .ok (s', rs)) :
    rs.length = secs.length ∧
    ∀ q ∈ secs.zip rs, Denotes data s.runeCount q.1.1 q.2.1 ∧ Denotes data s.runeCount q.1.2 q.2.2 :=
  sections_byte_to_rune_lemma s s' data secs rs hb hok

/-- the checks of `ShardBuilder.Add` (sections proper, not overlapping, not past the end) give those bounds -/
theorem add_checks_give_bounds (secs : List (Nat × Nat)) (len : Nat) (h1 : properSecs secs = true)
    (h2 : overlapFree secs = true) (h3 : lastEnd secs ≤ len) : BoundsOk len (secs.flatMap fun p => [p.1, p.2]) :=
  boundsOk_of_checks secs len h1 h2 h3

/-- **skip_decision_spec.** `DocChecker.Check`, for every content: empty → accepted; fewer than 3 bytes → too small; a NUL byte
    → binary; otherwise "too many trigrams" exactly when the file is not exempt, has more than `max + 2` bytes, and the
    number of distinct trigrams of its decoded runes (the length of any duplicate-free enumeration `u` of that set) exceeds
    `max` — the early exit of the counting loop and the start-of-file quirk change nothing. (`Builder.Add` puts "too large"
    in front: `builderSkip`.) -/
theorem skip_decision_spec (content : Bytes) (max : Nat) (allow : Bool) (u : List Nat) (hu : u.Nodup)
    (hmem : ∀ g, g ∈ u ↔ g ∈ windows ((decodeAll content).map (·.r))) :
    docCheck content max allow =
      if content.length = 0 then 0
      else if content.length < 3 then 2
      else if content.contains 0 then 3
      else if content.length - 2 ≤ max ∨ allow = true then 0
      else if u.length > max then 4 else 0 :=
  docCheck_spec content max allow u hu hmem

/-- **doccheck_reuse_independent.** A `DocChecker` is reused for every document of a `Builder`; its trigram set survives
    between calls. Whatever the set holds — after a document rejected by the early return, after calls with other limits —
    the verdict on the next document is the verdict of a fresh checker: for every history `st` and every sequence of
    (content, limit, exempt) calls on one checker, the results are those of `docCheck` call by call. -/
theorem doccheck_reuse_independent (st : List Nat) (docs : List (Bytes × Nat × Bool)) :
    checkSeq st docs = docs.map fun d => docCheck d.1 d.2.1 d.2.2 :=
  checkSeq_stateless docs st

/-- one posting list: the bytes appended for increasing rune offsets decode to exactly those offsets -/
theorem postings_roundtrip (offs : List Nat) (h : Increasing 0 offs) :
    fromDeltas (pushAll PL.empty offs).data = some (u32s offs) :=
  postings_decode offs h

/-! ### non-vacuity -/

example : fromSizedDeltas (toSizedDeltas [5, 300, 2, 4294967295, 0]) = some [5, 300, 2, 4294967295, 0] :=
  deltas_roundtrip _ (by decide)

example : readItem (writeCompound 7 [[1, 2], [], [3]]) 2 = [3] :=
  compound_items_roundtrip 7 [[1, 2], [], [3]] 2 (by decide)

example : unmarshalDocSections (marshalDocSections [⟨3, 9⟩, ⟨9, 200⟩]) = some [⟨3, 9⟩, ⟨9, 200⟩] :=
  docsections_roundtrip _ (by decide)

example : encodeCategory 8 = some 7 ∧ decodeCategory 7 = 8 := by decide

/-- a concrete instance of the hypotheses of `C09_roundtrip_partial`: two branches, one sub-repository, two documents -/
def exRepo : Repo := ⟨[[109], [100]], [[115]]⟩
def exDocs : List Doc := [
  { name := [97], content := [104, 105], branches := [[100]], subRepoPath := [], language := [71], langHint := [], category := 1,
    catHint := 1, skip := 0, symbols := [(0, 1)], symMeta := [⟨[102], [], []⟩] },
  { name := [98], content := [], branches := [[109], [100]], subRepoPath := [115], language := [], langHint := [80], category := 2,
    catHint := 1, skip := 0, symbols := [], symMeta := [] }]

example : (match SB.addAll exRepo (SB.new PB.fresh PB.fresh) exDocs with | .ok _ => true | _ => false) = true := by decide
example : exRepo.branches.Nodup ∧ exRepo.branches.length ≤ 64 := by decide
example : Denotes [0xC3, 0xA9, 0x61] 5 2 6 := by unfold Denotes; decide
example : docCheck [97, 98, 99, 100, 101] 2 false = 4 ∧ docCheck [97, 97, 97, 97, 97] 2 false = 0 := by decide
example : checkSeq [] [([97, 98, 99, 100, 101], 2, false), ([97, 97, 97, 97, 97], 2, false)] = [4, 0] := by decide
example : Increasing 0 [0, 5, 300] := by simp [Increasing]
example : rejected ⟨[98], [0, 1], [], [], [], [], 0, 1, 0, [], []⟩ = true := by decide

end ZoektModel.C09
