/-
C09 — A written shard reads back every document and all metadata.  Property theorems.
(The model is ZoektModel/C09/{Coders,Postings,Model}.lean, the statement ZoektModel/C09/Spec.lean.)
-/
import ZoektModel.C09.Branches
namespace ZoektModel.C09
open ZoektModel

/-- `fromSizedDeltas (toSizedDeltas l) = l` for *every* list of uint32 — monotone or not (wrap-around deltas), across
    every varint length. (`l.length < 2^64`: the size prefix is a uint64.) -/
theorem deltas_roundtrip (l : List UInt32) (hl : l.length < 2 ^ 64) :
    fromSizedDeltas (toSizedDeltas l) = some l := by
  unfold fromSizedDeltas
  rw [varints_toSizedDeltas l hl]
  simp [undelta_deltaNats]

/-- the 16-bit variant used for the per-document repository index of compound shards -/
theorem deltas16_roundtrip (l : List UInt16) (hl : l.length < 2 ^ 64) :
    fromSizedDeltas16 (toSizedDeltas16 l) = some l := by
  unfold fromSizedDeltas16 toSizedDeltas16
  rw [varints_put _ _ hl]
  have := varints_deltasEnc16 l 0 []
  simp [varints_nil] at this
  simp [this, undelta16_deltaNats16]

/-- `fromDeltas` (posting lists have no size prefix) inverts the delta encoding -/
theorem rawdeltas_roundtrip (l : List UInt32) : fromDeltas (deltasEnc l 0) = some l := by
  unfold fromDeltas
  have := varints_deltasEnc l 0 []
  simp [varints_nil] at this
  simp [this, undelta_deltaNats]

/-- `unmarshalDocSections (marshalDocSections secs) = secs` for every list of sections -/
theorem docsections_roundtrip (secs : List Sec) (hl : 2 * secs.length < 2 ^ 64) :
    unmarshalDocSections (marshalDocSections secs) = some secs := by
  unfold unmarshalDocSections marshalDocSections
  rw [varints_toSizedDeltas _ (by rw [flattenSecs_length]; exact hl)]
  simp [unpair_deltaNats]

/-- compound sections: item `i`, cut with `relativeIndex` from the concatenated data, is the item that was written —
    for every item list, at every file offset (empty items, the last item, a single item included) -/
theorem compound_items_roundtrip (off : Nat) (items : List Bytes) (i : Nat) (hi : i < items.length) :
    readItem (writeCompound off items) i = items.getD i [] :=
  readItem_write off items i hi

/-- category byte: `decodeCategory (encode c) = c` for every category `encode` accepts -/
theorem category_roundtrip (c k : Nat) (h : encodeCategory c = some k) : decodeCategory k = c := by
  unfold encodeCategory at h
  split at h <;> first | (injection h with h; subst h; rfl) | simp at h

/-- one varint: `Uvarint (PutUvarint n ++ rest)` gives back `n` and continues with `rest` (all n < 2^64) -/
theorem uvarint_roundtrip (n : Nat) (rest : Bytes) (hn : n < 2 ^ 64) :
    varints (putUvarint n ++ rest) = (varints rest).map (n :: ·) :=
  varints_put n rest hn

/-! ### the composition: Add* → Write → read -/

/-- the per-document clauses of the statement that `C09_roundtrip_partial` proves (everything `checkDoc` demands except the
    rune-offset sections and the symbol metadata table) -/
def fieldsOk (repo : Repo) (d : Doc) (o : DocOut) : Prop :=
  o.name = d.name ∧
  (rejected d = true → placeholderOk d o.content = true ∧ o.sections = []) ∧
  (rejected d = false → o.content = d.content) ∧
  o.branches = repo.branches.filter (d.branches.contains ·) ∧
  o.checksum = be 8 (crc64 o.content).toNat ∧
  o.language = expectLanguage d ∧
  (d.category ≠ 0 → o.category = d.category) ∧
  o.subRepoPath = d.subRepoPath ∧
  o.sections = (effective d).symbols

/-- size facts of a shard below the format's limits (4 GiB file, 2^32 documents) -/
structure Small (repo : Repo) (docs : List Doc) (b : SB) : Prop where
  ndocs : docs.length < 2 ^ 32
  paths : (subRepoPaths repo).length < 2 ^ 32
  runeSecs : 2 * b.runeDocSections.length < 2 ^ 64
  syms : ∀ d ∈ docs, 2 * (effective d).symbols.length < 2 ^ 64 ∧ ∀ p ∈ (effective d).symbols, p.1 < 2 ^ 32 ∧ p.2 < 2 ^ 32

theorem rejected_iff (d : Doc) : rejected d = true ↔ effSkip d ≠ 0 := by
  unfold rejected effSkip
  by_cases h1 : d.category = 0 ∧ d.content.contains 0 = true
  · have hm : 0 ∈ d.content := by simpa using h1.2
    simp [h1, hm, skipBinary]
  · rw [if_neg h1]
    constructor
    · intro h
      simp only [Bool.or_eq_true, Bool.and_eq_true, decide_eq_true_eq] at h
      rcases h with h | h
      · exact h
      · exact absurd h h1
    · intro h
      simp [h]

theorem effective_rejected (d : Doc) (h : rejected d = true) :
    placeholderOk d (effective d).content = true ∧ (effective d).symbols = [] := by
  have hs := (rejected_iff d).1 h
  unfold effective
  rw [if_pos hs]
  refine ⟨?_, rfl⟩
  unfold placeholderOk effSkip
  by_cases h1 : d.category = 0 ∧ d.content.contains 0 = true
  · have hm : 0 ∈ d.content := by simpa using h1.2
    simp [h1, hm]
  · unfold effSkip at hs
    rw [if_neg h1] at hs ⊢
    simp [hs]

theorem effective_accepted (d : Doc) (h : rejected d = false) : (effective d).content = d.content := by
  have hs : ¬ effSkip d ≠ 0 := by
    intro hc
    have := (rejected_iff d).2 hc
    rw [h] at this
    cases this
  unfold effective
  rw [if_neg hs]
  split <;> rfl

theorem effective_language (d : Doc) : (effective d).language = expectLanguage d := by
  unfold effective
  split
  · rfl
  · split <;> rfl

theorem effective_category (d : Doc) (h : d.category ≠ 0) : (effective d).category = d.category := by
  have : effCategory d = d.category := by unfold effCategory; rw [if_neg h]
  unfold effective
  split
  · exact this
  · split <;> exact this

theorem encodeCategory_lt (c k : Nat) (h : encodeCategory c = some k) : k < 256 := by
  unfold encodeCategory at h
  split at h <;> first | (injection h with h; subst h; decide) | simp at h

instance : Inhabited DocOut := ⟨⟨[], [], [], [], [], 0, [], [], [], []⟩⟩

theorem mapM_some {α β} (f : α → Option β) (g : α → β) (l : List α) (h : ∀ a ∈ l, f a = some (g a)) :
    l.mapM f = some (l.map g) := by
  induction l with
  | nil => rfl
  | cons a r ih =>
    rw [List.mapM_cons, h a (by simp), ih (fun x hx => h x (by simp [hx]))]
    rfl

/-- **C09_roundtrip_partial.** For every repository (≤ 64 distinct branches) and every document list that `ShardBuilder.Add`
    accepts, reading the written sections back gives, document by document and in order: the same name; the same content,
    or for a rejected document (skip reason given, or NUL content of an unclassified file) the "NOT-INDEXED" explanation
    and no symbols; exactly the repository's branches the document is on; the crc64 of the stored content; the language;
    the category; the sub-repository path; and the byte sections of its symbols sorted as `Add` sorted them.
    Not covered here (validated by correspondence and the Go oracles): rune-offset sections, the symbol metadata table,
    posting lists, and the byte-level TOC. -/
theorem C09_roundtrip_partial (repo : Repo) (docs : List Doc) (b : SB) (mj rj : Bytes)
    (hadd : SB.addAll repo (SB.new PB.fresh PB.fresh) docs = .ok b)
    (hn : repo.branches.Nodup) (hl : repo.branches.length ≤ 64) (hs : Small repo docs b) :
    ∃ outs, readAll (b.write mj rj).2 repo b.languageMap = some outs ∧ outs.length = docs.length ∧
      ∀ (i : Nat) (d : Doc) (o : DocOut), docs[i]? = some d → outs[i]? = some o → fieldsOk repo d o := by
  obtain ⟨recs, hlen, hrec, hrep⟩ := addAll_rep repo docs _ b [] (Rep.new _ _) hadd
  simp only [List.nil_append] at hrep
  -- every record comes from its document
  have hof : ∀ i (hi : i < docs.length), RecOf repo docs[i] (recs.getD i default) := by
    intro i hi
    have hi' : i < recs.length := by omega
    apply hrec i hi docs[i] _ (by simp [List.getElem?_eq_getElem hi])
    simp [List.getD_eq_getElem?_getD, List.getElem?_eq_getElem hi']
  have hbound : Bounded b recs := by
    refine ⟨by rw [hlen]; exact hs.ndocs, hs.runeSecs, ?_⟩
    intro r hr
    obtain ⟨i, hi, rfl⟩ := List.getElem_of_mem hr
    have hid : i < docs.length := by omega
    have ho := hof i hid
    have hg : recs.getD i default = recs[i] := by simp [List.getD_eq_getElem?_getD, List.getElem?_eq_getElem hi]
    rw [hg] at ho
    have hsy := hs.syms docs[i] (List.getElem_mem hid)
    refine ⟨(branches_roundtrip _ _ _ hn hl ho.mask).2, ?_, encodeCategory_lt _ _ ho.cat, ?_, ?_⟩
    · have := (indexOf?_some _ _ _ ho.subIdx []).1
      have := hs.paths
      omega
    · rw [ho.secs]; exact hsy.1
    · rw [ho.secs]; exact hsy.2
  have hnum : numDocs (b.write mj rj).2 = recs.length := by
    obtain ⟨_, _, _, _, _, _, f4, _⟩ := write_fields b mj rj
    unfold numDocs
    rw [f4, readBE8_writeBE8 _ (by
      intro n hn'
      rw [hrep.masks] at hn'
      simp at hn'
      obtain ⟨q, hq, rfl⟩ := hn'
      exact (hbound.each q hq).1), hrep.masks]
    simp
  let g : Nat → DocOut := fun i => (readDoc (b.write mj rj).2 repo b.languageMap i).getD default
  have hg : ∀ i ∈ List.range recs.length, readDoc (b.write mj rj).2 repo b.languageMap i = some (g i) := by
    intro i hi
    obtain ⟨o, ho, _⟩ := readDoc_rec b recs hrep hbound mj rj repo i (by simpa using hi)
    simp [g, ho]
  refine ⟨(List.range recs.length).map g, ?_, by simp [hlen], ?_⟩
  · unfold readAll
    rw [hnum]
    exact mapM_some _ g _ hg
  · intro i d o hd ho
    have hi : i < docs.length := by
      by_cases hc : i < docs.length
      · exact hc
      · simp [List.getElem?_eq_none (Nat.le_of_not_lt hc)] at hd
    have hi' : i < recs.length := by omega
    have hdi : docs[i] = d := by simpa [List.getElem?_eq_getElem hi] using hd
    have hoi : g i = o := by simpa [List.getElem?_eq_getElem, hi'] using ho
    obtain ⟨o', ho', hname, hcontent, hsecs, hsum, hcat, hsub, hbr, hlang⟩ := readDoc_rec b recs hrep hbound mj rj repo i hi'
    have : g i = o' := by simp [g, ho']
    rw [this] at hoi
    subst hoi
    have hr := hof i hi
    rw [hdi] at hr
    refine ⟨by rw [hname, hr.name], ?_, ?_, ?_, ?_, ?_, ?_, ?_, ?_⟩
    · intro hrej
      have := effective_rejected d hrej
      rw [hcontent, hr.content, hsecs, hr.secs]
      exact this
    · intro hacc
      rw [hcontent, hr.content, effective_accepted d hacc]
    · rw [hbr, (branches_roundtrip _ _ _ hn hl hr.mask).1]
    · rw [hsum, hcontent]
    · rw [hlang, hr.lang, effective_language]
    · intro hc
      rw [hcat, category_roundtrip _ _ hr.cat, effective_category d hc]
    · rw [hsub, (indexOf?_some _ _ _ hr.subIdx []).2]
    · rw [hsecs, hr.secs]

/-! ### non-vacuity -/

example : fromSizedDeltas (toSizedDeltas [5, 300, 2, 4294967295, 0]) = some [5, 300, 2, 4294967295, 0] :=
  deltas_roundtrip _ (by decide)

example : readItem (writeCompound 7 [[1, 2], [], [3]]) 2 = [3] :=
  compound_items_roundtrip 7 [[1, 2], [], [3]] 2 (by decide)

example : unmarshalDocSections (marshalDocSections [⟨3, 9⟩, ⟨9, 200⟩]) = some [⟨3, 9⟩, ⟨9, 200⟩] :=
  docsections_roundtrip _ (by decide)

example : encodeCategory 8 = some 7 ∧ decodeCategory 7 = 8 := by decide

/-- a concrete instance of the hypotheses of `C09_roundtrip_partial`: two branches, one sub-repository, two documents -/
def exRepo : Repo := ⟨[[109], [100]], [[115]]⟩
def exDocs : List Doc := [
  { name := [97], content := [104, 105], branches := [[100]], subRepoPath := [], language := [71], langHint := [], category := 1,
    catHint := 1, skip := 0, symbols := [(0, 1)], symMeta := [⟨[102], [], []⟩] },
  { name := [98], content := [], branches := [[109], [100]], subRepoPath := [115], language := [], langHint := [80], category := 2,
    catHint := 1, skip := 0, symbols := [], symMeta := [] }]

example : (match SB.addAll exRepo (SB.new PB.fresh PB.fresh) exDocs with | .ok _ => true | _ => false) = true := by decide
example : exRepo.branches.Nodup ∧ exRepo.branches.length ≤ 64 := by decide
example : rejected ⟨[98], [0, 1], [], [], [], [], 0, 1, 0, [], []⟩ = true := by decide

end ZoektModel.C09
