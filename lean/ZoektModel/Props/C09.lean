/-
C09 — A written shard reads back every document and all metadata.  Property theorems.
(The model is ZoektModel/C09/{Coders,Postings,Model}.lean, the statement ZoektModel/C09/Spec.lean.)
-/
import ZoektModel.C09.Lemmas
namespace ZoektModel.C09
open ZoektModel

/-- `fromSizedDeltas (toSizedDeltas l) = l` for *every* list of uint32 — monotone or not (wrap-around deltas), across
    every varint length. (`l.length < 2^64`: the size prefix is a uint64.) -/
theorem deltas_roundtrip (l : List UInt32) (hl : l.length < 2 ^ 64) :
    fromSizedDeltas (toSizedDeltas l) = some l := by
  unfold fromSizedDeltas
  rw [varints_toSizedDeltas l hl]
  simp [undelta_deltaNats]

/-- the 16-bit variant used for the per-document repository index of compound shards -/
theorem deltas16_roundtrip (l : List UInt16) (hl : l.length < 2 ^ 64) :
    fromSizedDeltas16 (toSizedDeltas16 l) = some l := by
  unfold fromSizedDeltas16 toSizedDeltas16
  rw [varints_put _ _ hl]
  have := varints_deltasEnc16 l 0 []
  simp [varints_nil] at this
  simp [this, undelta16_deltaNats16]

/-- `fromDeltas` (posting lists have no size prefix) inverts the delta encoding -/
theorem rawdeltas_roundtrip (l : List UInt32) : fromDeltas (deltasEnc l 0) = some l := by
  unfold fromDeltas
  have := varints_deltasEnc l 0 []
  simp [varints_nil] at this
  simp [this, undelta_deltaNats]

/-- `unmarshalDocSections (marshalDocSections secs) = secs` for every list of sections -/
theorem docsections_roundtrip (secs : List Sec) (hl : 2 * secs.length < 2 ^ 64) :
    unmarshalDocSections (marshalDocSections secs) = some secs := by
  unfold unmarshalDocSections marshalDocSections
  rw [varints_toSizedDeltas _ (by rw [flattenSecs_length]; exact hl)]
  simp [unpair_deltaNats]

/-- compound sections: item `i`, cut with `relativeIndex` from the concatenated data, is the item that was written —
    for every item list, at every file offset (empty items, the last item, a single item included) -/
theorem compound_items_roundtrip (off : Nat) (items : List Bytes) (i : Nat) (hi : i < items.length) :
    readItem (writeCompound off items) i = items.getD i [] :=
  readItem_write off items i hi

/-- category byte: `decodeCategory (encode c) = c` for every category `encode` accepts -/
theorem category_roundtrip (c k : Nat) (h : encodeCategory c = some k) : decodeCategory k = c := by
  unfold encodeCategory at h
  split at h <;> first | (injection h with h; subst h; rfl) | simp at h

/-- one varint: `Uvarint (PutUvarint n ++ rest)` gives back `n` and continues with `rest` (all n < 2^64) -/
theorem uvarint_roundtrip (n : Nat) (rest : Bytes) (hn : n < 2 ^ 64) :
    varints (putUvarint n ++ rest) = (varints rest).map (n :: ·) :=
  varints_put n rest hn

/-! ### non-vacuity -/

example : fromSizedDeltas (toSizedDeltas [5, 300, 2, 4294967295, 0]) = some [5, 300, 2, 4294967295, 0] :=
  deltas_roundtrip _ (by decide)

example : readItem (writeCompound 7 [[1, 2], [], [3]]) 2 = [3] :=
  compound_items_roundtrip 7 [[1, 2], [], [3]] 2 (by decide)

example : unmarshalDocSections (marshalDocSections [⟨3, 9⟩, ⟨9, 200⟩]) = some [⟨3, 9⟩, ⟨9, 200⟩] :=
  docsections_roundtrip _ (by decide)

example : encodeCategory 8 = some 7 ∧ decodeCategory 7 = 8 := by decide

end ZoektModel.C09
