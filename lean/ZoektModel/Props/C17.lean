/-
C17 — Tombstoned repositories and paths stay hidden.  Property theorems.

Statement (properties.jsonl): a repository marked as tombstoned, or a file path recorded as tombstoned for a repository,
never appears in search results or repository listings, for any query.  Setting or clearing a repository tombstone is
idempotent, affects only that repository, survives reloading the shard, and clearing it restores the previous results;
an operation that reports success has taken effect.
Quantifier: all compound shards, all sequences of set/unset operations on their repositories, all queries, and failures
of the sidecar rename.
-/
import ZoektModel.C17.Lemmas
namespace ZoektModel.C17

/-! ## the set/unset state machine on the sidecar -/

theorem flip_flip (l : List Repo) (id : Nat) (t : Bool) : flip (flip l id t) id t = flip l id t := by
  unfold flip
  rw [List.map_map]
  apply List.map_congr_left
  intro r _
  by_cases h : r.id = id <;> simp [h]

/-- **idempotent**: doing the same operation twice leaves the disk state of doing it once -/
theorem set_idempotent (s : Shard) (id : Nat) (t : Bool) :
    (setTombstone (setTombstone s id t true).1 id t true).1 = (setTombstone s id t true).1 := by
  simp [setTombstone, Shard.load, flip_flip]

/-- **affects only that repository**: identities, names, file tombstones and order of all repositories are unchanged,
    the flag of every repository with another ID is unchanged, and neither the shard's own metadata nor its documents change -/
theorem set_isolated (s : Shard) (id : Nat) (t ok : Bool) :
    let s' := (setTombstone s id t ok).1
    s'.base = s.base ∧ s'.docs = s.docs ∧ s'.load.length = s.load.length ∧
    ∀ (i : Nat) (r : Repo), s.load[i]? = some r →
      ∃ r' : Repo, s'.load[i]? = some r' ∧ r'.id = r.id ∧ r'.name = r.name ∧ r'.ftombs = r.ftombs ∧ (r.id ≠ id → r' = r) := by
  cases ok
  · simp only [setTombstone]
    refine ⟨rfl, rfl, rfl, ?_⟩
    intro i r hr
    exact ⟨r, hr, rfl, rfl, rfl, fun _ => rfl⟩
  · simp only [setTombstone, if_true, Shard.load, Option.getD_some]
    refine ⟨trivial, trivial, by simp [flip], ?_⟩
    intro i r hr
    simp only [flip, List.getElem?_map]
    have : (s.side.getD s.base)[i]? = some r := hr
    rw [this]
    by_cases h : r.id = id <;> simp [h]

/-- **survives reloading**: after a successful call, loading the shard again (`parseMetadata`: sidecar first) yields
    the flipped metadata — also when a sidecar existed before, and whatever the embedded metadata says -/
theorem survives_reload (s : Shard) (id : Nat) (t : Bool) :
    (setTombstone s id t true).1.load = flip s.load id t ∧
    ∀ r ∈ (setTombstone s id t true).1.load, r.id = id → r.tomb = t := by
  refine ⟨by simp [setTombstone, Shard.load], ?_⟩
  intro r hr hid
  simp only [setTombstone, if_true, Shard.load, Option.getD_some, flip, List.mem_map] at hr
  obtain ⟨r0, _, rfl⟩ := hr
  by_cases h : r0.id = id
  · simp [h]
  · simp [h] at hid

/-- **success ⇒ effect** (for every outcome of the sidecar rename): if the call returns nil, every repository with that
    ID carries the requested flag on disk -/
theorem success_means_effect (s : Shard) (id : Nat) (t renameOk : Bool)
    (h : (setTombstone s id t renameOk).2 = true) :
    ∀ r ∈ (setTombstone s id t renameOk).1.load, r.id = id → r.tomb = t := by
  cases renameOk
  · simp [setTombstone] at h
  · exact (survives_reload s id t).2

/-- a reported failure has changed nothing -/
theorem failure_means_no_effect (s : Shard) (id : Nat) (t renameOk : Bool)
    (h : (setTombstone s id t renameOk).2 = false) : (setTombstone s id t renameOk).1 = s := by
  cases renameOk <;> simp_all [setTombstone]

/-- **the statement was false of the code before the fix**: with a failing rename `setTombstone` reported success
    and the repository stayed searchable (witness replayed against the real code: corpus/C17) -/
theorem success_means_effect_unfixed_false :
    ∃ (s : Shard) (id : Nat), (setTombstoneUnfixed s id true false).2 = true ∧
      ∃ r ∈ (setTombstoneUnfixed s id true false).1.load, r.id = id ∧ r.tomb = false :=
  ⟨⟨[⟨1, 0, false, []⟩], none, []⟩, 1, rfl, ⟨1, 0, false, []⟩, by simp [setTombstoneUnfixed, Shard.load], rfl, rfl⟩

/-- **clearing restores**: set then unset of a repository that was alive gives back the metadata, hence (below) the results -/
theorem unset_restores (s : Shard) (id : Nat) (h : ∀ r ∈ s.load, r.id = id → r.tomb = false) :
    (setTombstone (setTombstone s id true true).1 id false true).1.load = s.load := by
  simp only [setTombstone, if_true, Shard.load, Option.getD_some, flip, List.map_map]
  conv => rhs; rw [← List.map_id (s.side.getD s.base)]
  apply List.map_congr_left
  intro r hr
  by_cases hid : r.id = id
  · have := h r hr hid
    cases r; simp_all
  · simp [hid]

/-! ### all histories -/

def lastOpT (ops : List TOp) (id : Nat) : Option Bool :=
  lastOp (ops.map fun o => (o.set, o.id, o.renameOk)) id

theorem lastOp_acc (ops : List (Bool × Nat × Bool)) (id : Nat) (acc : Option Bool) :
    ops.foldl (lastStep id) acc = (lastOp ops id).or acc := by
  induction ops generalizing acc with
  | nil => simp [lastOp]
  | cons o ops ih =>
    simp only [lastOp, List.foldl_cons]
    rw [ih, ih (acc := lastStep id none o)]
    cases lastOp ops id with
    | some b => simp
    | none =>
      simp only [Option.none_or, lastStep]
      split <;> simp

/-- **the state machine over every history**: after any sequence of set/unset calls (any IDs, known or not, any rename
    outcomes) a repository is tombstoned on disk iff the last call on its ID whose rename succeeded was a set; with no such
    call it is as before.  Nothing else about the repositories changes. -/
theorem history_state (ops : List TOp) (s : Shard) :
    (runOps s ops).load = s.load.map fun r => { r with tomb := (lastOpT ops r.id).getD r.tomb } := by
  induction ops generalizing s with
  | nil =>
    simp only [runOps, List.foldl_nil, lastOpT, lastOp, List.map_nil, Option.getD_none]
    conv => lhs; rw [← List.map_id s.load]
    apply List.map_congr_left
    intro r _; cases r; rfl
  | cons o ops ih =>
    have hrun : runOps s (o :: ops) = runOps (setTombstone s o.id o.set o.renameOk).1 ops := by
      simp [runOps]
    rw [hrun, ih]
    have hlast : ∀ id, lastOpT (o :: ops) id =
        (lastOpT ops id).or (if o.id = id && o.renameOk then some o.set else none) := by
      intro id
      simp only [lastOpT, List.map_cons, lastOp, List.foldl_cons]
      rw [lastOp_acc]
      simp [lastOp, lastStep]
    cases hok : o.renameOk
    · simp only [setTombstone, hok]
      apply List.map_congr_left
      intro r _
      rw [hlast]; cases lastOpT ops r.id <;> simp [hok]
    · simp only [setTombstone, hok, if_true, Shard.load, Option.getD_some, flip, List.map_map]
      apply List.map_congr_left
      intro r _
      simp only [Function.comp]
      rw [hlast]
      by_cases hid : r.id = o.id
      · have hid' : o.id = r.id := hid.symm
        simp [hid, hok]
      · have hid' : ¬ o.id = r.id := fun h => hid h.symm
        simp [hid, hid', hok]

/-! ## hidden from Search and List, for every query -/

theorem live_eq_not_hidden (repos : List Repo) (d : Doc) : live repos d = !hidden repos d := by
  unfold live hidden
  cases repos[d.repo]? <;> simp

/-- **Search never returns a tombstoned repository's document or a file-tombstoned path**, whatever the query denotes -/
theorem search_hides (repos : List Repo) (docs : List Doc) (m : Doc → Bool) :
    ∀ d ∈ search repos docs m, hidden repos d = false ∧ d ∈ docs ∧ m d = true := by
  intro d hd
  simp only [search, List.mem_filter, Bool.and_eq_true, live_eq_not_hidden, Bool.not_eq_true'] at hd
  exact ⟨hd.2.1, hd.1, hd.2.2⟩

/-- … and returns every matching document that is not hidden (tombstones remove nothing else) -/
theorem search_complete (repos : List Repo) (docs : List Doc) (m : Doc → Bool) (d : Doc)
    (hd : d ∈ docs) (hm : m d = true) (hh : hidden repos d = false) : d ∈ search repos docs m := by
  simp [search, List.mem_filter, live_eq_not_hidden, hd, hm, hh]

/-- **List never lists a tombstoned repository**: for constant queries, repository predicates (including the
    `simplifyMultiRepo` shortcut to `Const`) and document queries (`List` through `Search`) -/
theorem list_hides (repos : List Repo) (docs : List Doc) (q : Q) :
    ∀ i ∈ list repos docs q, ∃ r, repos[i]? = some r ∧ r.tomb = false := by
  intro i hi
  unfold list at hi
  split at hi
  · simp at hi
  · simp only [List.mem_filter, List.mem_range] at hi
    cases h : repos[i]? with
    | none => simp [h] at hi
    | some r => simp [h] at hi; exact ⟨r, rfl, hi.2⟩
  · simp only [List.mem_filter, List.mem_range] at hi
    cases h : repos[i]? with
    | none => simp [h] at hi
    | some r => simp [h] at hi; exact ⟨r, rfl, hi.2.1⟩

/-- the executable statements the driver evaluates on the implementation hold of the model, for all inputs -/
theorem C17_checkP (repos : List Repo) (docs : List Doc) (m : Doc → Bool) (q : Q) :
    checkSearch repos (docs.filter m) (search repos docs m) = true ∧ checkList repos (list repos docs q) = true := by
  constructor
  · simp only [checkSearch, Bool.and_eq_true, List.all_eq_true, List.contains_eq_mem, decide_eq_true_eq,
      Bool.or_eq_true, Bool.not_eq_true']
    refine ⟨⟨fun d hd => (search_hides repos docs m d hd).1, fun d hd => ?_⟩, fun d hd => ?_⟩
    · have := search_hides repos docs m d hd
      exact List.mem_filter.mpr ⟨this.2.1, this.2.2⟩
    · rw [List.mem_filter] at hd
      cases hh : hidden repos d
      · right; exact search_complete repos docs m d hd.1 hd.2 hh
      · left; rfl
  · simp only [checkList, List.all_eq_true]
    intro i hi
    obtain ⟨r, hr, ht⟩ := list_hides repos docs q i hi
    simp [hr, ht]

/-- **a tombstone removes exactly that repository's documents from every result** (results of all other repositories
    are unchanged: isolation at the level of search results) -/
theorem search_after_set (repos : List Repo) (docs : List Doc) (m : Doc → Bool) (id : Nat) :
    search (flip repos id true) docs m =
      (search repos docs m).filter fun d => (repos[d.repo]?).all fun r => r.id != id := by
  simp only [search, List.filter_filter]
  apply List.filter_congr
  intro d _
  simp only [live, flip, List.getElem?_map]
  cases h : repos[d.repo]? with
  | none => simp
  | some r =>
    by_cases hid : r.id = id
    · simp [hid]
    · simp [hid]

/-- **clearing restores the previous results**: set then unset of an alive repository gives every query its old answer -/
theorem search_restored (s : Shard) (id : Nat) (h : ∀ r ∈ s.load, r.id = id → r.tomb = false) (m : Doc → Bool) (q : Q) :
    let s' := (setTombstone (setTombstone s id true true).1 id false true).1
    search s'.load s'.docs m = search s.load s.docs m ∧ list s'.load s'.docs q = list s.load s.docs q := by
  intro s'
  have h1 : s'.load = s.load := unset_restores s id h
  have h2 : s'.docs = s.docs := by simp [s', setTombstone]
  rw [h1, h2]; exact ⟨rfl, rfl⟩

set_option linter.unusedSimpArgs false in
/-- **`List` with a repository predicate returns exactly the alive repositories that satisfy it** — on each of the three
    paths of `simplifyMultiRepo` (all alive repositories match → `Const true` shortcut; some match → `List` through `Search`,
    repositories found by name; none matches → `Const false`), for shards in which names are unique and every alive
    repository has a live document (`ListWF`; `index.Merge` drops empty repositories). -/
theorem list_repoPred_exact (repos : List Repo) (docs : List Doc) (hwf : ListWF repos docs) (p : Repo → Bool) :
    list repos docs (.repoPred p) = listSpec repos p := by
  by_cases h1 : ((repos.filter fun r => !r.tomb).filter p).length = (repos.filter fun r => !r.tomb).length
  · -- all alive repositories match: `Const true`
    simp only [list, simplify, h1, if_true, listSpec]
    have hall := (filter_length_eq_iff p _).mp h1
    apply List.filter_congr
    intro i _
    cases hr : repos[i]? with
    | none => simp
    | some r =>
      simp only [Option.any_some]
      cases ht : r.tomb
      · have := hall r (by simp only [List.mem_filter]; exact ⟨List.mem_of_getElem? hr, by simp [ht]⟩)
        simp [this]
      · simp
  · by_cases h2 : ((repos.filter fun r => !r.tomb).filter p).length > 0
    · -- some match: through Search, found by name
      simp only [list, simplify, h1, h2, if_true, if_false, listSpec]
      apply List.filter_congr
      intro i _
      cases hr : repos[i]? with
      | none => simp
      | some r =>
        simp only [Option.any_some]
        cases ht : r.tomb
        · simp only [Bool.not_false, Bool.true_and]
          cases hp : p r
          · -- not matching: its name is not found
            rw [Bool.eq_false_iff]
            intro hfound
            simp only [List.contains_eq_mem, List.mem_filterMap, decide_eq_true_eq] at hfound
            obtain ⟨d, hd, hname⟩ := hfound
            simp only [search, List.mem_filter, Bool.and_eq_true, matchesQ] at hd
            simp only [repoNameOf] at hname
            cases hrd : repos[d.repo]? with
            | none => simp [hrd] at hname
            | some r' =>
              simp [hrd] at hname hd
              have := hwf.names d.repo i r' r hrd hr hname
              subst this
              rw [hr] at hrd; injection hrd with hrd; subst hrd
              rw [hp] at hd; exact absurd hd.2.2 (by simp)
          · obtain ⟨d, hd, hdi, hlive⟩ := hwf.hasDoc i r hr ht
            simp only [List.contains_eq_mem, List.mem_filterMap, decide_eq_true_eq]
            refine ⟨d, ?_, by simp [repoNameOf, hdi, hr]⟩
            simp [search, List.mem_filter, hd, hlive, matchesQ, hdi, hr, hp]
        · simp
    · -- none matches: `Const false`
      simp only [list, simplify, h1, h2, if_false, listSpec]
      have h0 : ((repos.filter fun r => !r.tomb).filter p) = [] := by
        rw [← List.length_eq_zero_iff]; omega
      symm
      rw [List.filter_eq_nil_iff]
      intro i _
      cases hr : repos[i]? with
      | none => simp
      | some r =>
        simp only [Option.any_some, Bool.and_eq_true, Bool.not_eq_true', not_and]
        intro ht hp
        have : r ∈ (repos.filter fun r => !r.tomb).filter p := by
          simp only [List.mem_filter]
          exact ⟨⟨List.mem_of_getElem? hr, by simp [ht]⟩, hp⟩
        rw [h0] at this; simp at this



/-- **a tombstone on one repository changes `List` for that repository only**: for a repository predicate the listing after `SetTombstone(id)` is the listing before without the repositories
    with that ID -/
theorem list_after_set (repos : List Repo) (docs : List Doc) (hwf : ListWF repos docs) (p : Repo → Bool)
    (id : Nat) :
    list (flip repos id true) docs (.repoPred p) =
      (list repos docs (.repoPred p)).filter fun i => (repos[i]?).all fun r => r.id != id := by
  rw [list_repoPred_exact _ _ (listWF_flip repos docs hwf id), list_repoPred_exact _ _ hwf]
  simp only [listSpec, List.filter_filter, flip, List.length_map]
  apply List.filter_congr
  intro i _
  simp only [List.getElem?_map]
  cases hr : repos[i]? with
  | none => simp
  | some r =>
    by_cases h1 : r.id = id
    · simp [h1]
    · simp [h1]


/-- **survives reloading, also when the sidecar cannot be read**: a (re)load either fails or yields exactly the sidecar-first
    metadata; in particular after a successful `SetTombstone` every load that succeeds — whatever read faults occur —
    shows the repository tombstoned, so it stays out of Search and List (`search_hides`, `list_hides`) -/
theorem reload_under_read_fault (s : Shard) (id : Nat) (t readOk : Bool) :
    checkLoad s.base s.side (s.loadIO readOk) = true ∧
    ∀ l, (setTombstone s id t true).1.loadIO readOk = some l → ∀ r ∈ l, r.id = id → r.tomb = t := by
  constructor
  · cases readOk <;> simp [Shard.loadIO, checkLoad, Shard.load]
  · intro l hl
    cases readOk
    · simp [Shard.loadIO] at hl
    · simp only [Shard.loadIO, if_true, Option.some.injEq] at hl
      subst hl
      exact (survives_reload s id t).2

/-! ## searches with a per-repository limit (`ShardRepoMaxMatchCount`) -/

/-- **a per-repository limit never lets a hidden document through**: whatever the limit, the counter state and the
    query, every result of the limited search is a matching document that is neither in a tombstoned repository nor a
    file-tombstoned path — in particular the document the loop reaches after skipping the rest of a repository -/
theorem searchLim_hides (repos : List Repo) (limit : Nat) (w : Doc → Option Nat) (docs : List Doc) (last cnt : Nat) :
    ∀ d ∈ searchLim repos limit w docs last cnt, hidden repos d = false ∧ d ∈ docs ∧ (w d).isSome = true := by
  induction docs generalizing last cnt with
  | nil => simp [searchLim]
  | cons x rest ih =>
    intro d hd
    simp only [searchLim] at hd
    split at hd
    · obtain ⟨h1, h2, h3⟩ := ih _ _ d hd
      exact ⟨h1, by simp [h2], h3⟩
    · rename_i hlive
      split at hd
      · obtain ⟨h1, h2, h3⟩ := ih _ _ d hd
        exact ⟨h1, by simp [h2], h3⟩
      · cases hw : w x with
        | none =>
          simp only [hw] at hd
          obtain ⟨h1, h2, h3⟩ := ih _ _ d hd
          exact ⟨h1, by simp [h2], h3⟩
        | some k =>
          simp only [hw, List.mem_cons] at hd
          rcases hd with rfl | hd
          · refine ⟨?_, by simp, by simp [hw]⟩
            have : live repos d = true := by simpa using hlive
            rw [live_eq_not_hidden] at this; simpa using this
          · obtain ⟨h1, h2, h3⟩ := ih _ _ d hd
            exact ⟨h1, by simp [h2], h3⟩

/-- without a limit the loop is the plain search -/
theorem searchLim_zero (repos : List Repo) (w : Doc → Option Nat) (docs : List Doc) (last cnt : Nat) :
    searchLim repos 0 w docs last cnt = search repos docs (fun d => (w d).isSome) := by
  induction docs generalizing last cnt with
  | nil => simp [searchLim, search]
  | cons x rest ih =>
    simp only [searchLim, search, List.filter_cons]
    cases hl : live repos x
    · simp [ih, search]
    · cases hw : w x <;> simp [ih, search]

/-- **the limit only thins out repositories**: every matching visible document is either returned or some other document
    of its repository is (unless the counter already stood at the limit for that repository when the loop started) -/
theorem searchLim_keeps_repo (repos : List Repo) (limit : Nat) (w : Doc → Option Nat) (docs : List Doc) (last cnt : Nat)
    (d : Doc) (hd : d ∈ docs) (hl : live repos d = true) (hm : (w d).isSome = true) :
    (∃ h ∈ searchLim repos limit w docs last cnt, h.repo = d.repo) ∨ (limit > 0 ∧ cnt ≥ limit ∧ d.repo = last) := by
  induction docs generalizing last cnt with
  | nil => simp at hd
  | cons x rest ih =>
    simp only [searchLim]
    rcases List.mem_cons.mp hd with rfl | hd'
    · simp only [hl, Bool.not_true, Bool.false_eq_true, if_false]
      split
      · rename_i h
        simp only [Bool.and_eq_true, decide_eq_true_eq, beq_iff_eq] at h
        exact Or.inr ⟨h.1.1, h.1.2, h.2⟩
      · obtain ⟨k, hk⟩ := Option.isSome_iff_exists.mp hm
        simp only [hk]
        exact Or.inl ⟨d, by simp, rfl⟩
    · split
      · exact ih _ _ hd'
      · split
        · exact ih _ _ hd'
        · cases hw : w x with
          | none =>
            simp only
            rcases ih x.repo (if last != x.repo then 0 else cnt) hd' with h | ⟨h1, h2, h3⟩
            · exact Or.inl h
            · right
              by_cases hne : last = x.repo
              · simp [hne] at h2; exact ⟨h1, h2, by rw [h3, hne]⟩
              · have : (last != x.repo) = true := by simpa using hne
                simp [this] at h2; omega
          | some k =>
            simp only
            rcases ih x.repo ((if last != x.repo then 0 else cnt) + k) hd' with ⟨h, hh, hr⟩ | ⟨_, _, h3⟩
            · exact Or.inl ⟨h, List.mem_cons_of_mem _ hh, hr⟩
            · exact Or.inl ⟨x, by simp, h3.symm⟩

/-- the executable statement for limited searches holds of the model -/
theorem C17_checkP_lim (repos : List Repo) (limit : Nat) (w : Doc → Option Nat) (docs : List Doc) :
    checkSearchLim repos (docs.filter fun d => (w d).isSome) (searchLim repos limit w docs 0 0) = true := by
  simp only [checkSearchLim, Bool.and_eq_true, List.all_eq_true, List.contains_eq_mem, decide_eq_true_eq,
    Bool.or_eq_true, Bool.not_eq_true', List.any_eq_true, beq_iff_eq]
  refine ⟨⟨fun d hd => (searchLim_hides repos limit w docs 0 0 d hd).1, fun d hd => ?_⟩, fun d hd => ?_⟩
  · have := searchLim_hides repos limit w docs 0 0 d hd
    exact List.mem_filter.mpr ⟨this.2.1, this.2.2⟩
  · rw [List.mem_filter] at hd
    cases hh : hidden repos d
    · right
      have hl : live repos d = true := by rw [live_eq_not_hidden, hh]; rfl
      rcases searchLim_keeps_repo repos limit w docs 0 0 d hd.1 hl hd.2 with h | ⟨h1, h2, _⟩
      · exact h
      · omega
    · left; rfl

/-! ## non-vacuity -/

def exRepos : List Repo := [⟨1, 10, false, []⟩, ⟨2, 11, false, [7]⟩, ⟨3, 12, false, []⟩]
def exDocs : List Doc := [⟨0, 5⟩, ⟨1, 6⟩, ⟨1, 7⟩, ⟨2, 8⟩]
def exShard : Shard := ⟨exRepos, none, exDocs⟩

example : search exShard.load exDocs (fun _ => true) = [⟨0, 5⟩, ⟨1, 6⟩, ⟨2, 8⟩] := by decide
example : search (setTombstone exShard 1 true true).1.load exDocs (fun _ => true) = [⟨1, 6⟩, ⟨2, 8⟩] := by decide
example : list (setTombstone exShard 1 true true).1.load exDocs (.repoPred fun r => r.name == 11 || r.name == 12) = [1, 2] := by decide
example : list (setTombstone exShard 1 true true).1.load exDocs (.repoPred fun r => r.name == 10) = [] := by decide
example : (runOps exShard [⟨true, 1, true⟩, ⟨true, 2, false⟩, ⟨false, 1, true⟩, ⟨true, 3, true⟩]).load.map (·.tomb) = [false, false, true] := by decide

/-- a limit of one match per repository: the rest of repository 1 is skipped, the tombstoned repository behind it stays hidden -/
example : searchLim [⟨1, 10, false, []⟩, ⟨2, 11, true, []⟩, ⟨3, 12, false, []⟩] 1 (fun _ => some 1)
    [⟨0, 5⟩, ⟨0, 6⟩, ⟨1, 7⟩, ⟨1, 8⟩, ⟨2, 9⟩] 0 0 = [⟨0, 5⟩, ⟨2, 9⟩] := by decide

end ZoektModel.C17
