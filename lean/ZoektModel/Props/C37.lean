/-
C37 — Symbol ranges derived from ctags are always valid.  Property theorems only; lemmas live in C37/Lemmas.lean.

Statement (properties.jsonl): symbol information derived from ctags output is always accepted by the shard
builder: the derived ranges are sorted, non-overlapping and inside the file, each covers exactly the symbol's
name on the reported line, and entries that cannot be placed are dropped instead of failing the build.
-/
import ZoektModel.C37.Lemmas
import ZoektModel.C37.Aligned
namespace ZoektModel.C37
open ZoektModel ZoektModel.Utf8

/-- invariant of the fold in `Convert` -/
def Inv (content : Bytes) (tags : List Entry) (st : St) : Prop :=
  WF content.length st.secs ∧ st.secs.length = st.syms.length ∧
  ∀ p ∈ st.secs.zip st.syms, coversName content tags p.1 p.2 = true

theorem step_inv (content : Bytes) (tags : List Entry) (st : St) (t : Entry) (ht : t ∈ tags)
    (h : Inv content tags st) : Inv content tags (step content (newLinesIndices content) st t) := by
  unfold step
  split
  · exact h
  · rename_i sec hloc
    split
    · exact h
    · rename_i i hov
      obtain ⟨hwf, hlen, hcov⟩ := h
      obtain ⟨h1, h2, h3, lo, hi, h4, h5, h6⟩ := locate_spec content t sec hloc
      refine ⟨insert_wf _ _ _ _ _ hwf h1 h2 hov, ?_, ?_⟩
      · have := overlaps_le_length _ _ _ _ hov
        simp [insertAt]; omega
      · intro p hp
        rcases zip_insertAt _ _ _ _ _ hlen p hp with rfl | hp
        · unfold coversName
          rw [List.any_eq_true]
          refine ⟨t, ht, ?_⟩
          simp [h3, h4, h5, h6]
        · exact hcov p hp

theorem fold_inv (content : Bytes) (tags : List Entry) (ts : List Entry) (hts : ∀ t ∈ ts, t ∈ tags)
    (st : St) (h : Inv content tags st) :
    Inv content tags (ts.foldl (step content (newLinesIndices content)) st) := by
  induction ts generalizing st with
  | nil => exact h
  | cons t ts ih =>
    simp only [List.foldl_cons]
    exact ih (fun x hx => hts x (by simp [hx])) _ (step_inv content tags st t (hts t (by simp)) h)

theorem convert_inv (content : Bytes) (tags : List Entry) : Inv content tags (convert content tags) :=
  fold_inv content tags tags (fun _ h => h) ⟨[], []⟩ ⟨⟨by simp, by simp⟩, rfl, by simp⟩

theorem pairwise_sortedDisjoint (l : List Sec) (h : l.Pairwise R) : sortedDisjoint l = true := by
  induction l with
  | nil => rfl
  | cons a t ih =>
    cases t with
    | nil => rfl
    | cons b r =>
      rw [List.pairwise_cons] at h
      simp only [sortedDisjoint, Bool.and_eq_true, decide_eq_true_eq]
      exact ⟨h.1 b (by simp), ih h.2⟩

theorem chainOk_eq (l : List Sec) : chainOk l = sortedDisjoint l := by
  induction l with
  | nil => rfl
  | cons a t ih =>
    cases t with
    | nil => rfl
    | cons b r => simp only [chainOk, sortedDisjoint, ih]

theorem lastStop_le (n : Nat) (l : List Sec) (h : ∀ x ∈ l, x.start ≤ x.stop ∧ x.stop ≤ n) : lastStop l ≤ n := by
  induction l with
  | nil => simp [lastStop]
  | cons a t ih =>
    cases t with
    | nil => simpa [lastStop] using (h a (by simp)).2
    | cons b r =>
      simp only [lastStop]
      exact ih (fun x hx => h x (by simp [hx]))

/-- **C37, sorted / disjoint / inside the file** -/
theorem convert_sorted_disjoint (content : Bytes) (tags : List Entry) :
    sortedDisjoint (convert content tags).secs = true ∧
    allWithin content.length (convert content tags).secs = true := by
  obtain ⟨⟨hp, hb⟩, _, _⟩ := convert_inv content tags
  refine ⟨pairwise_sortedDisjoint _ hp, ?_⟩
  unfold allWithin
  rw [List.all_eq_true]
  intro x hx
  simpa using hb x hx

/-- **C37, each range covers exactly the symbol's name on the reported line; metadata stays parallel** -/
theorem convert_covers_name (content : Bytes) (tags : List Entry) :
    (convert content tags).secs.length = (convert content tags).syms.length ∧
    ∀ p ∈ (convert content tags).secs.zip (convert content tags).syms,
      coversName content tags p.1 p.2 = true := by
  obtain ⟨_, hl, hc⟩ := convert_inv content tags
  exact ⟨hl, hc⟩

/-- second invariant of the fold: every section boundary is a rune start of the content (names valid UTF-8) -/
def InvS (content : Bytes) (st : St) : Prop :=
  ∀ s ∈ st.secs, s.start ∈ startsFrom content 0 ∧ s.stop ∈ startsFrom content 0

theorem step_invS (content : Bytes) (st : St) (t : Entry) (hv : valid t.name = true)
    (h : InvS content st) : InvS content (step content (newLinesIndices content) st t) := by
  unfold step
  split
  · exact h
  · rename_i sec hloc
    split
    · exact h
    · rename_i i hov
      intro s hs
      simp only [insertAt, List.mem_append, List.mem_cons] at hs
      rcases hs with hs | rfl | hs
      · exact h s (List.mem_of_mem_take hs)
      · exact locate_starts content t s hloc hv
      · exact h s (List.mem_of_mem_drop hs)

theorem fold_invS (content : Bytes) (ts : List Entry) (hts : ∀ t ∈ ts, valid t.name = true)
    (st : St) (h : InvS content st) :
    InvS content (ts.foldl (step content (newLinesIndices content)) st) := by
  induction ts generalizing st with
  | nil => exact h
  | cons t ts ih =>
    simp only [List.foldl_cons]
    exact ih (fun x hx => hts x (by simp [hx])) _ (step_invS content st t (hts t (by simp)) h)

/-- **C37, accepted by the builder: chain and end-of-content checks** (no hypothesis on names) -/
theorem convert_accepted_partial (content : Bytes) (tags : List Entry) :
    addAccepts content.length (convert content tags).secs = true := by
  obtain ⟨⟨hp, hb⟩, _, _⟩ := convert_inv content tags
  unfold addAccepts
  rw [chainOk_eq, pairwise_sortedDisjoint _ hp]
  simpa using lastStop_le _ _ hb

/-- **C37, accepted by the builder: the rune-boundary check of `newSearchableString`** — every boundary of every
    derived section is matched by the decoding loop, for any content (valid UTF-8 or not), when the entry names are
    valid UTF-8 (they come from encoding/json). -/
theorem convert_rune_aligned (content : Bytes) (tags : List Entry) (hv : namesValid tags = true) :
    runeAligned content (convert content tags).secs = true := by
  have hv' : ∀ t ∈ tags, valid t.name = true := by
    simpa [namesValid, List.all_eq_true] using hv
  obtain ⟨hwf, _, _⟩ := convert_inv content tags
  have hs : InvS content (convert content tags) := fold_invS content tags hv' ⟨[], []⟩ (by intro s hs; simp at hs)
  apply runeAligned_of _ _ (boundaries_sorted _ _ hwf)
  intro x hx
  simp only [boundaries, List.mem_flatMap] at hx
  obtain ⟨s, hs', hx⟩ := hx
  simp at hx
  rcases hx with rfl | rfl
  · exact (hs s hs').1
  · exact (hs s hs').2

/-- **C37, always accepted by the shard builder** (all three section checks of `ShardBuilder.Add`) -/
theorem convert_accepted (content : Bytes) (tags : List Entry) (hv : namesValid tags = true) :
    addAcceptsFull content (convert content tags).secs = true := by
  unfold addAcceptsFull
  rw [convert_accepted_partial, convert_rune_aligned content tags hv]; rfl

/-- **C37 as evaluated by the driver on the implementation's output** -/
theorem C37_checkP (content : Bytes) (tags : List Entry) (hv : namesValid tags = true) :
    checkP content tags (convert content tags).secs (convert content tags).syms = true := by
  obtain ⟨hwf, hl, hc⟩ := convert_inv content tags
  have h1 := convert_sorted_disjoint content tags
  have h2 := convert_accepted content tags hv
  unfold checkP
  simp only [Bool.and_eq_true, List.all_eq_true, beq_iff_eq]
  exact ⟨⟨⟨⟨hl, h1.1⟩, h1.2⟩, hc⟩, h2⟩

/-- the hypothesis is needed: a name cut inside a multi-byte rune ("é" = C3 A9, name = A9) is placed by `Convert`
    and then rejected by the builder ("no rune for section boundary") -/
theorem convert_accepted_needs_valid_names :
    addAcceptsFull [0xC3, 0xA9] (convert [0xC3, 0xA9] [⟨1, [0xA9], 0⟩]).secs = false := by decide

/-- entries that cannot be placed are dropped, never an error or a panic: `convert` is total by construction
    (it returns a plain value) and its only partial Go operation, the slice `content[lineOff:end]`, is in bounds. -/
theorem convert_slice_in_bounds (content : Bytes) (i : Nat) (hi : i < (newLinesIndices content).length) :
    (if i > 0 then (newLinesIndices content).getD (i - 1) 0 + 1 else 0) ≤ (newLinesIndices content).getD i 0 ∧
    (newLinesIndices content).getD i 0 ≤ content.length :=
  line_slice_in_bounds content i hi

/-! non-vacuity: a concrete conversion with an out-of-order insertion, a dropped overlap, a bad line and a missing name -/
def exContent : Bytes := [97, 98, 32, 99, 100, 10, 101, 102, 32, 97, 98, 10]
def exTags : List Entry :=
  [⟨2, [97, 98], 0⟩, ⟨1, [99, 100], 1⟩, ⟨1, [97, 98], 2⟩,
   ⟨1, [98, 32, 99], 3⟩, ⟨0, [97, 98], 4⟩, ⟨9, [97, 98], 5⟩, ⟨2, [122, 122], 6⟩]
example : (convert exContent exTags).secs = [⟨0, 2⟩, ⟨3, 5⟩, ⟨9, 11⟩] ∧ (convert exContent exTags).syms = [2, 1, 0] ∧
    namesValid exTags = true := by
  decide

end ZoektModel.C37
