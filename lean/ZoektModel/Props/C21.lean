/-
C21 — Match limits and cancellation only remove whole files.  Property theorems.

Statement (properties.jsonl): per-shard, per-repository and total match-count limits, cancellation and deadlines only
ever remove whole files from a search's results: every file returned under a limit is also returned without it, with
identical matches and branches.  A cancelled or timed-out search finishes promptly with partial results or the
context's error and never crashes.
-/
import ZoektModel.C21.Spec
namespace ZoektModel.C21
open ZoektModel

/-- what a document contributes to a search without limits: nothing if it is skipped or does not match, else its
    FileMatch -/
def elig (d : Doc) : Option FM := if d.skip then none else d.fm

/-- the part of a document that does not depend on the match tree's proposals -/
def core (d : Doc) : Nat × Bool × Option FM := (d.repo, d.skip, d.fm)

/-- `mt.nextDoc()` never jumps over a document that would match -/
def Sound (docs : List Doc) : Prop := ∀ d ∈ docs, d.cand = false → elig d = none

/-- no limit, never cancelled -/
def unlimited : Opts := ⟨0, 0, none⟩

theorem sublist_filterMap_cons {l : List FM} (d : Doc) (r : List Doc)
    (h : l.Sublist (r.filterMap elig)) : l.Sublist ((d :: r).filterMap elig) := by
  rw [List.filterMap_cons]
  split
  · exact h
  · exact List.Sublist.cons _ h

/-- **every file returned under any limits and any cancellation point is a file of the document-by-document
    evaluation, whole, in order** (for every proposal behaviour of the match tree, sound or not) -/
theorem run_sublist (o : Opts) (docs : List Doc) : ∀ (st : St) (p : Bool),
    (run o st p docs).files.Sublist (docs.filterMap elig) := by
  induction docs with
  | nil => intro st p; simp [run]
  | cons d r ih =>
    intro st p
    unfold run
    split
    · exact sublist_filterMap_cons d r (ih _ _)
    · split
      · exact sublist_filterMap_cons d r (ih _ _)
      · split
        · exact sublist_filterMap_cons d r (ih _ _)
        · rename_i hskip _
          split
          · simp
          · split
            · exact sublist_filterMap_cons d r (ih _ _)
            · rename_i f hf
              have he : elig d = some f := by
                simp only [Bool.not_eq_true] at hskip
                simp [elig, hskip, hf]
              rw [List.filterMap_cons, he]
              exact List.Sublist.cons_cons _ (ih _ _)

theorem poll_unlimited (st : St) : (poll unlimited st).canceled = false := by
  simp [poll, unlimited]

/-- **without limits and cancellation the loop returns exactly the matching, non-skipped documents**, whatever the
    match tree proposes, as long as it never jumps over a matching document -/
theorem unlimited_complete (docs : List Doc) : ∀ (st : St) (p : Bool), Sound docs → st.canceled = false →
    (run unlimited st p docs).files = docs.filterMap elig := by
  induction docs with
  | nil => intro st p _ _; simp [run]
  | cons d r ih =>
    intro st p hs hc
    have hs' : Sound r := fun x hx => hs x (List.mem_cons_of_mem _ hx)
    unfold run
    split
    · rename_i h
      have hd : elig d = none := hs d (List.mem_cons_self) (by have := h; simp at this; exact this.2)
      rw [List.filterMap_cons, hd]
      exact ih _ _ hs' hc
    · split
      · rename_i hsk
        have hd : elig d = none := by simp [elig, hsk]
        rw [List.filterMap_cons, hd]
        exact ih _ _ hs' hc
      · split
        · rename_i h
          simp [unlimited] at h
        · rename_i hskip _
          simp only [Bool.not_eq_true] at hskip
          have hc' : (trackRepo st d).canceled = false := by
            unfold trackRepo; split <;> simp [hc]
          split
          · rename_i h
            simp [mustStop, hc', unlimited] at h
          · split
            · rename_i hf
              have hd : elig d = none := by simp [elig, hskip, hf]
              rw [List.filterMap_cons, hd]
              exact ih _ _ hs' (poll_unlimited _)
            · rename_i f hf
              have hd : elig d = some f := by simp [elig, hskip, hf]
              rw [List.filterMap_cons, hd]
              simp only [List.cons.injEq, true_and]
              exact ih _ _ hs' (poll_unlimited _)

theorem filterMap_elig_core (a b : List Doc) (h : a.map core = b.map core) :
    a.filterMap elig = b.filterMap elig := by
  induction a generalizing b with
  | nil => cases b <;> simp_all
  | cons x xs ih =>
    cases b with
    | nil => simp at h
    | cons y ys =>
      simp only [List.map_cons, List.cons.injEq] at h
      have hxy : elig x = elig y := by
        have := h.1
        simp only [core, Prod.mk.injEq] at this
        simp [elig, this.2.1, this.2.2]
      simp only [List.filterMap_cons, hxy, ih ys h.2]

/-- **C21, one shard (`limits_only_drop_files`)**: for all limit settings, all cancellation points and all proposal
    behaviours of the match tree in the limited run (`docs`) and in the unlimited run (`docs'`, sound), the files
    returned under the limits form a sub-list of the files returned without them, each FileMatch being the very same
    value. -/
theorem limits_only_drop_files (o : Opts) (st : St) (p : Bool) (docs docs' : List Doc)
    (hcore : docs.map core = docs'.map core) (hsound : Sound docs') :
    (run o st p docs).files.Sublist (run unlimited {} true docs').files := by
  rw [unlimited_complete docs' {} true hsound rfl, ← filterMap_elig_core docs docs' hcore]
  exact run_sublist o docs st p

/-- the same for `indexData.Search` as a whole (entry poll, `SetDefaults`) -/
theorem searchShard_sublist (shardMax repoMax : Nat) (cancelAt : Option Nat) (docs docs' : List Doc)
    (hcore : docs.map core = docs'.map core) (hsound : Sound docs') :
    (searchShard shardMax repoMax cancelAt docs).1.files.Sublist (run unlimited {} true docs').files := by
  unfold searchShard
  simp only []
  split
  · simp
  · split
    · simp
    · exact limits_only_drop_files _ _ _ docs docs' hcore hsound

/-- the executable statement used by the driver agrees with `List.Sublist` -/
theorem isSublist_iff (a b : List FM) : isSublist a b = true ↔ a.Sublist b := by
  induction b generalizing a with
  | nil => cases a <;> simp [isSublist]
  | cons y ys ih =>
    cases a with
    | nil => simp [isSublist]
    | cons x xs =>
      unfold isSublist
      split
      · rename_i h
        have hxy : x = y := by simpa using h
        subst hxy
        rw [ih]
        exact ⟨fun h => List.Sublist.cons_cons _ h, fun h => List.Sublist.of_cons_cons h⟩
      · rename_i h
        have hxy : x ≠ y := by simpa using h
        rw [ih]
        constructor
        · exact fun h => List.Sublist.cons _ h
        · intro h
          cases h with
          | cons _ h => exact h
          | cons_cons _ h => exact absurd rfl hxy

/-- **C21 as evaluated by the driver**: `checkShard` holds of the model's limited result against the model's
    unlimited result -/
theorem C21_checkShard (shardMax repoMax : Nat) (cancelAt : Option Nat) (docs : List Doc) (hsound : Sound docs) :
    checkShard (run unlimited {} true docs).files (searchShard shardMax repoMax cancelAt docs).1.files = true := by
  unfold checkShard
  rw [isSublist_iff]
  exact searchShard_sublist shardMax repoMax cancelAt docs docs rfl hsound

/-! ### non-vacuity -/

def exDocs : List Doc :=
  [⟨0, false, true, some ⟨0, 2⟩⟩, ⟨0, false, false, none⟩, ⟨0, false, true, some ⟨2, 1⟩⟩,
   ⟨1, true, true, some ⟨3, 5⟩⟩, ⟨1, false, true, some ⟨4, 1⟩⟩, ⟨1, false, true, none⟩, ⟨2, false, true, some ⟨6, 3⟩⟩]

example : Sound exDocs := by unfold Sound exDocs; decide
example : (run unlimited {} true exDocs).files.map (·.id) = [0, 2, 4, 6] := by decide
-- per-repository limit 2: the second file of repository 0 is dropped, the other repositories are still searched
example : (searchShard 0 2 none exDocs).1.files.map (·.id) = [0, 4, 6] := by decide
-- shard limit 3: stops after the files that reached it
example : (searchShard 3 0 none exDocs).1.files.map (·.id) = [0, 2] := by decide
-- cancelled from the 3rd poll on: one document evaluated
example : (searchShard 0 0 (some 2) exDocs).1.files.map (·.id) = [0] := by decide
example : (searchShard 0 0 (some 0) exDocs) = ({}, true) := by decide

end ZoektModel.C21
