/-
C21 — Match limits and cancellation only remove whole files.  Property theorems.

Statement (properties.jsonl): per-shard, per-repository and total match-count limits, cancellation and deadlines only
ever remove whole files from a search's results: every file returned under a limit is also returned without it, with
identical matches and branches.  A cancelled or timed-out search finishes promptly with partial results or the
context's error and never crashes.
-/
import ZoektModel.C21.Spec
namespace ZoektModel.C21
open ZoektModel

/-- what a document contributes to a search without limits: nothing if it is skipped or does not match, else its
    FileMatch -/
def elig (d : Doc) : Option FM := if d.skip then none else d.fm

/-- the part of a document that does not depend on the match tree's proposals -/
def core (d : Doc) : Nat × Bool × Option FM := (d.repo, d.skip, d.fm)

/-- `mt.nextDoc()` never jumps over a document that would match -/
def Sound (docs : List Doc) : Prop := ∀ d ∈ docs, d.cand = false → elig d = none

/-- no limit, never cancelled -/
def unlimited : Opts := ⟨0, 0, none⟩

theorem sublist_filterMap_cons {l : List FM} (d : Doc) (r : List Doc)
    (h : l.Sublist (r.filterMap elig)) : l.Sublist ((d :: r).filterMap elig) := by
  rw [List.filterMap_cons]
  split
  · exact h
  · exact List.Sublist.cons _ h

/-- **every file returned under any limits and any cancellation point is a file of the document-by-document
    evaluation, whole, in order** (for every proposal behaviour of the match tree, sound or not) -/
theorem run_sublist (o : Opts) (docs : List Doc) : ∀ (st : St) (p : Bool),
    (run o st p docs).files.Sublist (docs.filterMap elig) := by
  induction docs with
  | nil => intro st p; simp [run]
  | cons d r ih =>
    intro st p
    unfold run
    split
    · exact sublist_filterMap_cons d r (ih _ _)
    · split
      · exact sublist_filterMap_cons d r (ih _ _)
      · split
        · exact sublist_filterMap_cons d r (ih _ _)
        · rename_i hskip _
          split
          · simp
          · split
            · exact sublist_filterMap_cons d r (ih _ _)
            · rename_i f hf
              have he : elig d = some f := by
                simp only [Bool.not_eq_true] at hskip
                simp [elig, hskip, hf]
              rw [List.filterMap_cons, he]
              exact List.Sublist.cons_cons _ (ih _ _)

theorem poll_unlimited (st : St) : (poll unlimited st).canceled = false := by
  simp [poll, unlimited]

/-- **without limits and cancellation the loop returns exactly the matching, non-skipped documents**, whatever the
    match tree proposes, as long as it never jumps over a matching document -/
theorem unlimited_complete (docs : List Doc) : ∀ (st : St) (p : Bool), Sound docs → st.canceled = false →
    (run unlimited st p docs).files = docs.filterMap elig := by
  induction docs with
  | nil => intro st p _ _; simp [run]
  | cons d r ih =>
    intro st p hs hc
    have hs' : Sound r := fun x hx => hs x (List.mem_cons_of_mem _ hx)
    unfold run
    split
    · rename_i h
      have hd : elig d = none := hs d (List.mem_cons_self) (by have := h; simp at this; exact this.2)
      rw [List.filterMap_cons, hd]
      exact ih _ _ hs' hc
    · split
      · rename_i hsk
        have hd : elig d = none := by simp [elig, hsk]
        rw [List.filterMap_cons, hd]
        exact ih _ _ hs' hc
      · split
        · rename_i h
          simp [unlimited] at h
        · rename_i hskip _
          simp only [Bool.not_eq_true] at hskip
          have hc' : (trackRepo st d).canceled = false := by
            unfold trackRepo; split <;> simp [hc]
          split
          · rename_i h
            simp [mustStop, hc', unlimited] at h
          · split
            · rename_i hf
              have hd : elig d = none := by simp [elig, hskip, hf]
              rw [List.filterMap_cons, hd]
              exact ih _ _ hs' (poll_unlimited _)
            · rename_i f hf
              have hd : elig d = some f := by simp [elig, hskip, hf]
              rw [List.filterMap_cons, hd]
              simp only [List.cons.injEq, true_and]
              exact ih _ _ hs' (poll_unlimited _)

theorem filterMap_elig_core (a b : List Doc) (h : a.map core = b.map core) :
    a.filterMap elig = b.filterMap elig := by
  induction a generalizing b with
  | nil => cases b <;> simp_all
  | cons x xs ih =>
    cases b with
    | nil => simp at h
    | cons y ys =>
      simp only [List.map_cons, List.cons.injEq] at h
      have hxy : elig x = elig y := by
        have := h.1
        simp only [core, Prod.mk.injEq] at this
        simp [elig, this.2.1, this.2.2]
      simp only [List.filterMap_cons, hxy, ih ys h.2]

/-- **C21, one shard (`limits_only_drop_files`)**: for all limit settings, all cancellation points and all proposal
    behaviours of the match tree in the limited run (`docs`) and in the unlimited run (`docs'`, sound), the files
    returned under the limits form a sub-list of the files returned without them, each FileMatch being the very same
    value. -/
theorem limits_only_drop_files (o : Opts) (st : St) (p : Bool) (docs docs' : List Doc)
    (hcore : docs.map core = docs'.map core) (hsound : Sound docs') :
    (run o st p docs).files.Sublist (run unlimited {} true docs').files := by
  rw [unlimited_complete docs' {} true hsound rfl, ← filterMap_elig_core docs docs' hcore]
  exact run_sublist o docs st p

/-- the same for `indexData.Search` as a whole (entry poll, `SetDefaults`) -/
theorem searchShard_sublist (shardMax repoMax : Nat) (cancelAt : Option Nat) (docs docs' : List Doc)
    (hcore : docs.map core = docs'.map core) (hsound : Sound docs') :
    (searchShard shardMax repoMax cancelAt docs).1.files.Sublist (run unlimited {} true docs').files := by
  unfold searchShard
  simp only []
  split
  · simp
  · split
    · simp
    · exact limits_only_drop_files _ _ _ docs docs' hcore hsound

/-- the executable statement used by the driver agrees with `List.Sublist` -/
theorem isSublist_iff (a b : List FM) : isSublist a b = true ↔ a.Sublist b := by
  induction b generalizing a with
  | nil => cases a <;> simp [isSublist]
  | cons y ys ih =>
    cases a with
    | nil => simp [isSublist]
    | cons x xs =>
      unfold isSublist
      split
      · rename_i h
        have hxy : x = y := by simpa using h
        subst hxy
        rw [ih]
        exact ⟨fun h => List.Sublist.cons_cons _ h, fun h => List.Sublist.of_cons_cons h⟩
      · rename_i h
        have hxy : x ≠ y := by simpa using h
        rw [ih]
        constructor
        · exact fun h => List.Sublist.cons _ h
        · intro h
          cases h with
          | cons _ h => exact h
          | cons_cons _ h => exact absurd rfl hxy

/-- **C21 as evaluated by the driver**: `checkShard` holds of the model's limited result against the model's
    unlimited result -/
theorem C21_checkShard (shardMax repoMax : Nat) (cancelAt : Option Nat) (docs : List Doc) (hsound : Sound docs) :
    checkShard (run unlimited {} true docs).files (searchShard shardMax repoMax cancelAt docs).1.files = true := by
  unfold checkShard
  rw [isSublist_iff]
  exact searchShard_sublist shardMax repoMax cancelAt docs docs rfl hsound

/-- **with the shard limit and cancellation only (no per-repository limit) the result is even a prefix** of the
    unlimited result: these two only ever stop the search -/
theorem shard_limit_and_cancel_give_prefix (o : Opts) (hr : o.repoMax = 0) (docs : List Doc) :
    ∀ (st : St) (p : Bool), Sound docs → (run o st p docs).files <+: docs.filterMap elig := by
  induction docs with
  | nil => intro st p _; simp [run]
  | cons d r ih =>
    intro st p hs
    have hs' : Sound r := fun x hx => hs x (List.mem_cons_of_mem _ hx)
    unfold run
    split
    · rename_i h
      have hd : elig d = none := hs d (List.mem_cons_self) (by have := h; simp at this; exact this.2)
      rw [List.filterMap_cons, hd]
      exact ih _ _ hs'
    · split
      · rename_i hsk
        have hd : elig d = none := by simp [elig, hsk]
        rw [List.filterMap_cons, hd]
        exact ih _ _ hs'
      · split
        · rename_i h
          simp [hr] at h
        · rename_i hskip _
          simp only [Bool.not_eq_true] at hskip
          split
          · exact List.nil_prefix
          · split
            · rename_i hf
              have hd : elig d = none := by simp [elig, hskip, hf]
              rw [List.filterMap_cons, hd]
              exact ih _ _ hs'
            · rename_i f hf
              have hd : elig d = some f := by simp [elig, hskip, hf]
              rw [List.filterMap_cons, hd]
              exact List.cons_prefix_cons.mpr ⟨rfl, ih _ _ hs'⟩

/-! ### promptness (as far as a model can state it): a cancelled search evaluates no further document -/

theorem trackRepo_canceled (st : St) (d : Doc) : (trackRepo st d).canceled = st.canceled := by
  unfold trackRepo; split <;> rfl

theorem trackRepo_polls (st : St) (d : Doc) : (trackRepo st d).polls = st.polls := by
  unfold trackRepo; split <;> rfl

theorem files_le_considered (o : Opts) (docs : List Doc) : ∀ (st : St) (p : Bool),
    (run o st p docs).files.length ≤ (run o st p docs).considered := by
  induction docs with
  | nil => intro st p; simp [run]
  | cons d r ih =>
    intro st p
    unfold run
    split
    · exact ih _ _
    · split
      · exact ih _ _
      · split
        · exact ih _ _
        · split
          · simp
          · split
            · have := ih (poll o (trackRepo st d)) true
              simp only; omega
            · rename_i f _
              have := ih (poll o (addMatch (trackRepo st d) f)) true
              simp only [List.length_cons]; omega

/-- once the context is seen cancelled no further document is evaluated; before that, at most one document per live
    poll -/
theorem run_prompt (o : Opts) (k : Nat) (hk : o.cancelAt = some k) (docs : List Doc) : ∀ (st : St) (p : Bool),
    (st.canceled = false → st.polls ≤ k) →
    (run o st p docs).considered ≤ (if st.canceled then 0 else k + 1 - st.polls) := by
  induction docs with
  | nil => intro st p _; simp [run]
  | cons d r ih =>
    intro st p hinv
    unfold run
    split
    · exact ih _ _ hinv
    · split
      · exact ih _ _ hinv
      · split
        · exact ih _ _ hinv
        · split
          · simp
          · rename_i hstop
            have hc : st.canceled = false := by
              cases h : st.canceled with
              | false => rfl
              | true => simp [mustStop, trackRepo_canceled, h] at hstop
            have hp := hinv hc
            simp only [hc]
            -- the state after this document, before the next poll
            have key : ∀ st' : St, st'.polls = st.polls →
                (run o (poll o st') true r).considered + 1 ≤ k + 1 - st.polls := by
              intro st' hp'
              have hpoll : (poll o st').polls = st.polls + 1 := by simp [poll, hp']
              have hcan : (poll o st').canceled = decide (k ≤ st.polls) := by simp [poll, hk, hp']
              have := ih (poll o st') true (by
                intro hcf
                rw [hcan] at hcf
                simp only [decide_eq_false_iff_not] at hcf
                rw [hpoll]; omega)
              rw [hcan, hpoll] at this
              by_cases hle : k ≤ st.polls
              · simp only [hle, decide_true, if_true] at this
                omega
              · simp only [hle, decide_false] at this
                simp only [Bool.false_eq_true, if_false] at this
                omega
            split
            · exact key (trackRepo st d) (trackRepo_polls st d)
            · rename_i f _
              exact key (addMatch (trackRepo st d) f) (by simp [addMatch, trackRepo_polls])

/-- **C21, promptness in the model**: a search whose context turns cancelled after `k` polls of `Done()` evaluates at
    most `k - 1` documents and returns at most `k - 1` files (`checkPrompt`) -/
theorem C21_checkPrompt (shardMax repoMax : Nat) (k : Nat) (docs : List Doc) :
    checkPrompt (some k) (searchShard shardMax repoMax (some k) docs).1.files
      (searchShard shardMax repoMax (some k) docs).1.considered = true := by
  have hgoal : (searchShard shardMax repoMax (some k) docs).1.considered ≤ k - 1 := by
    unfold searchShard
    simp only
    split
    · simp
    · split
      · simp
      · rename_i hc0
        have hk1 : 1 ≤ k := by
          simp only [poll, Bool.not_eq_true, decide_eq_false_iff_not] at hc0
          omega
        have := run_prompt ⟨setDefaults shardMax, repoMax, some k⟩ k rfl docs
          (poll ⟨setDefaults shardMax, repoMax, some k⟩ (poll ⟨setDefaults shardMax, repoMax, some k⟩ {})) true
          (by intro hcf; simp [poll] at hcf ⊢; omega)
        refine Nat.le_trans this ?_
        simp only [poll]
        by_cases h : k ≤ 1
        · simp [h]
        · simp [h]
  have hfiles : (searchShard shardMax repoMax (some k) docs).1.files.length ≤
      (searchShard shardMax repoMax (some k) docs).1.considered := by
    unfold searchShard
    simp only
    split
    · simp
    · split
      · simp
      · exact files_le_considered _ _ _ _
  simp only [checkPrompt, Bool.and_eq_true, decide_eq_true_eq]
  exact ⟨hgoal, by omega⟩

/-! ### the total limit (`streamSearch`) -/

/-- invariant of the `search:` loop -/
def SSInv (nShards totalMax : Nat) (counts : Nat → Nat) (s : SS) : Prop :=
  (s.sent ++ s.inflight).Perm (List.range s.next) ∧
  s.next ≤ nShards ∧
  s.total = (s.sent.map counts).sum ∧
  (s.stopped = true → s.next = nShards ∨ (totalMax > 0 ∧ s.total > totalMax))

theorem ssStep_inv (nShards totalMax : Nat) (counts : Nat → Nat) (s s' : SS) (e : Ev)
    (h : SSInv nShards totalMax counts s) (hs : ssStep nShards totalMax counts s e = some s') :
    SSInv nShards totalMax counts s' := by
  obtain ⟨h1, h2, h3, h4⟩ := h
  cases e with
  | dispatch =>
    simp only [ssStep] at hs
    split at hs
    · simp at hs
    · rename_i hg
      simp only [Bool.or_eq_true, decide_eq_true_eq, not_or, Bool.not_eq_true, Nat.not_le] at hg
      simp only [Option.some.injEq] at hs
      have hperm : (s.sent ++ (s.inflight ++ [s.next])).Perm (List.range (s.next + 1)) := by
        rw [List.range_succ, ← List.append_assoc]
        exact List.Perm.append_right _ h1
      split at hs
      · rename_i hn
        subst hs
        exact ⟨hperm, by simp only; omega, h3, fun _ => Or.inl hn⟩
      · subst hs
        refine ⟨hperm, by simp only; omega, h3, ?_⟩
        intro hst
        simp only at hst
        rw [hg.1] at hst
        exact absurd hst (by simp)
  | recv i =>
    simp only [ssStep] at hs
    split at hs
    · simp at hs
    · rename_i hc
      simp only [Bool.not_eq_true, Bool.not_eq_false] at hc
      have hmem : i ∈ s.inflight := by simpa using hc
      simp only [Option.some.injEq] at hs
      subst hs
      refine ⟨?_, h2, ?_, ?_⟩
      · simp only
        have p1 : (s.sent ++ [i] ++ s.inflight.erase i).Perm (s.sent ++ (i :: s.inflight.erase i)) := by
          rw [List.append_assoc]; exact List.Perm.refl _
        have p2 : (s.sent ++ (i :: s.inflight.erase i)).Perm (s.sent ++ s.inflight) :=
          List.Perm.append_left _ (List.perm_cons_erase hmem).symm
        exact (p1.trans p2).trans h1
      · simp only [List.map_append, List.sum_append, List.map_cons, List.map_nil, List.sum_cons, List.sum_nil]
        omega
      · intro hst
        simp only [Bool.or_eq_true, Bool.and_eq_true, decide_eq_true_eq] at hst
        rcases hst with hst | hst
        · rcases h4 hst with h | h
          · exact Or.inl h
          · exact Or.inr ⟨h.1, by simp only; omega⟩
        · exact Or.inr hst

theorem ssRun_inv (nShards totalMax : Nat) (counts : Nat → Nat) (es : List Ev) : ∀ (s s' : SS),
    SSInv nShards totalMax counts s → ssRun nShards totalMax counts s es = some s' →
    SSInv nShards totalMax counts s' := by
  induction es with
  | nil => intro s s' h hs; simp only [ssRun, Option.some.injEq] at hs; subst hs; exact h
  | cons e es ih =>
    intro s s' h hs
    simp only [ssRun] at hs
    cases hstep : ssStep nShards totalMax counts s e with
    | none => rw [hstep] at hs; simp at hs
    | some s1 =>
      rw [hstep] at hs
      simp only [Option.bind_some] at hs
      exact ih s1 s' (ssStep_inv _ _ _ _ _ _ h hstep) hs

/-- **C21, total limit (`total_limit_whole_shards`)**: for every interleaving of handing out shards and receiving their
    results, when the search loop ends the results that were sent on are those of the shards `[0, k)` — each exactly
    once, nothing from any other shard, hence only whole shard results are ever missing — and `k` is smaller than the
    number of shards only if the match counts of what was sent really exceed `TotalMaxMatchCount`. -/
theorem total_limit_whole_shards (nShards totalMax : Nat) (counts : Nat → Nat) (es : List Ev) (s : SS)
    (hrun : ssRun nShards totalMax counts {} es = some s) (hfin : ssFinished s = true) :
    s.sent.Perm (List.range s.next) ∧ s.next ≤ nShards ∧
    (s.next = nShards ∨ (totalMax > 0 ∧ (s.sent.map counts).sum > totalMax)) := by
  have h0 : SSInv nShards totalMax counts {} := ⟨by simp, by simp, by simp, by simp⟩
  obtain ⟨h1, h2, h3, h4⟩ := ssRun_inv _ _ _ es {} s h0 hrun
  simp only [ssFinished, Bool.and_eq_true, List.isEmpty_iff] at hfin
  rw [hfin.2, List.append_nil] at h1
  refine ⟨h1, h2, ?_⟩
  rcases h4 hfin.1 with h | h
  · exact Or.inl h
  · exact Or.inr ⟨h.1, by rw [← h3]; exact h.2⟩

/-! ### the dispatch/receive loop makes progress in every iteration

`streamSearch` calls `proc.Yield(ctx)` at the top of every iteration and ignores its error ("we let searchOneShard
handle context errors"): whether Yield succeeds, blocks for a while or fails because the context is done, the iteration
goes on to the `select`, i.e. to exactly one `dispatch` or `recv` event of this model.  Hence the number of iterations
is bounded by twice the number of shards — the loop cannot spin, in particular not once the context is done and Yield
fails on every call.  (The harness drives the real loop into exactly those states: time slice used up, batch queue
full, context done while queued / with results pending.) -/

theorem ssStep_progress (nShards totalMax : Nat) (counts : Nat → Nat) (s s' : SS) (e : Ev)
    (hs : ssStep nShards totalMax counts s e = some s') :
    s'.next + s'.sent.length = s.next + s.sent.length + 1 := by
  cases e with
  | dispatch =>
    simp only [ssStep] at hs
    split at hs
    · simp at hs
    · simp only [Option.some.injEq] at hs
      split at hs <;> (subst hs; simp only; omega)
  | recv i =>
    simp only [ssStep] at hs
    split at hs
    · simp at hs
    · simp only [Option.some.injEq] at hs
      subst hs
      simp only [List.length_append, List.length_cons, List.length_nil]
      omega

theorem ssRun_progress (nShards totalMax : Nat) (counts : Nat → Nat) (es : List Ev) : ∀ (s s' : SS),
    ssRun nShards totalMax counts s es = some s' →
    s'.next + s'.sent.length = s.next + s.sent.length + es.length := by
  induction es with
  | nil => intro s s' hs; simp only [ssRun, Option.some.injEq] at hs; subst hs; simp
  | cons e es ih =>
    intro s s' hs
    simp only [ssRun] at hs
    cases hstep : ssStep nShards totalMax counts s e with
    | none => rw [hstep] at hs; simp at hs
    | some s1 =>
      rw [hstep] at hs
      simp only [Option.bind_some] at hs
      have h1 := ssStep_progress _ _ _ _ _ _ hstep
      have h2 := ih s1 s' hs
      simp only [List.length_cons]
      omega

/-- **the search loop terminates**: every run of the loop — under every interleaving, every limit and however often
    Yield fails — has at most `2 * nShards` iterations -/
theorem loop_iterations_bounded (nShards totalMax : Nat) (counts : Nat → Nat) (es : List Ev) (s : SS)
    (hrun : ssRun nShards totalMax counts {} es = some s) : es.length ≤ 2 * nShards := by
  have h0 : SSInv nShards totalMax counts {} := ⟨by simp, by simp, by simp, by simp⟩
  obtain ⟨h1, h2, _, _⟩ := ssRun_inv _ _ _ es {} s h0 hrun
  have hp := ssRun_progress _ _ _ es {} s hrun
  have hlen := h1.length_eq
  simp only [List.length_append, List.length_range] at hlen
  simp only [List.length_nil, Nat.zero_add] at hp
  have : ({} : SS).next + ({} : SS).sent.length = 0 := rfl
  omega

/-! ### non-vacuity -/

def exDocs : List Doc :=
  [⟨0, false, true, some ⟨0, 2⟩⟩, ⟨0, false, false, none⟩, ⟨0, false, true, some ⟨2, 1⟩⟩,
   ⟨1, true, true, some ⟨3, 5⟩⟩, ⟨1, false, true, some ⟨4, 1⟩⟩, ⟨1, false, true, none⟩, ⟨2, false, true, some ⟨6, 3⟩⟩]

example : Sound exDocs := by unfold Sound exDocs; decide
example : (run unlimited {} true exDocs).files.map (·.id) = [0, 2, 4, 6] := by decide
-- per-repository limit 2: the second file of repository 0 is dropped, the other repositories are still searched
example : (searchShard 0 2 none exDocs).1.files.map (·.id) = [0, 4, 6] := by decide
-- shard limit 3: stops after the files that reached it
example : (searchShard 3 0 none exDocs).1.files.map (·.id) = [0, 2] := by decide
-- cancelled from the 3rd poll on: one document evaluated
example : (searchShard 0 0 (some 2) exDocs).1.files.map (·.id) = [0] := by decide
example : (searchShard 0 0 (some 0) exDocs) = ({}, true) := by decide

-- total limit 3 over shards with 2, 2, 5, 1 matches: shard 2 was already handed out when the limit was exceeded
example : (ssRun 4 3 (fun i => [2, 2, 5, 1].getD i 0) {} [.dispatch, .dispatch, .recv 0, .dispatch, .recv 1, .recv 2]).map
    (fun s => (s.sent, s.next, s.stopped, ssFinished s)) = some ([0, 1, 2], 3, true, true) := by decide
-- a stopped search hands out nothing more
example : ssRun 4 3 (fun i => [2, 2, 5, 1].getD i 0) {} [.dispatch, .recv 0, .dispatch, .recv 1, .dispatch] = none := by
  decide

end ZoektModel.C21
