/-
C20 — The search scheduler bounds concurrency and never leaks slots.  Property theorems only; lemmas in C20/Lemmas.lean.

Statement (properties.jsonl): at any time at most the configured number of searches hold an interactive slot and at
most the batch capacity hold a batch slot; every acquired slot is released exactly once, whether the search finishes,
is cancelled while waiting, or is moved to the batch queue; an acquisition fails only when its context is done.
Quantifier: all interleavings of acquire, yield (after the interactive time slice), cancellation and release for any
number of searches and capacities.

The theorems quantify over `Reach strict (init capI capB dones) s`: every state reachable by any finite sequence of
enabled atomic actions (`Kind`) of any searches — i.e. every schedule at semaphore granularity — for every capacity
pair and every number of searches (`dones.length`), some of whose contexts may be done from the start.
`strict = false` places no restriction on the client; `strict = true` is the client protocol "no `Yield` after
`Release`" (needed only for the no-leak clause, see `yield_after_release_holds_a_slot`).
-/
import ZoektModel.C20.RunSpec
namespace ZoektModel.C20

/-- **C20, bounded occupancy**: in every reachable state at most `capI` searches are counted in the interactive
    semaphore and at most `capB` in the batch semaphore. -/
theorem occupancy_bounded (strict : Bool) (capI capB : Nat) (dones : List Bool) (s : State)
    (h : Reach strict (init capI capB dones) s) :
    owners s .I ≤ capI ∧ owners s .B ≤ capB := by
  have inv := reach_inv (init_inv capI capB dones) h
  have hc : s.capI = capI ∧ s.capB = capB := by
    clear inv
    induction h with
    | refl => exact ⟨rfl, rfl⟩
    | step pid k _ hs ih =>
      obtain ⟨_, _, p', e, _, rfl⟩ := step_some hs
      rcases e with _ | (_ | _) | (_ | _) <;> simp only [State.applyEff] <;> (try split) <;> exact ih
  have := inv.eqI; have := inv.eqB; have := inv.leI; have := inv.leB
  omega

/-- **C20, held = owners**: each semaphore's counter equals the number of searches that own a slot of it (closure
    variable `sem` points at it, or the semaphore has counted the search in and its `Acquire` is about to return). -/
theorem held_eq_owners (strict : Bool) (capI capB : Nat) (dones : List Bool) (s : State)
    (h : Reach strict (init capI capB dones) s) :
    s.curI = owners s .I ∧ s.curB = owners s .B :=
  let inv := reach_inv (init_inv capI capB dones) h
  ⟨inv.eqI, inv.eqB⟩

/-- the counters themselves never exceed the capacities -/
theorem counters_bounded (strict : Bool) (capI capB : Nat) (dones : List Bool) (s : State)
    (h : Reach strict (init capI capB dones) s) : s.curI ≤ s.capI ∧ s.curB ≤ s.capB :=
  let inv := reach_inv (init_inv capI capB dones) h
  ⟨inv.leI, inv.leB⟩

/-- **C20, released exactly once**: for every search, (number of times a semaphore counted it in) = (number of times
    it gave a slot back) + (1 if it owns a slot now, else 0) — after a finished search, a cancelled wait, a failed or
    successful move to the batch queue, or a repeated `Release`. -/
theorem released_exactly_once (strict : Bool) (capI capB : Nat) (dones : List Bool) (s : State)
    (h : Reach strict (init capI capB dones) s) :
    ∀ p ∈ s.procs, p.grants = p.rels + (if p.holds .I || p.holds .B then 1 else 0) :=
  fun p hp => ((reach_inv (init_inv capI capB dones) h).ok p hp).2.1

/-- a search never owns an interactive and a batch slot at the same time -/
theorem slot_exclusive (strict : Bool) (capI capB : Nat) (dones : List Bool) (s : State)
    (h : Reach strict (init capI capB dones) s) :
    ∀ p ∈ s.procs, ¬ (p.holds .I = true ∧ p.holds .B = true) :=
  fun p hp => ((reach_inv (init_inv capI capB dones) h).ok p hp).2.2.1

/-- `semaphore.Weighted.Release` never panics with "released more than held": no slot is given back twice -/
theorem never_over_release (strict : Bool) (capI capB : Nat) (dones : List Bool) (s : State)
    (h : Reach strict (init capI capB dones) s) : s.panicked = false :=
  (reach_inv (init_inv capI capB dones) h).np

/-- **C20, no spurious failure (states)**: a search whose `Acquire` failed, or to which any `Acquire`/`Yield` ever
    returned an error, has a context that is done. -/
theorem no_spurious_failure (strict : Bool) (capI capB : Nat) (dones : List Bool) (s : State)
    (h : Reach strict (init capI capB dones) s) :
    ∀ p ∈ s.procs, (0 < p.errs ∨ p.loc = .failed) → p.done = true :=
  fun p hp => ((reach_inv (init_inv capI capB dones) h).ok p hp).2.2.2

/-- **C20, no spurious failure (steps)**: the two actions that make a call return an error are enabled only for a
    search whose context is done. -/
theorem failure_needs_done (strict : Bool) (s s' : State) (pid : Nat) (k : Kind) (hk : k = .abort ∨ k = .giveBack)
    (hs : step strict s pid k = some s') : ∃ h : pid < s.procs.length, s.procs[pid].done = true := by
  obtain ⟨_, hlt, p', e, hstep, _⟩ := step_some hs
  refine ⟨hlt, ?_⟩
  rcases hk with rfl | rfl <;> simp only [procStep] at hstep <;> split at hstep <;> simp_all

/-- **C20, no leak at quiescence** (clients that do not call `Yield` after `Release`): when every search is idle, failed,
    or has called `Release`, both semaphores are empty. -/
theorem no_leak_at_quiescence (capI capB : Nat) (dones : List Bool) (s : State)
    (h : Reach true (init capI capB dones) s) (hq : ∀ p ∈ s.procs, p.quiescent = true) :
    s.curI = 0 ∧ s.curB = 0 := by
  have inv := reach_inv (init_inv capI capB dones) h
  have rel := reach_rel (init_rel capI capB dones) h
  constructor
  · rw [inv.eqI]
    exact countP_eq_zero_of _ _ fun p hp => quiescent_holds_nothing p .I (inv.ok p hp) (rel p hp) (hq p hp)
  · rw [inv.eqB]
    exact countP_eq_zero_of _ _ fun p hp => quiescent_holds_nothing p .B (inv.ok p hp) (rel p hp) (hq p hp)

/-- `Release` is always possible for a running search and leaves it owning nothing -/
theorem release_enabled (strict : Bool) (capI capB : Nat) (dones : List Bool) (s : State)
    (h : Reach strict (init capI capB dones) s) (pid : Nat) (hlt : pid < s.procs.length)
    (hrun : s.procs[pid].loc = .run) : ∃ s', step strict s pid .release = some s' := by
  have inv := reach_inv (init_inv capI capB dones) h
  unfold step
  simp only [inv.np, Bool.false_eq_true, ↓reduceIte, List.getElem?_eq_getElem hlt, procStep, hrun]
  cases s.procs[pid].sem <;> simp

/-- the director model (the layer diffed against the real scheduler) only ever takes small steps: every state it
    reaches, for every operation script, is reachable in the small-step model — so all theorems above apply to it. -/
theorem dRun_reach (capacity batchdiv : Nat) (dones : List Bool) (ops : List Op) :
    Reach false (init capacity (batchCap capacity batchdiv) dones) (dRun (dInit capacity batchdiv dones) ops).1.st := by
  suffices ∀ (ops : List Op) (d : DState), Reach false (init capacity (batchCap capacity batchdiv) dones) d.st →
      Reach false (init capacity (batchCap capacity batchdiv) dones) (dRun d ops).1.st from
    this ops _ Reach.refl
  intro ops
  induction ops with
  | nil => intro d h; exact h
  | cons op rest ih =>
    intro d h
    simp only [dRun]
    exact ih _ (dStep_reach d op h)

/-- corollary: what the director model reports after any script respects the capacities and equals the owners -/
theorem director_bounded (capacity batchdiv : Nat) (dones : List Bool) (ops : List Op) :
    let s := (dRun (dInit capacity batchdiv dones) ops).1.st
    s.curI = owners s .I ∧ s.curB = owners s .B ∧ owners s .I ≤ capacity ∧ owners s .B ≤ batchCap capacity batchdiv ∧
      s.panicked = false := by
  intro s
  have h := dRun_reach capacity batchdiv dones ops
  have a := held_eq_owners _ _ _ _ _ h
  have b := occupancy_bounded _ _ _ _ _ h
  exact ⟨a.1, a.2, b.1, b.2, never_over_release _ _ _ _ _ h⟩

/-- every observation the director model emits (the line diffed against the real scheduler after each operation)
    respects both capacities and reports counters equal to the owners: the `over-capacity` clause of `Spec.checkRun`
    can never fire on the model -/
theorem director_obs_bounded (capacity batchdiv : Nat) (dones : List Bool) (ops : List Op) :
    ∀ o ∈ (dRun (dInit capacity batchdiv dones) ops).2, o.curI ≤ capacity ∧ o.curB ≤ batchCap capacity batchdiv := by
  suffices ∀ (ops : List Op) (d : DState), Reach false (init capacity (batchCap capacity batchdiv) dones) d.st →
      ∀ o ∈ (dRun d ops).2, o.curI ≤ capacity ∧ o.curB ≤ batchCap capacity batchdiv from
    this ops _ Reach.refl
  intro ops
  induction ops with
  | nil => intro d _ o ho; simp [dRun] at ho
  | cons op rest ih =>
    intro d h o ho
    have h1 := dStep_reach d op h
    simp only [dRun, List.mem_cons] at ho
    rcases ho with rfl | ho
    · have a := held_eq_owners _ _ _ _ _ h1
      have b := occupancy_bounded _ _ _ _ _ h1
      dsimp only
      omega
    · exact ih _ h1 o ho

/-- **no spurious failure, director level**: whenever the director model reports that a call returned an error — the
    issued `Acquire` / `Yield` itself, or a queued call woken by a cancellation — it is a call of the search the
    operation was issued on, and that search's context is done -/
theorem director_err_only_done (d : DState) (op : Op) (hp : d.st.panicked = false) (hlt : op.pid < d.st.procs.length) :
    ((dStep d op).2.self = .err → doneAt (dStep d op).1.st op.pid) ∧
    ∀ w ∈ (dStep d op).2.woke, w.2 = .err → w.1 = op.pid ∧ doneAt (dStep d op).1.st op.pid := by
  cases op with
  | acq p =>
    simp only [dStep, dAcq, Op.pid]
    exact ⟨semAcquire_err _ _ _, by simp⟩
  | cancel p =>
    simp only [Op.pid] at hlt
    have h1 : doneAt (do1 d.st p .cancel) p := do1_cancel_doneAt d.st p hp hlt
    simp only [dStep, dCancel, Op.pid]
    split
    · split
      · refine ⟨by simp, ?_⟩
        intro w hw he
        simp only [List.mem_cons] at hw
        rcases hw with rfl | hw
        · exact ⟨rfl, notify_doneAt _ _ _ (by simpa [setQ_st] using do1_doneAt _ p .abort _ h1)⟩
        · rw [notify_woke_ok _ _ w hw] at he; cases he
      · refine ⟨by simp, ?_⟩
        intro w hw he
        simp only [List.mem_singleton] at hw
        subst hw
        exact ⟨rfl, by simpa [setQ_st] using do1_doneAt _ p .abort _ h1⟩
    · split
      · split
        · refine ⟨by simp, ?_⟩
          intro w hw he
          simp only [List.mem_cons] at hw
          rcases hw with rfl | hw
          · exact ⟨rfl, notify_doneAt _ _ _ (by simpa [setQ_st] using do1_doneAt _ p .abort _ h1)⟩
          · rw [notify_woke_ok _ _ w hw] at he; cases he
        · refine ⟨by simp, ?_⟩
          intro w hw he
          simp only [List.mem_singleton] at hw
          subst hw
          exact ⟨rfl, by simpa [setQ_st] using do1_doneAt _ p .abort _ h1⟩
      · exact ⟨by simp, by simp⟩
  | expire p => simp [dStep, dExpire]
  | yield p =>
    simp only [dStep, dYield, Op.pid]
    split
    · simp
    · split
      · simp
      · split
        · simp
        · split
          · refine ⟨semAcquire_err _ _ _, ?_⟩
            intro w hw he
            rw [notify_woke_ok _ _ w hw] at he; cases he
          · exact ⟨semAcquire_err _ _ _, by simp⟩
  | rel p =>
    simp only [dStep, dRelease, Op.pid]
    split
    · simp
    · split
      · simp
      · split
        · refine ⟨by simp, ?_⟩
          intro w hw he
          rw [notify_woke_ok _ _ w hw] at he; cases he
        · simp

/-- **the executable statement holds of the model** (`Spec.checkRun` is what the check evaluates on the real
    scheduler's observations): for every capacity, batch divisor, set of initially-done contexts and every operation
    script, run on the director model it finds no over-capacity, no counter that disagrees with the owner ledger, no
    spurious failure and no leak at quiescence; its only possible complaint is `bad-event`, for scripts that no client
    can issue (e.g. `Release` on a search that never acquired). Proof: simulation between the ledger and the model
    (`Sim`: per search the ledger entry describes its location / slot / flags; each queue lists exactly the waiting
    searches), preserved by every operation including `notifyWaiters` (C20/RunSpec.lean). -/
theorem C20_checkRun (capacity batchdiv : Nat) (dones : List Bool) (ops : List Op) :
    checkRun capacity (batchCap capacity batchdiv) dones ops (dRun (dInit capacity batchdiv dones) ops).2 = none ∨
    checkRun capacity (batchCap capacity batchdiv) dones ops (dRun (dInit capacity batchdiv dones) ops).2 = some "bad-event" :=
  checkRun_model capacity batchdiv dones ops

/-- … and for scripts a client can issue (`LegalRun`: every operation addresses an existing search; `Acquire` is the
    first call on it; `Yield` / `Release` come while it has a process and no call of it is blocked — what the harness
    generates) the statement holds outright -/
theorem C20_checkRun_legal (capacity batchdiv : Nat) (dones : List Bool) (ops : List Op)
    (hleg : LegalRun (dInit capacity batchdiv dones) ops) :
    checkRun capacity (batchCap capacity batchdiv) dones ops (dRun (dInit capacity batchdiv dones) ops).2 = none :=
  checkRun_model_legal capacity batchdiv dones ops hleg

/-- non-vacuity of `C20_checkRun`: a script with blocking, cancellation while queued, a move to batch that wakes a
    waiter, a failed move to batch and repeated `Release` is accepted (`none`, not `bad-event`) -/
example :
    let ops : List Op := [.acq 0, .acq 1, .acq 2, .cancel 2, .acq 3, .expire 0, .yield 0, .expire 1, .cancel 1, .yield 1,
      .rel 0, .rel 1, .rel 1, .rel 3]
    checkRun 2 1 [false, false, false, false] ops (dRun (dInit 2 4 [false, false, false, false]) ops).2 = none := by decide

/-- a concurrent log accepted by `replay` is a path of the small-step model (so an accepted log certifies bounded
    occupancy of the logged holding intervals) -/
theorem replay_reach (s0 : State) : ∀ (evs : List Ev) (s s' : State) (i : Nat),
    Reach true s0 s → replay s evs i = .ok s' → Reach true s0 s' := by
  intro evs
  induction evs with
  | nil => intro s s' i h hr; simp [replay] at hr; exact hr ▸ h
  | cons e t ih =>
    intro s s' i h hr
    unfold replay at hr
    split at hr
    · split at hr
      · exact ih _ _ _ h hr
      · simp at hr
    · split at hr
      · rename_i s1 hs; exact ih _ _ _ (runActs_reach _ _ _ h hs) hr
      · simp at hr

/-- the batch capacity is never 0 (`newMultiScheduler`: `if batchCap == 0 { batchCap = 1 }`) -/
theorem batchCap_pos (c d : Nat) : 0 < batchCap c d := by
  unfold batchCap
  by_cases h : c / (if d = 0 then 4 else d) = 0
  · simp [h]
  · simp only [h, ↓reduceIte]; exact Nat.pos_of_ne_zero h

/-! ## non-vacuity -/

/-- both semaphores can be full at once (capacity 1/1, three searches): the bounds are tight
    (`runActs_reach`: the state is `Reach`able) -/
example : ∃ s, runActs true (init 1 1 [false, false, false])
      [(0, .start), (0, .grant), (0, .wake), (0, .expire), (0, .yield), (0, .grant), (0, .wake),
       (1, .start), (1, .grant), (1, .wake), (2, .start)] = some s ∧ s.curI = 1 ∧ s.curB = 1 ∧
    (s.procs.map (·.loc)) = [.run, .run, .waitI] := ⟨_, rfl, by decide, by decide, by decide⟩

/-- `grant` is really blocked at capacity -/
example : step true (init 1 1 [false, false]) 0 .start >>= (step true · 0 .grant) >>= (step true · 1 .start)
    >>= (step true · 1 .grant) = none := by decide

/-- a failed move to the batch queue leaves the search owning nothing, and `Release` afterwards is harmless -/
example : ∃ s, runActs true (init 1 1 [false, false])
    [(0, .start), (0, .grant), (0, .wake), (0, .expire), (0, .yield), (0, .grant), (0, .wake),   -- 0 holds batch
     (1, .start), (1, .grant), (1, .wake), (1, .expire), (1, .yield),                            -- 1 queues on batch
     (1, .cancel), (1, .abort), (1, .release), (0, .release)] = some s ∧
    s.curI = 0 ∧ s.curB = 0 ∧ s.panicked = false := ⟨_, rfl, by decide, by decide, by decide⟩

/-- the hypothesis of `failure_needs_done` is satisfiable, and without a done context `abort` is not enabled -/
example : (step true (init 1 1 [true]) 0 .start >>= (step true · 0 .abort)).isSome = true ∧
    (step true (init 1 1 [false]) 0 .start >>= (step true · 0 .abort)) = none := by decide

/-- why `no_leak_at_quiescence` needs the client protocol: `Release` stops the timer, `Exceeded()` then reports true,
    and a `Yield` issued after `Release` acquires a batch slot that nobody will give back (`strict = false`). -/
theorem yield_after_release_holds_a_slot : ∃ s, runActs false (init 1 1 [false])
    [(0, .start), (0, .grant), (0, .wake), (0, .release), (0, .yield), (0, .grant), (0, .wake)] = some s ∧
    (∀ p ∈ s.procs, p.quiescent = true) ∧ s.curB = 1 := ⟨_, rfl, by decide, by decide⟩

/-- the executable statement is discriminating: it rejects an observation over capacity, a counter that disagrees with
    the owners (a slot leaked by a yield), a failure without cancellation, and slots held at quiescence -/
example :
    checkRun 1 1 [false, false] [.acq 0, .acq 1] [⟨⟨.ok, []⟩, 1, 0, 0, 0, []⟩, ⟨⟨.ok, []⟩, 2, 0, 0, 0, []⟩] = some "over-capacity" ∧
    checkRun 2 1 [false] [.acq 0, .expire 0, .yield 0] [⟨⟨.ok, []⟩, 1, 0, 0, 0, []⟩, ⟨⟨.none, []⟩, 1, 0, 0, 0, []⟩, ⟨⟨.ok, []⟩, 1, 1, 0, 0, []⟩]
      = some "held-ne-owners" ∧
    checkRun 1 1 [false] [.acq 0] [⟨⟨.err, []⟩, 0, 0, 0, 0, []⟩] = some "spurious-failure" ∧
    checkRun 1 1 [false] [.acq 0, .rel 0] [⟨⟨.ok, []⟩, 1, 0, 0, 0, []⟩, ⟨⟨.none, []⟩, 1, 0, 0, 0, []⟩] = some "held-ne-owners" ∧
    checkRun 1 1 [false] [.acq 0, .rel 0] [⟨⟨.ok, []⟩, 1, 0, 0, 0, []⟩, ⟨⟨.none, []⟩, 0, 0, 0, 0, []⟩] = none := by decide

/-- a context that becomes done *during* `Acquire` (`fired`): failing is then not spurious — but a call that fails after
    the semaphore granted it the slot must have put the slot back -/
example :
    checkRun 1 1 [false] [.acq 0] [⟨⟨.err, []⟩, 0, 0, 0, 0, [0]⟩] = none ∧
    checkRun 1 1 [false] [.acq 0] [⟨⟨.err, []⟩, 1, 0, 0, 0, [0]⟩] = some "held-ne-owners" ∧
    checkRun 1 1 [false] [.acq 0] [⟨⟨.ok, []⟩, 1, 0, 0, 0, [0]⟩] = none ∧
    checkRun 1 1 [false, false] [.acq 0, .acq 1, .rel 0]
      [⟨⟨.ok, []⟩, 1, 0, 0, 0, []⟩, ⟨⟨.blocked, []⟩, 1, 0, 1, 0, []⟩, ⟨⟨.none, [(1, .err)]⟩, 1, 0, 0, 0, [1]⟩]
      = some "held-ne-owners" := by decide

/-- the director model reproduces the blocking behaviour: third search blocks, is woken by a release -/
example : ((dRun (dInit 2 0 [false, false, false]) [.acq 0, .acq 1, .acq 2, .rel 0]).2.map
    fun o => (o.out.self, o.out.woke, o.curI, o.waitI)) =
    [(.ok, [], 1, 0), (.ok, [], 2, 0), (.blocked, [], 2, 1), (.none, [(2, .ok)], 2, 0)] := by decide

end ZoektModel.C20
