/-
C20 — The search scheduler bounds concurrency and never leaks slots.  Property theorems only; lemmas in C20/Lemmas.lean.
-/
import ZoektModel.C20.Lemmas
namespace ZoektModel.C20

theorem batchCap_pos (c d : Nat) : 0 < batchCap c d := by
  unfold batchCap; simp only []; split <;> omega

end ZoektModel.C20
