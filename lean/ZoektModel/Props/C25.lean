/-
C25 — Streaming delivers every file once and conserves statistics.  Property theorems only; lemmas live in C25/Lemmas.lean.

Statement (properties.jsonl): when results are streamed to a gRPC client, every file match produced by the shards is
delivered exactly once and in the order produced, messages stay within the size budget unless a single file exceeds it,
and for every statistics counter the sum over delivered messages equals the sum over the produced results.
Quantifier: all sequences of produced results (empty stats-only events, events with files, very large files,
interleavings) and flush points.

The theorems quantify over every event list, every size budget `max` and every sampling period.
`Holds max evs msgs` (Spec.lean) is the statement; `checkP` is its executable form, evaluated by the driver on the
messages the real server sent.
-/
import ZoektModel.C25.Lemmas
import ZoektModel.Generated.C25Stream
namespace ZoektModel.C25
open ZoektModel

/-! ### chunk.SendAll -/

/-- **chunker: order, exactly once, size budget.** For every budget and every item list, the chunks handed to
    `sendFunc` concatenate to the items (same order, each exactly once), and every chunk totals less than the budget
    unless it has at most one item. -/
theorem chunker_partition (max : Nat) (items : List File) :
    (sendAll max items).flatten = items ∧
    ∀ ch ∈ sendAll max items, sumSize ch < max ∨ ch.length ≤ 1 :=
  ⟨sendAll_flatten max items, sendAll_ok max items⟩

/-- an over-budget chunk is a single file that itself reaches the budget -/
theorem chunker_over_budget_is_single_file (max : Nat) (hmax : 0 < max) (items : List File) (ch : List File)
    (h : ch ∈ sendAll max items) (hover : max ≤ sumSize ch) : ∃ f, ch = [f] ∧ max ≤ f.size := by
  rcases sendAll_ok max items ch h with hlt | hlen
  · omega
  · cases ch with
    | nil => simp at hover; omega
    | cons f r =>
      cases r with
      | nil => exact ⟨f, rfl, by simpa using hover⟩
      | cons g r' => simp at hlen

/-- the only empty chunk `SendAll` can produce is the very first one (when the first item alone reaches the budget):
    after the first item, no empty chunk is sent -/
theorem chunker_no_empty_chunk_after_first (max : Nat) (it : File) (rest : List File) :
    ∀ ch ∈ Chunker.go max ((Chunker.sendOne max ⟨[], 0⟩ it).1) rest, ch ≠ [] :=
  go_no_empty max _ rest (sendOne_buf_ne_nil max _ it)

/-- at least one chunk is sent when there is at least one item -/
theorem chunker_sends_something (max : Nat) (items : List File) (h : items ≠ []) : sendAll max items ≠ [] :=
  go_ne_nil max _ items (Or.inr h)

/-! ### gRPCChunkSender -/

/-- **per event: files exactly once in order, stats exactly once, budget kept** -/
theorem grpc_sender_conserves (max : Nat) (ev : Event) : Holds max [ev] (grpcSend max ev) := by
  refine ⟨?_, ?_, ?_⟩
  · simp [grpcSend_files]
  · intro i; simp [grpcSend_ctr]
  · exact grpcSend_ok max ev

/-- every event produces at least one message (a stats-only event is sent immediately) -/
theorem grpc_sender_sends_something (max : Nat) (ev : Event) : grpcSend max ev ≠ [] := by
  unfold grpcSend
  split
  · simp
  · rename_i h
    have hne : sendAll max ev.files ≠ [] := chunker_sends_something max ev.files (by intro hn; simp [hn] at h)
    cases hc : sendAll max ev.files with
    | nil => exact absurd hc hne
    | cons c r => simp [grpcChunks]

/-! ### samplingSender -/

/-- **sampler: for every event sequence followed by `Flush`, files pass through in order exactly once and every
    counter is conserved** (whatever the sampling period) -/
theorem sampling_conserves (period : Nat) (evs : List Event) :
    producedFiles (sample period evs) = producedFiles evs ∧
    ∀ i, producedCtr (sample period evs) i = producedCtr evs i :=
  ⟨sample_files period evs, sample_ctr period evs⟩

/-- the invariant behind it, at every point of the history: forwarded + still aggregated = produced so far -/
theorem sampling_invariant (period : Nat) (evs : List Event) (i : Nat) :
    producedCtr (Sampler.run period Sampler.init evs).2 i
      + (Sampler.run period Sampler.init evs).1.agg.stats.ctr i = producedCtr evs i := by
  have h := run_ctr period Sampler.init evs i
  have h0 : Sampler.init.agg.stats.ctr i = 0 := ctr_empty i
  omega

/-- what `Flush` is for: without it exactly the aggregate is missing -/
theorem sampling_without_flush_loses_aggregate (period : Nat) (evs : List Event) (i : Nat) :
    producedCtr (sampleNoFlush period evs) i
      = producedCtr evs i - (Sampler.run period Sampler.init evs).1.agg.stats.ctr i := by
  have h := sampling_invariant period evs i
  unfold sampleNoFlush
  omega

/-- the sampler never forwards a stats-only event whose counters are all zero, and never holds files back:
    every forwarded event either has files or has a non-zero counter -/
theorem sampling_forwards_nothing_empty (period : Nat) (s : Sampler) (ev : Event) :
    ∀ e ∈ (s.send period ev).2, e.files ≠ [] ∨ e.stats.zero = false := by
  unfold Sampler.send
  dsimp only
  split
  · split
    · rename_i h
      intro e he
      simp at he
      subst he
      right
      simp at h
      simpa using h.2
    · simp
  · rename_i hf
    have hf : ev.files ≠ [] := by intro hn; simp [hn] at hf
    split <;> · intro e he; simp at he; subst he; exact Or.inl hf

/-! ### the whole pipeline: Server.StreamSearch -/

/-- **C25** for the pipeline `samplingSender → gRPCChunkSender → chunk.SendAll`, final `Flush` included:
    for every event sequence, budget and period, the messages the client receives carry every produced file exactly
    once in production order, conserve every counter, and stay within the size budget unless a single file exceeds it. -/
theorem C25_stream_conserves (max period : Nat) (evs : List Event) :
    Holds max evs (pipeline max period evs) := by
  unfold pipeline
  refine ⟨?_, ?_, ?_⟩
  · rw [flatMap_grpc_files, sample_files]
  · intro i
    rw [flatMap_grpc_ctr, sample_ctr]
  · exact flatMap_grpc_ok max _

theorem holds_checkP (max : Nat) (evs : List Event) (msgs : List Msg) (h : Holds max evs msgs) :
    checkP max evs msgs = true := by
  obtain ⟨hf, hc, hb⟩ := h
  unfold checkP filesOk countersOk budgetOk
  simp only [Bool.and_eq_true, beq_iff_eq, List.all_eq_true, decide_eq_true_eq]
  refine ⟨⟨hf, fun i _ => hc i⟩, fun m hm => ?_⟩
  unfold withinBudget
  rcases hb m hm with h | h <;> simp [h]

/-- the executable statement means the statement: whenever the driver's `checkP` accepts the messages the real server
    sent, `Holds` is true of them (counters are only enumerated up to `width`; beyond it both sides are 0) -/
theorem checkP_sound (max : Nat) (evs : List Event) (msgs : List Msg) (h : checkP max evs msgs = true) :
    Holds max evs msgs := by
  unfold checkP filesOk countersOk budgetOk at h
  simp only [Bool.and_eq_true, beq_iff_eq, List.all_eq_true, decide_eq_true_eq] at h
  obtain ⟨⟨hf, hc⟩, hb⟩ := h
  refine ⟨hf, fun i => ?_, fun m hm => ?_⟩
  · by_cases hi : i < width evs msgs
    · exact hc i (List.mem_range.mpr hi)
    · have := beyond_width evs msgs i (by omega)
      rw [this.1, this.2]
  · have := hb m hm
    unfold withinBudget at this
    simp only [Bool.or_eq_true, decide_eq_true_eq] at this
    exact this

/-- **C25 as evaluated by the driver** on the implementation's messages -/
theorem C25_checkP (max period : Nat) (evs : List Event) :
    checkP max evs (pipeline max period evs) = true :=
  holds_checkP _ _ _ (C25_stream_conserves max period evs)

/-! ### upstream of the gRPC layer: the collecting sender with its flush points (search/aggregate.go) -/

/-- **flush collector: for every sequence of results and timer events (flush points at any position), followed by the
    final flush**: every counter is conserved, and the file matches sent on are a permutation of the file matches received
    (they are ranked at the flush point; after it they pass through unchanged) — whatever ranking permutation is used -/
theorem collector_conserves (sort : List File → List File) (hsort : ∀ l, (sort l).Perm l) (ops : List FOp) :
    (producedFiles (collect sort ops)).Perm (producedFiles (sentEvents ops)) ∧
    ∀ i, producedCtr (collect sort ops) i = producedCtr (sentEvents ops) i :=
  ⟨collect_files sort hsort ops, collect_ctr sort ops⟩

/-- the ranking the driver uses for the collector cases is a permutation -/
theorem sortByScore_perm (l : List File) : (sortByScore l).Perm l := by
  unfold sortByScore
  exact List.mergeSort_perm _ _

/-- once the flush point has passed, results are not reordered: with the timer first, the collector is the identity -/
theorem collector_after_flush_is_identity (sort : List File → List File) (evs : List Event) :
    collect sort (FOp.timer :: evs.map FOp.send) = evs := by
  have h : ∀ l : List Event, Collector.run sort ⟨false, none⟩ (l.map FOp.send) = (⟨false, none⟩, l) := by
    intro l
    induction l with
    | nil => rfl
    | cons e r ih => simp [Collector.run, Collector.step, ih]
  simp [collect, Collector.run, Collector.step, Collector.init, flushOut, h]

/-- **C25 from the searcher to the client**: searcher → flush collector → sampler → chunk sender → stream.
    Every file match the shards produced is delivered exactly once (the delivered list is a permutation of the produced
    list: ranking may reorder what was collected before the flush point), every counter is conserved, every message is
    within the budget unless it has at most one file. -/
theorem C25_with_collector (sort : List File → List File) (hsort : ∀ l, (sort l).Perm l) (max period : Nat)
    (ops : List FOp) :
    (deliveredFiles (pipelineWithCollector sort max period ops)).Perm (producedFiles (sentEvents ops)) ∧
    (∀ i, deliveredCtr (pipelineWithCollector sort max period ops) i = producedCtr (sentEvents ops) i) ∧
    (∀ m ∈ pipelineWithCollector sort max period ops, sumSize m.files < max ∨ m.files.length ≤ 1) := by
  obtain ⟨hf, hc, hb⟩ := C25_stream_conserves max period (collect sort ops)
  refine ⟨?_, fun i => ?_, hb⟩
  · unfold pipelineWithCollector
    rw [hf]
    exact collect_files sort hsort ops
  · unfold pipelineWithCollector
    rw [hc i]
    exact collect_ctr sort ops i

/-! ### the collector under concurrency: search loop and flush timer, with a downstream sender that may block -/

/-- **for every number of results and every schedule of the two goroutines** (every interleaving of their atomic steps,
    including a downstream Send that stays blocked for arbitrarily many steps of the other goroutine), the observable
    trace of the collector as written is fine: downstream Sends never overlap — so nothing overtakes the aggregate and
    the non-thread-safe senders below are never entered concurrently — and when the final flush returns (StreamSearch
    returns, the stream is closed) every result whose `Send` had returned has been delivered downstream -/
theorem flush_is_atomic_for_every_schedule (n : Nat) (sched : List Tid) :
    checkTrace (runSched false (Sys.init n) sched).trace = true := by
  have h := (runSched_inv sched (Sys.init n) (inv_init n)).obs
  simp [checkTrace, h]

/-- at every point of every schedule at most one downstream Send is in progress, and it is executed by the goroutine that
    holds `mu` -/
theorem downstream_send_holds_the_lock (n : Nat) (sched : List Tid) :
    let s := runSched false (Sys.init n) sched
    (s.pcM = .sending → s.holder = some .main ∧ s.pcT ≠ .sending) ∧
    (s.pcT = .sending → s.holder = some .timer ∧ s.pcM ≠ .sending) := by
  have h := runSched_inv sched (Sys.init n) (inv_init n)
  refine ⟨fun hm => ?_, fun ht => ?_⟩
  · have hh := h.holdM.mpr (by simp [hm, inCrit])
    refine ⟨hh, fun hc => ?_⟩
    have := h.holdT.mpr (by simp [hc, inCrit])
    simp [hh] at this
  · have hh := h.holdT.mpr (by simp [ht, inCrit])
    refine ⟨hh, fun hc => ?_⟩
    have := h.holdM.mpr (by simp [hc, inCrit])
    simp [hh] at this

/-- nothing is lost or duplicated at any point: collected + in flight + delivered = results that went through -/
theorem concurrent_accounting (n : Nat) (sched : List Tid) :
    let s := runSched false (Sys.init n) sched
    s.processed = s.agg + s.flyM + s.flyT + s.delivered :=
  (runSched_inv sched (Sys.init n) (inv_init n)).account

/-- the lock really is what makes it true: if `mu` is released before the aggregate is sent downstream, there is a
    schedule in which the final flush returns while the aggregate is still in flight (results lost when the stream is
    closed), and one in which a later result overtakes it -/
theorem unlocked_flush_full_false :
    checkTrace (runSched true (Sys.init 1)
      [.main, .main, .main, .main, .timer, .timer, .timer, .main, .main, .main, .main]).trace = false ∧
    checkTrace (runSched true (Sys.init 2)
      [.main, .main, .main, .main, .timer, .timer, .timer, .main, .main, .main]).trace = false := by decide

/-- non-vacuity: the same two schedules on the code as written — the blocked goroutine simply waits -/
example :
    (runSched false (Sys.init 2)
      [.main, .main, .main, .main, .timer, .timer, .timer, .main, .main, .main, .timer, .timer,
       .main, .main, .main, .main, .main, .main, .main, .main]).trace
      = [.sendRet, .dBegin 1, .dEnd 1, .dBegin 1, .dEnd 1, .sendRet, .finalRet] := by decide

/-! ### further upstream: sendByRepository (search/shards.go) -/

/-- **sendByRepository: for every shard result**, the events sent carry every file exactly once (each run of one
    repository ranked on its own: a permutation), the statistics exactly once (with the last event), and every event
    holds files of a single repository when the result is split -/
theorem byrepo_conserves (sort : List RFile → List RFile) (hsort : ∀ l, (sort l).Perm l) (multi : Bool) (stats : Stats)
    (files : List RFile) :
    (outFiles (byRepo sort multi stats files)).Perm files ∧
    (∀ i, outCtr (byRepo sort multi stats files) i = stats.ctr i) := by
  unfold byRepo
  split
  · exact ⟨by simpa [outFiles] using hsort files, fun i => by simp [outCtr]⟩
  · rename_i h
    have hne : files ≠ [] := by
      intro hn; subst hn; simp at h
    refine ⟨?_, fun i => attachStats_ctr sort stats _ (groups_ne_nil files hne) i⟩
    have := attachStats_files sort hsort stats (groups files)
    rwa [groups_flatten] at this

/-- when a result is split, each run holds one repository's files only -/
theorem byrepo_single_repository (files : List RFile) : ∀ g ∈ groups files, ∃ r, ∀ f ∈ g, f.repo = r := by
  cases files with
  | nil => simp [groups]
  | cons f rest => exact groupLoop_same_repo f.repo [f] rest (by simp)

example : groups [⟨1, 7⟩, ⟨2, 7⟩, ⟨3, 8⟩, ⟨4, 7⟩] = [[⟨1, 7⟩, ⟨2, 7⟩], [⟨3, 8⟩], [⟨4, 7⟩]] := by decide

/-! ### generated-table obligations (api.go, api_proto.go, sampling.go, chunker.go of the current tree)

The model's `Stats` is "the vector of counters that `Add` adds, and `Zero` is true iff all of them are 0".
These obligations make that reading of the code a checked fact. -/

/-- every field of `Stats` other than `Duration` and `FlushReason` is added by `Stats.Add`
    (a counter that `Add` forgot would be lost by the sampler's aggregation) -/
theorem table_add_covers_every_counter :
    ∀ f ∈ Gen.c25StatsFields, f.1 = "Duration" ∨ f.1 = "FlushReason" ∨ f.1 ∈ Gen.c25StatsAddFields := by decide

/-- `Stats.Zero` tests every field that `Add` adds (otherwise a stats-only event carrying only that field would be
    dropped by `samplingSender`), and nothing else -/
theorem table_zero_tests_exactly_add :
    (∀ f ∈ Gen.c25StatsAddFields, f ∈ Gen.c25StatsZeroFields) ∧
    (∀ f ∈ Gen.c25StatsZeroFields, f ∈ Gen.c25StatsAddFields) := by decide

/-- the only other field `Add` touches is the sticky `FlushReason`; `Add` adds real fields, once each -/
theorem table_add_shape :
    Gen.c25StatsAddOther = ["FlushReason"] ∧
    (∀ f ∈ Gen.c25StatsAddFields, f ∈ Gen.c25StatsFields.map (·.1)) ∧
    Gen.c25StatsAddFields.Nodup := by decide

/-- every counter is an integer field (so it is a `Nat` once non-negative) -/
theorem table_counters_are_integers :
    ∀ f ∈ Gen.c25StatsFields, f.1 ∈ Gen.c25StatsAddFields → f.2 ∈ ["int", "int64", "time.Duration"] := by decide

/-- every counter travels over the wire in both directions -/
theorem table_wire_carries_every_counter :
    (∀ f ∈ Gen.c25StatsAddFields, f ∈ Gen.c25StatsToProto) ∧
    (∀ f ∈ Gen.c25StatsAddFields, f ∈ Gen.c25StatsFromProto) := by decide

/-- the constants are positive (a zero period would divide by zero in Go; a zero budget would make every chunk a singleton) -/
theorem table_constants_positive : 0 < Gen.c25MaxMessageSize ∧ 0 < Gen.c25SamplingPeriod := by decide

/-- the chunker makes up no error of its own: every error it returns is `sendFunc`'s. The model's chunker cannot fail
    (`chunker_partition` is about a total function), and the only caller, gRPCChunkSender, discards the error of
    `chunk.SendAll` — an item the chunker refused would vanish silently together with the rest of its result -/
theorem table_chunker_originates_no_error :
    Gen.c25ChunkerErrorOrigins = [] ∨ ¬ ("discarded" ∈ Gen.c25SendAllErrorUses) := by decide

/-! ### non-vacuity -/

def exStats (a b : Nat) : Stats := ⟨[a, b], 0, 0⟩
def exEvents : List Event :=
  [ ⟨exStats 1 0, ⟨.fin 1, .fin 2⟩, []⟩,                                  -- stats-only: aggregated
    ⟨exStats 0 0, ⟨.fin 1, .fin 2⟩, [⟨1, 6⟩, ⟨2, 5⟩, ⟨3, 20⟩, ⟨4, 1⟩]⟩,    -- files, one of them over the budget of 10
    ⟨exStats 0 7, ⟨.fin 3, .negInf⟩, []⟩ ]                                 -- stats-only: delivered by Flush

example : (pipeline 10 100 exEvents).map (fun m => (m.files.map (·.id), m.stats.map (·.c))) =
    [([1], some [1, 0]), ([2], none), ([3], none), ([4], none), ([], some [0, 7])] := by decide

example : sendAll 10 [⟨1, 20⟩, ⟨2, 3⟩, ⟨3, 3⟩, ⟨4, 4⟩] = [[], [⟨1, 20⟩], [⟨2, 3⟩, ⟨3, 3⟩], [⟨4, 4⟩]] := by decide

/-- without `Flush` the last stats-only event above is lost: the final flush is necessary for conservation -/
example : producedCtr (sampleNoFlush 100 exEvents) 1 = 0 ∧ producedCtr exEvents 1 = 7 := by decide

/-- the 100th stats-only event triggers a send when the aggregate is non-zero -/
example : (sample 2 [⟨exStats 1 0, Prog.empty, []⟩, ⟨exStats 0 0, Prog.empty, []⟩, ⟨exStats 0 1, Prog.empty, []⟩]).map (·.stats.c)
    = [[1, 0], [0, 1]] := by decide

end ZoektModel.C25
