/-
C28 — The RE2 size threshold never changes search results.

Statement (properties.jsonl): for valid UTF-8 content, the files and match ranges returned by regular-expression
searches are the same for every setting of ZOEKT_RE2_THRESHOLD_BYTES (disabled, always, or any size).

zoekt's own logic here is a dispatch between two engines; the theorems say exactly what that dispatch needs from the
engines (`EnginesAgree`: equal `FindAllIndex` on valid UTF-8) and that nothing else can make the threshold visible.
`EnginesAgree` itself is a statement about grafana/regexp and go-re2; it is validated on every run (generated
pattern/subject pairs and real shard searches under different settings), not proved.
-/
import ZoektModel.C28.Spec
namespace ZoektModel.C28
open ZoektModel.Regex

/-- the hypothesis: on inputs satisfying `valid` (valid UTF-8), both engines report the same index pairs -/
def EnginesAgree (E : Engines) (valid : List UInt8 → Prop) : Prop :=
  ∀ r b, valid b → E.grafana r b = E.re2 r b

/-- **dispatch theorem**: if the engines agree on valid input, `FindAllIndex` does not depend on the threshold. -/
theorem hybrid_threshold_irrelevant (E : Engines) (valid : List UInt8 → Prop) (h : EnginesAgree E valid)
    (t t' : Int) (r : Re) (b : List UInt8) (hb : valid b) :
    hybridFindAll E t r b = hybridFindAll E t' r b := by
  unfold hybridFindAll
  split <;> split <;> simp [h r b hb]

/-- the wrapper is a pure selection between the engines' own results — the form in which it is compared with the real
    `hybridre2.FindAllIndex` on inputs of every size class (up to several MiB) -/
theorem hybridFindAll_eq_select (E : Engines) (t : Int) (r : Re) (b : List UInt8) :
    hybridFindAll E t r b = hybridSelect t b.length (E.grafana r b) (E.re2 r b) := rfl

/-- the case setting is part of what is compiled: the case-sensitive and the case-insensitive reading of one regexp text
    are different patterns (so nothing compiled for one may be served to the other) -/
theorem compiledPattern_case_distinct (printed : List UInt8) :
    compiledPattern true printed ≠ compiledPattern false printed := by
  intro h
  have := congrArg List.length h
  simp [compiledPattern] at this
  omega

/-- what `newRegexpMatchTree` compiles is a function of the query alone: the model has no other input — in particular no
    threshold and no history of earlier searches (validated against the real function in long sequences, per threshold) -/
theorem matchTreePatterns_hybrid_eq (cs : Bool) (printed : List UInt8) :
    matchTreePatterns cs false printed = (compiledPattern cs printed, some (compiledPattern cs printed)) := rfl

/-- **C28 at the match-tree level**: the candidate matches `regexpMatchTree.matches` produces for a document are the
    same under any two threshold settings, for content and for file names. -/
theorem threshold_irrelevant (E : Engines) (valid : List UInt8 → Prop) (h : EnginesAgree E valid)
    (t t' : Int) (r : Re) (fileName : Bool) (data : List UInt8) (hd : valid data) :
    regexpMatches E t r fileName data = regexpMatches E t' r fileName data := by
  unfold regexpMatches
  cases fileName
  · simp only [Bool.false_eq_true, if_false]
    rw [hybrid_threshold_irrelevant E valid h t t' r data hd]
  · rfl

/-- **files and match ranges of a whole shard**: for a shard all of whose documents (contents and names) are valid, the
    list of per-document candidate matches — hence the set of returned files (the documents with a non-empty list) and
    every match range — is the same under any two thresholds. -/
theorem shard_results_threshold_irrelevant (E : Engines) (valid : List UInt8 → Prop) (h : EnginesAgree E valid)
    (t t' : Int) (r : Re) (fileName : Bool) (docs : List (List UInt8)) (hd : ∀ d ∈ docs, valid d) :
    docs.map (regexpMatches E t r fileName) = docs.map (regexpMatches E t' r fileName) := by
  apply List.map_congr_left
  intro d hdm
  exact threshold_irrelevant E valid h t t' r fileName d (hd d hdm)

/-- … and under any two *environment values*, well-formed or not. -/
theorem env_irrelevant (E : Engines) (valid : List UInt8 → Prop) (h : EnginesAgree E valid)
    (v v' : Option (List Char)) (r : Re) (fileName : Bool) (data : List UInt8) (hd : valid data) :
    regexpMatches E (thresholdOf v) r fileName data = regexpMatches E (thresholdOf v') r fileName data :=
  threshold_irrelevant E valid h _ _ r fileName data hd

/-- file-name matching never consults the threshold at all (no hypothesis on the engines). -/
theorem filename_ignores_threshold (E : Engines) (t t' : Int) (r : Re) (data : List UInt8) :
    regexpMatches E t r true data = regexpMatches E t' r true data := rfl

/-- with the threshold disabled (unset, negative or malformed value) only grafana/regexp runs. -/
theorem disabled_uses_grafana (E : Engines) (t : Int) (ht : t < 0) (r : Re) (b : List UInt8) :
    hybridFindAll E t r b = E.grafana r b := by
  unfold hybridFindAll hasRE2
  have : decide (t ≥ 0) = false := by simp; omega
  simp [this]

/-- the dispatch is exactly "enabled and input at least `t` bytes". -/
theorem dispatch_iff (t : Int) (n : Nat) : dispatch t n = true ↔ 0 ≤ t ∧ t ≤ (n : Int) := by
  unfold dispatch hasRE2 useRE2
  simp only [Bool.and_eq_true, decide_eq_true_eq, ge_iff_le]
  omega

/-- **the hypothesis is necessary**: if the engines differ on some valid input, two thresholds give different results. -/
theorem threshold_visible_if_engines_differ (E : Engines) (r : Re) (b : List UInt8)
    (hne : E.grafana r b ≠ E.re2 r b) : hybridFindAll E (-1) r b ≠ hybridFindAll E 0 r b := by
  unfold hybridFindAll hasRE2 useRE2
  simpa using hne

/-- an unset variable, and malformed values, mean "disabled" -/
theorem threshold_unset : thresholdOf none = -1 := rfl
example : thresholdOf (some "abc".toList) = -1 := by decide
example : thresholdOf (some "64".toList) = 64 := by decide
example : thresholdOf (some "-5".toList) = -5 := by decide
example : thresholdOf (some "9223372036854775808".toList) = -1 := by decide
/-- non-vacuity: the dispatch really switches engines -/
example : dispatch 64 63 = false ∧ dispatch 64 64 = true ∧ dispatch 0 0 = true ∧ dispatch (-1) 1000 = false := by decide

end ZoektModel.C28
