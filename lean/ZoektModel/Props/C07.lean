/-
C07 — Query parsing and API query decoding never crash.  Property theorems (lemmas: C07/Lemmas.lean).

Statement (properties.jsonl): parsing any string, and decoding any request body sent to the JSON search/list API,
yields a query or an error and never panics. Every query that parsing yields can be searched, listed, printed
and converted to the wire format without panicking.

The theorems are about the Lean port of query/parse.go (C07/Model.lean), in which every unchecked Go slice
expression is an explicit `Outcome.panic` and every open-ended loop runs on fuel (`Outcome.diverge`); they hold
for every input (any list of naturals, in particular any byte string) and for every behaviour `O : Oracle` of
regexp/syntax, regexp.Compile and the language table.
-/
import ZoektModel.C07.Lemmas
import ZoektModel.Generated.ParseTables
import ZoektModel.Generated.QSwitchCases
namespace ZoektModel.C07
open ZoektModel

/-! ### the model's tables are the source's tables (regenerated from the working tree on every run) -/

def strBytes (s : String) : B := s.toList.map (·.toNat)

theorem tokKinds_match_source : Gen.parseTokKinds = tokKinds := by decide

theorem prefixes_match_source : Gen.parsePrefixes.map (fun p => (strBytes p.1, p.2)) = prefixes := by decide

theorem reservedWords_match_source : Gen.parseReservedWords.map (fun p => (strBytes p.1, p.2)) = reservedWords := by decide

theorem toProtoCases_match_source : Gen.toProtoCases = toProtoCases := by decide

theorem newMatchTreeCases_match_source : Gen.newMatchTreeCases = newMatchTreeCases := by decide

theorem newMatchTreeTypeArms_match_source : Gen.newMatchTreeTypeArms = ["TypeFileMatch", "TypeFileName"] := by decide

/-- Go ranges over the `prefixes` map in random order and stops at the first key that is a prefix of the input:
    no key of the table is a prefix of another one, so at most one key can match and the order is irrelevant. -/
theorem prefixes_unambiguous :
    ∀ p ∈ prefixes, ∀ q ∈ prefixes, p.1 <+: q.1 → p = q := by
  have h : (prefixes.all fun p => prefixes.all fun q => !(p.1.isPrefixOf q.1) || (p == q)) = true := by decide
  intro p hp q hq hpre
  have := List.all_eq_true.mp (List.all_eq_true.mp h p hp) q hq
  simp only [Bool.or_eq_true, Bool.not_eq_true'] at this
  rcases this with h1 | h1
  · have := List.isPrefixOf_iff_prefix.mpr hpre
    simp [this] at h1
  · exact eq_of_beq h1

/-- `setType`'s unchecked `t.Text[len(pref):]`: every key of `prefixes` is made of bytes that the tokenizer copies
    unchanged into the token text, and is at least 2 bytes long (the facts `nextToken_never_panics` rests on). -/
theorem prefixes_are_plain_bytes : ∀ p ∈ prefixes, (∀ c ∈ p.1, isDflt c = true) ∧ 2 ≤ p.1.length := prefixes_dflt

/-! ### totality of the tokenizer and the parser -/

/-- **`nextToken` is total**: on every input it returns a token, nil or an error — no slice out of range, no
    endless loop — and a token consumed between 1 and `len(in)` bytes. -/
theorem nextToken_never_panics (inp : B) :
    (nextToken inp).isOkOrErr = true ∧
    ∀ t, nextToken inp = .ok (some t) → 1 ≤ t.input.length ∧ t.input.length ≤ inp.length := by
  have h := nextToken_safe inp
  refine ⟨h.isOkOrErr, ?_⟩
  intro t ht
  exact (h.of_ok ht) t rfl

/-- **`parseStringLiteral` is total** on every input that starts with a quote (or any byte). -/
theorem parseStringLiteral_never_panics (inp : B) (h : 1 ≤ inp.length) : (parseStringLiteral inp).isOkOrErr = true :=
  (parseStringLiteral_safe inp h).isOkOrErr

/-- **`parseExpr` / `parseExprList` are total** with fuel `3·len+1` / `3·len+3`: the fuel never runs out
    (termination) and no slice is out of range; the consumed count is at most `len(in)`. -/
theorem parseExprList_never_panics (O : Oracle) (inp : B) (fuel : Nat) (h : 3 * inp.length + 3 ≤ fuel) :
    (parseExprList O fuel inp).isOkOrErr = true ∧
    ∀ qs n, parseExprList O fuel inp = .ok (qs, n) → n ≤ inp.length := by
  have hs := (parser_safe O fuel).2.2 inp h
  refine ⟨hs.isOkOrErr, ?_⟩
  intro qs n heq
  exact (hs.of_ok heq).1

/-- **C07, first sentence: `Parse` is total.** For every input string and every behaviour of the regexp and
    language libraries, `query.Parse` returns a query or an error: it neither panics nor loops. -/
theorem parse_total (O : Oracle) (s : B) : (parse O s).isOkOrErr = true :=
  (parse_safe O s).isOkOrErr

/-- the node kinds (and shapes) `Parse` can return: And/Or/Not/Type over Const, Substring, Regexp, Repo,
    RawConfig, Branch, Language, Symbol(Substring|Regexp), Meta — never a nil child, never `caseQ`,
    `orOperator` or `caseScopeQ`. -/
theorem parse_output_kinds (O : Oracle) (s : B) (q : Q) (h : parse O s = .ok q) : clean q = true :=
  (parse_safe O s).of_ok h

/-- **C07, second sentence (wire format):** every query `Parse` yields is converted by `QToProto` without
    reaching its panicking `default:` — every kind it can contain has a `case`. -/
theorem parsed_is_convertible (O : Oracle) (s : B) (q : Q) (h : parse O s = .ok q) :
    toProto Gen.toProtoCases q = .ok () := by
  rw [toProtoCases_match_source]
  exact toProto_clean q (parse_output_kinds O s q h)

/-- **C07, second sentence (search, list):** `newMatchTree` — the first thing a shard does with a query in
    `Search` and `List` — never falls out of its type switch into `log.Panicf` on a parsed query
    (`type:repo` that was not evaluated first is an error return). -/
theorem parsed_is_searchable (O : Oracle) (s : B) (q : Q) (h : parse O s = .ok q) :
    (matchTree Gen.newMatchTreeCases newMatchTreeTypeArms q).isOkOrErr = true := by
  rw [newMatchTreeCases_match_source]
  exact (matchTree_clean q (parse_output_kinds O s q h)).isOkOrErr

/-- **C07 as evaluated by the driver on the implementation's behaviour** -/
theorem C07_checkP (O : Oracle) (s : B) : checkP (observe O s) = true := by
  have hp := parse_safe O s
  unfold observe
  cases hq : parse O s with
  | ok q =>
    have hc : clean q = true := by rw [hq] at hp; exact hp
    have h1 := toProto_clean q hc
    have h2 := (matchTree_clean q hc)
    simp only [checkP, crashFree, clsOf, h1]
    cases hm : matchTree newMatchTreeCases newMatchTreeTypeArms q with
    | ok _ => simp [clsOf]
    | err _ => simp [clsOf]
    | panic _ => rw [hm] at h2; exact h2.elim
    | diverge => rw [hm] at h2; exact h2.elim
  | err e => simp [checkP, crashFree, clsOf]
  | panic st => rw [hq] at hp; exact hp.elim
  | diverge => rw [hq] at hp; exact hp.elim

/-- **JSON API:** given the decoded `Q` field, the handlers either answer 400 or hand a parsed query to the
    searcher; the parse step cannot crash. -/
theorem json_decision_total (O : Oracle) (isSearch : Bool) (q : B) :
    jsonStatus O isSearch q = "400" ∨ jsonStatus O isSearch q = "run" := by
  have hp := parse_safe O q
  unfold jsonStatus
  split
  · exact Or.inl rfl
  · cases hq : parse O q with
    | ok _ => exact Or.inr rfl
    | err _ => exact Or.inl rfl
    | panic st => rw [hq] at hp; exact hp.elim
    | diverge => rw [hq] at hp; exact hp.elim

/-- the full statement is false of the tree before the three fix commits: with the old `QToProto` case list
    (no `Meta`) the parsed query `meta.x:y` panics in conversion. -/
def oldToProtoCases : List String := toProtoCases.filter (· != "Meta")
def anyOracle : Oracle := ⟨fun _ => .err, fun _ => true, fun _ => none⟩
theorem C07_full_false_before_fix :
    ∃ q, parse anyOracle [109,101,116,97,46,120,58,121] = .ok q ∧
      toProto oldToProtoCases q = .panic "QToProto:Meta" := by
  refine ⟨.metaQ [120] [121], by rfl, by decide⟩

/-! ### non-vacuity: concrete parses (kernel-evaluated) -/

/-- `-(foo or f:bar) case:yes` with `foo`, `bar` plain literals: Not(Or) with both atoms case-sensitive -/
example :
    parse anyOracle [45,40,102,111,111,32,111,114,32,102,58,98,97,114,41,32,99,97,115,101,58,121,101,115] =
      .ok (.not (.or [.substr [102,111,111] true false false [102,111,111],
                      .substr [98,97,114] true true false [98,97,114]])) := by rfl

/-- `-case:yes` and `-type:repo` are rejected (fix 03fc083); `"(` is an error, not a crash -/
example : (parse anyOracle [45,99,97,115,101,58,121,101,115]).cls = "err" := by decide
example : (parse anyOracle [45,116,121,112,101,58,114,101,112,111]).cls = "err" := by decide
example : (parse anyOracle [34,40]).cls = "err" := by decide

end ZoektModel.C07
