/-
C07 — Query parsing and API query decoding never crash.  Property theorems.
-/
import ZoektModel.C07.Spec
import ZoektModel.Generated.ParseTables
import ZoektModel.Generated.QSwitchCases
namespace ZoektModel.C07
open ZoektModel

/-! ### the model's tables are the source's tables (regenerated from /repo on every run) -/

def strBytes (s : String) : B := s.toList.map (·.toNat)

theorem tokKinds_match_source : Gen.parseTokKinds = tokKinds := by decide

theorem prefixes_match_source : Gen.parsePrefixes.map (fun p => (strBytes p.1, p.2)) = prefixes := by decide

theorem reservedWords_match_source : Gen.parseReservedWords.map (fun p => (strBytes p.1, p.2)) = reservedWords := by decide

theorem toProtoCases_match_source : Gen.toProtoCases = toProtoCases := by decide

theorem newMatchTreeCases_match_source : Gen.newMatchTreeCases = newMatchTreeCases := by decide

theorem newMatchTreeTypeArms_match_source : Gen.newMatchTreeTypeArms = ["TypeFileMatch", "TypeFileName"] := by decide

end ZoektModel.C07
