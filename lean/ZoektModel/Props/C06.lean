/-
C06 — Query strings mean what the query-language documentation says.  Property theorems (lemmas: C06/Lemmas.lean).

Statement (properties.jsonl): for every query string in the documented grammar, the parsed query selects the same
documents as an independent interpretation of doc/query_syntax.md: field prefixes and aliases select the documented
filter, '-' negates, parentheses group, juxtaposition is conjunction and 'or' is a lower-precedence disjunction,
'case:' and 'type:' apply to their enclosing group, quoting and backslash escapes are honoured, case:auto is
case-sensitive exactly when the pattern has an upper-case letter, and patterns without regex operators behave as
literals.

What is proved here is about the Lean port of query/parse.go (C07/Model.lean) and the documented meaning `semQ`
(C06/Spec.lean); which clauses are theorems and which are validated by correspondence only is listed in
props/C06.json.
-/
import ZoektModel.C06.Opens
import ZoektModel.C06.Compose
import ZoektModel.C06.WF
import ZoektModel.Generated.ParseTables
namespace ZoektModel.C06
open ZoektModel ZoektModel.C07

/-! ### field prefixes and aliases select the documented filter -/

/-- every documented field spelling, with the token kind of its field -/
def documentedPrefixes : List (Field × Nat) :=
  [(.content, 0), (.content, 1), (.file, 0), (.file, 1), (.regex, 0), (.repo, 0), (.repo, 1), (.sym, 0),
   (.branch, 0), (.branch, 1), (.lang, 0), (.archived, 0), (.fork, 0), (.pub, 0)]

/-- each documented spelling is a key of the parser's `prefixes` table (as regenerated from the source), mapped to
    the token kind of the documented field; `meta.` is the remaining key -/
theorem alias_table :
    documentedPrefixes.all (fun p =>
      (Gen.parsePrefixes.map fun e => (C07.strBytesC06 e.1, e.2)).contains (fieldPrefix p.1 p.2 [], tokTypeOf p.1)) = true := by
  decide

/-- …and the table has no other key than the documented spellings, `case:`, `type:`/`t:` and `meta.` -/
theorem prefix_table_is_documented :
    (Gen.parsePrefixes.map fun e => C07.strBytesC06 e.1).all (fun k =>
      (documentedPrefixes.map fun p => fieldPrefix p.1 p.2 []).contains k ||
      k == [99,97,115,101,58] || k == [116,121,112,101,58] || k == [116,58] || k == [109,101,116,97,46]) = true := by
  decide

/-- what each token kind becomes (`atomOf`) asks the documented question of a document (`keyOf`): the flags -/
theorem flag_fields (O : Oracle) :
    atomOf O ⟨tokArchived, bYes, []⟩ = .ok (some (.rawConfig 16)) ∧ atomOf O ⟨tokArchived, bNo, []⟩ = .ok (some (.rawConfig 32)) ∧
    atomOf O ⟨tokFork, bYes, []⟩ = .ok (some (.rawConfig 4)) ∧ atomOf O ⟨tokFork, bNo, []⟩ = .ok (some (.rawConfig 8)) ∧
    atomOf O ⟨tokPublic, bYes, []⟩ = .ok (some (.rawConfig 1)) ∧ atomOf O ⟨tokPublic, bNo, []⟩ = .ok (some (.rawConfig 2)) := by
  refine ⟨rfl, rfl, rfl, rfl, rfl, rfl⟩

/-! ### '-' negates -/

theorem negation_sem (c : Corpus) (q : Q) (d : Nat) : evalQ c (.not q) d = !(evalQ c q d) := rfl

/-! ### juxtaposition is conjunction and 'or' is a lower-precedence disjunction -/

/-- **`parseOperators`** — the function that interprets a group's operands — yields a tree that selects exactly
    what the flat left-to-right reading `itemsSem` selects: operands between two `or`s are conjoined, the
    alternatives are disjoined. For every operand list and every corpus. -/
theorem or_precedence (c : Corpus) (qs : List Q) (r : Q) (h : parseOperators qs = .ok r) (d : Nat) :
    evalQ c r d = itemsSem (evalQ c) qs (fun _ => true) d :=
  parseOperators_sem (evalQ c)
    (fun cs d => by simp only [evalQ, evalAnd_eq_allEv])
    (fun cs d => by simp only [evalQ, evalOr_eq_anyEv]) qs r h d

/-- the same after an enclosing list applied its `case:` to the group (`setCase k` distributes) -/
theorem or_precedence_under_setCase (c : Corpus) (k : B) (qs : List Q) (r : Q) (h : parseOperators qs = .ok r) (d : Nat) :
    evalQ c (setCase k r) d = itemsSem (evalK c k) qs (fun _ => true) d :=
  parseOperators_sem (evalK c k) (evalK_and c k) (evalK_or c k) qs r h d

/-- non-vacuity: `a b or c` reads `(a ∧ b) ∨ c` -/
example (ev : Q → DocPred) (a b c : Q) (ha : isOrOp a = false) (hb : isOrOp b = false) (hc : isOrOp c = false) (d : Nat) :
    itemsSem ev [a, b, .orOp, c] (fun _ => true) d = ((ev a d && ev b d) || ev c d) := by
  have ho : isOrOp .orOp = true := rfl
  simp only [itemsSem, ha, hb, hc, ho, Bool.false_eq_true, if_false, if_true, Bool.true_and]

/-! ### 'case:' applies to its enclosing group -/

/-- an inner group with its own `case:` is wrapped in `caseScopeQ`, which an enclosing list's `case:` cannot enter -/
theorem case_scope_inner_explicit_wins (k : B) (q : Q) : setCase k (.caseScope q) = .caseScope q :=
  setCase_caseScope k q

/-- an inner group without its own `case:` (its atoms were set by the default `auto`, or by anything else)
    takes the case of the enclosing list -/
theorem case_scope_inherited (k k2 : B) (hk : k = bYes ∨ k = bNo ∨ k = bAuto) (q : Q) :
    setCase k (setCase k2 q) = setCase k q :=
  setCase_idem k k2 hk q

/-- `finishList` with a `case:` directive: the directive is consumed, its flavor is applied to every operand and
    every operand is protected from enclosing lists (wrapped) -/
theorem case_directive_scopes_whole_list (qs : List Q)
    (h : (scanDirectives qs bAuto false 100 []).2.1 = true) (ht : (scanDirectives qs bAuto false 100 []).2.2.1 = 100) :
    finishList qs = .ok (wrapScopes (setCaseList (scanDirectives qs bAuto false 100 []).1 (scanDirectives qs bAuto false 100 []).2.2.2)) := by
  unfold finishList
  simp only [ht, h, ne_eq, not_true_eq_false, if_false, if_true, C07.bind_ok]

/-! ### 'type:' applies to its enclosing group, `or` clauses included -/

/-- `finishList` with a `type:` directive: *all* remaining operands of the list — every `or` alternative — become
    the single child of one `Type` node -/
theorem type_directive_scopes_whole_list (qs : List Q) (typed : Q)
    (ht : (scanDirectives qs bAuto false 100 []).2.2.1 ≠ 100) (hs : (scanDirectives qs bAuto false 100 []).2.1 = false)
    (hp : parseOperators (setCaseList (scanDirectives qs bAuto false 100 []).1 (scanDirectives qs bAuto false 100 []).2.2.2) = .ok typed) :
    finishList qs = .ok [.type (scanDirectives qs bAuto false 100 []).2.2.1 typed] := by
  unfold finishList
  simp only [ht, hs, ne_eq, not_false_eq_true, if_true, hp, C07.bind_ok, Bool.false_eq_true, if_false]

/-- `type:repo` selects every document of a repository with a selected document; the other types select what
    their expression selects -/
theorem type_sem (c : Corpus) (t : Nat) (q : Q) :
    evalQ c (.type t q) = if t = 2 then repoLift c (evalQ c q) else evalQ c q := by
  simp only [evalQ]

/-! ### literals and case:auto -/

/-- patterns made of plain characters (no regexp operator) are literals with the same bytes -/
theorem plain_is_literal (O : Oracle) (t : B) (h : isPlainLit t = true) (ct f : Bool) :
    regexpQuery O t ct f = .ok (.substr t false f ct t) := by
  simp [regexpQuery, classify, h]

/-- …and under `case:auto` such a literal is case-sensitive exactly when it has an upper-case letter -/
theorem auto_case_plain (t : B) (h : isPlainLit t = true) (f ct : Bool) :
    setCaseAtom bAuto (.substr t false f ct t) = .substr t (hasUpper t) f ct t := by
  have := hasUpper_plain t (plain_no_backslash t h)
  simp [setCaseAtom, bAuto, bYes, bNo, this]

/-- `case:yes` / `case:no` fix case sensitivity regardless of the pattern -/
theorem explicit_case (p : B) (cs f ct : Bool) (s : B) :
    setCaseAtom bYes (.substr p cs f ct s) = .substr p true f ct s ∧
    setCaseAtom bNo (.substr p cs f ct s) = .substr p false f ct s := by
  simp [setCaseAtom, bYes, bNo]

/-! ### quoting and backslash escapes -/

/-- `parseStringLiteral` inverts the documented quoted form: reading `quote t` gives back `t` and consumes it all -/
theorem pslLoop_escapeQuoted : ∀ (t lit rest : B), pslLoop (escapeQuoted t ++ 34 :: rest) lit = .ok (lit ++ t, rest)
  | [], lit, rest => by
    simp only [escapeQuoted, List.nil_append, List.append_nil]
    unfold pslLoop
    simp
  | c :: t, lit, rest => by
    unfold escapeQuoted
    split
    · rename_i h
      have ih := pslLoop_escapeQuoted t (lit ++ [c]) rest
      simp only [List.cons_append]
      unfold pslLoop
      simp only [show (92 : Nat) ≠ 34 by decide, if_false, if_true]
      rw [ih]; simp
    · rename_i h
      have ih := pslLoop_escapeQuoted t (lit ++ [c]) rest
      simp only [not_or] at h
      simp only [List.cons_append]
      unfold pslLoop
      simp only [h.1, h.2, if_false]
      rw [ih]; simp

theorem quoted_roundtrip (t rest : B) :
    parseStringLiteral (quote t ++ rest) = .ok (t, (quote t).length) := by
  unfold parseStringLiteral quote
  simp only [List.cons_append, List.append_assoc, sliceFrom, List.length_cons, Nat.le_add_left, if_true, C07.bind_ok,
    List.drop_succ_cons, List.drop_zero]
  simp only [List.nil_append]
  rw [pslLoop_escapeQuoted t [] rest]
  simp only [C07.bind_ok, subLen, List.nil_append]
  rw [if_pos (by simp; omega)]
  simp only [C07.bind_ok, List.length_cons, List.length_append]
  congr 2
  simp; omega

/-! ### the rewriting at the end of `Parse` keeps the meaning -/

/-- **`stripCaseScopes` and `Simplify`** — constant folding (`evalConstants`) and flattening of nested And/Or
    (`flatten`, to its fixpoint) — select the same documents as the tree they start from, on every corpus in which
    an empty pattern matches every document (what the folding of empty atoms to TRUE presupposes), for every
    document of the corpus. For every tree, including `Type` over constants, `Not` of constants, empty and
    single-child `And`/`Or`. -/
theorem parse_tail_preserves_meaning (c : Corpus) (he : EmptyOK c) (q r : Q)
    (h : simplify (stripCaseScopes q) = .ok r) (d : Nat) (hd : d < c.n) :
    evalQ c r d = evalQ c q d :=
  evalQ_parse_tail c he q r h d hd

/-- parse-time `caseScopeQ` wrappers never change which documents are selected -/
theorem case_scope_wrapper_transparent (c : Corpus) (q : Q) : evalQ c (stripCaseScopes q) = evalQ c q :=
  evalQ_strip c q

/-! ### the central theorem: `Parse (render g)` selects what the documentation says -/

/-- **`token_roundtrip`** (unquoted and quoted): a rendered atom — any field spelling; value unquoted, made of plain
    bytes (no blank, no quote), backslash escapes and balanced parentheses, or in the documented quoted form — is read back by
    `nextToken` as ONE token of the kind of its field whose text is the value (for `meta.`: `<name>:<value>`) and
    whose consumed input is exactly the rendering, whatever follows (end of input, blank, closing parenthesis). -/
theorem token_roundtrip_atom (f : Field) (a : Nat) (q : Bool) (t n rest : B) (hg : goodAtom f q t n = true)
    (hf : followOK rest = true) :
    nextToken (renderE (.atom f a q t n) ++ rest) =
      .ok (some ⟨tokTypeOf f, tokTextOf f t n, renderE (.atom f a q t n)⟩) :=
  token_roundtrip f a q t n rest hg hf

/-- **the parser reads a rendered expression back**: `parseExpr` returns the item `itemE` stands for and consumes
    exactly the rendering (induction over the grammar, mutual with the token loop on conjunctions and or-chains) -/
theorem parser_roundtrip_expr (O : Oracle) (e : E) (x : Q) (rest : B) (fuel : Nat) (hg : goodE e = true)
    (hf : followOK rest = true) (hx : itemE O e = .ok x) (hfuel : 3 * (renderE e ++ rest).length + 1 ≤ fuel) :
    parseExpr O fuel (renderE e ++ rest) = .ok (some x, (renderE e).length) :=
  rt_E O e x rest fuel (GoodE_of_goodE e hg) hf hx hfuel

/-- **`parseExprList`'s token loop on a rendered query collects exactly `itemsQ`** (`orOp` between alternatives) -/
theorem parser_roundtrip_query (O : Oracle) (q : Qy) (its : List Q) (rest : B) (g : Nat) (acc : List Q)
    (hg : goodQ q = true) (hf : followOK rest = true) (hx : itemsQ O q = .ok its)
    (hfuel : 3 * (renderQ q ++ rest).length + 2 ≤ g + nQ q) :
    pelLoop O (g + nQ q) (renderQ q ++ rest) acc = pelLoop O g rest (acc ++ its) :=
  rt_Q O q its rest g acc (GoodQ_of_goodQ q hg) hf hx hfuel

/-- `Parse` of a rendering = the parser's post-processing applied to the items the tree stands for -/
theorem parse_render_eq_abstract (O : Oracle) (g : Qy) (q : Q) (hg : goodQ g = true) (h : abstractParse O g = .ok q) :
    parse O (renderQ g) = .ok q :=
  parse_render O g q (GoodQ_of_goodQ g hg) h

/-- the post-processing of the items of a grammar tree (`finishList`, `parseOperators`, per group; then
    `stripCaseScopes`, `Simplify`) selects exactly what the documentation says (`semQ`) -/
theorem abstract_parse_sem (c : Corpus) (he : EmptyOK c) (O : Oracle) (hO : AutoCaseAgrees O) (g : Qy) (q : Q)
    (hok : semOKQ g = true) (hl : (typesOfQ g).length ≤ 1) (h : abstractParse O g = .ok q) (d : Nat) (hd : d < c.n) :
    evalQ c q d = semQ O c none g d :=
  abstractParse_sem c he O hO g q hok hl h d hd

/-- **C06_parse_sem (partial).** For every grammar tree `g` of the documented EBNF whose rendering is covered
    (`goodQ`, decidable: unquoted values of plain bytes, backslash escapes and balanced parentheses; groups that the tokenizer opens — i.e. not the known finding "tight
    group") and for which the documented meaning is defined (`semOKQ`, decidable: no `regex:` field — the other known
    finding —, documented `type:` values, at most one `type:` per group, no `-` on a directive), if the items of `g`
    are acceptable to the parser (`abstractParse O g = ok q`: every atom is a valid value for its field and every
    `or` alternative has an operand) then the rendering parses to that very tree, `Parse (render g) = ok q`, and `q`
    selects exactly the documents `semQ g` selects — on every corpus in which an empty pattern matches everything, for
    every oracle whose `case:auto` agrees with "the pattern has an upper-case letter". -/
theorem C06_parse_sem_partial (c : Corpus) (he : EmptyOK c) (O : Oracle) (hO : AutoCaseAgrees O) (g : Qy) (q : Q)
    (hgood : goodQ g = true) (hok : semOKQ g = true) (hl : (typesOfQ g).length ≤ 1)
    (hwf : abstractParse O g = .ok q) :
    parse O (renderQ g) = .ok q ∧ ∀ d, d < c.n → evalQ c q d = semQ O c none g d :=
  ⟨parse_render_eq_abstract O g q hgood hwf, fun d hd => abstract_parse_sem c he O hO g q hok hl hwf d hd⟩

/-- the parser accepts the items of every well-formed tree: every atom a valid value for its field (`wfQ`: a pattern
    `regexp/syntax` parses, a regexp `regexp.Compile` accepts, `yes`/`no` flags, non-empty `sym:`), and every `or` of
    every group with an operand on both sides (`operandsOK`) -/
theorem well_formed_is_accepted (O : Oracle) (hO : AutoCaseAgrees O) (g : Qy) (hw : wfQ O g = true)
    (hop : operandsOK g = true) (hok : semOKQ g = true) : ∃ q, abstractParse O g = .ok q :=
  abstractParse_ok O hO g hw hop hok

/-- **C06_parse_sem (partial), existence form**: every covered, defined and well-formed tree's rendering parses, and
    the parsed query selects exactly the documents the documentation says. All five conditions on `g` are
    decidable (`wfQ` given the behaviour `O` of the regexp library). -/
theorem C06_parse_sem_partial_wf (c : Corpus) (he : EmptyOK c) (O : Oracle) (hO : AutoCaseAgrees O) (g : Qy)
    (hgood : goodQ g = true) (hok : semOKQ g = true) (hl : (typesOfQ g).length ≤ 1)
    (hw : wfQ O g = true) (hop : operandsOK g = true) :
    ∃ q, parse O (renderQ g) = .ok q ∧ ∀ d, d < c.n → evalQ c q d = semQ O c none g d := by
  obtain ⟨q, hq⟩ := well_formed_is_accepted O hO g hw hop hok
  exact ⟨q, C06_parse_sem_partial c he O hO g q hgood hok hl hq⟩

/-- a blank after the opening parenthesis is a sufficient, purely syntactic condition for a group to be covered -/
theorem group_with_leading_blank_is_covered (pr : Bool) (q : Qy) (h : goodQ q = true) :
    goodE (.grp true pr q) = true := by
  simp only [goodE, h, Bool.true_and]
  exact opensAsGroup_padL pr q

/-- **the full statement is false** (known finding `tight group`): `(file:main)` is in the documented grammar, but the
    parser reads it as the single pattern `(file:main)`; on a one-document corpus whose file name matches `main` the
    documented meaning selects the document and the parsed query does not. -/
def tightWitness : Qy := .one (.one (.grp false false (.one (.one (.atom .file 0 false [109,97,105,110] [])))))
def tightOracle : Oracle := ⟨fun _ => .lit [102,105,108,101,58,109,97,105,110], fun _ => true, fun _ => none⟩
def tightCorpus : Corpus := ⟨[0], [⟨⟨102, [109,97,105,110], []⟩, [true], [true]⟩]⟩
theorem C06_parse_sem_full_false :
    ∃ q, parse tightOracle (renderQ tightWitness) = .ok q ∧
      evalQ tightCorpus q 0 = false ∧ semQ tightOracle tightCorpus none tightWitness 0 = true ∧
      goodQ tightWitness = false := by
  refine ⟨.substr [102,105,108,101,58,109,97,105,110] false false false [40,102,105,108,101,58,109,97,105,110,41],
    by rfl, by decide, by decide, by decide⟩

/-! non-vacuity of `C06_parse_sem_partial`: `( file:main) or -foo case:yes` is covered and defined -/
def exampleTree : Qy :=
  .or (.one (.grp true false (.one (.one (.atom .file 0 false [109,97,105,110] [])))))
      (.one (.cons (.neg (.atom .text 0 false [102,111,111] [])) (.one (.caseD 0))))
example : goodQ exampleTree = true ∧ semOKQ exampleTree = true ∧ (typesOfQ exampleTree).length ≤ 1 ∧
    operandsOK exampleTree = true ∧ wfQ tightOracle exampleTree = true := by decide

end ZoektModel.C06
