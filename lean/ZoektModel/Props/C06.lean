/-
C06 — Query strings mean what the query-language documentation says.  Property theorems (lemmas: C06/Lemmas.lean).

Statement (properties.jsonl): for every query string in the documented grammar, the parsed query selects the same
documents as an independent interpretation of doc/query_syntax.md: field prefixes and aliases select the documented
filter, '-' negates, parentheses group, juxtaposition is conjunction and 'or' is a lower-precedence disjunction,
'case:' and 'type:' apply to their enclosing group, quoting and backslash escapes are honoured, case:auto is
case-sensitive exactly when the pattern has an upper-case letter, and patterns without regex operators behave as
literals.

What is proved here is about the Lean port of query/parse.go (C07/Model.lean) and the documented meaning `semQ`
(C06/Spec.lean); which clauses are theorems and which are validated by correspondence only is listed in
props/C06.json.
-/
import ZoektModel.C06.Lemmas
import ZoektModel.Generated.ParseTables
namespace ZoektModel.C06
open ZoektModel ZoektModel.C07

/-! ### field prefixes and aliases select the documented filter -/

/-- every documented field spelling, with the token kind of its field -/
def documentedPrefixes : List (Field × Nat) :=
  [(.content, 0), (.content, 1), (.file, 0), (.file, 1), (.regex, 0), (.repo, 0), (.repo, 1), (.sym, 0),
   (.branch, 0), (.branch, 1), (.lang, 0), (.archived, 0), (.fork, 0), (.pub, 0)]

/-- each documented spelling is a key of the parser's `prefixes` table (as regenerated from the source), mapped to
    the token kind of the documented field; `meta.` is the remaining key -/
theorem alias_table :
    documentedPrefixes.all (fun p =>
      (Gen.parsePrefixes.map fun e => (C07.strBytesC06 e.1, e.2)).contains (fieldPrefix p.1 p.2 [], tokTypeOf p.1)) = true := by
  decide

/-- …and the table has no other key than the documented spellings, `case:`, `type:`/`t:` and `meta.` -/
theorem prefix_table_is_documented :
    (Gen.parsePrefixes.map fun e => C07.strBytesC06 e.1).all (fun k =>
      (documentedPrefixes.map fun p => fieldPrefix p.1 p.2 []).contains k ||
      k == [99,97,115,101,58] || k == [116,121,112,101,58] || k == [116,58] || k == [109,101,116,97,46]) = true := by
  decide

/-- what each token kind becomes (`atomOf`) asks the documented question of a document (`keyOf`): the flags -/
theorem flag_fields (O : Oracle) :
    atomOf O ⟨tokArchived, bYes, []⟩ = .ok (some (.rawConfig 16)) ∧ atomOf O ⟨tokArchived, bNo, []⟩ = .ok (some (.rawConfig 32)) ∧
    atomOf O ⟨tokFork, bYes, []⟩ = .ok (some (.rawConfig 4)) ∧ atomOf O ⟨tokFork, bNo, []⟩ = .ok (some (.rawConfig 8)) ∧
    atomOf O ⟨tokPublic, bYes, []⟩ = .ok (some (.rawConfig 1)) ∧ atomOf O ⟨tokPublic, bNo, []⟩ = .ok (some (.rawConfig 2)) := by
  refine ⟨rfl, rfl, rfl, rfl, rfl, rfl⟩

/-! ### '-' negates -/

theorem negation_sem (c : Corpus) (q : Q) (d : Nat) : evalQ c (.not q) d = !(evalQ c q d) := rfl

/-! ### juxtaposition is conjunction and 'or' is a lower-precedence disjunction -/

/-- **`parseOperators`** — the function that interprets a group's operands — yields a tree that selects exactly
    what the flat left-to-right reading `itemsSem` selects: operands between two `or`s are conjoined, the
    alternatives are disjoined. For every operand list and every corpus. -/
theorem or_precedence (c : Corpus) (qs : List Q) (r : Q) (h : parseOperators qs = .ok r) (d : Nat) :
    evalQ c r d = itemsSem (evalQ c) qs (fun _ => true) d :=
  parseOperators_sem (evalQ c)
    (fun cs d => by simp only [evalQ, evalAnd_eq_allEv])
    (fun cs d => by simp only [evalQ, evalOr_eq_anyEv]) qs r h d

/-- the same after an enclosing list applied its `case:` to the group (`setCase k` distributes) -/
theorem or_precedence_under_setCase (c : Corpus) (k : B) (qs : List Q) (r : Q) (h : parseOperators qs = .ok r) (d : Nat) :
    evalQ c (setCase k r) d = itemsSem (evalK c k) qs (fun _ => true) d :=
  parseOperators_sem (evalK c k) (evalK_and c k) (evalK_or c k) qs r h d

/-- non-vacuity: `a b or c` reads `(a ∧ b) ∨ c` -/
example (ev : Q → DocPred) (a b c : Q) (ha : isOrOp a = false) (hb : isOrOp b = false) (hc : isOrOp c = false) (d : Nat) :
    itemsSem ev [a, b, .orOp, c] (fun _ => true) d = ((ev a d && ev b d) || ev c d) := by
  have ho : isOrOp .orOp = true := rfl
  simp only [itemsSem, ha, hb, hc, ho, Bool.false_eq_true, if_false, if_true, Bool.true_and]

/-! ### 'case:' applies to its enclosing group -/

/-- an inner group with its own `case:` is wrapped in `caseScopeQ`, which an enclosing list's `case:` cannot enter -/
theorem case_scope_inner_explicit_wins (k : B) (q : Q) : setCase k (.caseScope q) = .caseScope q :=
  setCase_caseScope k q

/-- an inner group without its own `case:` (its atoms were set by the default `auto`, or by anything else)
    takes the case of the enclosing list -/
theorem case_scope_inherited (k k2 : B) (hk : k = bYes ∨ k = bNo ∨ k = bAuto) (q : Q) :
    setCase k (setCase k2 q) = setCase k q :=
  setCase_idem k k2 hk q

/-- `finishList` with a `case:` directive: the directive is consumed, its flavor is applied to every operand and
    every operand is protected from enclosing lists (wrapped) -/
theorem case_directive_scopes_whole_list (qs : List Q)
    (h : (scanDirectives qs bAuto false 100 []).2.1 = true) (ht : (scanDirectives qs bAuto false 100 []).2.2.1 = 100) :
    finishList qs = .ok (wrapScopes (setCaseList (scanDirectives qs bAuto false 100 []).1 (scanDirectives qs bAuto false 100 []).2.2.2)) := by
  unfold finishList
  simp only [ht, h, ne_eq, not_true_eq_false, if_false, if_true, C07.bind_ok]

/-! ### 'type:' applies to its enclosing group, `or` clauses included -/

/-- `finishList` with a `type:` directive: *all* remaining operands of the list — every `or` alternative — become
    the single child of one `Type` node -/
theorem type_directive_scopes_whole_list (qs : List Q) (typed : Q)
    (ht : (scanDirectives qs bAuto false 100 []).2.2.1 ≠ 100) (hs : (scanDirectives qs bAuto false 100 []).2.1 = false)
    (hp : parseOperators (setCaseList (scanDirectives qs bAuto false 100 []).1 (scanDirectives qs bAuto false 100 []).2.2.2) = .ok typed) :
    finishList qs = .ok [.type (scanDirectives qs bAuto false 100 []).2.2.1 typed] := by
  unfold finishList
  simp only [ht, hs, ne_eq, not_false_eq_true, if_true, hp, C07.bind_ok, Bool.false_eq_true, if_false]

/-- `type:repo` selects every document of a repository with a selected document; the other types select what
    their expression selects -/
theorem type_sem (c : Corpus) (t : Nat) (q : Q) :
    evalQ c (.type t q) = if t = 2 then repoLift c (evalQ c q) else evalQ c q := by
  simp only [evalQ]

/-! ### literals and case:auto -/

/-- patterns made of plain characters (no regexp operator) are literals with the same bytes -/
theorem plain_is_literal (O : Oracle) (t : B) (h : isPlainLit t = true) (ct f : Bool) :
    regexpQuery O t ct f = .ok (.substr t false f ct t) := by
  simp [regexpQuery, classify, h]

/-- …and under `case:auto` such a literal is case-sensitive exactly when it has an upper-case letter -/
theorem auto_case_plain (t : B) (h : isPlainLit t = true) (f ct : Bool) :
    setCaseAtom bAuto (.substr t false f ct t) = .substr t (hasUpper t) f ct t := by
  have := hasUpper_plain t (plain_no_backslash t h)
  simp [setCaseAtom, bAuto, bYes, bNo, this]

/-- `case:yes` / `case:no` fix case sensitivity regardless of the pattern -/
theorem explicit_case (p : B) (cs f ct : Bool) (s : B) :
    setCaseAtom bYes (.substr p cs f ct s) = .substr p true f ct s ∧
    setCaseAtom bNo (.substr p cs f ct s) = .substr p false f ct s := by
  simp [setCaseAtom, bYes, bNo]

/-! ### quoting and backslash escapes -/

/-- `parseStringLiteral` inverts the documented quoted form: reading `quote t` gives back `t` and consumes it all -/
theorem pslLoop_escapeQuoted : ∀ (t lit rest : B), pslLoop (escapeQuoted t ++ 34 :: rest) lit = .ok (lit ++ t, rest)
  | [], lit, rest => by
    simp only [escapeQuoted, List.nil_append, List.append_nil]
    unfold pslLoop
    simp
  | c :: t, lit, rest => by
    unfold escapeQuoted
    split
    · rename_i h
      have ih := pslLoop_escapeQuoted t (lit ++ [c]) rest
      simp only [List.cons_append]
      unfold pslLoop
      simp only [show (92 : Nat) ≠ 34 by decide, if_false, if_true]
      rw [ih]; simp
    · rename_i h
      have ih := pslLoop_escapeQuoted t (lit ++ [c]) rest
      simp only [not_or] at h
      simp only [List.cons_append]
      unfold pslLoop
      simp only [h.1, h.2, if_false]
      rw [ih]; simp

theorem quoted_roundtrip (t rest : B) :
    parseStringLiteral (quote t ++ rest) = .ok (t, (quote t).length) := by
  unfold parseStringLiteral quote
  simp only [List.cons_append, List.append_assoc, sliceFrom, List.length_cons, Nat.le_add_left, if_true, C07.bind_ok,
    List.drop_succ_cons, List.drop_zero]
  simp only [List.nil_append]
  rw [pslLoop_escapeQuoted t [] rest]
  simp only [C07.bind_ok, subLen, List.nil_append]
  rw [if_pos (by simp; omega)]
  simp only [C07.bind_ok, List.length_cons, List.length_append]
  congr 2
  simp; omega

/-! ### the rewriting at the end of `Parse` keeps the meaning -/

/-- **`stripCaseScopes` and `Simplify`** — constant folding (`evalConstants`) and flattening of nested And/Or
    (`flatten`, to its fixpoint) — select the same documents as the tree they start from, on every corpus in which
    an empty pattern matches every document (what the folding of empty atoms to TRUE presupposes), for every
    document of the corpus. For every tree, including `Type` over constants, `Not` of constants, empty and
    single-child `And`/`Or`. -/
theorem parse_tail_preserves_meaning (c : Corpus) (he : EmptyOK c) (q r : Q)
    (h : simplify (stripCaseScopes q) = .ok r) (d : Nat) (hd : d < c.n) :
    evalQ c r d = evalQ c q d :=
  evalQ_parse_tail c he q r h d hd

/-- parse-time `caseScopeQ` wrappers never change which documents are selected -/
theorem case_scope_wrapper_transparent (c : Corpus) (q : Q) : evalQ c (stripCaseScopes q) = evalQ c q :=
  evalQ_strip c q

end ZoektModel.C06
