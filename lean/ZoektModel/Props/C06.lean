/-
C06 — Query strings mean what the query-language documentation says.  Property theorems.
-/
import ZoektModel.C06.Spec
import ZoektModel.Generated.ParseTables
namespace ZoektModel.C06
open ZoektModel ZoektModel.C07

/-- every documented field spelling is in the parser's prefix table with the token kind of its field -/
def documentedPrefixes : List (Field × Nat × Nat) :=
  [(.content, 0, tokContent), (.content, 1, tokContent), (.file, 0, tokFile), (.file, 1, tokFile), (.regex, 0, tokRegex),
   (.repo, 0, tokRepo), (.repo, 1, tokRepo), (.sym, 0, tokSym), (.branch, 0, tokBranch), (.branch, 1, tokBranch),
   (.lang, 0, tokLang), (.archived, 0, tokArchived), (.fork, 0, tokFork), (.pub, 0, tokPublic)]

theorem alias_table :
    documentedPrefixes.all (fun p => prefixes.contains (fieldPrefix p.1 p.2.1 [], p.2.2)) = true := by decide

end ZoektModel.C06
