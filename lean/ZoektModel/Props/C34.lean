/-
C34 — zoekt-local-sync makes the index match the discovered repositories.  Property theorems only; lemmas live in
C34/Lemmas.lean (and C33/Lemmas.lean for the shared execution model).

Statement (properties.jsonl): after `zoekt-local-sync -f` succeeds for a set of roots, the index holds exactly one
up-to-date repository for each Git repository discovered under those roots, named by its path relative to its root, and
nothing else; if two discovered repositories would get the same name the command fails before changing the index;
`remove -f` deletes exactly the selected repository's shards.
-/
import ZoektModel.C34.Lemmas
namespace ZoektModel.C34
open ZoektModel.C33

/-! ## fail before change -/

/-- **C34, fail before change**: when discovery fails (two repositories with one name, one repository reached through
    two roots, a repeated root) the command — preview or forced — reports the error, prints nothing and returns the
    inventory it was given: nothing is planned, removed or indexed. -/
theorem fail_before_change (force : Bool) (cwd : String) (roots : List (String × Tree)) (mk : String × String → Repo)
    (inv : Inv) (e : DiscErr) (h : discoverRepositories roots = .error e) :
    (syncCmd force cwd roots mk inv).discErr = some e ∧ (syncCmd force cwd roots mk inv).run.inv = inv ∧
    (syncCmd force cwd roots mk inv).run.events = [] := by
  unfold syncCmd
  rw [h]
  exact ⟨rfl, rfl, rfl⟩

/-! ## convergence -/

/-- after the planned removals every remaining shard belongs to a discovered repository -/
theorem good_after_prune (cwd : String) (d : List Repo) (inv : Inv) :
    Good cwd d ((planPrune cwd d inv).foldl (fun i a => removePath i a.shard) inv) := by
  intro s hs
  rw [foldl_removePath_actions, mem_removeAll] at hs
  exact survivor_wanted cwd d inv s hs.1 hs.2

/-- **C34, convergence**: for every list of discovered repositories (distinct names, non-interfering shard paths) and
    every prior inventory: if `sync -f` succeeds, then (nothing else) every shard of the final inventory carries the name
    and source of a discovered repository, and (each present, up to date) every discovered repository is found at the
    shard path its name determines, with its own name and source, the current HEAD, the current options and metadata. -/
theorem sync_converges (cwd : String) (d : List Repo) (inv : Inv) (hw : WF d) (hn : NamesDistinct d)
    (hok : (runSync true cwd d inv).err = false) :
    nothingElse cwd d (runSync true cwd d inv).inv = true ∧ eachPresent cwd d (runSync true cwd d inv).inv = true := by
  rw [runSync_force] at hok ⊢
  simp only at hok ⊢
  obtain ⟨g, p, _⟩ := loop_converges cwd d hn d (fun _ h => h) hw
    ⟨[], (planPrune cwd d inv).foldl (fun i a => removePath i a.shard) inv, false⟩ (good_after_prune cwd d inv)
  change Good cwd d (fcLoop cwd d inv).inv at g
  change (fcLoop cwd d inv).err = false → _ at p
  obtain ⟨_, pres⟩ := p hok
  change ∀ r ∈ d, Present cwd r (fcLoop cwd d inv).inv at pres
  constructor
  · unfold nothingElse
    rw [List.all_eq_true]
    intro s hs
    obtain ⟨r, hr, hid⟩ := g s hs
    rw [List.any_eq_true]
    exact ⟨r, hr, by simpa using hid⟩
  · unfold eachPresent
    rw [List.all_eq_true]
    intro r hr
    obtain ⟨h, s, h1, h2, h3, h4⟩ := pres r hr
    rw [h1, h2]
    simp [h3, h4]

/-! ## remove -/

/-- shard files of one directory have different paths -/
def PathsUnique (inv : Inv) : Prop := ∀ a ∈ inv, ∀ b ∈ inv, a.path = b.path → a = b

theorem mem_removeActions (records : List Record) (p : String) :
    p ∈ (removeActions records).map (·.shard) ↔ ∃ m ∈ records, p ∈ m.shards := by
  unfold removeActions
  rw [List.mem_map]
  constructor
  · rintro ⟨a, ha, rfl⟩
    rw [(List.mergeSort_perm _ _).mem_iff, List.mem_flatMap] at ha
    obtain ⟨m, hm, ha⟩ := ha
    rw [List.mem_map] at ha
    obtain ⟨q, hq, rfl⟩ := ha
    exact ⟨m, hm, hq⟩
  · rintro ⟨m, hm, hp⟩
    refine ⟨⟨p, m.name, m.source, "selected"⟩, ?_, rfl⟩
    rw [(List.mergeSort_perm _ _).mem_iff, List.mem_flatMap]
    exact ⟨m, hm, List.mem_map.mpr ⟨p, hp, rfl⟩⟩

/-- **C34, remove**: for every selector list and every inventory (distinct shard paths): if every selector denotes
    exactly one repository (by name, or else by source) `remove -f` succeeds and the final inventory is the initial one
    without exactly the shards of the denoted repositories; otherwise it fails and the inventory is unchanged. -/
theorem remove_exact (cwd : String) (sels : List String) (inv : Inv) (hu : PathsUnique inv) :
    removeExact cwd sels inv (runRemove true cwd sels inv).inv (runRemove true cwd sels inv).err.isSome = true := by
  obtain ⟨ok, bad⟩ := selectLoop_spec cwd inv sels [] (by intro a ha; simp at ha)
  unfold runRemove selectRecords
  cases hsel : selectLoop cwd (recordsFromShards cwd inv) sels [] with
  | error e =>
    obtain ⟨sel, hs, hne⟩ := bad e hsel
    have hall : (sels.all fun sel => decide ((denotes cwd inv sel).length = 1)) = false := by
      rw [List.all_eq_false]
      exact ⟨sel, hs, by simpa using hne⟩
    simp [removeExact, hall, Except.map]
  | ok res =>
    obtain ⟨h1, hacc, hmem⟩ := ok res hsel
    have hall : (sels.all fun sel => decide ((denotes cwd inv sel).length = 1)) = true := by
      rw [List.all_eq_true]
      intro s hs; simpa using h1 s hs
    simp only [Except.map, applyRemovals, Bool.not_true, Bool.false_eq_true, ↓reduceIte, removeExact, hall,
      Option.isSome_none, Bool.not_false, Bool.true_and, decide_eq_true_eq]
    rw [foldl_removePath_actions, removeAll_eq_filter]
    apply List.filter_congr
    intro s hs
    have key : s.path ∈ (removeActions (res.mergeSort leRecord)).map (·.shard) ↔
        ∃ sel ∈ sels, denotes cwd inv sel = [ident cwd s] := by
      rw [mem_removeActions]
      constructor
      · rintro ⟨m, hm, hp⟩
        rw [(List.mergeSort_perm _ _).mem_iff] at hm
        obtain ⟨k, rfl⟩ := hacc m hm
        obtain ⟨s', hs', hk, hpath⟩ := (mem_mkRecord_shards cwd inv k s.path).mp hp
        have : s' = s := hu s' hs' s hs hpath
        subst this
        rcases (hmem k).mp hm with h | ⟨sel, hsl, hd⟩
        · simp at h
        · exact ⟨sel, hsl, by rw [hk]; exact hd⟩
      · rintro ⟨sel, hsl, hd⟩
        refine ⟨mkRecord cwd inv (ident cwd s), ?_, ?_⟩
        · rw [(List.mergeSort_perm _ _).mem_iff]
          exact (hmem _).mpr (Or.inr ⟨sel, hsl, hd⟩)
        · exact (mem_mkRecord_shards cwd inv _ _).mpr ⟨s, hs, rfl, rfl⟩
    by_cases hp : s.path ∈ (removeActions (res.mergeSort leRecord)).map (·.shard)
    · obtain ⟨sel, hsl, hd⟩ := key.mp hp
      have : (sels.any fun sel => decide (denotes cwd inv sel = [ident cwd s])) = true := by
        rw [List.any_eq_true]; exact ⟨sel, hsl, by simpa using hd⟩
      simp [hp, this]
    · have : (sels.any fun sel => decide (denotes cwd inv sel = [ident cwd s])) = false := by
        rw [List.any_eq_false]
        intro sel hsl hd
        exact hp (key.mpr ⟨sel, hsl, by simpa using hd⟩)
      simp [hp, this]

end ZoektModel.C34
