/-
C34 — zoekt-local-sync makes the index match the discovered repositories.  Property theorems only; lemmas live in
C34/Lemmas.lean (and C33/Lemmas.lean for the shared execution model).

Statement (properties.jsonl): after `zoekt-local-sync -f` succeeds for a set of roots, the index holds exactly one
up-to-date repository for each Git repository discovered under those roots, named by its path relative to its root, and
nothing else; if two discovered repositories would get the same name the command fails before changing the index;
`remove -f` deletes exactly the selected repository's shards.
-/
import ZoektModel.C34.Lemmas
namespace ZoektModel.C34
open ZoektModel.C33

/-! ## discovery -/

/-- **C34, discovery**: under a root, `discoverRoot`'s walk returns exactly the directories that are Git repositories
    (a `.git` directory or file inside; or called `*.git` with an `objects` directory) and do not lie inside another
    repository — each with its path relative to the root (from which `specOf` makes the name; `[]`, the root itself,
    gets the root's base name; bare repositories lose the `.git` suffix). For every tree, no bound on depth or width. -/
theorem discover_spec (rootName : String) (t : Tree) (path : List String) (bare : Bool) :
    (path, bare) ∈ walk rootName t ↔ TopRepo rootName t path bare :=
  walk_spec rootName t path bare

/-- **discovery succeeds exactly when no two repositories collide**: `discoverRepositories` returns a list iff the roots
    are pairwise different and the repositories found under them have pairwise different names and pairwise different
    sources; the list is then a permutation of what was found (sorted by name). -/
theorem discover_ok_iff (roots : List (String × Tree)) :
    ((∃ l, discoverRepositories roots = .ok l) ↔ (roots.map (·.1)).Nodup ∧ Distinct (allFound roots)) ∧
    (∀ l, discoverRepositories roots = .ok l → l.Perm (allFound roots)) := by
  unfold discoverRepositories
  by_cases hd : hasDup (roots.map (·.1)) = true
  · simp only [hd, ↓reduceIte]
    have : ¬ (roots.map (·.1)).Nodup := by
      rw [← hasDup_iff]; simp [hd]
    simp [this]
  · simp only [hd, Bool.false_eq_true, ↓reduceIte]
    have hn : (roots.map (·.1)).Nodup := (hasDup_iff _).mp (by simpa using hd)
    rcases discoverLoop_spec roots [] ⟨by simp, by simp⟩ with ⟨hok, hdis⟩ | ⟨⟨e, he⟩, hnd⟩
    · simp only [List.nil_append] at hok hdis
      rw [hok]
      simp only [Except.map, Except.ok.injEq, exists_eq', hn, hdis, and_self, true_and]
      intro l hl
      rw [← hl]
      exact List.mergeSort_perm _ _
    · simp only [List.nil_append] at hnd
      rw [he]
      simp [Except.map, hnd]

/-- non-vacuity: a root with a work tree `a` (containing a nested repository that must not be reported), a `.git`-file
    repository `team/b`, and a plain file -/
def exTree : Tree := .dir [
  ("a", .dir [(".git", .dir []), ("vendor", .dir [("n", .dir [(".git", .file)])])]),
  ("team", .dir [("b", .dir [(".git", .file)]), ("notes", .file)])]

theorem exTree_walk : walk "r0" exTree = [(["a"], false), (["team", "b"], false)] := by
  simp [walk, walkList, exTree, isWork, isBare, child]

example : TopRepo "r0" exTree ["team", "b"] false := (discover_spec _ _ _ _).mp (by simp [exTree_walk])
example : ¬ TopRepo "r0" exTree ["a", "vendor", "n"] false :=
  fun h => by have := (discover_spec _ _ _ _).mpr h; simp [exTree_walk] at this

/-! ## fail before change -/

/-- **C34, fail before change**: when discovery fails (two repositories with one name, one repository reached through
    two roots, a repeated root) the command — preview or forced — reports the error, prints nothing and returns the
    inventory it was given: nothing is planned, removed or indexed. -/
theorem fail_before_change (force : Bool) (cwd : String) (roots : List (String × Tree)) (mk : String × String → Repo)
    (inv : Inv) (e : DiscErr) (h : discoverRepositories roots = .error e) :
    (syncCmd force cwd roots mk inv).discErr = some e ∧ (syncCmd force cwd roots mk inv).run.inv = inv ∧
    (syncCmd force cwd roots mk inv).run.events = [] := by
  unfold syncCmd
  rw [h]
  exact ⟨rfl, rfl, rfl⟩

/-! ## convergence -/

/-- **C34, convergence**: for every list of discovered repositories (distinct names, non-interfering shard paths) and
    every prior inventory: if `sync -f` succeeds, then (nothing else) every shard of the final inventory carries the name
    and source of a discovered repository, and (each present, up to date) every discovered repository is found at the
    shard path its name determines, with its own name and source, the current HEAD, the current options and metadata. -/
theorem sync_converges (cwd : String) (d : List Repo) (inv : Inv) (hw : WF d) (hn : NamesDistinct d)
    (hok : (runSync true cwd d inv).err = false) :
    nothingElse cwd d (runSync true cwd d inv).inv = true ∧ eachPresent cwd d (runSync true cwd d inv).inv = true := by
  rw [runSync_force] at hok ⊢
  simp only at hok ⊢
  obtain ⟨g, p, _⟩ := loop_converges cwd d hn d (fun _ h => h) hw
    ⟨[], (planPrune cwd d inv).foldl (fun i a => removePath i a.shard) inv, false⟩ (good_after_prune cwd d inv)
  change Good cwd d (fcLoop cwd d inv).inv at g
  change (fcLoop cwd d inv).err = false → _ at p
  obtain ⟨_, pres⟩ := p hok
  change ∀ r ∈ d, Present cwd r (fcLoop cwd d inv).inv at pres
  constructor
  · unfold nothingElse
    rw [List.all_eq_true]
    intro s hs
    obtain ⟨r, hr, hid⟩ := g s hs
    rw [List.any_eq_true]
    exact ⟨r, hr, by simpa using hid⟩
  · unfold eachPresent
    rw [List.all_eq_true]
    intro r hr
    obtain ⟨h, s, h1, h2, h3, h4⟩ := pres r hr
    rw [h1, h2]
    simp [h3, h4]

/-- **C34, the command as a whole**: if `sync -f` on some roots succeeds, then discovery succeeded with exactly the
    repositories found under the roots (each once, no two with the same name or source), and the final index holds
    nothing but them, each present and up to date at the shard path its name determines. -/
theorem sync_cmd_converges (cwd : String) (roots : List (String × Tree)) (mk : String × String → Repo) (inv : Inv)
    (hmk : ∀ p, (mk p).name = p.1 ∧ (mk p).source = p.2)
    (hw : ∀ specs, discoverRepositories roots = .ok specs → WF (specs.map mk))
    (hd : (syncCmd true cwd roots mk inv).discErr = none)
    (hok : (syncCmd true cwd roots mk inv).run.err = false) :
    ∃ specs, discoverRepositories roots = .ok specs ∧ specs.Perm (allFound roots) ∧ Distinct specs ∧
      nothingElse cwd (specs.map mk) (syncCmd true cwd roots mk inv).run.inv = true ∧
      eachPresent cwd (specs.map mk) (syncCmd true cwd roots mk inv).run.inv = true := by
  unfold syncCmd at hd hok ⊢
  rcases hdisc : discoverRepositories roots with e | specs
  · rw [hdisc] at hd; simp at hd
  ·
    rw [hdisc] at hok
    simp only at hok ⊢
    obtain ⟨hiff, hperm⟩ := discover_ok_iff roots
    have hp := hperm specs hdisc
    have hdist : Distinct (allFound roots) := (hiff.mp ⟨specs, hdisc⟩).2
    have hds : Distinct specs := by
      unfold Distinct at hdist ⊢
      exact ⟨(hp.map _).nodup_iff.mpr hdist.1, (hp.map _).nodup_iff.mpr hdist.2⟩
    have hn : NamesDistinct (specs.map mk) := by
      intro a ha b hb hab
      rw [List.mem_map] at ha hb
      obtain ⟨p, hpm, rfl⟩ := ha
      obtain ⟨q, hqm, rfl⟩ := hb
      rw [(hmk p).1, (hmk q).1] at hab
      rw [inj_of_nodup_map _ _ hds.1 p hpm q hqm hab]
    obtain ⟨a, b⟩ := sync_converges cwd (specs.map mk) inv (hw specs hdisc) hn hok
    exact ⟨specs, rfl, hp, hds, a, b⟩

/-- **C34, a second run has nothing to do**: after a successful `sync -f`, running `sync -f` again on the resulting
    index removes nothing, (re)indexes nothing and leaves the inventory as it is. -/
theorem sync_second_run_noop (cwd : String) (d : List Repo) (inv : Inv) (hw : WF d) (hn : NamesDistinct d)
    (hsrc : SourcesDistinct cwd d) (hok : (runSync true cwd d inv).err = false) :
    performedRemovals (runSync true cwd d (runSync true cwd d inv).inv).events = [] ∧
    performedIndexing (runSync true cwd d (runSync true cwd d inv).inv).events = [] ∧
    (runSync true cwd d (runSync true cwd d inv).inv).inv = (runSync true cwd d inv).inv := by
  have hpost : Good cwd d (runSync true cwd d inv).inv ∧ ∀ r ∈ d, Present cwd r (runSync true cwd d inv).inv := by
    rw [runSync_force] at hok ⊢
    simp only at hok ⊢
    obtain ⟨g, p, _⟩ := loop_converges cwd d hn d (fun _ h => h) hw
      ⟨[], (planPrune cwd d inv).foldl (fun i a => removePath i a.shard) inv, false⟩ (good_after_prune cwd d inv)
    exact ⟨g, (p hok).2⟩
  generalize (runSync true cwd d inv).inv = post at hpost
  obtain ⟨hg, hp⟩ := hpost
  rw [runSync_force]
  unfold fcLoop
  rw [planPrune_nil_of_good cwd d hsrc post hg]
  simp only [List.map_nil, List.foldl_nil, List.nil_append]
  obtain ⟨a, b⟩ := loop_noop cwd d ⟨[], post, false⟩ hp
  obtain ⟨_, f2, _⟩ := force_proj [] d ⟨[], post, false⟩
  exact ⟨f2, b, a⟩

/-! ## exactly one -/

/-- **C34, exactly one (partial: prior states without stray shards)** -/
theorem sync_exactly_one_partial (cwd : String) (d : List Repo) (inv : Inv) (hw : WF2 d) (hn : NamesDistinct d)
    (hu : PathsUnique inv) (hs : NoStray cwd d inv) (hok : (runSync true cwd d inv).err = false) :
    exactlyOne cwd d (runSync true cwd d inv).inv = true := by
  rw [runSync_force] at hok ⊢
  simp only at hok ⊢
  -- every repository has a resolvable HEAD, since the run succeeded
  obtain ⟨_, p, _⟩ := loop_converges cwd d hn d (fun _ h => h) (wf_of_wf2 d hw)
    ⟨[], (planPrune cwd d inv).foldl (fun i a => removePath i a.shard) inv, false⟩ (good_after_prune cwd d inv)
  obtain ⟨_, pres⟩ := p hok
  have hheads : ∀ r ∈ d, r.head ≠ none := by
    intro r hr
    obtain ⟨h, _, hh, _⟩ := pres r hr
    simp [hh]
  have hsub : ∀ s, s ∈ (planPrune cwd d inv).foldl (fun i a => removePath i a.shard) inv → s ∈ inv := by
    intro s hs'
    rw [foldl_removePath_actions, mem_removeAll] at hs'
    exact hs'.1
  have I0 : Inv1 cwd d [] d ((planPrune cwd d inv).foldl (fun i a => removePath i a.shard) inv) :=
    ⟨fun a ha b hb hab => hu a (hsub a ha) b (hsub b hb) hab, good_after_prune cwd d inv,
     fun r hr s hs' hid => hs s (hsub s hs') r hr hid, by simp⟩
  obtain ⟨done', hd', I⟩ := loop_exact cwd d hn d [] ⟨[], _, false⟩ (fun _ h => h) (by simp) hw.1 (by simp) hw.2 hheads I0
  change Inv1 cwd d done' [] (fcLoop cwd d inv).inv at I
  unfold exactlyOne
  rw [List.all_eq_true]
  intro r hr
  obtain ⟨h, hh, hall⟩ := I.doneOk r ((hd' r).mpr (Or.inr hr))
  rw [hh]
  simp only [List.all_eq_true, List.mem_filter, decide_eq_true_eq, Bool.and_eq_true, and_imp]
  intro s hs' hid
  exact hall s hs' hid


/-- **the full statement is false**: a prior index with shard 1 of `proj` (old HEAD) and no shard 0. `sync -f` succeeds,
    builds shard 0 and keeps the stale shard 1: the repository is indexed twice, once out of date
    (corpus/C34/orphan-shard.json reproduces this on the real command; known finding C34-stale-shard-kept). -/
def wR : Repo := ⟨"proj", "", some "H2", "/i/p0", ["/i/p1"], 0⟩
def wS : Shard := ⟨"/i/p1", "proj", "", "H1", true, true, false⟩

theorem w_plan : planPrune "/w" [wR] [wS] = [] := by
  have hp : pruneOne "/w" [wR] wS = none := by decide
  unfold planPrune
  simp [hp]

theorem sync_exactly_one_full_false :
    (runSync true "/w" [wR] [wS]).err = false ∧ exactlyOne "/w" [wR] (runSync true "/w" [wR] [wS]).inv = false := by
  rw [runSync_force]
  unfold fcLoop
  rw [w_plan]
  decide

/-! ## remove -/

theorem mem_removeActions (records : List Record) (p : String) :
    p ∈ (removeActions records).map (·.shard) ↔ ∃ m ∈ records, p ∈ m.shards := by
  unfold removeActions
  rw [List.mem_map]
  constructor
  · rintro ⟨a, ha, rfl⟩
    rw [(List.mergeSort_perm _ _).mem_iff, List.mem_flatMap] at ha
    obtain ⟨m, hm, ha⟩ := ha
    rw [List.mem_map] at ha
    obtain ⟨q, hq, rfl⟩ := ha
    exact ⟨m, hm, hq⟩
  · rintro ⟨m, hm, hp⟩
    refine ⟨⟨p, m.name, m.source, "selected"⟩, ?_, rfl⟩
    rw [(List.mergeSort_perm _ _).mem_iff, List.mem_flatMap]
    exact ⟨m, hm, List.mem_map.mpr ⟨p, hp, rfl⟩⟩

/-- **C34, remove**: for every selector list and every inventory (distinct shard paths): if every selector denotes
    exactly one repository (by name, or else by source) `remove -f` succeeds and the final inventory is the initial one
    without exactly the shards of the denoted repositories; otherwise it fails and the inventory is unchanged. -/
theorem remove_exact (cwd : String) (sels : List String) (inv : Inv) (hu : PathsUnique inv) :
    removeExact cwd sels inv (runRemove true cwd sels inv).inv (runRemove true cwd sels inv).err.isSome = true := by
  obtain ⟨ok, bad⟩ := selectLoop_spec cwd inv sels [] (by intro a ha; simp at ha)
  unfold runRemove selectRecords
  cases hsel : selectLoop cwd (recordsFromShards cwd inv) sels [] with
  | error e =>
    obtain ⟨sel, hs, hne⟩ := bad e hsel
    have hall : (sels.all fun sel => decide ((denotes cwd inv sel).length = 1)) = false := by
      rw [List.all_eq_false]
      exact ⟨sel, hs, by simpa using hne⟩
    simp [removeExact, hall, Except.map]
  | ok res =>
    obtain ⟨h1, hacc, hmem⟩ := ok res hsel
    have hall : (sels.all fun sel => decide ((denotes cwd inv sel).length = 1)) = true := by
      rw [List.all_eq_true]
      intro s hs; simpa using h1 s hs
    simp only [Except.map, applyRemovals, Bool.not_true, Bool.false_eq_true, ↓reduceIte, removeExact, hall,
      Option.isSome_none, Bool.not_false, Bool.true_and, decide_eq_true_eq]
    rw [foldl_removePath_actions, removeAll_eq_filter]
    apply List.filter_congr
    intro s hs
    have key : s.path ∈ (removeActions (res.mergeSort leRecord)).map (·.shard) ↔
        ∃ sel ∈ sels, denotes cwd inv sel = [ident cwd s] := by
      rw [mem_removeActions]
      constructor
      · rintro ⟨m, hm, hp⟩
        rw [(List.mergeSort_perm _ _).mem_iff] at hm
        obtain ⟨k, rfl⟩ := hacc m hm
        obtain ⟨s', hs', hk, hpath⟩ := (mem_mkRecord_shards cwd inv k s.path).mp hp
        have : s' = s := hu s' hs' s hs hpath
        subst this
        rcases (hmem k).mp hm with h | ⟨sel, hsl, hd⟩
        · simp at h
        · exact ⟨sel, hsl, by rw [hk]; exact hd⟩
      · rintro ⟨sel, hsl, hd⟩
        refine ⟨mkRecord cwd inv (ident cwd s), ?_, ?_⟩
        · rw [(List.mergeSort_perm _ _).mem_iff]
          exact (hmem _).mpr (Or.inr ⟨sel, hsl, hd⟩)
        · exact (mem_mkRecord_shards cwd inv _ _).mpr ⟨s, hs, rfl, rfl⟩
    by_cases hp : s.path ∈ (removeActions (res.mergeSort leRecord)).map (·.shard)
    · obtain ⟨sel, hsl, hd⟩ := key.mp hp
      have : (sels.any fun sel => decide (denotes cwd inv sel = [ident cwd s])) = true := by
        rw [List.any_eq_true]; exact ⟨sel, hsl, by simpa using hd⟩
      simp [hp, this]
    · have : (sels.any fun sel => decide (denotes cwd inv sel = [ident cwd s])) = false := by
        rw [List.any_eq_false]
        intro sel hsl hd
        exact hp (key.mpr ⟨sel, hsl, by simpa using hd⟩)
      simp [hp, this]

end ZoektModel.C34
