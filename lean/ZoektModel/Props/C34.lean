import ZoektModel.C34.Spec
import ZoektModel.C33.Lemmas
namespace ZoektModel.C34
open ZoektModel.C33

/-- **C34, fail before change**: when discovery fails (two repositories with one name, one repository reached through
    two roots, a repeated root) the command — preview or forced — reports the error, prints nothing and returns the
    inventory it was given: nothing is planned, removed or indexed. -/
theorem fail_before_change (force : Bool) (cwd : String) (roots : List (String × Tree)) (mk : String × String → Repo)
    (inv : Inv) (e : DiscErr) (h : discoverRepositories roots = .error e) :
    (syncCmd force cwd roots mk inv).discErr = some e ∧ (syncCmd force cwd roots mk inv).run.inv = inv ∧
    (syncCmd force cwd roots mk inv).run.events = [] := by
  unfold syncCmd
  rw [h]
  exact ⟨rfl, rfl, rfl⟩

end ZoektModel.C34
