/-
C22 — Display limits return the top of the ranked result.  Property theorems; lemmas live in C22/Lemmas.lean.
-/
import ZoektModel.C22.Spec
namespace ZoektModel.C22
open ZoektModel

/-! ### the worked counter-example of DESIGN §7 C22 (file limit 3, novel-extension promotion) -/

def lm1 (id : Nat) : List MUnit := [⟨id, [⟨id, 0⟩], [], 0, none, false⟩]
/-- extensions: 1 = .go, 2 = .py, 3 = .rb -/
def exA : File := ⟨1, 100, 1, lm1 1⟩
def exB : File := ⟨2, 80, 1, lm1 2⟩
def exD : File := ⟨3, 75, 2, lm1 3⟩
def exX : File := ⟨4, 73, 3, lm1 4⟩
def exP : File := ⟨5, 110, 2, lm1 5⟩

/-- **`aggregate_prefix` is false in general**: with a file limit of 3, `collectSender` fed `[a.go b.go d.py x.rb]` and
    then `[p.py]` returns `[p.py a.go b.go]`, but the unlimited ranking promotes `x.rb` to third place. -/
theorem aggregate_prefix_full_false :
    ¬ (∀ (D M : Nat) (batches : List (List File)),
        (collect D M false batches).getD [] = sortAndTruncate D M false batches.flatten) := by
  intro h
  have := h 3 0 [[exA, exB, exD, exX], [exP]]
  revert this
  decide

end ZoektModel.C22
