/-
C22 — Display limits return the top of the ranked result.  Property theorems; lemmas live in C22/Lemmas.lean.
-/
import ZoektModel.C22.LemmasAgg
import ZoektModel.C22.LemmasChunk
namespace ZoektModel.C22
open ZoektModel

/-! ### the truncator (`NewDisplayTruncator`, `limitSender`) -/

/-- **batch-split invariance**: for any split of a list into batches, the concatenated outputs of one stateful
    truncator are what a fresh truncator returns for the whole list -/
theorem truncator_split_invariant (batches : List (List File)) : ∀ (st : TState), st.WF →
    ((truncRun st batches).map (·.1)).flatten = (truncStep st batches.flatten).1 := by
  induction batches with
  | nil => intro st _; simp [truncRun, truncStep_nil]
  | cons b bs ih =>
    intro st h
    simp only [truncRun, List.map_cons, List.flatten_cons]
    rw [ih _ (truncStep_wf st b h), truncStep_append st b bs.flatten h]

/-- **`truncator_prefix`**: for any split of a ranked list into batches, what the truncator lets through is at most `D`
    files and `M` matches and is the beginning of the list — the same leading files with their leading matches, the
    last file cut at the limit, stopping only where a limit is reached (`checkDisplay`), provided every cut of a
    single unit is acceptable (`CutOK`: always in line mode, see `truncator_prefix_line`; in chunk mode this is
    `chunk_cut_whole_lines`). -/
theorem truncator_prefix (D M : Nat) (c : Bool) (ctx : Nat) (batches : List (List File))
    (hok : ∀ f ∈ batches.flatten, ∀ u ∈ f.units, CutOK c ctx u) :
    checkDisplay D M c ctx batches.flatten
      ((truncRun (newTruncator D M c) batches).map (·.1)).flatten = true := by
  rw [truncator_split_invariant batches _ (newTruncator_wf D M c)]
  exact trunc1_display D M c ctx _ hok

/-- line mode: unconditional -/
theorem truncator_prefix_line (D M : Nat) (ctx : Nat) (batches : List (List File))
    (hb : ∀ f ∈ batches.flatten, ∀ u ∈ f.units, u.bad = false) :
    checkDisplay D M false ctx batches.flatten
      ((truncRun (newTruncator D M false) batches).map (·.1)).flatten = true :=
  truncator_prefix D M false ctx batches (fun f hf u hu => cutOK_line ctx u (hb f hf u hu))

/-- **`chunk_cut_whole_lines`**: a chunk (ranges in increasing order, `Content` = the whole lines from its first line
    through last end line + context, i.e. trailing context not clipped by the end of the file) that the match limit
    shortens to `0 < k < len` ranges still consists of whole lines covering exactly its remaining ranges plus the
    requested context (up to the terminator of the last line when `Content` had none), with `Ranges`/`SymbolInfo` cut
    in parallel; `log.Panicf("Failed to find enough newlines …")` is not reached (`bad = false`). -/
theorem chunk_cut_whole_lines (ctx : Nat) (u : MUnit) (h : WFChunk ctx u) (k : Nat) (hk : 0 < k)
    (hlt : k < u.items.length) : unitCutOf true ctx u (cutUnit true k u) = true ∧ (cutUnit true k u).bad = false := by
  have h1 := cutOK_chunk ctx u h k hk hlt
  refine ⟨h1, ?_⟩
  unfold unitCutOf at h1
  rw [Bool.or_eq_true] at h1
  rcases h1 with h1 | h1
  · have : cutUnit true k u = u := by simpa using h1
    rw [this]; exact h.nobad
  · simp only [Bool.and_eq_true, Bool.not_eq_true'] at h1
    exact h1.1.1.1.1.1.2

/-- chunk mode: `truncator_prefix` for well-formed chunks -/
theorem truncator_prefix_chunk (D M : Nat) (ctx : Nat) (batches : List (List File))
    (hwf : ∀ f ∈ batches.flatten, ∀ u ∈ f.units, WFChunk ctx u) :
    checkDisplay D M true ctx batches.flatten
      ((truncRun (newTruncator D M true) batches).map (·.1)).flatten = true :=
  truncator_prefix D M true ctx batches (fun f hf u hu => cutOK_chunk ctx u (hwf f hf u hu))

/-- a chunk at the end of the file "l1 foo\nl2\nl3 foo\nl4" (context 2, ranges ending on lines 1 and 3): its trailing
    context is clipped by the end of the file -/
def exClipped : MUnit :=
  ⟨0, [⟨0, 1⟩, ⟨1, 3⟩], [108, 49, 32, 102, 111, 111, 10, 108, 50, 10, 108, 51, 32, 102, 111, 111, 10, 108, 52], 1, none, false⟩

/-- **`chunk_cut_whole_lines` is false for a chunk whose trailing context was clipped by the end of the file**
    (the known finding): cut to one range, the content is "l1 foo\nl2" although two context lines are available -/
theorem chunk_cut_clipped_full_false : unitCutOf true 2 exClipped (cutUnit true 1 exClipped) = false := by
  decide

/-- once `hasMore` is false the truncator returns nothing more -/
theorem truncator_quiet_after_done (st : TState) (fm : List File) (hd : st.done = true)
    (hl : (!st.docLimited && !st.matchLimited) = false) : truncStep st fm = ([], false, st) :=
  truncStep_done st fm hd hl

/-! ### the aggregate (`collectSender`) -/

/-- **`aggregate_prefix`, general form**: if all scores are pairwise distinct and the novel-extension promotion does
    not change what a truncation returns (`NoPromo`), then for every arrival order and batching of the shard results
    `collectSender` returns exactly the ranked, truncated union — in any mode in which cutting twice is cutting once
    (`Comp`, true of line mode). -/
theorem aggregate_prefix_of_noPromo (c : Bool) (hc : Comp c) (D M : Nat) (batches : List (List File))
    (hne : batches ≠ []) (hnd : (scores batches.flatten).Nodup) (hB : NoPromo c D M batches.flatten) :
    collect D M c batches = some (sortAndTruncate D M c batches.flatten) := by
  unfold collect
  cases hlim : hasDisplayLimit D M with
  | true =>
    obtain ⟨b, bs, rfl⟩ := List.exists_cons_of_ne_nil hne
    have hfold := collect_fold c hc D M hlim _ hB (b :: bs) none [] (by simp [topN_nil, sortDesc])
      (by simpa using hnd) (by simp)
    obtain ⟨y, hy⟩ := collectSend_isSome D M c none b
    obtain ⟨x, hx⟩ := foldl_collectSend_isSome D M c bs y
    have hx' : List.foldl (collectSend D M c) none (b :: bs) = some x := by
      simp only [List.foldl_cons, hy, hx]
    rw [hx'] at hfold ⊢
    simp only [collectDone, hlim, if_true, Option.getD_some, List.nil_append] at hfold ⊢
    rw [hfold, sortAndTruncate_eq]
    exact congrArg some (hB _ (fun f hf => ⟨f, hf, rfl⟩)).symm
  | false =>
    have h0 : D = 0 ∧ M = 0 := by
      simp only [hasDisplayLimit, Bool.or_eq_false_iff, decide_eq_false_iff_not] at hlim
      omega
    obtain ⟨rfl, rfl⟩ := h0
    obtain ⟨b, bs, rfl⟩ := List.exists_cons_of_ne_nil hne
    have hfold := collect_nolimit_fold c (b :: bs) none
    obtain ⟨y, hy⟩ := collectSend_isSome 0 0 c none b
    obtain ⟨x, hx⟩ := foldl_collectSend_isSome 0 0 c bs y
    have hx' : List.foldl (collectSend 0 0 c) none (b :: bs) = some x := by
      simp only [List.foldl_cons, hy, hx]
    rw [hx'] at hfold ⊢
    simp only [collectDone, hlim, Option.getD_some, Option.getD_none, List.nil_append] at hfold ⊢
    rw [hfold]
    rfl

/-- no promotion is possible when every file has the same extension -/
theorem noPromo_sameExt (c : Bool) (D M e : Nat) (U0 : List File) (hext : ∀ f ∈ U0, f.ext = e) :
    NoPromo c D M U0 := by
  intro l hl
  have : sortFiles l = sortDesc l := by
    unfold sortFiles
    refine boost_sameExt e _ (fun f hf => ?_)
    obtain ⟨g, hg, eg⟩ := hl f ((sortDesc_perm _).mem_iff.mp hf)
    rw [eg]; exact hext g hg
  rw [this]

/-- with a file limit of 1 or 2 the promotion (which never touches the first two places) cannot matter -/
theorem noPromo_small_D (c : Bool) (D M : Nat) (h1 : 1 ≤ D) (h2 : D ≤ 2) (U0 : List File) : NoPromo c D M U0 := by
  intro l _
  have : optL D = some D := by unfold optL; simp; omega
  rw [this]
  unfold sortFiles
  exact topN_boost_small c D h2 _ _

/-- **`aggregate_prefix_partial`** (same extension: the promotion cannot fire) -/
theorem aggregate_prefix_of_comp (c : Bool) (hc : Comp c) (D M e : Nat) (batches : List (List File))
    (hne : batches ≠ []) (hnd : (scores batches.flatten).Nodup) (hext : ∀ f ∈ batches.flatten, f.ext = e) :
    collect D M c batches = some (sortAndTruncate D M c batches.flatten) :=
  aggregate_prefix_of_noPromo c hc D M batches hne hnd (noPromo_sameExt c D M e _ hext)

/-- **`aggregate_prefix_partial`, file limit 1 or 2** (any extensions, any match limit), line mode -/
theorem aggregate_prefix_partial_small_D (D M : Nat) (h1 : 1 ≤ D) (h2 : D ≤ 2) (batches : List (List File))
    (hne : batches ≠ []) (hnd : (scores batches.flatten).Nodup) :
    collect D M false batches = some (sortAndTruncate D M false batches.flatten) :=
  aggregate_prefix_of_noPromo false comp_line D M batches hne hnd (noPromo_small_D false D M h1 h2 _)

/-- line mode -/
theorem aggregate_prefix_partial (D M e : Nat) (batches : List (List File))
    (hne : batches ≠ []) (hnd : (scores batches.flatten).Nodup) (hext : ∀ f ∈ batches.flatten, f.ext = e) :
    collect D M false batches = some (sortAndTruncate D M false batches.flatten) :=
  aggregate_prefix_of_comp false comp_line D M e batches hne hnd hext

/-- … hence `Search` with display limits returns the top of its own unlimited ranked result (the statement,
    `checkDisplay`, of the model's limited aggregate against the model's unlimited aggregate) -/
theorem aggregate_display_partial (D M e ctx : Nat) (batches : List (List File))
    (hne : batches ≠ []) (hnd : (scores batches.flatten).Nodup) (hext : ∀ f ∈ batches.flatten, f.ext = e)
    (hb : ∀ f ∈ batches.flatten, ∀ u ∈ f.units, u.bad = false) :
    checkDisplay D M false ctx ((collect 0 0 false batches).getD []) ((collect D M false batches).getD []) = true := by
  rw [aggregate_prefix_partial D M e batches hne hnd hext, aggregate_prefix_partial 0 0 e batches hne hnd hext]
  simp only [Option.getD_some]
  have h0 : sortAndTruncate 0 0 false batches.flatten = sortFiles batches.flatten := by
    rw [sortAndTruncate_eq]; simp [optL, topN_none_none]
  rw [h0]
  unfold sortAndTruncate
  refine trunc1_display D M false ctx _ ?_
  intro f hf u hu
  have hfs : sortFiles batches.flatten = sortDesc batches.flatten := by
    unfold sortFiles
    exact boost_sameExt e _ (fun f hf => hext f ((sortDesc_perm _).mem_iff.mp hf))
  rw [hfs] at hf
  exact cutOK_line ctx u (hb f ((sortDesc_perm _).mem_iff.mp hf) u hu)

/-! ### the worked counter-example of DESIGN §7 C22 (file limit 3, novel-extension promotion) -/

def lm1 (id : Nat) : List MUnit := [⟨id, [⟨id, 0⟩], [], 0, none, false⟩]
/-- extensions: 1 = .go, 2 = .py, 3 = .rb -/
def exA : File := ⟨1, 100, 1, lm1 1⟩
def exB : File := ⟨2, 80, 1, lm1 2⟩
def exD : File := ⟨3, 75, 2, lm1 3⟩
def exX : File := ⟨4, 73, 3, lm1 4⟩
def exP : File := ⟨5, 110, 2, lm1 5⟩

/-- **`aggregate_prefix` is false in general**: with a file limit of 3, `collectSender` fed `[a.go b.go d.py x.rb]` and
    then `[p.py]` returns `[p.py a.go b.go]`, but the unlimited ranking promotes `x.rb` to third place. -/
theorem aggregate_prefix_full_false :
    ¬ (∀ (D M : Nat) (batches : List (List File)),
        (collect D M false batches).getD [] = sortAndTruncate D M false batches.flatten) := by
  intro h
  have := h 3 0 [[exA, exB, exD, exX], [exP]]
  revert this
  decide

/-! ### non-vacuity -/

/-- "l1 foo\nl2\nl3 foo\nl4\n", context 1, ranges ending on lines 1 and 3 -/
def exWF : MUnit :=
  ⟨0, [⟨0, 1⟩, ⟨1, 3⟩], [108, 49, 32, 102, 111, 111, 10, 108, 50, 10, 108, 51, 32, 102, 111, 111, 10, 108, 52, 10], 1,
   some [7, 8], false⟩

example : WFChunk 1 exWF :=
  ⟨rfl, by unfold Mono exWF; decide, by unfold exWF; decide, by unfold exWF; decide, by decide⟩
-- cut to one range: "l1 foo\nl2\n" (the unfixed code returned "l1 foo\nl2\nl3 foo")
example : (cutUnit true 1 exWF).content = [108, 49, 32, 102, 111, 111, 10, 108, 50, 10] ∧
    (cutUnit true 1 exWF).sym = some [7] := by decide

def exLine (id n : Nat) : MUnit := ⟨id, (List.range n).map fun i => ⟨100 * id + i, 0⟩, [], 0, none, false⟩
def exF1 : File := ⟨1, 50, 1, [exLine 1 2, exLine 2 1]⟩
def exF2 : File := ⟨2, 40, 1, [exLine 3 3]⟩
def exF3 : File := ⟨3, 30, 1, [exLine 4 1]⟩
-- match limit 4 over two batches: file 1 whole (3 matches), file 2 cut to 1 match, then nothing; hasMore turns false
example : (truncRun (newTruncator 0 4 false) [[exF1], [exF2, exF3], [exF3]]).map (fun p => (p.1.map fileCount, p.2)) =
    [([3], true), ([1], false), ([], false)] := by decide
-- same extension, distinct scores, arriving in two batches in the "wrong" order, file limit 2
example : collect 2 0 false [[exF3, exF2], [exF1]] = some [exF1, exF2] := by decide
example : (scores [exF3, exF2, exF1]).Nodup := by decide

/-- the promotion breaks `aggregate_prefix` for every file limit ≥ 3, e.g. 4: the first batch
    `[a.go 100, b.go 80, d.py 75, e.py 74, x.rb 73]` keeps `[a b d e]`; after `[p.py 110]` the aggregate is `[p a b d]`
    while the unlimited ranking is `[p a x.rb b d e]` -/
theorem aggregate_prefix_full_false_limit4 :
    collect 4 0 false [[exA, exB, exD, ⟨6, 74, 2, lm1 6⟩, exX], [exP]] ≠
      some (sortAndTruncate 4 0 false [exA, exB, exD, ⟨6, 74, 2, lm1 6⟩, exX, exP]) := by decide
-- file limit 2, three extensions, same batches as the counter-example: the theorem applies
example : collect 2 0 false [[exA, exB, exD, exX], [exP]] = some [exP, exA] := by decide

end ZoektModel.C22
