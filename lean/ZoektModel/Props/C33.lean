import ZoektModel.C33.Spec
namespace ZoektModel.C33

theorem applyRemovals_dry_inv (a : List Action) (inv : Inv) : (applyRemovals a true inv).2 = inv := by
  simp [applyRemovals]

end ZoektModel.C33
