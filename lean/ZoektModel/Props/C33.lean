/-
C33 — zoekt-local-sync previews are side-effect free and faithful.  Property theorems only; lemmas live in C33/Lemmas.lean.

Statement (properties.jsonl): without -f, `zoekt-local-sync` (sync) and `zoekt-local-sync remove` never create, change or
delete anything in the index directory, and the removals and (re)indexing they announce are exactly those the same
command with -f then performs on the same state.

The model (C33/Model.lean) is the code *after* the fix "preview announces re-indexing of a repository whose shard it plans
to remove" (`pending` in `indexOne`); `preview_needs_pending` shows that without it the statement is false.
-/
import ZoektModel.C33.Lemmas
namespace ZoektModel.C33

/-! ## pure: a preview returns the inventory it was given -/

theorem indexOne_dry_inv (pending : List String) (st : Run) (r : Repo) :
    (indexOne true pending st r).inv = st.inv := by
  unfold indexOne
  cases r.head with
  | none => rfl
  | some h => simp only [↓reduceIte]; split <;> rfl

theorem indexRepositories_dry_inv (pending : List String) (repos : List Repo) (st : Run) :
    (repos.foldl (indexOne true pending) st).inv = st.inv := by
  induction repos generalizing st with
  | nil => rfl
  | cons r t ih => rw [List.foldl_cons, ih, indexOne_dry_inv]

/-- **C33, pure (sync)**: for every set of discovered repositories and every index inventory, the preview's final
    inventory is the initial one. -/
theorem preview_pure_sync (cwd : String) (d : List Repo) (inv : Inv) : (runSync false cwd d inv).inv = inv := by
  unfold runSync applyRemovals indexRepositories
  simp only [Bool.not_false, ↓reduceIte, Bool.false_eq_true]
  split <;> simp [indexRepositories_dry_inv]

/-- **C33, pure (remove)**: for every selector list and inventory, `remove` without -f leaves the inventory alone. -/
theorem preview_pure_remove (cwd : String) (sels : List String) (inv : Inv) :
    (runRemove false cwd sels inv).inv = inv := by
  unfold runRemove
  split
  · rfl
  · simp [applyRemovals]

/-- **C33, pure (everything else in the index directory)**: without `-f` the set of entries that are not shards —
    temporary files of a killed or concurrent build, lock file, anything — is exactly what it was; with `-f` the only
    entry that can appear is the lock file, and none disappears. For every such set. -/
theorem preview_pure_others (o : Others) :
    othersAfter false o = o ∧ othersUnchanged o (othersAfter false o) = true ∧
    (∀ x, x ∈ othersAfter true o ↔ x ∈ o ∨ x = lockName) ∧ forceOthersOk o (othersAfter true o) = true := by
  have hmem : ∀ x, x ∈ othersAfter true o ↔ x ∈ o ∨ x = lockName := by
    intro x
    unfold othersAfter takeLock
    by_cases h : lockName ∈ o
    · simp only [↓reduceIte, h]
      constructor
      · exact Or.inl
      · rintro (hx | rfl)
        · exact hx
        · exact h
    · simp [h]
  refine ⟨rfl, by simp [othersAfter, othersUnchanged, sameSet], hmem, ?_⟩
  unfold forceOthersOk
  simp only [Bool.and_eq_true, List.all_eq_true, decide_eq_true_eq, Bool.or_eq_true]
  exact ⟨fun x hx => (hmem x).mpr (Or.inl hx), fun x hx => (hmem x).mp hx⟩

/-! ## faithful (remove) -/

/-- **C33, faithful (remove)**: for every selector list and inventory the preview fails exactly when the forced run
    fails (before doing anything), and otherwise announces exactly the removals the forced run performs. -/
theorem preview_faithful_remove (cwd : String) (sels : List String) (inv : Inv) :
    (runRemove false cwd sels inv).err = (runRemove true cwd sels inv).err ∧
    announcedRemovals (runRemove false cwd sels inv).events = performedRemovals (runRemove true cwd sels inv).events ∧
    faithful (runRemove false cwd sels inv).events (runRemove true cwd sels inv).events = true := by
  unfold runRemove
  split
  · simp [faithful, previewSilent, announcedRemovals, performedRemovals, announcedIndexing, performedIndexing, sameSet]
  · simp only [applyRemovals, Bool.not_false, Bool.not_true, ↓reduceIte, Bool.false_eq_true, List.append_nil]
    refine ⟨?_, ?_, ?_⟩
    · trivial
    · rw [announcedRemovals_append, announcedRemovals_wouldRemove, performedRemovals_removing]
      simp [announcedRemovals]
    · unfold faithful previewSilent
      rw [announcedRemovals_append, announcedRemovals_wouldRemove, performedRemovals_removing,
        performedRemovals_append, performedRemovals_wouldRemove, performedIndexing_append, performedIndexing_wouldRemove,
        announcedIndexing_append, announcedIndexing_wouldRemove, performedIndexing_removing, announcedRemovals_removing,
        announcedIndexing_removing]
      simp [announcedRemovals, performedRemovals, performedIndexing, announcedIndexing, sameSet_refl]

/-! ## faithful (sync) -/

/-- one step of both loops: what the preview announces for `r` is what the forced loop does for `r`, provided the
    forced loop's inventory agrees with the original one on `r`'s first shard path, up to the planned removals `P` -/
theorem indexOne_agree (P : List String) (inv0 : Inv) (stp stf : Run) (r : Repo) (hp : stp.inv = inv0)
    (hl : lookup stf.inv r.shard0 = if r.shard0 ∈ P then none else lookup inv0 r.shard0)
    (hidx : announcedIndexing stp.events = performedIndexing stf.events)
    (hup : leftAlone stp.events = leftAlone stf.events) (herr : stp.err = stf.err) :
    announcedIndexing (indexOne true P stp r).events = performedIndexing (indexOne false [] stf r).events ∧
    leftAlone (indexOne true P stp r).events = leftAlone (indexOne false [] stf r).events ∧
    (indexOne true P stp r).err = (indexOne false [] stf r).err := by
  unfold indexOne
  cases hh : r.head with
  | none =>
    simp only [Bool.false_eq_true, ↓reduceIte, announcedIndexing_append, performedIndexing_append, leftAlone_append,
      hidx, hup]
    simp [announcedIndexing, performedIndexing, leftAlone]
  | some h =>
    simp only [Bool.false_eq_true, ↓reduceIte]
    by_cases hP : r.shard0 ∈ P
    · -- the shard at r's path is being pruned: the forced loop finds nothing there
      have hm : indexState stf.inv r h = .missing := indexState_missing _ _ _ (by simpa [hP] using hl)
      simp only [hP, hm, not_true_eq_false, and_false, ↓reduceIte, reduceCtorEq, announcedIndexing_append,
        performedIndexing_append, leftAlone_append, hidx, hup, herr]
      simp [announcedIndexing, performedIndexing, leftAlone]
    · have hs : indexState stf.inv r h = indexState stp.inv r h :=
        indexState_congr _ _ _ _ (by simpa [hP, hp] using hl)
      rw [hs]
      by_cases he : indexState stp.inv r h = .equal
      · simp only [hP, he, not_false_eq_true, and_self, ↓reduceIte, announcedIndexing_append,
          performedIndexing_append, leftAlone_append, hidx, hup, herr]
        simp [announcedIndexing, performedIndexing, leftAlone]
      · simp only [hP, he, not_false_eq_true, false_and, ↓reduceIte, announcedIndexing_append,
          performedIndexing_append, leftAlone_append, hidx, hup, herr]
        simp [announcedIndexing, performedIndexing, leftAlone]

/-- both loops over the whole list -/
theorem loops_agree (P : List String) (inv0 : Inv) (repos : List Repo) (hw : WF repos) (stp stf : Run)
    (hp : stp.inv = inv0)
    (hl : ∀ r ∈ repos, lookup stf.inv r.shard0 = if r.shard0 ∈ P then none else lookup inv0 r.shard0)
    (hidx : announcedIndexing stp.events = performedIndexing stf.events)
    (hup : leftAlone stp.events = leftAlone stf.events) (herr : stp.err = stf.err) :
    announcedIndexing (repos.foldl (indexOne true P) stp).events =
      performedIndexing (repos.foldl (indexOne false []) stf).events ∧
    leftAlone (repos.foldl (indexOne true P) stp).events = leftAlone (repos.foldl (indexOne false []) stf).events ∧
    (repos.foldl (indexOne true P) stp).err = (repos.foldl (indexOne false []) stf).err := by
  induction repos generalizing stp stf with
  | nil => exact ⟨hidx, hup, herr⟩
  | cons r t ih =>
    rw [List.foldl_cons, List.foldl_cons]
    unfold WF at hw
    rw [List.pairwise_cons] at hw
    obtain ⟨a, b, c⟩ := indexOne_agree P inv0 stp stf r hp (hl r (List.mem_cons_self ..)) hidx hup herr
    apply ih hw.2 _ _ ((indexOne_dry_inv P stp r).trans hp) _ a b c
    intro r' hr'
    rw [indexOne_force_lookup [] stf r r'.shard0 (hw.1 r' hr').2]
    exact hl r' (List.mem_cons_of_mem _ hr')

theorem tailP_proj (e : Bool) :
    announcedRemovals (tailP e) = [] ∧ performedRemovals (tailP e) = [] ∧ announcedIndexing (tailP e) = [] ∧
    performedIndexing (tailP e) = [] ∧ leftAlone (tailP e) = [] := by
  cases e <;> simp [tailP, announcedRemovals, performedRemovals, announcedIndexing, performedIndexing, leftAlone]

/-- **C33, faithful (sync)**: for every list of discovered repositories whose shard paths do not interfere and every
    index inventory: the preview announces exactly the removals the forced run performs, announces (re)indexing for
    exactly the repositories the forced run (re)indexes, reports as up to date exactly those the forced run leaves
    alone, fails exactly when the forced run fails — and says it does nothing itself. -/
theorem preview_faithful_sync (cwd : String) (d : List Repo) (inv : Inv) (hw : WF d) :
    announcedRemovals (runSync false cwd d inv).events = performedRemovals (runSync true cwd d inv).events ∧
    announcedIndexing (runSync false cwd d inv).events = performedIndexing (runSync true cwd d inv).events ∧
    leftAlone (runSync false cwd d inv).events = leftAlone (runSync true cwd d inv).events ∧
    (runSync false cwd d inv).err = (runSync true cwd d inv).err ∧
    faithful (runSync false cwd d inv).events (runSync true cwd d inv).events = true := by
  have key := loops_agree ((planPrune cwd d inv).map (·.shard)) inv d hw
    ⟨[], inv, false⟩ ⟨[], (planPrune cwd d inv).foldl (fun i a => removePath i a.shard) inv, false⟩ rfl
    (by intro r _; rw [foldl_removePath_actions, lookup_removeAll]) rfl rfl rfl
  obtain ⟨kidx, kup, kerr⟩ := key
  obtain ⟨d1, d2, d3⟩ := dry_proj ((planPrune cwd d inv).map (·.shard)) d ⟨[], inv, false⟩
  obtain ⟨f1, f2, f3⟩ := force_proj [] d
    ⟨[], (planPrune cwd d inv).foldl (fun i a => removePath i a.shard) inv, false⟩
  change announcedIndexing (pvLoop cwd d inv).events = performedIndexing (fcLoop cwd d inv).events at kidx
  change leftAlone (pvLoop cwd d inv).events = leftAlone (fcLoop cwd d inv).events at kup
  change (pvLoop cwd d inv).err = (fcLoop cwd d inv).err at kerr
  change performedIndexing (pvLoop cwd d inv).events = [] at d1
  change performedRemovals (pvLoop cwd d inv).events = [] at d2
  change announcedRemovals (pvLoop cwd d inv).events = [] at d3
  change announcedIndexing (fcLoop cwd d inv).events = [] at f1
  change performedRemovals (fcLoop cwd d inv).events = [] at f2
  change announcedRemovals (fcLoop cwd d inv).events = [] at f3
  obtain ⟨t1, t2, t3, t4, t5⟩ := tailP_proj (pvLoop cwd d inv).err
  rw [runSync_preview, runSync_force]
  simp only
  have hrem : announcedRemovals ((planPrune cwd d inv).map Event.wouldRemove ++ (pvLoop cwd d inv).events ++
      tailP (pvLoop cwd d inv).err) = (planPrune cwd d inv).map (·.shard) := by
    rw [announcedRemovals_append, announcedRemovals_append, announcedRemovals_wouldRemove, d3, t1]; simp
  have hrem' : performedRemovals ((planPrune cwd d inv).map Event.removing ++ (fcLoop cwd d inv).events) =
      (planPrune cwd d inv).map (·.shard) := by
    rw [performedRemovals_append, performedRemovals_removing, f2]; simp
  have hidx : announcedIndexing ((planPrune cwd d inv).map Event.wouldRemove ++ (pvLoop cwd d inv).events ++
      tailP (pvLoop cwd d inv).err) = announcedIndexing (pvLoop cwd d inv).events := by
    rw [announcedIndexing_append, announcedIndexing_append, announcedIndexing_wouldRemove, t3]; simp
  have hidx' : performedIndexing ((planPrune cwd d inv).map Event.removing ++ (fcLoop cwd d inv).events) =
      performedIndexing (fcLoop cwd d inv).events := by
    rw [performedIndexing_append, performedIndexing_removing]; simp
  have hup : leftAlone ((planPrune cwd d inv).map Event.wouldRemove ++ (pvLoop cwd d inv).events ++
      tailP (pvLoop cwd d inv).err) = leftAlone (pvLoop cwd d inv).events := by
    rw [leftAlone_append, leftAlone_append, t5]; simp [leftAlone]
  have hup' : leftAlone ((planPrune cwd d inv).map Event.removing ++ (fcLoop cwd d inv).events) =
      leftAlone (fcLoop cwd d inv).events := by
    rw [leftAlone_append]; simp [leftAlone]
  have hs1 : performedRemovals ((planPrune cwd d inv).map Event.wouldRemove ++ (pvLoop cwd d inv).events ++
      tailP (pvLoop cwd d inv).err) = [] := by
    rw [performedRemovals_append, performedRemovals_append, performedRemovals_wouldRemove, d2, t2]; rfl
  have hs2 : performedIndexing ((planPrune cwd d inv).map Event.wouldRemove ++ (pvLoop cwd d inv).events ++
      tailP (pvLoop cwd d inv).err) = [] := by
    rw [performedIndexing_append, performedIndexing_append, performedIndexing_wouldRemove, d1, t4]; rfl
  have hs3 : announcedRemovals ((planPrune cwd d inv).map Event.removing ++ (fcLoop cwd d inv).events) = [] := by
    rw [announcedRemovals_append, announcedRemovals_removing, f3]; rfl
  have hs4 : announcedIndexing ((planPrune cwd d inv).map Event.removing ++ (fcLoop cwd d inv).events) = [] := by
    rw [announcedIndexing_append, announcedIndexing_removing, f1]; rfl
  refine ⟨hrem.trans hrem'.symm, ?_, ?_, kerr, ?_⟩
  · rw [hidx, hidx', kidx]
  · rw [hup, hup', kup]
  · unfold faithful previewSilent
    rw [hs1, hs2, hs3, hs4, hrem, hrem', hidx, hidx', kidx]
    simp [sameSet_refl]

/-! ## non-vacuity, and the defect the fix removed

The witness of corpus/C33/moved-same-name in the abstraction: the index holds `proj` at its canonical path with another
source (here: none recorded); `proj` is discovered at `/r1/proj` with the same HEAD. -/

def exShard : Shard := ⟨"/i/proj_v16.00000.zoekt", "proj", "", "HEAD=1", true, true, false⟩
def exRepo : Repo := ⟨"proj", "/r1/proj", some "HEAD=1", "/i/proj_v16.00000.zoekt", [], 0⟩

theorem ex_plan : planPrune "/w" [exRepo] [exShard] = [⟨"/i/proj_v16.00000.zoekt", "proj", "", "gone"⟩] := by
  have h : normalizeSource "/w" "/r1/proj" ≠ "" := normalizeSource_ne_empty _ _ (by decide)
  have h0 : normalizeSource "/w" "" = "" := by decide
  have hp : pruneOne "/w" [exRepo] exShard = some ⟨"/i/proj_v16.00000.zoekt", "proj", "", "gone"⟩ := by
    unfold pruneOne findDesired
    simp only [exShard, h0]
    simp [exRepo, h]
  unfold planPrune
  simp [hp]

example : WF [exRepo] := by simp [WF]

/-- on the witness the preview announces the removal and the re-indexing, and the forced run performs both -/
example : announcedIndexing (runSync false "/w" [exRepo] [exShard]).events = [("proj", "/r1/proj")] ∧
    performedIndexing (runSync true "/w" [exRepo] [exShard]).events = [("proj", "/r1/proj")] ∧
    announcedRemovals (runSync false "/w" [exRepo] [exShard]).events = ["/i/proj_v16.00000.zoekt"] ∧
    performedRemovals (runSync true "/w" [exRepo] [exShard]).events = ["/i/proj_v16.00000.zoekt"] := by
  rw [runSync_preview, runSync_force]
  unfold pvLoop fcLoop
  rw [ex_plan]
  decide

/-- **the defect**: the preview loop of the code before the fix (no pending removals taken into account) reports
    `proj` as up to date on the witness, while the forced run re-indexes it — the full statement was false. -/
theorem preview_needs_pending :
    announcedIndexing ([exRepo].foldl (indexOne true []) ⟨[], [exShard], false⟩).events ≠
      performedIndexing (fcLoop "/w" [exRepo] [exShard]).events := by
  unfold fcLoop
  rw [ex_plan]
  decide

end ZoektModel.C33
