/-
C16 — Merging and exploding shards preserves searchable content.  Property theorems; lemmas live in
C16/{Lemmas,BuilderLemmas,CopyLemmas,MergeLemmas,ExplodeLemmas,WfLemmas,ReposLemmas}.lean.

Statement (properties.jsonl): merging simple shards into a compound shard, and exploding a compound shard back into
simple shards, preserves every live repository that has at least one document: searches over the result return the
same files, contents, branches, languages and matches, and listings the same repository metadata, as over the inputs.
Tombstoned repositories are dropped.

`flat sh` is the searchable content of a shard: every document of a live repository, decoded through the shard's own
tables (name, content, branch names, sub-repository path, language, category, symbol sections and metadata), paired
with its repository's metadata.  The theorems hold for every list of input shards that pass `wfB` (checked by the driver
on every real input), in every order.
-/
import ZoektModel.C16.ReposLemmas
namespace ZoektModel.C16

theorem insertByPrio_perm (sh : Shard) (l : List Shard) : (insertByPrio sh l).Perm (sh :: l) := by
  induction l with
  | nil => exact List.Perm.refl _
  | cons x xs ih =>
    unfold insertByPrio
    split
    · exact List.Perm.refl _
    · exact ((List.Perm.cons x ih).trans (List.Perm.swap sh x xs))

theorem sortByPrio_perm (l : List Shard) : (sortByPrio l).Perm l := by
  induction l with
  | nil => exact List.Perm.refl _
  | cons sh rest ih =>
    unfold sortByPrio
    exact (insertByPrio_perm sh _).trans (List.Perm.cons sh ih)

theorem insertByPrio_sorted (sh : Shard) (l : List Shard)
    (h : l.Pairwise (fun a b => firstPrio a ≥ firstPrio b)) :
    (insertByPrio sh l).Pairwise (fun a b => firstPrio a ≥ firstPrio b) := by
  induction l with
  | nil => simp [insertByPrio]
  | cons x xs ih =>
    rw [List.pairwise_cons] at h
    unfold insertByPrio
    split
    · rename_i hge
      rw [List.pairwise_cons]
      refine ⟨?_, List.pairwise_cons.2 h⟩
      intro y hy
      rcases List.mem_cons.1 hy with rfl | hy'
      · exact hge
      · exact Int.le_trans (h.1 y hy') hge
    · rename_i hlt
      rw [List.pairwise_cons]
      refine ⟨?_, ih h.2⟩
      intro y hy
      rcases List.mem_cons.1 ((insertByPrio_perm sh xs).mem_iff.1 hy) with rfl | hy'
      · omega
      · exact h.1 y hy'

/-- the compound shard lists the inputs by descending priority of their first repository (ties keep the input order) -/
theorem sortByPrio_sorted (l : List Shard) : (sortByPrio l).Pairwise (fun a b => firstPrio a ≥ firstPrio b) := by
  induction l with
  | nil => simp [sortByPrio]
  | cons sh rest ih => unfold sortByPrio; exact insertByPrio_sorted sh _ ih

/-- **C16, merge (content)**: for well-formed inputs `merge` succeeds; the compound shard shows exactly the documents of
    the live repositories of the inputs, in the order of the priority-sorted inputs; its documents are grouped by
    repository, every repository of the output is live and has documents -/
theorem merge_preserves (shards : List Shard) (hne : shards ≠ []) (hrep : ∀ sh ∈ shards, sh.repos ≠ [])
    (hwf : ∀ sh ∈ shards, wfB sh = true) :
    ∃ out, merge shards = some out ∧ flat out = (sortByPrio shards).flatMap flat ∧ outShardOk out = true ∧
      out.repos = (sortByPrio shards).flatMap (fun sh => started sh sh.docs none) ∧ WF out := by
  have hwf' : ∀ sh ∈ sortByPrio shards, WF sh :=
    fun sh hs => wfB_sound sh (hwf sh ((sortByPrio_perm shards).mem_iff.1 hs))
  obtain ⟨b', hm, hbi, hne', hoki, hfl, hrepos⟩ := mergeLoop_spec (sortByPrio shards) ⟨[], []⟩ hwf' BI_empty
    (by intro g hg; cases hg) (by intro g hg; cases hg)
  refine ⟨b'.flatten, ?_, ?_, outShardOk_flatten b' hbi hne', ?_, WF_flatten b' hbi hoki⟩
  · unfold merge
    have h1 : shards.isEmpty = false := by cases shards <;> simp_all
    have h2 : shards.any (·.repos.isEmpty) = false := by
      rw [Bool.eq_false_iff]
      intro h
      rw [List.any_eq_true] at h
      obtain ⟨sh, hs, he⟩ := h
      exact hrep sh hs (by simpa using he)
    simp [h1, h2, hm, realign_flatten b' hoki]
  · rw [flat_flatten b' hbi, hfl]; simp [bflat]
  · simpa [Builder.flatten] using hrepos

/-- **C16, merge (any input order)**: the multiset of (repository metadata, document record) over the live repositories is
    the same before and after — the documents clause of `checkMerge` -/
theorem merge_preserves_perm (shards : List Shard) (hne : shards ≠ []) (hrep : ∀ sh ∈ shards, sh.repos ≠ [])
    (hwf : ∀ sh ∈ shards, wfB sh = true) :
    ∃ out, merge shards = some out ∧ (flat out).Perm (shards.flatMap flat) ∧ outShardOk out = true := by
  obtain ⟨out, h1, h2, h3, _, _⟩ := merge_preserves shards hne hrep hwf
  exact ⟨out, h1, h2 ▸ (sortByPrio_perm shards).flatMap_right flat, h3⟩

/-- **C16, tombstoned repositories are dropped**: nothing of a tombstoned repository reaches the compound shard -/
theorem merge_drops_tombstoned (shards : List Shard) (out : Shard) (hne : shards ≠ [])
    (hrep : ∀ sh ∈ shards, sh.repos ≠ []) (hwf : ∀ sh ∈ shards, wfB sh = true) (hm : merge shards = some out) :
    (∀ r ∈ out.repos, r.tomb = false) ∧ (∀ p ∈ flat out, p.1.tomb = false) := by
  obtain ⟨out', h1, _, h3, _, _⟩ := merge_preserves shards hne hrep hwf
  rw [hm] at h1; cases h1
  unfold outShardOk at h3
  simp only [Bool.and_eq_true, List.all_eq_true, Bool.not_eq_true'] at h3
  refine ⟨h3.1.2, ?_⟩
  intro p hp
  unfold flat at hp
  rw [List.mem_filterMap] at hp
  obtain ⟨d, _, hd⟩ := hp
  split at hd
  · split at hd
    · cases hd
    · cases hd; simp_all
  · cases hd

theorem explode_of_loop (sh : Shard) (outs : List Shard) (he : explodeLoop sh sh.docs none none [] = some outs)
    (hg : ∀ o ∈ outs, GoodOut o) : explode sh = some outs := by
  unfold explode
  rw [he]
  simp only [Option.map_some]
  congr 1
  rw [List.map_congr_left (g := id) (fun o ho => (hg o ho).2.2)]
  simp

/-- **C16, explode** (for any shard satisfying the hypotheses `WF`, in particular every output of merge): a well-formed compound shard explodes into shards that hold one repository each, are grouped and
    without tombstones, and together show exactly what the compound shard showed, in order -/
theorem explode_preserves_wf (sh : Shard) (w : WF sh) :
    ∃ outs, explode sh = some outs ∧ outs.flatMap flat = flat sh ∧
      ∀ o ∈ outs, outShardOk o = true ∧ o.repos.length = 1 := by
  obtain ⟨outs, he, hfl, hgood⟩ := explodeLoop_spec sh sh.docs none none [] w.docs w.mono
    (by intro l hl; cases hl) (Or.inl ⟨rfl, rfl⟩)
  have hg : ∀ o ∈ outs, GoodOut o := by
    intro o ho
    rcases hgood.1 o ho with h | h
    · cases h
    · exact h
  refine ⟨outs, explode_of_loop sh outs he hg, ?_, fun o ho => ⟨(hg o ho).1, (hg o ho).2.1⟩⟩
  rw [hfl, flat_eq]; simp [curFlat]

theorem explode_preserves (sh : Shard) (hwf : wfB sh = true) :
    ∃ outs, explode sh = some outs ∧ outs.flatMap flat = flat sh ∧
      ∀ o ∈ outs, outShardOk o = true ∧ o.repos.length = 1 :=
  explode_preserves_wf sh (wfB_sound sh hwf)

/-- **C16, explode ∘ merge is the identity on content** (up to the order of the inputs): merging well-formed shards and
    exploding the result yields one shard per live repository with documents, together showing exactly the inputs'
    content -/
theorem explode_merge_id (shards : List Shard) (hne : shards ≠ []) (hrep : ∀ sh ∈ shards, sh.repos ≠ [])
    (hwf : ∀ sh ∈ shards, wfB sh = true) :
    ∃ out outs, merge shards = some out ∧ explode out = some outs ∧
      (outs.flatMap flat).Perm (shards.flatMap flat) ∧ ∀ o ∈ outs, outShardOk o = true ∧ o.repos.length = 1 := by
  obtain ⟨out, h1, h2, _, _, hw⟩ := merge_preserves shards hne hrep hwf
  obtain ⟨outs, e1, e2, e3⟩ := explode_preserves_wf out hw
  exact ⟨out, outs, h1, e1, by rw [e2, h2]; exact (sortByPrio_perm shards).flatMap_right flat, e3⟩

/-- explode drops tombstoned repositories -/
theorem explode_drops_tombstoned (sh : Shard) (outs : List Shard) (hwf : wfB sh = true) (he : explode sh = some outs) :
    ∀ o ∈ outs, ∀ r ∈ o.repos, r.tomb = false := by
  obtain ⟨outs', h1, _, h3⟩ := explode_preserves sh hwf
  rw [he] at h1; cases h1
  intro o ho r hr
  have := (h3 o ho).1
  unfold outShardOk at this
  simp only [Bool.and_eq_true, List.all_eq_true, Bool.not_eq_true'] at this
  exact this.1.2 r hr

/-- an output in which every repository is live and has documents lists exactly its repositories -/
theorem liveRepos_of_ok (o : Shard) (h : outShardOk o = true) : liveRepos o = o.repos := by
  unfold outShardOk at h
  simp only [Bool.and_eq_true, List.all_eq_true, Bool.not_eq_true', List.mem_range] at h
  obtain ⟨⟨_, hlive⟩, hdocs⟩ := h
  have key : ∀ (rs : List RepoMeta) (i : Nat), (∀ r ∈ rs, r.tomb = false) →
      (∀ j, i ≤ j → j < i + rs.length → hasDocs o j = true) → liveReposAux o rs i = rs := by
    intro rs
    induction rs with
    | nil => intro i _ _; rfl
    | cons r rs ih =>
      intro i hl hd
      unfold liveReposAux
      have h1 := hl r (by simp)
      have h2 := hd i (Nat.le_refl _) (by simp)
      simp only [h1, h2, Bool.not_false, Bool.and_self, if_true]
      rw [ih (i + 1) (fun r' hr' => hl r' (List.mem_cons_of_mem _ hr'))
        (fun j h1 h2 => hd j (by omega) (by simp at h2 ⊢; omega))]
  exact key o.repos 0 hlive (fun j _ hj => hdocs j (by simpa using hj))

/-- **C16, merge, the whole executable statement**: on well-formed inputs the model's output passes `checkMerge` — documents
    and repositories (live, with documents) preserved up to order, output well-formed -/
theorem C16_checkMerge (shards : List Shard) (hne : shards ≠ []) (hrep : ∀ sh ∈ shards, sh.repos ≠ [])
    (hwf : ∀ sh ∈ shards, wfB sh = true) :
    ∃ out, merge shards = some out ∧ checkMerge shards out = none := by
  obtain ⟨out, h1, h2, h3, h4, _⟩ := merge_preserves shards hne hrep hwf
  refine ⟨out, h1, ?_⟩
  have hperm := sortByPrio_perm shards
  have hrepos : (liveRepos out).Perm (shards.flatMap liveRepos) := by
    rw [liveRepos_of_ok out h3, h4]
    have : (sortByPrio shards).flatMap (fun sh => started sh sh.docs none) = (sortByPrio shards).flatMap liveRepos := by
      apply List.flatMap_congr
      intro sh hs
      exact started_eq_liveRepos sh (wfB_sound sh (hwf sh (hperm.mem_iff.1 hs)))
    rw [this]
    exact hperm.flatMap_right liveRepos
  have hdocs : (flat out).Perm (shards.flatMap flat) := h2 ▸ hperm.flatMap_right flat
  unfold checkMerge
  simp [h3, List.isPerm_iff.2 hrepos, List.isPerm_iff.2 hdocs]

/-- **C16, explode, the whole executable statement** -/
theorem C16_checkExplode (sh : Shard) (hwf : wfB sh = true) :
    ∃ outs, explode sh = some outs ∧ checkExplode sh outs = none := by
  have w := wfB_sound sh hwf
  obtain ⟨outs, he, hfl, hgood, hrep⟩ := explodeLoop_spec sh sh.docs none none [] w.docs w.mono
    (by intro l hl; cases hl) (Or.inl ⟨rfl, rfl⟩)
  have hg' : ∀ o ∈ outs, GoodOut o := by
    intro o ho
    rcases hgood o ho with h | h
    · cases h
    · exact h
  refine ⟨outs, explode_of_loop sh outs he hg', ?_⟩
  have hg : ∀ o ∈ outs, outShardOk o = true ∧ o.repos.length = 1 := fun o ho => ⟨(hg' o ho).1, (hg' o ho).2.1⟩
  have hrepos : outs.flatMap liveRepos = liveRepos sh := by
    rw [← started_eq_liveRepos sh w]
    have : outs.flatMap liveRepos = outs.flatMap (·.repos) :=
      List.flatMap_congr (fun o ho => liveRepos_of_ok o (hg o ho).1)
    rw [this, hrep]; simp [curRepos]
  have hdocs : outs.flatMap flat = flat sh := by rw [hfl, flat_eq]; simp [curFlat]
  unfold checkExplode
  have a1 : outs.all outShardOk = true := List.all_eq_true.2 (fun o ho => (hg o ho).1)
  have a2 : outs.all (fun o => o.repos.length == 1) = true :=
    List.all_eq_true.2 (fun o ho => by simp [(hg o ho).2])
  have p1 : (liveRepos sh).isPerm (liveRepos sh) = true := List.isPerm_iff.2 (List.Perm.refl _)
  have p2 : (flat sh).isPerm (flat sh) = true := List.isPerm_iff.2 (List.Perm.refl _)
  simp [a1, a2, hrepos, hdocs, p1, p2]

/-! non-vacuity: two input shards (the second with a tombstoned and an empty repository, priorities out of order),
    documents on several branches, a sub-repository, two languages -/
def exA : Shard :=
  { repos := [{ name := "a", tomb := false, prio := 1, branches := ["HEAD", "dev"], subPaths := ["", "sub"], rest := "ra" }],
    docs := [{ repo := 0, name := "f.go", content := "6162", mask := 3, sub := 0, lang := 0, cat := 1,
               secs := [⟨0, 1⟩], syms := [some ⟨"func", "", ""⟩], redetect := "Go" },
             { repo := 0, name := "sub/g", content := "", mask := 2, sub := 1, lang := 1, cat := 1,
               secs := [], syms := [], redetect := "" }],
    langs := ["Go", ""] }
def exB : Shard :=
  { repos := [{ name := "b", tomb := false, prio := 5, branches := ["HEAD"], subPaths := [""], rest := "rb" },
              { name := "t", tomb := true, prio := 0, branches := ["HEAD"], subPaths := [""], rest := "rt" },
              { name := "e", tomb := false, prio := 0, branches := ["HEAD"], subPaths := [""], rest := "re" }],
    docs := [{ repo := 0, name := "x.py", content := "7a", mask := 1, sub := 0, lang := 0, cat := 1,
               secs := [], syms := [], redetect := "Python" },
             { repo := 1, name := "dead", content := "7a", mask := 1, sub := 0, lang := 0, cat := 1,
               secs := [], syms := [], redetect := "Python" }],
    langs := ["Python"] }

example : wfB exA = true ∧ wfB exB = true := by decide

example : ∃ out, merge [exA, exB] = some out ∧ out.repos.map (·.name) = ["b", "a"] ∧
    out.docs.map (fun d => (d.repo, d.name, d.mask, d.sub, d.lang)) =
      [(0, "x.py", 1, 0, 0), (1, "f.go", 3, 0, 1), (1, "sub/g", 2, 1, 2)] ∧ out.langs = ["Python", "Go", ""] ∧
    checkMerge [exA, exB] out = none := by
  refine ⟨_, rfl, ?_, ?_, ?_, ?_⟩ <;> decide

end ZoektModel.C16
