import ZoektModel.C16.Spec
namespace ZoektModel.C16

theorem placeholder_c16 : True := trivial

end ZoektModel.C16
