/- Byte-string helpers shared by the models (core Lean only). -/
namespace ZoektModel

abbrev Bytes := List UInt8

namespace Bytes

/-- Go `bytes.Index(hay, needle)`: first offset at which `needle` occurs, `none` for -1. -/
def indexOf : (hay needle : Bytes) → Option Nat
  | [], needle => if needle.isEmpty then some 0 else none
  | h :: t, needle =>
    if needle.isPrefixOf (h :: t) then some 0
    else (indexOf t needle).map (· + 1)

/-- Go `b[lo:hi]` for `lo ≤ hi ≤ len b` (callers prove the bounds). -/
def slice (b : Bytes) (lo hi : Nat) : Bytes := (b.drop lo).take (hi - lo)

end Bytes
end ZoektModel
