/-
Line protocol shared by every model driver (core Lean only — linked into the `zoektmodel` executable).

One case per line:   <input fields>\t<implementation output>
One answer per line: <model output>\t<verdict>
where verdict is `ok`, `SPECFAIL:<key>` (the property's executable statement is false of the
*implementation's* output) or `BADCASE:<why>` (the line could not be parsed — a harness bug).
Fields are separated by single spaces; byte strings are lower-case hex, `-` for the empty string;
lists of naturals are comma separated, `-` for the empty list.
-/
namespace ZoektModel.Proto

def hexDigit (n : Nat) : Char :=
  if n < 10 then Char.ofNat (48 + n) else Char.ofNat (87 + n)

def bytesToHex (bs : List UInt8) : String :=
  if bs.isEmpty then "-" else
  String.ofList (bs.flatMap fun b => [hexDigit (b.toNat / 16), hexDigit (b.toNat % 16)])

def hexVal (c : Char) : Option Nat :=
  if '0' ≤ c ∧ c ≤ '9' then some (c.toNat - 48)
  else if 'a' ≤ c ∧ c ≤ 'f' then some (c.toNat - 87)
  else none

def hexCharsToBytes : List Char → Option (List UInt8)
  | [] => some []
  | [_] => none
  | a :: b :: rest => do
    let x ← hexVal a
    let y ← hexVal b
    let r ← hexCharsToBytes rest
    pure (UInt8.ofNat (x * 16 + y) :: r)

def hexToBytes? (s : String) : Option (List UInt8) :=
  if s == "-" then some [] else hexCharsToBytes s.toList

def natList? (s : String) : Option (List Nat) :=
  if s == "-" then some [] else (s.splitOn ",").mapM (·.toNat?)

def intList? (s : String) : Option (List Int) :=
  if s == "-" then some [] else (s.splitOn ",").mapM (·.toInt?)

def showList {α} (f : α → String) (l : List α) : String :=
  if l.isEmpty then "-" else ",".intercalate (l.map f)

def showNatList (l : List Nat) : String := showList toString l
def showIntList (l : List Int) : String := showList toString l

def bool? (s : String) : Option Bool :=
  if s == "1" || s == "true" then some true
  else if s == "0" || s == "false" then some false else none

def showBool (b : Bool) : String := if b then "1" else "0"

/-- split `input\timpl` -/
def splitCase (line : String) : String × String :=
  match line.splitOn "\t" with
  | [a] => (a, "")
  | a :: b :: _ => (a, b)
  | [] => ("", "")

def fields (s : String) : List String := (s.splitOn " ").filter (· ≠ "")

def answer (model : String) (verdict : String := "ok") : String := model ++ "\t" ++ verdict
def specFail (model key : String) : String := model ++ "\tSPECFAIL:" ++ key
def badCase (why : String) : String := "?\tBADCASE:" ++ why

def chomp (s : String) : String :=
  let s := if s.endsWith "\n" then (s.dropEnd 1).toString else s
  if s.endsWith "\r" then (s.dropEnd 1).toString else s

partial def runLines (f : String → String) : IO Unit := do
  let stdin ← IO.getStdin
  let stdout ← IO.getStdout
  let rec loop : IO Unit := do
    let line ← stdin.getLine
    if line.isEmpty then return ()
    stdout.putStrLn (f (chomp line))
    loop
  loop
  stdout.flush

partial def runState {σ : Type} (init : σ) (step : σ → String → σ × String) : IO Unit := do
  let stdin ← IO.getStdin
  let stdout ← IO.getStdout
  let rec loop (s : σ) : IO Unit := do
    let line ← stdin.getLine
    if line.isEmpty then return ()
    let (s', out) := step s (chomp line)
    stdout.putStrLn out
    loop s'
  loop init
  stdout.flush

end ZoektModel.Proto
