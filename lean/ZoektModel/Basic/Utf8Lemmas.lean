import ZoektModel.Basic.Utf8
namespace ZoektModel.Utf8
open ZoektModel

theorem lo3_ge (b0 : UInt8) : (0x80 : UInt8) ≤ lo3 b0 := by
  unfold lo3; split <;> decide
theorem hi3_le (b0 : UInt8) : hi3 b0 ≤ (0xBF : UInt8) := by
  unfold hi3; split <;> decide
theorem lo4_ge (b0 : UInt8) : (0x80 : UInt8) ≤ lo4 b0 := by
  unfold lo4; split <;> decide
theorem hi4_le (b0 : UInt8) : hi4 b0 ≤ (0xBF : UInt8) := by
  unfold hi4; split <;> decide

theorem cont_of_range3 (b0 b1 : UInt8) (h1 : lo3 b0 ≤ b1) (h2 : b1 ≤ hi3 b0) : cont b1 = true := by
  unfold cont
  have := lo3_ge b0; have := hi3_le b0
  simp only [Bool.and_eq_true, decide_eq_true_eq]
  exact ⟨UInt8.le_trans ‹_› h1, UInt8.le_trans h2 ‹_›⟩

theorem cont_of_range4 (b0 b1 : UInt8) (h1 : lo4 b0 ≤ b1) (h2 : b1 ≤ hi4 b0) : cont b1 = true := by
  unfold cont
  have := lo4_ge b0; have := hi4_le b0
  simp only [Bool.and_eq_true, decide_eq_true_eq]
  exact ⟨UInt8.le_trans ‹_› h1, UInt8.le_trans h2 ‹_›⟩

theorem dsz_cons (b0 : UInt8) (rest : Bytes) : dsz (b0 :: rest) =
    if b0 < 0xC2 then 1
    else if b0 < 0xE0 then
      match rest[0]? with
      | some b1 => if cont b1 then 2 else 1
      | none => 1
    else if b0 < 0xF0 then
      match rest[0]?, rest[1]? with
      | some b1, some b2 => if lo3 b0 ≤ b1 && b1 ≤ hi3 b0 && cont b2 then 3 else 1
      | _, _ => 1
    else if b0 < 0xF5 then
      match rest[0]?, rest[1]?, rest[2]? with
      | some b1, some b2, some b3 => if lo4 b0 ≤ b1 && b1 ≤ hi4 b0 && cont b2 && cont b3 then 4 else 1
      | _, _, _ => 1
    else 1 := rfl

theorem dsz_pos (b0 : UInt8) (rest : Bytes) : 1 ≤ dsz (b0 :: rest) := by
  rw [dsz_cons]
  repeat' split
  all_goals omega

theorem getElem?_some_lt {α} {l : List α} {i : Nat} {a : α} (h : l[i]? = some a) : i < l.length :=
  (List.getElem?_eq_some_iff.mp h).1

theorem dsz_le_length (p : Bytes) : dsz p ≤ p.length := by
  cases p with
  | nil => simp [dsz]
  | cons b0 rest =>
    rw [dsz_cons]
    split
    · simp
    · split
      · split
        · rename_i h; have := getElem?_some_lt h; split <;> simp <;> omega
        · simp
      · split
        · split
          · rename_i h1 h2; have := getElem?_some_lt h2; split <;> simp <;> omega
          · simp
        · split
          · split
            · rename_i h1 h2 h3; have := getElem?_some_lt h3; split <;> simp <;> omega
            · simp
          · simp


theorem dsz_ascii (b0 : UInt8) (rest : Bytes) (h : b0 < 0x80) : dsz (b0 :: rest) = 1 := by
  rw [dsz_cons]
  have : b0 < 0xC2 := UInt8.lt_trans h (by decide)
  simp [this]

/-- every byte after the first inside one decoding step is a continuation byte -/
theorem dsz_cont (b0 : UInt8) (rest : Bytes) (j : Nat) (hlt : j + 1 < dsz (b0 :: rest)) :
    ∃ b, rest[j]? = some b ∧ cont b = true := by
  rw [dsz_cons] at hlt
  split at hlt
  · omega
  · split at hlt
    · split at hlt
      · rename_i b1 h1
        split at hlt
        · rename_i hc
          have : j = 0 := by omega
          subst this; exact ⟨b1, h1, hc⟩
        · omega
      · omega
    · split at hlt
      · split at hlt
        · rename_i b1 b2 h1 h2
          split at hlt
          · rename_i hc
            simp only [Bool.and_eq_true, decide_eq_true_eq] at hc
            have hj : j = 0 ∨ j = 1 := by omega
            rcases hj with rfl | rfl
            · exact ⟨b1, h1, cont_of_range3 b0 b1 hc.1.1 hc.1.2⟩
            · exact ⟨b2, h2, hc.2⟩
          · omega
        · omega
      · split at hlt
        · split at hlt
          · rename_i b1 b2 b3 h1 h2 h3
            split at hlt
            · rename_i hc
              simp only [Bool.and_eq_true, decide_eq_true_eq] at hc
              have hj : j = 0 ∨ j = 1 ∨ j = 2 := by omega
              rcases hj with rfl | rfl | rfl
              · exact ⟨b1, h1, cont_of_range4 b0 b1 hc.1.1.1 hc.1.1.2⟩
              · exact ⟨b2, h2, hc.1.2⟩
              · exact ⟨b3, h3, hc.2⟩
            · omega
          · omega
        · omega

theorem getElem?_append_some {α} (l t : List α) (k : Nat) (a : α) (h : l[k]? = some a) : (l ++ t)[k]? = some a := by
  rw [List.getElem?_append_left (getElem?_some_lt h)]; exact h

/-- a successful multi-byte decode does not look beyond its own bytes -/
theorem dsz_append_gt (b0 : UInt8) (rest t : Bytes) (h : 1 < dsz (b0 :: rest)) :
    dsz (b0 :: (rest ++ t)) = dsz (b0 :: rest) := by
  rw [dsz_cons] at h
  rw [dsz_cons, dsz_cons]
  split at h
  · omega
  · rename_i h0
    simp only [h0, if_false]
    split at h
    · rename_i hE0
      simp only [hE0, if_true]
      split at h
      · rename_i b1 h1
        simp only [getElem?_append_some _ t _ _ h1, h1]
      · omega
    · rename_i hE0
      simp only [hE0, if_false]
      split at h
      · rename_i hF0
        simp only [hF0, if_true]
        split at h
        · rename_i b1 b2 h1 h2
          simp only [getElem?_append_some _ t _ _ h1, getElem?_append_some _ t _ _ h2, h1, h2]
        · omega
      · rename_i hF0
        simp only [hF0, if_false]
        split at h
        · rename_i hF5
          simp only [hF5, if_true]
          split at h
          · rename_i b1 b2 b3 h1 h2 h3
            simp only [getElem?_append_some _ t _ _ h1, getElem?_append_some _ t _ _ h2,
              getElem?_append_some _ t _ _ h3, h1, h2, h3]
          · omega
        · omega


/-! ### rune starts -/

theorem go_head (fuel : Nat) (data : Bytes) (off : Nat) : off ∈ startsFrom.go fuel data off := by
  cases data with
  | nil => simp [startsFrom.go]
  | cons b0 rest => cases fuel <;> simp [startsFrom.go]

theorem go_ge (fuel : Nat) : ∀ (data : Bytes) (off x : Nat), x ∈ startsFrom.go fuel data off → off ≤ x := by
  induction fuel with
  | zero =>
    intro data off x hx
    cases data <;> simp [startsFrom.go] at hx <;> omega
  | succ fuel ih =>
    intro data off x hx
    cases data with
    | nil => simp [startsFrom.go] at hx; omega
    | cons b0 rest =>
      simp only [startsFrom.go, List.mem_cons] at hx
      rcases hx with rfl | hx
      · omega
      · have := ih _ _ _ hx; omega

theorem go_fuel (fuel1 : Nat) : ∀ (fuel2 : Nat) (data : Bytes) (off : Nat), data.length ≤ fuel1 → data.length ≤ fuel2 →
    startsFrom.go fuel1 data off = startsFrom.go fuel2 data off := by
  induction fuel1 with
  | zero =>
    intro fuel2 data off h1 _
    have : data = [] := List.eq_nil_of_length_eq_zero (by omega)
    subst this; cases fuel2 <;> simp [startsFrom.go]
  | succ fuel1 ih =>
    intro fuel2 data off h1 h2
    cases data with
    | nil => cases fuel2 <;> simp [startsFrom.go]
    | cons b0 rest =>
      cases fuel2 with
      | zero => simp at h2
      | succ fuel2 =>
        simp only [startsFrom.go]
        congr 1
        have hp := dsz_pos b0 rest
        apply ih <;> simp at * <;> omega

theorem startsFrom_cons (b0 : UInt8) (rest : Bytes) (off : Nat) :
    startsFrom (b0 :: rest) off =
      off :: startsFrom ((b0 :: rest).drop (dsz (b0 :: rest))) (off + dsz (b0 :: rest)) := by
  unfold startsFrom
  simp only [List.length_cons, startsFrom.go]
  congr 1
  have hp := dsz_pos b0 rest
  apply go_fuel <;> simp <;> omega

theorem startsFrom_nil (off : Nat) : startsFrom [] off = [off] := by
  simp [startsFrom, startsFrom.go]

theorem startsFrom_head (data : Bytes) (off : Nat) : off ∈ startsFrom data off := go_head _ _ _
theorem startsFrom_ge (data : Bytes) (off x : Nat) (h : x ∈ startsFrom data off) : off ≤ x := go_ge _ _ _ _ h

/-- strong induction principle on the data length, phrased for the decoding loop -/
theorem decode_induction {P : Bytes → Nat → Prop}
    (hnil : ∀ off, P [] off)
    (hcons : ∀ b0 rest off, P ((b0 :: rest).drop (dsz (b0 :: rest))) (off + dsz (b0 :: rest)) → P (b0 :: rest) off) :
    ∀ data off, P data off := by
  intro data
  generalize hn : data.length = n
  induction n using Nat.strongRecOn generalizing data with
  | _ n ih =>
    intro off
    cases data with
    | nil => exact hnil off
    | cons b0 rest =>
      apply hcons
      have hp := dsz_pos b0 rest
      apply ih ((b0 :: rest).drop (dsz (b0 :: rest))).length _ _ rfl
      simp at hn ⊢; omega

/-- a byte that is not a continuation byte always starts a decoding step -/
theorem nonCont_mem : ∀ (data : Bytes) (off j : Nat) (b : UInt8), off ≤ j → data[j - off]? = some b → cont b = false →
    j ∈ startsFrom data off := by
  intro data off
  induction data, off using decode_induction with
  | hnil off => intro j b _ h; simp at h
  | hcons b0 rest off ih =>
    intro j b hj hb hc
    rw [startsFrom_cons]
    by_cases hjo : j = off
    · simp [hjo]
    · right
      by_cases hlt : j < off + dsz (b0 :: rest)
      · exfalso
        obtain ⟨b', hb', hc'⟩ := dsz_cont b0 rest (j - off - 1) (by omega)
        have : (b0 :: rest)[j - off]? = rest[j - off - 1]? := by
          have : j - off = (j - off - 1) + 1 := by omega
          rw [this]; simp
        rw [this, hb'] at hb
        simp at hb; subst hb; simp [hc'] at hc
      · apply ih j b (by omega) _ hc
        rw [List.getElem?_drop]
        have : dsz (b0 :: rest) + (j - (off + dsz (b0 :: rest))) = j - off := by omega
        rw [this]; exact hb

/-- if `k` is a rune start, the starts of the suffix at `k` are starts of the whole -/
theorem startsFrom_suffix : ∀ (data : Bytes) (off k : Nat), k ∈ startsFrom data off →
    ∀ x ∈ startsFrom (data.drop (k - off)) k, x ∈ startsFrom data off := by
  intro data off
  induction data, off using decode_induction with
  | hnil off =>
    intro k hk x hx
    simp [startsFrom_nil] at hk; subst hk; simpa using hx
  | hcons b0 rest off ih =>
    intro k hk x hx
    rw [startsFrom_cons] at hk
    simp only [List.mem_cons] at hk
    rcases hk with rfl | hk
    · simpa using hx
    · have hge := startsFrom_ge _ _ _ hk
      rw [startsFrom_cons]; right
      apply ih k hk x
      rw [List.drop_drop]
      have : dsz (b0 :: rest) + (k - (off + dsz (b0 :: rest))) = k - off := by omega
      rw [this]; exact hx

/-- the position after an ASCII byte is a rune start -/
theorem after_ascii_mem (data : Bytes) (off j : Nat) (b : UInt8) (hj : off ≤ j) (hb : data[j - off]? = some b)
    (ha : b < 0x80) : j + 1 ∈ startsFrom data off := by
  have hnc : cont b = false := by
    unfold cont
    have : ¬ (0x80 : UInt8) ≤ b := UInt8.not_le.mpr ha
    simp [this]
  have hjm := nonCont_mem data off j b hj hb hnc
  apply startsFrom_suffix data off j hjm
  have hlt := getElem?_some_lt hb
  have hd : data.drop (j - off) = b :: data.drop (j - off + 1) := by
    rw [List.drop_eq_getElem_cons hlt]
    have := (List.getElem?_eq_some_iff.mp hb).2
    rw [this]
  rw [hd, startsFrom_cons, dsz_ascii _ _ ha]
  right
  exact startsFrom_head _ _

/-- the end of a valid UTF-8 string placed at a rune start is a rune start, whatever follows it -/
theorem valid_end_mem (fuel : Nat) : ∀ (name : Bytes), name.length ≤ fuel → valid.go fuel name = true →
    ∀ (tail : Bytes) (off : Nat), off + name.length ∈ startsFrom (name ++ tail) off := by
  induction fuel with
  | zero =>
    intro name hl _ tail off
    have : name = [] := List.eq_nil_of_length_eq_zero (by omega)
    subst this; simpa using startsFrom_head tail off
  | succ fuel ih =>
    intro name hl hv tail off
    cases name with
    | nil => simpa using startsFrom_head tail off
    | cons b0 rest =>
      simp only [valid.go] at hv
      split at hv
      · rename_i ha
        have h1 := ih rest (by simp at hl; omega) hv tail (off + 1)
        show off + (b0 :: rest).length ∈ startsFrom (b0 :: (rest ++ tail)) off
        rw [startsFrom_cons, dsz_ascii _ _ ha]
        right
        simp only [List.drop_succ_cons, List.drop_zero, List.length_cons]
        have : off + (rest.length + 1) = off + 1 + rest.length := by omega
        rw [this]; exact h1
      · split at hv
        · simp at hv
        · rename_i hk
          have hk' : 1 < dsz (b0 :: rest) := by omega
          have hle := dsz_le_length (b0 :: rest)
          have hp := dsz_pos b0 rest
          have h1 := ih ((b0 :: rest).drop (dsz (b0 :: rest))) (by simp at hl ⊢; omega) hv tail (off + dsz (b0 :: rest))
          show off + (b0 :: rest).length ∈ startsFrom (b0 :: (rest ++ tail)) off
          rw [startsFrom_cons, dsz_append_gt _ _ _ hk']
          right
          have hd : (b0 :: (rest ++ tail)).drop (dsz (b0 :: rest)) = (b0 :: rest).drop (dsz (b0 :: rest)) ++ tail := by
            rw [← List.cons_append, List.drop_append_of_le_length hle]
          rw [hd]
          have : off + (b0 :: rest).length = off + dsz (b0 :: rest) + ((b0 :: rest).drop (dsz (b0 :: rest))).length := by
            simp at hle ⊢; omega
          rw [this]; exact h1

theorem valid_end_mem' (name tail : Bytes) (off : Nat) (hv : valid name = true) :
    off + name.length ∈ startsFrom (name ++ tail) off :=
  valid_end_mem name.length name (Nat.le_refl _) hv tail off

end ZoektModel.Utf8
