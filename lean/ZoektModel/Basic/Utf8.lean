/-
Model of Go's `utf8.DecodeRune` *size* (how many bytes one decoding step consumes), as used by every rune-counting loop
in zoekt (`newSearchableString`, rune offset maps, column computation). Core Lean only.

Go (unicode/utf8): ASCII and invalid lead bytes consume 1; a lead byte C2..DF / E0..EF / F0..F4 consumes 2/3/4 when enough
bytes follow, the second byte is in the lead's accept range and the others are continuation bytes 80..BF; otherwise 1.
-/
import ZoektModel.Basic.Bytes
namespace ZoektModel.Utf8

def cont (b : UInt8) : Bool := 0x80 ≤ b && b ≤ 0xBF

/-- accept range of the second byte for 3-byte leads -/
def lo3 (b0 : UInt8) : UInt8 := if b0 = 0xE0 then 0xA0 else 0x80
def hi3 (b0 : UInt8) : UInt8 := if b0 = 0xED then 0x9F else 0xBF
/-- accept range of the second byte for 4-byte leads -/
def lo4 (b0 : UInt8) : UInt8 := if b0 = 0xF0 then 0x90 else 0x80
def hi4 (b0 : UInt8) : UInt8 := if b0 = 0xF4 then 0x8F else 0xBF

/-- size consumed by `utf8.DecodeRune(p)` (0 for empty input) -/
def dsz : Bytes → Nat
  | [] => 0
  | b0 :: rest =>
    if b0 < 0xC2 then 1
    else if b0 < 0xE0 then
      match rest[0]? with
      | some b1 => if cont b1 then 2 else 1
      | none => 1
    else if b0 < 0xF0 then
      match rest[0]?, rest[1]? with
      | some b1, some b2 => if lo3 b0 ≤ b1 && b1 ≤ hi3 b0 && cont b2 then 3 else 1
      | _, _ => 1
    else if b0 < 0xF5 then
      match rest[0]?, rest[1]?, rest[2]? with
      | some b1, some b2, some b3 => if lo4 b0 ≤ b1 && b1 ≤ hi4 b0 && cont b2 && cont b3 then 4 else 1
      | _, _, _ => 1
    else 1

/-- Go `utf8.Valid`: every decoding step is ASCII or a successful multi-byte decode -/
def valid (p : Bytes) : Bool :=
  go p.length p
where
  go : Nat → Bytes → Bool
  | _, [] => true
  | 0, _ :: _ => false
  | fuel + 1, b0 :: rest =>
    if b0 < 0x80 then go fuel rest
    else
      let k := dsz (b0 :: rest)
      if k ≤ 1 then false else go fuel ((b0 :: rest).drop k)

/-- byte offsets at which the decoding loop `for len(data) > 0 { …; data = data[sz:] }` stands, including the final
    offset (the end of the data) -/
def startsFrom (data : Bytes) (off : Nat) : List Nat :=
  go data.length data off
where
  go : Nat → Bytes → Nat → List Nat
  | _, [], off => [off]
  | 0, _ :: _, off => [off]
  | fuel + 1, b0 :: rest, off => off :: go fuel ((b0 :: rest).drop (dsz (b0 :: rest))) (off + dsz (b0 :: rest))

end ZoektModel.Utf8
