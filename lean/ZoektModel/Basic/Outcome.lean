/-
Outcome of a modelled Go function: every operation that can panic or loop forever in the Go
source is explicit in the model.
-/
namespace ZoektModel

inductive Outcome (α : Type) where
  | ok (a : α)
  | err (e : String)       -- the Go function returned a non-nil error (class only)
  | panic (site : String)  -- a Go run-time panic (index, slice, nil, log.Panicf)
  | diverge                -- does not terminate (or is bounded only by memory)
  deriving Repr, DecidableEq

namespace Outcome
def isOkOrErr {α} : Outcome α → Bool
  | ok _ => true | err _ => true | _ => false
def bind {α β} (x : Outcome α) (f : α → Outcome β) : Outcome β :=
  match x with
  | ok a => f a | err e => err e | panic s => panic s | diverge => diverge
instance : Monad Outcome where
  pure := ok
  bind := bind
def cls {α} : Outcome α → String
  | ok _ => "ok" | err _ => "err" | panic _ => "panic" | diverge => "diverge"
end Outcome
end ZoektModel
