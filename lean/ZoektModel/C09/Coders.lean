/-
C09 — models of the integer coders of index/bits.go and index/section.go (core Lean only).

* `putUvarint` / `varints`            encoding/binary.PutUvarint and repeated binary.Uvarint
* `toSizedDeltas` / `fromSizedDeltas`  (uint32, wrap-around), the 16-bit variants, `fromDeltas`
* `marshalDocSections` / `unmarshalDocSections`
* big-endian U32/U64 lists (writer.U32/U64, readSectionU32/U64)
* compound sections: items written back to back, absolute offsets stored, `relativeIndex` used to cut them

Decoders are modelled on *well-formed* varint streams only (`none` = truncated or overflowing varint, where the
Go code loops or panics — that is C11's subject, not C09's).
-/
import ZoektModel.Basic.Bytes
namespace ZoektModel.C09

/-- `binary.PutUvarint` (for values < 2^64) -/
def putUvarint (n : Nat) : Bytes :=
  if n < 128 then [UInt8.ofNat n] else UInt8.ofNat (n % 128 + 128) :: putUvarint (n / 128)
termination_by n
decreasing_by omega

/-- Repeated `binary.Uvarint` until the input is exhausted, as one structural pass.
    `s` = shift, `x` = accumulated value, `i` = index of the byte inside the current varint. -/
def varintsAux : Bytes → Nat → Nat → Nat → Option (List Nat)
  | [], _, _, i => if i = 0 then some [] else none
  | b :: rest, s, x, i =>
    if i = 10 then none
    else if b.toNat < 128 then
      if i = 9 ∧ b.toNat > 1 then none
      else (varintsAux rest 0 0 0).map ((x + b.toNat * 2 ^ s) :: ·)
    else varintsAux rest (s + 7) (x + (b.toNat % 128) * 2 ^ s) (i + 1)

def varints (data : Bytes) : Option (List Nat) := varintsAux data 0 0 0

/-! ### 32-bit sized deltas -/

def deltasEnc : List UInt32 → UInt32 → Bytes
  | [], _ => []
  | p :: ps, last => putUvarint (p - last).toNat ++ deltasEnc ps p

/-- `toSizedDeltas` -/
def toSizedDeltas (l : List UInt32) : Bytes := putUvarint l.length ++ deltasEnc l 0

/-- the decoding loop shared by `fromSizedDeltas`, `fromDeltas`: `offset := last + uint32(delta)` -/
def undelta : List Nat → UInt32 → List UInt32
  | [], _ => []
  | d :: ds, last => (last + UInt32.ofNat d) :: undelta ds (last + UInt32.ofNat d)

/-- `fromSizedDeltas` (the size prefix only sizes the allocation) -/
def fromSizedDeltas (data : Bytes) : Option (List UInt32) :=
  (varints data).map fun vs => undelta (vs.drop 1) 0

/-- `fromDeltas` (no size prefix) -/
def fromDeltas (data : Bytes) : Option (List UInt32) :=
  (varints data).map fun vs => undelta vs 0

/-! ### 16-bit sized deltas -/

def deltasEnc16 : List UInt16 → UInt16 → Bytes
  | [], _ => []
  | p :: ps, last => putUvarint (p - last).toNat ++ deltasEnc16 ps p

def toSizedDeltas16 (l : List UInt16) : Bytes := putUvarint l.length ++ deltasEnc16 l 0

def undelta16 : List Nat → UInt16 → List UInt16
  | [], _ => []
  | d :: ds, last => (last + UInt16.ofNat d) :: undelta16 ds (last + UInt16.ofNat d)

def fromSizedDeltas16 (data : Bytes) : Option (List UInt16) :=
  (varints data).map fun vs => undelta16 (vs.drop 1) 0

/-! ### document sections -/

structure Sec where
  start : UInt32
  stop : UInt32
  deriving Repr, DecidableEq, BEq

def flattenSecs : List Sec → List UInt32
  | [] => []
  | s :: r => s.start :: s.stop :: flattenSecs r

/-- `marshalDocSections` -/
def marshalDocSections (secs : List Sec) : Bytes := toSizedDeltas (flattenSecs secs)

/-- the inlined pair loop of `unmarshalDocSections`; a dangling single value is dropped: since the fix
    "varint delta decoders spin, panic or over-allocate on corrupt data" the loop breaks when the second
    `Uvarint` of a pair reports `m <= 0` (before it, Go read `Uvarint([]) = (0, 0)` and emitted `Start = End`). -/
def unpair : List Nat → UInt32 → List Sec
  | [], _ => []
  | [_], _ => []
  | d :: e :: r, last =>
    let s := last + UInt32.ofNat d
    let t := s + UInt32.ofNat e
    ⟨s, t⟩ :: unpair r t

/-- `unmarshalDocSections` -/
def unmarshalDocSections (data : Bytes) : Option (List Sec) :=
  (varints data).map fun vs => unpair (vs.drop 1) 0

/-! ### fixed-width big-endian integers -/

def be (width : Nat) (n : Nat) : Bytes :=
  (List.range width).map fun i => UInt8.ofNat (n / 256 ^ (width - 1 - i) % 256)

def beVal : Bytes → Nat
  | bs => bs.foldl (fun acc b => acc * 256 + b.toNat) 0

def chunks (w : Nat) : Nat → Bytes → List Bytes
  | 0, _ => []
  | fuel + 1, bs => if bs.isEmpty || w = 0 then [] else bs.take w :: chunks w fuel (bs.drop w)

/-- `readSectionU32` / `readSectionU64` on a section whose size is a multiple of the width -/
def readBE (w : Nat) (bs : Bytes) : List Nat := (chunks w bs.length bs).map beVal

def writeBE (w : Nat) (ns : List Nat) : Bytes := (ns.map (be w)).flatten

/-! ### compound sections -/

/-- `compoundSection` as written: data start offset, concatenated items, absolute item offsets -/
structure Compound where
  off : Nat
  data : Bytes
  offsets : List Nat
  deriving Repr, DecidableEq

def itemOffsets : List Bytes → Nat → List Nat
  | [], _ => []
  | it :: r, o => o :: itemOffsets r (o + it.length)

/-- `start; addItem*; end` at file offset `off` -/
def writeCompound (off : Nat) (items : List Bytes) : Compound :=
  ⟨off, items.flatten, itemOffsets items off⟩

/-- `relativeIndex` -/
def relativeIndex (c : Compound) : List Nat :=
  match c.offsets with
  | [] => []
  | o0 :: _ => c.offsets.map (· - o0) ++ [c.data.length]

/-- item `i` as the readers cut it: `data[ri[i] : ri[i+1]]` (`readContents`, `fileName`, `readDocSections`, …) -/
def readItem (c : Compound) (i : Nat) : Bytes :=
  let ri := relativeIndex c
  Bytes.slice c.data (ri.getD i 0) (ri.getD (i + 1) 0)

def readItems (c : Compound) : List Bytes :=
  (List.range c.offsets.length).map (readItem c)

end ZoektModel.C09
