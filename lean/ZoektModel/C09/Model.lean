/-
C09 — model of `ShardBuilder.Add` (index/shard_builder.go), `ShardBuilder.Write` / `writeTOC` (index/write.go),
and of the read side: `readIndexData`'s accessors (index/read.go, indexdata.go, eval.go) that give back, per document,
name, content, branches, checksum, language, category, sub-repository, symbol sections and symbol metadata.
Core Lean only.  JSON blobs (index metadata, repository metadata) are opaque inputs; language detection and
file-category detection (go-enry) are inputs (`langHint`, `catHint`).
-/
import ZoektModel.C09.Postings
namespace ZoektModel.C09

def str (s : String) : Bytes := s.toUTF8.toList

/-! ### crc64 (ISO polynomial), as `hash/crc64` computes it -/

def crcByte (crc : UInt64) : Nat → UInt64
  | 0 => crc
  | n + 1 => crcByte (if crc &&& 1 = 1 then (crc >>> 1) ^^^ 0xD800000000000000 else crc >>> 1) n

def crc64 (data : Bytes) : UInt64 :=
  ~~~ (data.foldl (fun crc v => crcByte ((crc ^^^ v.toUInt64) &&& 0xFF) 8 ^^^ (crc >>> 8)) (~~~ (0 : UInt64)))

/-! ### documents and repository -/

structure Sym where
  kind : Bytes
  parent : Bytes
  parentKind : Bytes
  deriving Repr, DecidableEq

structure Doc where
  name : Bytes
  content : Bytes
  branches : List Bytes
  subRepoPath : Bytes
  language : Bytes            -- "" = unknown: `DetermineLanguageIfUnknown` yields `langHint`
  langHint : Bytes
  category : Nat              -- FileCategory; 0 = FileCategoryMissing: NUL check, then `DetermineFileCategory` yields `catHint`
  catHint : Nat
  skip : Nat                  -- SkipReason
  symbols : List (Nat × Nat)  -- byte sections
  symMeta : List Sym
  deriving Repr, DecidableEq

structure Repo where
  branches : List Bytes
  subRepoKeys : List Bytes    -- keys of SubRepoMap other than ""
  deriving Repr, DecidableEq

def skipBinary : Nat := 3
def catBinary : Nat := 7

/-- `SkipReason.explanation` -/
def explanation : Nat → Bytes
  | 0 => []
  | 1 => str "exceeds the maximum size limit"
  | 2 => str "contains too few trigrams"
  | 3 => str "contains binary content"
  | 4 => str "contains too many trigrams"
  | 5 => str "object missing from repository"
  | _ => str "unknown skip reason"

def notIndexedMarker : Bytes := str "NOT-INDEXED: "

/-- `FileCategory.encode` (`none` = error) -/
def encodeCategory : Nat → Option Nat
  | 1 => some 1 | 2 => some 2 | 3 => some 3 | 4 => some 4 | 5 => some 5 | 6 => some 6
  | 8 => some 7   -- Documentation
  | 7 => some 8   -- Binary
  | _ => none

/-- `decodeCategory` (`0` = FileCategoryMissing on error) -/
def decodeCategory : Nat → Nat
  | 1 => 1 | 2 => 2 | 3 => 3 | 4 => 4 | 5 => 5 | 6 => 6 | 7 => 8 | 8 => 7 | _ => 0

/-! ### small list helpers -/

def indexOf? {α} [DecidableEq α] : List α → α → Option Nat
  | [], _ => none
  | x :: r, a => if x = a then some 0 else (indexOf? r a).map (· + 1)

/-- bytewise lexicographic `<` (Go string comparison) -/
def bytesLt : Bytes → Bytes → Bool
  | _, [] => false
  | [], _ :: _ => true
  | a :: r, b :: s => a < b || (a == b && bytesLt r s)

def insertSorted {α} (lt : α → α → Bool) (x : α) : List α → List α
  | [] => [x]
  | y :: r => if lt x y then x :: y :: r else y :: insertSorted lt x r

/-- insertion sort; stable (`x` goes after the elements it is not less than) -/
def isort {α} (lt : α → α → Bool) : List α → List α
  | [] => []
  | x :: r => insertSorted lt x (isort lt r)

/-- `mkSubRepoIndices`: `""` plus the keys, sorted; the index of a path is its position -/
def subRepoPaths (r : Repo) : List Bytes := isort bytesLt ([] :: r.subRepoKeys)

/-! ### ShardBuilder -/

structure SB where
  contents : List Bytes
  names : List Bytes
  docSections : List (List (Nat × Nat))
  runeDocSections : List (Nat × Nat)
  symIndex : List Bytes         -- id = position
  symKindIndex : List Bytes
  symMetaData : List Nat
  fileEndSymbol : List Nat
  checksums : Bytes
  branchMasks : List Nat
  subRepos : List Nat
  contentPB : PB
  namePB : PB
  languageMap : List Bytes      -- code = position
  languages : Bytes
  categories : Bytes
  deriving Repr, DecidableEq

/-- `newShardBuilderWithPostings(content, name)` -/
def SB.new (content name : PB) : SB :=
  ⟨[], [], [], [], [], [], [], [0], [], [], [], content, name, [], [], []⟩

/-- `symbolID` / `symbolKindID`: id of `s` in the first-seen table, extending it if new -/
def intern (tab : List Bytes) (s : Bytes) : List Bytes × Nat :=
  match indexOf? tab s with
  | some i => (tab, i)
  | none => (tab ++ [s], tab.length)

/-- `addSymbols` -/
def addSymbols (b : SB) : List Sym → SB
  | [] => b
  | sym :: r =>
    let (kt, k) := intern b.symKindIndex sym.kind
    let (st, p) := intern b.symIndex sym.parent
    let (kt, pk) := intern kt sym.parentKind
    addSymbols { b with symKindIndex := kt, symIndex := st, symMetaData := b.symMetaData ++ [0, k, p, pk] } r

/-- the consecutive-overlap check of `ShardBuilder.Add` (`last.End > s.Start` from the second section on) -/
def overlapFree : List (Nat × Nat) → Bool
  | [] => true
  | [_] => true
  | a :: b :: r => decide (a.2 ≤ b.1) && overlapFree (b :: r)

/-- every section has `Start ≤ End` (checked by `Add` since the fix of the inverted-section panic) -/
def properSecs (l : List (Nat × Nat)) : Bool := l.all fun p => decide (p.1 ≤ p.2)

def lastEnd : List (Nat × Nat) → Nat
  | [] => 0
  | [a] => a.2
  | _ :: r => lastEnd r

/-- `branchMask` summed over the document's branches; `none` = "no branch found" -/
def branchMaskOf (repoBranches : List Bytes) : List Bytes → Option Nat
  | [] => some 0
  | br :: r =>
    match indexOf? repoBranches br, branchMaskOf repoBranches r with
    | some i, some m => some (m ||| 2 ^ i)
    | _, _ => none

def sortSymbols (secs : List (Nat × Nat)) (syms : List Sym) : List ((Nat × Nat) × Sym) :=
  isort (fun a b => a.1.1 < b.1.1) (secs.zip syms)

/-- what `Add` indexes in place of the document's own content and symbols -/
structure Eff where
  content : Bytes
  symbols : List (Nat × Nat)
  symMeta : List Sym
  language : Bytes
  category : Nat
  deriving Repr, DecidableEq

/-- the skip reason `Add` works with: NUL content makes an unclassified document binary -/
def effSkip (d : Doc) : Nat := if d.category = 0 ∧ d.content.contains 0 then skipBinary else d.skip

/-- `DetermineFileCategory` for an unclassified document (go-enry's verdict is `catHint`) -/
def effCategory (d : Doc) : Nat :=
  if d.category = 0 then (if effSkip d = skipBinary then catBinary else d.catHint) else d.category

/-- `DetermineLanguageIfUnknown` (go-enry's verdict is `langHint`) -/
def effLanguage (d : Doc) : Bytes := if d.language.isEmpty then d.langHint else d.language

/-- the first part of `ShardBuilder.Add`: binary check, skip marker, language, symbol sort -/
def effective (d : Doc) : Eff :=
  if effSkip d ≠ 0 then ⟨notIndexedMarker ++ explanation (effSkip d), [], [], effLanguage d, effCategory d⟩
  else if d.symMeta.length = d.symbols.length then
    ⟨d.content, (sortSymbols d.symbols d.symMeta).map (·.1), (sortSymbols d.symbols d.symMeta).map (·.2), effLanguage d, effCategory d⟩
  else ⟨d.content, d.symbols, d.symMeta, effLanguage d, effCategory d⟩

/-- the values `Add` has computed when it starts appending to the builder's tables -/
structure AddVals where
  cpb : PB
  npb : PB
  runeSecs : List (Nat × Nat)
  subIdx : Nat
  mask : Nat
  cat : Nat
  deriving Repr

/-- language code of `lang` in the table (existing position, or the next free one) -/
def langCode (tab : List Bytes) (lang : Bytes) : Nat := (intern tab lang).2

/-- the appends at the end of `ShardBuilder.Add` -/
def SB.commit (b0 : SB) (d : Doc) (e : Eff) (v : AddVals) : SB :=
  let b := addSymbols b0 e.symMeta
  { b with
    contents := b.contents ++ [e.content]
    names := b.names ++ [d.name]
    docSections := b.docSections ++ [e.symbols]
    runeDocSections := b.runeDocSections ++ v.runeSecs
    fileEndSymbol := b.fileEndSymbol ++ [b.runeDocSections.length + v.runeSecs.length]
    checksums := b.checksums ++ be 8 (crc64 e.content).toNat
    branchMasks := b.branchMasks ++ [v.mask]
    subRepos := b.subRepos ++ [v.subIdx]
    contentPB := v.cpb
    namePB := v.npb
    languageMap := (intern b.languageMap e.language).1
    languages := b.languages ++ [UInt8.ofNat (langCode b.languageMap e.language % 256),
                                 UInt8.ofNat (langCode b.languageMap e.language / 256)]
    categories := b.categories ++ [UInt8.ofNat v.cat] }

/-- `ShardBuilder.Add` for the (single or last) repository `repo` -/
def SB.add (repo : Repo) (b : SB) (d : Doc) : Outcome SB :=
  let e := effective d
  if !properSecs e.symbols then .err "section ends before it starts"
  else if !overlapFree e.symbols then .err "sections overlap"
  else if lastEnd e.symbols > e.content.length then .err "section goes past end of content"
  else
  match b.contentPB.add e.content e.symbols with
  | .err x => .err x | .panic x => .panic x | .diverge => .diverge
  | .ok (cpb, runeSecs) =>
  match b.namePB.add d.name [] with
  | .err x => .err x | .panic x => .panic x | .diverge => .diverge
  | .ok (npb, _) =>
  match indexOf? (subRepoPaths repo) d.subRepoPath with
  | none => .err "unknown subrepo path"
  | some subIdx =>
  match branchMaskOf repo.branches d.branches with
  | none => .err "no branch found"
  | some mask =>
  if b.languageMap.length ≥ 65535 ∧ indexOf? b.languageMap e.language = none then .err "too many languages" else
  match encodeCategory e.category with
  | none => .err "category"
  | some cat => .ok (b.commit d e ⟨cpb, npb, runeSecs, subIdx, mask, cat⟩)

def SB.addAll (repo : Repo) : SB → List Doc → Outcome SB
  | b, [] => .ok b
  | b, d :: r =>
    match b.add repo d with
    | .ok b' => SB.addAll repo b' r
    | .err x => .err x | .panic x => .panic x | .diverge => .diverge

/-! ### ShardBuilder.Write: the sections, and the file bytes -/

def toSecs (l : List (Nat × Nat)) : List Sec := l.map fun p => ⟨UInt32.ofNat p.1, UInt32.ofNat p.2⟩

/-- `newLinesIndices` -/
def newLinesIdx : Bytes → Nat → List Nat
  | [], _ => []
  | b :: r, i => if b = 10 then i :: newLinesIdx r (i + 1) else newLinesIdx r (i + 1)

/-- the sections of a written shard that the model covers (compound sections carry their stored offsets) -/
structure Sections where
  fileContents : Compound
  newlines : Compound
  fileEndSymbol : Bytes
  symbolMap : Compound
  symbolKindMap : Compound
  symbolMetaData : Bytes
  branchMasks : Bytes
  fileSections : Compound
  ngramText : Bytes
  postings : Compound
  runeOffsets : Bytes
  fileEndRunes : Bytes
  fileNames : Compound
  nameNgramText : Bytes
  namePostings : Compound
  nameRuneOffsets : Bytes
  nameEndRunes : Bytes
  subRepos : Bytes
  contentChecksums : Bytes
  languages : Bytes
  categories : Bytes
  runeDocSections : Bytes
  deriving Repr, DecidableEq

/-- the writer: file bytes so far (offset = length), and the TOC entries in the order they were written -/
structure W where
  buf : Bytes
  deriving Repr

def W.simple (w : W) (bs : Bytes) : W × (Nat × Nat) := (⟨w.buf ++ bs⟩, (w.buf.length, bs.length))

/-- compound section: items, then the big-endian offset index -/
def W.compound (w : W) (items : List Bytes) : W × Compound × (Nat × Nat) × (Nat × Nat) :=
  let c := writeCompound w.buf.length items
  let idx := writeBE 4 c.offsets
  (⟨w.buf ++ c.data ++ idx⟩, c, (c.off, c.data.length), (c.off + c.data.length, idx.length))

inductive TocEnt where
  | simple (tag : String) (off sz : Nat)
  | compound (tag : String) (kind : Nat) (off sz ioff isz : Nat)
  deriving Repr

def tocBytes (ents : List TocEnt) : Bytes :=
  be 4 0 ++ (ents.flatMap fun
    | .simple tag off sz => putUvarint (str tag).length ++ str tag ++ putUvarint 0 ++ be 4 off ++ be 4 sz
    | .compound tag kind off sz ioff isz =>
      putUvarint (str tag).length ++ str tag ++ putUvarint kind ++ be 4 off ++ be 4 sz ++ be 4 ioff ++ be 4 isz)

def postingSecs (w : W) (pb : PB) : W × PostingSections × (Nat × Nat) × Compound × (Nat × Nat) × (Nat × Nat) × (Nat × Nat) × (Nat × Nat) :=
  let ps := pb.write
  let (w, ng) := w.simple (writeBE 8 ps.ngrams)
  let (w, pc, pd, pi) := w.compound ps.postings
  let (w, ro) := w.simple ps.runeOffsets
  let (w, er) := w.simple ps.endRunes
  (w, ps, ng, pc, pd, pi, ro, er)

/-- `ShardBuilder.Write` (index format 16, one repository): the file and its sections.
    `metaJSON`, `repoJSON` are the two JSON blobs, opaque here. -/
def SB.write (b : SB) (metaJSON repoJSON : Bytes) : Bytes × Sections :=
  let w : W := ⟨[]⟩
  let (w, cC, cD, cI) := w.compound b.contents
  let (w, nlC, nlD, nlI) := w.compound (b.contents.map fun c => toSizedDeltas (u32s (newLinesIdx c 0)))
  let (w, fes) := w.simple (writeBE 4 b.fileEndSymbol)
  let (w, smC, smD, smI) := w.compound b.symIndex
  let (w, skC, skD, skI) := w.compound b.symKindIndex
  let (w, smd) := w.simple (writeBE 4 b.symMetaData)
  let (w, bm) := w.simple (writeBE 8 b.branchMasks)
  let (w, fsC, fsD, fsI) := w.compound (b.docSections.map fun s => marshalDocSections (toSecs s))
  let (w, cps, ng, pC, pD, pI, ro, er) := postingSecs w b.contentPB
  let (w, fnC, fnD, fnI) := w.compound b.names
  let (w, nps, nng, npC, npD, npI, nro, ner) := postingSecs w b.namePB
  let (w, sr) := w.simple (toSizedDeltas (u32s b.subRepos))
  let (w, ck) := w.simple b.checksums
  let (w, lg) := w.simple b.languages
  let (w, ct) := w.simple b.categories
  let (w, rds) := w.simple (marshalDocSections (toSecs b.runeDocSections))
  let (w, md) := w.simple metaJSON
  let (w, rmd) := w.simple repoJSON
  let z := w.buf.length
  let toc := tocBytes [
    .simple "metaData" md.1 md.2, .simple "repoMetaData" rmd.1 rmd.2,
    .compound "fileContents" 1 cD.1 cD.2 cI.1 cI.2, .compound "fileNames" 1 fnD.1 fnD.2 fnI.1 fnI.2,
    .compound "fileSections" 1 fsD.1 fsD.2 fsI.1 fsI.2, .simple "fileEndSymbol" fes.1 fes.2,
    .compound "symbolMap" 2 smD.1 smD.2 smI.1 smI.2, .compound "symbolKindMap" 1 skD.1 skD.2 skI.1 skI.2,
    .simple "symbolMetaData" smd.1 smd.2, .compound "newlines" 1 nlD.1 nlD.2 nlI.1 nlI.2,
    .simple "ngramText" ng.1 ng.2, .compound "postings" 1 pD.1 pD.2 pI.1 pI.2,
    .simple "nameNgramText" nng.1 nng.2, .compound "namePostings" 1 npD.1 npD.2 npI.1 npI.2,
    .simple "branchMasks" bm.1 bm.2, .simple "subRepos" sr.1 sr.2,
    .simple "runeOffsets" ro.1 ro.2, .simple "nameRuneOffsets" nro.1 nro.2,
    .simple "fileEndRunes" er.1 er.2, .simple "nameEndRunes" ner.1 ner.2,
    .simple "contentChecksums" ck.1 ck.2, .simple "languages" lg.1 lg.2, .simple "categories" ct.1 ct.2,
    .simple "runeDocSections" rds.1 rds.2, .simple "repos" 0 0, .simple "reposIDsBitmap" 0 0,
    .simple "nameBloom" 0 0, .simple "contentBloom" 0 0, .simple "ranks" 0 0]
  (w.buf ++ toc ++ be 4 z ++ be 4 toc.length,
   { fileContents := cC, newlines := nlC, fileEndSymbol := writeBE 4 b.fileEndSymbol, symbolMap := smC,
     symbolKindMap := skC, symbolMetaData := writeBE 4 b.symMetaData, branchMasks := writeBE 8 b.branchMasks,
     fileSections := fsC, ngramText := writeBE 8 cps.ngrams, postings := pC, runeOffsets := cps.runeOffsets,
     fileEndRunes := cps.endRunes, fileNames := fnC, nameNgramText := writeBE 8 nps.ngrams, namePostings := npC,
     nameRuneOffsets := nps.runeOffsets, nameEndRunes := nps.endRunes,
     subRepos := toSizedDeltas (u32s b.subRepos), contentChecksums := b.checksums, languages := b.languages,
     categories := b.categories, runeDocSections := marshalDocSections (toSecs b.runeDocSections) })

/-! ### the read side -/

/-- what is read back for one document -/
structure DocOut where
  name : Bytes
  content : Bytes
  branches : List Bytes
  checksum : Bytes
  language : Bytes
  category : Nat
  subRepoPath : Bytes
  sections : List (Nat × Nat)      -- byte sections (`readDocSections`)
  runeSections : List (Nat × Nat)  -- `runeDocSections[fileEndSymbol[i]:fileEndSymbol[i+1]]`
  symbols : List (Option Sym)      -- `symbols.data(fileEndSymbol[i]+j)` (`none` = nil)
  deriving Repr, DecidableEq

/-- `gatherBranches` without a branch filter: names of the set bits, lowest first (`id` walks the powers of two) -/
def maskBranches (names : List Bytes) : Nat → Nat → Nat → List Bytes
  | 0, _, _ => []
  | fuel + 1, mask, i =>
    if mask = 0 then [] else
    (if mask % 2 = 1 then [names.getD i []] else []) ++ maskBranches names fuel (mask / 2) (i + 1)

def secPairs (l : List Sec) : List (Nat × Nat) := l.map fun s => (s.start.toNat, s.stop.toNat)

/-- `symbolData.parent(i)`, which cuts `symContent` with the raw offset index of the lazily read `symbolMap` -/
def symParent (c : Compound) (i : Nat) : Bytes :=
  let delta := c.offsets.getD 0 0
  let start := c.offsets.getD i 0 - delta
  let stop := if i + 1 = c.offsets.length then c.data.length else c.offsets.getD (i + 1) 0 - delta
  Bytes.slice c.data start stop

/-- `symbolData.data(i)`; `none` when the metadata table is too short -/
def symData (s : Sections) (i : Nat) : Option Sym :=
  let md := readBE 4 s.symbolMetaData
  if i * 4 ≥ md.length then none else
  some ⟨readItem s.symbolKindMap (md.getD (i * 4 + 1) 0), symParent s.symbolMap (md.getD (i * 4 + 2) 0),
        readItem s.symbolKindMap (md.getD (i * 4 + 3) 0)⟩

/-- document `i` of a loaded shard; `langMap` is `IndexMetadata.LanguageMap` (code = position) -/
def readDoc (s : Sections) (repo : Repo) (langMap : List Bytes) (i : Nat) : Option DocOut := do
  let masks := readBE 8 s.branchMasks
  let subs ← fromSizedDeltas s.subRepos
  let secs ← unmarshalDocSections (readItem s.fileSections i)
  let rds ← unmarshalDocSections s.runeDocSections
  let fes := readBE 4 s.fileEndSymbol
  let lo := fes.getD i 0
  let hi := fes.getD (i + 1) 0
  let code := (s.languages.getD (2 * i) 0).toNat + 256 * (s.languages.getD (2 * i + 1) 0).toNat
  pure {
    name := readItem s.fileNames i
    content := readItem s.fileContents i
    branches := maskBranches repo.branches 64 (masks.getD i 0) 0
    checksum := Bytes.slice s.contentChecksums (8 * i) (8 * i + 8)
    language := langMap.getD code []
    category := decodeCategory (s.categories.getD i 0).toNat
    subRepoPath := (subRepoPaths repo).getD ((subs.getD i 0).toNat) []
    sections := secPairs secs
    runeSections := secPairs ((rds.drop lo).take (hi - lo))
    symbols := (List.range secs.length).map fun j => symData s (lo + j) }

/-- `numDocs()` = number of branch masks -/
def numDocs (s : Sections) : Nat := (readBE 8 s.branchMasks).length

def readAll (s : Sections) (repo : Repo) (langMap : List Bytes) : Option (List DocOut) :=
  (List.range (numDocs s)).mapM (readDoc s repo langMap)

/-! ### Builder.Add's skip decision (index/builder.go) and DocChecker.Check -/

def distinctCount : List Nat → List Nat → Nat → Option Nat
  | [], seen, _ => some seen.length
  | g :: r, seen, max =>
    let seen := if seen.contains g then seen else g :: seen
    if seen.length > max then none else distinctCount r seen max

/-- trigrams `Check` inserts: every window whose first rune is not 0 -/
def checkGrams : List Nat → List Nat
  | a :: b :: c :: r => (if a = 0 then [] else [runesToNGram a b c]) ++ checkGrams (b :: c :: r)
  | _ => []

/-- `DocChecker.Check` → SkipReason -/
def docCheck (content : Bytes) (maxTrigramCount : Nat) (allowLargeFile : Bool) : Nat :=
  if content.length = 0 then 0
  else if content.length < 3 then 2
  else if content.contains 0 then 3
  else if content.length - 2 ≤ maxTrigramCount || allowLargeFile then 0
  else
    match distinctCount (checkGrams (0 :: 0 :: (decodeAll content).map (·.r))) [] maxTrigramCount with
    | none => 4
    | some _ => 0

/-- the skip decision of `Builder.Add` (a caller-provided reason survives when nothing fires) -/
def builderSkip (sizeMax trigramMax : Nat) (allowLarge : Bool) (given : Nat) (content : Bytes) : Nat :=
  if content.length > sizeMax ∧ !allowLarge then 1
  else
    let s := docCheck content trigramMax allowLarge
    if s ≠ 0 then s else given

end ZoektModel.C09
