import ZoektModel.C09.Spec
namespace ZoektModel.C09
open ZoektModel

/-! ### varints -/

theorem u8_ofNat_toNat (n : Nat) (h : n < 256) : (UInt8.ofNat n).toNat = n := by
  simp [UInt8.toNat_ofNat', Nat.mod_eq_of_lt h]

theorem varintsAux_put (n : Nat) : ∀ (rest : Bytes) (s x i : Nat), i ≤ 9 → n < 2 ^ (64 - 7 * i) →
    varintsAux (putUvarint n ++ rest) s x i = (varints rest).map ((x + n * 2 ^ s) :: ·) := by
  induction n using Nat.strongRecOn with
  | _ n ih =>
    intro rest s x i hi hn
    unfold putUvarint
    by_cases h128 : n < 128
    · simp only [h128, if_true, List.cons_append, List.nil_append]
      unfold varintsAux
      have hb : (UInt8.ofNat n).toNat = n := u8_ofNat_toNat n (by omega)
      rw [hb]
      have h10 : ¬ i = 10 := by omega
      have h9 : ¬ (i = 9 ∧ n > 1) := by
        intro ⟨h9, h1⟩
        subst h9
        simp at hn
        omega
      simp [h10, h128, h9, varints]
    · simp only [h128, if_false, List.cons_append]
      unfold varintsAux
      have hb : (UInt8.ofNat (n % 128 + 128)).toNat = n % 128 + 128 := u8_ofNat_toNat _ (by omega)
      rw [hb]
      have hi8 : i ≤ 8 := by
        by_cases h : i ≤ 8
        · exact h
        · have : i = 9 := by omega
          subst this
          simp at hn
          omega
      have h10 : ¬ i = 10 := by omega
      have hge : ¬ (n % 128 + 128 < 128) := by omega
      simp only [h10, hge, if_false]
      have hdiv : n / 128 < 2 ^ (64 - 7 * (i + 1)) := by
        have e : 64 - 7 * i = (64 - 7 * (i + 1)) + 7 := by omega
        rw [e, Nat.pow_add] at hn
        exact Nat.div_lt_of_lt_mul (by simpa [Nat.mul_comm] using hn)
      rw [ih (n / 128) (by omega) rest (s + 7) _ (i + 1) (by omega) hdiv]
      have hmod : (n % 128 + 128) % 128 = n % 128 := by omega
      have harith : x + (n % 128 + 128) % 128 * 2 ^ s + n / 128 * 2 ^ (s + 7) = x + n * 2 ^ s := by
        rw [hmod, Nat.pow_add]
        have h2 : (2 : Nat) ^ 7 = 128 := by decide
        rw [h2]
        have hn' : n = 128 * (n / 128) + n % 128 := (Nat.div_add_mod n 128).symm
        generalize n / 128 = q at *
        generalize n % 128 = r at *
        rw [hn', Nat.add_mul, Nat.mul_comm (2 ^ s) 128, ← Nat.mul_assoc, Nat.mul_comm q 128]
        omega
      rw [harith]

theorem varints_put (n : Nat) (rest : Bytes) (hn : n < 2 ^ 64) :
    varints (putUvarint n ++ rest) = (varints rest).map (n :: ·) := by
  have := varintsAux_put n rest 0 0 0 (by omega) (by simpa using hn)
  simpa [varints] using this

theorem varints_nil : varints [] = some [] := by simp [varints, varintsAux]

/-! ### 32-bit deltas -/

@[simp] theorem add_sub_self32 (a b : UInt32) : b + (a - b) = a := by
  rw [UInt32.add_comm, UInt32.sub_add_cancel]

@[simp] theorem add_sub_self16 (a b : UInt16) : b + (a - b) = a := by
  rw [UInt16.add_comm, UInt16.sub_add_cancel]

def deltaNats : List UInt32 → UInt32 → List Nat
  | [], _ => []
  | p :: ps, last => (p - last).toNat :: deltaNats ps p

theorem varints_deltasEnc (l : List UInt32) : ∀ (last : UInt32) (rest : Bytes),
    varints (deltasEnc l last ++ rest) = (varints rest).map (deltaNats l last ++ ·) := by
  induction l with
  | nil => intro last rest; simp [deltasEnc, deltaNats]
  | cons p ps ih =>
    intro last rest
    simp only [deltasEnc, deltaNats, List.append_assoc]
    have hlt : (p - last).toNat < 2 ^ 64 := by
      have := (p - last).toNat_lt
      omega
    rw [varints_put _ _ hlt, ih]
    cases varints rest <;> simp

theorem undelta_deltaNats (l : List UInt32) : ∀ last : UInt32, undelta (deltaNats l last) last = l := by
  induction l with
  | nil => intro last; simp [deltaNats, undelta]
  | cons p ps ih =>
    intro last
    simp [deltaNats, undelta, ih]

theorem varints_toSizedDeltas (l : List UInt32) (hl : l.length < 2 ^ 64) :
    varints (toSizedDeltas l) = some (l.length :: deltaNats l 0) := by
  unfold toSizedDeltas
  rw [varints_put _ _ hl]
  have := varints_deltasEnc l 0 []
  simp [varints_nil] at this
  simp [this]

/-! ### 16-bit deltas -/

def deltaNats16 : List UInt16 → UInt16 → List Nat
  | [], _ => []
  | p :: ps, last => (p - last).toNat :: deltaNats16 ps p

theorem varints_deltasEnc16 (l : List UInt16) : ∀ (last : UInt16) (rest : Bytes),
    varints (deltasEnc16 l last ++ rest) = (varints rest).map (deltaNats16 l last ++ ·) := by
  induction l with
  | nil => intro last rest; simp [deltasEnc16, deltaNats16]
  | cons p ps ih =>
    intro last rest
    simp only [deltasEnc16, deltaNats16, List.append_assoc]
    have hlt : (p - last).toNat < 2 ^ 64 := by
      have := (p - last).toNat_lt
      omega
    rw [varints_put _ _ hlt, ih]
    cases varints rest <;> simp

theorem undelta16_deltaNats16 (l : List UInt16) : ∀ last : UInt16, undelta16 (deltaNats16 l last) last = l := by
  induction l with
  | nil => intro last; simp [deltaNats16, undelta16]
  | cons p ps ih =>
    intro last
    simp [deltaNats16, undelta16, ih]

/-! ### doc sections -/

theorem unpair_deltaNats (secs : List Sec) : ∀ last : UInt32, unpair (deltaNats (flattenSecs secs) last) last = secs := by
  induction secs with
  | nil => intro last; simp [flattenSecs, deltaNats, unpair]
  | cons s r ih =>
    intro last
    simp [flattenSecs, deltaNats, unpair, ih]

theorem flattenSecs_length (secs : List Sec) : (flattenSecs secs).length = 2 * secs.length := by
  induction secs with
  | nil => rfl
  | cons s r ih => simp [flattenSecs, ih]; omega

/-! ### compound sections -/

theorem itemOffsets_shift (items : List Bytes) : ∀ o k : Nat,
    (itemOffsets items (o + k)).map (· - o) = itemOffsets items k := by
  induction items with
  | nil => intro o k; rfl
  | cons it r ih =>
    intro o k
    simp only [itemOffsets, List.map_cons]
    rw [show o + k + it.length = o + (k + it.length) by omega, ih]
    congr 1
    omega

theorem itemOffsets_length (items : List Bytes) (o : Nat) : (itemOffsets items o).length = items.length := by
  induction items generalizing o with
  | nil => rfl
  | cons it r ih => simp [itemOffsets, ih]

theorem itemOffsets_add (items : List Bytes) : ∀ o k : Nat,
    itemOffsets items (o + k) = (itemOffsets items o).map (· + k) := by
  induction items with
  | nil => intro o k; rfl
  | cons it r ih =>
    intro o k
    simp only [itemOffsets, List.map_cons]
    rw [show o + k + it.length = (o + it.length) + k by omega, ih]

theorem slice_append_shift (a b : Bytes) (lo hi : Nat) :
    Bytes.slice (a ++ b) (lo + a.length) (hi + a.length) = Bytes.slice b lo hi := by
  unfold Bytes.slice
  rw [show lo + a.length = a.length + lo by omega, ← List.drop_drop]
  simp
  congr 1
  omega

theorem getD_map_add (l : List Nat) (k : Nat) : ∀ j, j < l.length →
    (l.map (· + k)).getD j 0 = l.getD j 0 + k := by
  induction l with
  | nil => intro j h; simp at h
  | cons a r ih =>
    intro j h
    cases j with
    | zero => simp
    | succ j => simpa using ih j (by simpa using h)

theorem slice_prefix (a b : Bytes) : Bytes.slice (a ++ b) 0 a.length = a := by
  simp [Bytes.slice]

/-- the offsets table (relative, with the end marker) cuts the concatenation back into the items -/
theorem cut_items (items : List Bytes) : ∀ i, i < items.length →
    Bytes.slice items.flatten ((itemOffsets items 0 ++ [items.flatten.length]).getD i 0)
      ((itemOffsets items 0 ++ [items.flatten.length]).getD (i + 1) 0) = items.getD i [] := by
  induction items with
  | nil => intro i hi; simp at hi
  | cons it r ih =>
    intro i hi
    have hnext : (itemOffsets r (0 + it.length) ++ [(it ++ r.flatten).length]).getD 0 0 = it.length := by
      cases r with
      | nil => simp [itemOffsets]
      | cons a b => simp [itemOffsets]
    cases i with
    | zero =>
      simp only [itemOffsets, List.flatten_cons, List.cons_append, List.getD_cons_zero, List.getD_cons_succ]
      rw [hnext]
      exact slice_prefix it r.flatten
    | succ j =>
      have hj : j < r.length := by simpa using hi
      simp only [itemOffsets, List.flatten_cons, List.cons_append, List.getD_cons_succ]
      have e : itemOffsets r (0 + it.length) ++ [(it ++ r.flatten).length]
          = (itemOffsets r 0 ++ [r.flatten.length]).map (· + it.length) := by
        rw [itemOffsets_add]
        simp
        omega
      rw [e]
      have hlen : (itemOffsets r 0 ++ [r.flatten.length]).length = r.length + 1 := by
        simp [itemOffsets_length]
      have g1 := getD_map_add (itemOffsets r 0 ++ [r.flatten.length]) it.length j (by omega)
      have g2 := getD_map_add (itemOffsets r 0 ++ [r.flatten.length]) it.length (j + 1) (by omega)
      rw [g1, g2, slice_append_shift]
      exact ih j hj

theorem relativeIndex_write (off : Nat) (items : List Bytes) (h : items ≠ []) :
    relativeIndex (writeCompound off items) = itemOffsets items 0 ++ [items.flatten.length] := by
  cases items with
  | nil => exact absurd rfl h
  | cons it r =>
    simp only [relativeIndex, writeCompound, itemOffsets]
    have := itemOffsets_shift (it :: r) off 0
    simp only [itemOffsets, Nat.add_zero] at this
    simp only [List.map_cons] at this ⊢
    rw [this]

theorem readItem_write (off : Nat) (items : List Bytes) (i : Nat) (hi : i < items.length) :
    readItem (writeCompound off items) i = items.getD i [] := by
  have hne : items ≠ [] := by intro h; simp [h] at hi
  unfold readItem
  rw [relativeIndex_write off items hne]
  simpa [writeCompound] using cut_items items i hi

end ZoektModel.C09
