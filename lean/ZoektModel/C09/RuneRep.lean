/-
C09 — the rune-section tables of the builder (`runeDocSections`, `fileEndSymbol`) and reading them back.
-/
import ZoektModel.C09.Branches
import ZoektModel.C09.RuneSecs
namespace ZoektModel.C09
open ZoektModel

/-! ### `Add`'s checks make the boundary list sorted and bounded -/

theorem boundsOk_of_checks : ∀ (secs : List (Nat × Nat)) (len : Nat), properSecs secs = true → overlapFree secs = true →
    lastEnd secs ≤ len → BoundsOk len (secs.flatMap fun p => [p.1, p.2]) := by
  intro secs
  induction secs with
  | nil => intro len _ _ _; exact ⟨by simp, by simp⟩
  | cons a r ih =>
    intro len hp ho hl
    have hpa : a.1 ≤ a.2 := by simp [properSecs] at hp; exact hp.1
    have hpr : properSecs r = true := by simp [properSecs] at hp ⊢; exact hp.2
    cases r with
    | nil =>
      simp only [lastEnd] at hl
      refine ⟨by simp [hpa], ?_⟩
      intro x hx
      simp at hx
      rcases hx with hx | hx <;> omega
    | cons b r' =>
      have hab : a.2 ≤ b.1 := by simp [overlapFree] at ho; exact ho.1
      have hor : overlapFree (b :: r') = true := by simp [overlapFree] at ho; exact ho.2
      have hlr : lastEnd (b :: r') ≤ len := by simpa [lastEnd] using hl
      have ⟨ih1, ih2⟩ := ih len hpr hor hlr
      have hb1 : b.1 ≤ len := ih2 b.1 (by simp [List.flatMap_cons])
      -- every later boundary is ≥ b.1 (head of the sorted tail)
      have hge : ∀ x ∈ ((b :: r').flatMap fun p => [p.1, p.2]), b.1 ≤ x := by
        intro x hx
        have h1 := ih1
        rw [List.flatMap_cons] at h1 hx
        simp only [List.cons_append, List.nil_append, List.pairwise_cons] at h1
        simp only [List.cons_append, List.nil_append, List.mem_cons] at hx
        rcases hx with hx | hx
        · omega
        · exact h1.1 x (by simpa using hx)
      refine ⟨?_, ?_⟩
      · rw [List.flatMap_cons, List.pairwise_append]
        refine ⟨by simp [hpa], ih1, ?_⟩
        intro x hx y hy
        have := hge y hy
        simp at hx
        rcases hx with hx | hx <;> omega
      · intro x hx
        rw [List.flatMap_cons] at hx
        simp only [List.mem_append, List.mem_cons, List.not_mem_nil, or_false] at hx
        rcases hx with (hx | hx) | hx
        · omega
        · omega
        · exact ih2 x hx

/-! ### big-endian width 4 -/

theorem be4_length (n : Nat) : (be 4 n).length = 4 := by simp [be]

theorem beVal_be4 (n : Nat) (h : n < 2 ^ 32) : beVal (be 4 n) = n := by
  have e : be 4 n = [UInt8.ofNat (n / 256 ^ 3 % 256), UInt8.ofNat (n / 256 ^ 2 % 256),
      UInt8.ofNat (n / 256 ^ 1 % 256), UInt8.ofNat (n / 256 ^ 0 % 256)] := by
    simp [be, List.range, List.range.loop]
  rw [e]
  simp only [beVal, List.foldl]
  have hb : ∀ x, (UInt8.ofNat (x % 256)).toNat = x % 256 := fun x => u8_ofNat_toNat _ (Nat.mod_lt _ (by decide))
  simp only [hb, Nat.reducePow]
  omega

theorem chunks4 (ns : List Nat) : ∀ fuel, ns.length ≤ fuel →
    chunks 4 fuel (ns.map (be 4)).flatten = ns.map (be 4) := by
  induction ns with
  | nil => intro fuel _; cases fuel <;> simp [chunks]
  | cons n r ih =>
    intro fuel hf
    cases fuel with
    | zero => simp at hf
    | succ f =>
      have hl := be4_length n
      have hne : ¬ (be 4 n ++ (r.map (be 4)).flatten).isEmpty := by
        simp only [List.isEmpty_iff, List.append_eq_nil_iff, not_and]
        intro h0
        rw [h0] at hl
        simp at hl
      simp only [List.map_cons, List.flatten_cons, chunks]
      simp only [Bool.or_eq_true, decide_eq_true_eq, hne]
      simp only [show ¬ (4 = 0) by decide]
      rw [List.take_left' hl, List.drop_left' hl, ih f (by simpa using hf)]
      simp

theorem readBE4_writeBE4 (ns : List Nat) (h : ∀ n ∈ ns, n < 2 ^ 32) : readBE 4 (writeBE 4 ns) = ns := by
  unfold readBE writeBE
  have hlen : ns.length ≤ ((ns.map (be 4)).flatten).length := by
    induction ns with
    | nil => simp
    | cons n r ih =>
      simp only [List.map_cons, List.flatten_cons, List.length_append, List.length_cons, be4_length]
      have := ih (fun m hm => h m (by simp [hm]))
      omega
  rw [chunks4 ns _ hlen, List.map_map]
  have : ∀ n ∈ ns, (beVal ∘ be 4) n = n := by
    intro n hn
    simp only [Function.comp]
    exact beVal_be4 n (h n hn)
  rw [List.map_congr_left this]
  simp

/-! ### the rune-section tables -/

structure Rec2 where
  content : Bytes
  secs : List (Nat × Nat)
  runeSecs : List (Nat × Nat)
  rc0 : Nat

def runeLen (r : Rec2) : Nat := (decodeAll r.content).length

structure Rep2 (b : SB) (recs : List Rec2) : Prop where
  rds : b.runeDocSections = (recs.map (·.runeSecs)).flatten
  fesLen : b.fileEndSymbol.length = recs.length + 1
  fes : ∀ i, i ≤ recs.length → b.fileEndSymbol.getD i 0 = ((recs.take i).map (·.runeSecs)).flatten.length
  rc : b.contentPB.runeCount = (recs.map runeLen).sum
  rc0 : ∀ i (hi : i < recs.length), recs[i].rc0 = ((recs.take i).map runeLen).sum
  den : ∀ r ∈ recs, r.runeSecs.length = r.secs.length ∧
    ∀ q ∈ r.secs.zip r.runeSecs, Denotes r.content r.rc0 q.1.1 q.2.1 ∧ Denotes r.content r.rc0 q.1.2 q.2.2

theorem Rep2.new : Rep2 (SB.new PB.fresh PB.fresh) [] :=
  ⟨rfl, rfl, by intro i hi; have : i = 0 := by simpa using hi
                subst this; rfl, rfl, by intro i hi; simp at hi, by intro r hr; simp at hr⟩

structure RecOf2 (d : Doc) (r : Rec2) : Prop where
  content : r.content = (effective d).content
  secs : r.secs = (effective d).symbols

theorem add_runeCount (s s' : PB) (data : Bytes) (secs rs : List (Nat × Nat)) (hok : s.add data secs = .ok (s', rs)) :
    s'.runeCount = s.runeCount + (decodeAll data).length := by
  unfold PB.add at hok
  have hproj := (loop_proj s.runeCount s.endByte (decodeAll data) ⟨s, 0, 0, 0, secs.flatMap fun p => [p.1, p.2], []⟩).2
  generalize (decodeAll data).foldl (Loop.step s.runeCount s.endByte) ⟨s, 0, 0, 0, secs.flatMap fun p => [p.1, p.2], []⟩ = st at hproj hok
  simp only [Nat.zero_add] at hproj
  unfold PB.finishAdd at hok
  split at hok
  · split at hok
    · cases hok
    · split at hok
      · cases hok
      · injection hok with hok
        injection hok with h1 _
        subst h1
        simp [PB.close, hproj]
  · split at hok
    · cases hok
    · injection hok with hok
      injection hok with h1 _
      subst h1
      simp [PB.close, hproj]

theorem add_rec2 (repo : Repo) (b b' : SB) (d : Doc) (recs : List Rec2) (hrep : Rep2 b recs)
    (hadd : b.add repo d = .ok b') : ∃ r, RecOf2 d r ∧ Rep2 b' (recs ++ [r]) := by
  unfold SB.add at hadd
  simp only at hadd
  split at hadd
  · cases hadd
  rename_i hproper
  split at hadd
  · cases hadd
  rename_i hover
  split at hadd
  · cases hadd
  rename_i hlast
  split at hadd
  · cases hadd
  · cases hadd
  · cases hadd
  rename_i cpb runeSecs hc
  split at hadd
  · cases hadd
  · cases hadd
  · cases hadd
  split at hadd
  · cases hadd
  split at hadd
  · cases hadd
  split at hadd
  · cases hadd
  split at hadd
  · cases hadd
  injection hadd with hadd
  subst hadd
  obtain ⟨k, s, m, hframe⟩ := addSymbols_frame (effective d).symMeta b
  have hbounds := boundsOk_of_checks (effective d).symbols (effective d).content.length
    (by simpa using hproper) (by simpa using hover) (by omega)
  have hsec := sections_byte_to_rune_lemma _ _ _ _ _ hbounds hc
  have hrc := add_runeCount _ _ _ _ _ hc
  refine ⟨⟨(effective d).content, (effective d).symbols, runeSecs, b.contentPB.runeCount⟩, ⟨rfl, rfl⟩, ?_⟩
  unfold SB.commit
  simp only [hframe]
  have htake : ∀ i, i ≤ recs.length → ∀ x : Rec2, (recs ++ [x]).take i = recs.take i := by
    intro i hi x
    rw [List.take_append_of_le_length hi]
  refine ⟨by simp [hrep.rds], by simp [hrep.fesLen], ?_, ?_, ?_, ?_⟩
  · intro i hi
    simp only [List.length_append, List.length_singleton] at hi
    by_cases hlt : i ≤ recs.length
    · rw [htake i hlt]
      have : i < b.fileEndSymbol.length := by rw [hrep.fesLen]; omega
      rw [getD_append_left _ _ _ _ this]
      exact hrep.fes i hlt
    · have hi' : i = recs.length + 1 := by omega
      subst hi'
      have e : recs.length + 1 = b.fileEndSymbol.length := by rw [hrep.fesLen]
      rw [e, getD_append_len]
      rw [← e]
      have : (recs ++ [(⟨(effective d).content, (effective d).symbols, runeSecs, b.contentPB.runeCount⟩ : Rec2)]).take (recs.length + 1)
          = recs ++ [⟨(effective d).content, (effective d).symbols, runeSecs, b.contentPB.runeCount⟩] := by
        apply List.take_of_length_le
        simp
      rw [this, hrep.rds]
      simp
  · simp only
    rw [hrc, hrep.rc]
    simp [runeLen]
  · intro i hi
    simp only [List.length_append, List.length_singleton] at hi
    by_cases hlt : i < recs.length
    · rw [List.getElem_append_left hlt, htake i (by omega)]
      exact hrep.rc0 i hlt
    · have hi' : i = recs.length := by omega
      subst hi'
      rw [List.getElem_append_right (by omega)]
      simp only [Nat.sub_self, List.getElem_cons_zero]
      rw [htake _ (by omega), List.take_length]
      exact hrep.rc
  · intro r hr
    simp only [List.mem_append, List.mem_singleton] at hr
    rcases hr with hr | hr
    · exact hrep.den r hr
    · subst hr
      exact hsec

theorem addAll_rep2 (repo : Repo) (docs : List Doc) : ∀ (b b' : SB) (recs : List Rec2), Rep2 b recs →
    SB.addAll repo b docs = .ok b' →
    ∃ rs, rs.length = docs.length ∧ (∀ i, i < docs.length → ∀ d r, docs[i]? = some d → rs[i]? = some r → RecOf2 d r) ∧
      Rep2 b' (recs ++ rs) := by
  induction docs with
  | nil =>
    intro b b' recs hrep h
    simp only [SB.addAll] at h
    injection h with h
    subst h
    exact ⟨[], rfl, by intro i hi; simp at hi, by simpa using hrep⟩
  | cons d ds ih =>
    intro b b' recs hrep h
    simp only [SB.addAll] at h
    split at h
    · rename_i b1 hb1
      obtain ⟨r, hro, hrep1⟩ := add_rec2 repo b b1 d recs hrep hb1
      obtain ⟨rs, hlen, hall, hrep2⟩ := ih b1 b' (recs ++ [r]) hrep1 h
      refine ⟨r :: rs, by simp [hlen], ?_, by simpa using hrep2⟩
      intro i hi d' r' hd hr
      cases i with
      | zero =>
        simp at hd hr
        subst hd; subst hr
        exact hro
      | succ j =>
        simp at hd hr
        exact hall j (by simpa using hi) d' r' hd hr
    · cases h
    · cases h
    · cases h

/-! ### reading the rune sections of one document -/

theorem write_fes (b : SB) (mj rj : Bytes) : (b.write mj rj).2.fileEndSymbol = writeBE 4 b.fileEndSymbol := rfl

theorem flatten_slice {α} (ls : List (List α)) : ∀ (i : Nat) (hi : i < ls.length),
    (ls.flatten.drop ((ls.take i).flatten.length)).take ((ls.take (i + 1)).flatten.length - (ls.take i).flatten.length) = ls[i] := by
  induction ls with
  | nil => intro i hi; simp at hi
  | cons l r ih =>
    intro i hi
    cases i with
    | zero => simp
    | succ j =>
      have hj : j < r.length := by simpa using hi
      have := ih j hj
      simp only [List.take_succ_cons, List.flatten_cons, List.length_append, List.getElem_cons_succ]
      have e1 : List.drop (l.length + (List.take j r).flatten.length) (l ++ r.flatten)
          = List.drop (List.take j r).flatten.length r.flatten := by
        rw [List.drop_append]
        simp
      have e2 : l.length + (List.take (j + 1) r).flatten.length - (l.length + (List.take j r).flatten.length)
          = (List.take (j + 1) r).flatten.length - (List.take j r).flatten.length := by omega
      rw [e1, e2]
      exact this

instance : Inhabited Rec2 := ⟨⟨[], [], [], 0⟩⟩

theorem toSecs_flatten (ls : List (List (Nat × Nat))) : toSecs ls.flatten = (ls.map toSecs).flatten := by
  unfold toSecs
  rw [List.map_flatten]

theorem readDoc_runes (b : SB) (recs : List Rec) (recs2 : List Rec2) (hrep : Rep b recs) (hb : Bounded b recs)
    (hrep2 : Rep2 b recs2) (hlen : recs2.length = recs.length)
    (hfes : ∀ n ∈ b.fileEndSymbol, n < 2 ^ 32)
    (hrs : ∀ r ∈ recs2, ∀ p ∈ r.runeSecs, p.1 < 2 ^ 32 ∧ p.2 < 2 ^ 32)
    (mj rj : Bytes) (repo : Repo) (i : Nat) (hi : i < recs.length) (o : DocOut)
    (ho : readDoc (b.write mj rj).2 repo b.languageMap i = some o) :
    o.runeSections = (recs2.getD i default).runeSecs := by
  obtain ⟨o1, o2, o3, f1, f2, f3, f4, f5, f6, f7, f8, f9⟩ := write_fields b mj rj
  have hr := getD_mem recs i default hi
  have hbr := hb.each _ hr
  generalize hrd : recs.getD i default = r at hr hbr
  have hsubs : fromSizedDeltas (b.write mj rj).2.subRepos = some (u32s b.subRepos) := by
    rw [f5]
    apply fromSized_toSized
    simp only [u32s, List.length_map, hrep.subs]
    have := hb.ndocs
    omega
  have hitem : readItem (b.write mj rj).2.fileSections i = marshalDocSections (toSecs r.secs) := by
    rw [f3, readItem_write _ _ _ (by simp [hrep.secs, hi])]
    rw [hrep.secs, List.map_map]
    rw [getD_map _ recs i default [] hi, hrd]
    rfl
  have hsecs : unmarshalDocSections (readItem (b.write mj rj).2.fileSections i) = some (toSecs r.secs) := by
    rw [hitem]
    apply unmarshal_marshal
    simp only [toSecs, List.length_map]
    exact hbr.2.2.2.1
  have hrds : unmarshalDocSections (b.write mj rj).2.runeDocSections = some (toSecs b.runeDocSections) := by
    rw [f9]
    apply unmarshal_marshal
    simp only [toSecs, List.length_map]
    exact hb.runeSecs
  unfold readDoc at ho
  simp only [hsubs, hsecs, hrds, Option.bind_eq_bind, Option.bind_some, Option.pure_def] at ho
  injection ho with ho
  subst ho
  simp only
  have hi2 : i < recs2.length := by omega
  rw [write_fes, readBE4_writeBE4 _ hfes, hrep2.fes i (by omega), hrep2.fes (i + 1) (by omega), hrep2.rds, toSecs_flatten]
  have e : ∀ k, ((recs2.take k).map (·.runeSecs)).flatten.length = (((recs2.map (·.runeSecs)).map toSecs).take k).flatten.length := by
    intro k
    rw [List.map_map, ← List.map_take]
    simp [toSecs, List.length_flatten, List.map_map, Function.comp_def]
  rw [e i, e (i + 1), flatten_slice _ i (by simp [hi2])]
  simp only [List.getElem_map]
  have hg : recs2.getD i default = recs2[i] := by simp [List.getD_eq_getElem?_getD, List.getElem?_eq_getElem hi2]
  rw [hg]
  exact secPairs_toSecs _ (hrs recs2[i] (List.getElem_mem hi2))

end ZoektModel.C09
