/-
C09 — composition: what `ShardBuilder.Add*` put into the builder, `Write` puts into the sections, and the read
accessors give back.  Lemmas for Props/C09.lean (`C09_roundtrip_partial`).
-/
import ZoektModel.C09.Lemmas
namespace ZoektModel.C09
open ZoektModel

/-! ### generic list facts -/

theorem getD_map {α β} (f : α → β) (l : List α) (i : Nat) (da : α) (db : β) (h : i < l.length) :
    (l.map f).getD i db = f (l.getD i da) := by
  simp [List.getD_eq_getElem?_getD, List.getElem?_map, List.getElem?_eq_getElem h]

theorem getD_append_left {α} (l r : List α) (i : Nat) (d : α) (h : i < l.length) :
    (l ++ r).getD i d = l.getD i d := by
  simp [List.getD_eq_getElem?_getD, List.getElem?_append_left h]

theorem getD_append_len {α} (l : List α) (x d : α) : (l ++ [x]).getD l.length d = x := by
  simp [List.getD_eq_getElem?_getD]

theorem indexOf?_some {α} [DecidableEq α] (l : List α) (a : α) (i : Nat) (h : indexOf? l a = some i) (d : α) :
    i < l.length ∧ l.getD i d = a := by
  induction l generalizing i with
  | nil => simp [indexOf?] at h
  | cons x r ih =>
    simp only [indexOf?] at h
    split at h
    · rename_i hx
      injection h with h
      subst h
      simp [hx]
    · cases hr : indexOf? r a with
      | none => simp [hr] at h
      | some j =>
        simp [hr] at h
        subst h
        have := ih j hr
        refine ⟨by simp [this.1], ?_⟩
        simpa using this.2

/-! ### fixed-width big-endian integers (width 8) -/

theorem be8_length (n : Nat) : (be 8 n).length = 8 := by simp [be]

theorem beVal_be8 (n : Nat) (h : n < 2 ^ 64) : beVal (be 8 n) = n := by
  have e : be 8 n = [UInt8.ofNat (n / 256 ^ 7 % 256), UInt8.ofNat (n / 256 ^ 6 % 256), UInt8.ofNat (n / 256 ^ 5 % 256),
      UInt8.ofNat (n / 256 ^ 4 % 256), UInt8.ofNat (n / 256 ^ 3 % 256), UInt8.ofNat (n / 256 ^ 2 % 256),
      UInt8.ofNat (n / 256 ^ 1 % 256), UInt8.ofNat (n / 256 ^ 0 % 256)] := by
    simp [be, List.range, List.range.loop]
  rw [e]
  simp only [beVal, List.foldl]
  have hb : ∀ x, (UInt8.ofNat (x % 256)).toNat = x % 256 := fun x => u8_ofNat_toNat _ (Nat.mod_lt _ (by decide))
  simp only [hb, Nat.reducePow]
  omega

theorem chunks8 (ns : List Nat) : ∀ fuel, ns.length ≤ fuel →
    chunks 8 fuel (ns.map (be 8)).flatten = ns.map (be 8) := by
  induction ns with
  | nil => intro fuel _; cases fuel <;> simp [chunks]
  | cons n r ih =>
    intro fuel hf
    cases fuel with
    | zero => simp at hf
    | succ f =>
      have hl := be8_length n
      have hne : ¬ (be 8 n ++ (r.map (be 8)).flatten).isEmpty := by
        simp only [List.isEmpty_iff, List.append_eq_nil_iff, not_and]
        intro h0
        rw [h0] at hl
        simp at hl
      simp only [List.map_cons, List.flatten_cons, chunks]
      simp only [Bool.or_eq_true, decide_eq_true_eq, hne, false_or]
      simp only [show ¬ (8 = 0) by decide, if_false]
      rw [List.take_left' hl, List.drop_left' hl, ih f (by simpa using hf)]
      simp [hne]

theorem readBE8_writeBE8 (ns : List Nat) (h : ∀ n ∈ ns, n < 2 ^ 64) : readBE 8 (writeBE 8 ns) = ns := by
  unfold readBE writeBE
  have hlen : ns.length ≤ ((ns.map (be 8)).flatten).length := by
    induction ns with
    | nil => simp
    | cons n r ih =>
      simp only [List.map_cons, List.flatten_cons, List.length_append, List.length_cons, be8_length]
      have := ih (fun m hm => h m (by simp [hm]))
      omega
  rw [chunks8 ns _ hlen, List.map_map]
  have : ∀ n ∈ ns, (beVal ∘ be 8) n = n := by
    intro n hn
    simp only [Function.comp]
    exact beVal_be8 n (h n hn)
  rw [List.map_congr_left this]
  simp

/-! ### fixed-size records in a flat byte section -/

theorem slice_flat8 (items : List Bytes) (h : ∀ it ∈ items, it.length = 8) : ∀ i, i < items.length →
    Bytes.slice items.flatten (8 * i) (8 * i + 8) = items.getD i [] := by
  induction items with
  | nil => intro i hi; simp at hi
  | cons it r ih =>
    intro i hi
    have hl : it.length = 8 := h it (by simp)
    cases i with
    | zero =>
      simp only [List.flatten_cons, Nat.mul_zero, Nat.zero_add, List.getD_cons_zero]
      rw [← hl]
      exact slice_prefix it r.flatten
    | succ j =>
      simp only [List.flatten_cons, List.getD_cons_succ]
      have := slice_append_shift it r.flatten (8 * j) (8 * j + 8)
      rw [hl] at this
      rw [show 8 * (j + 1) = 8 * j + 8 by omega, show 8 * j + 8 + 8 = 8 * j + 8 + 8 by rfl, this]
      exact ih (fun x hx => h x (by simp [hx])) j (by simpa using hi)

theorem getD_flat2 (items : List (UInt8 × UInt8)) : ∀ i, i < items.length →
    ((items.map fun p => [p.1, p.2]).flatten.getD (2 * i) 0, (items.map fun p => [p.1, p.2]).flatten.getD (2 * i + 1) 0)
      = items.getD i (0, 0) := by
  induction items with
  | nil => intro i hi; simp at hi
  | cons it r ih =>
    intro i hi
    cases i with
    | zero => simp
    | succ j =>
      have := ih j (by simpa using hi)
      simp only [List.map_cons, List.flatten_cons, List.getD_cons_succ]
      rw [show 2 * (j + 1) = (2 * j) + 2 by omega, show 2 * j + 2 + 1 = (2 * j + 1) + 2 by omega]
      simpa using this

/-! ### sections as uint32 pairs -/

theorem secPairs_toSecs (l : List (Nat × Nat)) (h : ∀ p ∈ l, p.1 < 2 ^ 32 ∧ p.2 < 2 ^ 32) : secPairs (toSecs l) = l := by
  induction l with
  | nil => rfl
  | cons p r ih =>
    have hp := h p (by simp)
    simp only [toSecs, secPairs, List.map_cons, List.map_map] at ih ⊢
    rw [ih (fun q hq => h q (by simp [hq]))]
    congr 1
    obtain ⟨a, b⟩ := p
    simp only at hp
    simp [UInt32.toNat_ofNat', Nat.mod_eq_of_lt hp.1, Nat.mod_eq_of_lt hp.2]

theorem u32s_toNat (l : List Nat) (h : ∀ n ∈ l, n < 2 ^ 32) : (u32s l).map (·.toNat) = l := by
  induction l with
  | nil => rfl
  | cons n r ih =>
    simp only [u32s, List.map_cons, List.map_map] at ih ⊢
    rw [ih (fun q hq => h q (by simp [hq]))]
    simp [UInt32.toNat_ofNat', Nat.mod_eq_of_lt (h n (by simp))]

/-! ### what `Add` appends -/

theorem addSymbols_frame (l : List Sym) : ∀ b : SB, ∃ k s m,
    addSymbols b l = { b with symKindIndex := k, symIndex := s, symMetaData := m } := by
  induction l with
  | nil => intro b; exact ⟨b.symKindIndex, b.symIndex, b.symMetaData, rfl⟩
  | cons x r ih =>
    intro b
    simp only [addSymbols]
    obtain ⟨k, s, m, h⟩ := ih { b with
      symKindIndex := (intern (intern b.symKindIndex x.kind).1 x.parentKind).1,
      symIndex := (intern b.symIndex x.parent).1,
      symMetaData := b.symMetaData ++ [0, (intern b.symKindIndex x.kind).2, (intern b.symIndex x.parent).2,
        (intern (intern b.symKindIndex x.kind).1 x.parentKind).2] }
    exact ⟨k, s, m, h⟩

/-- per-document record of what the builder tables hold -/
structure Rec where
  name : Bytes
  content : Bytes
  secs : List (Nat × Nat)
  mask : Nat
  subIdx : Nat
  cat : Nat
  code : Nat
  lang : Bytes

def Rec.langBytes (r : Rec) : Bytes := [UInt8.ofNat (r.code % 256), UInt8.ofNat (r.code / 256)]

/-- the builder's per-document tables, as maps over the records -/
structure Rep (b : SB) (recs : List Rec) : Prop where
  names : b.names = recs.map (·.name)
  contents : b.contents = recs.map (·.content)
  secs : b.docSections = recs.map (·.secs)
  masks : b.branchMasks = recs.map (·.mask)
  subs : b.subRepos = recs.map (·.subIdx)
  sums : b.checksums = (recs.map fun r => be 8 (crc64 r.content).toNat).flatten
  cats : b.categories = recs.map fun r => UInt8.ofNat r.cat
  langs : b.languages = (recs.map Rec.langBytes).flatten
  lmLen : b.languageMap.length ≤ 65535
  codes : ∀ r ∈ recs, r.code < b.languageMap.length ∧ b.languageMap.getD r.code [] = r.lang

theorem Rep.new (c n : PB) : Rep (SB.new c n) [] :=
  ⟨rfl, rfl, rfl, rfl, rfl, rfl, rfl, rfl, by simp [SB.new], by intro r hr; simp at hr⟩

/-- how a record relates to the document it was made from -/
structure RecOf (repo : Repo) (d : Doc) (r : Rec) : Prop where
  name : r.name = d.name
  content : r.content = (effective d).content
  secs : r.secs = (effective d).symbols
  mask : branchMaskOf repo.branches d.branches = some r.mask
  subIdx : indexOf? (subRepoPaths repo) d.subRepoPath = some r.subIdx
  cat : encodeCategory (effective d).category = some r.cat
  lang : r.lang = (effective d).language

theorem intern_spec (tab : List Bytes) (s : Bytes) :
    (intern tab s).2 < (intern tab s).1.length ∧ (intern tab s).1.getD (intern tab s).2 [] = s ∧
    (∃ ext, (intern tab s).1 = tab ++ ext) ∧
    ((intern tab s).1.length = tab.length ∨ (indexOf? tab s = none ∧ (intern tab s).1.length = tab.length + 1)) := by
  unfold intern
  cases h : indexOf? tab s with
  | none =>
    refine ⟨by simp, ?_, ⟨[s], rfl⟩, Or.inr ⟨rfl, by simp⟩⟩
    exact getD_append_len tab s []
  | some i =>
    have := indexOf?_some tab s i h []
    exact ⟨this.1, this.2, ⟨[], by simp⟩, Or.inl rfl⟩

theorem add_rec (repo : Repo) (b b' : SB) (d : Doc) (recs : List Rec) (hrep : Rep b recs)
    (hadd : b.add repo d = .ok b') : ∃ r, RecOf repo d r ∧ Rep b' (recs ++ [r]) := by
  unfold SB.add at hadd
  simp only at hadd
  split at hadd
  · cases hadd
  split at hadd
  · cases hadd
  split at hadd
  · cases hadd
  split at hadd
  · cases hadd
  · cases hadd
  · cases hadd
  rename_i cpb runeSecs hc
  split at hadd
  · cases hadd
  · cases hadd
  · cases hadd
  rename_i npb _ hn
  split at hadd
  · cases hadd
  rename_i subIdx hsub
  split at hadd
  · cases hadd
  rename_i mask hmask
  split at hadd
  · cases hadd
  rename_i hlang
  split at hadd
  · cases hadd
  rename_i cat hcat
  injection hadd with hadd
  subst hadd
  obtain ⟨k, s, m, hframe⟩ := addSymbols_frame (effective d).symMeta b
  have hi := intern_spec b.languageMap (effective d).language
  refine ⟨⟨d.name, (effective d).content, (effective d).symbols, mask, subIdx, cat,
    langCode b.languageMap (effective d).language, (effective d).language⟩, ⟨rfl, rfl, rfl, hmask, hsub, hcat, rfl⟩, ?_⟩
  unfold SB.commit
  simp only [hframe]
  obtain ⟨ext, hext⟩ := hi.2.2.1
  refine ⟨by simp [hrep.names], by simp [hrep.contents], by simp [hrep.secs], by simp [hrep.masks], by simp [hrep.subs],
    by simp [hrep.sums], by simp [hrep.cats], by simp [hrep.langs, Rec.langBytes], ?_, ?_⟩
  · rcases hi.2.2.2 with h | ⟨hnone, h⟩
    · rw [h]; exact hrep.lmLen
    · rw [h]
      have : ¬ (b.languageMap.length ≥ 65535 ∧ indexOf? b.languageMap (effective d).language = none) := hlang
      have hl := hrep.lmLen
      by_cases hge : b.languageMap.length ≥ 65535
      · exact absurd ⟨hge, hnone⟩ this
      · omega
  · intro r hr
    simp only [List.mem_append, List.mem_singleton] at hr
    rcases hr with hr | hr
    · have := hrep.codes r hr
      rw [hext]
      refine ⟨by simp; omega, ?_⟩
      rw [getD_append_left _ _ _ _ this.1]
      exact this.2
    · subst hr
      exact ⟨hi.1, hi.2.1⟩

theorem addAll_rep (repo : Repo) (docs : List Doc) : ∀ (b b' : SB) (recs : List Rec), Rep b recs →
    SB.addAll repo b docs = .ok b' →
    ∃ rs, rs.length = docs.length ∧ (∀ i, i < docs.length → ∀ d r, docs[i]? = some d → rs[i]? = some r → RecOf repo d r) ∧
      Rep b' (recs ++ rs) := by
  induction docs with
  | nil =>
    intro b b' recs hrep h
    simp only [SB.addAll] at h
    injection h with h
    subst h
    exact ⟨[], rfl, by intro i hi; simp at hi, by simpa using hrep⟩
  | cons d ds ih =>
    intro b b' recs hrep h
    simp only [SB.addAll] at h
    split at h
    · rename_i b1 hb1
      obtain ⟨r, hro, hrep1⟩ := add_rec repo b b1 d recs hrep hb1
      obtain ⟨rs, hlen, hall, hrep2⟩ := ih b1 b' (recs ++ [r]) hrep1 h
      refine ⟨r :: rs, by simp [hlen], ?_, by simpa using hrep2⟩
      intro i hi d' r' hd hr
      cases i with
      | zero =>
        simp at hd hr
        subst hd; subst hr
        exact hro
      | succ j =>
        simp at hd hr
        exact hall j (by simpa using hi) d' r' hd hr
    · cases h
    · cases h
    · cases h

/-! ### what `Write` puts into the sections -/

theorem write_fields (b : SB) (mj rj : Bytes) : ∃ o1 o2 o3 : Nat,
    (b.write mj rj).2.fileNames = writeCompound o1 b.names ∧
    (b.write mj rj).2.fileContents = writeCompound o2 b.contents ∧
    (b.write mj rj).2.fileSections = writeCompound o3 (b.docSections.map fun s => marshalDocSections (toSecs s)) ∧
    (b.write mj rj).2.branchMasks = writeBE 8 b.branchMasks ∧
    (b.write mj rj).2.subRepos = toSizedDeltas (u32s b.subRepos) ∧
    (b.write mj rj).2.contentChecksums = b.checksums ∧
    (b.write mj rj).2.languages = b.languages ∧
    (b.write mj rj).2.categories = b.categories ∧
    (b.write mj rj).2.runeDocSections = marshalDocSections (toSecs b.runeDocSections) :=
  ⟨_, _, _, rfl, rfl, rfl, rfl, rfl, rfl, rfl, rfl, rfl⟩

/-! ### reading one document back -/

theorem fromSized_toSized (l : List UInt32) (hl : l.length < 2 ^ 64) : fromSizedDeltas (toSizedDeltas l) = some l := by
  unfold fromSizedDeltas
  rw [varints_toSizedDeltas l hl]
  simp [undelta_deltaNats]

theorem unmarshal_marshal (secs : List Sec) (hl : 2 * secs.length < 2 ^ 64) :
    unmarshalDocSections (marshalDocSections secs) = some secs := by
  unfold unmarshalDocSections marshalDocSections
  rw [varints_toSizedDeltas _ (by rw [flattenSecs_length]; exact hl)]
  simp [unpair_deltaNats]

/-- size facts of a shard below the format's 4 GiB limit -/
structure Bounded (b : SB) (recs : List Rec) : Prop where
  ndocs : recs.length < 2 ^ 32
  runeSecs : 2 * b.runeDocSections.length < 2 ^ 64
  each : ∀ r ∈ recs, r.mask < 2 ^ 64 ∧ r.subIdx < 2 ^ 32 ∧ r.cat < 256 ∧ 2 * r.secs.length < 2 ^ 64 ∧
    ∀ p ∈ r.secs, p.1 < 2 ^ 32 ∧ p.2 < 2 ^ 32

instance : Inhabited Rec := ⟨⟨[], [], [], 0, 0, 0, 0, []⟩⟩

theorem getD_mem {α} (l : List α) (i : Nat) (d : α) (h : i < l.length) : l.getD i d ∈ l := by
  simp [List.getD_eq_getElem?_getD, List.getElem?_eq_getElem h]

theorem readDoc_rec (b : SB) (recs : List Rec) (hrep : Rep b recs) (hb : Bounded b recs) (mj rj : Bytes) (repo : Repo)
    (i : Nat) (hi : i < recs.length) :
    ∃ o, readDoc (b.write mj rj).2 repo b.languageMap i = some o ∧
      o.name = (recs.getD i default).name ∧ o.content = (recs.getD i default).content ∧
      o.sections = (recs.getD i default).secs ∧
      o.checksum = be 8 (crc64 (recs.getD i default).content).toNat ∧
      o.category = decodeCategory (recs.getD i default).cat ∧
      o.subRepoPath = (subRepoPaths repo).getD (recs.getD i default).subIdx [] ∧
      o.branches = maskBranches repo.branches 64 (recs.getD i default).mask 0 ∧
      o.language = (recs.getD i default).lang := by
  obtain ⟨o1, o2, o3, f1, f2, f3, f4, f5, f6, f7, f8, f9⟩ := write_fields b mj rj
  have hr := getD_mem recs i default hi
  have hbr := hb.each _ hr
  generalize hrd : recs.getD i default = r at hr hbr
  -- sub-repository indices
  have hsubs : fromSizedDeltas (b.write mj rj).2.subRepos = some (u32s b.subRepos) := by
    rw [f5]
    apply fromSized_toSized
    simp only [u32s, List.length_map, hrep.subs]
    have := hb.ndocs
    omega
  -- byte sections of document i
  have hitem : readItem (b.write mj rj).2.fileSections i = marshalDocSections (toSecs r.secs) := by
    rw [f3, readItem_write _ _ _ (by simp [hrep.secs, hi])]
    rw [hrep.secs, List.map_map]
    rw [getD_map _ recs i default [] hi, hrd]
    rfl
  have hsecs : unmarshalDocSections (readItem (b.write mj rj).2.fileSections i) = some (toSecs r.secs) := by
    rw [hitem]
    apply unmarshal_marshal
    simp only [toSecs, List.length_map]
    exact hbr.2.2.2.1
  have hrds : unmarshalDocSections (b.write mj rj).2.runeDocSections = some (toSecs b.runeDocSections) := by
    rw [f9]
    apply unmarshal_marshal
    simp only [toSecs, List.length_map]
    exact hb.runeSecs
  unfold readDoc
  simp only [hsubs, hsecs, hrds, Option.bind_eq_bind, Option.bind_some, Option.pure_def]
  refine ⟨_, rfl, ?_, ?_, ?_, ?_, ?_, ?_, ?_, ?_⟩
  · -- name
    simp only [f1]
    rw [readItem_write _ _ _ (by simp [hrep.names, hi]), hrep.names, getD_map _ recs i default [] hi, hrd]
  · simp only [f2]
    rw [readItem_write _ _ _ (by simp [hrep.contents, hi]), hrep.contents, getD_map _ recs i default [] hi, hrd]
  · simp only
    exact secPairs_toSecs _ hbr.2.2.2.2
  · simp only [f6]
    rw [hrep.sums, slice_flat8 _ (by intro it hit; simp at hit; obtain ⟨_, _, rfl⟩ := hit; exact be8_length _) i (by simp [hi]),
      getD_map _ recs i default [] hi, hrd]
  · simp only [f8]
    rw [hrep.cats, getD_map _ recs i default 0 hi, hrd, u8_ofNat_toNat _ hbr.2.2.1]
  · simp only
    have : ((u32s b.subRepos).getD i 0).toNat = r.subIdx := by
      rw [hrep.subs]
      simp only [u32s, List.map_map]
      rw [getD_map _ recs i default 0 hi, hrd]
      simp [UInt32.toNat_ofNat', Nat.mod_eq_of_lt hbr.2.1]
    rw [this]
  · simp only [f4]
    rw [readBE8_writeBE8 _ (by intro n hn; rw [hrep.masks] at hn; simp at hn; obtain ⟨q, hq, rfl⟩ := hn; exact (hb.each q hq).1),
      hrep.masks, getD_map _ recs i default 0 hi, hrd]
  · simp only [f7]
    have hc := hrep.codes r hr
    have hlt : r.code < 65535 := by have := hrep.lmLen; omega
    have h2 := getD_flat2 (recs.map fun q => (UInt8.ofNat (q.code % 256), UInt8.ofNat (q.code / 256))) i (by simp [hi])
    have e : (recs.map fun q => (UInt8.ofNat (q.code % 256), UInt8.ofNat (q.code / 256))).map (fun p => [p.1, p.2])
        = recs.map Rec.langBytes := by
      rw [List.map_map]; rfl
    rw [e, ← hrep.langs] at h2
    rw [getD_map _ recs i default (0, 0) hi, hrd] at h2
    injection h2 with ha hb'
    rw [ha, hb', u8_ofNat_toNat _ (by omega), u8_ofNat_toNat _ (by omega)]
    have : r.code % 256 + 256 * (r.code / 256) = r.code := by omega
    rw [this]
    exact hc.2

end ZoektModel.C09
