/-
C09 — `DocChecker.Check`: the early-exit trigram count decides "more than `max` distinct trigrams", and the start-of-file
quirk (`cur[0] == 0`) skips exactly the two incomplete windows.
-/
import ZoektModel.C09.Final
import ZoektModel.C09.CheckerState
namespace ZoektModel.C09
open ZoektModel

/-- the set `Check` builds, without the early exit -/
def collectSeen : List Nat → List Nat → List Nat
  | [], seen => seen
  | g :: r, seen => collectSeen r (if seen.contains g then seen else g :: seen)

theorem collectSeen_len_ge (l : List Nat) : ∀ seen, seen.length ≤ (collectSeen l seen).length := by
  induction l with
  | nil => intro seen; simp [collectSeen]
  | cons g r ih =>
    intro seen
    simp only [collectSeen]
    split
    · exact ih seen
    · have := ih (g :: seen)
      simp at this
      omega

theorem distinctCount_none_iff (l : List Nat) (max : Nat) : ∀ seen, seen.length ≤ max →
    (distinctCount l seen max = none ↔ (collectSeen l seen).length > max) := by
  induction l with
  | nil => intro seen h; simp [distinctCount, collectSeen]; omega
  | cons g r ih =>
    intro seen h
    simp only [distinctCount, collectSeen]
    generalize (if seen.contains g then seen else g :: seen) = s'
    by_cases hgt : s'.length > max
    · simp only [hgt, if_true]
      have := collectSeen_len_ge r s'
      constructor
      · intro _; omega
      · intro _; trivial
    · simp only [hgt, if_false]
      exact ih s' (by omega)

theorem collectSeen_nodup (l : List Nat) : ∀ seen, seen.Nodup → (collectSeen l seen).Nodup := by
  induction l with
  | nil => intro seen h; exact h
  | cons g r ih =>
    intro seen h
    simp only [collectSeen]
    split
    · exact ih seen h
    · rename_i hc
      apply ih
      exact List.nodup_cons.2 ⟨by simpa using hc, h⟩

theorem collectSeen_mem (l : List Nat) : ∀ seen x, x ∈ collectSeen l seen ↔ x ∈ seen ∨ x ∈ l := by
  induction l with
  | nil => intro seen x; simp [collectSeen]
  | cons g r ih =>
    intro seen x
    simp only [collectSeen]
    split
    · rename_i hc
      rw [ih]
      have hg : g ∈ seen := by simpa using hc
      constructor
      · rintro (h | h)
        · exact Or.inl h
        · exact Or.inr (by simp [h])
      · rintro (h | h)
        · exact Or.inl h
        · simp only [List.mem_cons] at h
          rcases h with h | h
          · exact Or.inl (h ▸ hg)
          · exact Or.inr h
    · rw [ih]
      simp only [List.mem_cons]
      constructor
      · rintro ((h | h) | h)
        · exact Or.inr (Or.inl h)
        · exact Or.inl h
        · exact Or.inr (Or.inr h)
      · rintro (h | h | h)
        · exact Or.inl (Or.inr h)
        · exact Or.inl (Or.inl h)
        · exact Or.inr h

/-- the early exit is exact: `Check` reports "too many" iff the number of distinct trigrams — the length of *any*
    duplicate-free enumeration `u` of the trigram set — exceeds the limit -/
theorem tooMany_iff (grams u : List Nat) (max : Nat) (hu : u.Nodup) (hmem : ∀ g, g ∈ u ↔ g ∈ grams) :
    distinctCount grams [] max = none ↔ u.length > max := by
  rw [distinctCount_none_iff grams max [] (by simp)]
  have hn := collectSeen_nodup grams [] (by simp)
  have hp : (collectSeen grams []).Perm u := by
    apply (List.perm_ext_iff_of_nodup hn hu).2
    intro g
    rw [collectSeen_mem, hmem]
    simp
  rw [hp.length_eq]

/-- all windows of three consecutive runes -/
def windows : List Nat → List Nat
  | a :: b :: c :: r => runesToNGram a b c :: windows (b :: c :: r)
  | _ => []

theorem checkGrams_nozero : ∀ (rs : List Nat), (∀ r ∈ rs, r ≠ 0) → checkGrams rs = windows rs := by
  intro rs
  induction rs with
  | nil => intro _; rfl
  | cons a r ih =>
    intro h
    match r, ih, h with
    | [], _, _ => rfl
    | [_], _, _ => rfl
    | b :: c :: r', ih, h =>
      have ha : a ≠ 0 := h a (by simp)
      simp only [checkGrams, windows, ha, if_false, List.singleton_append]
      rw [ih (fun x hx => h x (by simp [hx]))]

/-- the start-of-file quirk skips exactly the two incomplete windows -/
theorem checkGrams_padded (rs : List Nat) (h : ∀ r ∈ rs, r ≠ 0) : checkGrams (0 :: 0 :: rs) = windows rs := by
  match rs, h with
  | [], _ => rfl
  | [a], _ => simp [checkGrams, windows]
  | a :: b :: r, h =>
    simp only [checkGrams, if_true, List.nil_append]
    exact checkGrams_nozero (a :: b :: r) h

theorem decodeRune_ne_zero (b0 : UInt8) (rest : Bytes) (h : b0.toNat ≠ 0) : (decodeRune b0 rest).1 ≠ 0 := by
  unfold decodeRune runeError isCont
  simp only []
  repeat' split
  all_goals first | omega | (simp only [Bool.and_eq_true, decide_eq_true_eq] at *; omega) | (simp at *; omega)

theorem decodeAllF_ne_zero : ∀ fuel data off, (∀ b ∈ data, b.toNat ≠ 0) → ∀ ra ∈ decodeAllF fuel data off, ra.r ≠ 0 := by
  intro fuel
  induction fuel with
  | zero => intro data off _ ra h; simp [decodeAllF] at h
  | succ f ih =>
    intro data off hz ra h
    cases data with
    | nil => simp [decodeAllF] at h
    | cons b0 rest =>
      simp only [decodeAllF, List.mem_cons] at h
      rcases h with h | h
      · subst h; exact decodeRune_ne_zero b0 rest (hz b0 (by simp))
      · exact ih _ _ (fun b hb => hz b (by simp [List.mem_of_mem_drop hb])) ra h

/-- **skip_decision_spec** for `DocChecker.Check` -/
theorem docCheck_spec (content : Bytes) (max : Nat) (allow : Bool) (u : List Nat) (hu : u.Nodup)
    (hmem : ∀ g, g ∈ u ↔ g ∈ windows ((decodeAll content).map (·.r))) :
    docCheck content max allow =
      if content.length = 0 then 0
      else if content.length < 3 then 2
      else if content.contains 0 then 3
      else if content.length - 2 ≤ max ∨ allow = true then 0
      else if u.length > max then 4 else 0 := by
  unfold docCheck
  split
  · rfl
  split
  · rfl
  split
  · rfl
  rename_i hnul
  split
  · rename_i h
    rw [if_pos (by simpa using h)]
  · rename_i h
    rw [if_neg (by simpa using h)]
    have hz : ∀ b ∈ content, b.toNat ≠ 0 := by
      intro b hb hb0
      apply hnul
      have : b = 0 := by
        apply UInt8.toNat_inj.1
        simpa using hb0
      subst this
      simpa using hb
    have hruneNZ : ∀ r ∈ (decodeAll content).map (·.r), r ≠ 0 := by
      intro r hr
      simp only [List.mem_map] at hr
      obtain ⟨ra, hra, rfl⟩ := hr
      exact decodeAllF_ne_zero _ _ _ hz ra hra
    rw [checkGrams_padded _ hruneNZ]
    have := tooMany_iff (windows ((decodeAll content).map (·.r))) u max hu hmem
    by_cases hgt : u.length > max
    · rw [this.2 hgt, if_pos hgt]
    · rw [if_neg hgt]
      cases hd : distinctCount (windows ((decodeAll content).map (·.r))) [] max with
      | none => exact absurd (this.1 hd) hgt
      | some _ => rfl

/-! ### one checker, many documents -/

theorem scan_over_iff (l : List Nat) (max : Nat) : ∀ seen, (scan l seen max).2 = true ↔ distinctCount l seen max = none := by
  induction l with
  | nil => intro seen; simp [scan, distinctCount]
  | cons g r ih =>
    intro seen
    simp only [scan, distinctCount]
    generalize (if seen.contains g then seen else g :: seen) = s'
    by_cases hgt : s'.length > max
    · simp [hgt]
    · simp only [hgt, if_false]
      exact ih s'

theorem checkSt_result (st : List Nat) (content : Bytes) (max : Nat) (allow : Bool) :
    (checkSt st content max allow).2 = docCheck content max allow := by
  unfold checkSt docCheck
  split
  · rfl
  split
  · rfl
  split
  · rfl
  split
  · rfl
  · simp only
    have h := scan_over_iff (checkGrams (0 :: 0 :: (decodeAll content).map (·.r))) max []
    cases hd : distinctCount (checkGrams (0 :: 0 :: (decodeAll content).map (·.r))) [] max with
    | none => rw [h.2 hd]; rfl
    | some v =>
      have : (scan (checkGrams (0 :: 0 :: (decodeAll content).map (·.r))) [] max).2 = false := by
        cases hs : (scan (checkGrams (0 :: 0 :: (decodeAll content).map (·.r))) [] max).2 with
        | false => rfl
        | true => rw [h.1 hs] at hd; cases hd
      rw [this]; rfl

theorem checkSeq_stateless (docs : List (Bytes × Nat × Bool)) : ∀ st : List Nat,
    checkSeq st docs = docs.map fun d => docCheck d.1 d.2.1 d.2.2 := by
  induction docs with
  | nil => intro st; rfl
  | cons d r ih =>
    intro st
    obtain ⟨c, m, a⟩ := d
    simp only [checkSeq, List.map_cons, checkSt_result, ih]

end ZoektModel.C09
