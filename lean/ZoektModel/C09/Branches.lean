/-
C09 — branch masks: `ShardBuilder.Add` ORs one bit per branch of the document (position in the repository's branch
list); `gatherBranches` walks the bits. Round trip for every repository with ≤ 64 distinct branch names.
-/
import ZoektModel.C09.Roundtrip
namespace ZoektModel.C09
open ZoektModel

/-- number with the given bits, least significant first -/
def ofBits : List Bool → Nat
  | [] => 0
  | b :: r => (if b then 1 else 0) + 2 * ofBits r

theorem testBit_ofBits (bits : List Bool) : ∀ j, (ofBits bits).testBit j = bits.getD j false := by
  induction bits with
  | nil => intro j; simp [ofBits]
  | cons b r ih =>
    intro j
    cases j with
    | zero =>
      rw [Nat.testBit_zero]
      cases b <;> simp [ofBits] <;> omega
    | succ k =>
      rw [Nat.testBit_add_one]
      have : ((if b then 1 else 0) + 2 * ofBits r) / 2 = ofBits r := by cases b <;> simp <;> omega
      simp only [ofBits, this, ih, List.getD_cons_succ]

theorem ofBits_lt (bits : List Bool) : ofBits bits < 2 ^ bits.length := by
  induction bits with
  | nil => simp [ofBits]
  | cons b r ih =>
    simp only [ofBits, List.length_cons, Nat.pow_succ]
    cases b <;> simp <;> omega

theorem testBit_maskOf (names : List Bytes) (doc : List Bytes) : ∀ mask, branchMaskOf names doc = some mask →
    ∀ j, mask.testBit j = true ↔ ∃ br ∈ doc, indexOf? names br = some j := by
  induction doc with
  | nil =>
    intro mask h j
    simp [branchMaskOf] at h
    subst h
    simp
  | cons br r ih =>
    intro mask h j
    simp only [branchMaskOf] at h
    cases hi : indexOf? names br with
    | none => simp [hi] at h
    | some i =>
      cases hm : branchMaskOf names r with
      | none => simp [hi, hm] at h
      | some m =>
        simp [hi, hm] at h
        subst h
        rw [Nat.testBit_or, Nat.testBit_two_pow]
        simp only [Bool.or_eq_true, decide_eq_true_eq, ih m hm j, List.mem_cons, exists_eq_or_imp, hi, Option.some.injEq]
        constructor
        · rintro (h | h)
          · exact Or.inr h
          · exact Or.inl h
        · rintro (h | h)
          · exact Or.inr h
          · exact Or.inl h

theorem indexOf?_nodup (names : List Bytes) (h : names.Nodup) : ∀ j (hj : j < names.length),
    indexOf? names names[j] = some j := by
  induction names with
  | nil => intro j hj; simp at hj
  | cons x r ih =>
    intro j hj
    have hn : x ∉ r ∧ r.Nodup := by simpa using h
    cases j with
    | zero => simp [indexOf?]
    | succ k =>
      have hk : k < r.length := by simpa using hj
      have hne : ¬ x = r[k] := by
        intro e
        exact hn.1 (e ▸ List.getElem_mem hk)
      simp [indexOf?, hne, ih hn.2 k hk]

theorem indexOf?_none_of_not_mem (names : List Bytes) (a : Bytes) (h : a ∉ names) : indexOf? names a = none := by
  induction names with
  | nil => rfl
  | cons x r ih =>
    have : ¬ x = a ∧ a ∉ r := by
      constructor
      · intro e; exact h (by simp [e])
      · intro e; exact h (by simp [e])
    simp [indexOf?, this.1, ih this.2]

/-- the mask `Add` computes is the characteristic bit vector of the document's branches over the repository's list -/
theorem mask_eq_ofBits (names doc : List Bytes) (mask : Nat) (hn : names.Nodup)
    (h : branchMaskOf names doc = some mask) : mask = ofBits (names.map (doc.contains ·)) := by
  apply Nat.eq_of_testBit_eq
  intro j
  rw [testBit_ofBits]
  have key := testBit_maskOf names doc mask h j
  by_cases hj : j < names.length
  · rw [getD_map _ names j [] false hj]
    have hget : names.getD j [] = names[j] := by simp [List.getD_eq_getElem?_getD, List.getElem?_eq_getElem hj]
    rw [hget]
    by_cases hc : doc.contains names[j] = true
    · rw [hc]
      apply key.2
      exact ⟨names[j], by simpa using hc, indexOf?_nodup names hn j hj⟩
    · have hc' : doc.contains names[j] = false := by simpa using hc
      rw [hc']
      cases hb : mask.testBit j with
      | false => rfl
      | true =>
        obtain ⟨br, hbr, hidx⟩ := key.1 hb
        have := indexOf?_some names br j hidx []
        rw [hget] at this
        rw [this.2] at hc
        exact absurd (by simpa using hbr) hc
  · have : (names.map (doc.contains ·)).getD j false = false := by
      simp [List.getD_eq_getElem?_getD, List.getElem?_eq_none (by simpa using Nat.le_of_not_lt hj)]
    rw [this]
    cases hb : mask.testBit j with
    | false => rfl
    | true =>
      obtain ⟨br, _, hidx⟩ := key.1 hb
      exact absurd (indexOf?_some names br j hidx []).1 hj

theorem maskBranches_shift (x : Bytes) (xs : List Bytes) : ∀ fuel m k,
    maskBranches (x :: xs) fuel m (k + 1) = maskBranches xs fuel m k := by
  intro fuel
  induction fuel with
  | zero => intro m k; rfl
  | succ f ih =>
    intro m k
    simp only [maskBranches, List.getD_cons_succ, ih]

theorem ofBits_zero (bits : List Bool) (h : ofBits bits = 0) : ∀ b ∈ bits, b = false := by
  induction bits with
  | nil => intro b hb; simp at hb
  | cons c r ih =>
    intro b hb
    simp only [ofBits] at h
    have hc : c = false := by cases c <;> simp at h ⊢
    have hr : ofBits r = 0 := by subst hc; simp at h; omega
    simp only [List.mem_cons] at hb
    rcases hb with hb | hb
    · rw [hb, hc]
    · exact ih hr b hb

theorem maskBranches_ofBits (names : List Bytes) : ∀ (bits : List Bool) fuel, bits.length = names.length →
    names.length ≤ fuel →
    maskBranches names fuel (ofBits bits) 0 = ((names.zip bits).filter (·.2)).map (·.1) := by
  induction names with
  | nil =>
    intro bits fuel hl _
    have : bits = [] := List.eq_nil_of_length_eq_zero (by simpa using hl)
    subst this
    cases fuel <;> simp [maskBranches, ofBits]
  | cons x xs ih =>
    intro bits fuel hl hf
    cases bits with
    | nil => simp at hl
    | cons b r =>
      cases fuel with
      | zero => simp at hf
      | succ f =>
        have hl' : r.length = xs.length := by simpa using hl
        have hf' : xs.length ≤ f := by simpa using hf
        simp only [maskBranches]
        by_cases h0 : ofBits (b :: r) = 0
        · simp only [h0, if_true]
          have hall := ofBits_zero (b :: r) h0
          symm
          simp only [List.map_eq_nil_iff, List.filter_eq_nil_iff]
          intro p hp
          have := List.of_mem_zip hp
          simp [hall p.2 this.2]
        · simp only [h0, if_false]
          have hdiv : ofBits (b :: r) / 2 = ofBits r := by cases b <;> simp [ofBits] <;> omega
          have hmod : (ofBits (b :: r) % 2 = 1) = (b = true) := by cases b <;> simp [ofBits] <;> omega
          rw [hdiv, maskBranches_shift, ih r f hl' hf']
          cases b <;> simp [hmod, ofBits]

theorem zip_filter (names : List Bytes) (p : Bytes → Bool) :
    ((names.zip (names.map p)).filter (·.2)).map (·.1) = names.filter p := by
  induction names with
  | nil => rfl
  | cons x xs ih =>
    simp only [List.map_cons, List.zip_cons_cons, List.filter_cons]
    cases p x <;> simp [ih]

/-- **branch round trip**: the names `gatherBranches` lists for the mask `Add` stored are the repository's branches the
    document is on, in repository order -/
theorem branches_roundtrip (names doc : List Bytes) (mask : Nat) (hn : names.Nodup) (hl : names.length ≤ 64)
    (h : branchMaskOf names doc = some mask) :
    maskBranches names 64 mask 0 = names.filter (doc.contains ·) ∧ mask < 2 ^ 64 := by
  have e := mask_eq_ofBits names doc mask hn h
  subst e
  refine ⟨?_, ?_⟩
  · rw [maskBranches_ofBits names _ 64 (by simp) hl, zip_filter]
  · have := ofBits_lt (names.map (doc.contains ·))
    simp only [List.length_map] at this
    exact Nat.lt_of_lt_of_le this (Nat.pow_le_pow_right (by decide) hl)

end ZoektModel.C09
