/-
C09 — symbol sections: when `newSearchableString` accepts a document, the rune sections it returns denote the same
boundaries as the byte sections it was given (`sections_byte_to_rune`): every boundary is the start of a rune (or the
end of the content), and the rune offset recorded for it is that rune's index, counted from the builder's rune count.
-/
import ZoektModel.C09.Lemmas
namespace ZoektModel.C09
open ZoektModel

/-- rune offset `r` (global, the document starting at rune `rc0`) denotes byte offset `x` of `data` -/
def Denotes (data : Bytes) (rc0 x r : Nat) : Prop := rc0 ≤ r ∧ byteOfRune data (r - rc0) = some x

/-- the boundary bookkeeping of the rune loop, without the builder -/
def placeFold (rc0 : Nat) : List RuneAt → Nat → List Nat → List Nat → List Nat × List Nat
  | [], _, bsb, rsb => (bsb, rsb)
  | ra :: r, k, bsb, rsb =>
    placeFold rc0 r (k + 1) (placeBoundaries bsb ra.off (rc0 + k) rsb).1 (placeBoundaries bsb ra.off (rc0 + k) rsb).2

theorem loop_proj (rc0 eb0 : Nat) (runes : List RuneAt) : ∀ st : Loop,
    ((runes.foldl (Loop.step rc0 eb0) st).bsb, (runes.foldl (Loop.step rc0 eb0) st).rsb)
        = placeFold rc0 runes st.runeIndex st.bsb st.rsb ∧
    (runes.foldl (Loop.step rc0 eb0) st).runeIndex = st.runeIndex + runes.length := by
  induction runes with
  | nil => intro st; simp [placeFold]
  | cons ra r ih =>
    intro st
    simp only [List.foldl_cons, placeFold]
    have := ih (Loop.step rc0 eb0 st ra)
    simp only [Loop.step] at this ⊢
    refine ⟨this.1, ?_⟩
    rw [this.2]
    simp
    omega

theorem placeBoundaries_spec (bsb : List Nat) (off v : Nat) : ∀ rsb, ∃ m rest,
    bsb = List.replicate m off ++ rest ∧ placeBoundaries bsb off v rsb = (rest, rsb ++ List.replicate m v) ∧
    rest.head? ≠ some off := by
  induction bsb with
  | nil => intro rsb; exact ⟨0, [], by simp, by simp [placeBoundaries], by simp⟩
  | cons b r ih =>
    intro rsb
    simp only [placeBoundaries]
    by_cases hb : b = off
    · subst hb
      obtain ⟨m, rest, h1, h2, h3⟩ := ih (rsb ++ [v])
      refine ⟨m + 1, rest, ?_, ?_, h3⟩
      · simp [List.replicate_succ, h1]
      · simp only [if_true, h2, List.replicate_succ, List.append_assoc, List.singleton_append]
    · refine ⟨0, b :: r, by simp, by simp [hb], ?_⟩
      simp
      exact hb

/-- what has been placed so far is correct -/
def Placed (data : Bytes) (rc0 : Nat) (bsb0 bsb rsb : List Nat) : Prop :=
  ∃ placed, bsb0 = placed ++ bsb ∧ placed.length = rsb.length ∧ ∀ p ∈ placed.zip rsb, Denotes data rc0 p.1 p.2

theorem Placed.step {data : Bytes} {rc0 : Nat} {bsb0 bsb rsb : List Nat} (h : Placed data rc0 bsb0 bsb rsb)
    (off k : Nat) (hk : byteOfRune data k = some off) :
    Placed data rc0 bsb0 (placeBoundaries bsb off (rc0 + k) rsb).1 (placeBoundaries bsb off (rc0 + k) rsb).2 := by
  obtain ⟨placed, h1, h2, h3⟩ := h
  obtain ⟨m, rest, e1, e2, _⟩ := placeBoundaries_spec bsb off (rc0 + k) rsb
  rw [e2]
  refine ⟨placed ++ List.replicate m off, by rw [h1, e1]; simp, by simp [h2], ?_⟩
  intro p hp
  rw [List.zip_append h2] at hp
  simp only [List.mem_append] at hp
  rcases hp with hp | hp
  · exact h3 p hp
  · have := List.of_mem_zip hp
    simp only [List.mem_replicate] at this
    obtain ⟨⟨_, e1⟩, ⟨_, e2⟩⟩ := this
    rw [show p = (p.1, p.2) from rfl, e1, e2]
    exact ⟨by omega, by simpa using hk⟩

theorem byteOfRune_at (data : Bytes) (pre suf : List RuneAt) (ra : RuneAt) (h : decodeAll data = pre ++ ra :: suf) :
    byteOfRune data pre.length = some ra.off := by
  unfold byteOfRune
  simp only [h]
  have : pre.length < (pre ++ ra :: suf).length := by simp
  simp [this]

theorem Placed.fold {data : Bytes} {rc0 : Nat} {bsb0 : List Nat} (suf : List RuneAt) : ∀ (pre : List RuneAt) (bsb rsb : List Nat),
    decodeAll data = pre ++ suf → Placed data rc0 bsb0 bsb rsb →
    Placed data rc0 bsb0 (placeFold rc0 suf pre.length bsb rsb).1 (placeFold rc0 suf pre.length bsb rsb).2 := by
  induction suf with
  | nil => intro pre bsb rsb _ h; exact h
  | cons ra r ih =>
    intro pre bsb rsb hd h
    simp only [placeFold]
    have hk := byteOfRune_at data pre r ra hd
    have := ih (pre ++ [ra]) _ _ (by simp [hd]) (h.step ra.off pre.length hk)
    simpa using this

theorem byteOfRune_end (data : Bytes) : byteOfRune data (decodeAll data).length = some data.length := by
  unfold byteOfRune
  simp

/-- boundaries sorted and inside the content: nothing can be left unplaced without an error -/
def BoundsOk (len : Nat) (bsb0 : List Nat) : Prop := bsb0.Pairwise (· ≤ ·) ∧ ∀ x ∈ bsb0, x ≤ len

theorem pairs_of_zip (data : Bytes) (rc0 : Nat) : ∀ (secs : List (Nat × Nat)) (rsb : List Nat) (rs : List (Nat × Nat)),
    (secs.flatMap fun p => [p.1, p.2]).length = rsb.length →
    (∀ p ∈ (secs.flatMap fun p => [p.1, p.2]).zip rsb, Denotes data rc0 p.1 p.2) →
    pairUp rsb = some rs →
    rs.length = secs.length ∧ ∀ q ∈ secs.zip rs, Denotes data rc0 q.1.1 q.2.1 ∧ Denotes data rc0 q.1.2 q.2.2 := by
  intro secs
  induction secs with
  | nil =>
    intro rsb rs hl _ hp
    have : rsb = [] := by
      cases rsb with
      | nil => rfl
      | cons a r => simp at hl
    subst this
    simp [pairUp] at hp
    subst hp
    simp
  | cons s r ih =>
    intro rsb rs hl hz hp
    match rsb, hl, hz, hp with
    | a :: b :: rest, hl, hz, hp =>
      simp only [pairUp] at hp
      cases hr : pairUp rest with
      | none => simp [hr] at hp
      | some rs' =>
        simp [hr] at hp
        subst hp
        have hl' : (r.flatMap fun p => [p.1, p.2]).length = rest.length := by
          simp only [List.flatMap_cons, List.length_append, List.length_cons, List.length_nil] at hl
          omega
        have hz' : ∀ p ∈ (r.flatMap fun p => [p.1, p.2]).zip rest, Denotes data rc0 p.1 p.2 := by
          intro p hp
          apply hz
          simp [List.flatMap_cons, hp]
        have := ih rest rs' hl' hz' hr
        refine ⟨by simp [this.1], ?_⟩
        intro q hq
        simp only [List.zip_cons_cons, List.mem_cons] at hq
        rcases hq with hq | hq
        · subst hq
          exact ⟨hz (s.1, a) (by simp [List.flatMap_cons]), hz (s.2, b) (by simp [List.flatMap_cons])⟩
        · exact this.2 q hq
    | [_], hl, _, _ => simp [List.flatMap_cons] at hl
    | [], hl, _, _ => simp [List.flatMap_cons] at hl

/-- **sections_byte_to_rune.** If `newSearchableString` accepts `(data, secs)` — the boundaries being sorted and inside the
    content, as `ShardBuilder.Add` has checked — it returns one rune section per byte section, and each rune offset denotes
    its byte offset: the boundary is the start of a rune of `data` (Go's decoding: an invalid byte is one rune) or the end
    of `data`, and the rune offset is the builder's rune count plus that rune's index. -/
theorem sections_byte_to_rune_lemma (s s' : PB) (data : Bytes) (secs rs : List (Nat × Nat))
    (hb : BoundsOk data.length (secs.flatMap fun p => [p.1, p.2]))
    (hok : s.add data secs = .ok (s', rs)) :
    rs.length = secs.length ∧
    ∀ q ∈ secs.zip rs, Denotes data s.runeCount q.1.1 q.2.1 ∧ Denotes data s.runeCount q.1.2 q.2.2 := by
  unfold PB.add at hok
  have hproj := loop_proj s.runeCount s.endByte (decodeAll data) ⟨s, 0, 0, 0, secs.flatMap fun p => [p.1, p.2], []⟩
  have hplaced := Placed.fold (data := data) (rc0 := s.runeCount) (bsb0 := secs.flatMap fun p => [p.1, p.2])
    (decodeAll data) [] (secs.flatMap fun p => [p.1, p.2]) [] (by simp) ⟨[], by simp, rfl, by simp⟩
  simp only [List.length_nil] at hplaced
  generalize (decodeAll data).foldl (Loop.step s.runeCount s.endByte) ⟨s, 0, 0, 0, secs.flatMap fun p => [p.1, p.2], []⟩ = st at hproj hok
  simp only [Nat.zero_add] at hproj
  obtain ⟨hp1, hri⟩ := hproj
  rw [← hp1] at hplaced
  simp only at hplaced
  unfold PB.finishAdd at hok
  split at hok
  · rename_i b0 brest hbsb
    split at hok
    · cases hok
    · rename_i hge
      -- final placement at the end of the content
      have hend : byteOfRune data (st.runeIndex) = some data.length := by rw [hri]; exact byteOfRune_end data
      have hfin := hplaced.step data.length st.runeIndex hend
      obtain ⟨m, rest, e1, e2, e3⟩ := placeBoundaries_spec st.bsb data.length (s.runeCount + st.runeIndex) st.rsb
      rw [e2] at hfin hok
      simp only at hfin hok
      -- nothing is left: rest is sorted after, bounded by len, and does not start with len
      have hrest : rest = [] := by
        obtain ⟨placed, hp, _, _⟩ := hfin
        cases rest with
        | nil => rfl
        | cons y ys =>
          exfalso
          have hy_mem : y ∈ secs.flatMap fun p => [p.1, p.2] := by rw [hp]; simp
          have hy_le := hb.2 y hy_mem
          have hy_ne : y ≠ data.length := by simpa using e3
          -- y ≥ len: either m = 0 and y = b0 ≥ len, or y follows a boundary equal to len
          have hy_ge : data.length ≤ y := by
            cases m with
            | zero =>
              simp at e1
              rw [hbsb] at e1
              injection e1 with e1 _
              omega
            | succ m' =>
              -- data.length occurs before y in the (sorted) original list
              obtain ⟨pl0, hpl0, _, _⟩ := hplaced
              have hs := hb.1
              rw [hpl0, e1] at hs
              have hs2 := (List.pairwise_append.1 hs).2.1
              have hs3 := (List.pairwise_append.1 hs2).2.2
              exact hs3 data.length (by simp [List.replicate_succ]) y (by simp)
          omega
      subst hrest
      obtain ⟨placed, hp, hlen, hden⟩ := hfin
      simp only [List.append_nil] at hp
      subst hp
      split at hok
      · cases hok
      · rename_i rs' hpair
        injection hok with hok
        injection hok with _ hrs
        subst hrs
        exact pairs_of_zip data s.runeCount secs _ rs' hlen hden hpair
  · rename_i hbsb
    obtain ⟨placed, hp, hlen, hden⟩ := hplaced
    rw [hbsb] at hp
    simp only [List.append_nil] at hp
    subst hp
    split at hok
    · cases hok
    · rename_i rs' hpair
      injection hok with hok
      injection hok with _ hrs
      subst hrs
      exact pairs_of_zip data s.runeCount secs _ rs' hlen hden hpair

end ZoektModel.C09
