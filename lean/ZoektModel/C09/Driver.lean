import ZoektModel.Basic.Proto
namespace ZoektModel.C09
/-- stub: no model driver for C09 yet -/
def main : IO Unit := ZoektModel.Proto.runLines (fun _ => ZoektModel.Proto.badCase "no model driver for C09")
end ZoektModel.C09
