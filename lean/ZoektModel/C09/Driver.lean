import ZoektModel.Basic.Proto
import ZoektModel.C09.Spec
import ZoektModel.C09.CheckerState
namespace ZoektModel.C09
open ZoektModel ZoektModel.Proto

/-! line protocol of C09 (see harness/cmd/c09/main.go).  Byte strings are hex (`-` = empty); lists of byte strings
are comma separated with `_` for the empty list; pairs are `a:b`. -/

def hexList? (s : String) : Option (List Bytes) :=
  if s == "_" then some [] else (s.splitOn ",").mapM hexToBytes?

def showHexList (l : List Bytes) : String :=
  if l.isEmpty then "_" else ",".intercalate (l.map bytesToHex)

def pairs? (s : String) : Option (List (Nat × Nat)) :=
  if s == "-" || s == "_" then some [] else
  (s.splitOn ",").mapM fun e =>
    match e.splitOn ":" with
    | [a, b] => do pure (← a.toNat?, ← b.toNat?)
    | _ => none

def showPairs (l : List (Nat × Nat)) : String := showList (fun p => s!"{p.1}:{p.2}") l

def sym? (s : String) : Option (Option Sym) :=
  if s == "nil" then some none else
  match s.splitOn "." with
  | [a, b, c] => do pure (some ⟨← hexToBytes? a, ← hexToBytes? b, ← hexToBytes? c⟩)
  | _ => none

def syms? (s : String) : Option (List (Option Sym)) :=
  if s == "_" then some [] else (s.splitOn ",").mapM sym?

def showSym : Option Sym → String
  | none => "nil"
  | some y => s!"{bytesToHex y.kind}.{bytesToHex y.parent}.{bytesToHex y.parentKind}"

def showSyms (l : List (Option Sym)) : String := if l.isEmpty then "_" else ",".intercalate (l.map showSym)

/-- doc: `name;content;branches;subrepo;language;langHint;category;catHint;skip;symbols;symMeta` -/
def doc? (s : String) : Option Doc :=
  match s.splitOn ";" with
  | [n, c, br, sr, lg, lh, cat, ch, sk, sy, sm] => do
    let metas ← syms? sm
    pure { name := ← hexToBytes? n, content := ← hexToBytes? c, branches := ← hexList? br, subRepoPath := ← hexToBytes? sr,
           language := ← hexToBytes? lg, langHint := ← hexToBytes? lh, category := ← cat.toNat?, catHint := ← ch.toNat?,
           skip := ← sk.toNat?, symbols := ← pairs? sy, symMeta := ← metas.mapM id }
  | _ => none

def docs? (s : String) : Option (List Doc) :=
  if s == "_" then some [] else (s.splitOn "|").mapM doc?

def repo? (s : String) : Option Repo :=
  match s.splitOn ";" with
  | [b, k] => do pure ⟨← hexList? b, ← hexList? k⟩
  | _ => none

/-- read-back doc: `name;content;branches;checksum;language;category;subrepo;sections;runeSections;symbols` -/
def showOut (o : DocOut) : String :=
  ";".intercalate [bytesToHex o.name, bytesToHex o.content, showHexList o.branches, bytesToHex o.checksum,
    bytesToHex o.language, toString o.category, bytesToHex o.subRepoPath, showPairs o.sections,
    showPairs o.runeSections, showSyms o.symbols]

def out? (s : String) : Option DocOut :=
  match s.splitOn ";" with
  | [n, c, br, ck, lg, cat, sr, se, rs, sy] => do
    pure { name := ← hexToBytes? n, content := ← hexToBytes? c, branches := ← hexList? br, checksum := ← hexToBytes? ck,
           language := ← hexToBytes? lg, category := ← cat.toNat?, subRepoPath := ← hexToBytes? sr, sections := ← pairs? se,
           runeSections := ← pairs? rs, symbols := ← syms? sy }
  | _ => none

def showOuts (l : List DocOut) : String := if l.isEmpty then "_" else "|".intercalate (l.map showOut)
def outs? (s : String) : Option (List DocOut) := if s == "_" then some [] else (s.splitOn "|").mapM out?

def showU32s (l : List UInt32) : String := showNatList (l.map (·.toNat))
def showU16s (l : List UInt16) : String := showNatList (l.map (·.toNat))

/-- index of the first document `Add` refuses, with the outcome class -/
def addAllIdx (repo : Repo) : SB → List Doc → Nat → Sum (Nat × String) SB
  | b, [], _ => .inr b
  | b, d :: r, i =>
    match b.add repo d with
    | .ok b' => addAllIdx repo b' r (i + 1)
    | o => .inl (i, o.cls)

def showPS (ps : PostingSections) (pb : PB) : String :=
  s!"ng={showNatList ps.ngrams}/po={showHexList ps.postings}/ro={bytesToHex ps.runeOffsets}/er={bytesToHex ps.endRunes}/pl={showBool pb.plain}/eb={pb.endByte}/rc={pb.runeCount}"

/-- `pb` script: `a:<hex>:<secs>` add, `r` reset, `w` write; stops at the first add that fails -/
def runPB : PB → List String → List String → List String
  | _, [], acc => acc.reverse
  | pb, cmd :: rest, acc =>
    if cmd == "r" then runPB pb.reset rest ("r" :: acc)
    else if cmd == "w" then runPB pb rest (showPS pb.write pb :: acc)
    else match cmd.splitOn ":" with
      | "a" :: h :: secParts =>
        match hexToBytes? h, pairs? (":".intercalate secParts) with
        | some data, some secs =>
          match pb.add data secs with
          | .ok (pb', rs) => runPB pb' rest (s!"ok:{showPairs rs}" :: acc)
          | o => (o.cls :: acc).reverse
        | _, _ => ("?" :: acc).reverse
      | _ => ("?" :: acc).reverse

def handle (line : String) : String :=
  let (inp, impl) := splitCase line
  match fields inp with
  | ["enc32", l] => match natList? l with
    | some ns => answer (bytesToHex (toSizedDeltas (u32s ns)))
    | none => badCase "enc32"
  | ["dec32", h] => match hexToBytes? h with
    | some b => answer (match fromSizedDeltas b with | some l => showU32s l | none => "malformed")
    | none => badCase "dec32"
  | ["decraw", h] => match hexToBytes? h with
    | some b => answer (match fromDeltas b with | some l => showU32s l | none => "malformed")
    | none => badCase "decraw"
  | ["enc16", l] => match natList? l with
    | some ns => answer (bytesToHex (toSizedDeltas16 (ns.map UInt16.ofNat)))
    | none => badCase "enc16"
  | ["dec16", h] => match hexToBytes? h with
    | some b => answer (match fromSizedDeltas16 b with | some l => showU16s l | none => "malformed")
    | none => badCase "dec16"
  | ["msec", p] => match pairs? p with
    | some ps => answer (bytesToHex (marshalDocSections (toSecs ps)))
    | none => badCase "msec"
  | ["usec", h] => match hexToBytes? h with
    | some b => answer (match unmarshalDocSections b with | some l => showPairs (secPairs l) | none => "malformed")
    | none => badCase "usec"
  | ["rt32", l] =>
    -- round trip through the implementation: impl = fromSizedDeltas(toSizedDeltas(l)); the statement is impl = l
    match natList? l with
    | some ns =>
      let m := match fromSizedDeltas (toSizedDeltas (u32s ns)) with | some r => showU32s r | none => "malformed"
      if impl == showNatList ns then answer m else specFail m "deltas-roundtrip"
    | none => badCase "rt32"
  | ["check", c, mx, al] => match hexToBytes? c, mx.toNat?, bool? al with
    | some b, some m, some a => answer (toString (docCheck b m a))
    | _, _, _ => badCase "check"
  | ["checkseq", calls] =>
    -- one DocChecker, several calls `contentHex:max:allow` separated by `,`. Model: the checker with its surviving trigram
    -- set (`checkSeq`). Statement on the implementation: call by call the verdict of a fresh checker (`docCheck`).
    let cs? := (calls.splitOn ",").mapM fun e =>
      match e.splitOn ":" with
      | [c, m, a] => do pure (← hexToBytes? c, ← m.toNat?, ← bool? a)
      | _ => none
    match cs? with
    | some cs =>
      let model := showNatList (checkSeq [] cs)
      if impl == showNatList (cs.map fun d => docCheck d.1 d.2.1 d.2.2) then answer model
      else specFail model "checker-state-leak"
    | none => badCase "checkseq"
  | ["bskip", sm, tm, al, gv, c] => match sm.toNat?, tm.toNat?, bool? al, gv.toNat?, hexToBytes? c with
    | some s, some t, some a, some g, some b => answer (toString (builderSkip s t a g b))
    | _, _, _, _, _ => badCase "bskip"
  | ["crc", c] => match hexToBytes? c with
    | some b => answer (bytesToHex (be 8 (crc64 b).toNat))
    | none => badCase "crc"
  | ["cmask", rs, ds] =>
    -- compound shard: branch lists of the repositories (shard order) and, per document, its repository index and branches.
    -- model: the mask `Add` stores for each document — positions in the document's *own* repository's branch list.
    let repos? := (rs.splitOn "|").mapM hexList?
    let docs? := (ds.splitOn "|").mapM fun e =>
      match e.splitOn ":" with
      | [i, b] => do pure (← i.toNat?, ← hexList? b)
      | _ => none
    match repos?, docs? with
    | some repos, some docs =>
      let masks := docs.map fun (i, br) => branchMaskOf (repos.getD i []) br
      let model := showList (fun m => match m with | some x => toString x | none => "none") masks
      match natList? impl with
      | some ims =>
        -- the statement on the implementation's masks: decoded against its own repository, each mask gives the document's branches
        if ims.length == docs.length &&
            (docs.zip ims).all (fun ((i, br), m) =>
              maskBranches (repos.getD i []) 64 m 0 == (repos.getD i []).filter (br.contains ·)) then answer model
        else specFail model "compound-branches"
      | none => badCase "impl masks"
    | _, _ => badCase "cmask fields"
  | ["pb", script] => answer ("~".intercalate (runPB PB.fresh (script.splitOn "~") []))
  | ["shard", r, ds, mj, rj] =>
    match repo? r, docs? ds, hexToBytes? mj, hexToBytes? rj with
    | some repo, some docs, some metaJSON, some repoJSON =>
      match addAllIdx repo (SB.new PB.fresh PB.fresh) docs 0 with
      | .inl (i, c) => answer s!"{c}@{i}"
      | .inr b =>
        let (file, secs) := b.write metaJSON repoJSON
        let model := match readAll secs repo b.languageMap with
          | some outs => s!"file={bytesToHex file} docs={showOuts outs}"
          | none => s!"file={bytesToHex file} docs=unreadable"
        -- the statement, on what the implementation read back
        match fields impl with
        | [_, dpart] =>
          if dpart.startsWith "docs=" then
            match outs? (dpart.drop 5).toString with
            | some iouts =>
              match checkDocs repo docs iouts 0 with
              | none => answer model
              | some why => specFail model ("readback-" ++ why)
            | none => badCase "impl docs"
          else badCase "impl docs="
        | _ => if impl.startsWith "err@" || impl.startsWith "panic@" then answer model else badCase "impl shape"
    | _, _, _, _ => badCase "shard fields"
  | _ => badCase "op"

def main : IO Unit := runLines handle
end ZoektModel.C09
